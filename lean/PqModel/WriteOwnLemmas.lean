import PqModel.WriteOwn

/-! # Frame lemmas for `PqModel.WriteOwn`: each mirror is `Safe` when its inner writer is

`Safe pv pr w`: from any state whose owned headers point to unprotected arrays of the right kind, any
`[]Row` memory that keeps the typing discipline and any memories in which the protected arrays exist
(`Good`), one `WriteRows` call keeps every protected `[]Value` array and every protected `[]Row` array
cell by cell and re-establishes `Good`. -/
namespace PqModel.WriteOwn

/-! ### stores into `[]Row` arrays -/

theorem mem_writeAt {α : Type} {l xs : List α} {i : Nat} {x : α} (h : x ∈ writeAt l i xs) : x ∈ l ∨ x ∈ xs := by
  unfold writeAt at h
  simp only [List.mem_append] at h
  rcases h with (h | h) | h
  · exact Or.inl (List.mem_of_mem_take h)
  · exact Or.inr h
  · exact Or.inl (List.mem_of_mem_drop h)

theorem tagOf_storeR (rm : RMem) (a i : Nat) (hs : List Hdr) (b : Nat) : tagOf (storeR rm a i hs) b = tagOf rm b := by
  unfold storeR
  by_cases hab : a = b
  · subst hab
    by_cases hlt : a < rm.length
    · simp [tagOf, List.getD_eq_getElem?_getD, List.getElem?_set_self hlt]
    · have : rm.set a (tagOf rm a, writeAt (cellsOf rm a) i hs) = rm := by
        apply List.set_eq_of_length_le; omega
      rw [this]
  · simp [tagOf, List.getD_eq_getElem?_getD, List.getElem?_set_ne hab]

theorem cellsOf_storeR_ne (rm : RMem) (a i : Nat) (hs : List Hdr) {b : Nat} (hab : a ≠ b) :
    cellsOf (storeR rm a i hs) b = cellsOf rm b := by
  simp [storeR, cellsOf, List.getD_eq_getElem?_getD, List.getElem?_set_ne hab]

theorem mem_cellsOf_storeR {rm : RMem} {a i : Nat} {hs : List Hdr} {x : Hdr}
    (h : x ∈ cellsOf (storeR rm a i hs) a) : x ∈ cellsOf rm a ∨ x ∈ hs := by
  by_cases hlt : a < rm.length
  · have : cellsOf (storeR rm a i hs) a = writeAt (cellsOf rm a) i hs := by
      simp [storeR, cellsOf, List.getD_eq_getElem?_getD, List.getElem?_set_self hlt]
    rw [this] at h
    exact mem_writeAt h
  · have : storeR rm a i hs = rm := by
      unfold storeR; apply List.set_eq_of_length_le; omega
    rw [this] at h
    exact Or.inl h

theorem storeR_keeps {pr : Nat → Bool} (rm : RMem) (a i : Nat) (hs : List Hdr) (ha : pr a = false) :
    KeepsR pr rm (storeR rm a i hs) := by
  refine ⟨by simp [storeR], fun b _ => tagOf_storeR rm a i hs b, fun x hx => ?_⟩
  have hne : a ≠ x := by intro e; subst e; simp [ha] at hx
  simp [storeR, List.getElem?_set_ne hne]

/-- a store keeps the typing when the array is one of references, or the stored headers are unprotected -/
theorem storeR_slots {pv : Nat → Bool} {rm : RMem} (hs : SlotsOk pv rm) (a i : Nat) (xs : List Hdr)
    (hx : tagOf rm a = true → ∀ h ∈ xs, pv h.arr = false) : SlotsOk pv (storeR rm a i xs) := by
  intro b hb h hh
  rw [tagOf_storeR] at hb
  by_cases hab : a = b
  · subst hab
    rcases mem_cellsOf_storeR hh with h1 | h1
    · exact hs a hb h h1
    · exact hx hb h h1
  · rw [cellsOf_storeR_ne rm a i xs hab] at hh
    exact hs b hb h hh

theorem tagOf_lt {rm : RMem} {a : Nat} (h : tagOf rm a = true) : a < rm.length := by
  apply Classical.byContradiction
  intro hge
  have : tagOf rm a = false := by
    unfold tagOf
    rw [List.getD_eq_getElem?_getD, List.getElem?_eq_none (Nat.le_of_not_lt hge)]
    rfl
  rw [this] at h
  cases h

theorem tagOf_push_lt (rm : RMem) (x : Bool × List Hdr) {a : Nat} (h : a < rm.length) :
    tagOf (rm ++ [x]) a = tagOf rm a := by
  simp [tagOf, List.getD_eq_getElem?_getD, List.getElem?_append_left h]

theorem cellsOf_push_lt (rm : RMem) (x : Bool × List Hdr) {a : Nat} (h : a < rm.length) :
    cellsOf (rm ++ [x]) a = cellsOf rm a := by
  simp [cellsOf, List.getD_eq_getElem?_getD, List.getElem?_append_left h]

theorem tagOf_push_self (rm : RMem) (x : Bool × List Hdr) : tagOf (rm ++ [x]) rm.length = x.1 := by
  simp [tagOf, List.getD_eq_getElem?_getD]

theorem cellsOf_push_self (rm : RMem) (x : Bool × List Hdr) : cellsOf (rm ++ [x]) rm.length = x.2 := by
  simp [cellsOf, List.getD_eq_getElem?_getD]

theorem push_keeps {pr : Nat → Bool} (rm : RMem) (x : Bool × List Hdr) (hb : BoundedR pr rm) :
    KeepsR pr rm (rm ++ [x]) := by
  refine ⟨by simp, fun a ha => tagOf_push_lt rm x ha, fun a ha => ?_⟩
  have := hb a ha
  simp [List.getElem?_append_left this]

theorem push_slots {pv : Nat → Bool} {rm : RMem} (hs : SlotsOk pv rm) (x : Bool × List Hdr)
    (hx : x.1 = true → ∀ h ∈ x.2, pv h.arr = false) : SlotsOk pv (rm ++ [x]) := by
  intro b hb h hh
  have hlt := tagOf_lt hb
  simp only [List.length_append, List.length_cons, List.length_nil] at hlt
  by_cases hbl : b < rm.length
  · rw [tagOf_push_lt rm x hbl] at hb
    rw [cellsOf_push_lt rm x hbl] at hh
    exact hs b hb h hh
  · have : b = rm.length := by omega
    subst this
    rw [tagOf_push_self] at hb
    rw [cellsOf_push_self] at hh
    exact hx hb h hh

theorem fresh_unprot {pr : Nat → Bool} {rm : RMem} (hb : BoundedR pr rm) : pr rm.length = false := by
  cases hp : pr rm.length with
  | false => rfl
  | true => exact absurd (hb _ hp) (Nat.lt_irrefl _)

theorem fresh_unprot_v {pv : Nat → Bool} {m : Mem} (hb : Bounded pv m) : pv m.length = false := by
  cases hp : pv m.length with
  | false => rfl
  | true => exact absurd (hb _ hp) (Nat.lt_irrefl _)

theorem mem_rowsOf {rm : RMem} {h : RHdr} {x : Hdr} (hx : x ∈ rowsOf rm h) : x ∈ cellsOf rm h.arr :=
  List.mem_of_mem_drop (List.mem_of_mem_take hx)

/-- `append` on an unprotected `[]Row` array of kind `tag`: protected arrays are kept, the result is
    again an unprotected existing array of kind `tag`, the typing is kept when the appended headers
    fit the kind -/
theorem appendR_spec {pv pr : Nat → Bool} (rm : RMem) (tag : Bool) (h : RHdr) (xs : List Hdr)
    (hbr : BoundedR pr rm) (hs : SlotsOk pv rm) (hp : pr h.arr = false) (hl : h.arr < rm.length)
    (ht : tagOf rm h.arr = tag) (hx : tag = true → ∀ x ∈ xs, pv x.arr = false) :
    KeepsR pr rm (appendR rm tag h xs).1 ∧ SlotsOk pv (appendR rm tag h xs).1 ∧
      pr (appendR rm tag h xs).2.arr = false ∧ (appendR rm tag h xs).2.arr < (appendR rm tag h xs).1.length ∧
      tagOf (appendR rm tag h xs).1 (appendR rm tag h xs).2.arr = tag := by
  unfold appendR
  split
  · refine ⟨storeR_keeps rm _ _ _ hp, storeR_slots hs _ _ _ (fun h1 => hx (ht ▸ h1)), hp, ?_, ?_⟩
    · simpa [storeR] using hl
    · simpa [tagOf_storeR] using ht
  · refine ⟨push_keeps rm _ hbr, push_slots hs _ ?_, fresh_unprot hbr, by simp, tagOf_push_self rm _⟩
    intro htag x hxm
    simp only at htag hxm
    rcases List.mem_append.mp hxm with h1 | h1
    · exact hs h.arr (ht.trans htag) x (mem_rowsOf h1)
    · exact hx htag x h1

theorem Good.mk' {pv pr : Nat → Bool} {st st' : St} {m m' : Mem} {rm rm' : RMem} (hg : Good pv pr st m rm)
    (hk : Keeps pv m m') (hkr : KeepsR pr rm rm') (hs : SlotsOk pv rm') (ho : Own pv pr st' rm') :
    Good pv pr st' m' rm' :=
  ⟨ho, hs, hg.bm.mono hk, hg.br.mono hkr⟩

theorem untagged {pv : Nat → Bool} {rm : RMem} {a : Nat} {xs : List Hdr} (ht : tagOf rm a = false) :
    tagOf rm a = true → ∀ h ∈ xs, pv h.arr = false := by
  intro h1
  rw [ht] at h1
  cases h1

/-! ### leaves -/

theorem sink_safe (pv pr : Nat → Bool) (id failAt : Nat) : Safe pv pr (sinkWrite id failAt) := by
  intro st m rm rows hg
  have hn := hg.own.node id
  unfold sinkWrite
  simp only []
  split
  · exact ⟨Keeps.refl _ _, KeepsR.refl _ _, ⟨hg.own.set id ⟨hn.1, hn.2.1, hn.2.2⟩, hg.slots, hg.bm, hg.br⟩⟩
  · exact ⟨Keeps.refl _ _, KeepsR.refl _ _, ⟨hg.own.set id ⟨hn.1, hn.2.1, hn.2.2⟩, hg.slots, hg.bm, hg.br⟩⟩

/-- invariant of the `RowBuffer.WriteRows` loop -/
def RowbufInv (pv pr : Nat → Bool) (m0 : Mem) (rm0 : RMem) (acc : Mem × RMem × Hdr × RHdr) : Prop :=
  Keeps pv m0 acc.1 ∧ KeepsR pr rm0 acc.2.1 ∧ Bounded pv acc.1 ∧ BoundedR pr acc.2.1 ∧ SlotsOk pv acc.2.1 ∧
    pv acc.2.2.1.arr = false ∧
    (pr acc.2.2.2.arr = false ∧ acc.2.2.2.arr < acc.2.1.length ∧ tagOf acc.2.1 acc.2.2.2.arr = true)

theorem rowbufStep_inv {pv pr : Nat → Bool} {m0 : Mem} {rm0 : RMem} {acc : Mem × RMem × Hdr × RHdr} (r : Hdr)
    (hi : RowbufInv pv pr m0 rm0 acc) : RowbufInv pv pr m0 rm0 (rowbufStep acc r) := by
  obtain ⟨m, rm, vals, slots⟩ := acc
  obtain ⟨hk, hkr, hb, hbr, hs, hv, hp, hl, ht⟩ := hi
  have ha := append_keeps m vals (row m r) hb hv
  have hx : true = true → ∀ x ∈ [(⟨(append m vals (row m r)).2.arr, (append m vals (row m r)).2.off + vals.len, r.len, r.len⟩ : Hdr)],
      pv x.arr = false := by
    intro _ x hxm
    simp only [List.mem_singleton] at hxm
    subst hxm
    exact ha.2
  have hr := appendR_spec rm true slots _ hbr hs hp hl ht hx
  unfold rowbufStep
  simp only []
  exact ⟨hk.trans ha.1, hkr.trans hr.1, hb.mono ha.1, hbr.mono hr.1, hr.2.1, ha.2, hr.2.2.1, hr.2.2.2.1, hr.2.2.2.2⟩

theorem foldl_rowbuf_inv {pv pr : Nat → Bool} {m0 : Mem} {rm0 : RMem} (rows : List Hdr) :
    ∀ acc, RowbufInv pv pr m0 rm0 acc → RowbufInv pv pr m0 rm0 (rows.foldl rowbufStep acc) := by
  induction rows with
  | nil => intro acc h; exact h
  | cons r rs ih => intro acc h; exact ih _ (rowbufStep_inv r h)

theorem rowbuf_safe (pv pr : Nat → Bool) (id : Nat) : Safe pv pr (rowbufWrite id) := by
  intro st m rm rows hg
  have hn := hg.own.node id
  have hi : RowbufInv pv pr m rm (m, rm, (st.node id).hdr, (st.node id).slots) :=
    ⟨Keeps.refl _ _, KeepsR.refl _ _, hg.bm, hg.br, hg.slots, hn.2.2, hn.2.1.1, tagOf_lt hn.2.1.2, hn.2.1.2⟩
  have := foldl_rowbuf_inv (rowsOf rm rows) _ hi
  unfold rowbufWrite
  generalize (rowsOf rm rows).foldl rowbufStep (m, rm, (st.node id).hdr, (st.node id).slots) = acc at this
  obtain ⟨m1, rm1, vals1, slots1⟩ := acc
  obtain ⟨hk, hkr, hb, hbr, hs, hv, hp, hl, ht⟩ := this
  have ho1 := hg.own.mono hkr
  exact ⟨hk, hkr, ⟨ho1.set id ⟨(ho1.node id).1, ⟨hp, ht⟩, hv⟩, hs, hb, hbr⟩⟩

/-! ### filter (repaired) -/

theorem filterInit_spec {pv pr : Nat → Bool} (id : Nat) {st : St} {m : Mem} {rm : RMem} (hg : Good pv pr st m rm) :
    KeepsR pr rm (filterInit id st rm).2 ∧ Good pv pr (filterInit id st rm).1 m (filterInit id st rm).2 := by
  unfold filterInit
  split
  · exact ⟨KeepsR.refl _ _, hg⟩
  · have hk := push_keeps rm (false, List.replicate filterRowBufferSize Hdr.nil) hg.br
    have hs := push_slots hg.slots (false, List.replicate filterRowBufferSize Hdr.nil)
      (by intro h; cases h)
    have ho := hg.own.mono hk
    have hn := ho.node id
    refine ⟨hk, ⟨ho.set id ⟨⟨fresh_unprot hg.br, by simp, tagOf_push_self rm _⟩, hn.2.1, hn.2.2⟩, hs, hg.bm, hg.br.mono hk⟩⟩

theorem filterChunks_safe {pv pr : Nat → Bool} (B : Beh) (id k : Nat) {inner : Writer}
    (hin : Safe pv pr inner) (m0 : Mem) (rm0 : RMem) :
    ∀ (cs : List (List Hdr)) (st : St) (m : Mem) (rm : RMem) (n : Nat), Good pv pr st m rm →
      Keeps pv m0 m → KeepsR pr rm0 rm →
      Keeps pv m0 (filterChunks B id k inner cs st m rm n).2.1 ∧
      KeepsR pr rm0 (filterChunks B id k inner cs st m rm n).2.2.1 ∧
      Good pv pr (filterChunks B id k inner cs st m rm n).1 (filterChunks B id k inner cs st m rm n).2.1
        (filterChunks B id k inner cs st m rm n).2.2.1 := by
  intro cs
  induction cs with
  | nil => intro st m rm n hg hk hkr; exact ⟨hk, hkr, hg⟩
  | cons c cs ih =>
    intro st m rm n hg hk hkr
    have hn := hg.own.node id
    have hk1 := storeR_keeps (pr := pr) rm (st.node id).held.arr (st.node id).held.off
      (c.filter fun h => B.pred k (row m h)) hn.1.1
    have hs1 := storeR_slots hg.slots (st.node id).held.arr (st.node id).held.off
      (c.filter fun h => B.pred k (row m h)) (untagged hn.1.2.2)
    have hg1 : Good pv pr st m (storeR rm (st.node id).held.arr (st.node id).held.off
        (c.filter fun h => B.pred k (row m h))) := ⟨hg.own.mono hk1, hs1, hg.bm, hg.br.mono hk1⟩
    unfold filterChunks
    simp only []
    split
    · have hs := hin st m _ ⟨(st.node id).held.arr, (st.node id).held.off,
        (c.filter fun h => B.pred k (row m h)).length, (st.node id).held.cap⟩ hg1
      split
      · exact ⟨hk.trans hs.1, (hkr.trans hk1).trans hs.2.1, hs.2.2⟩
      · exact ih _ _ _ _ hs.2.2 (hk.trans hs.1) ((hkr.trans hk1).trans hs.2.1)
    · exact ih _ _ _ _ hg1 hk (hkr.trans hk1)

theorem filter_safe (pv pr : Nat → Bool) (B : Beh) (id k : Nat) {inner : Writer}
    (hin : Safe pv pr inner) (shadow : Bool) : Safe pv pr (filterWrite B false shadow id k inner) := by
  intro st m rm rows hg
  have h0 := filterInit_spec id hg
  have := filterChunks_safe B id k hin m (filterInit id st rm).2
    (chunks filterRowBufferSize (rowsOf (filterInit id st rm).2 rows).length (rowsOf (filterInit id st rm).2 rows))
    _ m _ 0 h0.2 (Keeps.refl _ _) (KeepsR.refl _ _)
  unfold filterWrite
  simp only [Bool.false_eq_true, if_false]
  obtain ⟨hk, hkr, hg1⟩ := this
  have hn1 := hg1.own.node id
  have hk2 := storeR_keeps (pr := pr) (filterChunks B id k inner
      (chunks filterRowBufferSize (rowsOf (filterInit id st rm).2 rows).length (rowsOf (filterInit id st rm).2 rows))
      (filterInit id st rm).1 m (filterInit id st rm).2 0).2.2.1 _ ((filterChunks B id k inner
      (chunks filterRowBufferSize (rowsOf (filterInit id st rm).2 rows).length (rowsOf (filterInit id st rm).2 rows))
      (filterInit id st rm).1 m (filterInit id st rm).2 0).1.node id).held.off
      (List.replicate ((filterChunks B id k inner
      (chunks filterRowBufferSize (rowsOf (filterInit id st rm).2 rows).length (rowsOf (filterInit id st rm).2 rows))
      (filterInit id st rm).1 m (filterInit id st rm).2 0).1.node id).held.len Hdr.nil) hn1.1.1
  exact ⟨hk, (h0.1.trans hkr).trans hk2,
    ⟨hg1.own.mono hk2, storeR_slots hg1.slots _ _ _ (untagged hn1.1.2.2), hg1.bm, hg1.br.mono hk2⟩⟩

/-! ### transform -/

theorem slotAt_unprot {pv : Nat → Bool} {rm : RMem} (hs : SlotsOk pv rm) (h0 : pv 0 = false) (sl : RHdr)
    (ht : tagOf rm sl.arr = true) (i : Nat) : pv (slotAt rm sl i).arr = false := by
  unfold slotAt
  rw [List.getD_eq_getElem?_getD]
  cases h : (cellsOf rm sl.arr)[sl.off + i]? with
  | none => exact h0
  | some x => exact hs _ ht x (List.mem_of_getElem? h)

/-- invariant of the loop of `transformRowWriter.writeRows` over `t.rows` = `sl` -/
def TrInv (pv pr : Nat → Bool) (sl : RHdr) (m0 : Mem) (rm0 : RMem) (acc : Mem × RMem × Nat × Bool) : Prop :=
  Keeps pv m0 acc.1 ∧ KeepsR pr rm0 acc.2.1 ∧ Bounded pv acc.1 ∧ BoundedR pr acc.2.1 ∧ SlotsOk pv acc.2.1 ∧
    tagOf acc.2.1 sl.arr = true

theorem one_unprot {pv : Nat → Bool} {rm : RMem} {a : Nat} {x : Hdr} (hx : pv x.arr = false) :
    tagOf rm a = true → ∀ h ∈ [x], pv h.arr = false := by
  intro _ h hh
  simp only [List.mem_singleton] at hh
  subst hh
  exact hx

theorem transformStep_inv {pv pr : Nat → Bool} (B : Beh) (k : Nat) (sl : RHdr) {m0 : Mem} {rm0 : RMem}
    (h0 : pv 0 = false) (hp : pr sl.arr = false)
    {acc : Mem × RMem × Nat × Bool} (src : Hdr) (hi : TrInv pv pr sl m0 rm0 acc) :
    TrInv pv pr sl m0 rm0 (transformStep B k sl acc src) := by
  obtain ⟨m, rm, num, failed⟩ := acc
  obtain ⟨hk, hkr, hb, hbr, hs, ht⟩ := hi
  have hd : pv ({ slotAt rm sl num with len := 0 } : Hdr).arr = false := slotAt_unprot hs h0 sl ht num
  have stepR : ∀ x : Hdr, pv x.arr = false →
      KeepsR pr rm0 (storeR rm sl.arr (sl.off + num) [x]) ∧ BoundedR pr (storeR rm sl.arr (sl.off + num) [x]) ∧
      SlotsOk pv (storeR rm sl.arr (sl.off + num) [x]) ∧ tagOf (storeR rm sl.arr (sl.off + num) [x]) sl.arr = true := by
    intro x hx
    have hk1 := storeR_keeps (pr := pr) rm sl.arr (sl.off + num) [x] hp
    exact ⟨hkr.trans hk1, hbr.mono hk1, storeR_slots hs _ _ _ (one_unprot hx), by rw [tagOf_storeR]; exact ht⟩
  unfold transformStep
  simp only []
  split
  · exact ⟨hk, hkr, hb, hbr, hs, ht⟩
  · split
    · exact ⟨hk, hkr, hb, hbr, hs, ht⟩
    · have := stepR _ hd
      exact ⟨hk, this.1, hb, this.2.1, this.2.2.1, this.2.2.2⟩
    · have ha := append_keeps m _ (row m src) hb hd
      have := stepR _ ha.2
      exact ⟨hk.trans ha.1, this.1, hb.mono ha.1, this.2.1, this.2.2.1, this.2.2.2⟩
    · have ha := append_keeps m _ (row m src) hb hd
      have ha2 := append_keeps _ _ (row (append m { slotAt rm sl num with len := 0 } (row m src)).1 src)
        (hb.mono ha.1) ha.2
      have := stepR _ ha2.2
      exact ⟨(hk.trans ha.1).trans ha2.1, this.1, (hb.mono ha.1).mono ha2.1, this.2.1, this.2.2.1, this.2.2.2⟩

theorem foldl_transform_inv {pv pr : Nat → Bool} (B : Beh) (k : Nat) (sl : RHdr) {m0 : Mem} {rm0 : RMem}
    (h0 : pv 0 = false) (hp : pr sl.arr = false) (c : List Hdr) :
    ∀ acc, TrInv pv pr sl m0 rm0 acc → TrInv pv pr sl m0 rm0 (c.foldl (transformStep B k sl) acc) := by
  induction c with
  | nil => intro acc h; exact h
  | cons r rs ih => intro acc h; exact ih _ (transformStep_inv B k sl h0 hp r h)

theorem clearSlots_inv {pv pr : Nat → Bool} {m0 : Mem} {rm0 : RMem} (h0 : pv 0 = false) (sl : RHdr)
    (hp : pr sl.arr = false) :
    ∀ (fuel i : Nat) (m : Mem) (rm : RMem), TrInv pv pr sl m0 rm0 (m, rm, 0, false) →
      TrInv pv pr sl m0 rm0 ((clearSlots sl fuel i m rm).1, (clearSlots sl fuel i m rm).2, 0, false) := by
  intro fuel
  induction fuel with
  | zero => intro i m rm h; exact h
  | succ f ih =>
    intro i m rm h
    obtain ⟨hk, hkr, hb, hbr, hs, ht⟩ := h
    have hd : pv (slotAt rm sl i).arr = false := slotAt_unprot hs h0 sl ht i
    have hc := clearValues_keeps (pv := pv) m (slotAt rm sl i) hd
    have hk1 := storeR_keeps (pr := pr) rm sl.arr (sl.off + i) [{ slotAt rm sl i with len := 0 }] hp
    unfold clearSlots
    exact ih _ _ _ ⟨hk.trans hc, hkr.trans hk1, hb.mono hc, hbr.mono hk1,
      storeR_slots hs _ _ _ (one_unprot (x := { slotAt rm sl i with len := 0 }) hd), by rw [tagOf_storeR]; exact ht⟩

theorem transformChunks_safe {pv pr : Nat → Bool} (B : Beh) (id k : Nat) {inner : Writer}
    (hin : Safe pv pr inner) :
    ∀ (cs : List (List Hdr)) (st : St) (m : Mem) (rm : RMem) (n : Nat), Good pv pr st m rm →
      Keeps pv m (transformChunks B id k inner cs st m rm n).m ∧
      KeepsR pr rm (transformChunks B id k inner cs st m rm n).rm ∧
      Good pv pr (transformChunks B id k inner cs st m rm n).st (transformChunks B id k inner cs st m rm n).m
        (transformChunks B id k inner cs st m rm n).rm := by
  intro cs
  induction cs with
  | nil => intro st m rm n hg; exact ⟨Keeps.refl _ _, KeepsR.refl _ _, hg⟩
  | cons c cs ih =>
    intro st m rm n hg
    have hn := hg.own.node id
    have h0 := hg.own.pv0
    have hf := foldl_transform_inv (m0 := m) (rm0 := rm) B k (st.node id).slots h0 hn.2.1.1 c (m, rm, 0, false)
      ⟨Keeps.refl _ _, KeepsR.refl _ _, hg.bm, hg.br, hg.slots, hn.2.1.2⟩
    unfold transformChunks
    simp only []
    generalize c.foldl (transformStep B k (st.node id).slots) (m, rm, 0, false) = acc at hf ⊢
    obtain ⟨m1, rm1, num, failed⟩ := acc
    have hf' : TrInv pv pr (st.node id).slots m rm (m1, rm1, 0, false) := hf
    obtain ⟨hk1, hkr1, hb1, hbr1, hs1, ht1⟩ := hf
    simp only []
    split
    · have hc := clearSlots_inv h0 (st.node id).slots hn.2.1.1 num 0 m1 rm1 hf'
      obtain ⟨hk2, hkr2, hb2, hbr2, hs2, _⟩ := hc
      exact ⟨hk2, hkr2, ⟨hg.own.mono hkr2, hs2, hb2, hbr2⟩⟩
    · have hg1 : Good pv pr st m1 rm1 := ⟨hg.own.mono hkr1, hs1, hb1, hbr1⟩
      have hs := hin st m1 rm1 ⟨(st.node id).slots.arr, (st.node id).slots.off, num, (st.node id).slots.cap⟩ hg1
      obtain ⟨hki, hkri, hgi⟩ := hs
      have hn2 := hgi.own.node id
      have hc := clearSlots_inv (m0 := (inner st m1 rm1 ⟨(st.node id).slots.arr, (st.node id).slots.off, num, (st.node id).slots.cap⟩).m)
        (rm0 := (inner st m1 rm1 ⟨(st.node id).slots.arr, (st.node id).slots.off, num, (st.node id).slots.cap⟩).rm)
        hgi.own.pv0 _ hn2.2.1.1 num 0 _ _
        ⟨Keeps.refl _ _, KeepsR.refl _ _, hgi.bm, hgi.br, hgi.slots, hn2.2.1.2⟩
      obtain ⟨hk2, hkr2, hb2, hbr2, hs2, _⟩ := hc
      have hg2 := Good.mk' hgi hk2 hkr2 hs2 (hgi.own.mono hkr2)
      split
      · exact ⟨(hk1.trans hki).trans hk2, (hkr1.trans hkri).trans hkr2, hg2⟩
      · have := ih _ _ _ (n + c.length) hg2
        exact ⟨((hk1.trans hki).trans hk2).trans this.1, ((hkr1.trans hkri).trans hkr2).trans this.2.1, this.2.2⟩

theorem transformInit_spec {pv pr : Nat → Bool} (id : Nat) {st : St} {m : Mem} {rm : RMem} (n : Nat)
    (hg : Good pv pr st m rm) :
    Keeps pv m (transformInit id st m rm n).2.1 ∧ KeepsR pr rm (transformInit id st m rm n).2.2 ∧
      Good pv pr (transformInit id st m rm n).1 (transformInit id st m rm n).2.1 (transformInit id st m rm n).2.2 := by
  unfold transformInit
  split
  · have hl := fresh_unprot_v hg.bm
    have hkm : Keeps pv m (makeRows m rm n).1 := by
      refine ⟨by simp [makeRows], fun x hx => ?_⟩
      have := hg.bm x hx
      simp [makeRows, List.getElem?_append_left this]
    have hk := push_keeps rm (true, (List.range n).map fun i => (⟨m.length, i, 0, 1⟩ : Hdr)) hg.br
    have hs := push_slots hg.slots (true, (List.range n).map fun i => (⟨m.length, i, 0, 1⟩ : Hdr)) (by
      intro _ h hh
      simp only [List.mem_map] at hh
      obtain ⟨i, _, rfl⟩ := hh
      exact hl)
    have ho := hg.own.mono hk
    have hn := ho.node id
    exact ⟨hkm, hk, ⟨ho.set id ⟨hn.1, ⟨fresh_unprot hg.br, tagOf_push_self rm _⟩, hn.2.2⟩, hs, hg.bm.mono hkm, hg.br.mono hk⟩⟩
  · exact ⟨Keeps.refl _ _, KeepsR.refl _ _, hg⟩

theorem transform_safe (pv pr : Nat → Bool) (B : Beh) (id k : Nat) {inner : Writer}
    (hin : Safe pv pr inner) : Safe pv pr (transformWrite B id k inner) := by
  intro st m rm rows hg
  have h0 := transformInit_spec id (rowsOf rm rows).length hg
  have := transformChunks_safe B id k hin
    (chunks ((transformInit id st m rm (rowsOf rm rows).length).1.node id).slots.len (rowsOf rm rows).length (rowsOf rm rows))
    _ _ _ 0 h0.2.2
  unfold transformWrite
  simp only []
  exact ⟨h0.1.trans this.1, h0.2.1.trans this.2.1, this.2.2⟩

/-! ### dedupe, multi -/

theorem deduplicate_spec {pv pr : Nat → Bool} (B : Beh) (k : Nat) (m : Mem) (rm : RMem) (last : Hdr) (rows : RHdr)
    (hb : Bounded pv m) (hs : SlotsOk pv rm) (hl : pv last.arr = false) (hp : pr rows.arr = false)
    (ht : tagOf rm rows.arr = false) :
    Keeps pv m (deduplicate B k m rm last rows).1 ∧ KeepsR pr rm (deduplicate B k m rm last rows).2.1 ∧
      SlotsOk pv (deduplicate B k m rm last rows).2.1 ∧ pv (deduplicate B k m rm last rows).2.2.1.arr = false := by
  unfold deduplicate
  generalize (rowsOf rm rows).foldl (dedupeStep B k m) (last, [], []) = acc
  obtain ⟨lastRow, uniq, dupe⟩ := acc
  simp only []
  have hd : pv ({ last with len := 0 } : Hdr).arr = false := hl
  have ha := append_keeps m { last with len := 0 } (row m lastRow) hb hd
  exact ⟨ha.1, storeR_keeps rm _ _ _ hp, storeR_slots hs _ _ _ (untagged ht), ha.2⟩

theorem dedupe_safe (pv pr : Nat → Bool) (B : Beh) (id k : Nat) {inner : Writer}
    (hin : Safe pv pr inner) : Safe pv pr (dedupeWrite B id k inner) := by
  intro st m rm rows hg
  have hn := hg.own.node id
  have ha := appendR_spec (pv := pv) rm false (st.node id).held.empty (rowsOf rm rows) hg.br hg.slots
    hn.1.1 hn.1.2.1 hn.1.2.2 (by intro h; cases h)
  unfold dedupeWrite
  simp only []
  generalize appendR rm false (st.node id).held.empty (rowsOf rm rows) = ar at ha ⊢
  obtain ⟨rm0, dr⟩ := ar
  simp only [] at ha ⊢
  obtain ⟨hkr0, hs0, hp0, hl0, ht0⟩ := ha
  have hd := deduplicate_spec (pr := pr) B k m rm0 (st.node id).hdr dr hg.bm hs0 hn.2.2 hp0 ht0
  generalize deduplicate B k m rm0 (st.node id).hdr dr = dd at hd ⊢
  obtain ⟨m1, rm1, last1, n⟩ := dd
  simp only [] at hd ⊢
  obtain ⟨hk1, hkr1, hs1, hv1⟩ := hd
  have hkr01 := hkr0.trans hkr1
  have ho1 := hg.own.mono hkr01
  have hn1 := (hn.mono hkr01)
  have ht1 : tagOf rm1 dr.arr = false := (hkr1.2.1 _ hl0).trans ht0
  have hl1 : dr.arr < rm1.length := Nat.lt_of_lt_of_le hl0 hkr1.1
  have hg1 : Good pv pr (st.set id { st.node id with hdr := last1, held := dr }) m1 rm1 :=
    Good.mk' hg hk1 hkr01 hs1 (ho1.set id ⟨⟨hp0, hl1, ht1⟩, hn1.2.1, hv1⟩)
  split
  · have hs := hin _ _ _ ⟨dr.arr, dr.off, n, dr.cap⟩ hg1
    generalize inner (st.set id { st.node id with hdr := last1, held := dr }) m1 rm1 ⟨dr.arr, dr.off, n, dr.cap⟩ = r at hs ⊢
    obtain ⟨hki, hkri, hgi⟩ := hs
    have hn2 := hgi.own.node id
    have hk2 := storeR_keeps (pr := pr) r.rm (r.st.node id).held.arr (r.st.node id).held.off
      (List.replicate (r.st.node id).held.len Hdr.nil) hn2.1.1
    have hg2 := Good.mk' hgi (Keeps.refl _ _) hk2 (storeR_slots hgi.slots _ _ _ (untagged hn2.1.2.2)) (hgi.own.mono hk2)
    split
    · exact ⟨hk1.trans hki, (hkr01.trans hkri).trans hk2, hg2⟩
    · exact ⟨hk1.trans hki, (hkr01.trans hkri).trans hk2, hg2⟩
  · have hk2 := storeR_keeps (pr := pr) rm1 dr.arr dr.off (List.replicate dr.len Hdr.nil) hp0
    exact ⟨hk1, hkr01.trans hk2, Good.mk' hg1 (Keeps.refl _ _) hk2 (storeR_slots hg1.slots _ _ _ (untagged ht1)) (hg1.own.mono hk2)⟩

theorem multi_safe (pv pr : Nat → Bool) {wa wb : Writer} (ha : Safe pv pr wa) (hb' : Safe pv pr wb) :
    Safe pv pr (multiWrite wa wb) := by
  intro st m rm rows hg
  have h1 := ha st m rm rows hg
  have h2 := hb' _ _ _ rows h1.2.2
  have h12 : Keeps pv m (wb (wa st m rm rows).st (wa st m rm rows).m (wa st m rm rows).rm rows).m ∧
      KeepsR pr rm (wb (wa st m rm rows).st (wa st m rm rows).m (wa st m rm rows).rm rows).rm ∧
      Good pv pr (wb (wa st m rm rows).st (wa st m rm rows).m (wa st m rm rows).rm rows).st
        (wb (wa st m rm rows).st (wa st m rm rows).m (wa st m rm rows).rm rows).m
        (wb (wa st m rm rows).st (wa st m rm rows).m (wa st m rm rows).rm rows).rm :=
    ⟨h1.1.trans h2.1, h1.2.1.trans h2.2.1, h2.2.2⟩
  unfold multiWrite
  simp only []
  split
  · exact h1
  · split
    · exact h1
    · split
      · exact h12
      · split
        · exact h12
        · exact h12

/-- every writer object built from the mirrors, without an unrepaired filter node, is safe -/
theorem write_safe (pv pr : Nat → Bool) (B : Beh) : ∀ sh : Shape, sh.repaired = true → Safe pv pr (write B sh) := by
  intro sh
  induction sh with
  | sink id failAt => intro _; exact sink_safe pv pr id failAt
  | rowbuf id => intro _; exact rowbuf_safe pv pr id
  | filter asIs id k inner ih =>
    intro h
    simp only [Shape.repaired, Bool.and_eq_true, Bool.not_eq_eq_eq_not, Bool.not_true] at h
    obtain ⟨h1, h2⟩ := h
    subst h1
    exact filter_safe pv pr B id k (ih h2) false
  | transform id k inner ih => intro h; exact transform_safe pv pr B id k (ih h)
  | dedupe id k inner ih => intro h; exact dedupe_safe pv pr B id k (ih h)
  | multi a b iha ihb =>
    intro h
    simp only [Shape.repaired, Bool.and_eq_true] at h
    exact multi_safe pv pr (iha h.1) (ihb h.2)

theorem run_safe (pv pr : Nat → Bool) (B : Beh) (sh : Shape) (hr : sh.repaired = true) :
    ∀ (batches : List RHdr) (st : St) (m : Mem) (rm : RMem), Good pv pr st m rm →
      Keeps pv m (run B sh batches st m rm).m ∧ KeepsR pr rm (run B sh batches st m rm).rm ∧
        Good pv pr (run B sh batches st m rm).st (run B sh batches st m rm).m (run B sh batches st m rm).rm := by
  intro batches
  induction batches with
  | nil => intro st m rm hg; exact ⟨Keeps.refl _ _, KeepsR.refl _ _, hg⟩
  | cons b bs ih =>
    intro st m rm hg
    have h1 := write_safe pv pr B sh hr st m rm b hg
    have h2 := ih _ _ _ h1.2.2
    exact ⟨h1.1.trans h2.1, h1.2.1.trans h2.2.1, h2.2.2⟩

end PqModel.WriteOwn
