import PqModel.WriteOwn

/-! # Frame lemmas for `PqModel.WriteOwn`: each mirror is `Safe` when its inner writer is

`Safe pv w`: from any state whose owned headers point to unprotected arrays and any memory in which
the protected arrays exist, one `WriteRows` call keeps every protected array cell by cell and
re-establishes the invariant. -/
namespace PqModel.WriteOwn

def Unprot (pv : Nat → Bool) (l : List Hdr) : Prop := ∀ h ∈ l, pv h.arr = false

theorem Unprot.getD {pv : Nat → Bool} {l : List Hdr} (hl : Unprot pv l) (h0 : pv 0 = false) (i : Nat) :
    pv (l.getD i Hdr.nil).arr = false := by
  rw [List.getD_eq_getElem?_getD]
  cases h : l[i]? with
  | none => exact h0
  | some x => exact hl x (List.mem_of_getElem? h)

theorem Unprot.set {pv : Nat → Bool} {l : List Hdr} (hl : Unprot pv l) (i : Nat) {x : Hdr}
    (hx : pv x.arr = false) : Unprot pv (l.set i x) := by
  intro h hh
  rcases List.mem_or_eq_of_mem_set hh with h1 | h1
  · exact hl h h1
  · exact h1 ▸ hx

theorem Unprot.take {pv : Nat → Bool} {l : List Hdr} (hl : Unprot pv l) (n : Nat) : Unprot pv (l.take n) :=
  fun h hh => hl h (List.mem_of_mem_take hh)

/-! ### leaves -/

theorem sink_safe (pv : Nat → Bool) (id failAt : Nat) : Safe pv (sinkWrite id failAt) := by
  intro st m rows ho _
  have hn := ho.node id
  unfold sinkWrite
  simp only []
  split
  · exact ⟨Keeps.refl _ _, ho.set id ⟨hn.1, hn.2⟩⟩
  · exact ⟨Keeps.refl _ _, ho.set id ⟨hn.1, hn.2⟩⟩

/-- invariant of the `RowBuffer.WriteRows` loop -/
def RowbufInv (pv : Nat → Bool) (m0 : Mem) (acc : Mem × Hdr × List Hdr) : Prop :=
  Keeps pv m0 acc.1 ∧ Bounded pv acc.1 ∧ pv acc.2.1.arr = false ∧ Unprot pv acc.2.2

theorem rowbufStep_inv {pv : Nat → Bool} {m0 : Mem} {acc : Mem × Hdr × List Hdr} (r : Hdr)
    (hi : RowbufInv pv m0 acc) : RowbufInv pv m0 (rowbufStep acc r) := by
  obtain ⟨m, vals, slots⟩ := acc
  obtain ⟨hk, hb, hv, hs⟩ := hi
  have ha := append_keeps m vals (row m r) hb hv
  unfold rowbufStep
  simp only []
  refine ⟨hk.trans ha.1, hb.mono ha.1, ha.2, ?_⟩
  intro h hh
  rcases List.mem_append.mp hh with h1 | h1
  · exact hs h h1
  · simp only [List.mem_singleton] at h1
    subst h1
    exact ha.2

theorem foldl_rowbuf_inv {pv : Nat → Bool} {m0 : Mem} (rows : List Hdr) :
    ∀ acc, RowbufInv pv m0 acc → RowbufInv pv m0 (rows.foldl rowbufStep acc) := by
  induction rows with
  | nil => intro acc h; exact h
  | cons r rs ih => intro acc h; exact ih _ (rowbufStep_inv r h)

theorem rowbuf_safe (pv : Nat → Bool) (id : Nat) : Safe pv (rowbufWrite id) := by
  intro st m rows ho hb
  have hn := ho.node id
  have hi : RowbufInv pv m (m, (st.node id).hdr, (st.node id).slots) := ⟨Keeps.refl _ _, hb, hn.2, hn.1⟩
  have := foldl_rowbuf_inv rows _ hi
  unfold rowbufWrite
  generalize rows.foldl rowbufStep (m, (st.node id).hdr, (st.node id).slots) = acc at this
  obtain ⟨m1, vals1, slots1⟩ := acc
  exact ⟨this.1, ho.set id ⟨this.2.2.2, this.2.2.1⟩⟩

/-! ### filter (repaired) -/

theorem filterChunks_safe {pv : Nat → Bool} (B : Beh) (id k : Nat) {inner : St → Mem → List Hdr → Res}
    (hin : Safe pv inner) (m0 : Mem) :
    ∀ (cs : List (List Hdr)) (st : St) (m : Mem) (n : Nat), Own pv st → Bounded pv m → Keeps pv m0 m →
      Keeps pv m0 (filterChunks B id k inner cs st m n).2.1 ∧ Own pv (filterChunks B id k inner cs st m n).1 := by
  intro cs
  induction cs with
  | nil => intro st m n ho _ hk; exact ⟨hk, ho⟩
  | cons c cs ih =>
    intro st m n ho hb hk
    have hn := ho.node id
    have ho1 : Own pv (st.set id { st.node id with
        held := overwritePrefix (st.node id).held (c.filter fun h => B.pred k (row m h)) }) :=
      ho.set id ⟨hn.1, hn.2⟩
    unfold filterChunks
    simp only []
    split
    · have hs := hin _ m (c.filter fun h => B.pred k (row m h)) ho1 hb
      split
      · exact ⟨hk.trans hs.1, hs.2⟩
      · exact ih _ _ _ hs.2 (hb.mono hs.1) (hk.trans hs.1)
    · exact ih _ _ _ ho1 hb hk

theorem filter_safe (pv : Nat → Bool) (B : Beh) (id k : Nat) {inner : St → Mem → List Hdr → Res}
    (hin : Safe pv inner) : Safe pv (filterWrite B false id k inner) := by
  intro st m rows ho hb
  have hn := ho.node id
  have ho0 : Own pv (if (st.node id).held.length = filterRowBufferSize then st
      else st.set id { st.node id with held := List.replicate filterRowBufferSize Hdr.nil }) := by
    split
    · exact ho
    · exact ho.set id ⟨hn.1, hn.2⟩
  have := filterChunks_safe B id k hin m (chunks filterRowBufferSize rows.length rows) _ m 0 ho0 hb (Keeps.refl _ _)
  unfold filterWrite
  simp only [Bool.false_eq_true, if_false]
  have hn1 := this.2.node id
  exact ⟨this.1, this.2.set id ⟨hn1.1, hn1.2⟩⟩

/-! ### transform -/

/-- invariant of the loop of `transformRowWriter.writeRows` -/
def TrInv (pv : Nat → Bool) (m0 : Mem) (acc : Mem × List Hdr × Nat × Bool) : Prop :=
  Keeps pv m0 acc.1 ∧ Bounded pv acc.1 ∧ Unprot pv acc.2.1

theorem transformStep_inv {pv : Nat → Bool} (B : Beh) (k : Nat) {m0 : Mem} (h0 : pv 0 = false)
    {acc : Mem × List Hdr × Nat × Bool} (src : Hdr) (hi : TrInv pv m0 acc) :
    TrInv pv m0 (transformStep B k acc src) := by
  obtain ⟨m, slots, num, failed⟩ := acc
  obtain ⟨hk, hb, hs⟩ := hi
  have hd : pv ({ slots.getD num Hdr.nil with len := 0 } : Hdr).arr = false := hs.getD h0 num
  unfold transformStep
  simp only []
  split
  · exact ⟨hk, hb, hs⟩
  · split
    · exact ⟨hk, hb, hs⟩
    · exact ⟨hk, hb, hs.set num hd⟩
    · have ha := append_keeps m _ (row m src) hb hd
      exact ⟨hk.trans ha.1, hb.mono ha.1, hs.set num ha.2⟩
    · have ha := append_keeps m _ (row m src) hb hd
      have ha2 := append_keeps _ _ (row (append m { slots.getD num Hdr.nil with len := 0 } (row m src)).1 src)
        (hb.mono ha.1) ha.2
      exact ⟨(hk.trans ha.1).trans ha2.1, (hb.mono ha.1).mono ha2.1, hs.set num ha2.2⟩

theorem foldl_transform_inv {pv : Nat → Bool} (B : Beh) (k : Nat) {m0 : Mem} (h0 : pv 0 = false)
    (c : List Hdr) : ∀ acc, TrInv pv m0 acc → TrInv pv m0 (c.foldl (transformStep B k) acc) := by
  induction c with
  | nil => intro acc h; exact h
  | cons r rs ih => intro acc h; exact ih _ (transformStep_inv B k h0 r h)

theorem clearSlots_inv {pv : Nat → Bool} {m0 : Mem} (h0 : pv 0 = false) :
    ∀ (fuel i : Nat) (m : Mem) (slots : List Hdr), Keeps pv m0 m → Bounded pv m → Unprot pv slots →
      Keeps pv m0 (clearSlots fuel i m slots).1 ∧ Bounded pv (clearSlots fuel i m slots).1 ∧
      Unprot pv (clearSlots fuel i m slots).2 := by
  intro fuel
  induction fuel with
  | zero => intro i m slots hk hb hs; exact ⟨hk, hb, hs⟩
  | succ f ih =>
    intro i m slots hk hb hs
    have hd : pv (slots.getD i Hdr.nil).arr = false := hs.getD h0 i
    have hc := clearValues_keeps (pv := pv) m (slots.getD i Hdr.nil) hd
    unfold clearSlots
    exact ih _ _ _ (hk.trans hc) (hb.mono hc) (hs.set i hd)

theorem transformChunks_safe {pv : Nat → Bool} (B : Beh) (id k : Nat) {inner : St → Mem → List Hdr → Res}
    (hin : Safe pv inner) (m0 : Mem) :
    ∀ (cs : List (List Hdr)) (st : St) (m : Mem) (n : Nat), Own pv st → Bounded pv m → Keeps pv m0 m →
      Keeps pv m0 (transformChunks B id k inner cs st m n).m ∧ Own pv (transformChunks B id k inner cs st m n).st := by
  intro cs
  induction cs with
  | nil => intro st m n ho _ hk; exact ⟨hk, ho⟩
  | cons c cs ih =>
    intro st m n ho hb hk
    have hn := ho.node id
    have hf := foldl_transform_inv B k ho.1 c (m, (st.node id).slots, 0, false) ⟨hk, hb, hn.1⟩
    unfold transformChunks
    generalize c.foldl (transformStep B k) (m, (st.node id).slots, 0, false) = acc at hf
    obtain ⟨m1, slots1, num, failed⟩ := acc
    obtain ⟨hk1, hb1, hs1⟩ := hf
    simp only []
    split
    · have hc := clearSlots_inv ho.1 num 0 m1 slots1 hk1 hb1 hs1
      exact ⟨hc.1, ho.set id ⟨hc.2.2, hn.2⟩⟩
    · have ho1 : Own pv (st.set id { st.node id with slots := slots1 }) := ho.set id ⟨hs1, hn.2⟩
      have hs := hin _ m1 (slots1.take num) ho1 hb1
      have hn2 := hs.2.node id
      have hc := clearSlots_inv hs.2.1 num 0 _ _ (hk1.trans hs.1) (hb1.mono hs.1) hn2.1
      have ho2 := hs.2.set id (ns := { (inner (st.set id { st.node id with slots := slots1 }) m1 (slots1.take num)).st.node id
        with slots := (clearSlots num 0 (inner (st.set id { st.node id with slots := slots1 }) m1 (slots1.take num)).m
          ((inner (st.set id { st.node id with slots := slots1 }) m1 (slots1.take num)).st.node id).slots).2 }) ⟨hc.2.2, hn2.2⟩
      split
      · exact ⟨hc.1, ho2⟩
      · exact ih _ _ _ ho2 hc.2.1 hc.1

theorem makeRows_inv {pv : Nat → Bool} (m : Mem) (n : Nat) (hb : Bounded pv m) :
    Keeps pv m (makeRows m n).1 ∧ Unprot pv (makeRows m n).2 := by
  have hl : pv m.length = false := by
    cases hp : pv m.length with
    | false => rfl
    | true => exact absurd (hb _ hp) (Nat.lt_irrefl _)
  refine ⟨⟨by simp [makeRows], fun x hx => ?_⟩, ?_⟩
  · have := hb x hx
    simp [makeRows, List.getElem?_append_left this]
  · intro h hh
    simp only [makeRows, List.mem_map] at hh
    obtain ⟨i, _, rfl⟩ := hh
    exact hl

theorem transform_safe (pv : Nat → Bool) (B : Beh) (id k : Nat) {inner : St → Mem → List Hdr → Res}
    (hin : Safe pv inner) : Safe pv (transformWrite B id k inner) := by
  intro st m rows ho hb
  have hn := ho.node id
  unfold transformWrite
  split
  next m0 st0 heq =>
    split at heq
    · have hm := makeRows_inv (pv := pv) m rows.length hb
      simp only [Prod.mk.injEq] at heq
      obtain ⟨rfl, rfl⟩ := heq
      have ho0 : Own pv (st.set id { st.node id with slots := (makeRows m rows.length).2 }) :=
        ho.set id ⟨hm.2, hn.2⟩
      exact transformChunks_safe B id k hin m _ _ _ 0 ho0 (hb.mono hm.1) hm.1
    · simp only [Prod.mk.injEq] at heq
      obtain ⟨rfl, rfl⟩ := heq
      exact transformChunks_safe B id k hin m _ _ _ 0 ho hb (Keeps.refl _ _)

/-! ### dedupe, multi -/

theorem dedupe_safe (pv : Nat → Bool) (B : Beh) (id k : Nat) {inner : St → Mem → List Hdr → Res}
    (hin : Safe pv inner) : Safe pv (dedupeWrite B id k inner) := by
  intro st m rows ho hb
  have hn := ho.node id
  unfold dedupeWrite
  simp only []
  generalize rows.foldl (dedupeStep B k m) ((st.node id).hdr, []) = acc
  obtain ⟨lastRow, uniq⟩ := acc
  simp only []
  have hd : pv ({ (st.node id).hdr with len := 0 } : Hdr).arr = false := hn.2
  have ha := append_keeps m _ (row m lastRow) hb hd
  have ho1 : Own pv (st.set id { st.node id with
      hdr := (append m { (st.node id).hdr with len := 0 } (row m lastRow)).2 }) := ho.set id ⟨hn.1, ha.2⟩
  split
  · have hs := hin _ _ uniq ho1 (hb.mono ha.1)
    split
    · exact ⟨ha.1.trans hs.1, hs.2⟩
    · exact ⟨ha.1.trans hs.1, hs.2⟩
  · exact ⟨ha.1, ho1⟩

theorem multi_safe (pv : Nat → Bool) {wa wb : St → Mem → List Hdr → Res} (ha : Safe pv wa) (hb' : Safe pv wb) :
    Safe pv (multiWrite wa wb) := by
  intro st m rows ho hb
  have h1 := ha st m rows ho hb
  have h2 := hb' _ _ rows h1.2 (hb.mono h1.1)
  unfold multiWrite
  simp only []
  split
  · exact h1
  · split
    · exact h1
    · split
      · exact ⟨h1.1.trans h2.1, h2.2⟩
      · split
        · exact ⟨h1.1.trans h2.1, h2.2⟩
        · exact ⟨h1.1.trans h2.1, h2.2⟩

/-- every writer object built from the mirrors, without an unrepaired filter node, is safe -/
theorem write_safe (pv : Nat → Bool) (B : Beh) : ∀ sh : Shape, sh.repaired = true → Safe pv (write B sh) := by
  intro sh
  induction sh with
  | sink id failAt => intro _; exact sink_safe pv id failAt
  | rowbuf id => intro _; exact rowbuf_safe pv id
  | filter asIs id k inner ih =>
    intro h
    simp only [Shape.repaired, Bool.and_eq_true, Bool.not_eq_eq_eq_not, Bool.not_true] at h
    obtain ⟨h1, h2⟩ := h
    subst h1
    exact filter_safe pv B id k (ih h2)
  | transform id k inner ih => intro h; exact transform_safe pv B id k (ih h)
  | dedupe id k inner ih => intro h; exact dedupe_safe pv B id k (ih h)
  | multi a b iha ihb =>
    intro h
    simp only [Shape.repaired, Bool.and_eq_true] at h
    exact multi_safe pv (iha h.1) (ihb h.2)

theorem run_safe (pv : Nat → Bool) (B : Beh) (sh : Shape) (hr : sh.repaired = true) :
    ∀ (batches : List (List Hdr)) (st : St) (m : Mem), Own pv st → Bounded pv m →
      Keeps pv m (run B sh batches st m).2.1 ∧ Own pv (run B sh batches st m).1 := by
  intro batches
  induction batches with
  | nil => intro st m ho _; exact ⟨Keeps.refl _ _, ho⟩
  | cons b bs ih =>
    intro st m ho hb
    have h1 := write_safe pv B sh hr st m b ho hb
    have h2 := ih _ _ h1.2 (hb.mono h1.1)
    exact ⟨h1.1.trans h2.1, h2.2⟩

end PqModel.WriteOwn
