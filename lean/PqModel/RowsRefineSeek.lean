import PqModel.RowsRefineDefs
namespace PqModel.RowsRefine
open PqModel.RowsBuf

/-- every value of `Groups a b vs` has a row in [a, b) -/
theorem Groups.row_bounds {a b vs} (h : Groups a b vs) : a ≤ b ∧ ∀ v ∈ vs, a ≤ v.row ∧ v.row < b := by
  induction h with
  | nil a => exact ⟨Nat.le_refl _, fun v hv => by cases hv⟩
  | cons hr _ hg _ ih =>
    refine ⟨by omega, ?_⟩
    intro w hw
    simp only [List.mem_cons, List.mem_append] at hw
    rcases hw with hw | hw | hw
    · subst hw; omega
    · have := (hg w hw).1; omega
    · have := ih.2 w hw; omega

theorem Groups.append {a m b X Y} (h1 : Groups a m X) (h2 : Groups m b Y) : Groups a b (X ++ Y) := by
  induction h1 with
  | nil a => simpa using h2
  | cons hr hp hg _ ih =>
    have := Groups.cons hr hp hg (ih h2)
    simpa [List.append_assoc] using this

/-- filtering the rows `≥ k` out of rows a..b-1 gives the rows k..b-1 -/
theorem Groups.filter_ge {a b vs} (h : Groups a b vs) (k : Nat) (hak : a ≤ k) (hkb : k ≤ b) :
    Groups k b (vs.filter fun v => decide (k ≤ v.row)) := by
  induction h with
  | nil a =>
    have : k = a := by omega
    subst this
    exact Groups.nil _
  | @cons a b v g rest hr hp hg hrest ih =>
    by_cases hk : k = a
    · subst hk
      have hall := (Groups.cons hr hp hg hrest).row_bounds.2
      have : (v :: (g ++ rest)).filter (fun v => decide (k ≤ v.row)) = v :: (g ++ rest) := by
        apply List.filter_eq_self.2
        intro w hw
        have := hall w hw
        simp; omega
      rw [this]
      exact Groups.cons hr hp hg hrest
    · have hg' : g.filter (fun v => decide (k ≤ v.row)) = [] := by
        apply List.filter_eq_nil_iff.2
        intro w hw
        have := (hg w hw).1
        simp; omega
      have hv : decide (k ≤ v.row) = false := by simp; omega
      rw [List.filter_cons, hv, List.filter_append, hg']
      simpa using ih (by omega) hkb

theorem WfPages.le {f total : Nat} {ps : List Page} (h : WfPages f ps total) : f ≤ total := by
  induction ps generalizing f with
  | nil => simp only [WfPages] at h; omega
  | cons p ps ih =>
    simp only [WfPages] at h
    have := ih h.2.2.2
    omega

/-- the stream from a page boundary -/
theorem pstreamFrom_boundary (f total : Nat) (ps : List Page) (h : WfPages f ps total) :
    Lands f total (pstreamFrom ps 0) := by
  induction ps generalizing f with
  | nil =>
    simp only [WfPages] at h
    exact ⟨f, Groups.nil _, by omega, fun _ => h⟩
  | cons p ps ih =>
    have hle := h.le
    simp only [WfPages] at h
    obtain ⟨hf, hn, hg, hw⟩ := h
    simp only [pstreamFrom]
    by_cases hb : p.bad = true
    · simp only [hb, if_true]
      exact ⟨f, Groups.nil _, hle, fun h => by cases h⟩
    · simp only [hb, hn, if_true]
      obtain ⟨b, hb1, hb2, hb3⟩ := ih _ hw
      refine ⟨b, ?_, hb2, hb3⟩
      have := hg.filter_ge f (Nat.le_refl _) (by omega)
      rw [hf]
      exact Groups.append (by simpa using this) hb1

theorem seek_lands_gen (pages : List Page) : ∀ (f total k : Nat), WfPages f pages total → f ≤ k → k ≤ total →
    Lands k total (pstreamFrom
      (pages.drop ((pages.takeWhile fun p => decide (p.firstRow ≤ k)).length - 1))
      (k - ((pages[(pages.takeWhile fun p => decide (p.firstRow ≤ k)).length - 1]?).map (·.firstRow)).getD 0)) := by
  induction pages with
  | nil =>
    intro f total k h hfk hkt
    simp only [WfPages] at h
    simp only [List.takeWhile_nil, List.drop_nil, pstreamFrom]
    exact ⟨k, Groups.nil _, hkt, fun _ => by omega⟩
  | cons p ps ih =>
    intro f total k h hfk hkt
    have hle := h.le
    simp only [WfPages] at h
    obtain ⟨hf, hn, hg, hw⟩ := h
    have hpk : decide (p.firstRow ≤ k) = true := by simp; omega
    rw [List.takeWhile_cons, hpk]
    simp only [if_true, List.length_cons, Nat.add_sub_cancel]
    by_cases hlt : k < f + p.numRows
    · -- the next page starts after k
      have htw : (ps.takeWhile fun p => decide (p.firstRow ≤ k)) = [] := by
        cases ps with
        | nil => rfl
        | cons q qs =>
          simp only [WfPages] at hw
          have : decide (q.firstRow ≤ k) = false := by simp; omega
          rw [List.takeWhile_cons, this]; rfl
      rw [htw]
      simp only [List.length_nil, List.drop_zero, List.getElem?_cons_zero, Option.map_some,
        Option.getD_some, pstreamFrom]
      by_cases hb : p.bad = true
      · simp only [hb, if_true]
        exact ⟨k, Groups.nil _, hkt, fun h => by cases h⟩
      · have hsk : k - p.firstRow < p.numRows := by omega
        simp only [hb, hsk, if_true]
        obtain ⟨b, hb1, hb2, hb3⟩ := pstreamFrom_boundary _ _ _ hw
        refine ⟨b, ?_, hb2, hb3⟩
        have := hg.filter_ge k hfk (by omega)
        have he : p.firstRow + (k - p.firstRow) = k := by omega
        rw [he]
        exact Groups.append this hb1
    · cases ps with
      | nil =>
        simp only [WfPages] at hw
        simp only [List.takeWhile_nil, List.length_nil, List.drop_zero, List.getElem?_cons_zero,
          Option.map_some, Option.getD_some, pstreamFrom]
        by_cases hb : p.bad = true
        · simp only [hb, if_true]
          exact ⟨k, Groups.nil _, hkt, fun h => by cases h⟩
        · have hsk : ¬ (k - p.firstRow < p.numRows) := by omega
          simp only [hb, hsk, if_false]
          exact ⟨k, Groups.nil _, hkt, fun _ => by omega⟩
      | cons q qs =>
        have hq : q.firstRow = f + p.numRows := by
          simp only [WfPages] at hw; exact hw.1
        have hqk : decide (q.firstRow ≤ k) = true := by simp; omega
        have := ih (f + p.numRows) total k hw (by omega) hkt
        rw [List.takeWhile_cons, hqk] at this ⊢
        simp only [if_true, List.length_cons, Nat.add_sub_cancel] at this ⊢
        simpa only [List.drop_succ_cons, List.getElem?_cons_succ] using this

/-- `FilePages.SeekToRow(k)` lands on row `k` -/
theorem seek_lands (pages : List Page) (total k : Nat) (h : WfPages 0 pages total) (hk : k ≤ total) :
    Lands k total (pstream pages (seekCursor pages k)) :=
  seek_lands_gen pages 0 total k h (Nat.zero_le _) hk

/-- a new reader stands on row 0 -/
theorem init_lands (pages : List Page) (total : Nat) (h : WfPages 0 pages total) :
    Lands 0 total (pstream pages { next := 0, skip := 0 }) := by
  simp only [pstream, List.drop_zero]
  exact pstreamFrom_boundary 0 total pages h

end PqModel.RowsRefine
