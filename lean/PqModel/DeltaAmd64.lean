import PqModel.DeltaGoProofs

/-! # MIRROR of the amd64 Go wrapper of the DELTA_BYTE_ARRAY decoder (property C04, part delta)

On the default (assembly) build `ByteArrayEncoding.DecodeByteArray` does not run the portable loop
of `byte_array_purego.go` but `decodeByteArray` of `byte_array_amd64.go:57-108`: it validates the
lengths, hands the first `k` values to the AVX2 kernel `decodeByteArrayAVX2` — which copies in
32-byte chunks and therefore must stay `padding = 64` bytes of suffix data away from the end of
`src` — and finishes the last values with a scalar Go loop that has to RECONSTRUCT the loop state
(read position `j`, previous value) the kernel left. This file transliterates that Go logic (the
split scan, the state reconstruction, the scalar loop) with the kernel replaced by its contract
("the portable loop on the first `k` values", tied by the L1/L2 comparisons on the asm build) and
proves it equal to the portable loop for every valid input whose suffix bytes end at the end of
`src` (a data page holds nothing after them). Without that hypothesis the reconstruction
`j = len(src) - n` is wrong: observation `maldba-trailing-bytes-change-values`. -/
namespace PqModel.Delta

/-- MIRROR byte_array_amd64.go:98-106 (the scalar loop; byte_array_purego.go:5-34 is the same
loop with the range checks inline): `i += copy(dst[i:], lastValue[:p]); i += copy(dst[i:],
src[j:j+n]); j += n; lastValue = dst[lastValueOffset:]`. The destination is modelled as the list of
values written (`dst` is their concatenation). -/
def loopVals (src : List Nat) : List Nat → Nat → List Nat → List Nat → List (List Nat)
  | lastV, j, p :: ps, n :: ss =>
    (lastV.take p ++ (src.drop j).take n) ::
      loopVals src (lastV.take p ++ (src.drop j).take n) (j + n) ps ss
  | _, _, _, _ => []

/-- MIRROR byte_array_amd64.go:22-45, the Go fallback of `validatePrefixAndSuffixLengthValues`
(lengths are non-negative here): every prefix is at most the length `p + n` of the previous value. -/
def validLens : Nat → List Nat → List Nat → Prop
  | last, p :: ps, n :: ss => p ≤ last ∧ validLens (p + n) ps ss
  | _, _, _ => True

instance validLens.dec : ∀ (last : Nat) (ps ss : List Nat), Decidable (validLens last ps ss)
  | last, p :: ps, n :: ss => by
    unfold validLens
    exact @instDecidableAnd _ _ _ (validLens.dec (p + n) ps ss)
  | _, [], _ => by unfold validLens; infer_instance
  | _, _ :: _, [] => by unfold validLens; infer_instance

/-- MIRROR byte_array_amd64.go:80-86 `k := len(suffix); n := 0; for k > 0 && n < padding { k--;
n += int(suffix[k]) }` on the reversed suffix list: returns the number of values left to the
scalar loop and the number `n` of suffix bytes they own. -/
def tailScan : List Nat → Nat → Nat → Nat × Nat
  | [], n, c => (c, n)
  | s :: rest, n, c => if n < 64 then tailScan rest (n + s) (c + 1) else (c, n)

/-- MIRROR byte_array_amd64.go:74-108 with `decodeByteArrayAVX2(dst, src, prefix[:k], suffix[:k])`
replaced by its contract (the first `k` values, `i` = bytes written): `j = len(src) - n`,
`lastValue = dst[i-(int(prefix[k-1])+int(suffix[k-1])):]`, then the scalar loop on the rest. -/
def amd64Vals (src ps ss : List Nat) : List (List Nat) :=
  let cn := tailScan ss.reverse 0 0
  let k := ss.length - cn.1
  if 64 < src.length ∧ 0 < k ∧ 64 ≤ cn.2 then
    let head := loopVals src [] 0 (ps.take k) (ss.take k)
    let out := head.flatten
    let lastV := out.drop (out.length - ((ps.take k).getLastD 0 + (ss.take k).getLastD 0))
    head ++ loopVals src lastV (src.length - cn.2) (ps.drop k) (ss.drop k)
  else loopVals src [] 0 ps ss

/-- MIRROR byte_array.go:124-146 `DecodeByteArray` on the assembly build: the two length streams through
`decodeInt32`, the count check, `validatePrefixAndSuffixLengthValues` (byte_array_amd64.go:13-49: the Go
fallback loop; the AVX2 validator is assumed to accept only what the loop accepts, it is known to accept
more on malformed streams — observation `maldba-accepts-prefix-longer-than-previous-value`), then the
wrapper `amd64Vals`. What runs through the L2 comparison `dba.godecamd64` on the asm build. -/
def goDecodeDBAamd64 (bs : List Nat) : Except GoErr (List (List Nat)) :=
  match goDecode 32 bs with
  | .error e => .error e
  | .ok (ps, src1) =>
    match goDecode 32 src1 with
    | .error e => .error e
    | .ok (ss, src2) =>
      if ps.length ≠ ss.length then .error .countMismatch
      else if ps.any (·.msb) then .error .negPrefix
      else if ss.any (·.msb) then .error .negLength
      else if ¬ validLens 0 (ps.map BitVec.toNat) (ss.map BitVec.toNat) then .error .prefixOOB
      else if src2.length < (ss.map BitVec.toNat).sum then .error .lengthOOB
      else .ok (amd64Vals src2 (ps.map BitVec.toNat) (ss.map BitVec.toNat))

/-! ## proofs -/

theorem loopVals_append (src : List Nat) : ∀ (ps1 ss1 : List Nat) (lastV : List Nat) (j : Nat) (ps2 ss2 : List Nat),
    ps1.length = ss1.length →
    loopVals src lastV j (ps1 ++ ps2) (ss1 ++ ss2) =
      loopVals src lastV j ps1 ss1 ++
        loopVals src ((loopVals src lastV j ps1 ss1).getLastD lastV) (j + ss1.sum) ps2 ss2
  | [], [], lastV, j, ps2, ss2, _ => by simp [loopVals]
  | [], _ :: _, _, _, _, _, h => by simp at h
  | _ :: _, [], _, _, _, _, h => by simp at h
  | p :: ps1, n :: ss1, lastV, j, ps2, ss2, h => by
    have h' : ps1.length = ss1.length := by simpa using h
    simp only [List.cons_append, loopVals, List.sum_cons]
    rw [loopVals_append src ps1 ss1 _ (j + n) ps2 ss2 h']
    simp only [List.getLastD_cons, Nat.add_assoc]

/-- on valid lengths every value has length prefix + suffix -/
theorem loopVals_last_length (src : List Nat) : ∀ (ps ss : List Nat) (lastV : List Nat) (j : Nat),
    ps.length = ss.length → ps ≠ [] → validLens lastV.length ps ss → j + ss.sum ≤ src.length →
    ((loopVals src lastV j ps ss).getLastD lastV).length = ps.getLastD 0 + ss.getLastD 0
  | [], _, _, _, _, hne, _, _ => absurd rfl hne
  | _ :: _, [], _, _, h, _, _, _ => by simp at h
  | p :: ps, n :: ss, lastV, j, h, _, hv, hs => by
    have h' : ps.length = ss.length := by simpa using h
    obtain ⟨hp, hrest⟩ := hv
    simp only [List.sum_cons] at hs
    have hvl : (lastV.take p ++ (src.drop j).take n).length = p + n := by
      simp only [List.length_append, List.length_take, List.length_drop]; omega
    simp only [loopVals]
    cases ps with
    | nil =>
      have : ss = [] := by cases ss <;> simp_all
      subst this
      simp [loopVals, hvl]
    | cons p2 ps' =>
      cases ss with
      | nil => simp at h'
      | cons n2 ss' =>
        have ih := loopVals_last_length src (p2 :: ps') (n2 :: ss') (lastV.take p ++ (src.drop j).take n) (j + n)
          h' (by simp) (by rw [hvl]; exact hrest) (by omega)
        rw [List.getLastD_cons]
        simp only [List.getLastD_cons] at ih ⊢
        cases hl : loopVals src (lastV.take p ++ (src.drop j).take n) (j + n) (p2 :: ps') (n2 :: ss') with
        | nil => simp [loopVals] at hl
        | cons x t =>
          rw [hl] at ih
          simpa using ih

theorem getLastD_indep : ∀ (l : List (List Nat)) (a b : List Nat), l ≠ [] → l.getLastD a = l.getLastD b
  | [], _, _, h => absurd rfl h
  | x :: t, a, b, _ => by simp only [List.getLastD_cons]

/-- the last value written is the tail of the destination: `dst[i-len(value):i]` -/
theorem flatten_drop_last : ∀ (h : List (List Nat)) (d : List Nat), h ≠ [] →
    h.flatten.drop (h.flatten.length - (h.getLastD d).length) = h.getLastD d
  | [], _, hne => absurd rfl hne
  | [v], d, _ => by simp
  | v :: w :: t, d, _ => by
    have ih := flatten_drop_last (w :: t) v (by simp)
    have hle : ((w :: t).getLastD v).length ≤ (w :: t).flatten.length := by
      have := congrArg List.length ih
      simp only [List.length_drop] at this
      omega
    rw [List.getLastD_cons, List.flatten_cons, List.length_append]
    have e : v.length + (w :: t).flatten.length - ((w :: t).getLastD v).length
        = v.length + ((w :: t).flatten.length - ((w :: t).getLastD v).length) := by omega
    rw [e, List.drop_length_add_append, ih]

theorem tailScan_spec : ∀ (l : List Nat) (n0 c0 : Nat),
    ∃ m, m ≤ l.length ∧ (tailScan l n0 c0).1 = c0 + m ∧ (tailScan l n0 c0).2 = n0 + (l.take m).sum
  | [], n0, c0 => ⟨0, by simp [tailScan]⟩
  | s :: rest, n0, c0 => by
    simp only [tailScan]
    split
    · obtain ⟨m, hm, h1, h2⟩ := tailScan_spec rest (n0 + s) (c0 + 1)
      refine ⟨m + 1, by simp only [List.length_cons]; omega, by rw [h1]; omega, ?_⟩
      rw [h2, List.take_succ_cons, List.sum_cons]; omega
    · exact ⟨0, by simp⟩

theorem sum_take_add_drop : ∀ (l : List Nat) (k : Nat), (l.take k).sum + (l.drop k).sum = l.sum
  | l, k => by
    conv => rhs; rw [← List.take_append_drop k l]
    rw [List.sum_append]

theorem validLens_append : ∀ (ps1 ss1 : List Nat) (last : Nat) (ps2 ss2 : List Nat), ps1.length = ss1.length →
    validLens last (ps1 ++ ps2) (ss1 ++ ss2) →
    validLens last ps1 ss1 ∧
      validLens (if ps1 = [] then last else ps1.getLastD 0 + ss1.getLastD 0) ps2 ss2
  | [], [], last, ps2, ss2, _, h => by simpa [validLens] using h
  | [], _ :: _, _, _, _, h, _ => by simp at h
  | _ :: _, [], _, _, _, h, _ => by simp at h
  | p :: ps1, n :: ss1, last, ps2, ss2, h, hv => by
    have h' : ps1.length = ss1.length := by simpa using h
    simp only [List.cons_append, validLens] at hv
    obtain ⟨ih1, ih2⟩ := validLens_append ps1 ss1 (p + n) ps2 ss2 h' hv.2
    refine ⟨⟨hv.1, ih1⟩, ?_⟩
    cases ps1 with
    | nil =>
      have : ss1 = [] := by cases ss1 <;> simp_all
      subst this
      simpa using ih2
    | cons p2 ps' =>
      cases ss1 with
      | nil => simp at h'
      | cons n2 ss' => simpa [List.getLastD_cons] using ih2

/-- **The amd64 wrapper equals the portable loop** on every valid input (`validLens`, the very
condition its validation step establishes) whose suffix bytes end at the end of `src`: whatever
`k` the split scan chooses, the reconstructed read position and previous value are the ones the
portable loop has after `k` values. -/
theorem amd64Vals_eq (src ps ss : List Nat) (hl : ps.length = ss.length) (hv : validLens 0 ps ss)
    (hs : ss.sum = src.length) : amd64Vals src ps ss = loopVals src [] 0 ps ss := by
  obtain ⟨m, hm, h1, h2⟩ := tailScan_spec ss.reverse 0 0
  simp only [Nat.zero_add, List.length_reverse] at hm h1 h2
  simp only [amd64Vals, h1, h2]
  split
  · rename_i hc
    obtain ⟨_, hk, _⟩ := hc
    have hkl : ss.length - m ≤ ss.length := by omega
    -- n is the number of suffix bytes of the values left to the scalar loop
    have hn : (ss.reverse.take m).sum = (ss.drop (ss.length - m)).sum := by
      rw [List.take_reverse, List.sum_reverse]
    generalize hkdef : ss.length - m = k at hk hkl hn ⊢
    have hps : ps = ps.take k ++ ps.drop k := (List.take_append_drop k ps).symm
    have hss : ss = ss.take k ++ ss.drop k := (List.take_append_drop k ss).symm
    have hlt : (ps.take k).length = (ss.take k).length := by
      simp only [List.length_take]; omega
    have hne : ps.take k ≠ [] := by
      intro h0
      have := congrArg List.length h0
      simp only [List.length_take, List.length_nil] at this
      omega
    have hvs : validLens 0 (ps.take k ++ ps.drop k) (ss.take k ++ ss.drop k) := by
      rw [← hps, ← hss]; exact hv
    obtain ⟨hv1, hv2⟩ := validLens_append _ _ 0 _ _ hlt hvs
    simp only [hne, if_false] at hv2
    have hsum := sum_take_add_drop ss k
    have hj : src.length - (ss.reverse.take m).sum = 0 + (ss.take k).sum := by rw [hn]; omega
    have hlast := loopVals_last_length src (ps.take k) (ss.take k) [] 0 hlt hne hv1 (by omega)
    have hhead : loopVals src [] 0 (ps.take k) (ss.take k) ≠ [] := by
      intro h0
      rw [h0] at hlast
      cases hpk : ps.take k with
      | nil => exact hne hpk
      | cons p t =>
        cases hsk : ss.take k with
        | nil => rw [hpk, hsk] at hlt; simp at hlt
        | cons n t2 => rw [hpk, hsk] at h0; simp [loopVals] at h0
    have hrec : (loopVals src [] 0 (ps.take k) (ss.take k)).flatten.drop
        ((loopVals src [] 0 (ps.take k) (ss.take k)).flatten.length - ((ps.take k).getLastD 0 + (ss.take k).getLastD 0))
        = (loopVals src [] 0 (ps.take k) (ss.take k)).getLastD [] := by
      rw [← hlast]; exact flatten_drop_last _ [] hhead
    rw [hrec, hj]
    conv => rhs; rw [hps, hss]
    rw [loopVals_append src _ _ [] 0 _ _ hlt]
  · rfl

/-! ## link with the mirror of the portable decoder (`goJoin`, PqModel/DeltaGo.lean) -/

/-- where the portable loop with its range checks succeeds, it returns `loopVals` and the lengths
are valid in the sense of the amd64 validation -/
theorem goJoin_loopVals (src : List Nat) : ∀ (ps ss : List (BitVec 32)) (lastV : List Nat) (j : Nat)
    (vs : List (List Nat)), ps.length = ss.length → goJoin lastV ps ss (src.drop j) = .ok vs →
    vs = loopVals src lastV j (ps.map BitVec.toNat) (ss.map BitVec.toNat) ∧
      validLens lastV.length (ps.map BitVec.toNat) (ss.map BitVec.toNat)
  | [], [], _, _, vs, _, h => by
    simp only [goJoin, Except.ok.injEq] at h
    simp [loopVals, validLens, ← h]
  | [], _ :: _, _, _, _, hl, _ => by simp at hl
  | _ :: _, [], _, _, _, hl, _ => by simp at hl
  | p :: ps, s :: ss, lastV, j, vs, hl, h => by
    have hl' : ps.length = ss.length := by simpa using hl
    simp only [goJoin] at h
    split at h
    · cases h
    · split at h
      · cases h
      · next hlen =>
        split at h
        · cases h
        · split at h
          · cases h
          · next hpl =>
            split at h
            · cases h
            · next vs' hrec =>
              simp only [Except.ok.injEq] at h
              rw [List.drop_drop] at hrec
              obtain ⟨ih1, ih2⟩ := goJoin_loopVals src ps ss _ (j + s.toNat) vs' hl' hrec
              have hvl : (lastV.take p.toNat ++ (src.drop j).take s.toNat).length = p.toNat + s.toNat := by
                simp only [List.length_append, List.length_take]; omega
              rw [hvl] at ih2
              refine ⟨?_, ⟨by omega, ih2⟩⟩
              rw [← h, ih1]
              simp only [List.map_cons, loopVals]

/-- **On the assembly build the DELTA_BYTE_ARRAY copy step returns what the portable one returns**:
for prefix/suffix lengths the portable loop accepts (every conformant stream: `conformant_dba_go`)
and suffix bytes that end where `src` ends, the amd64 wrapper — AVX2 kernel on the first `k`
values (by contract), reconstructed state, scalar loop — yields the same values. -/
theorem amd64Vals_of_goJoin (src : List Nat) (ps ss : List (BitVec 32)) (vs : List (List Nat))
    (hl : ps.length = ss.length) (h : goJoin [] ps ss src = .ok vs)
    (hend : (ss.map BitVec.toNat).sum = src.length) :
    amd64Vals src (ps.map BitVec.toNat) (ss.map BitVec.toNat) = vs := by
  obtain ⟨h1, h2⟩ := goJoin_loopVals src ps ss [] 0 vs hl (by simpa using h)
  rw [amd64Vals_eq src _ _ (by simp [hl]) (by simpa using h2) hend, h1]

/-- what the portable loop accepts has no negative length -/
theorem goJoin_nonneg : ∀ (ps ss : List (BitVec 32)) (lastV src : List Nat) (vs : List (List Nat)),
    ps.length = ss.length → goJoin lastV ps ss src = .ok vs →
    ps.any (·.msb) = false ∧ ss.any (·.msb) = false ∧ (ss.map BitVec.toNat).sum ≤ src.length
  | [], [], _, _, _, _, _ => by simp
  | [], _ :: _, _, _, _, hl, _ => by simp at hl
  | _ :: _, [], _, _, _, hl, _ => by simp at hl
  | p :: ps, s :: ss, lastV, src, vs, hl, h => by
    have hl' : ps.length = ss.length := by simpa using hl
    simp only [goJoin] at h
    split at h
    · cases h
    · next hs =>
      split at h
      · cases h
      · next hlen =>
        split at h
        · cases h
        · next hp =>
          split at h
          · cases h
          · split at h
            · cases h
            · next vs' hrec =>
              obtain ⟨i1, i2, i3⟩ := goJoin_nonneg ps ss _ _ vs' hl' hrec
              simp only [List.length_drop] at i3
              simp only [List.any_cons, i1, i2, List.map_cons, List.sum_cons]
              simp only [Bool.not_eq_true] at hs hp
              refine ⟨by simp [hp], by simp [hs], by omega⟩

/-- whole function: where the portable `DecodeByteArray` mirror returns `vs` and the suffix bytes
end where the input ends, so does the mirror of the assembly build's `DecodeByteArray` -/
theorem goDecodeDBAamd64_eq (bs : List Nat) (ps ss : List (BitVec 32)) (src1 src2 : List Nat) (vs : List (List Nat))
    (h1 : goDecode 32 bs = .ok (ps, src1)) (h2 : goDecode 32 src1 = .ok (ss, src2))
    (h : goDecodeDBA bs = .ok vs) (hend : (ss.map BitVec.toNat).sum = src2.length) :
    goDecodeDBAamd64 bs = .ok vs := by
  simp only [goDecodeDBA, h1, h2] at h
  simp only [goDecodeDBAamd64, h1, h2]
  split at h
  · cases h
  · next hc =>
    have hl : ps.length = ss.length := by
      have : ¬ ps.length ≠ ss.length := hc
      omega
    obtain ⟨n1, n2, n3⟩ := goJoin_nonneg ps ss [] src2 vs hl h
    obtain ⟨_, hv⟩ := goJoin_loopVals src2 ps ss [] 0 vs hl (by simpa using h)
    have hv' : validLens 0 (ps.map BitVec.toNat) (ss.map BitVec.toNat) := by simpa using hv
    have hnl : ¬ (src2.length < (ss.map BitVec.toNat).sum) := by omega
    simp only [hc, if_false, n1, n2, Bool.false_eq_true, hv', not_true_eq_false, hnl]
    rw [amd64Vals_of_goJoin src2 ps ss vs hl h hend]

/-! ## the amd64 wrapper of `decodeFixedLenByteArray` (FIXED_LEN_BYTE_ARRAY values, same shape) -/

/-- every value has `size` bytes: `prefix[i] + suffix[i] = size` (what a FIXED_LEN_BYTE_ARRAY(size)
column holds; `DecodeFixedLenByteArray` itself does not check it) -/
def allSize (size : Nat) : List Nat → List Nat → Prop
  | p :: ps, n :: ss => p + n = size ∧ allSize size ps ss
  | _, _ => True

instance allSize.dec (size : Nat) : ∀ (ps ss : List Nat), Decidable (allSize size ps ss)
  | p :: ps, n :: ss => by
    unfold allSize
    exact @instDecidableAnd _ _ _ (allSize.dec size ps ss)
  | [], _ => by unfold allSize; infer_instance
  | _ :: _, [] => by unfold allSize; infer_instance

/-- MIRROR byte_array_amd64.go:112-164 `decodeFixedLenByteArray` with the kernel
(`decodeByteArrayAVX2x128bits` for `size == 16`, `decodeByteArrayAVX2` otherwise) replaced by its
contract (the first `k` values, `i` = bytes written): same split scan as `decodeByteArray`,
`j = len(src) - n`, but the previous value is reconstructed from the column's value size,
`if i >= size { lastValue = dst[i-size:] }` (otherwise it stays nil), then the scalar loop. -/
def amd64FlbaVals (size : Nat) (src ps ss : List Nat) : List (List Nat) :=
  let cn := tailScan ss.reverse 0 0
  let k := ss.length - cn.1
  if 64 < src.length ∧ 0 < k ∧ 64 ≤ cn.2 then
    let head := loopVals src [] 0 (ps.take k) (ss.take k)
    let out := head.flatten
    let lastV := if size ≤ out.length then out.drop (out.length - size) else []
    head ++ loopVals src lastV (src.length - cn.2) (ps.drop k) (ss.drop k)
  else loopVals src [] 0 ps ss

/-- MIRROR byte_array.go:148-174 `DecodeFixedLenByteArray` on the assembly build (the size argument is
within `MaxFixedLenByteArraySize`): as `goDecodeDBAamd64` with the FLBA wrapper. -/
def goDecodeFLBAamd64 (size : Nat) (bs : List Nat) : Except GoErr (List (List Nat)) :=
  match goDecode 32 bs with
  | .error e => .error e
  | .ok (ps, src1) =>
    match goDecode 32 src1 with
    | .error e => .error e
    | .ok (ss, src2) =>
      if ps.length ≠ ss.length then .error .countMismatch
      else if ps.any (·.msb) then .error .negPrefix
      else if ss.any (·.msb) then .error .negLength
      else if ¬ validLens 0 (ps.map BitVec.toNat) (ss.map BitVec.toNat) then .error .prefixOOB
      else if src2.length < (ss.map BitVec.toNat).sum then .error .lengthOOB
      else .ok (amd64FlbaVals size src2 (ps.map BitVec.toNat) (ss.map BitVec.toNat))

theorem allSize_take (size : Nat) : ∀ (ps ss : List Nat) (k : Nat), allSize size ps ss →
    allSize size (ps.take k) (ss.take k)
  | _, _, 0, _ => by simp [allSize]
  | [], _, _ + 1, _ => by simp [allSize]
  | _ :: _, [], _ + 1, _ => by simp [allSize]
  | p :: ps, n :: ss, k + 1, h => by
    simp only [List.take_succ_cons, allSize] at h ⊢
    exact ⟨h.1, allSize_take size ps ss k h.2⟩

theorem allSize_last (size : Nat) : ∀ (ps ss : List Nat), ps.length = ss.length → ps ≠ [] →
    allSize size ps ss → ps.getLastD 0 + ss.getLastD 0 = size
  | [], _, _, hne, _ => absurd rfl hne
  | _ :: _, [], h, _, _ => by simp at h
  | [p], [n], _, _, h => by simpa [allSize] using h
  | [_], _ :: _ :: _, h, _, _ => by simp at h
  | _ :: _ :: _, [_], h, _, _ => by simp at h
  | p :: p2 :: ps, n :: n2 :: ss, h, _, hs => by
    have ih := allSize_last size (p2 :: ps) (n2 :: ss) (by simpa using h) (by simp) hs.2
    simpa [List.getLastD_cons] using ih

/-- **The amd64 wrapper of `decodeFixedLenByteArray` equals the portable loop** on every valid input
whose values all have `size` bytes and whose suffix bytes end at the end of `src`: `dst[i-size:]` is
the value the portable loop wrote last, whatever `k` the split scan chooses. -/
theorem amd64FlbaVals_eq (size : Nat) (src ps ss : List Nat) (hl : ps.length = ss.length)
    (hv : validLens 0 ps ss) (hsz : allSize size ps ss) (hs : ss.sum = src.length) :
    amd64FlbaVals size src ps ss = loopVals src [] 0 ps ss := by
  obtain ⟨m, hm, h1, h2⟩ := tailScan_spec ss.reverse 0 0
  simp only [Nat.zero_add, List.length_reverse] at hm h1 h2
  simp only [amd64FlbaVals, h1, h2]
  split
  · rename_i hc
    obtain ⟨_, hk, _⟩ := hc
    have hkl : ss.length - m ≤ ss.length := by omega
    have hn : (ss.reverse.take m).sum = (ss.drop (ss.length - m)).sum := by
      rw [List.take_reverse, List.sum_reverse]
    generalize hkdef : ss.length - m = k at hk hkl hn ⊢
    have hps : ps = ps.take k ++ ps.drop k := (List.take_append_drop k ps).symm
    have hss : ss = ss.take k ++ ss.drop k := (List.take_append_drop k ss).symm
    have hlt : (ps.take k).length = (ss.take k).length := by
      simp only [List.length_take]; omega
    have hne : ps.take k ≠ [] := by
      intro h0
      have := congrArg List.length h0
      simp only [List.length_take, List.length_nil] at this
      omega
    have hvs : validLens 0 (ps.take k ++ ps.drop k) (ss.take k ++ ss.drop k) := by
      rw [← hps, ← hss]; exact hv
    obtain ⟨hv1, _⟩ := validLens_append _ _ 0 _ _ hlt hvs
    have hsum := sum_take_add_drop ss k
    have hj : src.length - (ss.reverse.take m).sum = 0 + (ss.take k).sum := by rw [hn]; omega
    have hlast := loopVals_last_length src (ps.take k) (ss.take k) [] 0 hlt hne hv1 (by omega)
    have hsz' := allSize_last size _ _ hlt hne (allSize_take size ps ss k hsz)
    have hhead : loopVals src [] 0 (ps.take k) (ss.take k) ≠ [] := by
      intro h0
      rw [h0] at hlast
      cases hpk : ps.take k with
      | nil => exact hne hpk
      | cons p t =>
        cases hsk : ss.take k with
        | nil => rw [hpk, hsk] at hlt; simp at hlt
        | cons n t2 => rw [hpk, hsk] at h0; simp [loopVals] at h0
    have hdrop := flatten_drop_last _ [] hhead
    rw [hlast, hsz'] at hdrop
    have hle : size ≤ (loopVals src [] 0 (ps.take k) (ss.take k)).flatten.length := by
      have hlen := congrArg List.length hdrop
      rw [List.length_drop, hlast, hsz'] at hlen
      omega
    rw [if_pos hle, hdrop, hj]
    conv => rhs; rw [hps, hss]
    rw [loopVals_append src _ _ [] 0 _ _ hlt]
  · rfl

/-- with the values of a FIXED_LEN_BYTE_ARRAY(size) column the two amd64 wrappers agree -/
theorem amd64FlbaVals_of_goJoin (size : Nat) (src : List Nat) (ps ss : List (BitVec 32)) (vs : List (List Nat))
    (hl : ps.length = ss.length) (h : goJoin [] ps ss src = .ok vs)
    (hsz : allSize size (ps.map BitVec.toNat) (ss.map BitVec.toNat))
    (hend : (ss.map BitVec.toNat).sum = src.length) :
    amd64FlbaVals size src (ps.map BitVec.toNat) (ss.map BitVec.toNat) = vs := by
  obtain ⟨h1, h2⟩ := goJoin_loopVals src ps ss [] 0 vs hl (by simpa using h)
  rw [amd64FlbaVals_eq size src _ _ (by simp [hl]) (by simpa using h2) hsz hend, h1]

/-- whole function: where the portable decoder mirror returns `vs`, every value has `size` bytes and
the suffix bytes end where the input ends, so does the mirror of the assembly build's
`DecodeFixedLenByteArray` -/
theorem goDecodeFLBAamd64_eq (size : Nat) (bs : List Nat) (ps ss : List (BitVec 32)) (src1 src2 : List Nat)
    (vs : List (List Nat))
    (h1 : goDecode 32 bs = .ok (ps, src1)) (h2 : goDecode 32 src1 = .ok (ss, src2))
    (h : goDecodeDBA bs = .ok vs) (hsz : allSize size (ps.map BitVec.toNat) (ss.map BitVec.toNat))
    (hend : (ss.map BitVec.toNat).sum = src2.length) :
    goDecodeFLBAamd64 size bs = .ok vs := by
  simp only [goDecodeDBA, h1, h2] at h
  simp only [goDecodeFLBAamd64, h1, h2]
  split at h
  · cases h
  · next hc =>
    have hl : ps.length = ss.length := by
      have : ¬ ps.length ≠ ss.length := hc
      omega
    obtain ⟨n1, n2, n3⟩ := goJoin_nonneg ps ss [] src2 vs hl h
    obtain ⟨_, hv⟩ := goJoin_loopVals src2 ps ss [] 0 vs hl (by simpa using h)
    have hv' : validLens 0 (ps.map BitVec.toNat) (ss.map BitVec.toNat) := by simpa using hv
    have hnl : ¬ (src2.length < (ss.map BitVec.toNat).sum) := by omega
    simp only [hc, if_false, n1, n2, Bool.false_eq_true, hv', not_true_eq_false, hnl]
    rw [amd64FlbaVals_of_goJoin size src2 ps ss vs hl h hsz hend]

end PqModel.Delta
