namespace PqModel.Reset

/-! # C17 — the writer state that influences output bytes, and `Reset`

MIRROR of parquet-go's `writer` / `ColumnWriter` state as far as it influences what the NEXT
file's bytes are, of `(*writer).reset` (writer.go 1201-1233), `(*ColumnWriter).reset`
(writer.go 2024-2073), `(*RowGroup).Reset` (format/parquet.go 1150-1162) and
`(*ColumnChunk).Reset` / `(*ColumnMetaData).Reset` (format/reset.go 80-124).

Go slices are modelled as SHARED CELLS wherever the code copies slice headers shallowly: a
`Slice` is an id into a heap of backing arrays plus a length. `newConcurrentRowGroupWriter` puts
the column writer's own `columnPath` / `encodings` slice headers into its `format.ColumnChunk`
(writer.go 862-870), `writeRowGroup` copies those structs into `w.rowGroups`
(`slices.Clone(rg.columnChunk)`, writer.go 1796-1801) and stores the header of
`w.sortingColumns` in every committed row group (writer.go 1745, 1817): all of them keep pointing
at the live writer's arrays. `format`'s in-place `Reset` methods `clear` such arrays.

Two mirrors are kept side by side (`Mirror`): `asIs` transliterates the code before the repairs
F10 (reset clears arrays the live writer shares) and F24 (the retained plain fallback buffer is
not emptied); `fixed` transliterates the repaired code. `current` is the one the library has now.

Byte strings (path elements, metadata keys) are lists of byte values. Buffer / dictionary / page
contents are lists of numbers: only their being empty or not matters to reset. -/

abbrev Str := List Nat

/-- A Go slice header: backing array (cell id in the heap) and length. A nil slice is any cell
with length 0. Capacity is not modelled. -/
structure Slice where
  cell : Nat
  len : Nat
deriving DecidableEq

def Slice.detached : Slice := ⟨0, 0⟩

structure SortCol where
  columnIdx : Nat
  descending : Bool
  nullsFirst : Bool
deriving DecidableEq

def SortCol.zero : SortCol := ⟨0, false, false⟩

/-- the backing arrays that several slice headers may share -/
structure Heap where
  strs : List (List Str)
  encs : List (List Nat)
  sorts : List (List SortCol)
deriving DecidableEq

/-- Go's `clear(s)` on the first `n` elements of a backing array -/
def clearPrefix {α} (z : α) : Nat → List α → List α
  | 0, l => l
  | _ + 1, [] => []
  | n + 1, _ :: xs => z :: clearPrefix z n xs

def modifyAt {α} (f : α → α) : Nat → List α → List α
  | _, [] => []
  | 0, x :: xs => f x :: xs
  | i + 1, x :: xs => x :: modifyAt f i xs

def Heap.derefStrs (h : Heap) (s : Slice) : List Str := (h.strs.getD s.cell []).take s.len
def Heap.derefEncs (h : Heap) (s : Slice) : List Nat := (h.encs.getD s.cell []).take s.len
def Heap.derefSorts (h : Heap) (s : Slice) : List SortCol := (h.sorts.getD s.cell []).take s.len

/-- `clear(s)` for a `[]string` -/
def Heap.clearStrs (h : Heap) (s : Slice) : Heap :=
  { h with strs := modifyAt (clearPrefix [] s.len) s.cell h.strs }

/-- `clear(s)` for a `[]format.SortingColumn` -/
def Heap.clearSorts (h : Heap) (s : Slice) : Heap :=
  { h with sorts := modifyAt (clearPrefix SortCol.zero s.len) s.cell h.sorts }

structure KV where
  key : Str
  value : Str
deriving DecidableEq

/-! ## per-column state -/

/-- what never changes after construction (slice HEADERS, not the arrays behind them) -/
structure ColStable where
  columnPath : Slice        -- c.columnPath
  encodings : Slice         -- c.encodings
  chunkPath : Slice         -- c.columnChunk.MetaData.PathInSchema (same header as columnPath)
  chunkEncoding : Slice     -- c.columnChunk.MetaData.Encoding (same header as encodings)
  originalType : Nat
  originalEncoding : Nat
  chunkType : Nat
  chunkCodec : Nat
  histLen : Nat             -- len of the level histograms (max level + 1, 0 when absent)
deriving DecidableEq

/-- what writing changes -/
structure ColVol where
  columnType : Nat
  encoding : Nat
  hasSwitchedToPlain : Bool
  onPlainBuffer : Bool          -- c.columnBuffer == c.plainColumnBuffer
  buffered : List Nat           -- rows held by the original (dictionary-indexed) column buffer
  plainBuffered : List Nat      -- rows held by the retained plain fallback buffer
  indexer : List Nat            -- ColumnIndexer accumulators (one entry per page)
  dict : List Nat               -- dictionary contents
  pageBuffer : Option (List Nat) -- encoded pages held in a pool buffer; none = released
  numPages : Nat
  filterLen : Nat               -- len(c.filter)
  numRows : Nat
  numValues : Nat               -- live column chunk accumulators ...
  totalUncompressed : Nat
  totalCompressed : Nat
  dataPageOffset : Nat
  dictPageOffset : Nat
  stats : Option (Nat × Nat × Nat)  -- null count, min, max
  encodingStats : List Nat
  bloomOffset : Nat
  pageLocations : List Nat
  totalUnencoded : Nat
  levelHist : List Nat          -- repetition / definition level histograms (cleared in place)
  pageLevelHists : List Nat
  bufAllocated : Bool           -- the column buffer's backing array exists (capacity is kept on purpose)
  bloomLength : Nat             -- live chunk's BloomFilterLength: only overwritten when a filter is written
  sizeStats : List Nat          -- NOT reset: overwritten by writeRowGroup (writer.go 1578)
  /-- `c.geospatialAccumulator` and the live chunk's `GeospatialStatistics` (GEOMETRY / GEOGRAPHY
  columns; geospatial_statistics.go 15-27) as a bit mask: 1 hasValues, 2 hasGeomTypes, 4 parseError,
  8 hasZ, 16 hasM, 32 a bound differs from its initial +Inf or -Inf, 64 the type set is not empty,
  128 the live column chunk holds statistics. 0 = as constructed (and: no accumulator). -/
  geo : Nat
deriving DecidableEq

structure Col where
  st : ColStable
  vol : ColVol
deriving DecidableEq

/-- the volatile state of a freshly constructed column writer -/
def ColVol.fresh (st : ColStable) : ColVol :=
  { columnType := st.originalType, encoding := st.originalEncoding, hasSwitchedToPlain := false,
    onPlainBuffer := false, buffered := [], plainBuffered := [], indexer := [], dict := [],
    pageBuffer := none, numPages := 0, filterLen := 0, numRows := 0, numValues := 0,
    totalUncompressed := 0, totalCompressed := 0, dataPageOffset := 0, dictPageOffset := 0,
    stats := none, encodingStats := [], bloomOffset := 0, pageLocations := [], totalUnencoded := 0,
    levelHist := List.replicate st.histLen 0, pageLevelHists := [], bufAllocated := false,
    bloomLength := 0, sizeStats := [], geo := 0 }

/-- MIRROR `(*ColumnWriter).reset`, writer.go 2024-2073, before the F24 repair -/
def colResetAsIs (c : Col) : Col :=
  let v := c.vol
  { c with vol := { v with
      columnType := if v.hasSwitchedToPlain then c.st.originalType else v.columnType
      encoding := if v.hasSwitchedToPlain then c.st.originalEncoding else v.encoding
      hasSwitchedToPlain := false
      onPlainBuffer := false          -- c.columnBuffer = c.originalColumnBuffer
      buffered := []                  -- c.columnBuffer.Reset(): the ORIGINAL buffer only
      indexer := []                   -- c.columnIndex.Reset()
      dict := []                      -- c.dictionary.Reset()
      pageBuffer := none
      numPages := 0
      filterLen := 0                  -- c.filter = c.filter[:0]
      numRows := 0
      numValues := 0
      totalUncompressed := 0
      totalCompressed := 0
      dataPageOffset := 0
      dictPageOffset := 0
      stats := none
      encodingStats := []
      bloomOffset := 0
      pageLocations := []
      totalUnencoded := 0
      levelHist := v.levelHist.map (fun _ => 0)   -- clear(c.repetitionLevelHistogram) keeps the length
      pageLevelHists := []
      geo := 0 } }                    -- GeospatialStatistics = {}; c.geospatialAccumulator.reset()
                                      -- (geospatial_statistics.go 35-46: every flag, every bound, a new type set)

/-- MIRROR of the repaired `(*ColumnWriter).reset`: additionally `c.plainColumnBuffer.Reset()`
(F24) and `c.columnChunk.MetaData.BloomFilterLength = 0` (F26) -/
def colResetFixed (c : Col) : Col :=
  let c' := colResetAsIs c
  { c' with vol := { c'.vol with plainBuffered := [], bloomLength := 0 } }

/-! ## per-file state -/

/-- a committed `format.ColumnChunk` (struct copy of the live one: same slice headers) -/
structure CChunk where
  path : Slice
  encoding : Slice
  snap : List Nat        -- the numbers copied at commit time
deriving DecidableEq

structure RowGroup where
  columns : List CChunk
  sorting : Slice        -- header of w.sortingColumns
  nums : List Nat        -- NumRows, sizes, offsets, ordinal
deriving DecidableEq

structure Writer where
  heap : Heap
  cols : List Col                 -- w.currentRowGroup.columns
  numRows : Nat                   -- w.currentRowGroup.numRows
  offset : Nat                    -- w.writer.offset
  pending : List Nat              -- bytes held by w.buffer (bufio)
  metadata : List KV              -- w.metadata
  sorting : Slice                 -- w.sortingColumns
  rowGroups : List RowGroup       -- w.rowGroups (the live length; ordinals are its indexes)
  columnIndexes : List (List Nat)
  offsetIndexes : List (List Nat)
  deferred : List Nat             -- w.deferredBloomFilters
  deferredSize : Nat
  fileMetaData : Option (Nat × Nat)  -- w.fileMetaData: none = zero value; (rows, row groups)
  /-- `SortingWriter.dedupe.lastRow` (dedupe.go 68-76): the last row the duplicate dropper has seen.
  State of the sorting writer that wraps this writer (empty for a plain writer); the next sorted
  chunk drops a leading row equal to it. `SortingWriter.Reset` / `resetSortingBuffer`
  (sorting.go 136-150) do NOT clear it. -/
  dedupeLastRow : List Nat
deriving DecidableEq

/-- MIRROR `(*ColumnMetaData).Reset` format/reset.go 97-124 through `(*ColumnChunk).Reset` 80-93:
`clear(c.PathInSchema)` zeroes the strings of the array behind the header; `c.Encoding[:0]` only
shortens this copy's header. The other fields are scalars of the copy. -/
def chunkResetHeap (h : Heap) (c : CChunk) : Heap := h.clearStrs c.path

/-- MIRROR `(*RowGroup).Reset` format/parquet.go 1150-1162: every column chunk, then
`clear(r.SortingColumns)`. The emptied struct stays in the spare capacity of `w.rowGroups`
(it is observationally a zero RowGroup and is not modelled); what remains is the heap. -/
def rowGroupResetHeap (h : Heap) (rg : RowGroup) : Heap :=
  (rg.columns.foldl chunkResetHeap h).clearSorts rg.sorting

/-- the repair of F10 in `(*writer).reset`: drop the shared headers before the in-place Reset -/
def RowGroup.detach (rg : RowGroup) : RowGroup :=
  { rg with columns := rg.columns.map (fun c => { c with path := Slice.detached, encoding := Slice.detached }),
            sorting := Slice.detached }

structure Mirror where
  colReset : Col → Col
  rowGroupReset : Heap → RowGroup → Heap
  /-- does any code path let the bytes depend on whether a column buffer's backing array is
  allocated? Before the F25 repair `makePageStatistics` (writer.go 2700-2712) does: the min/max of
  a page whose bound is the empty byte string is `Value.Bytes()` — nil (field absent) when the
  buffer has never held data, empty-but-present when it has. -/
  readsAllocation : Bool
  /-- `dedupe.lastRow` after `SortingWriter.sortAndWriteBufferedRows` (sorting.go 195-229) handled a
  chunk whose last row is the argument: the code sets it in `deduplicate` and clears it again in
  the deferred `w.dedupe.reset()`, so nothing is carried to the next chunk (or file) -/
  dedupeAfterChunk : List Nat → List Nat

/-- the code before the repairs -/
def asIs : Mirror := ⟨colResetAsIs, rowGroupResetHeap, true, fun _ => []⟩
/-- the repaired code -/
def fixed : Mirror := ⟨colResetFixed, fun h rg => rowGroupResetHeap h rg.detach, false, fun _ => []⟩
/-- a variant of `fixed` without the deferred `w.dedupe.reset()` ("carry the last row to the next
chunk"): harmless inside one file (the final merge drops duplicates anyway), refuted across
`Reset` in Props/C17 -/
def dedupeCarry : Mirror := { fixed with dedupeAfterChunk := fun last => last }
/-- a variant of `fixed` whose `geospatialBBoxAccumulator.reset` re-initialises the M bounds but
leaves the `hasM` flag (bit 16) set (seeded change C17-4a): refuted in Props/C17 -/
def geoKeepsHasM : Mirror :=
  { fixed with colReset := fun c =>
      let c' := colResetFixed c
      { c' with vol := { c'.vol with geo := if c.vol.geo / 16 % 2 = 1 then 16 else 0 } } }

/-- MIRROR `(*writer).reset`, writer.go 1201-1233 -/
def resetWith (M : Mirror) (s : Writer) : Writer :=
  { s with
    deferred := []                               -- bf.reset(); w.deferredBloomFilters[:0]
    deferredSize := 0
    offset := 0                                  -- w.writer.Reset(...)
    pending := []                                -- w.buffer.Reset(writer)
    cols := s.cols.map M.colReset                -- w.currentRowGroup.reset()
    numRows := 0
    heap := s.rowGroups.foldl M.rowGroupReset s.heap   -- w.rowGroups[i].Reset()
    rowGroups := []
    columnIndexes := []
    offsetIndexes := []
    fileMetaData := none }

/-! ## construction -/

structure ColCfg where
  path : List Str
  typ : Nat
  encoding : Nat
  encodings : List Nat
  codec : Nat
  histLen : Nat
deriving DecidableEq

structure Cfg where
  cols : List ColCfg
  sorting : List SortCol
  metadata : List KV       -- config.KeyValueMetadata after sortKeyValueMetadata
deriving DecidableEq

def initCol (i : Nat) (cc : ColCfg) : Col :=
  let st : ColStable :=
    { columnPath := ⟨i, cc.path.length⟩, encodings := ⟨i, cc.encodings.length⟩,
      chunkPath := ⟨i, cc.path.length⟩, chunkEncoding := ⟨i, cc.encodings.length⟩,
      originalType := cc.typ, originalEncoding := cc.encoding, chunkType := cc.typ,
      chunkCodec := cc.codec, histLen := cc.histLen }
  { st := st, vol := ColVol.fresh st }

def initCols : Nat → List ColCfg → List Col
  | _, [] => []
  | i, cc :: rest => initCol i cc :: initCols (i + 1) rest

/-- MIRROR `newWriter` + `newConcurrentRowGroupWriter` (writer.go 1094-1199, 737-879): one
array per column path / encodings list, one for the sorting columns -/
def initWith (cfg : Cfg) (md : List KV) : Writer :=
  { heap := { strs := cfg.cols.map (·.path), encs := cfg.cols.map (·.encodings), sorts := [cfg.sorting] }
    cols := initCols 0 cfg.cols, numRows := 0, offset := 0, pending := [], metadata := md,
    sorting := ⟨0, cfg.sorting.length⟩, rowGroups := [], columnIndexes := [], offsetIndexes := [],
    deferred := [], deferredSize := 0, fileMetaData := none, dedupeLastRow := [] }

def init (cfg : Cfg) : Writer := initWith cfg cfg.metadata

/-! ## operations (histories) -/

/-- how a `writeRowGroup` that has rows to write ends -/
inductive FlushKind
  | failed (offset : Nat) (defs : List Nat) (nFlushed : Nat)      -- an error on the way, after the
                                                                  -- first nFlushed columns flushed their page
  | committed (offset : Nat) (defs : List Nat) (snap : List Nat)  -- row group appended
deriving DecidableEq

inductive Op
  /-- Write / WriteRows: buffering, page flushes, dictionary growth and overflow — any new
  volatile state per column (also the state an error leaves behind) -/
  | write (rows : Nat) (effs : List ColVol)
  | flush (k : FlushKind)
  /-- Close: flush, deferred blooms, footer (which may fail) -/
  | close (k : FlushKind) (footerOk : Bool) (offset : Nat)
  /-- Close on a writer that has not written its file header yet, and the header write fails:
  `(*Writer).Close` (writer.go 472-482) first closes every column writer (`(*ColumnWriter).Close`,
  writer.go 2433-2442: the buffered rows become a page in the column's page buffer — any new volatile
  state per column, a dictionary fallback included), then `(*writer).close` begins with
  `w.writeFileHeader()` (writer.go 1260-1263) BEFORE the flush and returns its error: no row group
  reset runs, the recorded pages stay in the writer; the sink offset moves by what the sink took -/
  | closeHeaderFailed (effs : List ColVol) (offset : Nat)
  | setKV (key value : Str)
  /-- SortingWriter: a buffered chunk is sorted, de-duplicated and written to the temporary
  writer; `last` is the chunk's last row -/
  | sortChunk (last : List Nat)
  | reset
deriving DecidableEq

def normLen (n : Nat) (l : List Nat) : List Nat := (l ++ List.replicate n 0).take n

/-- a write leaves any volatile state, except what the code ties together: the level histograms
keep their length, and type/encoding differ from the original ones only after a fallback -/
def applyEffect (c : Col) (e : ColVol) : Col :=
  { c with vol := { e with
      columnType := if e.hasSwitchedToPlain then e.columnType else c.st.originalType
      encoding := if e.hasSwitchedToPlain then e.encoding else c.st.originalEncoding
      levelHist := normLen c.st.histLen e.levelHist } }

def applyEffects : List Col → List ColVol → List Col
  | [], _ => []
  | cs, [] => cs
  | c :: cs, e :: es => applyEffect c e :: applyEffects cs es

/-- MIRROR `(*ColumnWriter).totalRowCount` -/
def totalRowCount (c : Col) : Nat :=
  c.vol.numRows + (if c.vol.onPlainBuffer then c.vol.plainBuffered.length else c.vol.buffered.length)

def rowsToFlush (s : Writer) : Nat :=
  match s.cols with
  | [] => 0
  | c :: _ => totalRowCount c

/-- MIRROR the buffer side of `(*ColumnWriter).Flush` (writer.go 2084-2122): the page is cut from
the CURRENT column buffer, which is then emptied (`defer c.columnBuffer.Reset()`); the other
effects (page buffer, statistics, a possible fallback) are wiped by the `rg.reset()` that follows -/
def colFlushBuffer (c : Col) : Col :=
  { c with vol := if c.vol.onPlainBuffer then { c.vol with plainBuffered := [] } else { c.vol with buffered := [] } }

def flushBuffers : Nat → List Col → List Col
  | 0, cs => cs
  | _ + 1, [] => []
  | n + 1, c :: cs => colFlushBuffer c :: flushBuffers n cs

/-- MIRROR `(*writer).writeRowGroup`, writer.go 1490-1833, as far as state is concerned: nothing
without rows; otherwise every column flushes its last page, the deferred `rg.reset()` always
runs, and on success the row group — struct copies of the live column chunks and the header of
`w.sortingColumns` — is appended. -/
def flushStep (M : Mirror) (s : Writer) (k : FlushKind) : Writer :=
  if rowsToFlush s = 0 then s else
  match k with
  | .failed off defs n =>
    { s with offset := off, deferred := s.deferred ++ defs
             cols := (flushBuffers n s.cols).map M.colReset, numRows := 0 }
  | .committed off defs snap =>
    { s with offset := off, deferred := s.deferred ++ defs, deferredSize := s.deferredSize + defs.length
             rowGroups := s.rowGroups ++
               [{ columns := s.cols.map (fun c => ⟨c.st.chunkPath, c.st.chunkEncoding, snap⟩),
                  sorting := s.sorting, nums := snap }]
             columnIndexes := s.columnIndexes ++ [snap], offsetIndexes := s.offsetIndexes ++ [snap]
             cols := (flushBuffers s.cols.length s.cols).map M.colReset, numRows := 0 }

def FlushKind.isFailed : FlushKind → Bool
  | .failed .. => true
  | .committed .. => false

/-- MIRROR `(*writer).close`, writer.go 1235-1252 -/
def closeStep (M : Mirror) (s : Writer) (k : FlushKind) (footerOk : Bool) (off : Nat) : Writer :=
  let s1 := flushStep M s k
  if rowsToFlush s ≠ 0 ∧ k.isFailed then s1 else
  let s2 := { s1 with deferred := [], deferredSize := 0, offset := off }
  if footerOk then { s2 with fileMetaData := some (0, s2.rowGroups.length) } else s2

/-- MIRROR `(*Writer).SetKeyValueMetadata`, writer.go 651-663 -/
def setKV (key value : Str) : List KV → List KV
  | [] => [⟨key, value⟩]
  | kv :: rest => if kv.key = key then ⟨key, value⟩ :: rest else kv :: setKV key value rest

def step (M : Mirror) (s : Writer) : Op → Writer
  | .write rows effs => { s with cols := applyEffects s.cols effs, numRows := rows }
  | .flush k => flushStep M s k
  | .close k ok off => closeStep M s k ok off
  | .closeHeaderFailed effs off => { s with cols := applyEffects s.cols effs, offset := off }
  | .setKV k v => { s with metadata := setKV k v s.metadata }
  | .sortChunk last => { s with dedupeLastRow := M.dedupeAfterChunk last }
  | .reset => resetWith M s

def run (M : Mirror) (cfg : Cfg) (ops : List Op) : Writer := ops.foldl (step M) (init cfg)

/-! ## observation: everything the next file's bytes depend on -/

/-- the size statistics, which writeRowGroup overwrites before encoding them (writer.go 1578), are
masked; so is the allocation flag when no code path reads it (`ra = false`) -/
def ColVol.observed (ra : Bool) (v : ColVol) : ColVol :=
  { v with sizeStats := [], bufAllocated := ra && v.bufAllocated }

structure ColObs where
  path : List Str            -- what c.columnPath reads now (through the heap)
  chunkPath : List Str       -- what the live column chunk's PathInSchema reads now
  encodings : List Nat
  chunkEncoding : List Nat
  st : ColStable
  vol : ColVol
deriving DecidableEq

structure RowGroupObs where
  columns : List (List Str × List Nat × List Nat)
  sorting : List SortCol
  nums : List Nat
deriving DecidableEq

structure Obs where
  cols : List ColObs
  numRows : Nat
  offset : Nat
  pending : List Nat
  metadata : List KV
  sorting : List SortCol
  rowGroups : List RowGroupObs
  columnIndexes : List (List Nat)
  offsetIndexes : List (List Nat)
  deferred : List Nat
  deferredSize : Nat
  fileMetaData : Option (Nat × Nat)
  dedupeLastRow : List Nat
deriving DecidableEq

def observeCol (ra : Bool) (h : Heap) (c : Col) : ColObs :=
  { path := h.derefStrs c.st.columnPath, chunkPath := h.derefStrs c.st.chunkPath,
    encodings := h.derefEncs c.st.encodings, chunkEncoding := h.derefEncs c.st.chunkEncoding,
    st := c.st, vol := c.vol.observed ra }

def observeRowGroup (h : Heap) (rg : RowGroup) : RowGroupObs :=
  { columns := rg.columns.map (fun c => (h.derefStrs c.path, h.derefEncs c.encoding, c.snap)),
    sorting := h.derefSorts rg.sorting, nums := rg.nums }

def observe (M : Mirror) (s : Writer) : Obs :=
  { cols := s.cols.map (observeCol M.readsAllocation s.heap), numRows := s.numRows, offset := s.offset,
    pending := s.pending, metadata := s.metadata, sorting := s.heap.derefSorts s.sorting,
    rowGroups := s.rowGroups.map (observeRowGroup s.heap), columnIndexes := s.columnIndexes,
    offsetIndexes := s.offsetIndexes, deferred := s.deferred, deferredSize := s.deferredSize,
    fileMetaData := s.fileMetaData, dedupeLastRow := s.dedupeLastRow }

/-! ## invariants -/

/-- what `applyEffect` guarantees about a column -/
def ColOK (c : Col) : Prop :=
  c.vol.levelHist.length = c.st.histLen ∧
  (c.vol.hasSwitchedToPlain = false → c.vol.columnType = c.st.originalType ∧ c.vol.encoding = c.st.originalEncoding)

def AllOK (s : Writer) : Prop := ∀ c ∈ s.cols, ColOK c

/-- the part of the state no operation is supposed to change -/
structure Stable where
  heap : Heap
  cols : List ColStable
  sorting : Slice
deriving DecidableEq

def stableOf (s : Writer) : Stable := ⟨s.heap, s.cols.map (·.st), s.sorting⟩

/-! ### small lemmas -/

theorem clearPrefix_zero {α} (z : α) (l : List α) : clearPrefix z 0 l = l := by
  cases l <;> rfl

theorem modifyAt_id {α} (f : α → α) (hf : ∀ x, f x = x) (i : Nat) (l : List α) : modifyAt f i l = l := by
  induction l generalizing i with
  | nil => cases i <;> rfl
  | cons x xs ih =>
    cases i with
    | zero => simp [modifyAt, hf]
    | succ i => simp [modifyAt, ih]

theorem clearStrs_len0 (h : Heap) (s : Slice) (hs : s.len = 0) : h.clearStrs s = h := by
  cases h
  simp only [Heap.clearStrs, hs]
  congr
  exact modifyAt_id _ (clearPrefix_zero _) _ _

theorem clearSorts_len0 (h : Heap) (s : Slice) (hs : s.len = 0) : h.clearSorts s = h := by
  cases h
  simp only [Heap.clearSorts, hs]
  congr
  exact modifyAt_id _ (clearPrefix_zero _) _ _

theorem foldl_fixed {α β} (f : β → α → β) (b : β) (l : List α) (hf : ∀ a, f b a = b) : l.foldl f b = b := by
  induction l with
  | nil => rfl
  | cons a l ih => simp [List.foldl, hf, ih]

/-- the repaired row-group reset never writes to the heap -/
theorem fixed_rowGroupReset (h : Heap) (rg : RowGroup) : fixed.rowGroupReset h rg = h := by
  simp only [fixed, rowGroupResetHeap, RowGroup.detach]
  rw [clearSorts_len0 _ _ rfl, List.foldl_map]
  exact foldl_fixed _ _ _ (fun c => clearStrs_len0 _ _ rfl)

theorem normLen_length (n : Nat) (l : List Nat) : (normLen n l).length = n := by
  simp [normLen, List.length_take]

theorem colOK_applyEffect (c : Col) (e : ColVol) : ColOK (applyEffect c e) := by
  refine ⟨by simp [applyEffect, normLen_length], ?_⟩
  intro h
  simp only [applyEffect] at h ⊢
  simp [h]

theorem colOK_resetAsIs (c : Col) (h : ColOK c) : ColOK (colResetAsIs c) := by
  refine ⟨by simpa [colResetAsIs] using h.1, ?_⟩
  intro _
  simp only [colResetAsIs]
  by_cases hs : c.vol.hasSwitchedToPlain = true
  · simp [hs]
  · have := h.2 (by simpa using hs)
    simp [hs, this.1, this.2]

theorem colOK_resetFixed (c : Col) (h : ColOK c) : ColOK (colResetFixed c) := by
  have := colOK_resetAsIs c h
  exact ⟨this.1, this.2⟩

theorem colOK_fresh (st : ColStable) : ColOK ⟨st, ColVol.fresh st⟩ := by
  simp [ColOK, ColVol.fresh]

theorem colReset_st_asIs (c : Col) : (colResetAsIs c).st = c.st := rfl
theorem colReset_st_fixed (c : Col) : (colResetFixed c).st = c.st := rfl

theorem applyEffects_st (cs : List Col) (es : List ColVol) : (applyEffects cs es).map (·.st) = cs.map (·.st) := by
  induction cs generalizing es with
  | nil => cases es <;> rfl
  | cons c cs ih =>
    cases es with
    | nil => rfl
    | cons e es => simp [applyEffects, applyEffect, ih]

theorem applyEffects_ok (cs : List Col) (es : List ColVol) (h : ∀ c ∈ cs, ColOK c) :
    ∀ c ∈ applyEffects cs es, ColOK c := by
  induction cs generalizing es with
  | nil => cases es <;> simp [applyEffects]
  | cons c cs ih =>
    cases es with
    | nil => simpa [applyEffects] using h
    | cons e es =>
      intro x hx
      simp only [applyEffects, List.mem_cons] at hx
      rcases hx with rfl | hx
      · exact colOK_applyEffect c e
      · exact ih es (fun c hc => h c (List.mem_cons_of_mem _ hc)) x hx

theorem initCols_ok (i : Nat) (ccs : List ColCfg) : ∀ c ∈ initCols i ccs, ColOK c := by
  induction ccs generalizing i with
  | nil => simp [initCols]
  | cons cc rest ih =>
    intro c hc
    simp only [initCols, List.mem_cons] at hc
    rcases hc with rfl | hc
    · exact colOK_fresh _
    · exact ih _ c hc

theorem initCols_fresh (i : Nat) (ccs : List ColCfg) : ∀ c ∈ initCols i ccs, c.vol = ColVol.fresh c.st := by
  induction ccs generalizing i with
  | nil => simp [initCols]
  | cons cc rest ih =>
    intro c hc
    simp only [initCols, List.mem_cons] at hc
    rcases hc with rfl | hc
    · rfl
    · exact ih _ c hc

/-- after the repaired column reset, a column that satisfies the invariant looks fresh -/
theorem observed_resetFixed (c : Col) (h : ColOK c) :
    (colResetFixed c).vol.observed false = (ColVol.fresh c.st).observed false := by
  have hl : c.vol.levelHist.map (fun _ => 0) = List.replicate c.st.histLen 0 := by
    rw [← h.1]
    exact List.map_const' ..
  simp only [colResetFixed, colResetAsIs, ColVol.observed, ColVol.fresh, hl]
  by_cases hs : c.vol.hasSwitchedToPlain = true
  · simp [hs]
  · have := h.2 (by simpa using hs)
    simp [hs, this.1, this.2]

/-- after the as-is column reset the same holds if the plain fallback buffer happens to be empty -/
theorem observed_resetAsIs (c : Col) (h : ColOK c) (hp : c.vol.plainBuffered = [])
    (ha : c.vol.bufAllocated = false) (hb : c.vol.bloomLength = 0) :
    (colResetAsIs c).vol.observed true = (ColVol.fresh c.st).observed true := by
  have := observed_resetFixed c h
  simpa [colResetFixed, ColVol.observed, colResetAsIs, hp, ha, hb, ColVol.fresh] using this

/-- the observation of a writer whose columns all look fresh, as a function of the stable part -/
def freshObs (ra : Bool) (st : Stable) (md : List KV) : Obs :=
  { cols := st.cols.map (fun cs => observeCol ra st.heap ⟨cs, ColVol.fresh cs⟩), numRows := 0, offset := 0,
    pending := [], metadata := md, sorting := st.heap.derefSorts st.sorting, rowGroups := [],
    columnIndexes := [], offsetIndexes := [], deferred := [], deferredSize := 0, fileMetaData := none,
    dedupeLastRow := [] }

theorem observe_initWith (M : Mirror) (cfg : Cfg) (md : List KV) :
    observe M (initWith cfg md) = freshObs M.readsAllocation (stableOf (initWith cfg md)) md := by
  simp only [observe, freshObs, stableOf, initWith, List.map_map, List.map_nil]
  congr 1
  apply List.map_congr_left
  intro c hc
  simp [observeCol, initCols_fresh 0 cfg.cols c hc]


/-! ### preservation along histories -/

/-- what the proofs need of a mirror's column reset -/
structure Mirror.Good (M : Mirror) : Prop where
  st : ∀ c, (M.colReset c).st = c.st
  ok : ∀ c, ColOK c → ColOK (M.colReset c)
  dedupe : ∀ l, M.dedupeAfterChunk l = []

theorem asIs_good : asIs.Good := ⟨colReset_st_asIs, colOK_resetAsIs, fun _ => rfl⟩
theorem fixed_good : fixed.Good := ⟨colReset_st_fixed, colOK_resetFixed, fun _ => rfl⟩

theorem map_colReset_st (M : Mirror) (hM : M.Good) (cs : List Col) :
    (cs.map M.colReset).map (·.st) = cs.map (·.st) := by
  rw [List.map_map]
  exact List.map_congr_left (fun c _ => hM.st c)

theorem map_colReset_ok (M : Mirror) (hM : M.Good) (cs : List Col) (h : ∀ c ∈ cs, ColOK c) :
    ∀ c ∈ cs.map M.colReset, ColOK c := by
  intro c hc
  rcases List.mem_map.mp hc with ⟨c0, hc0, rfl⟩
  exact hM.ok c0 (h c0 hc0)

theorem flushBuffers_st (n : Nat) (cs : List Col) : (flushBuffers n cs).map (·.st) = cs.map (·.st) := by
  induction cs generalizing n with
  | nil => cases n <;> rfl
  | cons c cs ih =>
    cases n with
    | zero => rfl
    | succ n => simp [flushBuffers, colFlushBuffer, ih]

theorem colOK_flushBuffer (c : Col) (h : ColOK c) : ColOK (colFlushBuffer c) := by
  unfold colFlushBuffer ColOK
  split <;> exact h

theorem flushBuffers_ok (n : Nat) (cs : List Col) (h : ∀ c ∈ cs, ColOK c) : ∀ c ∈ flushBuffers n cs, ColOK c := by
  induction cs generalizing n with
  | nil => cases n <;> simp [flushBuffers]
  | cons c cs ih =>
    cases n with
    | zero => simpa [flushBuffers] using h
    | succ n =>
      intro x hx
      simp only [flushBuffers, List.mem_cons] at hx
      rcases hx with rfl | hx
      · exact colOK_flushBuffer c (h c List.mem_cons_self)
      · exact ih n (fun c hc => h c (List.mem_cons_of_mem _ hc)) x hx

theorem stableOf_flushStep (M : Mirror) (hM : M.Good) (s : Writer) (k : FlushKind) :
    stableOf (flushStep M s k) = stableOf s := by
  unfold flushStep
  split
  · rfl
  · cases k <;> simp [stableOf, map_colReset_st M hM, flushBuffers_st]

theorem allOK_flushStep (M : Mirror) (hM : M.Good) (s : Writer) (k : FlushKind) (h : AllOK s) :
    AllOK (flushStep M s k) := by
  unfold flushStep
  split
  · exact h
  · cases k <;> exact map_colReset_ok M hM _ (flushBuffers_ok _ s.cols h)

theorem stableOf_closeStep (M : Mirror) (hM : M.Good) (s : Writer) (k : FlushKind) (ok : Bool) (off : Nat) :
    stableOf (closeStep M s k ok off) = stableOf s := by
  have h := stableOf_flushStep M hM s k
  unfold closeStep
  simp only
  split
  · exact h
  · split <;> simpa [stableOf] using h

theorem allOK_closeStep (M : Mirror) (hM : M.Good) (s : Writer) (k : FlushKind) (ok : Bool) (off : Nat)
    (h : AllOK s) : AllOK (closeStep M s k ok off) := by
  have h := allOK_flushStep M hM s k h
  unfold closeStep
  simp only
  split
  · exact h
  · split <;> exact h

/-- every operation keeps the stable part, provided a reset does not write to the heap -/
theorem stableOf_step (M : Mirror) (hM : M.Good) (s : Writer) (op : Op)
    (hheap : op = .reset → s.rowGroups.foldl M.rowGroupReset s.heap = s.heap) :
    stableOf (step M s op) = stableOf s := by
  cases op with
  | write rows effs => simp [step, stableOf, applyEffects_st]
  | flush k => exact stableOf_flushStep M hM s k
  | close k ok off => exact stableOf_closeStep M hM s k ok off
  | closeHeaderFailed effs off => simp [step, stableOf, applyEffects_st]
  | setKV k v => rfl
  | sortChunk last => rfl
  | reset => simp [step, resetWith, stableOf, hheap rfl, map_colReset_st M hM]

theorem allOK_step (M : Mirror) (hM : M.Good) (s : Writer) (op : Op) (h : AllOK s) : AllOK (step M s op) := by
  cases op with
  | write rows effs => exact applyEffects_ok s.cols effs h
  | flush k => exact allOK_flushStep M hM s k h
  | close k ok off => exact allOK_closeStep M hM s k ok off h
  | closeHeaderFailed effs off => exact applyEffects_ok s.cols effs h
  | setKV k v => exact h
  | sortChunk last => exact h
  | reset => exact map_colReset_ok M hM s.cols h

theorem fixed_heap (s : Writer) : s.rowGroups.foldl fixed.rowGroupReset s.heap = s.heap :=
  foldl_fixed _ _ _ (fixed_rowGroupReset s.heap)

/-- what a reset leaves, for a mirror and a state in which the reset does not write to the heap and
every column's reset looks fresh -/
theorem observeCol_reset (ra : Bool) (h : Heap) (c c' : Col) (h1 : c'.st = c.st)
    (h2 : c'.vol.observed ra = (ColVol.fresh c.st).observed ra) :
    observeCol ra h c' = observeCol ra h ⟨c.st, ColVol.fresh c.st⟩ := by
  simp only [observeCol, h1, h2]

theorem observe_resetWith (M : Mirror) (s : Writer)
    (hheap : s.rowGroups.foldl M.rowGroupReset s.heap = s.heap)
    (hcols : ∀ c ∈ s.cols, (M.colReset c).st = c.st ∧
      (M.colReset c).vol.observed M.readsAllocation = (ColVol.fresh c.st).observed M.readsAllocation)
    (hd : s.dedupeLastRow = []) :
    observe M (resetWith M s) = freshObs M.readsAllocation (stableOf s) s.metadata := by
  simp only [observe, resetWith, freshObs, stableOf, hheap, hd, List.map_map, List.map_nil]
  congr 1
  apply List.map_congr_left
  intro c hc
  exact observeCol_reset _ s.heap c (M.colReset c) (hcols c hc).1 (hcols c hc).2

/-- committing operations: a flush or close that appends a row group when there are rows -/
def Op.commits : Op → Bool
  | .flush (.committed ..) => true
  | .close (.committed ..) _ _ => true
  | _ => false

theorem rowGroups_flushStep_failed (M : Mirror) (s : Writer) (off : Nat) (defs : List Nat) (n : Nat) :
    (flushStep M s (.failed off defs n)).rowGroups = s.rowGroups := by
  unfold flushStep
  split <;> rfl

theorem rowGroups_step_noCommit (M : Mirror) (s : Writer) (op : Op) (hc : op.commits = false)
    (h : s.rowGroups = []) : (step M s op).rowGroups = [] := by
  cases op with
  | write rows effs => exact h
  | flush k =>
    cases k with
    | failed off defs n => simpa [step, rowGroups_flushStep_failed] using h
    | committed off defs snap => simp [Op.commits] at hc
  | close k ok off =>
    cases k with
    | failed off' defs n =>
      have hf := rowGroups_flushStep_failed M s off' defs n
      simp only [step, closeStep]
      split
      · simpa [hf] using h
      · split <;> simpa [hf] using h
    | committed off' defs snap => simp [Op.commits] at hc
  | closeHeaderFailed effs off => exact h
  | setKV k v => exact h
  | sortChunk last => exact h
  | reset => rfl

/-! ### induction over histories -/

theorem run_invariant (ops : List Op) (M : Mirror) (hM : M.Good) (cfg : Cfg)
    (P : Writer → Prop) (hP : ∀ s op, P s → op ∈ ops → P (step M s op))
    (heap : ∀ s, P s → s.rowGroups.foldl M.rowGroupReset s.heap = s.heap)
    (s0 : Writer) (h0 : P s0 ∧ stableOf s0 = stableOf (init cfg) ∧ AllOK s0) :
    P (ops.foldl (step M) s0) ∧ stableOf (ops.foldl (step M) s0) = stableOf (init cfg) ∧
      AllOK (ops.foldl (step M) s0) := by
  induction ops generalizing s0 with
  | nil => exact h0
  | cons op ops ih =>
    simp only [List.foldl]
    apply ih (fun s o hs ho => hP s o hs (List.mem_cons_of_mem _ ho))
    refine ⟨hP s0 op h0.1 List.mem_cons_self, ?_, allOK_step M hM s0 op h0.2.2⟩
    rw [stableOf_step M hM s0 op (fun _ => heap s0 h0.1)]
    exact h0.2.1

/-- under a mirror that clears it after every chunk, the dedupe state is empty in every reachable state -/
theorem dedupe_step (M : Mirror) (hM : M.Good) (s : Writer) (op : Op) (h : s.dedupeLastRow = []) :
    (step M s op).dedupeLastRow = [] := by
  cases op with
  | write rows effs => exact h
  | flush k =>
    simp only [step, flushStep]
    split
    · exact h
    · cases k <;> exact h
  | close k ok off =>
    simp only [step, closeStep, flushStep]
    split <;> split <;> (try split) <;> (try cases k) <;> exact h
  | closeHeaderFailed effs off => exact h
  | setKV k v => exact h
  | sortChunk last => exact hM.dedupe last
  | reset => exact h

theorem init_allOK (cfg : Cfg) : AllOK (init cfg) := initCols_ok 0 cfg.cols

/-- the metadata list changes only through `SetKeyValueMetadata` -/
def Op.isSetKV : Op → Bool
  | .setKV .. => true
  | _ => false

theorem metadata_step (M : Mirror) (s : Writer) (op : Op) (h : Op.isSetKV op = false) :
    (step M s op).metadata = s.metadata := by
  cases op with
  | write rows effs => rfl
  | flush k =>
    simp only [step, flushStep]
    split
    · rfl
    · cases k <;> rfl
  | close k ok off =>
    simp only [step, closeStep, flushStep]
    split <;> split <;> (try split) <;> (try cases k) <;> rfl
  | closeHeaderFailed effs off => rfl
  | setKV k v => simp [Op.isSetKV] at h
  | sortChunk last => rfl
  | reset => rfl

theorem metadata_run (M : Mirror) (ops : List Op) (h : ∀ op ∈ ops, Op.isSetKV op = false)
    (s0 : Writer) : (ops.foldl (step M) s0).metadata = s0.metadata := by
  induction ops generalizing s0 with
  | nil => rfl
  | cons op ops ih =>
    simp only [List.foldl]
    rw [ih (fun o ho => h o (List.mem_cons_of_mem _ ho)), metadata_step M s0 op (h op List.mem_cons_self)]


/-! ### key/value metadata order (file.go 645-652: sort by key, then value, bytewise) -/

/-- `strings.Compare(a, b) <= 0` -/
def leBytes : Str → Str → Bool
  | [], _ => true
  | _ :: _, [] => false
  | a :: as, b :: bs => decide (a < b) || (a == b && leBytes as bs)

theorem leBytes_total (a b : Str) : (leBytes a b || leBytes b a) = true := by
  induction a generalizing b with
  | nil => simp [leBytes]
  | cons x xs ih =>
    cases b with
    | nil => simp [leBytes]
    | cons y ys =>
      have := ih ys
      simp only [leBytes, Bool.or_eq_true, Bool.and_eq_true, decide_eq_true_eq, beq_iff_eq] at this ⊢
      by_cases h1 : x < y
      · exact Or.inl (Or.inl h1)
      · by_cases h2 : y < x
        · exact Or.inr (Or.inl h2)
        · have : x = y := by omega
          subst this
          rcases this with h | h
          · exact Or.inl (Or.inr ⟨rfl, h⟩)
          · exact Or.inr (Or.inr ⟨rfl, h⟩)

theorem leBytes_antisymm (a b : Str) (h1 : leBytes a b = true) (h2 : leBytes b a = true) : a = b := by
  induction a generalizing b with
  | nil => cases b <;> simp_all [leBytes]
  | cons x xs ih =>
    cases b with
    | nil => simp [leBytes] at h1
    | cons y ys =>
      simp only [leBytes, Bool.or_eq_true, Bool.and_eq_true, decide_eq_true_eq, beq_iff_eq] at h1 h2
      rcases h1 with h1 | ⟨rfl, h1⟩
      · rcases h2 with h2 | ⟨rfl, _⟩ <;> omega
      · rcases h2 with h2 | ⟨_, h2⟩
        · omega
        · rw [ih ys h1 h2]

theorem leBytes_trans (a b c : Str) (h1 : leBytes a b = true) (h2 : leBytes b c = true) : leBytes a c = true := by
  induction a generalizing b c with
  | nil => simp [leBytes]
  | cons x xs ih =>
    cases b with
    | nil => simp [leBytes] at h1
    | cons y ys =>
      cases c with
      | nil => simp [leBytes] at h2
      | cons z zs =>
        simp only [leBytes, Bool.or_eq_true, Bool.and_eq_true, decide_eq_true_eq, beq_iff_eq] at h1 h2 ⊢
        rcases h1 with h1 | ⟨rfl, h1⟩
        · rcases h2 with h2 | ⟨rfl, _⟩
          · exact Or.inl (by omega)
          · exact Or.inl h1
        · rcases h2 with h2 | ⟨rfl, h2⟩
          · exact Or.inl h2
          · exact Or.inr ⟨rfl, ih ys zs h1 h2⟩

theorem leBytes_refl (a : Str) : leBytes a a = true := by
  induction a with
  | nil => rfl
  | cons x xs ih => simp [leBytes, ih]

/-- the comparison of `sortKeyValueMetadata` as `<= 0` -/
def leKV (a b : KV) : Bool :=
  if a.key = b.key then leBytes a.value b.value else leBytes a.key b.key

theorem leKV_total (a b : KV) : (leKV a b || leKV b a) = true := by
  unfold leKV
  by_cases h : a.key = b.key
  · simp only [h, if_true]
    exact leBytes_total _ _
  · have h' : ¬ b.key = a.key := fun e => h e.symm
    simp only [h, h', if_false]
    exact leBytes_total _ _

theorem leKV_antisymm (a b : KV) (h1 : leKV a b = true) (h2 : leKV b a = true) : a = b := by
  unfold leKV at h1 h2
  cases a with | mk ak av =>
  cases b with | mk bk bv =>
  simp only at h1 h2
  by_cases h : ak = bk
  · subst h
    simp only [if_true] at h1 h2
    rw [leBytes_antisymm _ _ h1 h2]
  · have h' : ¬ bk = ak := fun e => h e.symm
    simp only [h, h', if_false] at h1 h2
    exact absurd (leBytes_antisymm _ _ h1 h2) h

theorem leKV_trans (a b c : KV) (h1 : leKV a b = true) (h2 : leKV b c = true) : leKV a c = true := by
  unfold leKV at h1 h2 ⊢
  by_cases hab : a.key = b.key
  · by_cases hbc : b.key = c.key
    · have hac : a.key = c.key := hab.trans hbc
      simp only [hab, hbc, if_true] at h1 h2 ⊢
      exact leBytes_trans _ _ _ h1 h2
    · have hac : ¬ a.key = c.key := fun e => hbc (hab.symm.trans e)
      simp only [hbc, hac, if_false] at h2 ⊢
      rw [hab]; exact h2
  · by_cases hbc : b.key = c.key
    · have hac : ¬ a.key = c.key := fun e => hab (e.trans hbc.symm)
      simp only [hab, hac, if_false] at h1 ⊢
      rw [← hbc]; exact h1
    · simp only [hab, hbc, if_false] at h1 h2
      have hle := leBytes_trans _ _ _ h1 h2
      by_cases hac : a.key = c.key
      · -- a.key ≤ b.key ≤ c.key = a.key forces a.key = b.key
        exfalso
        rw [← hac] at h2
        exact hab (leBytes_antisymm _ _ h1 h2)
      · simp only [hac, if_false]; exact hle

def insertKV (a : KV) : List KV → List KV
  | [] => [a]
  | b :: l => if leKV a b then a :: b :: l else b :: insertKV a l

/-- MIRROR `sortKeyValueMetadata` as an insertion sort (any correct sort gives the same list, see
`kv_sorted`; Go's `slices.SortFunc` is a pattern-defeating quicksort) -/
def sortKV : List KV → List KV
  | [] => []
  | a :: l => insertKV a (sortKV l)

theorem insertKV_perm (a : KV) (l : List KV) : (insertKV a l).Perm (a :: l) := by
  induction l with
  | nil => exact List.Perm.refl _
  | cons b l ih =>
    simp only [insertKV]
    split
    · exact List.Perm.refl _
    · exact (List.Perm.cons b ih).trans (List.Perm.swap a b l)

theorem sortKV_perm (l : List KV) : (sortKV l).Perm l := by
  induction l with
  | nil => exact List.Perm.refl _
  | cons a l ih => exact (insertKV_perm a (sortKV l)).trans (List.Perm.cons a ih)

theorem insertKV_sorted (a : KV) (l : List KV) (h : l.Pairwise (fun x y => leKV x y = true)) :
    (insertKV a l).Pairwise (fun x y => leKV x y = true) := by
  induction l with
  | nil => simp [insertKV]
  | cons b l ih =>
    rw [List.pairwise_cons] at h
    simp only [insertKV]
    split
    · rename_i hab
      refine List.pairwise_cons.mpr ⟨?_, List.pairwise_cons.mpr h⟩
      intro x hx
      rcases List.mem_cons.mp hx with rfl | hx
      · exact hab
      · exact leKV_trans a b x hab (h.1 x hx)
    · rename_i hab
      have hba : leKV b a = true := by
        have := leKV_total a b
        simp only [Bool.or_eq_true] at this
        rcases this with h1 | h1
        · exact absurd h1 hab
        · exact h1
      refine List.pairwise_cons.mpr ⟨?_, ih h.2⟩
      intro x hx
      have hx' : x ∈ a :: l := (insertKV_perm a l).mem_iff.mp hx
      rcases List.mem_cons.mp hx' with rfl | hx'
      · exact hba
      · exact h.1 x hx'

theorem sortKV_sorted (l : List KV) : (sortKV l).Pairwise (fun x y => leKV x y = true) := by
  induction l with
  | nil => simp [sortKV]
  | cons a l ih => exact insertKV_sorted a _ ih

/-- MIRROR of `newWriter`'s metadata list: the configured map in some iteration order, sorted -/
def cfgMetadata (mapOrder : List KV) : List KV := sortKV mapOrder

/-- the current mirror: the library as it stands: `fixed` since the `fix:` commits for F10, F24 and F25 (it was `asIs` before) -/
def current : Mirror := fixed
/-- printable name of `current` (for the driver) -/
def currentName : String := "fixed"

end PqModel.Reset
