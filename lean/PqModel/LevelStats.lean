import PqModel.Stats

/-! # Level histograms and size statistics (C05)

MIRRORS of writer_statistics.go (`accumulateAndAppendPageLevelHistogram`, `computeUnencodedByteArraySize`)
and of the accumulation in writer.go `recordPageStats` / `writeRowGroup`. Levels are `Nat`s, a histogram is
a `List Nat` of length `maxLevel + 1`. -/
namespace PqModel.LevelStats

/-- `histogram[level]++` (an out-of-range level would panic in Go; here it leaves the list alone) -/
def bump : List Nat → Nat → List Nat
  | [], _ => []
  | x :: t, 0 => (x + 1) :: t
  | x :: t, l + 1 => x :: bump t l

/-- MIRROR writer_statistics.go:44-61 `accumulateAndAppendPageLevelHistogram`, the per-page part: a zeroed
    block of `maxLevel+1` counters, one increment per level -/
def pageHist (maxLevel : Nat) (levels : List Nat) : List Nat :=
  levels.foldl bump (List.replicate (maxLevel + 1) 0)

/-- the column-chunk part of the same loop: the running histogram is incremented by the same levels -/
def accumulate (col : List Nat) (levels : List Nat) : List Nat := levels.foldl bump col

/-- MIRROR writer.go `recordPageStats` over the pages of a chunk: `(chunk histogram, flat page histograms)`;
    the flat list is what goes to `ColumnIndex.{repetition,definition}_level_histogram` -/
def chunkHists (maxLevel : Nat) (pages : List (List Nat)) : List Nat × List Nat :=
  pages.foldl (fun (acc : List Nat × List Nat) lv => (accumulate acc.1 lv, acc.2 ++ pageHist maxLevel lv))
    (List.replicate (maxLevel + 1) 0, [])

/-- MIRROR writer_statistics.go:11-29 `computeUnencodedByteArraySize` (as repaired): the bytes of the
    non-null values of a BYTE_ARRAY page, whether the page stores them or dictionary indexes to them -/
def pageUnencoded (vals : List (List Nat)) : Nat := (vals.map List.length).sum

/-- the same function BEFORE the fix: a dictionary-encoded page counted 0 -/
def pageUnencoded_before_fix (dictEncoded : Bool) (vals : List (List Nat)) : Nat :=
  if dictEncoded then 0 else (vals.map List.length).sum

/-- MIRROR writer.go `c.totalUnencodedByteArrayBytes += …` over the pages -/
def chunkUnencoded (pages : List (List (List Nat))) : Nat := pages.foldl (fun acc p => acc + pageUnencoded p) 0

theorem bump_length : ∀ (h : List Nat) (l : Nat), (bump h l).length = h.length
  | [], _ => rfl
  | _ :: _, 0 => rfl
  | _ :: t, l + 1 => by simp [bump, bump_length t l]

theorem bump_getD : ∀ (h : List Nat) (l j : Nat), l < h.length →
    (bump h l).getD j 0 = h.getD j 0 + (if j = l then 1 else 0)
  | [], _, _, hl => by simp at hl
  | x :: t, 0, j, _ => by
    cases j with
    | zero => simp [bump]
    | succ j' => simp [bump]
  | x :: t, l + 1, j, hl => by
    cases j with
    | zero => simp [bump]
    | succ j' =>
      have := bump_getD t l j' (by simpa using hl)
      simp only [bump, List.getD_cons_succ, this]
      congr 1
      by_cases h : j' = l <;> simp [h]

theorem bump_sum : ∀ (h : List Nat) (l : Nat), l < h.length → (bump h l).sum = h.sum + 1
  | [], _, hl => by simp at hl
  | x :: t, 0, _ => by simp [bump]; omega
  | x :: t, l + 1, hl => by
    have := bump_sum t l (by simpa using hl)
    simp only [bump, List.sum_cons, this]; omega

theorem foldl_bump_spec : ∀ (levels : List Nat) (h : List Nat), (∀ x ∈ levels, x < h.length) →
    (levels.foldl bump h).length = h.length ∧
    (∀ j, (levels.foldl bump h).getD j 0 = h.getD j 0 + levels.count j) ∧
    (levels.foldl bump h).sum = h.sum + levels.length
  | [], h, _ => by simp
  | l :: rest, h, hb => by
    have hl : l < h.length := hb l (by simp)
    have ih := foldl_bump_spec rest (bump h l) (fun x hx => by rw [bump_length]; exact hb x (by simp [hx]))
    simp only [List.foldl_cons]
    refine ⟨by rw [ih.1, bump_length], ?_, ?_⟩
    · intro j
      rw [ih.2.1 j, bump_getD h l j hl, List.count_cons]
      by_cases hjl : j = l
      · subst hjl; simp; omega
      · have : (l == j) = false := by simp; omega
        simp [hjl, this]
    · rw [ih.2.2, bump_sum h l hl]; simp; omega

theorem replicate_getD (n j : Nat) : (List.replicate n 0).getD j 0 = 0 := by
  induction n generalizing j with
  | zero => simp
  | succ n ih =>
    cases j with
    | zero => simp [List.replicate]
    | succ j' => simpa [List.replicate] using ih j'

theorem replicate_sum (n : Nat) : (List.replicate n 0).sum = 0 := by
  induction n with
  | zero => rfl
  | succ n ih => simp [List.replicate, ih]

/-- closed form of the chunk fold, for any starting accumulator -/
theorem chunkHists_fold (maxLevel : Nat) : ∀ (pages : List (List Nat)) (acc : List Nat × List Nat),
    pages.foldl (fun (acc : List Nat × List Nat) lv => (accumulate acc.1 lv, acc.2 ++ pageHist maxLevel lv)) acc =
      (accumulate acc.1 pages.flatten, acc.2 ++ pages.flatMap (pageHist maxLevel))
  | [], acc => by simp [accumulate]
  | p :: rest, acc => by
    rw [List.foldl_cons, chunkHists_fold maxLevel rest]
    simp [accumulate, List.foldl_append, List.append_assoc]

theorem pageHist_spec (maxLevel : Nat) (levels : List Nat) (hb : ∀ x ∈ levels, x ≤ maxLevel) :
    (pageHist maxLevel levels).length = maxLevel + 1 ∧
    (∀ l, (pageHist maxLevel levels).getD l 0 = levels.count l) ∧
    (pageHist maxLevel levels).sum = levels.length := by
  have h := foldl_bump_spec levels (List.replicate (maxLevel + 1) 0)
    (fun x hx => by simp only [List.length_replicate]; have := hb x hx; omega)
  refine ⟨by simpa [pageHist] using h.1, fun l => ?_, ?_⟩
  · have := h.2.1 l; rw [replicate_getD] at this; simpa [pageHist] using this
  · have := h.2.2; rw [replicate_sum] at this; simpa [pageHist] using this

theorem chunkHists_fst (maxLevel : Nat) (pages : List (List Nat)) :
    (chunkHists maxLevel pages).1 = pageHist maxLevel pages.flatten := by
  unfold chunkHists
  rw [chunkHists_fold]
  simp [accumulate, pageHist]

theorem chunkHists_snd (maxLevel : Nat) (pages : List (List Nat)) :
    (chunkHists maxLevel pages).2 = pages.flatMap (pageHist maxLevel) := by
  unfold chunkHists
  rw [chunkHists_fold]
  simp

theorem sum_page_counts (maxLevel l : Nat) : ∀ (pages : List (List Nat)), (∀ p ∈ pages, ∀ x ∈ p, x ≤ maxLevel) →
    (pages.map (fun p => (pageHist maxLevel p).getD l 0)).sum = pages.flatten.count l
  | [], _ => by simp
  | p :: rest, hb => by
    have h1 := (pageHist_spec maxLevel p (hb p (by simp))).2.1 l
    have h2 := sum_page_counts maxLevel l rest (fun q hq => hb q (by simp [hq]))
    simp only [List.map_cons, List.sum_cons, List.flatten_cons, List.count_append, h1, h2]

theorem flatMap_pageHist_length (maxLevel : Nat) : ∀ (pages : List (List Nat)), (∀ p ∈ pages, ∀ x ∈ p, x ≤ maxLevel) →
    (pages.flatMap (pageHist maxLevel)).length = pages.length * (maxLevel + 1)
  | [], _ => by simp
  | p :: rest, hb => by
    have h1 := (pageHist_spec maxLevel p (hb p (by simp))).1
    have h2 := flatMap_pageHist_length maxLevel rest (fun q hq => hb q (by simp [hq]))
    simp only [List.flatMap_cons, List.length_append, h1, h2, List.length_cons]
    rw [Nat.add_mul]; omega

theorem chunkUnencoded_fold : ∀ (pages : List (List (List Nat))) (acc : Nat),
    pages.foldl (fun acc p => acc + pageUnencoded p) acc = acc + (pages.map pageUnencoded).sum
  | [], acc => by simp
  | p :: rest, acc => by rw [List.foldl_cons, chunkUnencoded_fold rest]; simp; omega

/-! ## one page of a column as a level stream: null count, row count, value count and histograms together -/

/-- one entry of a column's level stream (Dremel triple): definition level, repetition level, the value if present -/
structure Entry (α : Type) where
  dfn : Nat
  rep : Nat
  val : Option α

/-- SPEC (Dremel encoding, what the shredder produces — C03 `shred_levels_wf`): levels within the column's
    maxima and a value is present exactly at the maximal definition level -/
def Entry.WF {α} (maxDef maxRep : Nat) (e : Entry α) : Prop :=
  e.dfn ≤ maxDef ∧ e.rep ≤ maxRep ∧ (e.val = none ↔ e.dfn ≠ maxDef)

structure PageLevelStats where
  numValues : Nat
  numNulls : Nat
  numRows : Nat
  defHist : List Nat
  repHist : List Nat
  unencoded : Nat
deriving DecidableEq, Repr

/-- MIRROR level.go:11-17 `countLevelsEqual` / `countLevelsNotEqual` -/
def countLevelsEqual (levels : List Nat) (v : Nat) : Nat := levels.count v
def countLevelsNotEqual (levels : List Nat) (v : Nat) : Nat := levels.length - countLevelsEqual levels v

/-- MIRROR of what the writer records for one page of a nested column (writer.go `writePage`/`recordPageStats`):
    `NumValues` = number of level entries, `NumNulls` = `countLevelsNotEqual(def, maxDef)` (page_optional.go:34,
    page_repeated.go:38), `NumRows` = `countLevelsEqual(rep, 0)` (page_repeated.go:33), the two level histograms
    (writer_statistics.go:44-61) and the unencoded byte-array size of the values present (writer_statistics.go:11-29) -/
def pageLevelStats (maxDef maxRep : Nat) (page : List (Entry (List Nat))) : PageLevelStats :=
  { numValues := page.length
    numNulls := countLevelsNotEqual (page.map (·.dfn)) maxDef
    numRows := countLevelsEqual (page.map (·.rep)) 0
    defHist := pageHist maxDef (page.map (·.dfn))
    repHist := pageHist maxRep (page.map (·.rep))
    unencoded := pageUnencoded (page.filterMap (·.val)) }

/-- MIRROR column_buffer.go:92-111 `nullableColumnIndex.NullCount` / `NullPage`: the column index an in-memory
    optional / repeated column chunk (Buffer, GenericBuffer) computes on the fly from the definition levels of its
    single page. `slip = false` is the code (`countLevelsNotEqual(definitionLevels, maxDefinitionLevel)`);
    `slip = true` is the variant that counts the entries at definition level 0 only, kept to show that the two
    differ as soon as a null sits at an intermediate level (`bufferIndex_levelZero_wrong`). -/
def bufferIndexNullCount (slip : Bool) (maxDef : Nat) (defs : List Nat) : Nat :=
  if slip then countLevelsEqual defs 0 else countLevelsNotEqual defs maxDef

def bufferIndexNullPage (slip : Bool) (maxDef : Nat) (defs : List Nat) : Bool :=
  bufferIndexNullCount slip maxDef defs == defs.length

theorem count_dfn_eq_present {α} (maxDef maxRep : Nat) : ∀ (page : List (Entry α)), (∀ e ∈ page, e.WF maxDef maxRep) →
    (page.map (·.dfn)).count maxDef = (page.filterMap (·.val)).length ∧
    (page.map (·.dfn)).count maxDef + page.countP (fun e => e.val.isNone) = page.length
  | [], _ => by simp
  | e :: rest, h => by
    have ih := count_dfn_eq_present maxDef maxRep rest (fun x hx => h x (List.mem_cons_of_mem _ hx))
    have hw := h e (by simp)
    obtain ⟨_, _, hv⟩ := hw
    cases hval : e.val with
    | none =>
      have hne : e.dfn ≠ maxDef := hv.mp hval
      have hb : (e.dfn == maxDef) = false := by simp [hne]
      simp only [List.map_cons, List.count_cons, hb, List.filterMap_cons, hval, List.countP_cons, Option.isNone_none,
        List.length_cons]
      constructor
      · simpa using ih.1
      · have := ih.2; simp only [Bool.false_eq_true, if_false, if_true] ; omega
    | some x =>
      have heq : e.dfn = maxDef := by
        by_cases hc : e.dfn = maxDef
        · exact hc
        · have := hv.mpr hc; rw [hval] at this; simp at this
      have hb : (e.dfn == maxDef) = true := by simp [heq]
      simp only [List.map_cons, List.count_cons, hb, List.filterMap_cons, hval, List.countP_cons, Option.isNone_some,
        List.length_cons]
      constructor
      · simpa using ih.1
      · have := ih.2; simp only [Bool.false_eq_true, if_false, if_true]; omega

end PqModel.LevelStats
