import PqModel.ThriftSkipProofs

/-! The fuel of the walk model is never exhausted: `skipStruct d` never answers `fuel`, so the
    model's answers are those of the unbounded recursion of the Go code. -/
namespace PqModel.ThriftSkip
open PqModel.IoFault (Bytes)

/-- success of a `seq` -/
theorem seq_ok {α β} {r : PR α} {fe : SkErr → SkErr} {k : α → Nat → PR β} {y : β × Nat}
    (h : seq r fe k = .ok y) : ∃ a p, r = .ok (a, p) ∧ k a p = .ok y := by
  cases r with
  | error e => simp [seq] at h
  | ok ap => obtain ⟨a, p⟩ := ap; exact ⟨a, p, rfl, h⟩

/-- error mappings that do not invent `fuel` -/
class NoFuel (fe : SkErr → SkErr) : Prop where
  keep : ∀ e, fe e = .fuel → e = .fuel

instance : NoFuel id := ⟨fun _ h => h⟩
instance : NoFuel dontExpectEOF := ⟨fun e h => by cases e <;> simp [dontExpectEOF] at h ⊢⟩
instance (c : Prop) [Decidable c] (f g : SkErr → SkErr) [NoFuel f] [NoFuel g] : NoFuel (if c then f else g) := by
  split <;> assumption

theorem seq_nofuel {α β} {r : PR α} (fe : SkErr → SkErr) [hfe : NoFuel fe] {k : α → Nat → PR β}
    (hr : r ≠ .error .fuel) (hk : ∀ a p, r = .ok (a, p) → k a p ≠ .error .fuel) :
    seq r fe k ≠ .error .fuel := by
  cases r with
  | error e =>
    simp only [seq]
    intro h
    injection h with h
    exact hr (by rw [hfe.keep e h])
  | ok ap => obtain ⟨a, p⟩ := ap; exact hk a p rfl

/-- a parser that reads at least one byte when it succeeds, inside the input -/
def Prog {α} (d : Bytes) (pos : Nat) (r : PR α) : Prop := ∀ a p, r = .ok (a, p) → pos < p ∧ p ≤ d.length

theorem readByte_prog (d : Bytes) (pos : Nat) : Prog d pos (readByte d pos) := by
  intro b p h
  unfold readByte at h
  split at h
  · rename_i b' hb
    cases h
    have := (List.getElem?_eq_some_iff.1 hb).1
    omega
  · cases h

theorem uvLoop_prog (d : Bytes) : ∀ (k pos i x s u n : Nat), uvLoop d k pos i x s = .val u n →
    i < n ∧ pos + (n - i) ≤ d.length := by
  intro k
  induction k with
  | zero => intro pos i x s u n h; unfold uvLoop at h; split at h <;> cases h
  | succ k ih =>
    intro pos i x s u n h
    unfold uvLoop at h
    split at h
    · cases h
    · rename_i b hb
      have hlt := (List.getElem?_eq_some_iff.1 hb).1
      split at h
      · split at h
        · cases h
        · cases h; omega
      · have := ih _ _ _ _ _ _ h; omega

theorem readUvarint_prog (mx : Nat) (d : Bytes) (pos : Nat) : Prog d pos (readUvarint mx d pos) := by
  intro u p h
  unfold readUvarint goUvarint at h
  split at h
  · cases h
  · cases h
  · rename_i u' n hv
    split at h
    · cases h
    · cases h; have := uvLoop_prog d _ _ _ _ _ _ _ hv; omega

theorem readVarint_prog (lo hi : Int) (d : Bytes) (pos : Nat) : Prog d pos (readVarint lo hi d pos) := by
  intro u p h
  unfold readVarint goUvarint at h
  split at h
  · cases h
  · cases h
  · rename_i u' n hv
    split at h
    · cases h
    · cases h; have := uvLoop_prog d _ _ _ _ _ _ _ hv; omega

theorem readFloat_prog (d : Bytes) (pos : Nat) : Prog d pos (readFloat d pos) := by
  intro u p h
  unfold readFloat at h
  split at h
  · cases h
  · cases h; omega

/-- success stays inside the input and never goes back -/
def Mono {α} (d : Bytes) (pos : Nat) (r : PR α) : Prop := ∀ a p, r = .ok (a, p) → pos ≤ p ∧ (pos ≤ d.length → p ≤ d.length)

theorem Prog.mono {α} {d : Bytes} {pos : Nat} {r : PR α} (h : Prog d pos r) : Mono d pos r :=
  fun a p e => ⟨by have := h a p e; omega, fun _ => (h a p e).2⟩

theorem mono_of_rel {α} {d : Bytes} {pos : Nat} {r : PR α} (h : Rel pos d.length r r) : Mono d pos r := by
  intro a p e
  obtain ⟨h1, h2⟩ := h a p e
  refine ⟨h1, fun hp => ?_⟩
  apply Nat.le_of_not_lt
  intro hlt
  obtain ⟨err, he, _⟩ := (h2 hp).2 hlt
  rw [he] at e
  cases e

theorem skipT_mono (d : Bytes) (f : Nat) (t : Task) (pos : Nat) : Mono d pos (skipT d f t pos) := by
  have h := skipT_rel d d.length f t pos
  rw [List.take_length] at h
  exact mono_of_rel h

/-- a consuming first step, then anything that does not go back -/
theorem seq_prog {α β} {d : Bytes} {pos : Nat} {r : PR α} (fe : SkErr → SkErr) {k : α → Nat → PR β}
    (hr : Prog d pos r) (hk : ∀ a p, Mono d p (k a p)) : Prog d pos (seq r fe k) := by
  intro b q h
  obtain ⟨a, p, h1, h2⟩ := seq_ok h
  have := hr a p h1
  have := hk a p b q h2
  omega

theorem mono_ok {α} (d : Bytes) (pos : Nat) (a : α) : Mono d pos (.ok (a, pos)) := by
  intro a' p e; cases e; exact ⟨Nat.le_refl _, id⟩

theorem mono_ite {α} {d : Bytes} {pos : Nat} (c : Prop) [Decidable c] {r1 r2 : PR α}
    (h1 : Mono d pos r1) (h2 : Mono d pos r2) : Mono d pos (if c then r1 else r2) := by
  split <;> assumption

theorem seq_mono {α β} {d : Bytes} {pos : Nat} {r : PR α} (fe : SkErr → SkErr) {k : α → Nat → PR β}
    (hr : Mono d pos r) (hk : ∀ a p, Mono d p (k a p)) : Mono d pos (seq r fe k) := by
  intro b q h
  obtain ⟨a, p, h1, h2⟩ := seq_ok h
  have := hr a p h1
  have := hk a p b q h2
  omega

theorem discard_mono (n : Nat) (d : Bytes) (pos : Nat) : Mono d pos (discard n d pos) := by
  intro u p h
  unfold discard at h
  split at h
  · cases h
  · cases h; omega

theorem skipBinary_prog (d : Bytes) (pos : Nat) : Prog d pos (skipBinary d pos) := by
  unfold skipBinary
  exact seq_prog _ (readUvarint_prog _ d pos) fun n p =>
    mono_ite _ (mono_ok _ _ _) (seq_mono _ (discard_mono n d p) fun _ q => mono_ok _ _ _)

theorem readField_prog (d : Bytes) (pos : Nat) : Prog d pos (readField d pos) := by
  unfold readField
  exact seq_prog _ (readByte_prog d pos) fun b p =>
    mono_ite _ (mono_ok _ _ _) (mono_ite _ (mono_ok _ _ _)
      (seq_mono _ (readVarint_prog _ _ d p).mono fun _ q => mono_ok _ _ _))

theorem readList_prog (d : Bytes) (pos : Nat) : Prog d pos (readList d pos) := by
  unfold readList
  exact seq_prog _ (readByte_prog d pos) fun b p =>
    mono_ite _ (mono_ok _ _ _) (seq_mono _ (readUvarint_prog _ d p).mono fun _ q => mono_ok _ _ _)

theorem readMap_prog (d : Bytes) (pos : Nat) : Prog d pos (readMap d pos) := by
  unfold readMap
  exact seq_prog _ (readUvarint_prog _ d pos) fun n p =>
    mono_ite _ (mono_ok _ _ _) (seq_mono _ (readByte_prog d p).mono fun _ q => mono_ok _ _ _)

/-- a value of any type but a (coalesced) bool field takes at least one byte -/
theorem val_prog (d : Bytes) (f ty pos : Nat) (h1 : ty ≠ 1) (h2 : ty ≠ 2) :
    Prog d pos (skipT d f (.val ty) pos) := by
  cases f with
  | zero => intro a p h; simp [skipT] at h
  | succ f =>
    simp only [skipT]
    split
    · exact absurd rfl h1
    · exact absurd rfl h2
    · exact seq_prog _ (readByte_prog d pos) fun _ p => mono_ok _ _ _
    · exact seq_prog _ (readVarint_prog _ _ d pos) fun _ p => mono_ok _ _ _
    · exact seq_prog _ (readVarint_prog _ _ d pos) fun _ p => mono_ok _ _ _
    · exact seq_prog _ (readVarint_prog _ _ d pos) fun _ p => mono_ok _ _ _
    · exact readFloat_prog d pos
    · exact skipBinary_prog d pos
    · exact seq_prog _ (readList_prog d pos) fun l p => skipT_mono d f _ p
    · exact seq_prog _ (readList_prog d pos) fun l p => skipT_mono d f _ p
    · refine seq_prog _ (readMap_prog d pos) fun mp p => ?_
      cases mp with
      | none => exact mono_ok _ _ _
      | some x => obtain ⟨kt, vt, n⟩ := x; exact skipT_mono d f _ p
    · cases f with
      | zero => intro a p h; simp [skipT] at h
      | succ f =>
        simp only [skipT]
        refine seq_prog _ (readField_prog d pos) fun h p => ?_
        cases h with
        | none => exact mono_ok _ _ _
        | some ty => exact seq_mono _ (skipT_mono d f _ p) fun _ q => skipT_mono d f _ q
    · exact seq_prog _ (readFloat_prog d pos) fun _ p => (readFloat_prog d p).mono
    · intro a p h; cases h

theorem item_prog (d : Bytes) (f ty pos : Nat) : Prog d pos (skipT d f (.item ty) pos) := by
  cases f with
  | zero => intro a p h; simp [skipT] at h
  | succ f =>
    simp only [skipT]
    split
    · exact seq_prog _ (readByte_prog d pos) fun _ p => mono_ok _ _ _
    · rename_i hb
      simp only [Bool.or_eq_true, beq_iff_eq, not_or] at hb
      exact val_prog d f ty pos hb.1 hb.2

/-- fuel that suffices for a task with `rem` bytes left -/
def need : Task → Nat → Nat
  | .val _, rem => 4 * rem + 4
  | .item _, rem => 4 * rem + 5
  | .items _ _, rem => 4 * rem + 6
  | .pairs _ _ _, rem => 4 * rem + 6
  | .fields _, rem => 4 * rem + 3

theorem readByte_nofuel (d : Bytes) (pos : Nat) : readByte d pos ≠ .error .fuel := by
  unfold readByte; split <;> intro h <;> cases h
theorem readUvarint_nofuel (mx : Nat) (d : Bytes) (pos : Nat) : readUvarint mx d pos ≠ .error .fuel := by
  unfold readUvarint; split
  · intro h; cases h
  · intro h; cases h
  · split <;> intro h <;> cases h
theorem readVarint_nofuel (lo hi : Int) (d : Bytes) (pos : Nat) : readVarint lo hi d pos ≠ .error .fuel := by
  unfold readVarint; split
  · intro h; cases h
  · intro h; cases h
  · split <;> intro h <;> cases h
theorem readFloat_nofuel (d : Bytes) (pos : Nat) : readFloat d pos ≠ .error .fuel := by
  unfold readFloat; split <;> intro h <;> cases h
theorem discard_nofuel (n : Nat) (d : Bytes) (pos : Nat) : discard n d pos ≠ .error .fuel := by
  unfold discard; split <;> intro h <;> cases h
theorem ok_nofuel {α} (y : α × Nat) : (Except.ok y : PR α) ≠ .error .fuel := by intro h; cases h
theorem ite_nofuel {α} (c : Prop) [Decidable c] {r1 r2 : PR α} (h1 : r1 ≠ .error .fuel) (h2 : r2 ≠ .error .fuel) :
    (if c then r1 else r2) ≠ .error .fuel := by split <;> assumption

theorem skipBinary_nofuel (d : Bytes) (pos : Nat) : skipBinary d pos ≠ .error .fuel := by
  unfold skipBinary
  exact seq_nofuel _ (readUvarint_nofuel _ d pos) fun n p _ =>
    ite_nofuel _ (ok_nofuel _) (seq_nofuel _ (discard_nofuel n d p) fun _ q _ => ok_nofuel _)
theorem readField_nofuel (d : Bytes) (pos : Nat) : readField d pos ≠ .error .fuel := by
  unfold readField
  exact seq_nofuel _ (readByte_nofuel d pos) fun b p _ =>
    ite_nofuel _ (ok_nofuel _) (ite_nofuel _ (ok_nofuel _) (seq_nofuel _ (readVarint_nofuel _ _ d p) fun _ q _ => ok_nofuel _))
theorem readList_nofuel (d : Bytes) (pos : Nat) : readList d pos ≠ .error .fuel := by
  unfold readList
  exact seq_nofuel _ (readByte_nofuel d pos) fun b p _ =>
    ite_nofuel _ (ok_nofuel _) (seq_nofuel _ (readUvarint_nofuel _ d p) fun _ q _ => ok_nofuel _)
theorem readMap_nofuel (d : Bytes) (pos : Nat) : readMap d pos ≠ .error .fuel := by
  unfold readMap
  exact seq_nofuel _ (readUvarint_nofuel _ d pos) fun n p _ =>
    ite_nofuel _ (ok_nofuel _) (seq_nofuel _ (readByte_nofuel d p) fun _ q _ => ok_nofuel _)

/-- with `need t (|d| - pos)` units the walk does not run out of fuel -/
theorem skipT_nofuel (d : Bytes) : ∀ (f : Nat) (t : Task) (pos : Nat), pos ≤ d.length →
    need t (d.length - pos) ≤ f → skipT d f t pos ≠ .error .fuel := by
  intro f
  induction f with
  | zero => intro t pos _ h; cases t <;> simp [need] at h
  | succ f ih =>
    intro t pos hpos hn
    cases t with
    | val ty =>
      simp only [need] at hn
      simp only [skipT]
      split
      · exact ok_nofuel _
      · exact ok_nofuel _
      · exact seq_nofuel _ (readByte_nofuel d pos) fun _ p _ => ok_nofuel _
      · exact seq_nofuel _ (readVarint_nofuel _ _ d pos) fun _ p _ => ok_nofuel _
      · exact seq_nofuel _ (readVarint_nofuel _ _ d pos) fun _ p _ => ok_nofuel _
      · exact seq_nofuel _ (readVarint_nofuel _ _ d pos) fun _ p _ => ok_nofuel _
      · exact readFloat_nofuel d pos
      · exact skipBinary_nofuel d pos
      · refine seq_nofuel _ (readList_nofuel d pos) fun l p e => ?_
        have := readList_prog d pos l p e
        exact ih _ p this.2 (by simp only [need]; omega)
      · refine seq_nofuel _ (readList_nofuel d pos) fun l p e => ?_
        have := readList_prog d pos l p e
        exact ih _ p this.2 (by simp only [need]; omega)
      · refine seq_nofuel _ (readMap_nofuel d pos) fun mp p e => ?_
        have := readMap_prog d pos mp p e
        cases mp with
        | none => exact ok_nofuel _
        | some x => obtain ⟨kt, vt, n⟩ := x; exact ih _ p this.2 (by simp only [need]; omega)
      · exact ih _ pos hpos (by simp only [need]; omega)
      · exact seq_nofuel _ (readFloat_nofuel d pos) fun _ p _ => readFloat_nofuel d p
      · intro h; cases h
    | item ty =>
      simp only [need] at hn
      simp only [skipT]
      exact ite_nofuel _ (seq_nofuel _ (readByte_nofuel d pos) fun _ p _ => ok_nofuel _)
        (ih _ pos hpos (by simp only [need]; omega))
    | items ty n =>
      simp only [need] at hn
      cases n with
      | zero => simp only [skipT]; exact ok_nofuel _
      | succ n =>
        simp only [skipT]
        refine seq_nofuel _ (ih _ pos hpos (by simp only [need]; omega)) fun _ p e => ?_
        have := item_prog d f ty pos _ p e
        exact ih _ p this.2 (by simp only [need]; omega)
    | pairs kt vt n =>
      simp only [need] at hn
      cases n with
      | zero => simp only [skipT]; exact ok_nofuel _
      | succ n =>
        simp only [skipT]
        refine seq_nofuel _ (ih _ pos hpos (by simp only [need]; omega)) fun _ p e => ?_
        have h1 := item_prog d f kt pos _ p e
        refine seq_nofuel _ (ih _ p h1.2 (by simp only [need]; omega)) fun _ q e2 => ?_
        have h2 := item_prog d f vt p _ q e2
        exact ih _ q h2.2 (by simp only [need]; omega)
    | fields first =>
      simp only [need] at hn
      simp only [skipT]
      refine seq_nofuel _ (readField_nofuel d pos) fun h p e => ?_
      have h1 := readField_prog d pos h p e
      cases h with
      | none => exact ok_nofuel _
      | some ty =>
        refine seq_nofuel _ (ih _ p h1.2 (by simp only [need]; omega)) fun _ q e2 => ?_
        have h2 := skipT_mono d f _ p _ q e2
        exact ih _ q (h2.2 h1.2) (by simp only [need]; have := h2.1; omega)

/-- **the model's fuel is never exhausted** -/
theorem skipStruct_nofuel (d : Bytes) : skipStruct d ≠ .error .fuel := by
  unfold skipStruct
  have := skipT_nofuel d (fuelFor d) (.fields true) 0 (Nat.zero_le _) (by simp only [need, fuelFor]; omega)
  split
  · intro h; cases h
  · rename_i e he
    intro h
    injection h with h
    rw [h] at he
    exact this he

/-! ## more fuel changes nothing once the walk did not run out -/

/-- error mappings that map `fuel` to `fuel` -/
class FuelFix (fe : SkErr → SkErr) : Prop where
  fix : fe .fuel = .fuel

instance : FuelFix id := ⟨rfl⟩
instance : FuelFix dontExpectEOF := ⟨rfl⟩
instance (c : Prop) [Decidable c] (f g : SkErr → SkErr) [FuelFix f] [FuelFix g] : FuelFix (if c then f else g) := by
  split <;> assumption

/-- unless `r` ran out of fuel, `r'` is the same answer -/
def Same {α} (r r' : PR α) : Prop := r ≠ .error .fuel → r' = r

theorem Same.refl {α} (r : PR α) : Same r r := fun _ => rfl

theorem Same.ite {α} (c : Prop) [Decidable c] {r1 r1' r2 r2' : PR α} (h1 : Same r1 r1') (h2 : Same r2 r2') :
    Same (if c then r1 else r2) (if c then r1' else r2') := by
  split
  · exact h1
  · exact h2

theorem seq_same {α β} {r r' : PR α} (fe : SkErr → SkErr) [hfe : FuelFix fe] {k k' : α → Nat → PR β}
    (hr : Same r r') (hk : ∀ a p, Same (k a p) (k' a p)) : Same (seq r fe k) (seq r' fe k') := by
  intro h
  cases r with
  | error e =>
    have : (Except.error e : PR α) ≠ .error .fuel := by
      intro he
      injection he with he
      subst he
      simp only [seq, hfe.fix] at h
      exact h rfl
    rw [hr this]
    rfl
  | ok ap =>
    obtain ⟨a, p⟩ := ap
    rw [hr (by intro he; cases he)]
    simp only [seq] at h ⊢
    exact hk a p h

theorem skipT_same_succ (d : Bytes) : ∀ (f : Nat) (t : Task) (pos : Nat),
    Same (skipT d f t pos) (skipT d (f + 1) t pos) := by
  intro f
  induction f with
  | zero => intro t pos h; simp [skipT] at h
  | succ f ih =>
    intro t pos
    cases t with
    | val ty =>
      rw [skipT.eq_def d (f + 1 + 1)]
      simp only [skipT]
      split
      · exact Same.refl _
      · exact Same.refl _
      · exact Same.refl _
      · exact Same.refl _
      · exact Same.refl _
      · exact Same.refl _
      · exact Same.refl _
      · exact Same.refl _
      · exact seq_same _ (Same.refl _) fun l p => ih _ p
      · exact seq_same _ (Same.refl _) fun l p => ih _ p
      · refine seq_same _ (Same.refl _) fun mp p => ?_
        cases mp with
        | none => exact Same.refl _
        | some x => obtain ⟨kt, vt, n⟩ := x; exact ih _ p
      · exact ih _ pos
      · exact Same.refl _
      · exact Same.refl _
    | item ty =>
      rw [skipT.eq_def d (f + 1 + 1)]
      simp only [skipT]
      exact Same.ite _ (Same.refl _) (ih _ pos)
    | items ty n =>
      cases n with
      | zero => simp only [skipT]; exact Same.refl _
      | succ n =>
        rw [skipT.eq_def d (f + 1 + 1)]
        simp only [skipT]
        exact seq_same _ (ih _ pos) fun _ p => ih _ p
    | pairs kt vt n =>
      cases n with
      | zero => simp only [skipT]; exact Same.refl _
      | succ n =>
        rw [skipT.eq_def d (f + 1 + 1)]
        simp only [skipT]
        exact seq_same _ (ih _ pos) fun _ p => seq_same _ (ih _ p) fun _ q => ih _ q
    | fields first =>
      rw [skipT.eq_def d (f + 1 + 1)]
      simp only [skipT]
      refine seq_same _ (Same.refl _) fun h p => ?_
      cases h with
      | none => exact Same.refl _
      | some ty => exact seq_same _ (ih _ p) fun _ q => ih _ q

/-- **fuel irrelevance.** Once the walk did not run out of fuel, any larger fuel gives the same answer. -/
theorem skipT_fuel_irrelevant (d : Bytes) (t : Task) (pos : Nat) {f f' : Nat} (h : f ≤ f')
    (hn : skipT d f t pos ≠ .error .fuel) : skipT d f' t pos = skipT d f t pos := by
  induction h with
  | refl => rfl
  | step _ ih => rw [skipT_same_succ d _ t pos (by rw [ih]; exact hn), ih]

/-- `skipStruct` is the walk at any fuel that is at least `fuelFor d` -/
theorem skipStruct_eq_of_fuel (d : Bytes) (f : Nat) (h : fuelFor d ≤ f) :
    skipT d f (.fields true) 0 = skipT d (fuelFor d) (.fields true) 0 :=
  skipT_fuel_irrelevant d _ 0 h
    (skipT_nofuel d (fuelFor d) (.fields true) 0 (Nat.zero_le _) (by simp only [need, fuelFor]; omega))

end PqModel.ThriftSkip
