import PqModel.Dremel

/-! # Level bounds of the shredded streams (C03 `shred_levels_wf`)

SPEC side: `boundsN n d k` lists, per leaf column of `n` in column order, the pair
`(max definition level, max repetition level)` of the column when `n` sits below `d`
optional-or-repeated and `k` repeated ancestors — the format's definition: one definition level per
optional or repeated node on the path, one repetition level per repeated node. -/
namespace PqModel.Dremel

mutual
def boundsN : Node → (d k : Nat) → List (Nat × Nat)
  | .leaf, d, k => [(d, k)]
  | .group fs, d, k => boundsF fs d k
  | .opt n, d, k => boundsN n (d + 1) k
  | .rpt n, d, k => boundsN n (d + 1) (k + 1)
def boundsF : Fields → (d k : Nat) → List (Nat × Nat)
  | .nil, _, _ => []
  | .cons n fs, d, k => boundsN n d k ++ boundsF fs d k
end

/-- every triple of the column is within the column's bounds -/
def ColLe (c : List Triple) (b : Nat × Nat) : Prop := ∀ t ∈ c, t.dfn ≤ b.1 ∧ t.rep ≤ b.2

/-- … and the column is non-empty with first repetition level `r` -/
def ColOK (r : Nat) (c : List Triple) (b : Nat × Nat) : Prop :=
  (∃ t ts, c = t :: ts ∧ t.rep = r) ∧ ColLe c b

theorem pairs_append {α β : Type} {R : α → β → Prop} : ∀ {A A' : List α} {B B' : List β},
    Pairs R A B → Pairs R A' B' → Pairs R (A ++ A') (B ++ B')
  | _, _, _, _, .nil, h => h
  | _, _, _, _, .cons h1 h2, h => .cons h1 (pairs_append h2 h)

theorem pairs_mono {α β : Type} {R S : α → β → Prop} (hRS : ∀ a b, R a b → S a b) :
    ∀ {A : List α} {B : List β}, Pairs R A B → Pairs S A B
  | _, _, .nil => .nil
  | _, _, .cons h1 h2 => .cons (hRS _ _ h1) (pairs_mono hRS h2)

theorem pairs_length {α β : Type} {R : α → β → Prop} : ∀ {A : List α} {B : List β},
    Pairs R A B → A.length = B.length
  | _, _, .nil => rfl
  | _, _, .cons _ h2 => by simp [pairs_length h2]

theorem pairs_replicate_nil {B : List (Nat × Nat)} : Pairs ColLe (List.replicate B.length []) B := by
  induction B with
  | nil => exact .nil
  | cons b bs ih => exact .cons (by intro t ht; simp at ht) ih

theorem pairs_zipApp_ok {r : Nat} : ∀ {A J : Cols} {B : List (Nat × Nat)},
    Pairs (ColOK r) A B → Pairs ColLe J B → Pairs (ColOK r) (zipApp A J) B
  | _, _, _, .nil, .nil => .nil
  | _, _, _, .cons h1 h2, .cons g1 g2 => by
    refine .cons ?_ (pairs_zipApp_ok h2 g2)
    rcases h1 with ⟨⟨t, ts, rfl, hr⟩, hle⟩
    refine ⟨⟨t, ts ++ _, rfl, hr⟩, ?_⟩
    intro u hu
    rcases List.mem_append.mp hu with hu | hu
    · exact hle u hu
    · exact g1 u hu

theorem pairs_zipApp_le : ∀ {A J : Cols} {B : List (Nat × Nat)},
    Pairs ColLe A B → Pairs ColLe J B → Pairs ColLe (zipApp A J) B
  | _, _, _, .nil, .nil => .nil
  | _, _, _, .cons h1 h2, .cons g1 g2 => by
    refine .cons ?_ (pairs_zipApp_le h2 g2)
    intro u hu
    rcases List.mem_append.mp hu with hu | hu
    · exact h1 u hu
    · exact g1 u hu

mutual
theorem boundsN_length (n : Node) (d k : Nat) : (boundsN n d k).length = leavesN n := by
  cases n with
  | leaf => simp [boundsN, leavesN]
  | group fs => simpa [boundsN, leavesN] using boundsF_length fs d k
  | opt n => simpa [boundsN, leavesN] using boundsN_length n (d + 1) k
  | rpt n => simpa [boundsN, leavesN] using boundsN_length n (d + 1) (k + 1)
theorem boundsF_length (fs : Fields) (d k : Nat) : (boundsF fs d k).length = leavesF fs := by
  cases fs with
  | nil => simp [boundsF, leavesF]
  | cons n fs => simp [boundsF, leavesF, boundsN_length n d k, boundsF_length fs d k]
end

mutual
theorem absentN_levels (n : Node) (r d d' k' : Nat) (hd : d ≤ d') (hr : r ≤ k') :
    Pairs (ColOK r) (absentN n r d) (boundsN n d' k') := by
  cases n with
  | leaf =>
    simp only [absentN, boundsN]
    refine .cons ⟨⟨_, [], rfl, rfl⟩, ?_⟩ .nil
    intro t ht
    simp at ht; subst ht; exact ⟨hd, hr⟩
  | group fs => simpa [absentN, boundsN] using absentF_levels fs r d d' k' hd hr
  | opt n => simpa [absentN, boundsN] using absentN_levels n r d (d' + 1) k' (by omega) hr
  | rpt n => simpa [absentN, boundsN] using absentN_levels n r d (d' + 1) (k' + 1) (by omega) (by omega)
theorem absentF_levels (fs : Fields) (r d d' k' : Nat) (hd : d ≤ d') (hr : r ≤ k') :
    Pairs (ColOK r) (absentF fs r d) (boundsF fs d' k') := by
  cases fs with
  | nil => simp only [absentF, boundsF]; exact .nil
  | cons n fs =>
    simp only [absentF, boundsF]
    exact pairs_append (absentN_levels n r d d' k' hd hr) (absentF_levels fs r d d' k' hd hr)
end

mutual
theorem shredN_levels (n : Node) (r k d : Nat) (v : Val) (hr : r ≤ k) :
    Pairs (ColOK r) (shredN n r k d v) (boundsN n d k) := by
  cases n with
  | leaf =>
    have h : ∀ (o : Option Nat), Pairs (ColOK r) [[(⟨o, r, d⟩ : Triple)]] [(d, k)] := by
      intro o
      refine .cons ⟨⟨_, [], rfl, rfl⟩, ?_⟩ .nil
      intro t ht
      simp at ht; subst ht; exact ⟨Nat.le_refl _, hr⟩
    cases v <;> simp only [shredN, boundsN] <;> exact h _
  | group fs =>
    cases v with
    | struct vs => simpa [shredN, boundsN] using shredF_levels fs r k d vs hr
    | prim x => simpa [shredN, boundsN] using absentF_levels fs r d d k (Nat.le_refl _) hr
    | none => simpa [shredN, boundsN] using absentF_levels fs r d d k (Nat.le_refl _) hr
    | some w => simpa [shredN, boundsN] using absentF_levels fs r d d k (Nat.le_refl _) hr
    | list ws => simpa [shredN, boundsN] using absentF_levels fs r d d k (Nat.le_refl _) hr
  | opt n =>
    cases v with
    | some w => simpa [shredN, boundsN] using shredN_levels n r k (d + 1) w hr
    | prim x => simpa [shredN, boundsN] using absentN_levels n r d (d + 1) k (by omega) hr
    | none => simpa [shredN, boundsN] using absentN_levels n r d (d + 1) k (by omega) hr
    | struct vs => simpa [shredN, boundsN] using absentN_levels n r d (d + 1) k (by omega) hr
    | list ws => simpa [shredN, boundsN] using absentN_levels n r d (d + 1) k (by omega) hr
  | rpt n =>
    have habs := absentN_levels n r d (d + 1) (k + 1) (by omega) (by omega)
    cases v with
    | list ws =>
      cases ws with
      | nil => simpa [shredN, boundsN] using habs
      | cons w ws =>
        simp only [shredN, boundsN]
        apply pairs_zipApp_ok (shredN_levels n r (k + 1) (d + 1) w (by omega))
        have hfold : ∀ (l : List Val), (∀ w' ∈ l, Pairs (ColOK (k + 1)) (shredN n (k + 1) (k + 1) (d + 1) w')
              (boundsN n (d + 1) (k + 1))) →
            Pairs ColLe (l.foldr (fun w acc => zipApp (shredN n (k + 1) (k + 1) (d + 1) w) acc)
              (List.replicate (leavesN n) [])) (boundsN n (d + 1) (k + 1)) := by
          intro l
          induction l with
          | nil =>
            intro _
            simp only [List.foldr_nil]
            rw [← boundsN_length n (d + 1) (k + 1)]
            exact pairs_replicate_nil
          | cons x xs ih =>
            intro hx
            simp only [List.foldr_cons]
            exact pairs_zipApp_le (pairs_mono (fun _ _ h => h.2) (hx x (by simp)))
              (ih (fun w' hw' => hx w' (by simp [hw'])))
        exact hfold ws (fun w' _ => shredN_levels n (k + 1) (k + 1) (d + 1) w' (Nat.le_refl _))
    | prim x => simpa [shredN, boundsN] using habs
    | none => simpa [shredN, boundsN] using habs
    | struct vs => simpa [shredN, boundsN] using habs
    | some w => simpa [shredN, boundsN] using habs
theorem shredF_levels (fs : Fields) (r k d : Nat) (vs : List Val) (hr : r ≤ k) :
    Pairs (ColOK r) (shredF fs r k d vs) (boundsF fs d k) := by
  cases fs with
  | nil => simp only [shredF, boundsF]; exact .nil
  | cons n fs =>
    cases vs with
    | nil =>
      simp only [shredF, boundsF]
      exact pairs_append (absentN_levels n r d d k (Nat.le_refl _) hr)
        (absentF_levels fs r d d k (Nat.le_refl _) hr)
    | cons v vs' =>
      simp only [shredF, boundsF]
      exact pairs_append (shredN_levels n r k d v hr) (shredF_levels fs r k d vs' hr)
end

end PqModel.Dremel
