import PqModel.AsyncInv

/-! Data invariant of asyncPages: while the producer works for the consumer's current version, its
    local state is the ghost sequential reader's state (one read ahead when it holds an item);
    ownership: every produced item is in exactly one place. -/
namespace PqModel.Async

/-! ### ownership -/

def heldId (g : G) : List Nat := match g.ppc with | .send it => [it.id] | _ => []
def gotId (g : G) : List Nat := match g.cpc with | .got it => [it.id] | _ => []

/-- where the produced items are: released, handed to the caller, offered by the producer, or
    received and not yet tested -/
def owned (g : G) : List Nat := g.released ++ g.handed ++ heldId g ++ gotId g

/-- every serial number below `nprod` occurs exactly once, no other occurs -/
def Own (g : G) : Prop := ∀ i, (owned g).count i = if i < g.nprod then 1 else 0

theorem own_init : Own init := by
  intro i; simp [owned, heldId, gotId, init]

theorem own_step {U g e g'} (hi : Own g) (h : Step U g e g') : Own g' := by
  intro i
  have hi := hi i
  cases h <;> simp_all [owned, heldId, gotId, List.count_cons] <;> grind

theorem own_reachable {U g} (h : Reachable U g) : Own g :=
  reachable_induction (P := Own) own_init (fun _ _ _ hi hs => own_step hi hs) g h

/-! ### data -/

/-- producer-local state `P` and sequential reader state `S` agree up to a pending seek the
    producer has already applied -/
def Sync (U : Under) (P S : Loc) : Prop :=
  S.ferr = none ∧ P.ferr = none ∧
  ((P.row = S.row ∧ (P.row = none → P.pos = S.pos)) ∨
   (P.row = none ∧ ∃ k, S.row = some k ∧ U.sk k = .ok ∧ P.pos = k))

theorem body_sync_none {U P S P'} (hs : Sync U P S) (hb : body U P = (P', none)) : Sync U P' S := by
  obtain ⟨hf, k, hr, hk, rfl⟩ := body_none hb
  obtain ⟨h1, h2, h3⟩ := hs
  refine ⟨h1, rfl, Or.inr ⟨rfl, k, ?_, hk, rfl⟩⟩
  rcases h3 with ⟨h3, _⟩ | ⟨h3, _⟩
  · rw [← h3, hr]
  · rw [hr] at h3; cases h3

theorem body_sync_some {U P S P' r} (hs : Sync U P S) (hb : body U P = (P', some r))
    (hf' : P'.ferr = none) : r = (lsRead U S).2 ∧ Sync U P' (lsRead U S).1 := by
  obtain ⟨hS, hP, h3⟩ := hs
  obtain ⟨ppos, prow, pferr⟩ := P
  obtain ⟨spos, srow, sferr⟩ := S
  simp only at hS hP h3
  subst hS hP
  rcases prow with _ | k
  · rcases h3 with ⟨h3, h4⟩ | ⟨_, k, h4, h5, h6⟩
    · simp at h4
      subst h3 h4
      simp only [body] at hb
      rcases hrd : U.rd ppos with _ | _ | c <;> rw [hrd] at hb <;> simp at hb
      · obtain ⟨rfl, rfl⟩ := hb
        simp [lsRead, body, hrd, Sync]
      · obtain ⟨rfl, rfl⟩ := hb
        simp [lsRead, body, hrd, Sync]
      · obtain ⟨rfl, rfl⟩ := hb
        simp at hf'
    · subst h4 h6
      simp only [body] at hb
      rcases hrd : U.rd ppos with _ | _ | c <;> rw [hrd] at hb <;> simp at hb
      · obtain ⟨rfl, rfl⟩ := hb
        simp [lsRead, body, hrd, h5, Sync]
      · obtain ⟨rfl, rfl⟩ := hb
        simp [lsRead, body, hrd, h5, Sync]
      · obtain ⟨rfl, rfl⟩ := hb
        simp at hf'
  · rcases h3 with ⟨h3, _⟩ | ⟨h3, _⟩
    · subst h3
      simp only [body] at hb
      rcases hsk : U.sk k with _ | c | c <;> rw [hsk] at hb <;> simp at hb
      · obtain ⟨rfl, rfl⟩ := hb
        simp [lsRead, body, hsk, Sync]
      · obtain ⟨rfl, rfl⟩ := hb
        simp at hf'
    · simp at h3

/-- the sequential state the producer is ahead of: the consumer's ghost state, advanced by the
    item the consumer has received but not yet tested when that item is current -/
def base (U : Under) (g : G) : Loc :=
  match g.cpc with
  | .got it => if it.ver = g.cver then (lsRead U g.spec).1 else g.spec
  | _ => g.spec

def Live (g : G) : Prop := g.cpc ≠ .closing ∧ g.cpc ≠ .closed

structure Data (U : Under) (g : G) : Prop where
  ch_row : ∀ k v, g.seekCh = some (k, v) → g.spec.row = some k
  spec_ferr : g.loc.ferr = none → g.spec.ferr = none
  send_fatal : ∀ it, g.ppc = .send it → ∀ e, it.res = .fatal e ↔ g.loc.ferr = some e
  got_fatal : ∀ it, g.cpc = .got it → ∀ e, it.res = .fatal e → g.loc.ferr = some e
  got_res : ∀ it, g.cpc = .got it → it.ver = g.cver →
      it.res = (lsRead U g.spec).2 ∨ ∃ e, g.loc.ferr = some e ∧ it.res = .fatal e
  sync : g.pver = g.cver → g.loc.ferr = none → Live g →
      match g.ppc with
      | .send it => it.res = (lsRead U (base U g)).2 ∧ Sync U g.loc (lsRead U (base U g)).1
      | .final => True
      | .exited => True
      | _ => Sync U g.loc (base U g)

theorem data_init {U} : Data U init := by
  constructor <;> simp [init, Sync, base, Live]

theorem lsRead_ferr_none {U l} (h : (lsRead U l).1.ferr = none) : l.ferr = none := by
  rcases hf : l.ferr with _ | e
  · rfl
  · rw [lsRead_ferr_mono hf] at h; cases h

theorem base_ferr_none {U g} (hc : Ctl g) (hd : Data U g) (hv : g.pver = g.cver)
    (hf : g.loc.ferr = none) (hl : Live g) : (base U g).ferr = none := by
  have := hd.sync hv hf hl
  rcases hp : g.ppc with _ | _ | _ | it | _ | _ <;> rw [hp] at this <;> simp only at this
  · exact this.1
  · exact this.1
  · exact this.1
  · exact lsRead_ferr_none this.2.1
  · have := hc.done_c (hc.fin_done (Or.inl hp)); exact absurd this (by simp [Live] at hl; simp [hl])
  · have := hc.done_c (hc.fin_done (Or.inr hp)); exact absurd this (by simp [Live] at hl; simp [hl])

theorem data_step_handoff {U g g' it} (hc : Ctl g) (hd : Data U g)
    (h1 : g.cpc = .reading) (h2 : g.ppc = .send it)
    (hg : g' = { g with cpc := .got it, ppc := .top }) : Data U g' := by
  subst hg
  have hv := hc.send_ver it h2
  constructor
  · exact hd.ch_row
  · exact hd.spec_ferr
  · intro it' h; simp at h
  · intro it' h e he; simp at h; subst h; exact (hd.send_fatal it h2 e).mp he
  · intro it' h hv'; simp only [CPc.got.injEq] at h; subst h
    simp only at hv'
    rcases hf : g.loc.ferr with _ | e
    · left
      have := hd.sync (by omega) hf (by simp [Live, h1])
      rw [h2] at this; simp only [base, h1] at this
      exact this.1
    · right; exact ⟨e, rfl, (hd.send_fatal it h2 e).mpr hf⟩
  · intro hv' hf hl
    simp only at hv' hf ⊢
    have := hd.sync hv' hf (by simp [Live, h1])
    rw [h2] at this; simp only [base, h1] at this
    simp only [base]
    rw [if_pos (by omega)]
    exact this.2
theorem data_step_deliver {U g g' it} (hc : Ctl g) (hd : Data U g)
    (h1 : g.cpc = .got it) (h2 : it.ver = g.cver)
    (hg : g' = { g with cpc := .idle, handed := it.id :: g.handed, spec := (lsRead U g.spec).1 }) :
    Data U g' := by
  subst hg
  have hle := hc.got_ver it h1
  have hvl := hc.ver_le
  have hv : g.pver = g.cver := by omega
  have hb : base U g = (lsRead U g.spec).1 := by simp [base, h1, h2]
  constructor
  · intro k v h; simp only at h
    have := (hc.ch k v h).2.1; omega
  · intro hf; simp only at hf ⊢
    have := base_ferr_none hc hd hv hf (by simp [Live, h1])
    rwa [hb] at this
  · exact hd.send_fatal
  · intro it' h; simp at h
  · intro it' h; simp at h
  · intro hv' hf hl
    have := hd.sync hv hf (by simp [Live, h1])
    rw [hb] at this
    simpa [base] using this

theorem data_step_take {U g g' k v} (hc : Ctl g) (hd : Data U g)
    (hs : g.seekCh = some (k, v))
    (hg : g'.cpc = g.cpc ∧ g'.cver = g.cver ∧ g'.seekCh = none ∧ g'.ppc = .top ∧
          g'.loc = { g.loc with row := some k } ∧ g'.pver = v ∧ g'.spec = g.spec) : Data U g' := by
  obtain ⟨e1, e2, e3, e4, e5, e6, e7⟩ := hg
  obtain ⟨hv, hlt, hm⟩ := hc.ch k v hs
  have hr := hd.ch_row k v hs
  constructor
  · intro k v h; rw [e3] at h; cases h
  · intro hf; rw [e5] at hf; rw [e7]; exact hd.spec_ferr hf
  · intro it h; rw [e4] at h; cases h
  · intro it h e he; rw [e1] at h; rw [e5]; exact hd.got_fatal it h e he
  · intro it h hv'; rw [e1] at h; rw [e2] at hv'
    have := hc.got_ver it h; omega
  · intro _ hf hl
    rw [e4]; simp only
    rw [e5] at hf ⊢; simp only at hf
    have hb : base U g' = g.spec := by
      unfold base
      rw [e1, e2, e7]
      split
      · rename_i it h; have := hc.got_ver it h; rw [if_neg (by omega)]
      · rfl
    rw [hb]
    exact ⟨hd.spec_ferr hf, hf, Or.inl ⟨hr.symm, by simp⟩⟩

theorem data_step_cont {U g g' l} (hd : Data U g)
    (hp : g.ppc = .top) (hb : body U g.loc = (l, none)) (hg : g' = { g with loc := l }) : Data U g' := by
  subst hg
  obtain ⟨hf, k, hr, hk, rfl⟩ := body_none hb
  constructor
  · exact hd.ch_row
  · intro _; exact hd.spec_ferr hf
  · intro it h; simp only at h; rw [hp] at h; cases h
  · intro it h e he; have := hd.got_fatal it h e he; rw [hf] at this; cases this
  · intro it h hv
    rcases hd.got_res it h hv with h' | ⟨e, he, _⟩
    · exact Or.inl h'
    · rw [hf] at he; cases he
  · intro hv _ hl
    have := hd.sync hv hf hl
    rw [hp] at this; simp only at this
    simp only [hp, base] at this ⊢
    exact body_sync_none this hb

theorem data_step_offer {U g g' l r} (hd : Data U g)
    (hp : g.ppc = .top) (hb : body U g.loc = (l, some r))
    (hg : g' = { g with loc := l, ppc := .send ⟨r, g.pver, g.nprod⟩, nprod := g.nprod + 1 }) : Data U g' := by
  subst hg
  have mono : ∀ e, g.loc.ferr = some e → l.ferr = some e := fun e h => body_ferr_mono hb h
  have hnone : l.ferr = none → g.loc.ferr = none := by
    intro h; rcases hf : g.loc.ferr with _ | e
    · rfl
    · rw [mono e hf] at h; cases h
  constructor
  · exact hd.ch_row
  · intro h; exact hd.spec_ferr (hnone h)
  · intro it h e; simp only [PPc.send.injEq] at h; subst h; exact body_fatal hb e
  · intro it h e he; exact mono e (hd.got_fatal it h e he)
  · intro it h hv
    rcases hd.got_res it h hv with h' | ⟨e, he, h'⟩
    · exact Or.inl h'
    · exact Or.inr ⟨e, mono e he, h'⟩
  · intro hv hf hl
    simp only at hf hv ⊢
    have := hd.sync hv (hnone hf) hl
    rw [hp] at this
    simp only [base] at this ⊢
    exact body_sync_some this hb hf


/-- steps that touch neither the seek channel content (except emptying it), the ghost reader nor
    the producer's local state: only the `sync` clause has to be re-established -/
theorem data_frame {U g g'} (hd : Data U g)
    (e1 : g'.seekCh = g.seekCh ∨ g'.seekCh = none) (e2 : g'.spec = g.spec) (e3 : g'.loc = g.loc)
    (hsend : ∀ it, g'.ppc = .send it → g.ppc = .send it)
    (hgot : ∀ it, g'.cpc = .got it → g.cpc = .got it ∧ g'.cver = g.cver)
    (hsync : g'.pver = g'.cver → g'.loc.ferr = none → Live g' →
      match g'.ppc with
      | .send it => it.res = (lsRead U (base U g')).2 ∧ Sync U g'.loc (lsRead U (base U g')).1
      | .final => True
      | .exited => True
      | _ => Sync U g'.loc (base U g')) : Data U g' := by
  constructor
  · intro k v h
    rcases e1 with e1 | e1
    · rw [e1] at h; rw [e2]; exact hd.ch_row k v h
    · rw [e1] at h; cases h
  · rw [e2, e3]; exact hd.spec_ferr
  · intro it h; rw [e3]; exact hd.send_fatal it (hsend it h)
  · intro it h; rw [e3]; exact hd.got_fatal it (hgot it h).1
  · intro it h hv; rw [e2, e3]; rw [(hgot it h).2] at hv; exact hd.got_res it (hgot it h).1 hv
  · exact hsync

/-- every step of either process preserves the data invariant -/
theorem data_step {U g e g'} (hc : Ctl g) (hd : Data U g) (h : Step U g e g') : Data U g' := by
  cases h
  case handoff it h1 h2 => exact data_step_handoff hc hd h1 h2 rfl
  case deliver it h1 h2 => exact data_step_deliver hc hd h1 h2 rfl
  case pollTake k v hp hs => exact data_step_take hc hd hs ⟨rfl, rfl, rfl, rfl, rfl, rfl, rfl⟩
  case selTake it k v hp hs => exact data_step_take hc hd hs ⟨rfl, rfl, rfl, rfl, rfl, rfl, rfl⟩
  case bodyCont l hp hb => exact data_step_cont hd hp hb rfl
  case bodyOffer l r hp hb => exact data_step_offer hd hp hb rfl
  case readClosed => exact hd
  case seekClosed => exact hd
  case closeAgain => exact hd
  case seekSend k hm =>
    obtain ⟨d1, d2, d3, d4, d5, d6⟩ := hd
    have := (hc.mid hm).2
    constructor <;> (try (simp_all [base, Live, lsSeek]; done))
    intro hv; simp only at hv; omega
  case readBegin h1 =>
    refine data_frame hd (Or.inl rfl) rfl rfl (fun _ h => h) (by simp) ?_
    intro hv hf hl
    have := hd.sync hv hf (by simp [Live, h1])
    simpa [base, h1] using this
  case drop it h1 h2 =>
    refine data_frame hd (Or.inl rfl) rfl rfl (fun _ h => h) (by simp) ?_
    intro hv hf hl
    have := hd.sync hv hf (by simp [Live, h1])
    simpa [base, h1, h2] using this
  case seekPollDrain kv h1 hs =>
    refine data_frame hd (Or.inr rfl) rfl rfl (fun _ h => h) (by simp) ?_
    intro hv; have := (hc.ch kv.1 kv.2 hs).2.1; simp only at hv; omega
  case seekPollBump h1 hs =>
    refine data_frame hd (Or.inl rfl) rfl rfl (fun _ h => h) (by simp) ?_
    intro hv; have := hc.ver_le; simp only at hv; omega
  case closeBegin h1 =>
    exact data_frame hd (Or.inl rfl) rfl rfl (fun _ h => h) (by simp) (by simp [Live])
  case closeRecv it h1 h2 =>
    exact data_frame hd (Or.inl rfl) rfl rfl (by simp) (by simp [h1]) (by simp [Live, h1])
  case closeFinal h1 h2 =>
    exact data_frame hd (Or.inl rfl) rfl rfl (by simp) (by simp [h1]) (by simp [Live, h1])
  case closeEnd h1 h2 =>
    exact data_frame hd (Or.inl rfl) rfl rfl (fun _ h => h) (by simp) (by simp [Live])
  case initPass h1 h2 =>
    refine data_frame hd (Or.inl rfl) rfl rfl (by simp) (fun _ h => ⟨h, rfl⟩) ?_
    intro hv hf hl
    have := hd.sync hv hf hl
    rw [h1] at this
    simpa [base] using this
  case pollEmpty h1 h2 =>
    refine data_frame hd (Or.inl rfl) rfl rfl (by simp) (fun _ h => ⟨h, rfl⟩) ?_
    intro hv hf hl
    have := hd.sync hv hf hl
    rw [h1] at this
    simpa [base] using this
  case initDone h1 h2 =>
    exact data_frame hd (Or.inl rfl) rfl rfl (by simp) (fun _ h => ⟨h, rfl⟩) (by simp)
  case selDone it h1 h2 =>
    exact data_frame hd (Or.inl rfl) rfl rfl (by simp) (fun _ h => ⟨h, rfl⟩) (by simp)

theorem data_reachable {U g} (h : Reachable U g) : Ctl g ∧ Data U g :=
  reachable_induction (P := fun g => Ctl g ∧ Data U g) ⟨ctl_init, data_init⟩
    (fun _ _ _ hi hs => ⟨ctl_step hi.1 hs, data_step hi.1 hi.2 hs⟩) g h

end PqModel.Async
