import PqModel.DeltaGo
import PqModel.DeltaProofs

/-! Lemmas relating the mirror of the Go decoders (`PqModel/DeltaGo.lean`) to the spec decoders. -/
namespace PqModel.Delta
open PqModel.Bits

/-! ### binary.Uvarint vs ULEB128 -/

theorem pow7_succ (i : Nat) : 2 ^ (7 * (i + 1)) = 128 * 2 ^ (7 * i) := by
  rw [Nat.mul_succ, Nat.pow_add]; omega

/-- whatever Go's reader accepts is the ULEB128 value -/
theorem goUvarintLoop_ok : ∀ (bs : List Nat) (f i x v : Nat) (r : List Nat),
    goUvarintLoop f i x bs = .ok (v, r) →
    ∃ v', decUvarint bs = some (v', r) ∧ v = x + v' * 2 ^ (7 * i)
  | [], f, i, x, v, r, h => by simp [goUvarintLoop] at h
  | b :: bs, 0, i, x, v, r, h => by simp [goUvarintLoop] at h
  | b :: bs, f + 1, i, x, v, r, h => by
    simp only [goUvarintLoop] at h
    split at h
    · cases h
    · split at h
      · next hb =>
        split at h
        · cases h
        · simp only [Except.ok.injEq, Prod.mk.injEq] at h
          refine ⟨b, ?_, h.1.symm⟩
          simp [decUvarint, hb, h.2]
      · next hb =>
        obtain ⟨v'', hd, hv⟩ := goUvarintLoop_ok bs f (i + 1) _ v r h
        refine ⟨b - 128 + 128 * v'', ?_, ?_⟩
        · simp [decUvarint, hb, hd]
        · rw [hv, pow7_succ]
          generalize 2 ^ (7 * i) = P
          rw [Nat.add_mul, Nat.add_assoc]
          congr 1
          rw [Nat.mul_assoc, Nat.mul_comm v'' (128 * P), Nat.mul_assoc, Nat.mul_comm P v'']

theorem goUvarint_ok {bs : List Nat} {v : Nat} {r : List Nat} (h : goUvarint bs = .ok (v, r)) :
    decUvarint bs = some (v, r) := by
  obtain ⟨v', hd, hv⟩ := goUvarintLoop_ok bs 11 0 0 v r h
  simp at hv; subst hv; exact hd

/-- on a well-formed ULEB128 number Go's reader returns it or reports an overflow (never EOF) -/
theorem goUvarintLoop_of_dec : ∀ (bs : List Nat) (f i x v' : Nat) (r : List Nat),
    decUvarint bs = some (v', r) → 11 ≤ f + i →
    goUvarintLoop f i x bs = .ok (x + v' * 2 ^ (7 * i), r) ∨ goUvarintLoop f i x bs = .error .overflow
  | [], f, i, x, v', r, h, _ => by simp [decUvarint] at h
  | b :: bs, 0, i, x, v', r, h, hf => by simp [goUvarintLoop]
  | b :: bs, f + 1, i, x, v', r, h, hf => by
    simp only [goUvarintLoop]
    by_cases hi : i = 10
    · simp [hi]
    · simp only [hi, if_false]
      by_cases hb : b < 128
      · simp only [decUvarint, hb, if_true, Option.some.injEq, Prod.mk.injEq] at h
        simp only [hb, if_true]
        split
        · exact Or.inr rfl
        · left; rw [h.1, h.2]
      · simp only [decUvarint, hb, if_false] at h
        simp only [hb, if_false]
        cases hd : decUvarint bs with
        | none => simp [hd] at h
        | some p =>
          obtain ⟨v'', r'⟩ := p
          simp only [hd, Option.some.injEq, Prod.mk.injEq] at h
          have ih := goUvarintLoop_of_dec bs f (i + 1) (x + (b - 128) * 2 ^ (7 * i)) v'' r' hd (by omega)
          rcases ih with ih | ih
          · left
            rw [ih, ← h.1, ← h.2, pow7_succ]
            generalize 2 ^ (7 * i) = P
            congr 2
            rw [Nat.add_mul, Nat.add_assoc]
            congr 1
            rw [Nat.mul_assoc, Nat.mul_comm v'' (128 * P), Nat.mul_assoc, Nat.mul_comm P v'']
          · right; exact ih

theorem goUvarint_of_dec {bs : List Nat} {v : Nat} {r : List Nat} (h : decUvarint bs = some (v, r)) :
    goUvarint bs = .ok (v, r) ∨ goUvarint bs = .error .overflow := by
  have := goUvarintLoop_of_dec bs 11 0 0 v r h (by omega)
  simpa [goUvarint] using this

theorem goVarint_of_spec {bs : List Nat} {z : Int} {r : List Nat} (h : specZigzag bs = .ok (z, r)) :
    goVarint bs = .ok (z, r) ∨ goVarint bs = .error .overflow := by
  simp only [specZigzag, specUleb] at h
  cases hd : decUvarint bs with
  | none => simp [hd] at h
  | some p =>
    obtain ⟨u, r'⟩ := p
    simp only [hd, Except.ok.injEq, Prod.mk.injEq] at h
    rcases goUvarint_of_dec hd with hg | hg
    · left; simp [goVarint, hg, h.1, h.2]
    · right; simp [goVarint, hg]

theorem decUvarint_length : ∀ (bs : List Nat) (v : Nat) (r : List Nat), decUvarint bs = some (v, r) →
    r.length < bs.length
  | [], _, _, h => by simp [decUvarint] at h
  | b :: bs, v, r, h => by
    simp only [decUvarint] at h
    split at h
    · simp only [Option.some.injEq, Prod.mk.injEq] at h; rw [← h.2]; simp
    · cases hd : decUvarint bs with
      | none => simp [hd] at h
      | some p =>
        obtain ⟨v', r'⟩ := p
        simp only [hd, Option.some.injEq, Prod.mk.injEq] at h
        have := decUvarint_length bs v' r' hd
        rw [← h.2]; simp only [List.length_cons]; omega

/-- Go's reader accepts the canonical encoding of every value below 2^64 -/
theorem goUvarintLoop_put : ∀ (fuel x : Nat) (f i acc : Nat) (rest : List Nat), x ≤ fuel → i ≤ 9 →
    x < 2 ^ (64 - 7 * i) → 10 - i < f →
    goUvarintLoop f i acc (putUvarint fuel x ++ rest) = .ok (acc + x * 2 ^ (7 * i), rest)
  | 0, x, f, i, acc, rest, hx, hi, hlt, hf => by
    have : x = 0 := by omega
    subst this
    cases f with
    | zero => omega
    | succ f =>
      have h10 : ¬ i = 10 := by omega
      simp [putUvarint, goUvarintLoop, h10]
  | fuel + 1, x, f, i, acc, rest, hx, hi, hlt, hf => by
    cases f with
    | zero => omega
    | succ f =>
      have h10 : ¬ i = 10 := by omega
      simp only [putUvarint]
      by_cases hb : x < 128
      · simp only [hb, if_true, List.cons_append, List.nil_append, goUvarintLoop, h10, if_false]
        have : ¬ (i = 9 ∧ 1 < x) := by
          intro ⟨h9, h1⟩; subst h9; simp at hlt; omega
        simp [this]
      · simp only [hb, if_false, List.cons_append, goUvarintLoop, h10]
        have hnb : ¬ (x % 128 + 128 < 128) := by omega
        simp only [hnb, if_false]
        have hi9 : i ≠ 9 := by
          intro h9; subst h9; simp at hlt; omega
        have hpow : 2 ^ (64 - 7 * i) = 128 * 2 ^ (64 - 7 * (i + 1)) := by
          have : 64 - 7 * i = 7 + (64 - 7 * (i + 1)) := by omega
          rw [this, Nat.pow_add]
        rw [goUvarintLoop_put fuel (x / 128) f (i + 1) _ rest (by omega) (by omega)
          (by rw [hpow] at hlt; omega) (by omega)]
        rw [pow7_succ]
        generalize 2 ^ (7 * i) = P
        have key : (x % 128 + 128 - 128) * P + x / 128 * (128 * P) = x * P := by
          have e1 : x % 128 + 128 - 128 = x % 128 := by omega
          have hx' : x = x % 128 + 128 * (x / 128) := (Nat.mod_add_div x 128).symm
          rw [e1]
          conv => rhs; rw [hx']
          rw [Nat.add_mul, Nat.mul_assoc, Nat.mul_comm (x / 128) (128 * P), Nat.mul_assoc, Nat.mul_comm P (x / 128)]
        rw [Nat.add_assoc, key]

theorem goUvarint_uvarintEnc (x : Nat) (rest : List Nat) (h : x < 2 ^ 64) :
    goUvarint (uvarintEnc x ++ rest) = .ok (x, rest) := by
  have := goUvarintLoop_put x x 11 0 0 rest (Nat.le_refl _) (by omega) (by simpa using h) (by omega)
  simpa [goUvarint, uvarintEnc] using this

theorem zigzag64_lt (y : BitVec 64) : zigzag64 y < 2 ^ 64 := by
  unfold zigzag64; exact BitVec.isLt _

theorem goVarint_varintEnc {n : Nat} (hn : n ≤ 64) (x : BitVec n) (rest : List Nat) :
    goVarint (varintEnc (x.signExtend 64) ++ rest) = .ok (x.toInt, rest) := by
  simp [goVarint, varintEnc, goUvarint_uvarintEnc _ rest (zigzag64_lt _), unzigzag_zigzag64,
    BitVec.toInt_signExtend_of_le hn]

/-! ### miniblocks, blocks -/

theorem unpackBits_length (w : Nat) : ∀ (k : Nat) (bits : List Bool), (unpackBits w k bits).length = k
  | 0, _ => rfl
  | k + 1, bits => by simp [unpackBits, unpackBits_length w k]

theorem decMinis_rest_length (vpm maxW : Nat) : ∀ (ws : List Nat) (rem : Nat) (bs ds r : List Nat),
    decMinis vpm maxW ws rem bs = .ok (ds, r) → r.length ≤ bs.length
  | [], rem, bs, ds, r, h => by
    simp only [decMinis, Except.ok.injEq, Prod.mk.injEq] at h; rw [← h.2]; exact Nat.le_refl _
  | w :: ws, rem, bs, ds, r, h => by
    simp only [decMinis] at h
    split at h
    · simp only [Except.ok.injEq, Prod.mk.injEq] at h; rw [← h.2]; exact Nat.le_refl _
    · split at h
      · cases h
      · split at h
        · cases h
        · split at h
          · cases h
          · next more r' hrec =>
            simp only [Except.ok.injEq, Prod.mk.injEq] at h
            have := decMinis_rest_length vpm maxW ws _ _ more r' hrec
            rw [← h.2]; simp only [List.length_drop] at this; omega

/-- where the spec decoder reads the miniblocks of a block, the Go loop reads the same values,
consumes the same bytes and has as many values left to read -/
theorem goMinis_of_decMinis (n vpm : Nat) : ∀ (ws : List Nat) (rem : Nat) (bs ds r : List Nat),
    decMinis vpm n ws rem bs = .ok (ds, r) → 0 < rem →
    goMinis n vpm ws rem bs = .ok (ds, rem - ds.length, r)
  | [], rem, bs, ds, r, h, _ => by
    simp only [decMinis, Except.ok.injEq, Prod.mk.injEq] at h
    simp [goMinis, ← h.1, ← h.2]
  | w :: ws, rem, bs, ds, r, h, hpos => by
    simp only [decMinis] at h
    have hr : ¬ rem = 0 := by omega
    simp only [hr, if_false] at h
    split at h
    · cases h
    · next hw =>
      split at h
      · cases h
      · next hlen =>
        split at h
        · cases h
        · next more r' hrec =>
          simp only [Except.ok.injEq, Prod.mk.injEq] at h
          have hnow : ¬ (0 < min vpm rem ∧ n < w) := fun hc => hw hc.2
          have htake : (bs.take (vpm * w / 8)).length = vpm * w / 8 := by
            simp only [List.length_take]; omega
          have hdata : bs.take (vpm * w / 8) ++ List.replicate (vpm * w / 8 - (bs.take (vpm * w / 8)).length) 0
              = bs.take (vpm * w / 8) := by
            rw [htake, Nat.sub_self]; simp
          simp only [goMinis, hnow, if_false, hdata]
          by_cases hz : rem - min vpm rem = 0
          · simp only [hz, if_true]
            rw [hz] at hrec
            have hm : more = [] ∧ r' = bs.drop (vpm * w / 8) := by
              cases ws <;> simp [decMinis] at hrec <;>
                exact ⟨by first | exact hrec.1 | exact hrec.1.symm, by first | exact hrec.2 | exact hrec.2.symm⟩
            rw [← h.1, ← h.2, hm.1, hm.2]
            simp only [List.append_nil, unpackBits_length]
            simp only [Except.ok.injEq, Prod.mk.injEq, true_and, and_true]
            omega
          · simp only [hz, if_false]
            rw [goMinis_of_decMinis n vpm ws _ _ more r' hrec (by omega)]
            rw [← h.1, ← h.2]
            simp only [List.length_append, unpackBits_length, Except.ok.injEq, Prod.mk.injEq, true_and, and_true]
            omega

theorem goRecon_eq {n : Nat} (minD : BitVec n) : ∀ (ds : List Nat) (last : BitVec n),
    goRecon minD last ds = recon minD last ds
  | [], _ => rfl
  | d :: ds, last => by
    have e : BitVec.ofNat n d + minD + last = last + minD + BitVec.ofNat n d := by grind
    simp only [goRecon, recon, e, goRecon_eq minD ds]

theorem recon_length {n : Nat} (minD : BitVec n) : ∀ (ds : List Nat) (last : BitVec n),
    (recon minD last ds).length = ds.length
  | [], _ => rfl
  | d :: ds, last => by simp [recon, recon_length minD ds]

/-- the block loop: on a stream the spec decoder reads, the Go loop returns the same values and the
same rest, unless one of its varints is longer than Go accepts -/
theorem goBlocks_of_decBlocks (n vpm m : Nat) : ∀ (fuel rem : Nat) (last : BitVec n) (bs : List Nat)
    (xs : List (BitVec n)) (r : List Nat) (gf : Nat),
    decBlocks n vpm m fuel rem last bs = .ok (xs, r) → bs.length < gf →
    goBlocks n vpm m gf rem last bs = .ok (xs, r) ∨ goBlocks n vpm m gf rem last bs = .error .overflow
  | fuel, 0, last, bs, xs, r, gf, h, hg => by
    have : xs = [] ∧ r = bs := by
      cases fuel <;> simp [decBlocks] at h <;>
        exact ⟨by first | exact h.1 | exact h.1.symm, by first | exact h.2 | exact h.2.symm⟩
    left
    cases gf with
    | zero => omega
    | succ gf => simp [goBlocks, this.1, this.2]
  | 0, rem + 1, last, bs, xs, r, gf, h, hg => by simp [decBlocks] at h
  | fuel + 1, rem + 1, last, bs, xs, r, gf, h, hg => by
    cases gf with
    | zero => omega
    | succ gf =>
    simp only [decBlocks, decBlock] at h
    cases hz : specZigzag bs with
    | error e => simp [hz] at h
    | ok p =>
      obtain ⟨md, bs1⟩ := p
      simp only [hz] at h
      have hbs1 : bs1.length < bs.length := by
        simp only [specZigzag, specUleb] at hz
        cases hd : decUvarint bs with
        | none => simp [hd] at hz
        | some q =>
          obtain ⟨u, r'⟩ := q
          simp only [hd, Except.ok.injEq, Prod.mk.injEq] at hz
          have := decUvarint_length bs u r' hd
          rw [← hz.2]; exact this
      have hne : bs.isEmpty = false := by
        cases bs with
        | nil => simp at hbs1
        | cons _ _ => rfl
      by_cases hm : bs1.length < m
      · simp [hm] at h
      · simp only [hm, if_false] at h
        cases hdm : decMinis vpm n (bs1.take m) (rem + 1) (bs1.drop m) with
        | error e => simp [hdm] at h
        | ok q =>
          obtain ⟨ds, bs2⟩ := q
          simp only [hdm] at h
          have hgm := goMinis_of_decMinis n vpm _ _ _ ds bs2 hdm (by omega)
          have hl2 := decMinis_rest_length vpm n _ _ _ ds bs2 hdm
          simp only [List.length_drop] at hl2
          cases hrec : decBlocks n vpm m fuel (rem + 1 - (recon (BitVec.ofInt n md) last ds).length)
              ((recon (BitVec.ofInt n md) last ds).getLastD last) bs2 with
          | error e => simp only [hrec, reduceCtorEq] at h
          | ok q2 =>
            obtain ⟨more, r3⟩ := q2
            simp only [hrec, Except.ok.injEq, Prod.mk.injEq] at h
            rw [recon_length] at hrec
            have hrem : ¬ (rem + 1 = 0) := by omega
            simp only [goBlocks, hrem, if_false, hne, Bool.false_eq_true]
            rcases goVarint_of_spec hz with hv | hv
            · simp only [hv, hgm, goRecon_eq]
              rcases goBlocks_of_decBlocks n vpm m fuel _ _ bs2 more r3 gf hrec (by omega) with ih | ih
              · left; simp only [ih, h.1, h.2]
              · right; simp only [ih]
            · right; simp only [hv]

/-! ### header and whole stream -/

theorem goUvarint_of_specUleb {bs : List Nat} {v : Nat} {r : List Nat} (h : specUleb bs = .ok (v, r)) :
    goUvarint bs = .ok (v, r) ∨ goUvarint bs = .error .overflow := by
  simp only [specUleb] at h
  cases hd : decUvarint bs with
  | none => simp [hd] at h
  | some p =>
    simp only [hd, Except.ok.injEq] at h
    subst h
    exact goUvarint_of_dec hd

theorem goHeader_of_specHeader {bs : List Nat} {h : Header} {r : List Nat} (hs : specHeader bs = .ok (h, r)) :
    goHeader bs = .ok ({ blockSize := h.blockSize, minis := h.minis, total := h.total, first := h.first }, r) ∨
    ∃ e, goHeader bs = .error e ∧ e.isLimit = true := by
  simp only [specHeader] at hs
  cases h1 : specUleb bs with
  | error e => simp [h1] at hs
  | ok p1 =>
  obtain ⟨b, bs1⟩ := p1
  simp only [h1] at hs
  cases h2 : specUleb bs1 with
  | error e => simp [h2] at hs
  | ok p2 =>
  obtain ⟨m, bs2⟩ := p2
  simp only [h2] at hs
  cases h3 : specUleb bs2 with
  | error e => simp [h3] at hs
  | ok p3 =>
  obtain ⟨t, bs3⟩ := p3
  simp only [h3] at hs
  cases h4 : specZigzag bs3 with
  | error e => simp [h4] at hs
  | ok p4 =>
  obtain ⟨f, bs4⟩ := p4
  simp only [h4] at hs
  split at hs
  · cases hs
  · next hc =>
    simp only [Except.ok.injEq, Prod.mk.injEq] at hs
    obtain ⟨hh, hr⟩ := hs
    subst hh; subst hr
    simp only [goHeader]
    rcases goUvarint_of_specUleb h1 with g1 | g1
    · rcases goUvarint_of_specUleb h2 with g2 | g2
      · rcases goUvarint_of_specUleb h3 with g3 | g3
        · rcases goVarint_of_spec h4 with g4 | g4
          · simp only [g1, g2, g3, g4]
            have hm0 : ¬ m = 0 := fun hm => hc (by simp [hm])
            have hb0 : ¬ (b = 0 ∨ b % 128 ≠ 0) := fun hb => hc (by rcases hb with hb | hb <;> simp [hb])
            have hq : ¬ ((b / m) % 32 ≠ 0) := fun hq => hc (by simp [hq])
            simp only [hm0, hb0, hq, if_false]
            by_cases c1 : 2 ^ 63 ≤ b
            · right; exact ⟨.negative, by simp [c1], rfl⟩
            · by_cases c2 : 65536 < b
              · right; exact ⟨.tooLarge, by simp [c1, c2], rfl⟩
              · by_cases c3 : 2 ^ 63 ≤ m
                · right; exact ⟨.negative, by simp [c1, c2, c3], rfl⟩
                · by_cases c4 : 2 ^ 63 ≤ t
                  · right; exact ⟨.negative, by simp [c1, c2, c3, c4], rfl⟩
                  · by_cases c5 : 2 ^ 31 - 1 < t
                    · right; exact ⟨.tooMany, by simp [c1, c2, c3, c4, c5], rfl⟩
                    · left; simp [c1, c2, c3, c4, c5]
          · right; exact ⟨.overflow, by simp [g1, g2, g3, g4], rfl⟩
        · right; exact ⟨.overflow, by simp [g1, g2, g3], rfl⟩
      · right; exact ⟨.overflow, by simp [g1, g2], rfl⟩
    · right; exact ⟨.overflow, by simp [g1], rfl⟩

/-- **The Go decoder agrees with the spec decoder on every conformant stream**: wherever the spec
decoder succeeds, the mirror of `decodeInt32/64` returns the same values and the same rest, or
refuses the stream with one of Go's documented limits (`GoErr.isLimit`: a varint of more than 10
bytes / 64 bits, a header count not fitting a Go `int`, block size > 65536, more than MaxInt32
values, INT32 first value out of range). -/
theorem goDecode_of_specDecode (n : Nat) {bs : List Nat} {xs : List (BitVec n)} {r : List Nat}
    (hs : specDecode n bs = .ok (xs, r)) :
    goDecode n bs = .ok (xs, r) ∨ ∃ e, goDecode n bs = .error e ∧ e.isLimit = true := by
  simp only [specDecode] at hs
  cases hh : specHeader bs with
  | error e => simp [hh] at hs
  | ok p =>
    obtain ⟨h, src⟩ := p
    simp only [hh] at hs
    simp only [goDecode]
    rcases goHeader_of_specHeader hh with g | ⟨e, g, he⟩
    · simp only [g]
      by_cases ht : h.total = 0
      · simp only [ht, if_true, Except.ok.injEq, Prod.mk.injEq] at hs ⊢
        left; exact hs
      · simp only [ht, if_false] at hs ⊢
        by_cases hf : n = 32 ∧ (h.first < -(2 ^ 31) ∨ 2 ^ 31 - 1 < h.first)
        · right; exact ⟨.firstRange, by simp only [hf, and_self, if_true], rfl⟩
        · simp only [hf, if_false]
          cases hb : decBlocks n (h.blockSize / h.minis) h.minis h.total (h.total - 1) (BitVec.ofInt n h.first) src with
          | error e => simp [hb] at hs
          | ok q =>
            obtain ⟨vs, r'⟩ := q
            simp only [hb, Except.ok.injEq, Prod.mk.injEq] at hs
            rcases goBlocks_of_decBlocks n _ _ _ _ _ src vs r' (src.length + 1) hb (by omega) with gb | gb
            · left; simp only [gb, hs.1, hs.2]
            · right; exact ⟨.overflow, by simp only [gb], rfl⟩
    · right; exact ⟨e, by simp only [g], he⟩

/-! ### the Go decoder on the output of the Go encoder -/

/-- one iteration of the Go block loop on a block the spec decoder reads -/
theorem goBlocks_step (n vpm m : Nat) {rem : Nat} {last : BitVec n} {bs : List Nat} {vals : List (BitVec n)}
    {r : List Nat} (gf : Nat) (hd : decBlock n vpm m rem last bs = .ok (vals, r)) (hpos : 0 < rem)
    (hno : goVarint bs ≠ .error .overflow) :
    goBlocks n vpm m (gf + 1) rem last bs =
      (match goBlocks n vpm m gf (rem - vals.length) (vals.getLastD last) r with
       | .error e => .error e
       | .ok (more, r') => .ok (vals ++ more, r')) := by
  simp only [decBlock] at hd
  cases hz : specZigzag bs with
  | error e => simp [hz] at hd
  | ok p =>
    obtain ⟨md, bs1⟩ := p
    simp only [hz] at hd
    have hne : bs.isEmpty = false := by
      cases bs with
      | nil => simp [specZigzag, specUleb, decUvarint] at hz
      | cons _ _ => rfl
    by_cases hm : bs1.length < m
    · simp [hm] at hd
    · simp only [hm, if_false] at hd
      cases hdm : decMinis vpm n (bs1.take m) rem (bs1.drop m) with
      | error e => simp [hdm] at hd
      | ok q =>
        obtain ⟨ds, bs2⟩ := q
        simp only [hdm, Except.ok.injEq, Prod.mk.injEq] at hd
        have hgm := goMinis_of_decMinis n vpm _ _ _ ds bs2 hdm hpos
        have hrem : ¬ (rem = 0) := by omega
        rcases goVarint_of_spec hz with hv | hv
        · simp only [goBlocks, hrem, if_false, hne, Bool.false_eq_true, hv, hgm, goRecon_eq]
          rw [← hd.1, ← hd.2, recon_length]
          cases goBlocks n vpm m gf (rem - ds.length) ((recon (BitVec.ofInt n md) last ds).getLastD last) bs2 <;> rfl
        · exact absurd hv hno

theorem encBlock_head {n : Nat} (chunk : List (BitVec n)) (last : BitVec n) :
    ∃ (minD : BitVec n) (W : List Nat), (encBlock chunk last).1 = varintEnc (minD.signExtend 64) ++ W :=
  ⟨_, _, by simp only [encBlock, List.append_assoc]; rfl⟩

theorem putUvarint_ne_nil : ∀ (f x : Nat), putUvarint f x ≠ []
  | 0, _ => by simp [putUvarint]
  | f + 1, x => by simp only [putUvarint]; split <;> simp

theorem goBlocks_encBlocks {n : Nat} (hn : n ≤ 64) : ∀ (fuel : Nat) (rest : List (BitVec n)) (last : BitVec n)
    (tail : List Nat) (gf : Nat), rest.length ≤ fuel → (encBlocks fuel rest last ++ tail).length < gf →
    goBlocks n 32 4 gf rest.length last (encBlocks fuel rest last ++ tail) = .ok (rest, tail)
  | 0, rest, last, tail, gf, h, _ => by
    have : rest = [] := by cases rest <;> simp_all
    subst this; cases gf <;> simp [goBlocks, encBlocks]
  | fuel + 1, [], last, tail, gf, _, _ => by
    cases gf <;> simp [goBlocks, encBlocks]
  | fuel + 1, a :: r, last, tail, 0, _, h' => by omega
  | fuel + 1, a :: r, last, tail, g + 1, h, h' => by
    have hk : ((a :: r).take 128).length = min 128 (r.length + 1) := by
      simp only [List.length_take, List.length_cons]
    simp only [encBlocks, List.isEmpty_cons, Bool.false_eq_true, if_false, List.length_cons, List.append_assoc] at h' ⊢
    have hb := decBlock_encBlock hn ((a :: r).take 128) last (r.length + 1)
      (encBlocks fuel ((a :: r).drop 128) (encBlock ((a :: r).take 128) last).2 ++ tail) hk
    obtain ⟨minD, W, hE⟩ := encBlock_head ((a :: r).take 128) last
    have hno : goVarint ((encBlock ((a :: r).take 128) last).1 ++
        (encBlocks fuel ((a :: r).drop 128) (encBlock ((a :: r).take 128) last).2 ++ tail)) ≠ .error .overflow := by
      rw [hE, List.append_assoc, goVarint_varintEnc hn]; simp
    have hElen : 0 < (encBlock ((a :: r).take 128) last).1.length := by
      rw [hE]; simp only [List.length_append, varintEnc, uvarintEnc]
      have := putUvarint_ne_nil (zigzag64 (minD.signExtend 64)) (zigzag64 (minD.signExtend 64))
      have : 0 < (putUvarint (zigzag64 (minD.signExtend 64)) (zigzag64 (minD.signExtend 64))).length :=
        List.length_pos_iff.mpr this
      omega
    rw [goBlocks_step n 32 4 g hb (by omega) hno]
    simp only [hk]
    simp only [List.length_append] at h'
    by_cases hlen : 128 ≤ r.length + 1
    · have hl : ((a :: r).take 128).length = 128 := by rw [hk]; omega
      rw [encBlock_last _ _ hl] at h' ⊢
      have hd : r.length + 1 - min 128 (r.length + 1) = ((a :: r).drop 128).length := by
        simp only [List.length_drop, List.length_cons]; omega
      rw [hd, goBlocks_encBlocks hn fuel ((a :: r).drop 128) _ tail g
        (by simp only [List.length_drop, List.length_cons] at *; omega)
        (by simp only [List.length_append]; omega)]
      simp only [List.take_append_drop]
    · have hd : (a :: r).drop 128 = [] := List.drop_of_length_le (by simp only [List.length_cons]; omega)
      have hz : r.length + 1 - min 128 (r.length + 1) = 0 := by omega
      rw [hd, hz, encBlocks_nil]
      have ht : (a :: r).take 128 = a :: r := List.take_of_length_le (by simp only [List.length_cons]; omega)
      cases g <;> simp [goBlocks, ht]

theorem goHeader_encHeader {n : Nat} (hn : n ≤ 64) (total : Nat) (first : BitVec n) (tail : List Nat)
    (ht : total < 2 ^ 31) :
    goHeader (encHeader total first ++ tail) =
      .ok ({ blockSize := 128, minis := 4, total := total, first := first.toInt }, tail) := by
  have h128 : goUvarint (uvarintEnc 128 ++ (uvarintEnc 4 ++ (uvarintEnc total ++ (varintEnc (first.signExtend 64) ++ tail))))
      = .ok (128, _) := goUvarint_uvarintEnc 128 _ (by decide)
  have h4 : goUvarint (uvarintEnc 4 ++ (uvarintEnc total ++ (varintEnc (first.signExtend 64) ++ tail)))
      = .ok (4, _) := goUvarint_uvarintEnc 4 _ (by decide)
  have ht' : goUvarint (uvarintEnc total ++ (varintEnc (first.signExtend 64) ++ tail))
      = .ok (total, _) := goUvarint_uvarintEnc total _ (by omega)
  have c4 : ¬ (2 ^ 63 ≤ total) := by omega
  have c5 : ¬ (2 ^ 31 - 1 < total) := by omega
  simp only [goHeader, encHeader, List.append_assoc, h128, h4, ht', goVarint_varintEnc hn]
  simp [c4, c5]

/-- the mirror of the Go decoder applied to the mirror of the Go encoder returns the input -/
theorem goDecode_mirrorEncode {n : Nat} (hn : n = 32 ∨ n = 64) (xs : List (BitVec n)) (tail : List Nat)
    (hl : xs.length < 2 ^ 31) :
    goDecode n (mirrorEncode xs ++ tail) = .ok (xs, tail) := by
  have hn64 : n ≤ 64 := by omega
  simp only [goDecode, mirrorEncode, List.append_assoc, goHeader_encHeader hn64 _ _ _ hl]
  match xs with
  | [] => simp
  | a :: rest =>
    have h0 : ¬ ((a :: rest).length = 0) := by simp
    have hfr : ¬ (n = 32 ∧ (a.toInt < -(2 ^ 31) ∨ 2 ^ 31 - 1 < a.toInt)) := by
      intro ⟨h32, hr⟩
      subst h32
      have h1 := BitVec.toInt_lt (x := a)
      have h2 := BitVec.le_toInt (x := a)
      simp at h1 h2
      omega
    simp only [h0, if_false, List.headD_cons, hfr, BitVec.ofInt_toInt, List.tail_cons]
    cases rest with
    | nil => simp [encBlocks, goBlocks]
    | cons b r =>
      have h2 : ¬ ((a :: b :: r).length < 2) := by simp
      simp only [h2, if_false]
      have := goBlocks_encBlocks hn64 (a :: b :: r).length (b :: r) a tail
        ((encBlocks (a :: b :: r).length (b :: r) a ++ tail).length + 1) (by simp) (by omega)
      simp only [List.length_cons, Nat.add_sub_cancel] at this ⊢
      rw [this]

/-! ### where Go accepts more than the spec: truncated miniblock bodies are read as zeros -/

theorem padded_take_zero_ext (src : List Nat) (k size : Nat) :
    (src ++ List.replicate k 0).take size ++ List.replicate (size - ((src ++ List.replicate k 0).take size).length) 0
      = src.take size ++ List.replicate (size - (src.take size).length) 0 := by
  by_cases h : size ≤ src.length
  · rw [List.take_append_of_le_length h]
  · have hlt : src.length < size := by omega
    rw [List.take_append, List.take_of_length_le (by omega), List.take_replicate]
    simp only [List.length_append, List.length_replicate, List.append_assoc, List.replicate_append_replicate]
    congr 2
    omega

theorem drop_zero_ext (src : List Nat) (k size : Nat) :
    (src ++ List.replicate k 0).drop size = src.drop size ++ List.replicate (k - (size - src.length)) 0 := by
  rw [List.drop_append, List.drop_replicate]

/-- **Exactly where the Go decoder accepts more than the format**: the miniblock loop reads its
bodies as if `src` were followed by zero bytes — appending any number of zero bytes to `src` changes
neither the unpacked values nor the number of values left to read (nor whether the loop fails).
Hence a stream whose last miniblock bodies are cut short decodes, in Go, to what the
zero-extended stream decodes to; the spec decoder reports `truncated` for it. -/
theorem goMinis_zero_extension (n vpm : Nat) : ∀ (ws : List Nat) (tot : Nat) (src : List Nat) (k : Nat),
    (goMinis n vpm ws tot (src ++ List.replicate k 0)).map (fun p => (p.1, p.2.1))
      = (goMinis n vpm ws tot src).map (fun p => (p.1, p.2.1))
  | [], tot, src, k => by simp [goMinis, Except.map]
  | w :: ws, tot, src, k => by
    simp only [goMinis]
    split
    · rfl
    · simp only [padded_take_zero_ext, drop_zero_ext]
      split
      · rfl
      · have ih := goMinis_zero_extension n vpm ws (tot - min vpm tot) (src.drop (vpm * w / 8))
          (k - (vpm * w / 8 - src.length))
        cases h1 : goMinis n vpm ws (tot - min vpm tot)
            (src.drop (vpm * w / 8) ++ List.replicate (k - (vpm * w / 8 - src.length)) 0) with
        | error e =>
          cases h2 : goMinis n vpm ws (tot - min vpm tot) (src.drop (vpm * w / 8)) with
          | error e' => simp [h1, h2, Except.map] at ih ⊢; exact ih
          | ok q => simp [h1, h2, Except.map] at ih
        | ok q =>
          cases h2 : goMinis n vpm ws (tot - min vpm tot) (src.drop (vpm * w / 8)) with
          | error e' => simp [h1, h2, Except.map] at ih
          | ok q' =>
            simp only [h1, h2, Except.map, Except.ok.injEq, Prod.mk.injEq] at ih ⊢
            simp [ih.1, ih.2]

/-! ### byte arrays -/

theorem natLens_ok {ls : List (BitVec 32)} {lens : List Nat} (h : natLens ls = .ok lens) :
    (∀ l ∈ ls, l.msb = false) ∧ lens = ls.map BitVec.toNat := by
  simp only [natLens] at h
  split at h
  · next hall =>
    simp only [Except.ok.injEq] at h
    refine ⟨?_, h.symm⟩
    intro l hl
    have := (List.all_eq_true.mp hall) l hl
    simpa using this
  · cases h

theorem splitLens_ok : ∀ (lens : List Nat) (src : List Nat) (vs : List (List Nat)) (r : List Nat),
    splitLens lens src = .ok (vs, r) → vs.map List.length = lens ∧ src = vs.flatten ++ r
  | [], src, vs, r, h => by
    simp only [splitLens, Except.ok.injEq, Prod.mk.injEq] at h
    rw [← h.1, ← h.2]; simp
  | l :: lens, src, vs, r, h => by
    simp only [splitLens] at h
    split at h
    · cases h
    · next hlen =>
      split at h
      · cases h
      · next vs' r' hrec =>
        simp only [Except.ok.injEq, Prod.mk.injEq] at h
        obtain ⟨ih1, ih2⟩ := splitLens_ok lens _ vs' r' hrec
        rw [← h.1, ← h.2]
        refine ⟨?_, ?_⟩
        · simp only [List.map_cons, List.length_take, ih1]; congr 1; omega
        · simp only [List.flatten_cons, List.append_assoc, ← ih2, List.take_append_drop]

theorem offsetsFrom_last : ∀ (vs : List (List Nat)) (o : Nat), (offsetsFrom o vs).getLastD 0 = o + vs.flatten.length
  | [], o => by simp [offsetsFrom]
  | v :: vs, o => by
    have ih := offsetsFrom_last vs (o + v.length)
    cases hv : offsetsFrom (o + v.length) vs with
    | nil => cases vs <;> simp [offsetsFrom] at hv
    | cons x t =>
      rw [hv] at ih
      simp only [offsetsFrom, hv, List.flatten_cons, List.length_append]
      simp only [List.getLastD_cons] at ih ⊢
      omega

theorem goLengthOffsets_of : ∀ (ls : List (BitVec 32)) (vs : List (List Nat)) (o : Nat),
    (∀ l ∈ ls, l.msb = false) → vs.map List.length = ls.map BitVec.toNat →
    o + vs.flatten.length < 2 ^ 32 → goLengthOffsets o ls = .ok (offsetsFrom o vs)
  | [], vs, o, _, hm, _ => by
    have : vs = [] := by cases vs <;> simp_all
    subst this; rfl
  | l :: ls, [], o, _, hm, _ => by simp at hm
  | l :: ls, v :: vs, o, hpos, hm, hb => by
    simp only [List.map_cons, List.cons.injEq] at hm
    have hl : l.msb = false := hpos l (by simp)
    simp only [List.flatten_cons, List.length_append] at hb
    have hmod : (o + l.toNat) % 2 ^ 32 = o + v.length := by
      rw [← hm.1]; exact Nat.mod_eq_of_lt (by omega)
    simp only [goLengthOffsets, hl, Bool.false_eq_true, if_false, hmod, offsetsFrom]
    rw [goLengthOffsets_of ls vs (o + v.length) (fun x hx => hpos x (by simp [hx])) hm.2 (by omega)]

/-- DELTA_LENGTH_BYTE_ARRAY: on every stream the spec decoder reads (values totalling less than
4 GiB, Go's offsets are `uint32`) the Go decoder returns the concatenated values with their
offsets, or refuses with a documented limit. -/
theorem goDecodeDLBA_of_spec {bs : List Nat} {vs : List (List Nat)} {r : List Nat}
    (hs : specDecodeDLBA bs = .ok (vs, r)) (hb : vs.flatten.length < 2 ^ 32) :
    goDecodeDLBA bs = .ok (vs.flatten, offsetsFrom 0 vs) ∨ ∃ e, goDecodeDLBA bs = .error e ∧ e.isLimit = true := by
  simp only [specDecodeDLBA] at hs
  cases hd : specDecode 32 bs with
  | error e => simp [hd] at hs
  | ok p =>
    obtain ⟨ls, src⟩ := p
    simp only [hd] at hs
    cases hn : natLens ls with
    | error e => simp [hn] at hs
    | ok lens =>
      simp only [hn] at hs
      obtain ⟨hpos, hlens⟩ := natLens_ok hn
      obtain ⟨hmap, hsrc⟩ := splitLens_ok lens src vs r hs
      rcases goDecode_of_specDecode 32 hd with g | ⟨e, g, he⟩
      · left
        have ho := goLengthOffsets_of ls vs 0 hpos (by rw [hmap, hlens]) (by omega)
        have hlast := offsetsFrom_last vs 0
        simp only [Nat.zero_add] at hlast
        have hnt : ¬ (src.length < vs.flatten.length) := by rw [hsrc]; simp
        simp only [goDecodeDLBA, goDecode32, g, ho, hlast, hnt, if_false]
        rw [hsrc, List.take_left' rfl]
      · right; exact ⟨e, by simp only [goDecodeDLBA, g], he⟩

theorem goJoin_of : ∀ (ps sl : List (BitVec 32)) (prev src : List Nat) (ss : List (List Nat)) (r' : List Nat)
    (vs : List (List Nat)), (∀ l ∈ ps, l.msb = false) → (∀ l ∈ sl, l.msb = false) →
    splitLens (sl.map BitVec.toNat) src = .ok (ss, r') → joinPrefix prev (ps.map BitVec.toNat) ss = .ok vs →
    goJoin prev ps sl src = .ok vs
  | [], [], prev, src, ss, r', vs, _, _, h1, h2 => by
    simp only [List.map_nil, splitLens, Except.ok.injEq, Prod.mk.injEq] at h1
    rw [← h1.1] at h2
    simp only [List.map_nil, joinPrefix, Except.ok.injEq] at h2
    simp [goJoin, h2]
  | [], s :: sl, prev, src, ss, r', vs, _, _, h1, h2 => by
    exfalso
    simp only [List.map_cons, splitLens] at h1
    split at h1
    · cases h1
    · split at h1
      · cases h1
      · simp only [Except.ok.injEq, Prod.mk.injEq] at h1
        rw [← h1.1] at h2
        simp [joinPrefix] at h2
  | p :: ps, [], prev, src, ss, r', vs, _, _, h1, h2 => by
    exfalso
    simp only [List.map_nil, splitLens, Except.ok.injEq, Prod.mk.injEq] at h1
    rw [← h1.1] at h2
    simp [joinPrefix] at h2
  | p :: ps, s :: sl, prev, src, ss, r', vs, hp, hsl, h1, h2 => by
    simp only [List.map_cons, splitLens] at h1
    split at h1
    · cases h1
    · next hlen =>
      split at h1
      · cases h1
      · next ss' r'' hrec =>
        simp only [Except.ok.injEq, Prod.mk.injEq] at h1
        rw [← h1.1] at h2
        simp only [List.map_cons, joinPrefix] at h2
        split at h2
        · cases h2
        · next hpl =>
          split at h2
          · cases h2
          · next vs' hj =>
            simp only [Except.ok.injEq] at h2
            have hpm : p.msb = false := hp p (by simp)
            have hsm : s.msb = false := hsl s (by simp)
            simp only [goJoin, hsm, hpm, Bool.false_eq_true, if_false, hlen, hpl]
            rw [goJoin_of ps sl _ _ ss' r'' vs' (fun x hx => hp x (by simp [hx]))
              (fun x hx => hsl x (by simp [hx])) hrec hj]
            simp only [h2]

theorem joinPrefix_length : ∀ (prev : List Nat) (ps : List Nat) (ss vs : List (List Nat)),
    joinPrefix prev ps ss = .ok vs → ps.length = ss.length
  | _, [], [], _, _ => rfl
  | _, [], _ :: _, _, h => by simp [joinPrefix] at h
  | _, _ :: _, [], _, h => by simp [joinPrefix] at h
  | prev, p :: ps, s :: ss, vs, h => by
    simp only [joinPrefix] at h
    split at h
    · cases h
    · split at h
      · cases h
      · next vs' hj =>
        have := joinPrefix_length _ ps ss vs' hj
        simp only [List.length_cons]; omega

/-- DELTA_BYTE_ARRAY: on every stream the spec decoder reads, the portable Go decoder returns the
same values, or refuses with a documented limit. -/
theorem goDecodeDBA_of_spec {bs : List Nat} {vs : List (List Nat)} {r : List Nat}
    (hs : specDecodeDBA bs = .ok (vs, r)) :
    goDecodeDBA bs = .ok vs ∨ ∃ e, goDecodeDBA bs = .error e ∧ e.isLimit = true := by
  simp only [specDecodeDBA] at hs
  cases hd : specDecode 32 bs with
  | error e => simp [hd] at hs
  | ok p =>
    obtain ⟨ps, r1⟩ := p
    simp only [hd] at hs
    cases hn : natLens ps with
    | error e => simp [hn] at hs
    | ok pn =>
      simp only [hn] at hs
      cases hl : specDecodeDLBA r1 with
      | error e => simp [hl] at hs
      | ok q =>
        obtain ⟨ss, r'⟩ := q
        simp only [hl] at hs
        cases hj : joinPrefix [] pn ss with
        | error e => simp [hj] at hs
        | ok vs' =>
          simp only [hj, Except.ok.injEq, Prod.mk.injEq] at hs
          obtain ⟨hvs, _⟩ := hs
          subst hvs
          -- open the suffix stream
          simp only [specDecodeDLBA] at hl
          cases hd2 : specDecode 32 r1 with
          | error e => simp [hd2] at hl
          | ok p2 =>
            obtain ⟨sl, r2⟩ := p2
            simp only [hd2] at hl
            cases hn2 : natLens sl with
            | error e => simp [hn2] at hl
            | ok sn =>
              simp only [hn2] at hl
              obtain ⟨hppos, hpn⟩ := natLens_ok hn
              obtain ⟨hspos, hsn⟩ := natLens_ok hn2
              obtain ⟨hmap, _⟩ := splitLens_ok sn r2 ss r' hl
              have hlen := joinPrefix_length [] pn ss vs' hj
              rcases goDecode_of_specDecode 32 hd with g1 | ⟨e, g1, he⟩
              · rcases goDecode_of_specDecode 32 hd2 with g2 | ⟨e, g2, he⟩
                · left
                  have hcount : ¬ (ps.length ≠ sl.length) := by
                    have h1 : pn.length = ps.length := by rw [hpn]; simp
                    have h2 : sn.length = sl.length := by rw [hsn]; simp
                    have h3 : ss.length = sn.length := by rw [← hmap]; simp
                    omega
                  simp only [goDecodeDBA, g1, g2, hcount, if_false]
                  exact goJoin_of ps sl [] r2 ss r' vs' hppos hspos (by rw [← hsn]; exact hl) (by rw [← hpn]; exact hj)
                · right; exact ⟨e, by simp only [goDecodeDBA, g1, g2], he⟩
              · right; exact ⟨e, by simp only [goDecodeDBA, g1], he⟩

end PqModel.Delta
