import PqModel.VariantShred

/-!
# Variant shredding, Dremel level model (property C19)

The slot model (`VariantShred.lean`) says WHAT goes into `value` / `typed_value` of one variant
group occurrence. This file says HOW one occurrence is laid out in the leaf column streams of the
group: one `(definition level, repetition level, payload)` cell per leaf column (more below a
shredded LIST), and how the reader finds the occurrence back from the levels alone.

* `emit`      MIRROR of the level arithmetic of `variant_shredded_write.go`
              (`shreddedVariantGroup.write` 81-127, `writeValueFallback` 131-138, `writeList` 141-161,
              `writeObject` 165-183), on the slot that `shred` chose.
* `readG`     MIRROR of `variant_shredded_read.go` (`shreddedVariantGroup.read` 250-347, `readList`
              352-391, `readObject` 397-419) on column cursors.

Conventions. The Go code carries `baseDef`/`baseRep` (levels of the variant group in the enclosing
schema: optional / repeated ancestors) and, per group of the tree, the relative `defLevel` and
`repDepth` computed by `buildShreddedVariantGroup` (88-135) / `buildShreddedTypedValue` (140-217);
they only ever occur as the sums `baseDef + defLevel` and `baseRep + repDepth`, which are the
parameters `g` and `r` here (typed_value: `g + 1`; element group of a LIST: `g + 2`, `r + 1`; field
group of an object: `g + 1`, `r`; the schemas are those `ShreddedVariant` builds: required element
and field groups, a `value` column in every group). The columns of one group are a list: the
`value` column first, then the leaf columns of `typed_value` in schema order (`startCol`/`numCols`
arithmetic = `take`/`drop` by `numLeaves`). `rep` is the repetition level of the first cell of the
occurrence (`shredLevels.rep`).
Not modelled here: the `metadata` column (one cell per occurrence at `(baseDef, rep)`), the byte
encoding of the payloads (`enc`, `toCol`/`ofCol`), pages.
-/
namespace PqModel.Variant

/-- payload of a leaf cell: null, a variant value (a `value` column), a primitive (`typed_value`) -/
inductive Pay
  | null
  | val (v : Value)
  | typ (p : Prim)

structure Cell where
  dl : Nat
  rl : Nat
  pay : Pay

abbrev Col := List Cell

/-- append column-wise (the second operand is what the streams hold after this occurrence) -/
def zipApp : List Col → List Col → List Col
  | a :: as, b :: bs => (a ++ b) :: zipApp as bs
  | _, _ => []

/-- MIRROR variant_shredded_write.go:72-76 `appendShreddedNulls` -/
def nullCols (n dl rl : Nat) : List Col := List.replicate n [⟨dl, rl, .null⟩]

/-- the cell of a `value` column: null at the group's level (write 84/102/111/181), an encoded value
    one level deeper (`writeValueFallback` 137) -/
def valueCell (g rep : Nat) : Option Value → Cell
  | none => ⟨g, rep, .null⟩
  | some v => ⟨g + 1, rep, .val v⟩

mutual
/-- MIRROR variant_shredded_write.go:81-127 `write` (levels) -/
def emit : Schema → (g r rep : Nat) → Slot → List Col
  | s, g, _, rep, .missing => nullCols (numLeaves s) g rep
  | .untyped, g, _, rep, .mk v _ => [[valueCell g rep v]]
  | .prim _, g, _, rep, .mk v ty =>
    [[valueCell g rep v], [match ty with
      | .prim p => ⟨g + 1, rep, .typ p⟩
      | _ => ⟨g, rep, .null⟩]]
  | .list e, g, r, rep, .mk v ty =>
    [valueCell g rep v] :: (match ty with
      | .list slots =>
        if slots.isEmpty then nullCols (numLeaves e) (g + 1) rep
        else emitList e (g + 2) (r + 1) rep slots
      | _ => nullCols (numLeaves e) g rep)
  | .obj fs, g, r, rep, .mk v ty =>
    [valueCell g rep v] :: (match ty with
      | .obj tfs => emitFields fs (g + 1) r rep tfs
      | _ => nullCols (numLeavesFields fs) g rep)
/-- MIRROR variant_shredded_write.go:151-160 `writeList`, the element loop: the first element carries
    the repetition level of the occurrence, the others `elemRep = baseRep + element.repDepth` (= `r`) -/
def emitList : Schema → (g r rep : Nat) → List Slot → List Col
  | e, _, _, _, [] => List.replicate (numLeaves e) []
  | e, g, r, rep, x :: xs => zipApp (emit e g r rep x) (emitList e g r r xs)
/-- MIRROR variant_shredded_write.go:167-170 `writeObject`, the loop over the schema fields -/
def emitFields : List (Key × Schema) → (g r rep : Nat) → List (Key × Slot) → List Col
  | (_, s) :: fs, g, r, rep, (_, sl) :: sls => emit s g r rep sl ++ emitFields fs g r rep sls
  | fs, g, _, rep, [] => nullCols (numLeavesFields fs) g rep
  | [], _, _, _, _ :: _ => []
end

/-! ### reader -/

/-- MIRROR variant_shredded_read.go:227-232 `peek` on the first column of a range -/
def peekDl : List Col → Option Cell
  | (c :: _) :: _ => some c
  | _ => none

/-- MIRROR variant_shredded_read.go:361-363: one value consumed from every leaf column -/
def popAll (cols : List Col) : List Col := cols.map List.tail

/-- MIRROR variant_shredded_read.go:253-259: `next(valueCol)` and the presence test -/
def readValue (g : Nat) : Col → Option Value × Col
  | c :: tl =>
    ((match c.pay with
      | .val v => if g + 1 ≤ c.dl then some v else none
      | _ => none), tl)
  | [] => (none, [])

/-- MIRROR variant_shredded_read.go:372-389, the element loop of `readList`. `fuel` bounds the
    iterations (the Go loop ends because every iteration consumes a cell of the peeked column). -/
def readElems (rd1 : List Col → Option (RRes × List Col)) (elemRep : Nat) :
    Nat → List Col → Option (List Value × List Col)
  | 0, _ => none
  | fuel + 1, cols =>
    match rd1 cols with
    | none => none
    | some (res, cols') =>
      match res.orNull with
      | none => none
      | some v =>
        match peekDl cols' with
        | some c =>
          if c.rl = elemRep then
            match readElems rd1 elemRep fuel cols' with
            | none => none
            | some (vs, cs) => some (v :: vs, cs)
          else some ([v], cols')
        | none => some ([v], cols')

def firstLen : List Col → Nat
  | c :: _ => c.length
  | [] => 0

mutual
/-- MIRROR variant_shredded_read.go:250-347 `read`; `none` = the Go error return -/
def readG : Schema → (g r : Nat) → List Col → Option (RRes × List Col)
  | .untyped, g, _, cols =>
    match cols with
    | [vc] => some (valueCol (readValue g vc).1, [(readValue g vc).2])
    | _ => none
  | .prim _, g, _, cols =>
    match cols with
    | [vc, tc] =>
      match tc with
      | c :: tl =>
        match c.pay with
        | .typ p =>
          if g + 1 ≤ c.dl then
            (if (readValue g vc).1.isSome then none else some (.val (.prim p), [(readValue g vc).2, tl]))
          else some (valueCol (readValue g vc).1, [(readValue g vc).2, tl])
        | _ => some (valueCol (readValue g vc).1, [(readValue g vc).2, tl])
      | [] => some (valueCol (readValue g vc).1, [(readValue g vc).2, []])
    | _ => none
  | .list e, g, r, cols =>
    match cols with
    | vc :: tcols =>
      match peekDl tcols with
      | some first =>
        if g + 2 ≤ first.dl then
          match readElems (readG e (g + 2) (r + 1)) (r + 1) (firstLen tcols) tcols with
          | none => none
          | some (es, tcols') =>
            if (readValue g vc).1.isSome then none else some (.val (.arr es), (readValue g vc).2 :: tcols')
        else if g + 1 ≤ first.dl then
          (if (readValue g vc).1.isSome then none
           else some (.val (.arr []), (readValue g vc).2 :: popAll tcols))
        else some (valueCol (readValue g vc).1, (readValue g vc).2 :: popAll tcols)
      | none => some (valueCol (readValue g vc).1, (readValue g vc).2 :: popAll tcols)
    | [] => none
  | .obj fs, g, r, cols =>
    match cols with
    | vc :: tcols =>
      match readFields fs (g + 1) r tcols with
      | none => none
      | some (ofs, tcols') =>
        if (match peekDl tcols with
            | some first => decide (g + 1 ≤ first.dl)
            | none => false) then
          match (readValue g vc).1 with
          | none => some (.val (.obj ofs), (readValue g vc).2 :: tcols')
          | some (.obj resid) =>
            some (.val (.obj (ofs ++ resid.filter fun f => !(schemaNames fs).contains f.1)),
              (readValue g vc).2 :: tcols')
          | some _ => none
        else some (valueCol (readValue g vc).1, (readValue g vc).2 :: tcols')
    | [] => none
/-- MIRROR variant_shredded_read.go:404-414 `readObject`, the loop over the field groups -/
def readFields : List (Key × Schema) → (g r : Nat) → List Col →
    Option (List (Key × Value) × List Col)
  | [], _, _, cols => some ([], cols)
  | (name, s) :: rest, g, r, cols =>
    match readG s g r (cols.take (numLeaves s)) with
    | none => none
    | some (res, mine) =>
      match readFields rest g r (cols.drop (numLeaves s)) with
      | none => none
      | some (fs, others) =>
        some ((match res with
          | .val v => (name, v) :: fs
          | _ => fs), mine ++ others)
end

/-! ### which slots a schema admits (shape only) -/

mutual
def slotFits : Schema → Slot → Bool
  | _, .missing => true
  | .untyped, .mk _ ty => match ty with
    | .none => true
    | _ => false
  | .prim _, .mk _ ty => match ty with
    | .none => true
    | .prim _ => true
    | _ => false
  | .list e, .mk _ ty => match ty with
    | .none => true
    | .list slots => slotFitsList e slots
    | _ => false
  | .obj fs, .mk _ ty => match ty with
    | .none => true
    | .obj tfs => slotFitsFields fs tfs
    | _ => false
def slotFitsList : Schema → List Slot → Bool
  | _, [] => true
  | e, x :: xs => slotFits e x && slotFitsList e xs
def slotFitsFields : List (Key × Schema) → List (Key × Slot) → Bool
  | [], [] => true
  | (_, s) :: fs, (_, sl) :: sls => slotFits s sl && slotFitsFields fs sls
  | _, _ => false
end

end PqModel.Variant
