import PqModel.Bloom
import PqModel.SortBytes

/-! # What `Page.Data()` of a typed column buffer holds when the writer feeds it to the filter (C07)

The column writer inserts a page into the bloom filter with
`pageType.Encode(c.filter, page.Data(), splitBlockEncoding)` (`writer.go:2740-2745`,
`writePageToFilter`), and the only data pages it ever writes come from `c.columnBuffer.Page()`
(`writer.go:2178`, `Flush`). `Bloom.pageData` is the SPEC of the layout (written from the format of
`encoding.Values`). This file is the MIRROR of the typed column buffers that produce it:

* `booleanColumnBuffer` (`column_buffer_boolean.go:101-190`): `writeValues` (three phases: align on a
  byte, `sparse.GatherBits` 8 values per byte, bit-by-bit tail), `writeBoolean`, `clearTrailingBits`,
  `Reset`; `booleanPage.Data()` (`page_boolean.go:46`, all of `bits`, the page's bit `offset` is NOT
  applied) and `booleanPage.Slice` (`page_boolean.go:104-121`);
* the fixed-width buffers (`column_buffer_int32.go:75-84` and the int64/float/double/uint twins):
  `Resize` + `sparse.Gather*` = append;
* `fixedLenByteArrayColumnBuffer.WriteValues/writeValues` (`column_buffer_fixed_len_byte_array.go:109-136`)
  and the int96 buffer: one flat buffer, `size` bytes appended per value;
* `byteArrayColumnBuffer`: already mirrored by `SortBuf.BACol` (SortBytes.lean, C10); here only the
  step from its `page()` to the `encoding.Values` (`values`, `offsets` with the end offset).

`SliceBuffer.Resize` does not zero the bytes it exposes: the mirror takes the byte value found there
as a parameter `junk`, and the theorems hold for every `junk`. -/
namespace PqModel.PageDataBuf
open PqModel.XxHash PqModel.Bloom

/-! ## boolean column buffer -/

/-- `booleanColumnBuffer`: `bits` (`len(bits)` bytes) and `numValues`; `offset` is always 0 -/
structure BoolBuf where
  bits : List UInt8
  numValues : Nat
  deriving DecidableEq, Repr

def BoolBuf.empty : BoolBuf := { bits := [], numValues := 0 }

/-- `bitpack.ByteCount` -/
def byteCount (n : Nat) : Nat := (n + 7) / 8

/-- MIRROR `SliceBuffer.Resize(n)`: truncate, or expose `n - len` bytes of whatever the backing
    array holds (`junk`) -/
def resize (bits : List UInt8) (n : Nat) (junk : UInt8) : List UInt8 :=
  bits.take n ++ List.replicate (n - bits.length) junk

def bit (b : Bool) : UInt8 := if b then 1 else 0

/-- MIRROR `bits[x] = (bit << y) | (bits[x] & ^(1 << y))`, column_buffer_boolean.go:152-154, 170 -/
def setBit (w : UInt8) (y : Nat) (b : Bool) : UInt8 :=
  (bit b <<< UInt8.ofNat y) ||| (w &&& ~~~((1 : UInt8) <<< UInt8.ofNat y))

/-- MIRROR `clearTrailingBits`, column_buffer_boolean.go:179-186 -/
def clearTrailing (bits : List UInt8) (numValues : Nat) : List UInt8 :=
  if numValues % 8 = 0 then bits
  else setAt bits (bits.length - 1) (fun w => w &&& (((1 : UInt8) <<< UInt8.ofNat (numValues % 8)) - 1))

/-- MIRROR `writeBoolean`, column_buffer_boolean.go:159-173 (one value; the per-value typed write path) -/
def BoolBuf.writeBoolean (st : BoolBuf) (b : Bool) (junk : UInt8) : BoolBuf :=
  let bits := resize st.bits (byteCount (st.numValues + 1)) junk
  let bits := setAt bits (st.numValues / 8) (fun w => setBit w (st.numValues % 8) b)
  { bits := clearTrailing bits (st.numValues + 1), numValues := st.numValues + 1 }

/-- MIRROR `b |= (v & 1) << uint(i)` for `i < r`, column_buffer_boolean.go:122-127 -/
def packLowFrom : Nat → List Bool → UInt8
  | _, [] => 0
  | i, v :: vs => (bit v <<< UInt8.ofNat i) ||| packLowFrom (i + 1) vs

def packLow (rows : List Bool) : UInt8 := packLowFrom 0 rows

/-- MIRROR `sparse.GatherBits` (sparse/gather.go; the AVX2 kernel computes the same bytes): 8 rows
    per output byte, LSB first; the caller passes a multiple of 8 rows -/
def gatherBits : List Bool → List UInt8
  | b0 :: b1 :: b2 :: b3 :: b4 :: b5 :: b6 :: b7 :: rest => packLow [b0, b1, b2, b3, b4, b5, b6, b7] :: gatherBits rest
  | _ => []

/-- `copy(bits[at:], new)` -/
def overwrite (bits : List UInt8) (pos : Nat) (new : List UInt8) : List UInt8 :=
  bits.take pos ++ new ++ bits.drop (pos + new.length)

/-- MIRROR the tail loop `for i < bytes.Len() { bits[x] = ((b&1) << y) | (bits[x] & ^(1 << y)); numValues++ }`,
    column_buffer_boolean.go:148-156 -/
def tailLoop (bits : List UInt8) (nv : Nat) : List Bool → List UInt8 × Nat
  | [] => (bits, nv)
  | b :: rest => tailLoop (setAt bits (nv / 8) (fun w => setBit w (nv % 8) b)) (nv + 1) rest

/-- MIRROR of the first step inside `if r <= bytes.Len()`, column_buffer_boolean.go:118-132: when the
    buffer ends inside a byte (`r < 8`), pack the first `r` rows and merge them into that byte.
    State = (bits, numValues, i). -/
def alignPhase (bits0 : List UInt8) (nv : Nat) (rows : List Bool) : List UInt8 × Nat × Nat :=
  let y := nv % 8
  let r := 8 - y
  if r < 8 then
    let b := packLow (rows.take r)
    (setAt bits0 (nv / 8) (fun w => (b <<< UInt8.ofNat y) ||| (w &&& ~~~((0xFF : UInt8) <<< UInt8.ofNat y))),
      nv + r, r)
  else (bits0, nv, 0)

/-- MIRROR of `if n := ((bytes.Len() - i) / 8) * 8; n > 0 { i += sparse.GatherBits(bits[numValues/8:], bytes.Slice(i, i+n)); numValues += n }`,
    column_buffer_boolean.go:134-144 -/
def gatherPhase (a : List UInt8 × Nat × Nat) (rows : List Bool) : List UInt8 × Nat × Nat :=
  let n := ((rows.length - a.2.2) / 8) * 8
  if n > 0 then
    (overwrite a.1 (a.2.1 / 8) (gatherBits ((rows.drop a.2.2).take n)), a.2.1 + n, a.2.2 + n)
  else a

/-- MIRROR of the end of `writeValues`, column_buffer_boolean.go:148-157: the bit-by-bit tail loop,
    `bits.Resize(ByteCount(numValues))`, `clearTrailingBits` -/
def finishPhase (p1 : List UInt8 × Nat × Nat) (rows : List Bool) (junk : UInt8) : BoolBuf :=
  let p2 := tailLoop p1.1 p1.2.1 (rows.drop p1.2.2)
  { bits := clearTrailing (resize p2.1 (byteCount p2.2) junk) p2.2, numValues := p2.2 }

/-- MIRROR `writeValues`, column_buffer_boolean.go:111-157 (a batch; `WriteValues`, `WriteBooleans` and
    the columnar typed path) -/
def BoolBuf.writeValues (st : BoolBuf) (rows : List Bool) (junk : UInt8) : BoolBuf :=
  let bits0 := resize st.bits (byteCount (st.numValues + rows.length)) junk
  let p1 : List UInt8 × Nat × Nat :=
    if 8 - st.numValues % 8 ≤ rows.length then gatherPhase (alignPhase bits0 st.numValues rows) rows
    else (bits0, st.numValues, 0)
  finishPhase p1 rows junk

/-- MIRROR `Reset`, column_buffer_boolean.go:54-58 (the backing array keeps its bytes: they come back
    as `junk` on the next `Resize`) -/
def BoolBuf.reset (_ : BoolBuf) : BoolBuf := BoolBuf.empty

/-- MIRROR `booleanColumnBuffer.Page().Data()` = `encoding.BooleanValues(page.bits)`, page_boolean.go:46 -/
def BoolBuf.data (st : BoolBuf) : PageData := .boolean st.bits

inductive BoolOp where
  | one (b : Bool)
  | batch (rows : List Bool)
  | reset
  deriving DecidableEq, Repr

def BoolBuf.step (junk : UInt8) (st : BoolBuf) : BoolOp → BoolBuf
  | .one b => st.writeBoolean b junk
  | .batch rows => st.writeValues rows junk
  | .reset => st.reset

/-- SPEC: the values a history leaves in the buffer -/
def boolSpecStep (vs : List Bool) : BoolOp → List Bool
  | .one b => vs ++ [b]
  | .batch rows => vs ++ rows
  | .reset => []

/-- a boolean page as `Slice` leaves it: bytes, bit offset of the first value, number of values -/
structure BoolPage where
  bits : List UInt8
  offset : Nat
  numValues : Nat
  deriving DecidableEq, Repr

def BoolBuf.page (st : BoolBuf) : BoolPage := { bits := st.bits, offset := 0, numValues := st.numValues }

/-- MIRROR `booleanPage.Slice(i, j)`, page_boolean.go:104-121 -/
def BoolPage.slice (p : BoolPage) (i j : Nat) : BoolPage :=
  let low := i + p.offset
  let high := j + p.offset
  let off := low / 8
  let e := if high % 8 ≠ 0 then high / 8 + 1 else high / 8
  { bits := (p.bits.take e).drop off, offset := low % 8, numValues := j - i }

/-- MIRROR `booleanPage.valueAt`, page_boolean.go:50-55 -/
def BoolPage.valueAt (p : BoolPage) (i : Nat) : Bool :=
  ((p.bits.getD ((p.offset + i) / 8) 0).toNat >>> ((p.offset + i) % 8)) % 2 == 1

def BoolPage.values (p : BoolPage) : List Bool := (List.range p.numValues).map p.valueAt

/-- MIRROR `booleanPage.Data()`: the page's bytes, whatever `offset` is -/
def BoolPage.data (p : BoolPage) : PageData := .boolean p.bits

/-! ## fixed-width buffers (int32, int64, float, double; the value is its bit pattern) -/

/-- MIRROR `writeValues` of the fixed-width buffers: `values.Resize(offset + n); sparse.GatherXX(values[offset:], rows)` -/
def fixedWrite {α} (values rows : List α) : List α := values ++ rows

/-! ## flat buffers (FIXED_LEN_BYTE_ARRAY, INT96) -/

/-- MIRROR `fixedLenByteArrayColumnBuffer.WriteValues`, column_buffer_fixed_len_byte_array.go:109-117:
    stops at the first value of another size (`none` = the error; the values before it stay written) -/
def flbaWrite (size : Nat) : List UInt8 → List (List UInt8) → List UInt8 × Bool
  | data, [] => (data, true)
  | data, v :: vs => if v.length = size then flbaWrite size (data ++ v) vs else (data, false)

/-! ## all kinds: a history of `WriteValues` batches and `Reset`s on the column buffer of a kind -/

inductive BufOp where
  | write (vs : List Value)
  | reset
  deriving Repr

/-- the state of a typed column buffer, per kind -/
inductive Buf where
  | boolean (st : BoolBuf)
  | w32 (vs : List UInt32)
  | w64 (vs : List UInt64)
  | flat (data : List UInt8)
  | bytes (c : SortBuf.BACol UInt8)

def Buf.empty : Kind → Buf
  | .boolean => .boolean BoolBuf.empty
  | .int32 | .float => .w32 []
  | .int64 | .double => .w64 []
  | .int96 | .flba _ => .flat []
  | .byteArray => .bytes SortBuf.BACol.empty

def valueBool : Value → Bool | .boolean b => b | _ => false
def value32 : Value → UInt32 | .int32 x => x | .float x => x | _ => 0
def value64 : Value → UInt64 | .int64 x => x | .double x => x | _ => 0

/-- MIRROR `WriteValues([]Value)` of the buffer of each kind (values of the column's kind) -/
def Buf.write (junk : UInt8) (kind : Kind) : Buf → List Value → Buf
  | .boolean st, vs => .boolean (st.writeValues (vs.map valueBool) junk)
  | .w32 xs, vs => .w32 (fixedWrite xs (vs.map value32))
  | .w64 xs, vs => .w64 (fixedWrite xs (vs.map value64))
  | .flat data, vs =>
    .flat (flbaWrite (match kind with | .flba n => n | _ => 12) data (vs.map Value.payloadBytes)).1
  | .bytes c, vs => .bytes ((vs.map Value.payloadBytes).foldl SortBuf.BACol.write c)

def Buf.step (junk : UInt8) (kind : Kind) (b : Buf) : BufOp → Buf
  | .write vs => b.write junk kind vs
  | .reset => Buf.empty kind

/-- MIRROR `Page().Data()` of the buffer of each kind (`byteArrayColumnBuffer.page()` appends the end
    offset; `byteArrayPage.Data()` = `ByteArrayValues(values, offsets)`) -/
def Buf.data (kind : Kind) : Buf → PageData
  | .boolean st => st.data
  | .w32 xs => (match kind with | .float => .float xs | _ => .int32 xs)
  | .w64 xs => (match kind with | .double => .double xs | _ => .int64 xs)
  | .flat data => (match kind with | .flba n => .flba data n | _ => .int96 data)
  | .bytes c => let p := c.page; .byteArray p.values (p.offsets ++ p.endOff.toList)

def specStep (vs : List Value) : BufOp → List Value
  | .write ws => vs ++ ws
  | .reset => []

/-- the page data after a history, and the values the history leaves in the buffer -/
def runData (junk : UInt8) (kind : Kind) (ops : List BufOp) : PageData :=
  (ops.foldl (Buf.step junk kind) (Buf.empty kind)).data kind

def runValues (ops : List BufOp) : List Value := ops.foldl specStep []

/-! ## the dictionary's own page (`writePageToFilter(dict.Page())`, strategy 2 of `flushFilterPages`) -/

/-- The values a typed dictionary holds after at least one `Insert` call, `vs` being everything
    inserted: first occurrences in insertion order (the dictionary contract: C04, `DictReset.lean`).
    MIRROR of `booleanDictionary.insert`, dictionary_boolean.go:66-90, for BOOLEAN: the first call adds
    `false` then `true`, whatever is inserted (even nothing). -/
def dictValues (kind : Kind) (vs : List Value) : List Value :=
  match kind with
  | .boolean => [.boolean false, .boolean true]
  | _ => vs.eraseDups

/-- `dict.Page().Data()`: the dictionary's page is a page of the column's type holding `dictValues` -/
def dictData (kind : Kind) (vs : List Value) : PageData := pageData kind (dictValues kind vs)

end PqModel.PageDataBuf
