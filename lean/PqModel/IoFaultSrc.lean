import PqModel.IoFault

/-! # Source-side faults on the verbatim copy path of `WriteRowGroup` (C14)

`writeRowGroup` (writer.go) streams the dictionary page, the data pages and the bloom filter of a
column chunk that is copied verbatim with

    w.writer.copySection(source, off, length)
      = n, err := w.writer.ReadFrom(io.NewSectionReader(source, off, length))
        if err == nil && n != length { err = io.ErrUnexpectedEOF }

`ReadFrom` is `io.Copy` (unbuffered) or `bufio.Writer.ReadFrom` (buffered): both take `io.EOF` from
their input for its regular end.  This file models the *source* of that copy as something that may
stop early and proves that the length check is what turns a premature end into an error.

MIRROR: `copySection`.  SPEC: `SrcFault` / `srcDelivered` (package io: what an `io.SectionReader`
over a failing `io.ReaderAt` hands to its reader). -/
namespace PqModel.IoFault

/-- SPEC: a fault of the source `io.ReaderAt` as seen through the `io.SectionReader` of one copy:
only the first `cut` bytes of the section are delivered, then the stream ends — with `io.EOF`
(`eof = true`: a short read along with io.EOF, the source "ends early") or with another error. -/
structure SrcFault where
  cut : Nat
  eof : Bool
  deriving Repr, DecidableEq

/-- SPEC: (bytes delivered before the stream ends, "it ended with an error other than io.EOF").
A fault beyond the end of the section is never met. -/
def srcDelivered (data : Bytes) : Option SrcFault → Bytes × Bool
  | none => (data, false)
  | some f => if f.cut < data.length then (data.take f.cut, !f.eof) else (data, false)

/-- MIRROR `(*offsetTrackingWriter).copySection` (writer.go, with `ReadFrom` at writer.go
`offsetTrackingWriter.ReadFrom` = `io.Copy`): copy what the source delivers through the chain
(`uReadFrom`: `io.copyBuffer` unbuffered, `bufio.Writer.ReadFrom` buffered); the result is the
writer's error, else the source's error unless it is io.EOF (`io.Copy`: `if er != EOF { err = er }`),
else — `checked` — `io.ErrUnexpectedEOF` when `n != length`.
`checked = false` is the code before the repair (the count was dropped at all four copy sites).
For a source error other than io.EOF the mirror is exact on `(n, err, bytes accepted by the chain)`;
`bufio.Writer.ReadFrom` then skips the "buffer exactly full" flush that `uReadFrom` performs. -/
def copySection {σ} (m : SinkM σ) (checked : Bool) (w : W σ) (data : Bytes) (f : Option SrcFault) :
    W σ × Bool :=
  let d := srcDelivered data f
  let x := uReadFrom m w.u d.1
  ((w.track x).1, x.2.err || d.2 || (checked && decide (x.2.n ≠ data.length)))

theorem srcDelivered_prefix (data : Bytes) (f : Option SrcFault) :
    ∃ j, j ≤ data.length ∧ (srcDelivered data f).1 = data.take j ∧
      (j = data.length → (srcDelivered data f).2 = false) := by
  cases f with
  | none => exact ⟨data.length, Nat.le_refl _, by simp [srcDelivered], fun _ => rfl⟩
  | some f =>
    by_cases h : f.cut < data.length
    · exact ⟨f.cut, Nat.le_of_lt h, by simp [srcDelivered, h], fun e => by omega⟩
    · exact ⟨data.length, Nat.le_refl _, by simp [srcDelivered, h], fun _ => by simp [srcDelivered, h]⟩

/-- **The checked copy is all or error.**  For every conforming destination, buffered or not, and
every behaviour of the source: if `copySection` returns nil, the chain has accepted exactly the
`length` bytes of the section after what it held, and the offset advanced by `length` — the state
the fault-free plan operation `Op.readFrom` describes (`Good`). -/
theorem copySection_nil_complete {σ} (m : SinkM σ) (hm : Conforming m) (w : W σ) (data : Bytes)
    (f : Option SrcFault) (s : String)
    (h : (copySection m true w data f).2 = false) :
    Good w (copySection m true w data f).1 [Op.readFrom s data] := by
  obtain ⟨j, hj, hd, _⟩ := srcDelivered_prefix data f
  have hp := uReadFrom_ok m hm w.u (srcDelivered data f).1
  simp only [copySection, Bool.or_eq_false_iff, Bool.true_and,
    decide_eq_false_iff_not, Decidable.not_not] at h
  obtain ⟨⟨he, _⟩, hn⟩ := h
  have hfull := hp.full he
  -- the source delivered everything
  have hlen : (srcDelivered data f).1.length = data.length := by rw [← hfull]; exact hn
  have hall : (srcDelivered data f).1 = data := by
    rw [hd] at hlen ⊢
    simp only [List.length_take] at hlen
    rw [List.take_of_length_le (by omega)]
  refine ⟨?_, ?_, ?_⟩
  · simp only [copySection, W.track, ideal, Op.payload, List.append_nil]
    rw [hp.deliv, hfull, List.take_length, hall]
  · simp only [copySection, W.track, ideal, Op.payload]
    rw [hn]
  · simp [copySection, W.track, ideal, Op.after]

/-- **A source fault that bites is reported**: the stream ends before the end of the section
(`cut < length`), with io.EOF or with another error ⇒ the checked copy returns an error, whatever
the destination does. -/
theorem copySection_reports {σ} (m : SinkM σ) (hm : Conforming m) (w : W σ) (data : Bytes)
    (f : SrcFault) (hcut : f.cut < data.length) :
    (copySection m true w data (some f)).2 = true := by
  have hp := uReadFrom_ok m hm w.u (srcDelivered data (some f)).1
  have hl : (srcDelivered data (some f)).1.length < data.length := by
    simp only [srcDelivered, hcut, if_true, List.length_take]; omega
  have hne : (uReadFrom m w.u (srcDelivered data (some f)).1).2.n ≠ data.length := by
    have := hp.le; omega
  simp [copySection, hne]

/-- the sticky error of the write buffer still wins: nothing moves and the copy fails -/
theorem copySection_sticky {σ} (m : SinkM σ) (hm : Conforming m) (w : W σ) (data : Bytes)
    (f : Option SrcFault) (checked : Bool) (hb : w.u.berr = true) :
    (copySection m checked w data f).2 = true ∧ (copySection m checked w data f).1.u = w.u := by
  have h1 := uReadFrom_sticky m w.u (srcDelivered data f).1 hb
  have h2 := (uReadFrom_ok m hm w.u (srcDelivered data f).1).mono hb
  exact ⟨by simp [copySection, h1], by simp [copySection, W.track, h2]⟩

end PqModel.IoFault
