import PqModel.HashProbe
/-! Lemmas about the hashprobe mirror (`PqModel/HashProbe.lean`): the walk of linear probing without
deletion. The representation invariant `Inv` says: the table is a power-of-two number of groups of at most
`G` entries, its entries are (a permutation of) the numbering `S`, keys are unique, and every numbered key is
FOUND by the walk from its own hash. -/
namespace PqModel.HashProbe

set_option linter.unusedSectionVars false

variable {α : Type} [DecidableEq α]

/-! ### association lists -/

theorem gfind_mem {k : α} {v : Nat} : ∀ {S : List (α × Nat)}, gfind k S = some v → (k, v) ∈ S
  | [], h => by simp [gfind] at h
  | (a, w) :: rest, h => by
    simp only [gfind] at h
    split at h
    · rename_i e; cases h; subst e; exact List.mem_cons_self
    · exact List.mem_cons_of_mem _ (gfind_mem h)

theorem gfind_none {k : α} : ∀ {S : List (α × Nat)}, gfind k S = none → ∀ v, (k, v) ∉ S
  | [], _, _ => by simp
  | (a, w) :: rest, h, v => by
    simp only [gfind] at h
    split at h
    · cases h
    · rename_i ne
      intro hm
      rcases List.mem_cons.mp hm with e | hm
      · cases e; exact ne rfl
      · exact gfind_none h v hm

theorem gfind_none_of_not_mem {k : α} : ∀ {S : List (α × Nat)}, (∀ v, (k, v) ∉ S) → gfind k S = none
  | [], _ => rfl
  | (a, w) :: rest, h => by
    simp only [gfind]
    split
    · rename_i e; subst e; exact absurd List.mem_cons_self (h w)
    · exact gfind_none_of_not_mem fun v hm => h v (List.mem_cons_of_mem _ hm)

theorem gfind_append_some {k : α} {v : Nat} : ∀ {S : List (α × Nat)} (T : List (α × Nat)),
    gfind k S = some v → gfind k (S ++ T) = some v
  | [], _, h => by simp [gfind] at h
  | (a, w) :: rest, T, h => by
    simp only [gfind, List.cons_append] at h ⊢
    split
    · rename_i e; simpa [e] using h
    · rename_i ne; simp only [ne, if_false] at h; exact gfind_append_some T h

theorem gfind_append_none {k : α} : ∀ {S : List (α × Nat)} (T : List (α × Nat)),
    gfind k S = none → gfind k (S ++ T) = gfind k T
  | [], _, _ => rfl
  | (a, w) :: rest, T, h => by
    simp only [gfind, List.cons_append] at h ⊢
    split
    · rename_i e; simp [e] at h
    · rename_i ne; simp only [ne, if_false] at h; exact gfind_append_none T h

theorem gfind_of_mem_nodup {k : α} {v : Nat} : ∀ {S : List (α × Nat)},
    (S.map Prod.fst).Nodup → (k, v) ∈ S → gfind k S = some v
  | [], _, h => by simp at h
  | (a, w) :: rest, nd, h => by
    simp only [List.map_cons, List.nodup_cons] at nd
    simp only [gfind]
    rcases List.mem_cons.mp h with e | hm
    · cases e; simp
    · split
      · rename_i e; subst e
        exact absurd (List.mem_map.mpr ⟨(a, v), hm, rfl⟩) nd.1
      · exact gfind_of_mem_nodup nd.2 hm

/-! ### slots -/

theorem slot_eq_mod {e : Nat} (hash : Nat) : slot (2 ^ e) hash = hash % 2 ^ e := by
  unfold slot; exact Nat.and_two_pow_sub_one_eq_mod hash e

theorem slot_lt {size e : Nat} (h : size = 2 ^ e) (hash : Nat) : slot size hash < size := by
  subst h; rw [slot_eq_mod]; exact Nat.mod_lt _ (Nat.two_pow_pos e)

/-- `hash, hash+1, …, hash+size-1` visit every group -/
theorem slot_cover {size e : Nat} (h : size = 2 ^ e) (hash p : Nat) (hp : p < size) :
    ∃ d, d < size ∧ slot size (hash + d) = p := by
  subst h
  have hr : hash % 2 ^ e < 2 ^ e := Nat.mod_lt _ (Nat.two_pow_pos e)
  have hq : 2 ^ e * (hash / 2 ^ e) + hash % 2 ^ e = hash := Nat.div_add_mod hash (2 ^ e)
  by_cases c : hash % 2 ^ e ≤ p
  · refine ⟨p - hash % 2 ^ e, by omega, ?_⟩
    rw [slot_eq_mod]
    have : hash + (p - hash % 2 ^ e) = 2 ^ e * (hash / 2 ^ e) + p := by omega
    rw [this, Nat.mul_add_mod, Nat.mod_eq_of_lt hp]
  · refine ⟨2 ^ e - hash % 2 ^ e + p, by omega, ?_⟩
    rw [slot_eq_mod]
    have : hash + (2 ^ e - hash % 2 ^ e + p) = 2 ^ e * (hash / 2 ^ e) + (2 ^ e + p) := by omega
    rw [this, Nat.mul_add_mod, Nat.add_mod_left, Nat.mod_eq_of_lt hp]

/-! ### groups -/

theorem getD_nil_or_mem (gs : Groups α) (p : Nat) : gs.getD p [] = [] ∨ gs.getD p [] ∈ gs := by
  rw [List.getD_eq_getElem?_getD]
  cases h : gs[p]? with
  | none => left; rfl
  | some g => right; exact List.mem_of_getElem? h

theorem length_putAt (gs : Groups α) (q : Nat) (kv : α × Nat) : (putAt gs q kv).length = gs.length := by
  simp [putAt]

theorem getD_putAt (gs : Groups α) (q p : Nat) (kv : α × Nat) :
    (putAt gs q kv).getD p [] =
      if q = p ∧ q < gs.length then gs.getD q [] ++ [kv] else gs.getD p [] := by
  unfold putAt
  simp only [List.getD_eq_getElem?_getD, List.getElem?_set]
  by_cases e : q = p
  · subst e
    by_cases l : q < gs.length
    · simp [l]
    · simp [l]
  · simp [e]

theorem flatten_putAt_perm : ∀ (gs : Groups α) (q : Nat) (kv : α × Nat), q < gs.length →
    (putAt gs q kv).flatten.Perm (gs.flatten ++ [kv])
  | [], _, _, h => by simp at h
  | g :: rest, 0, kv, _ => by
    simp only [putAt, List.getD_cons_zero, List.set_cons_zero, List.flatten_cons, List.append_assoc]
    exact List.Perm.append_left g List.perm_append_comm
  | g :: rest, q + 1, kv, h => by
    have ih := flatten_putAt_perm rest q kv (by simpa using h)
    simp only [putAt, List.getD_cons_succ, List.set_cons_succ, List.flatten_cons, List.append_assoc] at ih ⊢
    exact List.Perm.append_left g ih

/-- a table holding fewer than `G * groups` entries has a group with room -/
theorem exists_room {G : Nat} : ∀ (gs : Groups α), (∀ g ∈ gs, g.length ≤ G) →
    gs.flatten.length < G * gs.length → ∃ p, p < gs.length ∧ (gs.getD p []).length ≠ G
  | [], _, h => by simp at h
  | g :: rest, hle, h => by
    by_cases c : g.length = G
    · have : rest.flatten.length < G * rest.length := by
        simp only [List.flatten_cons, List.length_append, List.length_cons, Nat.mul_succ] at h
        omega
      obtain ⟨p, hp, hr⟩ := exists_room rest (fun g hg => hle g (List.mem_cons_of_mem _ hg)) this
      exact ⟨p + 1, by simpa using hp, by simpa using hr⟩
    · exact ⟨0, by simp, by simpa using c⟩

/-! ### the walk -/

theorem locate_none {G : Nat} : ∀ (fuel : Nat) (gs : Groups α) (hash : Nat) (key : α),
    locate G fuel gs hash key = none →
    ∀ d, d < fuel → (gs.getD (slot gs.length (hash + d)) []).length = G
  | 0, _, _, _, _, d, hd => by omega
  | fuel + 1, gs, hash, key, h, d, hd => by
    simp only [locate] at h
    split at h
    · cases h
    · split at h
      · rename_i full
        cases d with
        | zero => simpa using full
        | succ d =>
          have := locate_none fuel gs (hash + 1) key h d (by omega)
          rwa [show hash + 1 + d = hash + (d + 1) by omega] at this
      · cases h

/-- where the walk stops with `none`, the group has room and does not hold the key -/
theorem locate_room {G : Nat} : ∀ (fuel : Nat) (gs : Groups α) (hash : Nat) (key : α) (p : Nat),
    locate G fuel gs hash key = some (p, none) →
    (∃ d, p = slot gs.length (hash + d)) ∧ gfind key (gs.getD p []) = none ∧ (gs.getD p []).length ≠ G
  | 0, _, _, _, _, h => by simp [locate] at h
  | fuel + 1, gs, hash, key, p, h => by
    simp only [locate] at h
    split at h
    · cases h
    · rename_i nf
      split at h
      · obtain ⟨⟨d, hd⟩, r⟩ := locate_room fuel gs (hash + 1) key p h
        exact ⟨⟨d + 1, by rw [hd]; congr 1; omega⟩, r⟩
      · rename_i room
        cases h
        exact ⟨⟨0, rfl⟩, nf, room⟩

theorem locate_found {G : Nat} : ∀ (fuel : Nat) (gs : Groups α) (hash : Nat) (key : α) (p v : Nat),
    locate G fuel gs hash key = some (p, some v) → gfind key (gs.getD p []) = some v
  | 0, _, _, _, _, _, h => by simp [locate] at h
  | fuel + 1, gs, hash, key, p, v, h => by
    simp only [locate] at h
    split at h
    · rename_i w fw; cases h; exact fw
    · split at h
      · exact locate_found fuel gs (hash + 1) key p v h
      · cases h

/-- a key stored nowhere is never found -/
theorem locate_absent {G : Nat} (gs : Groups α) (key : α) (habs : ∀ g ∈ gs, gfind key g = none)
    (fuel hash p v : Nat) : locate G fuel gs hash key ≠ some (p, some v) := by
  intro h
  have := locate_found fuel gs hash key p v h
  rcases getD_nil_or_mem gs p with e | m
  · rw [e] at this; simp [gfind] at this
  · rw [habs _ m] at this; cases this

/-- the walk ends when some group has room -/
theorem locate_terminates {G : Nat} (gs : Groups α) {e : Nat} (hp2 : gs.length = 2 ^ e)
    (hroom : ∃ p, p < gs.length ∧ (gs.getD p []).length ≠ G) (hash : Nat) (key : α) :
    locate G gs.length gs hash key ≠ none := by
  intro h
  obtain ⟨p, hp, hr⟩ := hroom
  obtain ⟨d, hd, hs⟩ := slot_cover hp2 hash p hp
  have := locate_none gs.length gs hash key h d hd
  rw [hs] at this
  exact hr this

/-- appending another key to a group with room does not disturb a key that is found -/
theorem locate_putAt_other {G : Nat} (gs : Groups α) (q : Nat) (k k' : α) (v' : Nat) (hne : k' ≠ k)
    (hq : (gs.getD q []).length ≠ G) :
    ∀ (fuel hash p v : Nat), locate G fuel gs hash k = some (p, some v) →
      locate G fuel (putAt gs q (k', v')) hash k = some (p, some v)
  | 0, _, _, _, h => by simp [locate] at h
  | fuel + 1, hash, p, v, h => by
    simp only [locate, length_putAt, getD_putAt] at h ⊢
    split at h
    · rename_i w fw
      cases h
      by_cases c : q = slot gs.length hash ∧ q < gs.length
      · have fw' : gfind k (gs.getD q []) = some v := by rw [c.1]; exact fw
        rw [if_pos c, gfind_append_some _ fw']
      · rw [if_neg c, fw]
    · rename_i nf
      split at h
      · rename_i full
        have qne : ¬ (q = slot gs.length hash ∧ q < gs.length) := by
          intro c; rw [← c.1] at full; exact hq full
        rw [if_neg qne]
        simp only [nf, full, if_true]
        exact locate_putAt_other gs q k k' v' hne hq fuel (hash + 1) p v h
      · cases h

/-- after a new key is put where its walk stopped, its walk finds it there -/
theorem locate_putAt_self {G : Nat} (gs : Groups α) (k : α) (v : Nat)
    (hlt : ∀ hash, slot gs.length hash < gs.length) :
    ∀ (fuel hash p : Nat), locate G fuel gs hash k = some (p, none) →
      locate G fuel (putAt gs p (k, v)) hash k = some (p, some v)
  | 0, _, _, h => by simp [locate] at h
  | fuel + 1, hash, p, h => by
    have hr := locate_room (fuel + 1) gs hash k p h
    simp only [locate, length_putAt, getD_putAt] at h ⊢
    split at h
    · cases h
    · rename_i nf
      split at h
      · rename_i full
        have pne : ¬ (p = slot gs.length hash ∧ p < gs.length) := by
          intro c; rw [← c.1] at full; exact hr.2.2 full
        rw [if_neg pne]
        simp only [nf, full, if_true]
        exact locate_putAt_self gs k v hlt fuel (hash + 1) p h
      · cases h
        have c : slot gs.length hash = slot gs.length hash ∧ slot gs.length hash < gs.length :=
          ⟨rfl, hlt hash⟩
        rw [if_pos c, gfind_append_none _ nf]
        simp [gfind]

/-- `grow`'s walk (keys not compared) is the probing walk of a key that is stored nowhere -/
theorem locate_eq_growLocate {G : Nat} (gs : Groups α) (key : α) (habs : ∀ g ∈ gs, gfind key g = none) :
    ∀ (fuel hash : Nat), locate G fuel gs hash key = (growLocate G fuel gs hash).map (·, none)
  | 0, _ => rfl
  | fuel + 1, hash => by
    simp only [locate, growLocate]
    have : gfind key (gs.getD (slot gs.length hash) []) = none := by
      rcases getD_nil_or_mem gs (slot gs.length hash) with e | m
      · rw [e]; rfl
      · exact habs _ m
    simp only [this]
    by_cases c : (gs.getD (slot gs.length hash) []).length = G
    · rw [if_pos c, if_pos c]; exact locate_eq_growLocate gs key habs fuel (hash + 1)
    · rw [if_neg c, if_neg c]; rfl

/-! ### the representation invariant -/

/-- the groups `gs`, probed with hash function `h`, represent the numbering `S` -/
structure Inv (G : Nat) (gs : Groups α) (h : α → Nat) (S : List (α × Nat)) : Prop where
  pow2 : ∃ e, gs.length = 2 ^ e
  le : ∀ g ∈ gs, g.length ≤ G
  perm : gs.flatten.Perm S
  nd : (S.map Prod.fst).Nodup
  find : ∀ k v, (k, v) ∈ S → ∃ p, locate G gs.length gs (h k) k = some (p, some v)

theorem Inv.absent {G : Nat} {gs : Groups α} {h : α → Nat} {S : List (α × Nat)} (inv : Inv G gs h S)
    {k : α} (hk : ∀ v, (k, v) ∉ S) : ∀ g ∈ gs, gfind k g = none := by
  intro g hg
  apply gfind_none_of_not_mem
  intro v hm
  exact hk v ((inv.perm.mem_iff).mp (List.mem_flatten.mpr ⟨g, hg, hm⟩))

/-- the empty table represents the empty numbering -/
theorem inv_empty (G : Nat) (e : Nat) (h : α → Nat) : Inv G (List.replicate (2 ^ e) ([] : List (α × Nat))) h [] where
  pow2 := ⟨e, by simp⟩
  le := by intro g hg; rw [List.eq_of_mem_replicate hg]; simp
  perm := by
    have : (List.replicate (2 ^ e) ([] : List (α × Nat))).flatten = [] := by
      generalize 2 ^ e = n
      induction n with
      | zero => rfl
      | succ n ih => simp [List.replicate_succ, ih]
    rw [this]
  nd := by simp
  find := by intro k v hm; simp at hm

/-- the insertion step: a key that is not numbered yet, a table with room: the walk stops at a group with
    room, and putting the key there with ANY value `v` represents `S ++ [(k, v)]` -/
theorem inv_put {G : Nat} {gs : Groups α} {h : α → Nat} {S : List (α × Nat)} (inv : Inv G gs h S)
    (k : α) (v : Nat) (hk : ∀ w, (k, w) ∉ S) (hroom : S.length < G * gs.length) :
    ∃ p, locate G gs.length gs (h k) k = some (p, none) ∧ Inv G (putAt gs p (k, v)) h (S ++ [(k, v)]) := by
  obtain ⟨e, hp2⟩ := inv.pow2
  have habs := inv.absent hk
  have room := exists_room gs inv.le (by rw [inv.perm.length_eq]; exact hroom)
  have hterm := locate_terminates (G := G) gs hp2 room (h k) k
  cases hl : locate G gs.length gs (h k) k with
  | none => exact absurd hl hterm
  | some r =>
    obtain ⟨p, o⟩ := r
    cases o with
    | some w => exact absurd hl (locate_absent gs k habs _ _ _ _)
    | none =>
      refine ⟨p, rfl, ?_⟩
      obtain ⟨⟨d, hd⟩, hnf, hne⟩ := locate_room _ gs (h k) k p hl
      have hplt : p < gs.length := by rw [hd]; exact slot_lt hp2 _
      refine ⟨⟨e, by rw [length_putAt]; exact hp2⟩, ?_, ?_, ?_, ?_⟩
      · intro g hg
        unfold putAt at hg
        rcases List.mem_or_eq_of_mem_set hg with m | e
        · exact inv.le g m
        · subst e
          have : (gs.getD p []).length ≤ G := by
            rcases getD_nil_or_mem gs p with e | m
            · rw [e]; simp
            · exact inv.le _ m
          simp only [List.length_append, List.length_cons, List.length_nil]
          omega
      · exact (flatten_putAt_perm gs p (k, v) hplt).trans (List.Perm.append_right _ inv.perm)
      · rw [List.map_append, List.nodup_append]
        refine ⟨inv.nd, by simp, ?_⟩
        intro a ha b hb
        simp only [List.map_cons, List.map_nil, List.mem_singleton] at hb
        subst hb
        obtain ⟨⟨a1, a2⟩, hm, rfl⟩ := List.mem_map.mp ha
        intro e; exact hk a2 (by simpa [← e] using hm)
      · intro k2 v2 hm
        rw [length_putAt]
        rcases List.mem_append.mp hm with m | m
        · obtain ⟨p2, hp2'⟩ := inv.find k2 v2 m
          have : k ≠ k2 := by intro e; subst e; exact hk v2 m
          exact ⟨p2, locate_putAt_other gs p k2 k v this hne _ _ _ _ hp2'⟩
        · simp only [List.mem_singleton] at m
          cases m
          exact ⟨p, locate_putAt_self gs k v (slot_lt hp2) _ _ _ hl⟩

/-- transport along a permutation of the numbering -/
theorem Inv.of_perm {G : Nat} {gs : Groups α} {h : α → Nat} {S T : List (α × Nat)} (inv : Inv G gs h S)
    (p : S.Perm T) : Inv G gs h T where
  pow2 := inv.pow2
  le := inv.le
  perm := inv.perm.trans p
  nd := ((p.map Prod.fst).nodup_iff).mp inv.nd
  find := fun k v hm => inv.find k v (p.mem_iff.mpr hm)


/-! ### probing refines the first-seen numbering -/

theorem specProbe1_length_le (S : List (α × Nat)) (k : α) :
    S.length ≤ (specProbe1 S k).1.length ∧ (specProbe1 S k).1.length ≤ S.length + 1 := by
  unfold specProbe1; split <;> simp

theorem specProbe_length_le : ∀ (ks : List α) (S : List (α × Nat)),
    S.length ≤ (specProbe S ks).1.length ∧ (specProbe S ks).1.length ≤ S.length + ks.length
  | [], S => by simp [specProbe]
  | k :: ks, S => by
    have a := specProbe1_length_le S k
    have b := specProbe_length_le ks (specProbe1 S k).1
    simp only [specProbe, List.length_cons]
    omega

theorem probeKey_refines {G : Nat} {gs : Groups α} {h : α → Nat} {S : List (α × Nat)} (inv : Inv G gs h S)
    (k : α) (hroom : (specProbe1 S k).1.length ≤ G * gs.length) :
    ∃ gs', probeKey G gs S.length (h k) k = some (gs', (specProbe1 S k).1.length, (specProbe1 S k).2)
      ∧ Inv G gs' h (specProbe1 S k).1 ∧ gs'.length = gs.length := by
  unfold specProbe1 at hroom ⊢
  cases hf : gfind k S with
  | some v =>
    obtain ⟨p, hp⟩ := inv.find k v (gfind_mem hf)
    exact ⟨gs, by simp [probeKey, hp], inv, rfl⟩
  | none =>
    simp only [hf, List.length_append, List.length_cons, List.length_nil] at hroom
    obtain ⟨p, hp, inv'⟩ := inv_put inv k S.length (gfind_none hf) (by omega)
    exact ⟨putAt gs p (k, S.length), by simp [probeKey, hp], inv', length_putAt _ _ _⟩

theorem multiProbe_refines {G : Nat} {h : α → Nat} : ∀ (keys : List α) (gs : Groups α) (S : List (α × Nat)),
    Inv G gs h S → (specProbe S keys).1.length ≤ G * gs.length →
    ∃ gs', multiProbe G gs S.length (keys.map fun k => (h k, k))
        = some (gs', (specProbe S keys).1.length, (specProbe S keys).2)
      ∧ Inv G gs' h (specProbe S keys).1 ∧ gs'.length = gs.length
  | [], gs, S, inv, _ => ⟨gs, rfl, inv, rfl⟩
  | k :: ks, gs, S, inv, hroom => by
    simp only [specProbe] at hroom ⊢
    have mono := specProbe_length_le ks (specProbe1 S k).1
    obtain ⟨gs1, e1, inv1, l1⟩ := probeKey_refines inv k (by omega)
    obtain ⟨gs2, e2, inv2, l2⟩ := multiProbe_refines ks gs1 (specProbe1 S k).1 inv1 (by rw [l1]; exact hroom)
    refine ⟨gs2, ?_, inv2, by rw [l2, l1]⟩
    simp only [List.map_cons, multiProbe, e1, e2]

/-- the 256-key batches of `probeArray`: probing a concatenation = probing the batches in sequence -/
theorem multiProbe_append {G : Nat} : ∀ (a b : List (Nat × α)) (gs : Groups α) (n : Nat),
    multiProbe G gs n (a ++ b) =
      match multiProbe G gs n a with
      | none => none
      | some (gs1, n1, va) =>
        match multiProbe G gs1 n1 b with
        | none => none
        | some (gs2, n2, vb) => some (gs2, n2, va ++ vb)
  | [], b, gs, n => by
    simp only [List.nil_append, multiProbe]
    cases multiProbe G gs n b with
    | none => rfl
    | some r => obtain ⟨gs2, n2, vb⟩ := r; rfl
  | (hash, key) :: a, b, gs, n => by
    simp only [List.cons_append, multiProbe]
    cases probeKey G gs n hash key with
    | none => rfl
    | some r =>
      obtain ⟨gs1, n1, v⟩ := r
      simp only [multiProbe_append a b gs1 n1]
      cases multiProbe G gs1 n1 a with
      | none => rfl
      | some r2 =>
        obtain ⟨gs2, n2, va⟩ := r2
        simp only
        cases multiProbe G gs2 n2 b with
        | none => rfl
        | some r3 => obtain ⟨gs3, n3, vb⟩ := r3; rfl

/-- the batch loop is one `multiProbe` over all the keys -/
theorem probeLoop_eq_multiProbe {G : Nat} (h : α → Nat) : ∀ (fuel : Nat) (gs : Groups α) (n : Nat) (keys : List α),
    keys.length ≤ fuel → probeLoop G h fuel gs n keys = multiProbe G gs n (keys.map fun k => (h k, k))
  | 0, gs, n, keys, hl => by
    have : keys = [] := List.length_eq_zero_iff.mp (by omega)
    subst this; rfl
  | fuel + 1, gs, n, keys, hl => by
    simp only [probeLoop]
    split
    · rename_i e; subst e; rfl
    · rename_i ne
      have hpos : 0 < keys.length := List.length_pos_iff.mpr ne
      have e : keys.map (fun k => (h k, k))
          = (keys.take 256).map (fun k => (h k, k)) ++ (keys.drop 256).map (fun k => (h k, k)) := by
        rw [← List.map_append, List.take_append_drop]
      rw [e, multiProbe_append]
      cases multiProbe G gs n ((keys.take 256).map fun k => (h k, k)) with
      | none => rfl
      | some r =>
        obtain ⟨gs1, n1, v⟩ := r
        simp only
        rw [probeLoop_eq_multiProbe h fuel gs1 n1 (keys.drop 256) (by rw [List.length_drop]; omega)]
        cases multiProbe G gs1 n1 ((keys.drop 256).map fun k => (h k, k)) with
        | none => rfl
        | some r2 => obtain ⟨gs2, n2, vs⟩ := r2; rfl

/-! ### growth -/

theorem growFill_refines {G : Nat} {h' : α → Nat} : ∀ (E P : List (α × Nat)) (gs : Groups α),
    Inv G gs h' P → ((P ++ E).map Prod.fst).Nodup → (P ++ E).length ≤ G * gs.length →
    ∃ gs', growFill G h' gs E = some gs' ∧ Inv G gs' h' (P ++ E) ∧ gs'.length = gs.length
  | [], P, gs, inv, _, _ => ⟨gs, rfl, by simpa using inv, rfl⟩
  | (k, v) :: E, P, gs, inv, nd, hroom => by
    have hk : ∀ w, (k, w) ∉ P := by
      intro w hm
      rw [List.map_append, List.nodup_append] at nd
      exact nd.2.2 k (List.mem_map.mpr ⟨(k, w), hm, rfl⟩) k (by simp) rfl
    have hlen : P.length < G * gs.length := by
      simp only [List.length_append, List.length_cons] at hroom; omega
    obtain ⟨p, hp, inv'⟩ := inv_put inv k v hk hlen
    rw [locate_eq_growLocate gs k (inv.absent hk)] at hp
    have e : (P ++ [(k, v)]) ++ E = P ++ (k, v) :: E := by simp
    obtain ⟨gs', eg, invg, lg⟩ := growFill_refines E (P ++ [(k, v)]) (putAt gs p (k, v)) inv'
      (by rw [e]; exact nd) (by rw [e, length_putAt]; exact hroom)
    refine ⟨gs', ?_, by rw [← e]; exact invg, by rw [lg, length_putAt]⟩
    simp only [growFill]
    cases hg : growLocate G gs.length gs (h' k) with
    | none => rw [hg] at hp; cases hp
    | some q =>
      rw [hg] at hp
      simp only [Option.map_some, Option.some.injEq, Prod.mk.injEq, and_true] at hp
      subst hp
      exact eg

/-- `tableSizeAndMaxLen` as far as the theorems need it: a power of two number of groups with room for the
    requested number of values, and a growth threshold within that room -/
def SizingOk (G : Nat) (sz : Nat → Nat × Nat) : Prop :=
  ∀ n, (∃ e, (sz n).1 = 2 ^ e) ∧ n ≤ G * (sz n).1 ∧ (sz n).2 ≤ G * (sz n).1

/-- the table `t` represents the numbering `S` -/
structure TInv (G : Nat) (t : Table α) (S : List (α × Nat)) : Prop where
  inv : Inv G t.groups t.h S
  len : t.len = S.length
  cap : t.maxLen ≤ G * t.groups.length

theorem grow_refines {G : Nat} {sz : Nat → Nat × Nat} (hsz : SizingOk G sz) (h' : α → Nat) {t : Table α}
    {S : List (α × Nat)} (ti : TInv G t S) (total : Nat) (ht : S.length ≤ total) :
    ∃ t', grow G sz h' t total = some t' ∧ TInv G t' S ∧ t'.maxLen = (sz total).2
      ∧ t'.groups.length = (sz total).1 := by
  obtain ⟨⟨e, he⟩, hroom, hmax⟩ := hsz total
  have nd : (([] ++ t.groups.flatten).map Prod.fst).Nodup := by
    simpa using ((ti.inv.perm.map Prod.fst).nodup_iff).mpr ti.inv.nd
  have hl : ([] ++ t.groups.flatten).length ≤ G * (List.replicate (sz total).1 ([] : List (α × Nat))).length := by
    simp only [List.nil_append, List.length_replicate]
    rw [ti.inv.perm.length_eq]; omega
  have inv0 : Inv G (List.replicate (sz total).1 ([] : List (α × Nat))) h' [] := by
    rw [he]; exact inv_empty G e h'
  obtain ⟨gs', eg, invg, lg⟩ := growFill_refines t.groups.flatten [] _ inv0 nd hl
  simp only [List.nil_append, List.length_replicate] at invg lg
  refine ⟨{ len := t.len, maxLen := (sz total).2, h := h', groups := gs' }, by simp [grow, eg], ?_, rfl, lg⟩
  exact ⟨invg.of_perm ti.inv.perm, ti.len, by simp only [lg]; exact hmax⟩

theorem probeArray_refines {G : Nat} {sz : Nat → Nat × Nat} (hsz : SizingOk G sz) (h' : α → Nat)
    {t : Table α} {S : List (α × Nat)} (ti : TInv G t S) (keys : List α) :
    ∃ t', probeArray G sz h' t keys = some (t', (specProbe S keys).2) ∧ TInv G t' (specProbe S keys).1 := by
  have bound := (specProbe_length_le keys S).2
  have key : ∃ t1, (if t.len + keys.length > t.maxLen then grow G sz h' t (t.len + keys.length) else some t)
      = some t1 ∧ TInv G t1 S ∧ S.length + keys.length ≤ G * t1.groups.length := by
    by_cases c : t.len + keys.length > t.maxLen
    · obtain ⟨t1, e1, ti1, _, l1⟩ := grow_refines hsz h' ti (t.len + keys.length) (by rw [ti.len]; omega)
      refine ⟨t1, by rw [if_pos c]; exact e1, ti1, ?_⟩
      rw [l1, ← ti.len]; exact (hsz _).2.1
    · refine ⟨t, by rw [if_neg c], ti, ?_⟩
      have := ti.cap; rw [← ti.len]; omega
  obtain ⟨t1, e1, ti1, room⟩ := key
  obtain ⟨gs', em, invm, lm⟩ := multiProbe_refines (h := t1.h) keys t1.groups S ti1.inv (by omega)
  refine ⟨{ t1 with len := (specProbe S keys).1.length, groups := gs' }, ?_, ⟨invm, rfl, ?_⟩⟩
  · simp only [probeArray, e1, probeLoop_eq_multiProbe t1.h _ _ _ keys (Nat.le_refl _), ti1.len, em]
  · simp only [lm]; exact ti1.cap

theorem mkTable_inv {G : Nat} {sz : Nat → Nat × Nat} (hsz : SizingOk G sz) (h : α → Nat) (cap : Nat) :
    TInv G (mkTable sz h cap) [] := by
  obtain ⟨⟨e, he⟩, _, hmax⟩ := hsz cap
  refine ⟨?_, rfl, by simpa [mkTable] using hmax⟩
  simp only [mkTable]; rw [he]; exact inv_empty G e h

theorem reset_inv {G : Nat} {t : Table α} {S : List (α × Nat)} (ti : TInv G t S) : TInv G (reset t) [] := by
  obtain ⟨e, he⟩ := ti.inv.pow2
  refine ⟨?_, rfl, by simpa [reset] using ti.cap⟩
  simp only [reset]; rw [he]; exact inv_empty G e t.h

theorem session_refines {G : Nat} {sz : Nat → Nat × Nat} (hsz : SizingOk G sz) :
    ∀ (calls : List ((α → Nat) × List α)) (t : Table α) (S : List (α × Nat)), TInv G t S →
      session G sz t calls = some (specSession S (calls.map Prod.snd))
  | [], _, _, _ => rfl
  | (h', keys) :: rest, t, S, ti => by
    obtain ⟨t1, e1, ti1⟩ := probeArray_refines hsz h' ti keys
    simp only [session, e1, List.map_cons, specSession, session_refines hsz rest t1 _ ti1, Option.map_some]

end PqModel.HashProbe
