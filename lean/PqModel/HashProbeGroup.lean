import PqModel.HashProbeProofs
/-! The group of `table32` / `table64` as the Go struct — ALL `G` key and value slots plus `bits` — and the step
the probing loop takes at one group (hashprobe.go:299-322, :544-567), proved equal to the step on the occupied
prefix that `locate` / `probeKey` of PqModel/HashProbe.lean take (`arrStep_refines`). This discharges the
reading "the key scan over all G slots is the first match in the occupied prefix": an unoccupied slot may
well hold the probed key (the zero key after `make`/`reset`), the `index < n` test rejects it. -/
namespace PqModel.HashProbe

set_option linter.unusedSectionVars false
variable {α : Type} [DecidableEq α]

/-- `table32Group` / `table64Group`: `keys [G]`, `values [G]`, `n = OnesCount32(bits)` (`bits = 2^n - 1`) -/
structure ArrGroup (α : Type) where
  keys : List α
  vals : List Nat
  n : Nat
  deriving DecidableEq

/-- `index := G; for j, k := range group.keys { if k == key { index = j; break } }` (all slots) -/
def scanIndex (key : α) : List α → Nat
  | [] => 0
  | k :: ks => if k = key then 0 else scanIndex key ks + 1

inductive GroupStep (β : Type) where
  | found (v : Nat)
  | full
  | put (g : β)
  deriving DecidableEq

def GroupStep.map {β γ : Type} (f : β → γ) : GroupStep β → GroupStep γ
  | .found v => .found v
  | .full => .full
  | .put g => .put (f g)

/-- MIRROR of the loop body at one group (hashprobe.go:299-322): `if n := OnesCount32(group.bits); index < n
    { value = group.values[index] } else { if n == G { hash++; continue }; … group.keys[n] = key … }` -/
def arrStep (G : Nat) (g : ArrGroup α) (key : α) (numKeys : Nat) : GroupStep (ArrGroup α) :=
  let index := scanIndex key g.keys
  if index < g.n then .found (g.vals.getD index 0)
  else if g.n = G then .full
  else .put { keys := g.keys.set g.n key, vals := g.vals.set g.n numKeys, n := g.n + 1 }

/-- the step of `locate` / `probeKey` at one group of the prefix model -/
def prefStep (G : Nat) (g : List (α × Nat)) (key : α) (numKeys : Nat) : GroupStep (List (α × Nat)) :=
  match gfind key g with
  | some v => .found v
  | none => if g.length = G then .full else .put (g ++ [(key, numKeys)])

/-- the occupied prefix -/
def ArrGroup.abs (g : ArrGroup α) : List (α × Nat) := (g.keys.take g.n).zip (g.vals.take g.n)

def ArrGroup.WF (G : Nat) (g : ArrGroup α) : Prop := g.keys.length = G ∧ g.vals.length = G ∧ g.n ≤ G

theorem gfind_prefix : ∀ (ks : List α) (vs : List Nat) (n : Nat) (key : α), n ≤ ks.length → n ≤ vs.length →
    gfind key ((ks.take n).zip (vs.take n))
      = if scanIndex key ks < n then some (vs.getD (scanIndex key ks) 0) else none
  | _, _, 0, _, _, _ => by simp [gfind]
  | [], _, n + 1, _, h, _ => by simp at h
  | _ :: _, [], n + 1, _, _, h => by simp at h
  | k :: ks, v :: vs, n + 1, key, h1, h2 => by
    by_cases e : k = key
    · have es : scanIndex key (k :: ks) = 0 := by simp [scanIndex, e]
      rw [es]; simp [gfind, e]
    · have es : scanIndex key (k :: ks) = scanIndex key ks + 1 := by simp [scanIndex, e]
      rw [es]
      simp only [List.take_succ_cons, List.zip_cons_cons, gfind, if_neg e, Nat.add_lt_add_iff_right,
        List.getD_cons_succ]
      exact gfind_prefix ks vs n key (by simpa using h1) (by simpa using h2)

theorem take_succ_set {β : Type} : ∀ (l : List β) (n : Nat) (x : β), n < l.length →
    (l.set n x).take (n + 1) = l.take n ++ [x]
  | [], _, _, h => by simp at h
  | _ :: _, 0, _, _ => by simp
  | a :: l, n + 1, x, h => by
    simp only [List.set_cons_succ, List.take_succ_cons, List.cons_append]
    rw [take_succ_set l n x (by simpa using h)]

theorem abs_length (G : Nat) (g : ArrGroup α) (hw : g.WF G) : g.abs.length = g.n := by
  obtain ⟨a, b, c⟩ := hw
  simp only [ArrGroup.abs, List.length_zip, List.length_take]; omega

/-- the array-level step is the prefix-level step, and it keeps the group well formed -/
theorem arrStep_refines (G : Nat) (g : ArrGroup α) (hw : g.WF G) (key : α) (numKeys : Nat) :
    (arrStep G g key numKeys).map ArrGroup.abs = prefStep G g.abs key numKeys
      ∧ ∀ g', arrStep G g key numKeys = .put g' → g'.WF G := by
  have hlen := abs_length G g hw
  obtain ⟨a, b, c⟩ := hw
  have hf : gfind key g.abs
      = if scanIndex key g.keys < g.n then some (g.vals.getD (scanIndex key g.keys) 0) else none :=
    gfind_prefix g.keys g.vals g.n key (by omega) (by omega)
  unfold arrStep prefStep
  rw [hf, hlen]
  by_cases c1 : scanIndex key g.keys < g.n
  · simp only [c1, if_true, GroupStep.map]
    exact ⟨trivial, fun _ h => by cases h⟩
  · simp only [c1, if_false]
    by_cases c2 : g.n = G
    · simp only [c2, if_true, GroupStep.map]
      exact ⟨trivial, fun _ h => by cases h⟩
    · simp only [c2, if_false, GroupStep.map]
      refine ⟨?_, ?_⟩
      · have : ArrGroup.abs { keys := g.keys.set g.n key, vals := g.vals.set g.n numKeys, n := g.n + 1 }
            = g.abs ++ [(key, numKeys)] := by
          simp only [ArrGroup.abs]
          rw [take_succ_set g.keys g.n key (by omega), take_succ_set g.vals g.n numKeys (by omega),
            List.zip_append (by simp only [List.length_take]; omega)]
          rfl
        rw [this]
      · intro g' h
        cases h
        exact ⟨by simp [a], by simp [b], by simp only; omega⟩

/-- the zero key is not found in a group that holds it only in an unoccupied slot: it is inserted -/
example : arrStep 4 ({ keys := [5, 0, 0, 0], vals := [0, 0, 0, 0], n := 1 } : ArrGroup Nat) 0 1
    = .put { keys := [5, 0, 0, 0], vals := [0, 1, 0, 0], n := 2 } := by decide

/-! ### table128: one slot = a group of one entry -/

/-- a slot of `table128`: `tableKeys[j]` and `tableValues[j]` (0 = empty, otherwise the number plus one) -/
def abs128 (s : α × Nat) : List (α × Nat) := if s.2 = 0 then [] else [(s.1, s.2 - 1)]

/-- MIRROR of the loop body of `multiProbe128Default` at one slot (hashprobe.go:762-778): `if v == 0 {
    values[i] = tableLen; tableLen++; tableKeys[j] = key; tableValues[j] = tableLen } else if key ==
    tableKeys[j] { values[i] = v - 1 } else { hash++ }` -/
def slotStep128 (s : α × Nat) (key : α) (tableLen : Nat) : GroupStep (α × Nat) :=
  if s.2 = 0 then .put (key, tableLen + 1)
  else if key = s.1 then .found (s.2 - 1)
  else .full

theorem slotStep128_refines (s : α × Nat) (key : α) (tableLen : Nat) :
    (slotStep128 s key tableLen).map abs128 = prefStep 1 (abs128 s) key tableLen := by
  obtain ⟨k, v⟩ := s
  unfold slotStep128 prefStep abs128
  by_cases c : v = 0
  · simp [c, gfind, GroupStep.map]
  · by_cases e : key = k
    · simp [c, e, gfind, GroupStep.map]
    · have e' : ¬ k = key := fun h => e h.symm
      simp [c, e, e', gfind, GroupStep.map]

end PqModel.HashProbe
