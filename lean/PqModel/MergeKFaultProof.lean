import PqModel.MergeKFault

/-! # C14 — the k-way merge reader over failing sources: the invariant holds along every session

`init_tree_count` / `init_tree_mem`: `playInitialGames` neither invents nor loses a player (a
telescoping count over the closed form `initW` / `initG` of C09's MergeLoser.lean, no tree
reasoning). `init_ok`: `initialize` establishes `KInv`. `loop_ok`: the loop of `ReadRows` keeps it
and answers io.EOF only with `count = 0`. `session_eof`: the statement about whole sessions. -/
namespace PqModel.IoFault.RdK
open PqModel.IoFault.Rd
open PqModel.Merge (playInitialGames playGame initW initG initWin leafVal playGame_cases
  playInitialGames_fst playInitialGames_snd initW_node up_zero_of_le)

/-! ## counting the players of the initial tree -/

def nn1 (x : Int) : Nat := if 0 ≤ x then 1 else 0

def sumTo (f : Nat → Nat) : Nat → Nat
  | 0 => 0
  | n + 1 => sumTo f n + f n

theorem nn_append (a b : List Int) : nn (a ++ b) = nn a + nn b := by simp [nn]

theorem nn_cons (x : Int) (l : List Int) : nn (x :: l) = nn1 x + nn l := by
  simp only [nn, nn1, List.filter_cons]
  split <;> simp_all <;> omega

theorem nn_map_range (g : Nat → Int) : ∀ k, nn ((List.range k).map g) = sumTo (fun i => nn1 (g i)) k
  | 0 => by simp [nn, sumTo]
  | k + 1 => by
    rw [List.range_succ, List.map_append, nn_append, nn_map_range g k]
    simp only [List.map_cons, List.map_nil, nn_cons, sumTo]
    simp [nn]

theorem sumTo_congr {f g : Nat → Nat} : ∀ k, (∀ i, i < k → f i = g i) → sumTo f k = sumTo g k
  | 0, _ => rfl
  | k + 1, h => by
    simp only [sumTo]
    rw [sumTo_congr k (fun i hi => h i (by omega)), h k (by omega)]

theorem sumTo_add (f g : Nat → Nat) : ∀ k, sumTo (fun i => f i + g i) k = sumTo f k + sumTo g k
  | 0 => rfl
  | k + 1 => by simp only [sumTo, sumTo_add f g k]; omega

theorem sumTo_split (f : Nat → Nat) (a : Nat) : ∀ b, sumTo f (a + b) = sumTo f a + sumTo (fun i => f (a + i)) b
  | 0 => by simp [sumTo]
  | b + 1 => by
    rw [← Nat.add_assoc]; simp only [sumTo, sumTo_split f a b]; omega

/-- `Σ_{i<k} (f (2i+1) + f (2i+2)) + f 0 = Σ_{p<2k+1} f p` -/
theorem sumTo_children (f : Nat → Nat) : ∀ k,
    sumTo (fun i => f (2 * i + 1) + f (2 * i + 2)) k + f 0 = sumTo f (2 * k + 1)
  | 0 => by simp [sumTo]
  | k + 1 => by
    have ih := sumTo_children f k
    show sumTo (fun i => f (2 * i + 1) + f (2 * i + 2)) k + (f (2 * k + 1) + f (2 * k + 2)) + f 0
      = sumTo f (2 * k + 1) + f (2 * k + 1) + f (2 * k + 2)
    omega

theorem list_eq_map_range (L : List Int) : L = (List.range L.length).map (fun i => L.getD i (-1)) := by
  apply List.ext_getElem
  · simp
  · intro i h1 h2
    simp [List.getD_eq_getElem?_getD, List.getElem?_eq_getElem h1]

section tree
variable (bufs : List Merge.Buf) (leaves : List Int)

theorem playGame_nn (a b : Int) :
    nn1 (playGame bufs a b).1 + nn1 (playGame bufs a b).2 = nn1 a + nn1 b := by
  rcases playGame_cases bufs a b with ⟨_, e⟩ | ⟨_, _, e⟩ | ⟨_, _, _, e⟩ | ⟨_, _, _, e⟩ <;> rw [e] <;> simp <;> omega

theorem playGame_mem (a b : Int) :
    ((playGame bufs a b).1 = a ∧ (playGame bufs a b).2 = b) ∨
    ((playGame bufs a b).1 = b ∧ (playGame bufs a b).2 = a) := by
  rcases playGame_cases bufs a b with ⟨_, e⟩ | ⟨_, _, e⟩ | ⟨_, _, _, e⟩ | ⟨_, _, _, e⟩ <;> rw [e] <;> simp

theorem initW_ge {p : Nat} (hp : bufs.length ≤ p) : initW bufs leaves p = leafVal bufs leaves p := by
  simp only [initW]
  cases hk : bufs.length with
  | zero => simp [initWin, hk]
  | succ k' => rw [hk] at hp; simp [initWin, hk, hp]

theorem leafVal_lt (hl : leaves.length = bufs.length) {i : Nat} (hi : i < bufs.length) :
    leafVal bufs leaves (bufs.length + i) = leaves.getD i (-1) := by
  simp [leafVal, hl, hi]

theorem leafVal_phantom (hl : leaves.length = bufs.length) :
    leafVal bufs leaves (bufs.length + bufs.length) = -1 := by
  simp [leafVal, hl]

/-- the losers written by `playInitialGames` from the root are the closed form `initG` -/
theorem init_losers (L : List Int) (hL : L.length = bufs.length) :
    (playInitialGames bufs leaves bufs.length 0 L).2 = (List.range bufs.length).map (initG bufs leaves) := by
  obtain ⟨s1, _, s3⟩ := playInitialGames_snd bufs leaves bufs.length 0 L (by omega) hL
  rw [list_eq_map_range (playInitialGames bufs leaves bufs.length 0 L).2, s1]
  apply List.map_congr_left
  intro i hi
  exact s3 i i (List.mem_range.mp hi) (up_zero_of_le i i (Nat.le_refl _))

/-- **`playInitialGames` neither invents nor duplicates a player**: the winner and the stored
losers name as many inputs as the leaves do (whatever the slice `losers` held before). -/
theorem init_tree_count (hl : leaves.length = bufs.length) (L : List Int) (hL : L.length = bufs.length) :
    nn ((playInitialGames bufs leaves bufs.length 0 L).1 :: (playInitialGames bufs leaves bufs.length 0 L).2)
      = nn leaves := by
  rw [nn_cons, playInitialGames_fst, init_losers bufs leaves L hL, nn_map_range]
  change nn1 (initW bufs leaves 0) + _ = _
  let W := fun p => nn1 (initW bufs leaves p)
  have hnode : sumTo (fun i => nn1 (initG bufs leaves i)) bufs.length + sumTo W bufs.length
      = sumTo (fun i => W (2 * i + 1) + W (2 * i + 2)) bufs.length := by
    rw [← sumTo_add]
    apply sumTo_congr
    intro i hi
    show nn1 (initG bufs leaves i) + nn1 (initW bufs leaves i) = _
    rw [initW_node bufs leaves hi]
    exact playGame_nn bufs _ _
  have hch := sumTo_children W bufs.length
  have e : 2 * bufs.length + 1 = bufs.length + (bufs.length + 1) := by omega
  rw [e, sumTo_split W bufs.length (bufs.length + 1)] at hch
  simp only [sumTo] at hch
  have hph : W (bufs.length + bufs.length) = 0 := by
    show nn1 (initW bufs leaves (bufs.length + bufs.length)) = 0
    rw [initW_ge bufs leaves (by omega), leafVal_phantom bufs leaves hl]; rfl
  have hlv : sumTo (fun i => W (bufs.length + i)) bufs.length = nn leaves := by
    conv => rhs; rw [list_eq_map_range leaves, nn_map_range, hl]
    apply sumTo_congr
    intro i hi
    show nn1 (initW bufs leaves (bufs.length + i)) = _
    rw [initW_ge bufs leaves (by omega), leafVal_lt bufs leaves hl hi]
  have hW0 : W 0 = nn1 (initW bufs leaves 0) := rfl
  omega

/-- **`playInitialGames` loses no player**: every input named by a leaf is the winner or a stored loser -/
theorem init_tree_mem (hl : leaves.length = bufs.length) (L : List Int) (hL : L.length = bufs.length)
    (x : Int) (hx : 0 ≤ x) (hmem : x ∈ leaves) :
    x ∈ (playInitialGames bufs leaves bufs.length 0 L).1 :: (playInitialGames bufs leaves bufs.length 0 L).2 := by
  rw [playInitialGames_fst, init_losers bufs leaves L hL]
  change x ∈ initW bufs leaves 0 :: _
  have key : ∀ n p, p ≤ n → initW bufs leaves p = x →
      x ∈ initW bufs leaves 0 :: (List.range bufs.length).map (initG bufs leaves) := by
    intro n
    induction n with
    | zero =>
      intro p hp e
      have : p = 0 := by omega
      subst this; rw [e]; exact List.mem_cons_self
    | succ n ih =>
      intro p hp e
      by_cases h0 : p = 0
      · subst h0; rw [e]; exact List.mem_cons_self
      · by_cases hk : (p - 1) / 2 < bufs.length
        · have hnode := initW_node bufs leaves hk
          have hc : p = 2 * ((p - 1) / 2) + 1 ∨ p = 2 * ((p - 1) / 2) + 2 := by omega
          generalize (p - 1) / 2 = i at hk hnode hc
          have hg : initG bufs leaves i = (playGame bufs (initW bufs leaves (2 * i + 1)) (initW bufs leaves (2 * i + 2))).1 := rfl
          have hin : initG bufs leaves i ∈ (List.range bufs.length).map (initG bufs leaves) :=
            List.mem_map.mpr ⟨i, List.mem_range.mpr hk, rfl⟩
          rcases playGame_mem bufs (initW bufs leaves (2 * i + 1)) (initW bufs leaves (2 * i + 2)) with ⟨e1, e2⟩ | ⟨e1, e2⟩
          · rcases hc with hc | hc
            · -- x = win (2i+1) = loser
              rw [hc] at e; rw [← e, ← e1, ← hg]; exact List.mem_cons_of_mem _ hin
            · rw [hc] at e; exact ih i (by omega) (by rw [hnode, e2, e])
          · rcases hc with hc | hc
            · rw [hc] at e; exact ih i (by omega) (by rw [hnode, e2, e])
            · rw [hc] at e; rw [← e, ← e1, ← hg]; exact List.mem_cons_of_mem _ hin
        · -- a position beyond the phantom leaf holds -1
          exfalso
          have hp2 : bufs.length ≤ p := by omega
          rw [initW_ge bufs leaves hp2] at e
          simp only [leafVal] at e
          split at e
          · omega
          · omega
  obtain ⟨i, hi, rfl⟩ := List.getElem_of_mem hmem
  have hi' : i < bufs.length := by omega
  apply key (bufs.length + i) (bufs.length + i) (Nat.le_refl _)
  rw [initW_ge bufs leaves (by omega), leafVal_lt bufs leaves hl hi']
  simp [List.getD_eq_getElem?_getD, List.getElem?_eq_getElem hi]

end tree

/-! ## `initialize` -/

theorem initReads_ok : ∀ (bufs : List Buf) (i0 : Nat), (∀ b ∈ bufs, b.win = []) →
    (initReads bufs i0).2.1.length = bufs.length ∧
    (∀ j, (initReads bufs i0).2.1.getD j dbuf = (bufs.getD j dbuf).read.2 ∨
          (initReads bufs i0).2.1.getD j dbuf = bufs.getD j dbuf) ∧
    ((initReads bufs i0).1 ≠ .err →
      (initReads bufs i0).2.2.length = bufs.length ∧
      ∀ j, j < bufs.length →
        ((initReads bufs i0).2.2.getD j (-1) = -1 ∧ ((initReads bufs i0).2.1.getD j dbuf).win = [] ∧
          ((initReads bufs i0).2.1.getD j dbuf).src.rows = []) ∨
        (initReads bufs i0).2.2.getD j (-1) = ((i0 + j : Nat) : Int))
  | [], i0, _ => by simp [initReads]
  | b :: bs, i0, hw => by
    have ih := initReads_ok bs (i0 + 1) (fun b' hb' => hw b' (List.mem_cons_of_mem _ hb'))
    have hbw : b.win = [] := hw b List.mem_cons_self
    obtain ⟨ih1, ih2, ih3⟩ := ih
    simp only [initReads]
    split
    · rename_i c' hr
      refine ⟨by simp, ?_, by simp⟩
      intro j
      cases j with
      | zero => left; simp [hr]
      | succ j => right; simp
    · rename_i c' hr
      refine ⟨by simp [ih1], ?_, ?_⟩
      · intro j
        cases j with
        | zero => left; simp [hr]
        | succ j => simpa using ih2 j
      · intro hne
        obtain ⟨l1, l2⟩ := ih3 hne
        refine ⟨by simp [l1], ?_⟩
        intro j hj
        cases j with
        | zero =>
          left
          have he := Buf.read_eof b (by rw [hr])
          rw [hr] at he
          have he1 : c'.win = [] := by have := he.1; simpa [hbw] using this
          have he2 : c'.src.rows = [] := he.2
          simp [he1, he2]
        | succ j =>
          have := l2 j (by simpa using hj)
          simp only [List.getD_cons_succ]
          rcases this with a | a
          · left; exact a
          · right; rw [a]; congr 1; omega
    · rename_i c' hr
      refine ⟨by simp [ih1], ?_, ?_⟩
      · intro j
        cases j with
        | zero => left; simp [hr]
        | succ j => simpa using ih2 j
      · intro hne
        obtain ⟨l1, l2⟩ := ih3 hne
        refine ⟨by simp [l1], ?_⟩
        intro j hj
        cases j with
        | zero => right; simp
        | succ j =>
          have := l2 j (by simpa using hj)
          simp only [List.getD_cons_succ]
          rcases this with a | a
          · left; exact a
          · right; rw [a]; congr 1; omega

theorem getD_fresh (srcs : List Src) (i : Nat) :
    (srcs.map Buf.fresh).getD i dbuf = Buf.fresh (srcs.getD i dsrc) := by
  simp only [List.getD_eq_getElem?_getD, List.getElem?_map]
  cases srcs[i]? <;> rfl

theorem nn_pos_of_mem {l : List Int} {x : Int} (hx : 0 ≤ x) (h : x ∈ l) : 0 < nn l := by
  have : x ∈ l.filter (fun x => decide (0 ≤ x)) := by simp [List.mem_filter, h, hx]
  exact List.length_pos_of_mem this

/-- `initialize` establishes the invariant unless it returns an error -/
theorem init_ok (srcs : List Src) (h : (MK.new srcs).init.1 ≠ .err) :
    KInv (MK.new srcs).init.2 srcs [] ∧ (MK.new srcs).init.2.initialized = true := by
  have hfresh : ∀ b ∈ srcs.map Buf.fresh, b.win = [] := by
    intro b hb; obtain ⟨s, _, rfl⟩ := List.mem_map.mp hb; rfl
  obtain ⟨r1, r2, r3⟩ := initReads_ok (srcs.map Buf.fresh) 0 hfresh
  have hlen : (srcs.map Buf.fresh).length = srcs.length := by simp
  simp only [MK.init, MK.new] at h ⊢
  -- facts that hold for the buffers whatever the branch
  have hrows : ∀ i, i < srcs.length →
      (((initReads (srcs.map Buf.fresh) 0).2.1.getD i dbuf).win ++
        ((initReads (srcs.map Buf.fresh) 0).2.1.getD i dbuf).src.rows) = (srcs.getD i dsrc).rows := by
    intro i _
    rcases r2 i with e | e <;> rw [e, getD_fresh]
    · rw [Buf.read_rows]; rfl
    · rfl
  have hbites : ∀ i, i < srcs.length → (srcs.getD i dsrc).Bites →
      ((initReads (srcs.map Buf.fresh) 0).2.1.getD i dbuf).src.Bites := by
    intro i _ hb
    rcases r2 i with e | e <;> rw [e, getD_fresh]
    · exact Buf.read_bites _ hb
    · exact hb
  by_cases he : (initReads (srcs.map Buf.fresh) 0).1 = .err
  · simp [he] at h
  · obtain ⟨l1, l2⟩ := r3 he
    by_cases hpos : nn (initReads (srcs.map Buf.fresh) 0).2.2 > 0
    · simp only [he, hpos, if_false, if_true]
      refine ⟨⟨by simp [r1], fun i hi => by simpa [projK] using hrows i hi, hbites, ?_, ?_, ?_⟩, trivial⟩
      · intro hc; simp only at hc; omega
      · intro _ i hi hne
        simp only at hne ⊢
        have hmemleaf : ((i : Nat) : Int) ∈ (initReads (srcs.map Buf.fresh) 0).2.2 := by
          rcases l2 i (by rw [hlen]; exact hi) with ⟨_, a, b⟩ | a
          · rcases hne with c | c
            · exact absurd a c
            · exact absurd b c
          · have hi2 : i < (initReads (srcs.map Buf.fresh) 0).2.2.length := by rw [l1, hlen]; exact hi
            have : (initReads (srcs.map Buf.fresh) 0).2.2[i] = ((i : Nat) : Int) := by
              simpa [List.getD_eq_getElem?_getD, List.getElem?_eq_getElem hi2] using a
            rw [← this]; exact List.getElem_mem hi2
        have := init_tree_mem ((initReads (srcs.map Buf.fresh) 0).2.1.map hv) (initReads (srcs.map Buf.fresh) 0).2.2
          (by simp [l1, r1]) (List.replicate ((initReads (srcs.map Buf.fresh) 0).2.1.map hv).length 0) (by simp)
          (i : Int) (by omega) hmemleaf
        simpa [r1] using this
      · intro _
        have := init_tree_count ((initReads (srcs.map Buf.fresh) 0).2.1.map hv) (initReads (srcs.map Buf.fresh) 0).2.2
          (by simp [l1, r1]) (List.replicate ((initReads (srcs.map Buf.fresh) 0).2.1.map hv).length 0) (by simp)
        simp only [List.length_map, r1] at this
        simp only [List.length_map]
        omega
    · simp only [he, hpos, if_false]
      refine ⟨⟨by simp [r1], fun i hi => by simpa [projK] using hrows i hi, hbites, ?_, ?_, ?_⟩, trivial⟩
      · intro _ i hi
        rcases l2 i (by rw [hlen]; exact hi) with ⟨_, a, b⟩ | a
        · exact ⟨a, b⟩
        · exfalso
          have hi2 : i < (initReads (srcs.map Buf.fresh) 0).2.2.length := by rw [l1, hlen]; exact hi
          have : (initReads (srcs.map Buf.fresh) 0).2.2[i] = ((0 + i : Nat) : Int) := by
            simpa [List.getD_eq_getElem?_getD, List.getElem?_eq_getElem hi2] using a
          have := nn_pos_of_mem (x := ((0 + i : Nat) : Int)) (by omega) (this ▸ List.getElem_mem hi2)
          omega
      · intro hc; simp at hc
      · intro hc; simp at hc

/-! ## the loop of `ReadRows` -/

theorem projK_single_same (w : Nat) (x : Int) : projK w [(w, x)] = [x] := by simp [projK]
theorem projK_single_other {i w : Nat} (x : Int) (h : i ≠ w) : projK i [(w, x)] = [] := by
  simp [projK, Ne.symm h]

theorem bsearch_le (w : List Merge.Row) (b : Merge.Row) (mx : Int) : ∀ (f lo hi : Nat),
    Merge.bsearch w b mx f lo hi ≤ hi
  | 0, _, _ => by simp [Merge.bsearch]
  | f + 1, lo, hi => by
    simp only [Merge.bsearch]
    split
    · split
      · exact bsearch_le w b mx f _ hi
      · have := bsearch_le w b mx f lo ((lo + hi) / 2); omega
    · exact Nat.le_refl _

theorem runLength_le (w : List Merge.Row) (b : Merge.Row) (mx : Int) : Merge.runLength w b mx ≤ w.length := by
  simp only [Merge.runLength]
  split
  · omega
  · split
    · omega
    · have := bsearch_le w b mx w.length (Merge.gallop w b mx w.length 0 1).1
        (min (Merge.gallop w b mx w.length 0 1).2 w.length)
      omega

theorem runOf_le (bound : Option Merge.Row) (window : List Int) : runOf bound window ≤ window.length := by
  simp only [runOf]; split
  · have := runLength_le (window.map toRow) ‹_› 0; simpa using this
  · exact Nat.le_refl _

/-- the bulk emission hands out a prefix of the buffered window and touches nothing else -/
theorem runEmit_ok (bound : Option Merge.Row) : ∀ (f m : Nat) (c : Buf),
    (runEmit bound f m c).1 ++ (runEmit bound f m c).2.1.win = c.win ∧ (runEmit bound f m c).2.1.src = c.src
  | 0, _, _ => by simp [runEmit]
  | f + 1, m, c => by
    simp only [runEmit]
    split
    · simp
    · have hle := runOf_le bound (c.win.take m)
      have htt : (c.win.take m).take (runOf bound (c.win.take m)) = c.win.take (runOf bound (c.win.take m)) := by
        rw [List.take_take]; congr 1
        simp only [List.length_take] at hle; omega
      split
      · simp [htt]
      · split
        · simp [htt]
        · have ih := runEmit_ok bound f (m - runOf bound (c.win.take m)) { c with win := c.win.drop (runOf bound (c.win.take m)) }
          refine ⟨?_, ih.2⟩
          rw [List.append_assoc, ih.1, htt]; exact List.take_append_drop _ _

theorem projK_tag_same (w : Nat) (l : List Int) : projK w (tagK w l) = l := by
  induction l with
  | nil => rfl
  | cons x l ih => simp [projK, tagK] at ih ⊢; exact ih

theorem projK_tag_other {i w : Nat} (l : List Int) (h : i ≠ w) : projK i (tagK w l) = [] := by
  induction l with
  | nil => rfl
  | cons x l ih => simp [projK, tagK, Ne.symm h] at ih ⊢

theorem loop_ok (srcs : List Src) : ∀ (f m : Nat) (st : MK) (out : List (Nat × Int)), KInv st srcs out →
    (MK.loop f m st).2.initialized = st.initialized ∧
    (((MK.loop f m st).1.2 = .nil ∨ (MK.loop f m st).1.2 = .eof) →
      KInv (MK.loop f m st).2 srcs (out ++ (MK.loop f m st).1.1)) ∧
    ((MK.loop f m st).1.2 = .eof → (MK.loop f m st).2.count = 0)
  | 0, m, st, out, h => by simp [MK.loop, h]
  | f + 1, m, st, out, h => by
    rw [MK.loop]
    split
    · rename_i hc
      refine ⟨rfl, fun _ => by simpa using h, ?_⟩
      intro he
      simp only at he ⊢
      split at he
      · assumption
      · cases he
    · rename_i hc
      have hcount : st.count ≠ 0 := fun e => hc (Or.inr e)
      split
      · simp
      · rename_i hwin
        have hw0 : st.winner = ((st.winner.toNat : Nat) : Int) := by omega
        have hw : st.winner.toNat < st.bufs.length := by omega
        have hcur : st.cur = st.bufs.getD st.winner.toNat dbuf := rfl
        split
        · -- the winner's buffer is empty: refill
          rename_i hempty
          have hrr := Buf.read_rows st.cur
          have hset : ∀ c', c' = st.cur.read.2 → KInv (st.setBuf c') srcs out := by
            intro c' hc'
            subst hc'
            refine h.setBuf st.winner.toNat hw0 hw _ (by rw [hrr]) (fun _ _ => rfl) (Buf.read_bites _) ?_
              (fun e => absurd e hcount)
            intro hne
            by_cases hs : st.cur.src.rows = []
            · rw [hempty, hs] at hrr
              have h1 : st.cur.read.2.win = [] := (List.append_eq_nil_iff.mp hrr).1
              have h2 : st.cur.read.2.src.rows = [] := (List.append_eq_nil_iff.mp hrr).2
              rcases hne with a | a
              · exact absurd h1 a
              · exact absurd h2 a
            · exact Or.inr hs
          split
          · rename_i c' hr
            have hk := (hset c' (by rw [hr])).replay
            exact loop_ok srcs f m _ out (hk.streak _)
          · rename_i c' hr
            have hk1 := hset c' (by rw [hr])
            have he := Buf.read_eof st.cur (by rw [hr])
            rw [hr] at he
            have hlen' : st.winner.toNat < (st.setBuf c').bufs.length := by simp [MK.setBuf, hw]
            have hdead : ((st.setBuf c').bufs.getD st.winner.toNat dbuf).win = [] ∧
                ((st.setBuf c').bufs.getD st.winner.toNat dbuf).src.rows = [] := by
              have : (st.setBuf c').bufs.getD st.winner.toNat dbuf = c' := by
                simp only [MK.setBuf]; exact getD_set_eq c' hw
              rw [this]; exact ⟨by rw [he.1, hempty], he.2⟩
            have hk2 := (hk1.drop st.winner.toNat hw0 hlen' hcount hdead).replay
            exact loop_ok srcs f m _ out (hk2.streak _)
          · exact ⟨rfl, by simp, by simp⟩
        · -- emit the head of the winner's buffer
          rename_i x w' hwin'
          have hk : KInv (st.setBuf { st.cur with win := w' }) srcs (out ++ [(st.winner.toNat, x)]) := by
            refine h.setBuf st.winner.toNat hw0 hw _ ?_ ?_ id (fun _ => Or.inl (by rw [hwin']; simp))
              (fun e => absurd e hcount)
            · simp [projK_append, projK_single_same, hwin']
            · intro i hi; simp [projK_append, projK_single_other x hi]
          split
          · exact ⟨rfl, fun _ => hk, by simp⟩
          · split
            · -- run mode
              dsimp only
              have he := runEmit_ok (st.setBuf { st.cur with win := w' }).runBound m (m - 1) { st.cur with win := w' }
              generalize runEmit (st.setBuf { st.cur with win := w' }).runBound m (m - 1) { st.cur with win := w' } = e at he ⊢
              obtain ⟨he1, he2⟩ := he
              simp only at he1 he2
              have hk2 : KInv (st.setBuf e.2.1) srcs (out ++ (st.winner.toNat, x) :: tagK st.winner.toNat e.1) := by
                refine h.setBuf st.winner.toNat hw0 hw _ ?_ ?_ (by rw [he2]; exact id)
                  (fun _ => Or.inl (by rw [hwin']; simp)) (fun e => absurd e hcount)
                · have e0 : (st.winner.toNat, x) :: tagK st.winner.toNat e.1 = tagK st.winner.toNat (x :: e.1) := rfl
                  rw [e0, projK_append, projK_tag_same, hwin', ← he1, he2]
                  simp [List.append_assoc]
                · intro i hi
                  have e0 : (st.winner.toNat, x) :: tagK st.winner.toNat e.1 = tagK st.winner.toNat (x :: e.1) := rfl
                  rw [e0, projK_append, projK_tag_other _ hi]; simp
              split
              · exact ⟨rfl, fun _ => hk2, by simp⟩
              · have ih := loop_ok srcs f (m - 1 - e.1.length) _ _ (hk2.streak 0).replay
                refine ⟨ih.1, ?_, ih.2.2⟩
                intro hres
                have := ih.2.1 hres
                simpa [List.append_assoc] using this
            · dsimp only
              have ih := loop_ok srcs f (m - 1) _ _ (hk.replay.streak
                (if (st.setBuf { st.cur with win := w' }).replay.winner = st.winner then st.streak + 1 else 0))
              refine ⟨ih.1, ?_, ih.2.2⟩
              intro hres
              have := ih.2.1 hres
              simpa [List.append_assoc] using this

/-! ## sessions -/

/-- the state of a session: before the first call, or initialised with the invariant -/
def SInv (st : MK) (srcs : List Src) (out : List (Nat × Int)) : Prop :=
  (st = MK.new srcs ∧ out = []) ∨ (st.initialized = true ∧ KInv st srcs out)

theorem readRows_of_init (st : MK) (cap : Nat) (hi : st.initialized = true) :
    st.readRows cap = MK.loop (st.fuel cap) cap st := by simp [MK.readRows, hi]

theorem readRows_first_nil (st : MK) (cap : Nat) (hi : st.initialized = false) (hn : st.init.1 = .nil) :
    st.readRows cap = MK.loop (st.fuel cap) cap st.init.2 := by simp [MK.readRows, hi, hn]

theorem readRows_first_err (st : MK) (cap : Nat) (hi : st.initialized = false) (hn : st.init.1 ≠ .nil) :
    st.readRows cap = (([], .err), st.init.2) := by simp [MK.readRows, hi, hn]

theorem readRows_ok (srcs : List Src) (st : MK) (out : List (Nat × Int)) (cap : Nat) (h : SInv st srcs out)
    (hres : (st.readRows cap).1.2 = .nil ∨ (st.readRows cap).1.2 = .eof) :
    ((st.readRows cap).2.initialized = true ∧ KInv (st.readRows cap).2 srcs (out ++ (st.readRows cap).1.1)) ∧
    ((st.readRows cap).1.2 = .eof → (st.readRows cap).2.count = 0) := by
  rcases h with ⟨hst, hout⟩ | ⟨hi, hk⟩
  · have hni : st.initialized = false := by rw [hst]; rfl
    by_cases hn : st.init.1 = .nil
    · rw [readRows_first_nil st cap hni hn] at hres ⊢
      obtain ⟨hk, hinit⟩ := init_ok srcs (by rw [← hst, hn]; decide)
      rw [← hst] at hk hinit
      have := loop_ok srcs (st.fuel cap) cap _ [] hk
      rw [hout]
      exact ⟨⟨by rw [this.1, hinit], this.2.1 hres⟩, this.2.2⟩
    · rw [readRows_first_err st cap hni hn] at hres
      rcases hres with e | e <;> cases e
  · rw [readRows_of_init st cap hi] at hres ⊢
    have := loop_ok srcs (st.fuel cap) cap st out hk
    exact ⟨⟨by rw [this.1, hi], this.2.1 hres⟩, this.2.2⟩

theorem session_eof (srcs : List Src) (caps : List Nat) : ∀ (st : MK) (out : List (Nat × Int)),
    SInv st srcs out → (session caps st).2.1 = .eof →
    ∀ i, i < srcs.length →
      projK i (out ++ (session caps st).1.flatten) = (srcs.getD i dsrc).rows ∧ ¬ (srcs.getD i dsrc).Bites := by
  induction caps with
  | nil => intro st out _ h; simp [session] at h
  | cons c cs ih =>
    intro st out hinv h
    simp only [session] at h ⊢
    by_cases hn : (st.readRows c).1.2 = .nil
    · simp only [hn, ne_eq, not_true_eq_false, if_false] at h ⊢
      obtain ⟨hinv', _⟩ := readRows_ok srcs st out c hinv (Or.inl hn)
      have := ih _ _ (Or.inr hinv') h
      simpa [List.flatten_cons, List.append_assoc] using this
    · simp only [ne_eq, hn, not_false_eq_true, if_true] at h ⊢
      obtain ⟨⟨_, hk⟩, hc⟩ := readRows_ok srcs st out c hinv (Or.inr h)
      have hc0 := hc h
      intro i hi
      obtain ⟨hw, hs⟩ := hk.done hc0 i hi
      have a := hk.rows i hi
      rw [hw, hs] at a
      simp only [List.flatten_cons, List.flatten_nil, List.append_nil] at a ⊢
      exact ⟨a, fun hb => (hk.bites i hi hb).rows_ne hs⟩

end PqModel.IoFault.RdK
