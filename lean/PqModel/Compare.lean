/-! # C09 — MIRROR of the comparator chain of compare.go used by merges, and the order laws

`compareRowsFuncOf` (compare.go:182) builds, for the sorting columns of a merge, the function
`compare(Row, Row) int`: per column the type's `Compare`, wrapped by `CompareDescending`
(compare.go:14) and by `CompareNullsFirst` / `CompareNullsLast` (compare.go:22, 42), and the rows are
compared column by column, the first non-zero result deciding (compare.go:217-226, 478-503).
`Lawful c`: `c` is a total preorder given as a three-way comparison. All wrappers preserve
lawfulness, so `cmpRows` is lawful; every theorem of C09 is stated for an arbitrary lawful comparator. -/
namespace PqModel.Compare

structure Lawful {α : Type} (c : α → α → Int) : Prop where
  refl : ∀ a, c a a = 0
  flip : ∀ a b, c a b < 0 ↔ 0 < c b a
  trans : ∀ a b d, c a b ≤ 0 → c b d ≤ 0 → c a d ≤ 0

section laws
variable {α : Type} {c : α → α → Int}

theorem Lawful.ge_iff (h : Lawful c) (a b : α) : 0 ≤ c a b ↔ c b a ≤ 0 := by
  have := h.flip a b
  constructor <;> intro h' <;> omega

theorem Lawful.eq_comm (h : Lawful c) (a b : α) : c a b = 0 ↔ c b a = 0 := by
  have h1 := h.flip a b
  have h2 := h.flip b a
  constructor <;> intro h' <;> omega

theorem Lawful.total (h : Lawful c) (a b : α) : c a b ≤ 0 ∨ c b a ≤ 0 := by
  have := h.flip a b
  by_cases h' : c a b ≤ 0
  · exact Or.inl h'
  · exact Or.inr (by have := h.flip b a; omega)

theorem Lawful.lt_of_lt_of_le (h : Lawful c) {a b d : α} (h1 : c a b < 0) (h2 : c b d ≤ 0) : c a d < 0 := by
  by_cases h3 : c a d < 0
  · exact h3
  · have h4 := (h.ge_iff a d).mp (by omega)
    have h5 := h.trans b d a h2 h4
    have := h.flip a b
    omega

theorem Lawful.lt_of_le_of_lt (h : Lawful c) {a b d : α} (h1 : c a b ≤ 0) (h2 : c b d < 0) : c a d < 0 := by
  by_cases h3 : c a d < 0
  · exact h3
  · have h4 := (h.ge_iff a d).mp (by omega)
    have h5 := h.trans d a b h4 h1
    have := h.flip b d
    omega

end laws

/-! ## the wrappers -/

/-- `Type.Compare` of an integer column -/
def cmpInt (a b : Int) : Int := if a < b then -1 else if b < a then 1 else 0

/-- compare.go:14-16 -/
def descending {α : Type} (c : α → α → Int) : α → α → Int := fun a b => - c a b

/-- compare.go:22-37 (`none` = null) -/
def nullsFirst {α : Type} (c : α → α → Int) : Option α → Option α → Int
  | none, none => 0
  | none, some _ => -1
  | some _, none => 1
  | some a, some b => c a b

/-- compare.go:42-57 -/
def nullsLast {α : Type} (c : α → α → Int) : Option α → Option α → Int
  | none, none => 0
  | none, some _ => 1
  | some _, none => -1
  | some a, some b => c a b

/-- a comparator on a column applied to rows -/
def onCol {ρ α : Type} (get : ρ → α) (c : α → α → Int) : ρ → ρ → Int := fun a b => c (get a) (get b)

/-- compare.go:217-226 / 478-503: the first non-zero column comparison decides -/
def cmpLex {ρ : Type} : List (ρ → ρ → Int) → ρ → ρ → Int
  | [], _, _ => 0
  | c :: cs, a, b => if c a b ≠ 0 then c a b else cmpLex cs a b

theorem cmpInt_lawful : Lawful cmpInt := by
  refine ⟨?_, ?_, ?_⟩
  · intro a; simp [cmpInt]
  · intro a b; unfold cmpInt; split <;> split <;> (try split) <;> omega
  · intro a b d; unfold cmpInt
    intro h1 h2
    split at h1 <;> split at h2 <;> (try split at h1) <;> (try split at h2) <;> split <;> (try split) <;> omega

theorem descending_lawful {α : Type} {c : α → α → Int} (h : Lawful c) : Lawful (descending c) := by
  refine ⟨fun a => by simp [descending, h.refl], ?_, ?_⟩
  · intro a b
    simp only [descending]
    have := h.flip b a
    omega
  · intro a b d h1 h2
    simp only [descending] at *
    have := h.trans d b a ((h.ge_iff b d).mp (by omega)) ((h.ge_iff a b).mp (by omega))
    have := (h.ge_iff a d).mpr this
    omega

theorem nullsFirst_lawful {α : Type} {c : α → α → Int} (h : Lawful c) : Lawful (nullsFirst c) := by
  refine ⟨?_, ?_, ?_⟩
  · intro a; cases a <;> simp [nullsFirst, h.refl]
  · intro a b; cases a <;> cases b <;> simp [nullsFirst]; exact h.flip _ _
  · intro a b d; cases a <;> cases b <;> cases d <;> simp [nullsFirst]; exact h.trans _ _ _

theorem nullsLast_lawful {α : Type} {c : α → α → Int} (h : Lawful c) : Lawful (nullsLast c) := by
  refine ⟨?_, ?_, ?_⟩
  · intro a; cases a <;> simp [nullsLast, h.refl]
  · intro a b; cases a <;> cases b <;> simp [nullsLast]; exact h.flip _ _
  · intro a b d; cases a <;> cases b <;> cases d <;> simp [nullsLast]; exact h.trans _ _ _

theorem onCol_lawful {ρ α : Type} (get : ρ → α) {c : α → α → Int} (h : Lawful c) : Lawful (onCol get c) :=
  ⟨fun a => h.refl _, fun a b => h.flip _ _, fun a b d => h.trans _ _ _⟩

theorem cmpLex_le {ρ : Type} (c : ρ → ρ → Int) (cs : List (ρ → ρ → Int)) (a b : ρ) :
    cmpLex (c :: cs) a b ≤ 0 ↔ c a b < 0 ∨ (c a b = 0 ∧ cmpLex cs a b ≤ 0) := by
  simp only [cmpLex]; split <;> omega

theorem cmpLex_lt {ρ : Type} (c : ρ → ρ → Int) (cs : List (ρ → ρ → Int)) (a b : ρ) :
    cmpLex (c :: cs) a b < 0 ↔ c a b < 0 ∨ (c a b = 0 ∧ cmpLex cs a b < 0) := by
  simp only [cmpLex]; split <;> omega

theorem cmpLex_gt {ρ : Type} (c : ρ → ρ → Int) (cs : List (ρ → ρ → Int)) (a b : ρ) :
    0 < cmpLex (c :: cs) a b ↔ 0 < c a b ∨ (c a b = 0 ∧ 0 < cmpLex cs a b) := by
  simp only [cmpLex]; split <;> omega

/-- the lexicographic combination of lawful comparators is lawful -/
theorem cmpLex_lawful {ρ : Type} : ∀ (cs : List (ρ → ρ → Int)), (∀ c ∈ cs, Lawful c) → Lawful (cmpLex cs)
  | [], _ => ⟨fun _ => rfl, fun _ _ => by simp [cmpLex], fun _ _ _ _ _ => by simp [cmpLex]⟩
  | c :: cs, h => by
    have hc : Lawful c := h c (by simp)
    have ih : Lawful (cmpLex cs) := cmpLex_lawful cs (fun c' hc' => h c' (by simp [hc']))
    refine ⟨?_, ?_, ?_⟩
    · intro a; simp [cmpLex, hc.refl, ih.refl]
    · intro a b
      rw [cmpLex_lt, cmpLex_gt]
      have h1 := hc.flip a b
      have h2 := hc.eq_comm a b
      have h3 := ih.flip a b
      constructor
      · rintro (h' | ⟨h', h''⟩)
        · exact Or.inl (h1.mp h')
        · exact Or.inr ⟨h2.mp h', h3.mp h''⟩
      · rintro (h' | ⟨h', h''⟩)
        · exact Or.inl (h1.mpr h')
        · exact Or.inr ⟨h2.mpr h', h3.mpr h''⟩
    · intro a b d
      rw [cmpLex_le, cmpLex_le, cmpLex_le]
      rintro (h1 | ⟨h1, h1'⟩) (h2 | ⟨h2, h2'⟩)
      · exact Or.inl (hc.lt_of_lt_of_le h1 (by omega))
      · exact Or.inl (hc.lt_of_lt_of_le h1 (by omega))
      · exact Or.inl (hc.lt_of_le_of_lt (by omega) h2)
      · refine Or.inr ⟨?_, ih.trans a b d h1' h2'⟩
        have e1 := hc.trans a b d (by omega) (by omega)
        have e2 := hc.trans d b a (by have := (hc.eq_comm b d).mp h2; omega) (by have := (hc.eq_comm a b).mp h1; omega)
        have := (hc.ge_iff a d).mpr e2
        omega

/-! ## the comparator of a merge over nullable integer key columns -/

structure ColSpec where
  desc : Bool
  nullsFirst : Bool
deriving DecidableEq

/-- compare.go:429-447: `Compare`, then `CompareDescending`, then the null wrapper -/
def colCmp (s : ColSpec) : Option Int → Option Int → Int :=
  let base := if s.desc then descending cmpInt else cmpInt
  if s.nullsFirst then nullsFirst base else nullsLast base

theorem colCmp_lawful (s : ColSpec) : Lawful (colCmp s) := by
  unfold colCmp
  have hb : Lawful (if s.desc then descending cmpInt else cmpInt) := by
    split
    · exact descending_lawful cmpInt_lawful
    · exact cmpInt_lawful
  simp only
  split
  · exact nullsFirst_lawful hb
  · exact nullsLast_lawful hb

abbrev KeyRow := List (Option Int)

def colComparators : List ColSpec → Nat → List (KeyRow → KeyRow → Int)
  | [], _ => []
  | s :: ss, i => onCol (fun r : KeyRow => r.getD i none) (colCmp s) :: colComparators ss (i + 1)

/-- `compareRowsFuncOf(schema, sortingColumns)` on the key columns of a row -/
def cmpRows (specs : List ColSpec) : KeyRow → KeyRow → Int := cmpLex (colComparators specs 0)

theorem colComparators_lawful : ∀ (specs : List ColSpec) (i : Nat), ∀ c ∈ colComparators specs i, Lawful c
  | [], _, c, hc => by simp [colComparators] at hc
  | s :: ss, i, c, hc => by
    simp only [colComparators, List.mem_cons] at hc
    rcases hc with rfl | hc
    · exact onCol_lawful _ (colCmp_lawful s)
    · exact colComparators_lawful ss (i + 1) c hc

/-- the comparator chain of compare.go is a total preorder, whatever the directions and null orders -/
theorem cmpRows_lawful (specs : List ColSpec) : Lawful (cmpRows specs) :=
  cmpLex_lawful _ (colComparators_lawful specs 0)

/-! ## the per-type arms of the positional row comparator

`compareRowsFuncOfIndexAscending` / `compareRowsFuncOfIndexDescending` (compare.go:229-395) have one
arm per physical / logical type and direction. An arm decides two things: how it reads the bits of the
key (`int32()` or `uint32()`, `int64()` or `uint64()`) and whether it negates the result. The mirror
below is the 32-bit arm with both decisions as parameters (the 64-bit arms are the same with 64). The
spec side is the sort order the format defines for the logical type (LogicalTypes.md: signed for
INT_8..INT_64, DATE, TIME, TIMESTAMP and DECIMAL, unsigned for UINT_8..UINT_64) on the numbers the
bits denote. -/

/-- mirror: one arm, `signed` = the accessor it reads the key with, `negate` = the leading minus -/
def armCmp32 (signed negate : Bool) (a b : BitVec 32) : Int :=
  let c := if signed then cmpInt a.toInt b.toInt else cmpInt (a.toNat : Int) (b.toNat : Int)
  if negate then - c else c

/-- spec: the number a 32-bit key denotes under its logical type -/
def denote32 (unsignedType : Bool) (a : BitVec 32) : Int := if unsignedType then (a.toNat : Int) else a.toInt

/-- the arms of compare.go as written: accessor by signedness of the type, minus sign in the descending twin -/
theorem armCmp32_is_declared_order (unsignedType desc : Bool) (a b : BitVec 32) :
    armCmp32 (!unsignedType) desc a b =
      (if desc then descending cmpInt else cmpInt) (denote32 unsignedType a) (denote32 unsignedType b) := by
  cases unsignedType <;> cases desc <;> simp [armCmp32, denote32, descending]

/-- an arm that reads a signed type (DATE) with the unsigned accessor puts every negative key after
    every non-negative one -/
theorem arm_read_unsigned_misorders_negative_keys :
    armCmp32 false false (BitVec.ofInt 32 (-1)) (BitVec.ofInt 32 1) = 1 ∧
    cmpInt (denote32 false (BitVec.ofInt 32 (-1))) (denote32 false (BitVec.ofInt 32 1)) = -1 := by decide

/-- a descending arm without its minus sign is the ascending arm -/
theorem descending_arm_without_negation_is_ascending (signed : Bool) (a b : BitVec 32) :
    armCmp32 signed false a b = - armCmp32 signed true a b := by
  simp [armCmp32]

theorem descending_arm_without_negation_misorders :
    armCmp32 true false (BitVec.ofInt 32 1) (BitVec.ofInt 32 2) = -1 ∧
    descending cmpInt (denote32 false (BitVec.ofInt 32 1)) (denote32 false (BitVec.ofInt 32 2)) = 1 := by decide


/-! ## ranks: a lawful comparator on a finite list is the order of integer ranks -/

def rankIn {α : Type} (c : α → α → Int) (L : List α) (x : α) : Nat := L.countP (fun y => decide (c y x < 0))

theorem countP_lt_of {α : Type} {p q : α → Bool} : ∀ (L : List α), (∀ y ∈ L, p y = true → q y = true) →
    (∃ y ∈ L, q y = true ∧ p y = false) → L.countP p < L.countP q
  | [], _, h => by obtain ⟨y, hy, _⟩ := h; simp at hy
  | a :: t, hpq, hex => by
    have hmono : t.countP p ≤ t.countP q :=
      List.countP_mono_left (fun y hy hp => hpq y (by simp [hy]) hp)
    obtain ⟨y, hy, hq, hp⟩ := hex
    rcases List.mem_cons.mp hy with rfl | hy'
    · simp only [List.countP_cons, hq, hp]; simp; omega
    · have ih := countP_lt_of t (fun y hy hp => hpq y (by simp [hy]) hp) ⟨y, hy', hq, hp⟩
      simp only [List.countP_cons]
      have := hpq a (by simp)
      cases hpa : p a <;> cases hqa : q a <;> simp_all <;> omega

section rank
variable {α : Type} {c : α → α → Int}

theorem rank_le (h : Lawful c) (L : List α) {a b : α} (hab : c a b ≤ 0) : rankIn c L a ≤ rankIn c L b := by
  apply List.countP_mono_left
  intro y _ hy
  simp only [decide_eq_true_eq] at hy ⊢
  exact h.lt_of_lt_of_le hy hab

theorem rank_lt (h : Lawful c) {L : List α} {a b : α} (ha : a ∈ L) (hab : c a b < 0) :
    rankIn c L a < rankIn c L b := by
  apply countP_lt_of
  · intro y _ hy
    simp only [decide_eq_true_eq] at hy ⊢
    exact h.lt_of_lt_of_le hy (by omega)
  · exact ⟨a, ha, by simpa using hab, by simp [h.refl]⟩

/-- on the members of `L` the comparator is the order of the ranks -/
theorem rank_sign (h : Lawful c) {L : List α} {a b : α} (ha : a ∈ L) (hb : b ∈ L) :
    (c a b < 0 ↔ rankIn c L a < rankIn c L b) ∧ (c a b = 0 ↔ rankIn c L a = rankIn c L b) ∧
    (0 < c a b ↔ rankIn c L b < rankIn c L a) := by
  have h1 : c a b < 0 → rankIn c L a < rankIn c L b := rank_lt h ha
  have h2 : 0 < c a b → rankIn c L b < rankIn c L a := fun hh => rank_lt h hb ((h.flip b a).mpr hh)
  have h3 : c a b = 0 → rankIn c L a = rankIn c L b := fun hh =>
    Nat.le_antisymm (rank_le h L (by omega)) (rank_le h L (by have := (h.eq_comm a b).mp hh; omega))
  refine ⟨⟨h1, ?_⟩, ⟨h3, ?_⟩, ⟨h2, ?_⟩⟩
  · intro hr
    rcases Int.lt_trichotomy (c a b) 0 with hh | hh | hh
    · exact hh
    · have := h3 hh; omega
    · have := h2 hh; omega
  · intro hr
    rcases Int.lt_trichotomy (c a b) 0 with hh | hh | hh
    · have := h1 hh; omega
    · exact hh
    · have := h2 hh; omega
  · intro hr
    rcases Int.lt_trichotomy (c a b) 0 with hh | hh | hh
    · have := h1 hh; omega
    · have := h3 hh; omega
    · exact hh

end rank

end PqModel.Compare
