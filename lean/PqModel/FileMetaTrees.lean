import PqModel.ThriftWriteProofs

/-! # Key-value metadata, created_by and sorting columns of the footer (C02)

MIRROR side: the typed trees the thrift encoder is handed for `format.KeyValue`,
`format.SortingColumn` (format/parquet.go:956-972), and for the fields of `format.FileMetaData`
(parquet.go:1388-1435) and `format.RowGroup` (parquet.go:1119-1143) with their tag options.
SPEC side: the typed views `kvsOf`, `createdByOf`, `sortingOf` of the untyped tree, written from
parquet.thrift (`KeyValue {1: required string key, 2: optional string value}`,
`FileMetaData.key_value_metadata = 5`, `created_by = 6`, `RowGroup.sorting_columns = 4`,
`SortingColumn {1: required i32 column_idx, 2: required bool descending, 3: required bool
nulls_first}`). These views are what `file.meta` prints for every generated file. -/
namespace PqModel.FileMetaTrees
open PqModel.Spec PqModel.ThriftWrite

/-! ## spec views -/

/-- SPEC `KeyValue`: the key is required, the value optional -/
def kvOf (t : TVal) : Option (ByteArray × Option ByteArray) :=
  match t.field? 1 with
  | some (.bin k) => some (k, match t.field? 2 with | some (.bin v) => some v | _ => none)
  | _ => none

/-- SPEC `FileMetaData.key_value_metadata` (absent = no pairs); `none` entry = a pair without key -/
def kvsOf (md : TVal) : List (Option (ByteArray × Option ByteArray)) := (TVal.listD (md.field? 5)).map kvOf

/-- SPEC `FileMetaData.created_by` -/
def createdByOf (md : TVal) : Option ByteArray :=
  match md.field? 6 with
  | some (.bin b) => some b
  | _ => none

/-- SPEC `SortingColumn`: all three fields are required -/
def sortOf (t : TVal) : Option (Int × Bool × Bool) :=
  match t.field? 1, t.field? 2, t.field? 3 with
  | some (.int i), some (.bool d), some (.bool n) => some (i, d, n)
  | _, _, _ => none

/-- SPEC `RowGroup.sorting_columns` (absent = none declared) -/
def sortingOf (rg : TVal) : List (Option (Int × Bool × Bool)) := (TVal.listD (rg.field? 4)).map sortOf

/-! ## mirror trees -/

/-- MIRROR `format.KeyValue{Key, Value}`: both tagged `required`, so an empty value is written -/
def kvTree (kv : List UInt8 × List UInt8) : WVal :=
  .struct [({ id := 1, required := true }, .bin kv.1), ({ id := 2, required := true }, .bin kv.2)]

/-- MIRROR `format.SortingColumn{ColumnIdx, Descending, NullsFirst}`, all `required` -/
def sortTree (sc : Int × Bool × Bool) : WVal :=
  .struct [({ id := 1, required := true }, .i32 sc.1), ({ id := 2, required := true }, .bool sc.2.1),
           ({ id := 3, required := true }, .bool sc.2.2)]

/-- MIRROR the fields of `format.FileMetaData` the unencrypted writer fills (`writeFileFooter`,
    writer.go:1425-1433). `kvZero`: reflect's `IsZero` of the `thrift.Slice` (an input; a zero slice
    is empty — hypothesis of the theorem); a string is zero iff it is empty. -/
def footerFields (version : Int) (schema : List WVal) (numRows : Int) (rowGroups : List WVal)
    (kvs : List (List UInt8 × List UInt8)) (kvZero : Bool) (createdBy : List UInt8)
    (orders : List WVal) (ordersZero : Bool) : List (FMeta × WVal) :=
  [ ({ id := 1, required := true }, .i32 version),
    ({ id := 2, required := true }, .list 12 schema),
    ({ id := 3, required := true }, .i64 numRows),
    ({ id := 4, required := true }, .list 12 rowGroups),
    ({ id := 5, zero := kvZero }, .list 12 (kvs.map kvTree)),
    ({ id := 6, zero := createdBy.isEmpty }, .bin createdBy),
    ({ id := 7, zero := ordersZero }, .list 12 orders) ]

/-- MIRROR the fields of `format.RowGroup` (`writeRowGroup`, writer.go:1868-1879); `Ordinal` is
    `optional,writezero` -/
def rowGroupFields (columns : List WVal) (totalByteSize numRows : Int)
    (scs : List (Int × Bool × Bool)) (scZero : Bool) (fileOffset totalCompressed ordinal : Int) : List (FMeta × WVal) :=
  [ ({ id := 1, required := true }, .list 12 columns),
    ({ id := 2, required := true }, .i64 totalByteSize),
    ({ id := 3, required := true }, .i64 numRows),
    ({ id := 4, zero := scZero }, .list 12 (scs.map sortTree)),
    ({ id := 5, zero := fileOffset == 0 }, .i64 fileOffset),
    ({ id := 6, zero := totalCompressed == 0 }, .i64 totalCompressed),
    ({ id := 7, writezero := true, zero := ordinal == 0 }, .i16 ordinal) ]

/-! ## the views of the erased trees -/

theorem kvOf_kvTree (kv : List UInt8 × List UInt8) :
    kvOf (erase (kvTree kv)) = some (⟨kv.1.toArray⟩, some ⟨kv.2.toArray⟩) := by
  simp [kvTree, erase, eraseF, FMeta.omitted, kvOf, TVal.field?]

theorem kvs_erase (kvs : List (List UInt8 × List UInt8)) :
    (eraseL (kvs.map kvTree)).map kvOf = kvs.map fun kv => some (⟨kv.1.toArray⟩, some ⟨kv.2.toArray⟩) := by
  induction kvs with
  | nil => simp [eraseL]
  | cons kv kvs ih => simp only [List.map_cons, eraseL, ih, kvOf_kvTree]

theorem sortOf_sortTree (sc : Int × Bool × Bool) : sortOf (erase (sortTree sc)) = some sc := by
  simp [sortTree, erase, eraseF, FMeta.omitted, sortOf, TVal.field?]

theorem sorting_erase (scs : List (Int × Bool × Bool)) :
    (eraseL (scs.map sortTree)).map sortOf = scs.map some := by
  induction scs with
  | nil => simp [eraseL]
  | cons sc scs ih => simp only [List.map_cons, eraseL, ih, sortOf_sortTree]

theorem kvsOf_footer (version : Int) (schema : List WVal) (numRows : Int) (rowGroups : List WVal)
    (kvs : List (List UInt8 × List UInt8)) (kvZero : Bool) (createdBy : List UInt8)
    (orders : List WVal) (ordersZero : Bool) (hz : kvZero = true → kvs = []) :
    kvsOf (.struct (eraseF (footerFields version schema numRows rowGroups kvs kvZero createdBy orders ordersZero))) =
      kvs.map fun kv => some (⟨kv.1.toArray⟩, some ⟨kv.2.toArray⟩) := by
  cases kvZero with
  | true =>
    have := hz rfl
    subst this
    cases hc : createdBy.isEmpty <;> cases ordersZero <;>
      simp [footerFields, eraseF, FMeta.omitted, kvsOf, TVal.field?, TVal.listD, hc]
  | false =>
    have := kvs_erase kvs
    cases hc : createdBy.isEmpty <;> cases ordersZero <;>
      simp [footerFields, eraseF, erase, FMeta.omitted, kvsOf, TVal.field?, TVal.listD, hc, this]

theorem createdByOf_footer (version : Int) (schema : List WVal) (numRows : Int) (rowGroups : List WVal)
    (kvs : List (List UInt8 × List UInt8)) (kvZero : Bool) (createdBy : List UInt8)
    (orders : List WVal) (ordersZero : Bool) :
    createdByOf (.struct (eraseF (footerFields version schema numRows rowGroups kvs kvZero createdBy orders ordersZero))) =
      if createdBy.isEmpty then none else some ⟨createdBy.toArray⟩ := by
  cases kvZero <;> cases hc : createdBy.isEmpty <;> cases ordersZero <;>
    simp [footerFields, eraseF, erase, FMeta.omitted, createdByOf, TVal.field?, hc]

theorem sortingOf_rowGroup (columns : List WVal) (totalByteSize numRows : Int)
    (scs : List (Int × Bool × Bool)) (scZero : Bool) (fileOffset totalCompressed ordinal : Int)
    (hz : scZero = true → scs = []) :
    sortingOf (.struct (eraseF (rowGroupFields columns totalByteSize numRows scs scZero fileOffset totalCompressed ordinal))) =
      scs.map some := by
  cases scZero with
  | true =>
    have := hz rfl
    subst this
    cases hf : (fileOffset == 0) <;> cases ht : (totalCompressed == 0) <;>
      simp [rowGroupFields, eraseF, FMeta.omitted, sortingOf, TVal.field?, TVal.listD, hf, ht]
  | false =>
    have := sorting_erase scs
    cases hf : (fileOffset == 0) <;> cases ht : (totalCompressed == 0) <;>
      simp [rowGroupFields, eraseF, erase, FMeta.omitted, sortingOf, TVal.field?, TVal.listD, hf, ht, this]

end PqModel.FileMetaTrees
