namespace PqModel.Trunc

/-! Spike: column-index truncation of byte-array bounds (column_index.go:684-713). -/

/-- unsigned lexicographic ≤ on byte strings -/
def lexLe : List Nat → List Nat → Bool
  | [], _ => true
  | _ :: _, [] => false
  | a :: as, b :: bs => if a < b then true else if a = b then lexLe as bs else false

theorem lexLe_refl : ∀ v, lexLe v v = true
  | [] => rfl
  | a :: as => by simp [lexLe, lexLe_refl as]

theorem lexLe_take : ∀ (v : List Nat) (n : Nat), lexLe (v.take n) v = true
  | [], n => by simp [lexLe]
  | a :: as, 0 => by simp [lexLe]
  | a :: as, n + 1 => by simp [lexLe, lexLe_take as n]

def truncMin (v : List Nat) (n : Nat) : List Nat := if v.length > n then v.take n else v

theorem truncMin_le (v : List Nat) (n : Nat) : lexLe (truncMin v n) v = true := by
  unfold truncMin; split
  · exact lexLe_take v n
  · exact lexLe_refl v

/-- incrementByteArrayInplace working from the last byte; returns (result, carryOut) -/
def incr : List Nat → List Nat × Bool
  | [] => ([], true)
  | a :: as =>
    match incr as with
    | (as', true) => if a = 255 then (0 :: as', true) else ((a + 1) :: as', false)
    | (as', false) => (a :: as', false)

/-- the code as it stands: on full overflow restore all bytes to 0xFF -/
def truncMaxBuggy (v : List Nat) (n : Nat) : List Nat :=
  if v.length > n then
    match incr (v.take n) with
    | (r, false) => r
    | (r, true) => r.map (fun _ => 255)
  else v

/-- repaired: on full overflow keep the untruncated value -/
def truncMaxFixed (v : List Nat) (n : Nat) : List Nat :=
  if v.length > n then
    match incr (v.take n) with
    | (r, false) => r
    | (_, true) => v
  else v

-- F2: the recorded max is below the value
example : lexLe [255,255,255,255,255,255] (truncMaxBuggy [255,255,255,255,255,255] 4) = false := by decide

theorem incr_length : ∀ p, (incr p).1.length = p.length
  | [] => rfl
  | a :: as => by
    have ih := incr_length as
    simp only [incr]
    split
    · rename_i as' h; rw [h] at ih; split <;> simp_all
    · rename_i as' h; rw [h] at ih; simp_all

/-- if the increment does not overflow, the result is strictly above every extension of the prefix -/
theorem incr_gt : ∀ (p ext : List Nat), (∀ b ∈ p, b ≤ 255) → (incr p).2 = false →
    lexLe (p ++ ext) (incr p).1 = true
  | [], ext, _, h => by simp [incr] at h
  | a :: as, ext, hb, h => by
    have ha : a ≤ 255 := hb a (by simp)
    have hbs : ∀ b ∈ as, b ≤ 255 := fun b hb' => hb b (by simp [hb'])
    cases hc : incr as with
    | mk as' c =>
      cases c with
      | true =>
        by_cases h255 : a = 255
        · simp [incr, hc, h255] at h
        · have : a + 1 ≤ 255 ∨ True := Or.inr trivial
          simp [incr, hc, h255, lexLe]
      | false =>
        have ih := incr_gt as ext hbs (by simp [hc])
        simp only [hc] at ih
        simp [incr, hc, lexLe, ih]

/-- C05: the repaired truncated max is an upper bound of the value, for every value and limit. -/
theorem truncMaxFixed_ge (v : List Nat) (n : Nat) (hb : ∀ b ∈ v, b ≤ 255) :
    lexLe v (truncMaxFixed v n) = true := by
  unfold truncMaxFixed
  split
  · split
    · rename_i r hc
      have := incr_gt (v.take n) (v.drop n) (fun b hb' => hb b (List.mem_of_mem_take hb')) (by simp [hc])
      simpa [hc, List.take_append_drop] using this
    · exact lexLe_refl v
  · exact lexLe_refl v

#print axioms truncMaxFixed_ge

end PqModel.Trunc
