import PqModel.ResetHist

/-! # C17 — `Reset.lean`'s histogram fields are the live parts of `ResetHist`'s state

`Reset.ColVol` carries `levelHist` (the repetition histogram followed by the definition histogram, as
the hook `VerifWriterObservation` prints them), `pageLevelHists` and `totalUnencoded` as plain lists /
numbers. `ResetHist.ColStats` refines them (one `LevelHist` per level kind, slices with their spare
capacity). `Refines` relates the two; the column resets of both models preserve it, so the fresh-writer
observation that `reset_equiv` (Props/C17) establishes for these fields is the `Clean` state from which
`stats_after_reset` (Props/C17Hist) computes the bytes. -/

namespace PqModel.ResetHist
open PqModel.Reset

def optCol : Option LevelHist → List Nat
  | none => []
  | some h => h.col

def optLive : Option LevelHist → List Nat
  | none => []
  | some h => h.pages.live

/-- the abstraction relation: what `Reset.ColVol` records of a `ColStats` -/
def Refines (v : ColVol) (s : ColStats) : Prop :=
  v.levelHist = optCol s.rep ++ optCol s.dfn ∧
  v.pageLevelHists = optLive s.rep ++ optLive s.dfn ∧
  v.totalUnencoded = s.unencoded

theorem optCol_reset (o : Option LevelHist) : optCol (o.map LevelHist.reset) = (optCol o).map (fun _ => 0) := by
  cases o <;> rfl

theorem optLive_reset (o : Option LevelHist) : optLive (o.map LevelHist.reset) = [] := by
  cases o <;> rfl

/-- both column resets (before and after the F24/F26 repairs) act on the histogram fields exactly as
`ResetHist`'s reset does on the refined state -/
theorem refines_reset (clr : Bool) (c : Col) (s : ColStats) (h : Refines c.vol s) :
    Refines (colResetFixed c).vol (step clr s .reset) ∧ Refines (colResetAsIs c).vol (step clr s .reset) := by
  obtain ⟨h1, _, _⟩ := h
  have key : Refines (colResetAsIs c).vol (step clr s .reset) := by
    refine ⟨?_, ?_, rfl⟩
    · simp only [colResetAsIs, step, optCol_reset, h1, List.map_append]
    · simp only [colResetAsIs, step, optLive_reset, List.append_nil]
  exact ⟨key, key⟩

/-- a fresh `Reset` column refines a fresh `ResetHist` state when the histogram length is the two
kinds' lengths together (`VerifColumnConfig` reports `len(rep) + len(def)` as `histLen`) -/
theorem refines_fresh (st : ColStable) (maxRep maxDef : Nat)
    (hl : st.histLen = (if maxRep = 0 then 0 else maxRep + 1) + (if maxDef = 0 then 0 else maxDef + 1)) :
    Refines (ColVol.fresh st) (ColStats.fresh maxRep maxDef) := by
  refine ⟨?_, ?_, rfl⟩
  · simp only [ColVol.fresh, ColStats.fresh, hl]
    by_cases h1 : maxRep = 0 <;> by_cases h2 : maxDef = 0 <;>
      simp [h1, h2, optCol, LevelHist.fresh, List.replicate_append_replicate]
  · simp only [ColVol.fresh, ColStats.fresh]
    by_cases h1 : maxRep = 0 <;> by_cases h2 : maxDef = 0 <;>
      simp [h1, h2, optLive, LevelHist.fresh, CapSlice.empty]

end PqModel.ResetHist
