import PqModel.SeekLayers

/-! # `rowGroupRows` over per-column page readers (C08)

Refinement step above `SeekLayers`: a row reader holds one value reader per leaf column
(`columnChunkValueReader`, column_chunk.go), each over its own `Pages` machine — the columns of a
row group have different page layouts, and for a `Reader` over several row groups every column is a
`multiPages` — and remembers in `rowIndex` the row they all stand on (row_group.go).

* MIRROR: `Col.seek`, `colRead` (ReadValues counted in rows: the held page is consumed, the next
  page is fetched when it is used up), `seekAll`, `readAll`, `resetAll`, `rstep`.
* SPEC: `RSpec` — the reference row reader.

Granularity: rows. What a row is inside a page of a repeated column (`repetitionLevel = 0` starts
one) is `SliceRepeated.lean`; the value-level inner loop of `ReadRows` (`numValuesInRow` across
buffer refills) is not modelled. -/
namespace PqModel.ReaderSeek
open PqModel.Seek (Op)
open PqModel.SeekLayers

universe u

/-- `columnChunkValueReader`: a pages reader and the page it holds (`buf` rows of it are left) -/
structure Col where
  m : Machine.{u}
  s : m.σ
  buf : Nat

namespace Col

/-- abstraction: the row this column stands on (positions at or beyond the end coincide) -/
def npos (c : Col.{u}) : Option Nat := (c.m.pos c.s).map (fun p => min (p - c.buf) c.m.total)

def Inv (c : Col.{u}) : Prop :=
  c.m.inv c.s ∧ (c.buf = 0 ∨ ∃ p, c.m.pos c.s = some p ∧ c.buf ≤ p ∧ p ≤ c.m.total)

def seekK (c : Col.{u}) (s1 : c.m.σ) : ROut → Col.{u} × ROut
  | .ok => ({ m := c.m, s := s1, buf := 0 }, .ok)
  | o => ({ m := c.m, s := s1, buf := c.buf }, o)

/-- MIRROR of `columnChunkValueReader.SeekToRow` (column_chunk.go:152-161): seek the pages, drop
    the held page -/
def seek (c : Col.{u}) (k : Nat) : Col.{u} × ROut :=
  seekK c (c.m.step c.s (.seek k)).1 (c.m.step c.s (.seek k)).2

theorem seek_spec (c : Col.{u}) (k : Nat) (h : c.Inv) (hk : k ≤ c.m.total) :
    (c.seek k).2 = .ok ∧ (c.seek k).1.m = c.m ∧ (c.seek k).1.Inv ∧ (c.seek k).1.npos = some (min k c.m.total) := by
  have hspec := c.m.step_spec c.s (.seek k) h.1
  have hinv := c.m.step_inv c.s (.seek k) h.1
  unfold seek
  generalize c.m.step c.s (.seek k) = x at hspec hinv
  obtain ⟨s1, o⟩ := x
  rcases hspec with ⟨ho, k', hp, hsame⟩ | ⟨_, _, hbad⟩
  · simp only [] at ho hp hinv
    subst ho
    simp only [seekK]
    refine ⟨trivial, trivial, ⟨hinv, Or.inl rfl⟩, ?_⟩
    simp only [npos, hp, Option.map_some, Nat.sub_zero]
    rcases hsame with rfl | ⟨a, b⟩
    · rfl
    · congr 1; omega
  · omega

end Col

/-- what `ReadValues` does with the answer of `ReadPage`: hold the page (`inl`), or stop at EOF /
    on failure (`inr (_, failed)`) -/
def pageK (c : Col.{u}) (s1 : c.m.σ) : ROut → Col.{u} ⊕ (Col.{u} × Bool)
  | .rows _ n => .inl { m := c.m, s := s1, buf := n }
  | .eof => .inr ({ m := c.m, s := s1, buf := 0 }, false)
  | _ => .inr ({ m := c.m, s := s1, buf := 0 }, true)

/-- MIRROR of the column part of `ReadRows` (row_group.go, the loop over `rows` for one column) at
    row granularity: take `want` rows, fetching the next page whenever the held one is used up;
    returns the column, the rows delivered and whether a read failed -/
def colRead : Nat → Col.{u} → Nat → Nat → Col.{u} × Nat × Bool
  | 0, c, _, got => (c, got, false)
  | fuel + 1, c, want, got =>
    if want = 0 then (c, got, false)
    else if c.buf = 0 then
      match pageK c (c.m.step c.s .readPage).1 (c.m.step c.s .readPage).2 with
      | .inl c' => colRead fuel c' want got
      | .inr r => (r.1, got, r.2)
    else colRead fuel { m := c.m, s := c.s, buf := c.buf - min want c.buf } (want - min want c.buf) (got + min want c.buf)

theorem colRead_spec : ∀ (fuel : Nat) (c : Col.{u}) (want got q : Nat), c.Inv → c.npos = some q →
    2 * want + (if c.buf = 0 then 1 else 0) ≤ fuel →
    (colRead fuel c want got).1.m = c.m ∧ (colRead fuel c want got).1.Inv ∧
    ((colRead fuel c want got).2.2 = false →
      (colRead fuel c want got).2.1 = got + min want (c.m.total - q) ∧
      (colRead fuel c want got).1.npos = some (q + min want (c.m.total - q)))
  | 0, c, want, got, q, hi, hq, hf => by
    have : want = 0 := by split at hf <;> omega
    subst this
    simp only [colRead]
    exact ⟨trivial, hi, fun _ => ⟨by simp, by simpa using hq⟩⟩
  | fuel + 1, c, want, got, q, hi, hq, hf => by
    simp only [colRead]
    split
    · rename_i hw
      subst hw
      exact ⟨rfl, hi, fun _ => ⟨by simp, by simpa using hq⟩⟩
    · rename_i hw
      split
      · rename_i hb
        -- the held page is used up: fetch the next one
        have hspec := c.m.step_spec c.s .readPage hi.1
        have hinv := c.m.step_inv c.s .readPage hi.1
        simp only [PSpec] at hspec
        generalize c.m.step c.s .readPage = x at hspec hinv ⊢
        obtain ⟨s1, o⟩ := x
        simp only [] at hspec hinv ⊢
        cases hp : c.m.pos c.s with
        | none => simp [Col.npos, hp] at hq
        | some p =>
          rw [hp] at hspec
          simp only [] at hspec
          have hq' : q = min p c.m.total := by
            simp [Col.npos, hp, hb] at hq; omega
          cases o with
          | ok => simp at hspec
          | err => simp at hspec
          | fail =>
            simp only [pageK]
            exact ⟨trivial, ⟨hinv, Or.inl rfl⟩, fun h => by cases h⟩
          | eof =>
            simp only [] at hspec
            obtain ⟨e1, e2⟩ := hspec
            simp only [pageK]
            refine ⟨trivial, ⟨hinv, Or.inl rfl⟩, fun _ => ⟨?_, ?_⟩⟩
            · have : c.m.total - q = 0 := by omega
              simp [this]
            · simp only [Col.npos, e2, Option.map_some, Nat.sub_zero]
              have : c.m.total - q = 0 := by omega
              simp [this]; omega
          | rows st n =>
            simp only [] at hspec
            obtain ⟨e1, e2, e3, e4⟩ := hspec
            simp only [pageK]
            have hi' : Col.Inv { m := c.m, s := s1, buf := n } :=
              ⟨hinv, Or.inr ⟨p + n, e4, by show n ≤ p + n; omega, e3⟩⟩
            have hq'' : Col.npos { m := c.m, s := s1, buf := n } = some q := by
              simp only [Col.npos, e4, Option.map_some]
              congr 1; omega
            have := colRead_spec fuel { m := c.m, s := s1, buf := n } want got q hi' hq'' (by
              simp only []
              split
              · omega
              · simp only [hb, if_true] at hf; omega)
            exact this
      · rename_i hb
        obtain ⟨hinv, hbuf⟩ := hi
        rcases hbuf with h0 | ⟨p, hp, hle, hpT⟩
        · exact absurd h0 hb
        · have hq' : q = p - c.buf := by
            simp [Col.npos, hp] at hq; omega
          have ht : 1 ≤ min want c.buf := by
            have : 0 < want := by omega
            have : 0 < c.buf := by omega
            omega
          have hi' : Col.Inv { m := c.m, s := c.s, buf := c.buf - min want c.buf } :=
            ⟨hinv, Or.inr ⟨p, hp, by simp only []; omega, hpT⟩⟩
          have hq'' : Col.npos { m := c.m, s := c.s, buf := c.buf - min want c.buf } = some (q + min want c.buf) := by
            simp only [Col.npos, hp, Option.map_some]
            congr 1; omega
          have := colRead_spec fuel { m := c.m, s := c.s, buf := c.buf - min want c.buf }
            (want - min want c.buf) (got + min want c.buf) (q + min want c.buf) hi' hq'' (by
              simp only [hb, if_false] at hf
              simp only []
              split <;> omega)
          obtain ⟨a1, a2, a3⟩ := this
          refine ⟨a1, a2, fun hf' => ?_⟩
          obtain ⟨b1, b2⟩ := a3 hf'
          simp only [] at b1 b2
          refine ⟨by rw [b1]; omega, by rw [b2]; congr 1; omega⟩

/-! ### the row reader -/

structure RSt where
  rowIndex : Int        -- r.rowIndex, -1 before the first read
  cols : List Col.{u}   -- r.columns[i].reader
  err : Bool            -- r.err != nil

inductive ROp where
  | seek (k : Nat)
  | read (n : Nat)
  | reset
deriving Repr, DecidableEq

/-- MIRROR of the loop of `rowGroupRows.SeekToRow`: stops at the first column that refuses -/
def seekAll : List Col.{u} → Nat → List Col.{u} × Bool
  | [], _ => ([], true)
  | c :: cs, k =>
    match (c.seek k).2 with
    | .ok => ((c.seek k).1 :: (seekAll cs k).1, (seekAll cs k).2)
    | _ => ((c.seek k).1 :: cs, false)

/-- MIRROR of the column loop of `ReadRows`: `(columns, max rows delivered, failed)`; stops at the
    first column whose read fails -/
def readAll (n : Nat) : List Col.{u} → List Col.{u} × Nat × Bool
  | [] => ([], 0, false)
  | c :: cs =>
    if (colRead (2 * n + 1) c n 0).2.2 then ((colRead (2 * n + 1) c n 0).1 :: cs, 0, true)
    else ((colRead (2 * n + 1) c n 0).1 :: (readAll n cs).1,
          max (colRead (2 * n + 1) c n 0).2.1 (readAll n cs).2.1, (readAll n cs).2.2)

/-- MIRROR of `columnChunkValueReader.Reset` on every column: seek to 0 ignoring errors, drop the page -/
def resetAll (cs : List Col.{u}) : List Col.{u} :=
  cs.map fun c => { m := c.m, s := (c.m.step c.s (.seek 0)).1, buf := 0 }

/-- MIRROR of `rowGroupRows.SeekToRow` (repaired) -/
def rseek (s : RSt.{u}) (k : Nat) : RSt.{u} × ROut :=
  if (k : Int) ≠ s.rowIndex ∨ s.err = true then
    if (seekAll s.cols k).2 then ({ rowIndex := k, cols := (seekAll s.cols k).1, err := false }, .ok)
    else ({ s with cols := (seekAll s.cols k).1 }, .err)
  else (s, .ok)

/-- the part of `ReadRows` behind the first-call seek -/
def rreadK (s : RSt.{u}) (n : Nat) : RSt.{u} × ROut :=
  if (readAll n s.cols).2.2 then ({ s with cols := (readAll n s.cols).1, err := true }, .fail)
  else ({ s with cols := (readAll n s.cols).1, rowIndex := s.rowIndex + (readAll n s.cols).2.1 },
        .rows s.rowIndex.toNat (readAll n s.cols).2.1)

/-- MIRROR of `rowGroupRows` (repaired): SeekToRow / ReadRows / Reset -/
def rstep (s : RSt.{u}) : ROp → RSt.{u} × ROut
  | .seek k => rseek s k
  | .read n =>
    if s.err then (s, .fail)
    else if s.rowIndex < 0 then
      match (rseek s 0).2 with
      | .ok => rreadK (rseek s 0).1 n
      | o => ((rseek s 0).1, o)
    else rreadK s n
  | .reset => ({ rowIndex := 0, cols := resetAll s.cols, err := false }, .ok)

/-- SPEC: the reference row reader over `T` rows -/
def RSpec (T : Nat) (n : Option Nat) (op : ROp) (n' : Option Nat) (out : ROut) : Prop :=
  match op with
  | .seek k => out = .ok ∧ n' = some k
  | .reset => out = .ok ∧ n' = some 0
  | .read b =>
    match n with
    | none => out = .fail ∧ n' = none
    | some p => (out = .rows p (min b (T - p)) ∧ n' = some (p + min b (T - p))) ∨ (out = .fail ∧ n' = none)

def rpos (s : RSt.{u}) : Option Nat :=
  if s.err then none else some (if s.rowIndex < 0 then 0 else s.rowIndex.toNat)

def ColsAt (T : Nat) (cs : List Col.{u}) (q : Nat) : Prop :=
  ∀ c ∈ cs, c.m.total = T ∧ c.Inv ∧ c.npos = some q

def RInv (T : Nat) (s : RSt.{u}) : Prop :=
  s.cols ≠ [] ∧ (∀ c ∈ s.cols, c.m.total = T ∧ c.Inv) ∧
  (s.err = false → ∃ p, p ≤ T ∧ ((s.rowIndex < 0 ∧ p = 0) ∨ s.rowIndex = (p : Int)) ∧ ColsAt T s.cols p)

theorem seekAll_spec (T k : Nat) (hk : k ≤ T) : ∀ (cs : List Col.{u}), (∀ c ∈ cs, c.m.total = T ∧ c.Inv) →
    (seekAll cs k).2 = true ∧ ((seekAll cs k).1 = [] ↔ cs = []) ∧ ColsAt T (seekAll cs k).1 k
  | [], _ => ⟨rfl, by simp [seekAll], by intro c hc; simp [seekAll] at hc⟩
  | c :: cs, h => by
    obtain ⟨hT, hI⟩ := h c (by simp)
    obtain ⟨a1, a2, a3, a4⟩ := c.seek_spec k hI (by omega)
    obtain ⟨b1, _, b3⟩ := seekAll_spec T k hk cs (fun c hc => h c (by simp [hc]))
    simp only [seekAll, a1]
    refine ⟨b1, by simp, ?_⟩
    intro c' hc'
    simp at hc'
    rcases hc' with rfl | hc'
    · refine ⟨by rw [a2]; exact hT, a3, ?_⟩
      rw [a4, hT]; congr 1; omega
    · exact b3 c' hc'

theorem readAll_spec (T n q : Nat) (hq : q ≤ T) : ∀ (cs : List Col.{u}), ColsAt T cs q →
    (∀ c ∈ (readAll n cs).1, c.m.total = T ∧ c.Inv) ∧ ((readAll n cs).1 = [] ↔ cs = []) ∧
    ((readAll n cs).2.2 = false →
      (cs ≠ [] → (readAll n cs).2.1 = min n (T - q)) ∧ (cs = [] → (readAll n cs).2.1 = 0) ∧
      ColsAt T (readAll n cs).1 (q + min n (T - q)))
  | [], _ => by simp [readAll, ColsAt]
  | c :: cs, h => by
    obtain ⟨hT, hI, hN⟩ := h c (by simp)
    have hrest : ColsAt T cs q := fun c hc => h c (by simp [hc])
    obtain ⟨a1, a2, a3⟩ := colRead_spec (2 * n + 1) c n 0 q hI hN (by split <;> omega)
    obtain ⟨b1, b2, b3⟩ := readAll_spec T n q hq cs hrest
    simp only [readAll]
    split
    · rename_i hf
      refine ⟨?_, by simp, fun h => by cases h⟩
      intro c' hc'
      simp at hc'
      rcases hc' with rfl | hc'
      · exact ⟨by rw [a1]; exact hT, a2⟩
      · exact ⟨(hrest c' hc').1, (hrest c' hc').2.1⟩
    · rename_i hf
      have hf' : (colRead (2 * n + 1) c n 0).2.2 = false := by simpa using hf
      obtain ⟨c1, c2⟩ := a3 hf'
      rw [hT] at c1 c2
      refine ⟨?_, by simp, fun hall => ?_⟩
      · intro c' hc'
        simp at hc'
        rcases hc' with rfl | hc'
        · exact ⟨by rw [a1]; exact hT, a2⟩
        · exact b1 c' hc'
      · obtain ⟨d1, d2, d3⟩ := b3 hall
        refine ⟨fun _ => ?_, fun h => by simp at h, ?_⟩
        · simp only [c1, Nat.zero_add]
          by_cases hcs : cs = []
          · rw [d2 hcs]; omega
          · rw [d1 hcs]; omega
        · intro c' hc'
          simp at hc'
          rcases hc' with rfl | hc'
          · exact ⟨by rw [a1]; exact hT, a2, c2⟩
          · exact d3 c' hc'

theorem resetAll_spec (T : Nat) (cs : List Col.{u}) (h : ∀ c ∈ cs, c.m.total = T ∧ c.Inv) :
    ColsAt T (resetAll cs) 0 := by
  intro c' hc'
  simp only [resetAll, List.mem_map] at hc'
  obtain ⟨c, hc, rfl⟩ := hc'
  obtain ⟨hT, hI⟩ := h c hc
  obtain ⟨a1, a2, a3, a4⟩ := c.seek_spec 0 hI (Nat.zero_le _)
  -- `Col.seek` with answer `ok` is exactly the reset column
  have hspec := c.m.step_spec c.s (.seek 0) hI.1
  have hinv := c.m.step_inv c.s (.seek 0) hI.1
  rcases hspec with ⟨ho, k', hp, hsame⟩ | ⟨_, _, hbad⟩
  · refine ⟨hT, ⟨hinv, Or.inl rfl⟩, ?_⟩
    simp only [Col.npos, hp, Option.map_some, Nat.sub_zero]
    rcases hsame with rfl | ⟨a, b⟩
    · simp
    · congr 1; omega
  · omega

theorem rseek_spec (T : Nat) (s : RSt.{u}) (k : Nat) (hk : k ≤ T) (h : RInv T s) :
    RInv T (rseek s k).1 ∧ (rseek s k).2 = .ok ∧ rpos (rseek s k).1 = some k := by
  obtain ⟨hne, hall, hal⟩ := h
  unfold rseek
  split
  · obtain ⟨a1, a2, a3⟩ := seekAll_spec T k hk s.cols hall
    simp only [a1, if_true]
    refine ⟨⟨?_, fun c hc => ⟨(a3 c hc).1, (a3 c hc).2.1⟩, fun _ => ⟨k, hk, Or.inr rfl, a3⟩⟩, trivial, ?_⟩
    · intro h; exact hne (a2.mp h)
    · simp only [rpos, Bool.false_eq_true, if_false]
      have : ¬ ((k : Int) < 0) := by omega
      simp [this]
  · rename_i hc
    have h1 : (k : Int) = s.rowIndex := by
      by_cases hk' : (k : Int) = s.rowIndex
      · exact hk'
      · exact absurd (Or.inl hk') hc
    have h2 : s.err = false := by
      cases hf : s.err with
      | false => rfl
      | true => exact absurd (Or.inr hf) hc
    refine ⟨⟨hne, hall, hal⟩, rfl, ?_⟩
    simp only [rpos, h2, Bool.false_eq_true, if_false]
    have : ¬ s.rowIndex < 0 := by omega
    simp only [this, if_false]
    congr 1; omega

theorem rreadK_spec (T : Nat) (s : RSt.{u}) (n p : Nat) (hall : ∀ c ∈ s.cols, c.m.total = T ∧ c.Inv)
    (hne : s.cols ≠ []) (herr : s.err = false) (hp : p ≤ T) (hri : s.rowIndex = (p : Int)) (hat : ColsAt T s.cols p) :
    RInv T (rreadK s n).1 ∧ RSpec T (some p) (.read n) (rpos (rreadK s n).1) (rreadK s n).2 := by
  obtain ⟨a1, a2, a3⟩ := readAll_spec T n p hp s.cols hat
  unfold rreadK
  split
  · refine ⟨⟨fun h => hne (a2.mp h), a1, fun h => by cases h⟩, Or.inr ⟨rfl, ?_⟩⟩
    simp [rpos]
  · rename_i hf
    have hf' : (readAll n s.cols).2.2 = false := by simpa using hf
    obtain ⟨b1, _, b3⟩ := a3 hf'
    have hcnt := b1 hne
    refine ⟨⟨fun h => hne (a2.mp h), a1, fun _ => ⟨p + min n (T - p), by omega, Or.inr ?_, b3⟩⟩, Or.inl ⟨?_, ?_⟩⟩
    · simp only [hcnt, hri]; omega
    · simp only [hcnt, hri]; simp
    · simp only [rpos, herr, Bool.false_eq_true, if_false, hcnt, hri]
      have : ¬ ((p : Int) + ((min n (T - p) : Nat) : Int) < 0) := by omega
      simp only [this, if_false]
      congr 1

/-- an op the partial theorem covers: seeks stay within `0..T` (at the end included) -/
def opOK (T : Nat) : ROp → Bool
  | .seek k => decide (k ≤ T)
  | _ => true

theorem rstep_spec (T : Nat) (s : RSt.{u}) (op : ROp) (hop : opOK T op = true) (h : RInv T s) :
    RInv T (rstep s op).1 ∧ RSpec T (rpos s) op (rpos (rstep s op).1) (rstep s op).2 := by
  cases op with
  | seek k =>
    have hk : k ≤ T := by simpa [opOK] using hop
    obtain ⟨a, b, c⟩ := rseek_spec T s k hk h
    exact ⟨a, b, c⟩
  | reset =>
    obtain ⟨hne, hall, _⟩ := h
    have hr := resetAll_spec T s.cols hall
    refine ⟨⟨by simp [rstep, resetAll]; exact hne, fun c hc => ⟨(hr c hc).1, (hr c hc).2.1⟩,
      fun _ => ⟨0, Nat.zero_le _, Or.inr rfl, hr⟩⟩, rfl, by simp [rstep, rpos]⟩
  | read n =>
    simp only [rstep]
    cases herr : s.err with
    | true => simp only [if_true]; exact ⟨h, by simp [RSpec, rpos, herr]⟩
    | false =>
      simp only [Bool.false_eq_true, if_false]
      obtain ⟨hne, hall, hal⟩ := h
      obtain ⟨p, hp, hri, hat⟩ := hal herr
      split
      · rename_i hneg
        -- first call: seek to row 0
        obtain ⟨a, b, c⟩ := rseek_spec T s 0 (Nat.zero_le _) ⟨hne, hall, hal⟩
        rw [b]
        simp only []
        have hp0 : rpos s = some 0 := by simp [rpos, herr, hneg]
        rw [hp0]
        -- the seek was not skipped (rowIndex is negative), so the reader now stands on row 0
        have hsk : (rseek s 0) = ({ rowIndex := 0, cols := (seekAll s.cols 0).1, err := false }, ROut.ok) := by
          obtain ⟨a1, _, _⟩ := seekAll_spec T 0 (Nat.zero_le _) s.cols hall
          unfold rseek
          have : ((0 : Nat) : Int) ≠ s.rowIndex := by omega
          rw [if_pos (Or.inl this), a1]
          rfl
        obtain ⟨a1, a2, a3⟩ := seekAll_spec T 0 (Nat.zero_le _) s.cols hall
        rw [hsk]
        exact rreadK_spec T _ n 0 (fun c hc => ⟨(a3 c hc).1, (a3 c hc).2.1⟩) (fun h => hne (a2.mp h)) rfl
          (Nat.zero_le _) rfl a3
      · rename_i hneg
        have hri' : s.rowIndex = (p : Int) := by
          rcases hri with ⟨a, _⟩ | a
          · exact absurd a hneg
          · exact a
        have hp0 : rpos s = some p := by
          simp only [rpos, herr, Bool.false_eq_true, if_false, hneg]
          congr 1; omega
        rw [hp0]
        exact rreadK_spec T s n p hall hne herr hp hri' hat

/-! ### histories -/

def routs : RSt.{u} → List ROp → List ROut
  | _, [] => []
  | s, op :: ops => (rstep s op).2 :: routs (rstep s op).1 ops

inductive RRunOK (T : Nat) : Option Nat → List ROp → List ROut → Prop where
  | nil (n) : RRunOK T n [] []
  | cons {n op n' out ops os} : RSpec T n op n' out → RRunOK T n' ops os → RRunOK T n (op :: ops) (out :: os)

theorem rrun_refines (T : Nat) : ∀ (ops : List ROp) (s : RSt.{u}), RInv T s → (ops.all (opOK T)) = true →
    RRunOK T (rpos s) ops (routs s ops)
  | [], _, _, _ => RRunOK.nil _
  | op :: ops, s, h, hok => by
    simp only [List.all_cons, Bool.and_eq_true] at hok
    obtain ⟨a, b⟩ := rstep_spec T s op hok.1 h
    exact RRunOK.cons b (rrun_refines T ops _ a hok.2)

/-- a fresh row reader over the page readers of its columns -/
def rinit (ms : List Machine.{u}) : RSt.{u} :=
  { rowIndex := -1, cols := ms.map fun m => { m := m, s := m.init, buf := 0 }, err := false }

theorem rinit_inv (T : Nat) (ms : List Machine.{u}) (hne : ms ≠ []) (hT : ∀ m ∈ ms, m.total = T) :
    RInv T (rinit ms) := by
  have hcols : ∀ c ∈ (rinit ms).cols, c.m.total = T ∧ c.Inv ∧ c.npos = some 0 := by
    intro c hc
    simp only [rinit, List.mem_map] at hc
    obtain ⟨m, hm, rfl⟩ := hc
    exact ⟨hT m hm, ⟨m.init_inv, Or.inl rfl⟩, by simp [Col.npos, m.init_pos]⟩
  refine ⟨by simp [rinit]; exact hne, fun c hc => ⟨(hcols c hc).1, (hcols c hc).2.1⟩,
    fun _ => ⟨0, Nat.zero_le _, Or.inl ⟨by simp [rinit], rfl⟩, hcols⟩⟩

end PqModel.ReaderSeek
