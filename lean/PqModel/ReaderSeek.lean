import PqModel.SeekLayers

/-! # `rowGroupRows` over per-column page readers (C08)

Refinement step above `SeekLayers`: a row reader holds one value reader per leaf column
(`columnChunkValueReader`, column_chunk.go), each over its own `Pages` machine — the columns of a
row group have different page layouts, and for a `Reader` over several row groups every column is a
`multiPages` — and remembers in `rowIndex` the row they all stand on (row_group.go).

* MIRROR: `Col.seek`, `colRead` (ReadValues counted in rows: the held page is consumed, the next
  page is fetched when it is used up), `seekAll`, `readAll`, `resetAll`, `rstep`.
* SPEC: `RSpec` — the reference row reader.

Granularity: rows. What a row is inside a page of a repeated column (`repetitionLevel = 0` starts
one) is `SliceRepeated.lean`; the value-level inner loop of `ReadRows` (`numValuesInRow` across
buffer refills) is not modelled. -/
namespace PqModel.ReaderSeek
open PqModel.Seek (Op)
open PqModel.SeekLayers

universe u

/-- `columnChunkValueReader`: a pages reader and the page it holds (`buf` rows of it are left) -/
structure Col where
  m : Machine.{u}
  s : m.σ
  buf : Nat

namespace Col

/-- abstraction: the row this column stands on (positions at or beyond the end coincide) -/
def npos (c : Col.{u}) : Option Nat := (c.m.pos c.s).map (fun p => min (p - c.buf) c.m.total)

def Inv (c : Col.{u}) : Prop :=
  c.m.inv c.s ∧ (c.buf = 0 ∨ ∃ p, c.m.pos c.s = some p ∧ c.buf ≤ p ∧ p ≤ c.m.total)

def seekK (c : Col.{u}) (s1 : c.m.σ) : ROut → Col.{u} × ROut
  | .ok => ({ m := c.m, s := s1, buf := 0 }, .ok)
  | o => ({ m := c.m, s := s1, buf := c.buf }, o)

/-- MIRROR of `columnChunkValueReader.SeekToRow` (column_chunk.go:152-161): seek the pages, drop
    the held page -/
def seek (c : Col.{u}) (k : Nat) : Col.{u} × ROut :=
  seekK c (c.m.step c.s (.seek k)).1 (c.m.step c.s (.seek k)).2

theorem seek_m (c : Col.{u}) (k : Nat) : (c.seek k).1.m = c.m := by
  unfold seek seekK
  split <;> rfl

/-- a seek to a row of the column (the end included) is never refused -/
theorem seek_ok_of_le (c : Col.{u}) (k : Nat) (h : c.Inv) (hk : k ≤ c.m.total) :
    (c.m.step c.s (.seek k)).2 = .ok := by
  rcases c.m.step_spec c.s (.seek k) h.1 with ⟨ho, _⟩ | ⟨_, _, hbad⟩
  · exact ho
  · omega

theorem seek_spec (c : Col.{u}) (k : Nat) (h : c.Inv) (hok : (c.m.step c.s (.seek k)).2 = .ok) :
    (c.seek k).2 = .ok ∧ (c.seek k).1.m = c.m ∧ (c.seek k).1.Inv ∧ (c.seek k).1.npos = some (min k c.m.total) := by
  have hspec := c.m.step_spec c.s (.seek k) h.1
  have hinv := c.m.step_inv c.s (.seek k) h.1
  unfold seek
  generalize c.m.step c.s (.seek k) = x at hspec hinv hok
  obtain ⟨s1, o⟩ := x
  simp only [] at hok
  subst hok
  rcases hspec with ⟨_, k', hp, hsame⟩ | ⟨hbad, _, _⟩
  · simp only [] at hp hinv
    simp only [seekK]
    refine ⟨trivial, trivial, ⟨hinv, Or.inl rfl⟩, ?_⟩
    simp only [npos, hp, Option.map_some, Nat.sub_zero]
    rcases hsame with rfl | ⟨a, b⟩
    · rfl
    · congr 1; omega
  · cases hbad

/-- a refused seek leaves the column where it was (the held page is kept) -/
theorem seek_refused (c : Col.{u}) (k : Nat) (h : c.Inv) (herr : (c.m.step c.s (.seek k)).2 = .err) :
    (c.seek k).2 = .err ∧ (c.seek k).1.m = c.m ∧ (c.seek k).1.Inv ∧ (c.seek k).1.npos = c.npos := by
  have hspec := c.m.step_spec c.s (.seek k) h.1
  have hinv := c.m.step_inv c.s (.seek k) h.1
  obtain ⟨hI, hbuf⟩ := h
  unfold seek
  generalize c.m.step c.s (.seek k) = x at hspec hinv herr
  obtain ⟨s1, o⟩ := x
  simp only [] at herr
  subst herr
  rcases hspec with ⟨hbad, _⟩ | ⟨_, hp, _⟩
  · cases hbad
  · simp only [] at hp hinv
    simp only [seekK]
    refine ⟨trivial, trivial, ⟨hinv, ?_⟩, ?_⟩
    · simpa only [hp] using hbuf
    · simp only [npos, hp]

end Col

/-- what `ReadValues` does with the answer of `ReadPage`: hold the page (`inl`), or stop at EOF /
    on failure (`inr (_, failed)`) -/
def pageK (c : Col.{u}) (s1 : c.m.σ) : ROut → Col.{u} ⊕ (Col.{u} × Bool)
  | .rows _ n => .inl { m := c.m, s := s1, buf := n }
  | .eof => .inr ({ m := c.m, s := s1, buf := 0 }, false)
  | _ => .inr ({ m := c.m, s := s1, buf := 0 }, true)

/-- MIRROR of the column part of `ReadRows` (row_group.go, the loop over `rows` for one column) at
    row granularity: take `want` rows, fetching the next page whenever the held one is used up;
    returns the column, the rows delivered and whether a read failed -/
def colRead : Nat → Col.{u} → Nat → Nat → Col.{u} × Nat × Bool
  | 0, c, _, got => (c, got, false)
  | fuel + 1, c, want, got =>
    if want = 0 then (c, got, false)
    else if c.buf = 0 then
      match pageK c (c.m.step c.s .readPage).1 (c.m.step c.s .readPage).2 with
      | .inl c' => colRead fuel c' want got
      | .inr r => (r.1, got, r.2)
    else colRead fuel { m := c.m, s := c.s, buf := c.buf - min want c.buf } (want - min want c.buf) (got + min want c.buf)

theorem colRead_spec : ∀ (fuel : Nat) (c : Col.{u}) (want got q : Nat), c.Inv → c.npos = some q →
    2 * want + (if c.buf = 0 then 1 else 0) ≤ fuel →
    (colRead fuel c want got).1.m = c.m ∧ (colRead fuel c want got).1.Inv ∧
    ((colRead fuel c want got).2.2 = false →
      (colRead fuel c want got).2.1 = got + min want (c.m.total - q) ∧
      (colRead fuel c want got).1.npos = some (q + min want (c.m.total - q)))
  | 0, c, want, got, q, hi, hq, hf => by
    have : want = 0 := by split at hf <;> omega
    subst this
    simp only [colRead]
    exact ⟨trivial, hi, fun _ => ⟨by simp, by simpa using hq⟩⟩
  | fuel + 1, c, want, got, q, hi, hq, hf => by
    simp only [colRead]
    split
    · rename_i hw
      subst hw
      exact ⟨rfl, hi, fun _ => ⟨by simp, by simpa using hq⟩⟩
    · rename_i hw
      split
      · rename_i hb
        -- the held page is used up: fetch the next one
        have hspec := c.m.step_spec c.s .readPage hi.1
        have hinv := c.m.step_inv c.s .readPage hi.1
        simp only [PSpec] at hspec
        generalize c.m.step c.s .readPage = x at hspec hinv ⊢
        obtain ⟨s1, o⟩ := x
        simp only [] at hspec hinv ⊢
        cases hp : c.m.pos c.s with
        | none => simp [Col.npos, hp] at hq
        | some p =>
          rw [hp] at hspec
          simp only [] at hspec
          have hq' : q = min p c.m.total := by
            simp [Col.npos, hp, hb] at hq; omega
          cases o with
          | ok => simp at hspec
          | err => simp at hspec
          | fail =>
            simp only [pageK]
            exact ⟨trivial, ⟨hinv, Or.inl rfl⟩, fun h => by cases h⟩
          | eof =>
            simp only [] at hspec
            obtain ⟨e1, e2⟩ := hspec
            simp only [pageK]
            refine ⟨trivial, ⟨hinv, Or.inl rfl⟩, fun _ => ⟨?_, ?_⟩⟩
            · have : c.m.total - q = 0 := by omega
              simp [this]
            · simp only [Col.npos, e2, Option.map_some, Nat.sub_zero]
              have : c.m.total - q = 0 := by omega
              simp [this]; omega
          | rows st n =>
            simp only [] at hspec
            obtain ⟨e1, e2, e3, e4⟩ := hspec
            simp only [pageK]
            have hi' : Col.Inv { m := c.m, s := s1, buf := n } :=
              ⟨hinv, Or.inr ⟨p + n, e4, by show n ≤ p + n; omega, e3⟩⟩
            have hq'' : Col.npos { m := c.m, s := s1, buf := n } = some q := by
              simp only [Col.npos, e4, Option.map_some]
              congr 1; omega
            have := colRead_spec fuel { m := c.m, s := s1, buf := n } want got q hi' hq'' (by
              simp only []
              split
              · omega
              · simp only [hb, if_true] at hf; omega)
            exact this
      · rename_i hb
        obtain ⟨hinv, hbuf⟩ := hi
        rcases hbuf with h0 | ⟨p, hp, hle, hpT⟩
        · exact absurd h0 hb
        · have hq' : q = p - c.buf := by
            simp [Col.npos, hp] at hq; omega
          have ht : 1 ≤ min want c.buf := by
            have : 0 < want := by omega
            have : 0 < c.buf := by omega
            omega
          have hi' : Col.Inv { m := c.m, s := c.s, buf := c.buf - min want c.buf } :=
            ⟨hinv, Or.inr ⟨p, hp, by simp only []; omega, hpT⟩⟩
          have hq'' : Col.npos { m := c.m, s := c.s, buf := c.buf - min want c.buf } = some (q + min want c.buf) := by
            simp only [Col.npos, hp, Option.map_some]
            congr 1; omega
          have := colRead_spec fuel { m := c.m, s := c.s, buf := c.buf - min want c.buf }
            (want - min want c.buf) (got + min want c.buf) (q + min want c.buf) hi' hq'' (by
              simp only [hb, if_false] at hf
              simp only []
              split <;> omega)
          obtain ⟨a1, a2, a3⟩ := this
          refine ⟨a1, a2, fun hf' => ?_⟩
          obtain ⟨b1, b2⟩ := a3 hf'
          simp only [] at b1 b2
          refine ⟨by rw [b1]; omega, by rw [b2]; congr 1; omega⟩

theorem colRead_m : ∀ (fuel : Nat) (c : Col.{u}) (want got : Nat), (colRead fuel c want got).1.m = c.m
  | 0, _, _, _ => rfl
  | fuel + 1, c, want, got => by
    simp only [colRead]
    split
    · rfl
    · split
      · generalize c.m.step c.s .readPage = x
        obtain ⟨s1, o⟩ := x
        cases o with
        | rows st n => simp only [pageK]; exact colRead_m fuel _ want got
        | ok => rfl
        | err => rfl
        | eof => rfl
        | fail => rfl
      · exact colRead_m fuel _ _ _

/-! ### the row reader -/

structure RSt where
  rowIndex : Int        -- r.rowIndex, -1 before the first read
  cols : List Col.{u}   -- r.columns[i].reader
  err : Bool            -- r.err != nil

inductive ROp where
  | seek (k : Nat)
  | read (n : Nat)
  | reset
deriving Repr, DecidableEq

/-- MIRROR of the loop of `rowGroupRows.SeekToRow`: stops at the first column that refuses -/
def seekAll : List Col.{u} → Nat → List Col.{u} × Bool
  | [], _ => ([], true)
  | c :: cs, k =>
    match (c.seek k).2 with
    | .ok => ((c.seek k).1 :: (seekAll cs k).1, (seekAll cs k).2)
    | _ => ((c.seek k).1 :: cs, false)

/-- MIRROR of the column loop of `ReadRows`: `(columns, max rows delivered, failed)`; stops at the
    first column whose read fails -/
def readAll (n : Nat) : List Col.{u} → List Col.{u} × Nat × Bool
  | [] => ([], 0, false)
  | c :: cs =>
    if (colRead (2 * n + 1) c n 0).2.2 then ((colRead (2 * n + 1) c n 0).1 :: cs, 0, true)
    else ((colRead (2 * n + 1) c n 0).1 :: (readAll n cs).1,
          max (colRead (2 * n + 1) c n 0).2.1 (readAll n cs).2.1, (readAll n cs).2.2)

/-- MIRROR of `columnChunkValueReader.Reset` on every column: seek to 0 ignoring errors, drop the page -/
def resetAll (cs : List Col.{u}) : List Col.{u} :=
  cs.map fun c => { m := c.m, s := (c.m.step c.s (.seek 0)).1, buf := 0 }

/-- MIRROR of `rowGroupRows.SeekToRow` (repaired) -/
def rseek (s : RSt.{u}) (k : Nat) : RSt.{u} × ROut :=
  if (k : Int) ≠ s.rowIndex ∨ s.err = true then
    if (seekAll s.cols k).2 then ({ rowIndex := k, cols := (seekAll s.cols k).1, err := false }, .ok)
    else ({ s with cols := (seekAll s.cols k).1 }, .err)
  else (s, .ok)

/-- the part of `ReadRows` behind the first-call seek -/
def rreadK (s : RSt.{u}) (n : Nat) : RSt.{u} × ROut :=
  if (readAll n s.cols).2.2 then ({ s with cols := (readAll n s.cols).1, err := true }, .fail)
  else ({ s with cols := (readAll n s.cols).1, rowIndex := s.rowIndex + (readAll n s.cols).2.1 },
        .rows s.rowIndex.toNat (readAll n s.cols).2.1)

/-- MIRROR of `rowGroupRows` (repaired): SeekToRow / ReadRows / Reset -/
def rstep (s : RSt.{u}) : ROp → RSt.{u} × ROut
  | .seek k => rseek s k
  | .read n =>
    if s.err then (s, .fail)
    else if s.rowIndex < 0 then
      match (rseek s 0).2 with
      | .ok => rreadK (rseek s 0).1 n
      | o => ((rseek s 0).1, o)
    else rreadK s n
  | .reset => ({ rowIndex := 0, cols := resetAll s.cols, err := false }, .ok)

/-- SPEC: the reference row reader over `T` rows. Its position is the row index of the last
    accepted seek plus the rows delivered since; beyond the last row (`p > T`) reads deliver
    nothing. A seek may be refused only beyond the last row, and then nothing changes. -/
def RSpec (T : Nat) (n : Option Nat) (op : ROp) (n' : Option Nat) (out : ROut) : Prop :=
  match op with
  | .seek k => (out = .ok ∧ n' = some k) ∨ (out = .err ∧ n' = n ∧ T < k)
  | .reset => out = .ok ∧ n' = some 0
  | .read b =>
    match n with
    | none => out = .fail ∧ n' = none
    | some p => (out = .rows p (min b (T - p)) ∧ n' = some (p + min b (T - p))) ∨ (out = .fail ∧ n' = none)

def rpos (s : RSt.{u}) : Option Nat :=
  if s.err then none else some (if s.rowIndex < 0 then 0 else s.rowIndex.toNat)

def ColsAt (T : Nat) (cs : List Col.{u}) (q : Nat) : Prop :=
  ∀ c ∈ cs, c.m.total = T ∧ c.Inv ∧ c.npos = some q

/-- how the page readers of one row reader answer a seek beyond the last row: all alike
    (`true`: they accept it, `false`: they refuse it) -/
def Mode : Bool → Machine.{u} → Prop
  | true, m => m.Lenient
  | false, m => m.Strict

def RInv (T : Nat) (L : Bool) (s : RSt.{u}) : Prop :=
  s.cols ≠ [] ∧ (∀ c ∈ s.cols, c.m.total = T ∧ c.Inv) ∧ (∀ m ∈ s.cols.map (·.m), Mode L m) ∧
  (s.err = false → ∃ p, (L = false → p ≤ T) ∧ ((s.rowIndex < 0 ∧ p = 0) ∨ s.rowIndex = (p : Int)) ∧
    ColsAt T s.cols (min p T))

theorem seekAll_m : ∀ (cs : List Col.{u}) (k : Nat), (seekAll cs k).1.map (·.m) = cs.map (·.m)
  | [], _ => rfl
  | c :: cs, k => by
    simp only [seekAll]
    split
    · simp only [List.map_cons, Col.seek_m, seekAll_m cs k]
    · simp only [List.map_cons, Col.seek_m]

theorem readAll_m (n : Nat) : ∀ (cs : List Col.{u}), (readAll n cs).1.map (·.m) = cs.map (·.m)
  | [] => rfl
  | c :: cs => by
    simp only [readAll]
    split
    · simp only [List.map_cons, colRead_m]
    · simp only [List.map_cons, colRead_m, readAll_m n cs]

theorem resetAll_m (cs : List Col.{u}) : (resetAll cs).map (·.m) = cs.map (·.m) := by
  simp [resetAll, List.map_map, Function.comp_def]

/-- the seek `k` is accepted by every column: it is inside the rows, or the readers are lenient -/
theorem accepts (T : Nat) (L : Bool) (k : Nat) (cs : List Col.{u}) (hall : ∀ c ∈ cs, c.m.total = T ∧ c.Inv)
    (hfar : ∀ m ∈ cs.map (·.m), Mode L m) (hk : k ≤ T ∨ L = true) :
    ∀ c ∈ cs, (c.m.step c.s (.seek k)).2 = .ok := by
  intro c hc
  obtain ⟨hT, hI⟩ := hall c hc
  rcases hk with hk | hL
  · exact c.seek_ok_of_le k hI (by omega)
  · subst hL
    exact hfar c.m (List.mem_map.mpr ⟨c, hc, rfl⟩) c.s k hI.1

theorem seekAll_spec (T k : Nat) : ∀ (cs : List Col.{u}), (∀ c ∈ cs, c.m.total = T ∧ c.Inv) →
    (∀ c ∈ cs, (c.m.step c.s (.seek k)).2 = .ok) →
    (seekAll cs k).2 = true ∧ ((seekAll cs k).1 = [] ↔ cs = []) ∧ ColsAt T (seekAll cs k).1 (min k T)
  | [], _, _ => ⟨rfl, by simp [seekAll], by intro c hc; simp [seekAll] at hc⟩
  | c :: cs, h, hok => by
    obtain ⟨hT, hI⟩ := h c (by simp)
    obtain ⟨a1, a2, a3, a4⟩ := c.seek_spec k hI (hok c (by simp))
    obtain ⟨b1, _, b3⟩ := seekAll_spec T k cs (fun c hc => h c (by simp [hc])) (fun c hc => hok c (by simp [hc]))
    simp only [seekAll, a1]
    refine ⟨b1, by simp, ?_⟩
    intro c' hc'
    simp at hc'
    rcases hc' with rfl | hc'
    · refine ⟨by rw [a2]; exact hT, a3, ?_⟩
      rw [a4, hT]
    · exact b3 c' hc'

/-- the first column refuses: the loop stops there, nothing has moved -/
theorem seekAll_refused (T k : Nat) (c : Col.{u}) (cs : List Col.{u}) (q : Nat) (hat : ColsAt T (c :: cs) q)
    (herr : (c.m.step c.s (.seek k)).2 = .err) :
    (seekAll (c :: cs) k).2 = false ∧ (seekAll (c :: cs) k).1 ≠ [] ∧ ColsAt T (seekAll (c :: cs) k).1 q := by
  obtain ⟨hT, hI, hN⟩ := hat c (by simp)
  obtain ⟨a1, a2, a3, a4⟩ := c.seek_refused k hI herr
  simp only [seekAll, a1]
  refine ⟨trivial, by simp, ?_⟩
  intro c' hc'
  simp at hc'
  rcases hc' with rfl | hc'
  · exact ⟨by rw [a2]; exact hT, a3, by rw [a4]; exact hN⟩
  · exact hat c' (by simp [hc'])

theorem readAll_spec (T n q : Nat) (hq : q ≤ T) : ∀ (cs : List Col.{u}), ColsAt T cs q →
    (∀ c ∈ (readAll n cs).1, c.m.total = T ∧ c.Inv) ∧ ((readAll n cs).1 = [] ↔ cs = []) ∧
    ((readAll n cs).2.2 = false →
      (cs ≠ [] → (readAll n cs).2.1 = min n (T - q)) ∧ (cs = [] → (readAll n cs).2.1 = 0) ∧
      ColsAt T (readAll n cs).1 (q + min n (T - q)))
  | [], _ => by simp [readAll, ColsAt]
  | c :: cs, h => by
    obtain ⟨hT, hI, hN⟩ := h c (by simp)
    have hrest : ColsAt T cs q := fun c hc => h c (by simp [hc])
    obtain ⟨a1, a2, a3⟩ := colRead_spec (2 * n + 1) c n 0 q hI hN (by split <;> omega)
    obtain ⟨b1, b2, b3⟩ := readAll_spec T n q hq cs hrest
    simp only [readAll]
    split
    · rename_i hf
      refine ⟨?_, by simp, fun h => by cases h⟩
      intro c' hc'
      simp at hc'
      rcases hc' with rfl | hc'
      · exact ⟨by rw [a1]; exact hT, a2⟩
      · exact ⟨(hrest c' hc').1, (hrest c' hc').2.1⟩
    · rename_i hf
      have hf' : (colRead (2 * n + 1) c n 0).2.2 = false := by simpa using hf
      obtain ⟨c1, c2⟩ := a3 hf'
      rw [hT] at c1 c2
      refine ⟨?_, by simp, fun hall => ?_⟩
      · intro c' hc'
        simp at hc'
        rcases hc' with rfl | hc'
        · exact ⟨by rw [a1]; exact hT, a2⟩
        · exact b1 c' hc'
      · obtain ⟨d1, d2, d3⟩ := b3 hall
        refine ⟨fun _ => ?_, fun h => by simp at h, ?_⟩
        · simp only [c1, Nat.zero_add]
          by_cases hcs : cs = []
          · rw [d2 hcs]; omega
          · rw [d1 hcs]; omega
        · intro c' hc'
          simp at hc'
          rcases hc' with rfl | hc'
          · exact ⟨by rw [a1]; exact hT, a2, c2⟩
          · exact d3 c' hc'

theorem resetAll_spec (T : Nat) (cs : List Col.{u}) (h : ∀ c ∈ cs, c.m.total = T ∧ c.Inv) :
    ColsAt T (resetAll cs) 0 := by
  intro c' hc'
  simp only [resetAll, List.mem_map] at hc'
  obtain ⟨c, hc, rfl⟩ := hc'
  obtain ⟨hT, hI⟩ := h c hc
  have hspec := c.m.step_spec c.s (.seek 0) hI.1
  have hinv := c.m.step_inv c.s (.seek 0) hI.1
  rcases hspec with ⟨ho, k', hp, hsame⟩ | ⟨_, _, hbad⟩
  · refine ⟨hT, ⟨hinv, Or.inl rfl⟩, ?_⟩
    simp only [Col.npos, hp, Option.map_some, Nat.sub_zero]
    rcases hsame with rfl | ⟨a, b⟩
    · simp
    · congr 1; omega
  · omega

/-- an accepted seek: the exact result -/
theorem rseek_ok (T : Nat) (L : Bool) (s : RSt.{u}) (k : Nat) (hk : k ≤ T ∨ L = true) (h : RInv T L s) :
    RInv T L (rseek s k).1 ∧ (rseek s k).2 = .ok ∧ rpos (rseek s k).1 = some k ∧
    ((k : Int) ≠ s.rowIndex ∨ s.err = true →
      rseek s k = ({ rowIndex := k, cols := (seekAll s.cols k).1, err := false }, ROut.ok)) := by
  obtain ⟨hne, hall, hfar, hal⟩ := h
  have hacc := accepts T L k s.cols hall hfar hk
  obtain ⟨a1, a2, a3⟩ := seekAll_spec T k s.cols hall hacc
  unfold rseek
  split
  · simp only [a1, if_true]
    refine ⟨⟨?_, fun c hc => ⟨(a3 c hc).1, (a3 c hc).2.1⟩, by simpa only [seekAll_m] using hfar,
      fun _ => ⟨k, ?_, Or.inr rfl, a3⟩⟩, trivial, ?_, fun _ => trivial⟩
    · intro h; exact hne (a2.mp h)
    · intro hL
      rcases hk with hk | hk
      · exact hk
      · rw [hL] at hk; cases hk
    · simp only [rpos, Bool.false_eq_true, if_false]
      have : ¬ ((k : Int) < 0) := by omega
      simp [this]
  · rename_i hc
    have h1 : (k : Int) = s.rowIndex := by
      by_cases hk' : (k : Int) = s.rowIndex
      · exact hk'
      · exact absurd (Or.inl hk') hc
    have h2 : s.err = false := by
      cases hf : s.err with
      | false => rfl
      | true => exact absurd (Or.inr hf) hc
    refine ⟨⟨hne, hall, hfar, hal⟩, rfl, ?_, fun h => absurd h hc⟩
    simp only [rpos, h2, Bool.false_eq_true, if_false]
    have : ¬ s.rowIndex < 0 := by omega
    simp only [this, if_false]
    congr 1; omega

/-- a seek beyond the last row of strict readers: refused by the first column, nothing changes -/
theorem rseek_refused (T : Nat) (s : RSt.{u}) (k : Nat) (hk : T < k) (h : RInv T false s) :
    RInv T false (rseek s k).1 ∧ (rseek s k).2 = .err ∧ rpos (rseek s k).1 = rpos s := by
  obtain ⟨hne, hall, hfar, hal⟩ := h
  cases hcs : s.cols with
  | nil => exact absurd hcs hne
  | cons c cs =>
    obtain ⟨hT, hI⟩ := hall c (by simp [hcs])
    have herr : (c.m.step c.s (.seek k)).2 = .err :=
      hfar c.m (by simp [hcs]) c.s k hI.1 (by omega)
    -- the seek is attempted: `rowIndex ≤ T < k` unless the reader is in the failed state
    have hatt : (k : Int) ≠ s.rowIndex ∨ s.err = true := by
      cases he : s.err with
      | true => exact Or.inr rfl
      | false =>
        obtain ⟨p, hp, hri, _⟩ := hal he
        have := hp rfl
        refine Or.inl ?_
        rcases hri with ⟨a, _⟩ | a <;> omega
    have hfalse : (seekAll s.cols k).2 = false := by
      obtain ⟨a1, _, _, _⟩ := c.seek_refused k hI herr
      simp only [hcs, seekAll, a1]
    have hm : (seekAll s.cols k).1.map (·.m) = s.cols.map (·.m) := seekAll_m s.cols k
    have hall' : ∀ c' ∈ (seekAll s.cols k).1, c'.m.total = T ∧ c'.Inv := by
      obtain ⟨a1, a2, a3, _⟩ := c.seek_refused k hI herr
      intro c' hc'
      simp only [hcs, seekAll, a1] at hc'
      simp at hc'
      rcases hc' with rfl | hc'
      · exact ⟨by rw [a2]; exact hT, a3⟩
      · exact hall c' (by simp [hcs, hc'])
    unfold rseek
    rw [if_pos hatt]
    simp only [hfalse, Bool.false_eq_true, if_false]
    refine ⟨⟨?_, hall', by simpa only [hm] using hfar, ?_⟩, trivial, rfl⟩
    · simp only [hcs, seekAll]
      split <;> simp
    · intro he
      obtain ⟨p, hp, hri, hat⟩ := hal he
      refine ⟨p, hp, hri, ?_⟩
      rw [hcs] at hat
      have := (seekAll_refused T k c cs (min p T) hat herr).2.2
      simpa only [hcs] using this

theorem rreadK_spec (T : Nat) (L : Bool) (s : RSt.{u}) (n p : Nat) (hall : ∀ c ∈ s.cols, c.m.total = T ∧ c.Inv)
    (hfar : ∀ m ∈ s.cols.map (·.m), Mode L m) (hpL : L = false → p ≤ T)
    (hne : s.cols ≠ []) (herr : s.err = false) (hri : s.rowIndex = (p : Int)) (hat : ColsAt T s.cols (min p T)) :
    RInv T L (rreadK s n).1 ∧ RSpec T (some p) (.read n) (rpos (rreadK s n).1) (rreadK s n).2 := by
  obtain ⟨a1, a2, a3⟩ := readAll_spec T n (min p T) (by omega) s.cols hat
  have hfar' : ∀ m ∈ (readAll n s.cols).1.map (·.m), Mode L m := by simpa only [readAll_m] using hfar
  unfold rreadK
  split
  · refine ⟨⟨fun h => hne (a2.mp h), a1, hfar', fun h => by cases h⟩, Or.inr ⟨rfl, ?_⟩⟩
    simp [rpos]
  · rename_i hf
    have hf' : (readAll n s.cols).2.2 = false := by simpa using hf
    obtain ⟨b1, _, b3⟩ := a3 hf'
    have hcnt : (readAll n s.cols).2.1 = min n (T - p) := by rw [b1 hne]; omega
    have hq : min p T + min n (T - min p T) = min (p + min n (T - p)) T := by omega
    refine ⟨⟨fun h => hne (a2.mp h), a1, hfar', fun _ => ⟨p + min n (T - p), ?_, Or.inr ?_, ?_⟩⟩, Or.inl ⟨?_, ?_⟩⟩
    · intro hL
      have := hpL hL
      omega
    · simp only [hcnt, hri]; omega
    · rw [← hq]; exact b3
    · simp only [hcnt, hri]; simp
    · simp only [rpos, herr, Bool.false_eq_true, if_false, hcnt, hri]
      have : ¬ ((p : Int) + ((min n (T - p) : Nat) : Int) < 0) := by omega
      simp only [this, if_false]
      congr 1

theorem rstep_spec (T : Nat) (L : Bool) (s : RSt.{u}) (op : ROp) (h : RInv T L s) :
    RInv T L (rstep s op).1 ∧ RSpec T (rpos s) op (rpos (rstep s op).1) (rstep s op).2 := by
  cases op with
  | seek k =>
    by_cases hk : k ≤ T ∨ L = true
    · obtain ⟨a, b, c, _⟩ := rseek_ok T L s k hk h
      exact ⟨a, Or.inl ⟨b, c⟩⟩
    · have hL : L = false := by
        cases L with
        | false => rfl
        | true => exact absurd (Or.inr rfl) hk
      subst hL
      have hk' : T < k := by
        rcases Nat.lt_or_ge T k with a | a
        · exact a
        · exact absurd (Or.inl a) hk
      obtain ⟨a, b, c⟩ := rseek_refused T s k hk' h
      exact ⟨a, Or.inr ⟨b, c, hk'⟩⟩
  | reset =>
    obtain ⟨hne, hall, hfar, _⟩ := h
    have hr := resetAll_spec T s.cols hall
    refine ⟨⟨by simp [rstep, resetAll]; exact hne, fun c hc => ⟨(hr c hc).1, (hr c hc).2.1⟩,
      by simpa only [rstep, resetAll_m] using hfar,
      fun _ => ⟨0, fun _ => Nat.zero_le _, Or.inr rfl, by rw [Nat.zero_min]; exact hr⟩⟩, rfl, by simp [rstep, rpos]⟩
  | read n =>
    simp only [rstep]
    cases herr : s.err with
    | true => simp only [if_true]; exact ⟨h, by simp [RSpec, rpos, herr]⟩
    | false =>
      simp only [Bool.false_eq_true, if_false]
      obtain ⟨hne, hall, hfar, hal⟩ := h
      obtain ⟨p, hpL, hri, hat⟩ := hal herr
      split
      · rename_i hneg
        -- first call: seek to row 0
        obtain ⟨a, b, c, d⟩ := rseek_ok T L s 0 (Or.inl (Nat.zero_le _)) ⟨hne, hall, hfar, hal⟩
        rw [b]
        simp only []
        have hp0 : rpos s = some 0 := by simp [rpos, herr, hneg]
        rw [hp0]
        -- the seek was not skipped (rowIndex is negative), so the reader now stands on row 0
        have hsk := d (Or.inl (by omega))
        obtain ⟨a1, a2, a3⟩ := seekAll_spec T 0 s.cols hall
          (accepts T L 0 s.cols hall hfar (Or.inl (Nat.zero_le _)))
        rw [hsk]
        exact rreadK_spec T L _ n 0 (fun c hc => ⟨(a3 c hc).1, (a3 c hc).2.1⟩)
          (by simpa only [seekAll_m] using hfar) (fun _ => Nat.zero_le _) (fun h => hne (a2.mp h)) rfl rfl
          (by simpa using a3)
      · rename_i hneg
        have hri' : s.rowIndex = (p : Int) := by
          rcases hri with ⟨a, _⟩ | a
          · exact absurd a hneg
          · exact a
        have hp0 : rpos s = some p := by
          simp only [rpos, herr, Bool.false_eq_true, if_false, hneg]
          congr 1; omega
        rw [hp0]
        exact rreadK_spec T L s n p hall hfar hpL hne herr hri' hat

/-! ### histories -/

def routs : RSt.{u} → List ROp → List ROut
  | _, [] => []
  | s, op :: ops => (rstep s op).2 :: routs (rstep s op).1 ops

inductive RRunOK (T : Nat) : Option Nat → List ROp → List ROut → Prop where
  | nil (n) : RRunOK T n [] []
  | cons {n op n' out ops os} : RSpec T n op n' out → RRunOK T n' ops os → RRunOK T n (op :: ops) (out :: os)

theorem rrun_refines (T : Nat) (L : Bool) : ∀ (ops : List ROp) (s : RSt.{u}), RInv T L s →
    RRunOK T (rpos s) ops (routs s ops)
  | [], _, _ => RRunOK.nil _
  | op :: ops, s, h => by
    obtain ⟨a, b⟩ := rstep_spec T L s op h
    exact RRunOK.cons b (rrun_refines T L ops _ a)

/-- a fresh row reader over the page readers of its columns -/
def rinit (ms : List Machine.{u}) : RSt.{u} :=
  { rowIndex := -1, cols := ms.map fun m => { m := m, s := m.init, buf := 0 }, err := false }

theorem rinit_inv (T : Nat) (L : Bool) (ms : List Machine.{u}) (hne : ms ≠ []) (hT : ∀ m ∈ ms, m.total = T)
    (hfar : ∀ m ∈ ms, Mode L m) : RInv T L (rinit ms) := by
  have hcols : ∀ c ∈ (rinit ms).cols, c.m.total = T ∧ c.Inv ∧ c.npos = some 0 := by
    intro c hc
    simp only [rinit, List.mem_map] at hc
    obtain ⟨m, hm, rfl⟩ := hc
    exact ⟨hT m hm, ⟨m.init_inv, Or.inl rfl⟩, by simp [Col.npos, m.init_pos]⟩
  refine ⟨by simp [rinit]; exact hne, fun c hc => ⟨(hcols c hc).1, (hcols c hc).2.1⟩, ?_,
    fun _ => ⟨0, fun _ => Nat.zero_le _, Or.inl ⟨by simp [rinit], rfl⟩, by rw [Nat.zero_min]; exact hcols⟩⟩
  intro m hm
  simp only [rinit, List.map_map, List.mem_map, Function.comp_def] at hm
  obtain ⟨m', hm', rfl⟩ := hm
  exact hfar m' hm'

end PqModel.ReaderSeek
