import PqModel.Reset
import PqModel.LevelStats

/-! # C17 — level histograms and size statistics across `Reset` (state → bytes)

`Reset.lean` treats `levelHist` / `pageLevelHists` / `totalUnencoded` as opaque fields that the column
reset empties. This file models what those fields are made of and how the NEXT file's bytes are computed
from them, including the one thing `Reset.lean` leaves out: SPARE CAPACITY. `(*ColumnWriter).reset`
(writer.go 2130-2134) keeps the backing arrays of the per-page histograms (`s = s[:0]`), so the counts of
the previous row group / file stay in memory behind the slice; `accumulateAndAppendPageLevelHistogram`
(writer_statistics.go 56-75) re-extends the slice over that memory (`slices.Grow(s, n)[:len+n]`).

MIRROR (as the code is): `CapSlice.extend` (slices.Grow + reslice), `appendPage` (writer_statistics.go
56-75), `LevelHist.reset` (writer.go 2130-2134), `pageStep` (writer.go 2888-2911 `recordPageStats`),
`emit` (writer.go 1613-1629 `writeRowGroup`: what goes into ColumnIndex / SizeStatistics).
SPEC: `LevelStats.chunkHists` / `chunkUnencoded` (C05: histogram = count of each level per page and per
chunk, written from the format documents).

Theorems (`Props/C17Hist.lean` states them at full strength): whatever the writer did before the
Reset — any pages, any earlier resets, any capacities — the statistics emitted for the pages written
after it are the SPEC's function of those pages only. The mirror variant without the `clear` (seeded
change C17-3a) is refuted by a two-page witness. -/

namespace PqModel.ResetHist
open PqModel.LevelStats

/-- A Go `[]int64` together with its spare capacity: `live` = elements `[0, len)`,
`spare` = elements `[len, cap)` of the same backing array (what a later reslice would expose). -/
structure CapSlice where
  live : List Nat
  spare : List Nat
deriving DecidableEq

/-- a nil slice -/
def CapSlice.empty : CapSlice := ⟨[], []⟩

/-- `s[:0]`: same backing array, every element becomes spare capacity -/
def CapSlice.truncate (s : CapSlice) : CapSlice := ⟨[], s.live ++ s.spare⟩

/-- MIRROR `slices.Grow(s, n)[:len(s)+n]` (go/src/slices/slices.go `Grow`: when the capacity does not
suffice, `append(s[:cap(s)], make([]E, n-spare)...)[:len(s)]` — the new array starts with a copy of the
WHOLE old array, spare part included, followed by zeroed memory; `extra` is however much capacity the
runtime's size classes add on top). The elements the reslice exposes are therefore the old spare elements
first, zeros after them. -/
def CapSlice.extend (s : CapSlice) (n extra : Nat) : CapSlice :=
  if n ≤ s.spare.length then ⟨s.live ++ s.spare.take n, s.spare.drop n⟩
  else ⟨s.live ++ (s.spare ++ List.replicate (n - s.spare.length) 0), List.replicate extra 0⟩

/-- `clear(s[start:])` -/
def CapSlice.clearFrom (s : CapSlice) (start : Nat) : CapSlice :=
  ⟨s.live.take start ++ List.replicate (s.live.length - start) 0, s.spare⟩

/-- MIRROR `accumulateAndAppendPageLevelHistogram`, writer_statistics.go 56-75.
`clr = true` is the code as it stands; `clr = false` drops the `clear(...)` line ("Grow returns zeroed
memory"). Returns the updated column histogram and the updated per-page histograms. -/
def appendPage (clr : Bool) (col : List Nat) (ph : CapSlice) (levels : List Nat) (maxLevel extra : Nat) :
    List Nat × CapSlice :=
  let start := ph.live.length
  let g := ph.extend (maxLevel + 1) extra
  let g := if clr then g.clearFrom start else g
  (levels.foldl bump col, ⟨g.live.take start ++ levels.foldl bump (g.live.drop start), g.spare⟩)

/-- the histogram state of one level kind (repetition or definition) of one column writer -/
structure LevelHist where
  maxLevel : Nat
  col : List Nat        -- c.repetitionLevelHistogram / c.definitionLevelHistogram
  pages : CapSlice      -- c.pageRepetitionLevelHistograms / c.pageDefinitionLevelHistograms
deriving DecidableEq

/-- MIRROR writer.go 826-832: `make([]int64, maxLevel+1)`, page histograms nil -/
def LevelHist.fresh (maxLevel : Nat) : LevelHist := ⟨maxLevel, List.replicate (maxLevel + 1) 0, CapSlice.empty⟩

/-- MIRROR writer.go 2131-2134: `clear(c.xLevelHistogram)`; `c.pageXLevelHistograms[:0]` -/
def LevelHist.reset (h : LevelHist) : LevelHist :=
  { h with col := h.col.map (fun _ => 0), pages := h.pages.truncate }

def LevelHist.page (clr : Bool) (h : LevelHist) (levels : List Nat) (extra : Nat) : LevelHist :=
  let r := appendPage clr h.col h.pages levels h.maxLevel extra
  { h with col := r.1, pages := r.2 }

/-- the size-statistics state of a column writer; a level kind is present when its max level is > 0
(writer.go 826-832, 2893-2911) -/
structure ColStats where
  rep : Option LevelHist
  dfn : Option LevelHist
  unencoded : Nat          -- c.totalUnencodedByteArrayBytes
deriving DecidableEq

def ColStats.fresh (maxRep maxDef : Nat) : ColStats :=
  { rep := if maxRep = 0 then none else some (LevelHist.fresh maxRep),
    dfn := if maxDef = 0 then none else some (LevelHist.fresh maxDef), unencoded := 0 }

/-- one recorded data page: its repetition levels, definition levels, the unencoded BYTE_ARRAY bytes it
holds, and the capacity slack the runtime adds should a page-histogram slice have to grow -/
structure PageIn where
  rep : List Nat
  dfn : List Nat
  bytes : Nat
  extraRep : Nat := 0
  extraDef : Nat := 0
deriving DecidableEq

inductive Op
  | page (p : PageIn)
  /-- `(*ColumnWriter).reset`: by `Writer.Reset`, and after every row group (`defer rg.reset()`) -/
  | reset
deriving DecidableEq

/-- MIRROR `recordPageStats` writer.go 2888-2911 / `(*ColumnWriter).reset` writer.go 2130-2134 -/
def step (clr : Bool) (s : ColStats) : Op → ColStats
  | .page p => { rep := s.rep.map (fun h => h.page clr p.rep p.extraRep),
                 dfn := s.dfn.map (fun h => h.page clr p.dfn p.extraDef),
                 unencoded := s.unencoded + p.bytes }
  | .reset => { rep := s.rep.map LevelHist.reset, dfn := s.dfn.map LevelHist.reset, unencoded := 0 }

def run (clr : Bool) (s : ColStats) (ops : List Op) : ColStats := ops.foldl (step clr) s

/-- what `writeRowGroup` serialises from this state (writer.go 1613-1629) -/
structure Emitted where
  sizeUnencoded : Nat                       -- SizeStatistics.unencoded_byte_array_data_bytes
  sizeRep : Option (List Nat)               -- SizeStatistics.repetition_level_histogram
  sizeDef : Option (List Nat)               -- SizeStatistics.definition_level_histogram
  indexRep : Option (List Nat)              -- ColumnIndex.repetition_level_histograms
  indexDef : Option (List Nat)              -- ColumnIndex.definition_level_histograms
deriving DecidableEq

def emit (s : ColStats) : Emitted :=
  { sizeUnencoded := s.unencoded, sizeRep := s.rep.map (·.col), sizeDef := s.dfn.map (·.col),
    indexRep := s.rep.map (·.pages.live), indexDef := s.dfn.map (·.pages.live) }

/-- SPEC (C05, `LevelStats`): the statistics of a chunk holding exactly these pages -/
def specEmit (maxRep maxDef : Nat) (pages : List PageIn) : Emitted :=
  { sizeUnencoded := (pages.map (·.bytes)).sum,
    sizeRep := if maxRep = 0 then none else some (chunkHists maxRep (pages.map (·.rep))).1,
    sizeDef := if maxDef = 0 then none else some (chunkHists maxDef (pages.map (·.dfn))).1,
    indexRep := if maxRep = 0 then none else some (chunkHists maxRep (pages.map (·.rep))).2,
    indexDef := if maxDef = 0 then none else some (chunkHists maxDef (pages.map (·.dfn))).2 }

/-! ## lemmas -/

theorem extend_live (s : CapSlice) (n extra : Nat) :
    ∃ x, x.length = n ∧ (s.extend n extra).live = s.live ++ x := by
  unfold CapSlice.extend
  split
  · rename_i h
    exact ⟨s.spare.take n, by simp [List.length_take]; omega, rfl⟩
  · rename_i h
    refine ⟨s.spare ++ List.replicate (n - s.spare.length) 0, ?_, rfl⟩
    simp; omega

/-- the clearing append: the per-page block is the spec's page histogram, whatever the spare capacity held -/
theorem appendPage_live (col : List Nat) (ph : CapSlice) (levels : List Nat) (maxLevel extra : Nat) :
    (appendPage true col ph levels maxLevel extra).2.live = ph.live ++ pageHist maxLevel levels := by
  obtain ⟨x, hx, he⟩ := extend_live ph (maxLevel + 1) extra
  simp only [appendPage, if_true, CapSlice.clearFrom, he, pageHist]
  simp [hx]

theorem appendPage_col (clr : Bool) (col : List Nat) (ph : CapSlice) (levels : List Nat) (maxLevel extra : Nat) :
    (appendPage clr col ph levels maxLevel extra).1 = accumulate col levels := rfl

/-- pages recorded one after the other by the clearing code = the spec's fold, from any starting state -/
theorem pages_fold (h : LevelHist) (pages : List (List Nat × Nat)) :
    let h' := pages.foldl (fun h p => LevelHist.page true h p.1 p.2) h
    h'.maxLevel = h.maxLevel ∧
    (h'.col, h'.pages.live) =
      (pages.map (·.1)).foldl (fun (acc : List Nat × List Nat) lv =>
        (accumulate acc.1 lv, acc.2 ++ pageHist h.maxLevel lv)) (h.col, h.pages.live) := by
  induction pages generalizing h with
  | nil => exact ⟨rfl, rfl⟩
  | cons p rest ih =>
    have := ih (LevelHist.page true h p.1 p.2)
    simp only [List.foldl_cons, List.map_cons]
    refine ⟨this.1, ?_⟩
    rw [this.2]
    simp only [LevelHist.page, appendPage_live, appendPage_col]

theorem reset_clean (h : LevelHist) (hl : h.col.length = h.maxLevel + 1) :
    h.reset.maxLevel = h.maxLevel ∧ h.reset.col = List.replicate (h.maxLevel + 1) 0 ∧ h.reset.pages.live = [] := by
  refine ⟨rfl, ?_, rfl⟩
  simp only [LevelHist.reset]
  rw [← hl]
  exact List.map_const' ..

theorem page_col_length (clr : Bool) (h : LevelHist) (levels : List Nat) (extra : Nat) :
    (h.page clr levels extra).col.length = h.col.length ∧ (h.page clr levels extra).maxLevel = h.maxLevel := by
  refine ⟨?_, rfl⟩
  simp only [LevelHist.page, appendPage_col, accumulate]
  generalize h.col = c
  induction levels generalizing c with
  | nil => rfl
  | cons l ls ih => simp only [List.foldl_cons]; rw [ih, bump_length]

/-- the well-formedness every operation keeps: the column histogram has `maxLevel + 1` counters -/
def LevelHist.OK (h : LevelHist) : Prop := h.col.length = h.maxLevel + 1

def ColStats.OK (maxRep maxDef : Nat) (s : ColStats) : Prop :=
  (match s.rep with | none => maxRep = 0 | some h => maxRep ≠ 0 ∧ h.maxLevel = maxRep ∧ h.OK) ∧
  (match s.dfn with | none => maxDef = 0 | some h => maxDef ≠ 0 ∧ h.maxLevel = maxDef ∧ h.OK)

theorem fresh_ok (maxRep maxDef : Nat) : (ColStats.fresh maxRep maxDef).OK maxRep maxDef := by
  unfold ColStats.fresh ColStats.OK
  constructor
  · by_cases h : maxRep = 0 <;> simp [h, LevelHist.fresh, LevelHist.OK]
  · by_cases h : maxDef = 0 <;> simp [h, LevelHist.fresh, LevelHist.OK]

theorem step_ok (clr : Bool) (maxRep maxDef : Nat) (s : ColStats) (op : Op) (h : s.OK maxRep maxDef) :
    (step clr s op).OK maxRep maxDef := by
  obtain ⟨h1, h2⟩ := h
  cases op with
  | page p =>
    constructor
    · cases hr : s.rep with
      | none => simpa [step, hr] using h1
      | some x =>
        rw [hr] at h1
        simp only [step, hr, Option.map_some]
        exact ⟨h1.1, h1.2.1, by unfold LevelHist.OK; rw [(page_col_length clr x _ _).1, (page_col_length clr x _ _).2]; exact h1.2.2⟩
    · cases hd : s.dfn with
      | none => simpa [step, hd] using h2
      | some x =>
        rw [hd] at h2
        simp only [step, hd, Option.map_some]
        exact ⟨h2.1, h2.2.1, by unfold LevelHist.OK; rw [(page_col_length clr x _ _).1, (page_col_length clr x _ _).2]; exact h2.2.2⟩
  | reset =>
    constructor
    · cases hr : s.rep with
      | none => simpa [step, hr] using h1
      | some x =>
        rw [hr] at h1
        simp only [step, hr, Option.map_some]
        exact ⟨h1.1, h1.2.1, by simpa [LevelHist.OK, LevelHist.reset] using h1.2.2⟩
    · cases hd : s.dfn with
      | none => simpa [step, hd] using h2
      | some x =>
        rw [hd] at h2
        simp only [step, hd, Option.map_some]
        exact ⟨h2.1, h2.2.1, by simpa [LevelHist.OK, LevelHist.reset] using h2.2.2⟩

theorem run_ok (clr : Bool) (maxRep maxDef : Nat) (ops : List Op) (s : ColStats) (h : s.OK maxRep maxDef) :
    (run clr s ops).OK maxRep maxDef := by
  induction ops generalizing s with
  | nil => exact h
  | cons op ops ih => exact ih _ (step_ok clr maxRep maxDef s op h)

/-- one level kind: pages recorded after a reset give the spec's histograms -/
theorem kind_after_clean (h : LevelHist) (hc : h.col = List.replicate (h.maxLevel + 1) 0) (hp : h.pages.live = [])
    (pages : List (List Nat × Nat)) :
    let h' := pages.foldl (fun h p => LevelHist.page true h p.1 p.2) h
    h'.col = (chunkHists h.maxLevel (pages.map (·.1))).1 ∧ h'.pages.live = (chunkHists h.maxLevel (pages.map (·.1))).2 := by
  have := (pages_fold h pages).2
  simp only [hc, hp] at this
  simp only [chunkHists]
  exact ⟨congrArg Prod.fst this, congrArg Prod.snd this⟩

/-- the option-wrapped fold over page ops is the fold inside the option -/
theorem run_pages_proj (s : ColStats) (pages : List PageIn) :
    run true s (pages.map Op.page) =
      { rep := s.rep.map (fun h => (pages.map (fun p => (p.rep, p.extraRep))).foldl (fun h p => LevelHist.page true h p.1 p.2) h),
        dfn := s.dfn.map (fun h => (pages.map (fun p => (p.dfn, p.extraDef))).foldl (fun h p => LevelHist.page true h p.1 p.2) h),
        unencoded := s.unencoded + (pages.map (·.bytes)).sum } := by
  induction pages generalizing s with
  | nil => cases s; simp [run]
  | cons p rest ih =>
    have := ih (step true s (.page p))
    simp only [run, List.map_cons, List.foldl_cons] at this ⊢
    rw [this]
    simp only [step, Option.map_map, List.sum_cons, Nat.add_assoc]
    rfl

/-- a state that holds no counts: what a fresh column writer has, and (theorem) what `reset` leaves -/
def LevelHist.Clean (h : LevelHist) : Prop := h.col = List.replicate (h.maxLevel + 1) 0 ∧ h.pages.live = []

def ColStats.Clean (maxRep maxDef : Nat) (s : ColStats) : Prop :=
  (match s.rep with | none => maxRep = 0 | some h => maxRep ≠ 0 ∧ h.maxLevel = maxRep ∧ h.Clean) ∧
  (match s.dfn with | none => maxDef = 0 | some h => maxDef ≠ 0 ∧ h.maxLevel = maxDef ∧ h.Clean) ∧
  s.unencoded = 0

theorem fresh_clean (maxRep maxDef : Nat) : (ColStats.fresh maxRep maxDef).Clean maxRep maxDef := by
  unfold ColStats.fresh ColStats.Clean
  refine ⟨?_, ?_, rfl⟩
  · by_cases h : maxRep = 0 <;> simp [h, LevelHist.fresh, LevelHist.Clean, CapSlice.empty]
  · by_cases h : maxDef = 0 <;> simp [h, LevelHist.fresh, LevelHist.Clean, CapSlice.empty]

/-- `reset` makes any well-formed state clean — the spare capacity is NOT part of cleanliness -/
theorem reset_makes_clean (clr : Bool) (maxRep maxDef : Nat) (s : ColStats) (h : s.OK maxRep maxDef) :
    (step clr s .reset).Clean maxRep maxDef := by
  obtain ⟨h1, h2⟩ := h
  refine ⟨?_, ?_, rfl⟩
  · cases hr : s.rep with
    | none => simpa [step, hr] using h1
    | some x =>
      rw [hr] at h1
      simp only [step, hr, Option.map_some]
      exact ⟨h1.1, h1.2.1, (reset_clean x h1.2.2).2⟩
  · cases hd : s.dfn with
    | none => simpa [step, hd] using h2
    | some x =>
      rw [hd] at h2
      simp only [step, hd, Option.map_some]
      exact ⟨h2.1, h2.2.1, (reset_clean x h2.2.2).2⟩

/-- from a clean state, the clearing code emits the spec's statistics of the pages recorded since -/
theorem emit_clean (maxRep maxDef : Nat) (s : ColStats) (h : s.Clean maxRep maxDef) (pages : List PageIn) :
    emit (run true s (pages.map Op.page)) = specEmit maxRep maxDef pages := by
  obtain ⟨h1, h2, h3⟩ := h
  rw [run_pages_proj]
  cases hr : s.rep with
  | none =>
    rw [hr] at h1
    cases hd : s.dfn with
    | none =>
      rw [hd] at h2
      simp [emit, specEmit, h1, h2, h3]
    | some y =>
      rw [hd] at h2
      have ky := kind_after_clean y h2.2.2.1 h2.2.2.2 (pages.map (fun p => (p.dfn, p.extraDef)))
      simp only [List.map_map, h2.2.1] at ky
      simp only [emit, specEmit, h1, h2.1, h3, Option.map_none, Option.map_some, if_true, if_false, Nat.zero_add]
      rw [ky.1, ky.2]
      rfl
  | some x =>
    rw [hr] at h1
    have kx := kind_after_clean x h1.2.2.1 h1.2.2.2 (pages.map (fun p => (p.rep, p.extraRep)))
    simp only [List.map_map, h1.2.1] at kx
    cases hd : s.dfn with
    | none =>
      rw [hd] at h2
      simp only [emit, specEmit, h1.1, h2, h3, Option.map_none, Option.map_some, if_true, if_false, Nat.zero_add]
      rw [kx.1, kx.2]
      rfl
    | some y =>
      rw [hd] at h2
      have ky := kind_after_clean y h2.2.2.1 h2.2.2.2 (pages.map (fun p => (p.dfn, p.extraDef)))
      simp only [List.map_map, h2.2.1] at ky
      simp only [emit, specEmit, h1.1, h2.1, h3, Option.map_some, if_false, Nat.zero_add]
      rw [kx.1, kx.2, ky.1, ky.2]
      rfl

end PqModel.ResetHist
