import PqModel.ThriftDecodeProofs

/-! Lemmas: the fuel of the typed decoder mirror (`fuelD d`) is never exhausted - the mirror's answer is
    that of the unbounded recursion of the Go code. -/
namespace PqModel.ThriftDecode
open PqModel.IoFault (Bytes)
open PqModel.ThriftSkip

abbrev fuelErr : TR := .error (.sk .fuel)

theorem lift_nofuel {α} {r : PR α} (fe : SkErr → SkErr) [hfe : NoFuel fe] {k : α → Nat → TR}
    (hr : r ≠ .error .fuel) (hk : ∀ a p, r = .ok (a, p) → k a p ≠ fuelErr) : lift r fe k ≠ fuelErr := by
  cases r with
  | error e =>
    simp only [lift]
    intro h
    injection h with h
    injection h with h
    exact hr (by rw [hfe.keep e h])
  | ok ap => obtain ⟨a, p⟩ := ap; exact hk a p rfl

theorem seqT_nofuel {r : TR} (fe : SkErr → SkErr) [hfe : NoFuel fe] {k : Nat → TR}
    (hr : r ≠ fuelErr) (hk : ∀ p, r = .ok p → k p ≠ fuelErr) : seqT r fe k ≠ fuelErr := by
  cases r with
  | error e =>
    simp only [seqT]
    intro h
    injection h with h
    cases e with
    | sk e' =>
      simp only [mapE] at h
      injection h with h
      exact hr (by rw [hfe.keep e' h])
    | missing id => simp [mapE] at h
    | oom n => simp [mapE] at h
  | ok p => exact hk p rfl

theorem okT_nofuel (p : Nat) : (Except.ok p : TR) ≠ fuelErr := by intro h; cases h

theorem readBinary_nofuel (d : Bytes) (pos : Nat) : readBinary d pos ≠ .error .fuel := by
  unfold readBinary
  refine seq_nofuel _ (readUvarint_nofuel _ d pos) fun n p _ => ?_
  split <;> intro h <;> cases h

theorem readFieldT_nofuel (d : Bytes) (pos : Nat) : readFieldT d pos ≠ .error .fuel := by
  unfold readFieldT
  refine seq_nofuel _ (readByte_nofuel d pos) fun b p _ => ?_
  exact ite_nofuel _ (ok_nofuel _) (ite_nofuel _ (ok_nofuel _)
    (seq_nofuel _ (readVarint_nofuel _ _ d p) fun _ q _ => ok_nofuel _))

theorem readFieldT_prog (d : Bytes) (pos : Nat) : Prog d pos (readFieldT d pos) := by
  intro h p e
  exact readField_prog d pos _ p (readFieldT_walk d pos h p e)

/-- an accepted value consumes at least one byte and ends inside the input -/
theorem decT_val_prog (mem : Option Nat) (d : Bytes) (f : Nat) (t : Ty) (pos q : Nat)
    (h : decT mem d f (.val t) pos = .ok q) : pos < q ∧ q ≤ d.length := by
  obtain ⟨f', h'⟩ := decT_walk mem d f _ pos q h
  exact item_prog d f' _ pos _ q h'

/-- fuel that suffices for a task with `rem` bytes left -/
def needD : DTask → Nat → Nat
  | .val _, rem => 4 * rem + 6
  | .elems _ _, rem => 4 * rem + 7
  | .fields _ _ _ _, rem => 4 * rem + 5

theorem decT_nofuel (mem : Option Nat) (d : Bytes) : ∀ (f : Nat) (t : DTask) (pos : Nat), pos ≤ d.length →
    needD t (d.length - pos) ≤ f → decT mem d f t pos ≠ fuelErr := by
  intro f
  induction f with
  | zero => intro t pos _ h; cases t <;> simp [needD] at h
  | succ f ih =>
    intro t pos hpos hn
    cases t with
    | val t =>
      simp only [needD] at hn
      cases t with
      | bool => simp only [decT]; exact lift_nofuel _ (readByte_nofuel d pos) fun _ p _ => okT_nofuel _
      | i8 => simp only [decT]; exact lift_nofuel _ (readByte_nofuel d pos) fun _ p _ => okT_nofuel _
      | i16 => simp only [decT]; exact lift_nofuel _ (readVarint_nofuel _ _ d pos) fun _ p _ => okT_nofuel _
      | i32 => simp only [decT]; exact lift_nofuel _ (readVarint_nofuel _ _ d pos) fun _ p _ => okT_nofuel _
      | i64 => simp only [decT]; exact lift_nofuel _ (readVarint_nofuel _ _ d pos) fun _ p _ => okT_nofuel _
      | double => simp only [decT]; exact lift_nofuel _ (readFloat_nofuel d pos) fun _ p _ => okT_nofuel _
      | binary => simp only [decT]; exact lift_nofuel _ (readBinary_nofuel d pos) fun _ p _ => okT_nofuel _
      | list e =>
        simp only [decT]
        refine lift_nofuel _ (readList_nofuel d pos) fun l p hr => ?_
        have hp := readList_prog d pos l p hr
        generalize (if l.1 = 1 then 2 else l.1) = ty'
        by_cases hw : wire e ≠ ty'
        · simp only [if_pos hw]
          exact lift_nofuel _ (skipT_nofuel d f (.items ty' l.2) p hp.2 (by simp only [need]; omega)) fun _ q _ => okT_nofuel _
        · simp only [if_neg hw]
          split
          · intro h; cases h
          · exact ih (.elems e l.2) p hp.2 (by simp only [needD]; omega)
      | struct fs => simp only [decT]; exact ih _ pos hpos (by simp only [needD]; omega)
      | union ms => simp only [decT]; exact ih _ pos hpos (by simp only [needD]; omega)
    | elems t n =>
      simp only [needD] at hn
      cases n with
      | zero => simp only [decT]; exact okT_nofuel _
      | succ n =>
        simp only [decT]
        refine seqT_nofuel _ (ih _ pos hpos (by simp only [needD]; omega)) fun p e => ?_
        have := decT_val_prog mem d f t pos p e
        exact ih _ p this.2 (by simp only [needD]; omega)
    | fields fs first last seen =>
      simp only [needD] at hn
      simp only [decT]
      refine lift_nofuel _ (readFieldT_nofuel d pos) fun h p e => ?_
      have h1 := readFieldT_prog d pos h p e
      cases h with
      | none =>
        simp only
        split
        · intro h; cases h
        · exact okT_nofuel _
      | some x =>
        obtain ⟨ty, raw, delta⟩ := x
        simp only
        have skipBranch : ∀ seen' fid,
            lift (skipT d f (.val ty) p) dontExpectEOF
              (fun _ q => decT mem d f (.fields fs false fid seen') q) ≠ fuelErr := by
          intro seen' fid
          refine lift_nofuel _ (skipT_nofuel d f _ p h1.2 (by simp only [need]; omega)) fun _ q e2 => ?_
          have h2 := skipT_mono d f _ p _ q e2
          exact ih _ q (h2.2 h1.2) (by simp only [needD]; have := h2.1; omega)
        split
        · exact skipBranch _ _
        · split
          · exact skipBranch _ _
          · split
            · exact ih _ p h1.2 (by simp only [needD]; omega)
            · refine seqT_nofuel _ (ih _ p h1.2 (by simp only [needD]; omega)) fun q e2 => ?_
              have h2 := decT_val_prog mem d f _ p q e2
              exact ih _ q h2.2 (by simp only [needD]; omega)

/-- **the typed decoder mirror never runs out of fuel** -/
theorem decStruct_nofuel (mem : Option Nat) (fs : List FieldD) (d : Bytes) :
    decStruct mem fs d ≠ .error (.sk .fuel) :=
  decT_nofuel mem d _ _ 0 (Nat.zero_le _) (by simp only [needD, fuelD, fuelFor]; omega)

/-! ## more fuel changes nothing once the decoder did not run out -/

/-- unless `r` ran out of fuel, `r'` is the same answer -/
def SameT (r r' : TR) : Prop := r ≠ fuelErr → r' = r

theorem SameT.refl (r : TR) : SameT r r := fun _ => rfl

theorem lift_same {α} {r r' : PR α} (fe : SkErr → SkErr) [hfe : FuelFix fe] {k k' : α → Nat → TR}
    (hr : Same r r') (hk : ∀ a p, SameT (k a p) (k' a p)) : SameT (lift r fe k) (lift r' fe k') := by
  intro h
  cases r with
  | error e =>
    have : (Except.error e : PR α) ≠ .error .fuel := by
      intro he
      injection he with he
      subst he
      simp only [lift, hfe.fix] at h
      exact h rfl
    rw [hr this]
    rfl
  | ok ap =>
    obtain ⟨a, p⟩ := ap
    rw [hr (by intro he; cases he)]
    simp only [lift] at h ⊢
    exact hk a p h

theorem seqT_same {r r' : TR} (fe : SkErr → SkErr) [hfe : FuelFix fe] {k k' : Nat → TR}
    (hr : SameT r r') (hk : ∀ p, SameT (k p) (k' p)) : SameT (seqT r fe k) (seqT r' fe k') := by
  intro h
  cases r with
  | error e =>
    have : (Except.error e : TR) ≠ fuelErr := by
      intro he
      injection he with he
      subst he
      simp only [seqT, mapE, hfe.fix] at h
      exact h rfl
    rw [hr this]
    rfl
  | ok p =>
    rw [hr (by intro he; cases he)]
    simp only [seqT] at h ⊢
    exact hk p h

theorem decT_same_succ (mem : Option Nat) (d : Bytes) : ∀ (f : Nat) (t : DTask) (pos : Nat),
    SameT (decT mem d f t pos) (decT mem d (f + 1) t pos) := by
  intro f
  induction f with
  | zero => intro t pos h; simp [decT] at h
  | succ f ih =>
    intro t pos
    cases t with
    | val t =>
      cases t with
      | bool => simp only [decT]; exact SameT.refl _
      | i8 => simp only [decT]; exact SameT.refl _
      | i16 => simp only [decT]; exact SameT.refl _
      | i32 => simp only [decT]; exact SameT.refl _
      | i64 => simp only [decT]; exact SameT.refl _
      | double => simp only [decT]; exact SameT.refl _
      | binary => simp only [decT]; exact SameT.refl _
      | list e =>
        simp only [decT]
        refine lift_same _ (Same.refl _) fun l p => ?_
        generalize (if l.1 = 1 then 2 else l.1) = ty'
        by_cases hw : wire e ≠ ty'
        · simp only [if_pos hw]
          exact lift_same _ (skipT_same_succ d f _ p) fun _ q => SameT.refl _
        · simp only [if_neg hw]
          split
          · exact SameT.refl _
          · exact ih _ p
      | struct fs => simp only [decT]; exact ih _ pos
      | union ms => simp only [decT]; exact ih _ pos
    | elems t n =>
      cases n with
      | zero => simp only [decT]; exact SameT.refl _
      | succ n => simp only [decT]; exact seqT_same _ (ih _ pos) fun p => ih _ p
    | fields fs first last seen =>
      simp only [decT]
      refine lift_same _ (Same.refl _) fun h p => ?_
      cases h with
      | none => exact SameT.refl _
      | some x =>
        obtain ⟨ty, raw, delta⟩ := x
        simp only
        split
        · exact lift_same _ (skipT_same_succ d f _ p) fun _ q => ih _ q
        · split
          · exact lift_same _ (skipT_same_succ d f _ p) fun _ q => ih _ q
          · split
            · exact ih _ p
            · exact seqT_same _ (ih _ p) fun q => ih _ q

/-- **more fuel changes nothing** once a run did not exhaust its fuel -/
theorem decT_fuel_irrelevant (mem : Option Nat) (d : Bytes) (t : DTask) (pos : Nat) {f f' : Nat} (h : f ≤ f')
    (hn : decT mem d f t pos ≠ fuelErr) : decT mem d f' t pos = decT mem d f t pos := by
  induction h with
  | refl => rfl
  | step _ ih => rw [decT_same_succ mem d _ t pos (by rw [ih]; exact hn), ih]

/-- `decStruct` is the decoder at any fuel that is at least `fuelD d` -/
theorem decStruct_eq_of_fuel (mem : Option Nat) (fs : List FieldD) (d : Bytes) (f : Nat) (h : fuelD d ≤ f) :
    decT mem d f (.fields fs true 0 []) 0 = decStruct mem fs d :=
  decT_fuel_irrelevant mem d _ 0 h (decStruct_nofuel mem fs d)

end PqModel.ThriftDecode
