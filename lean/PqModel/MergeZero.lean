import PqModel.Merge

/-! # C09 — MIRROR (as is) of `mergedRowReader2` over sources that answer `(0, nil)`

`bufferedRowReader.read` (merge.go:996) treats `(0, nil)` as a successful refill: the buffer stays
empty (`off = end = 0`) but the reader stays live, and `head()` then returns `buf[0]`, the first row
of the previous fill. For the two-input reader `head`, `next` and `emitRun`'s `window()[:1]` then
behave as if the window were that stale row, while `empty()` stays true (the next `ReadRows` call
reads again): modelled as the window `[slot0]` with the flag `ghost`.
A refill-stream entry `0` stands for a `(0, nil)` answer (in `Merge.lean` it is clamped to 1:
the main theorems assume sources that deliver a row per successful read). -/
namespace PqModel.Merge

structure BufZ where
  b : Buf
  /-- `buf[0]`: first row of the last fill -/
  slot0 : Row
  /-- the window is the stale `buf[0]` of a buffer that is really empty -/
  ghost : Bool

/-- merge.go:996-1014 with a source that may answer `(0, nil)` -/
def BufZ.read (z : BufZ) : Option BufZ :=
  match z.b.sizes, z.b.src with
  | 0 :: rest, _ :: _ =>
    some { z with b := { z.b with sizes := rest, win := [z.slot0], cap := z.b.nextCap, full := false }, ghost := true }
  | _, _ =>
    match { z.b with win := [] }.read with
    | none => none
    | some b' => some { b := b', slot0 := b'.win.headD z.slot0, ghost := false }

/-- the buffer after rows were consumed: a ghost row that was emitted is gone -/
def BufZ.after (z : BufZ) (b' : Buf) : BufZ := { z with b := b', ghost := z.ghost && !b'.win.isEmpty }

def refillZ : Option BufZ → Option BufZ
  | none => none
  | some z => if z.b.empty || z.ghost then z.read else some z

structure M2Z where
  r0 : Option BufZ
  r1 : Option BufZ
  prev : Int
  streak : Nat
  initialized : Bool

/-- merge.go:583-697 -/
def M2Z.readRows (st : M2Z) (m : Nat) : List Row × Bool × M2Z :=
  let st := if st.initialized then st
            else { st with r0 := st.r0.bind BufZ.read, r1 := st.r1.bind BufZ.read, initialized := true }
  match refillZ st.r0, refillZ st.r1 with
  | none, none => ([], true, { st with r0 := none, r1 := none })
  | none, some b =>
    ((emitSingle m b.b).1, false, { st with r0 := none, r1 := some (b.after (emitSingle m b.b).2) })
  | some a, none =>
    ((emitSingle m a.b).1, false, { st with r0 := some (a.after (emitSingle m a.b).2), r1 := none })
  | some a, some b =>
    let l := M2.loop m m a.b b.b st.prev st.streak
    (l.1, false, { st with r0 := some (a.after l.2.1), r1 := some (b.after l.2.2.1),
                           prev := l.2.2.2.1, streak := l.2.2.2.2 })

def M2Z.session : M2Z → List Nat → List (List Row)
  | _, [] => []
  | st, m :: ms =>
    if (st.readRows m).2.1 then [(st.readRows m).1]
    else (st.readRows m).1 :: M2Z.session (st.readRows m).2.2 ms

def M2Z.new (a b : List Row) (ra rb : List Nat) : M2Z :=
  { r0 := some { b := Buf.fresh a ra, slot0 := default, ghost := false }, r1 := some { b := Buf.fresh b rb, slot0 := default, ghost := false },
    prev := 0, streak := 0, initialized := false }

end PqModel.Merge
