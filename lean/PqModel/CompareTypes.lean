import PqModel.Stats
import PqModel.Compare

/-! # C05 — MIRRORS of the three-way comparison functions behind `Type.Compare` (compare.go, type_*.go)

`Type.Compare` of every leaf type ends in one of the functions of compare.go:59-180
(`compareBool`, `compareInt32/64`, `compareUint32/64`, `compareFloat32/64`, `compareBE128`, `lessBE128`) or in
`bytes.Compare` of the Go standard library (BYTE_ARRAY, FIXED_LEN_BYTE_ARRAY, STRING, JSON, BSON, ENUM, INTERVAL).
Until now those functions entered C05 only through the SPEC orders of `Stats.lean` (`sint`, `uint`, `float`,
`bytes`), tied to the real code by sampling. This file transliterates them; `Props/C05Compare.lean` proves that
each mirror IS the three-way reading of its spec order.

Go primitives and how they are read here:
* `<` on `int32/int64` = two's complement signed comparison `BitVec.slt`; on `uint32/uint64` = `BitVec.ult`.
* `<` on `float32/float64` = the IEEE-754 comparison predicate (Go spec, "Comparison operators": as defined by
  IEEE-754): false as soon as one operand is NaN, otherwise the comparison of the extended real numbers the two
  bit patterns denote (`-0 = +0`). `ieeeLt` below is written from that definition by decoding sign, exponent and
  mantissa; it does not use the sign-magnitude trick `fKey` of `Stats.lean`, and the theorem is that both agree.
* `bytes.Compare` = internal/bytealg/compare_generic.go:11-36 (the assembly versions are tied by L2).
* `binary.BigEndian.Uint64` = encoding/binary/byteorder.go `uint64(b[7]) | uint64(b[6])<<8 | …`. -/
namespace PqModel.CompareTypes
open PqModel PqModel.Stats

/-- Go `switch { case lt: return -1; case gt: return +1; default: return 0 }` -/
def three (lt gt : Bool) : Int := if lt then -1 else if gt then 1 else 0

/-- MIRROR compare.go:59-68 `compareBool` -/
def compareBool (v1 v2 : Bool) : Int := three (!v1 && v2) (v1 && !v2)

/-- MIRROR compare.go:70-90 `compareInt32` / `compareInt64` (`w` = 32 / 64) -/
def compareSigned {w : Nat} (v1 v2 : BitVec w) : Int := three (v1.slt v2) (v2.slt v1)

/-- MIRROR compare.go:125-145 `compareUint32` / `compareUint64` -/
def compareUnsigned {w : Nat} (v1 v2 : BitVec w) : Int := three (v1.ult v2) (v2.ult v1)

abbrev compareInt32 (a b : BitVec 32) : Int := compareSigned a b
abbrev compareInt64 (a b : BitVec 64) : Int := compareSigned a b
abbrev compareUint32 (a b : BitVec 32) : Int := compareUnsigned a b
abbrev compareUint64 (a b : BitVec 64) : Int := compareUnsigned a b

/-! ## IEEE-754 binary formats: `e` exponent bits, `m` mantissa bits, bit pattern `BitVec (1 + e + m)` -/

/-- the bits below the sign bit -/
def fBody (e m : Nat) (b : BitVec (1 + e + m)) : Nat := b.toNat % 2 ^ (e + m)
/-- sign bit -/
def fSign (e m : Nat) (b : BitVec (1 + e + m)) : Bool := decide (2 ^ (e + m) ≤ b.toNat)
/-- biased exponent field -/
def fExp (e m : Nat) (b : BitVec (1 + e + m)) : Nat := fBody e m b / 2 ^ m
/-- mantissa (fraction) field -/
def fMant (e m : Nat) (b : BitVec (1 + e + m)) : Nat := fBody e m b % 2 ^ m

/-- IEEE-754: NaN = exponent all ones and a non-zero fraction -/
def ieeeIsNaN (e m : Nat) (b : BitVec (1 + e + m)) : Bool := fExp e m b == 2 ^ e - 1 && fMant e m b != 0

/-- the magnitude a body `x = exp * 2^m + frac` denotes, scaled by `2^(bias + m - 1)` so that it is a natural
    number: subnormals `frac · 2^0`, normals `(2^m + frac) · 2^(exp-1)`. The infinities (exponent all ones, fraction
    0) get the number the next binade would start with, which is above every finite magnitude. -/
def magOf (m : Nat) (x : Nat) : Nat := if x / 2 ^ m = 0 then x % 2 ^ m else (2 ^ m + x % 2 ^ m) * 2 ^ (x / 2 ^ m - 1)

/-- SPEC (IEEE-754): the extended real number a non-NaN bit pattern denotes, scaled by `2^(bias + m - 1)` -/
def fDenote (e m : Nat) (b : BitVec (1 + e + m)) : Int :=
  if fSign e m b then - (magOf m (fBody e m b) : Int) else (magOf m (fBody e m b) : Int)

/-- Go's `a < b` on floats: IEEE-754 `compareQuietLess` -/
def ieeeLt (e m : Nat) (a b : BitVec (1 + e + m)) : Bool :=
  !ieeeIsNaN e m a && !ieeeIsNaN e m b && decide (fDenote e m a < fDenote e m b)

/-- MIRROR compare.go:103-123 `compareFloat32` (`e m = 8 23`) / `compareFloat64` (`11 52`): `v1 > v2` is `v2 < v1` -/
def compareFloat (e m : Nat) (v1 v2 : BitVec (1 + e + m)) : Int := three (ieeeLt e m v1 v2) (ieeeLt e m v2 v1)

abbrev compareFloat32 (a b : BitVec 32) : Int := compareFloat 8 23 a b
abbrev compareFloat64 (a b : BitVec 64) : Int := compareFloat 11 52 a b

/-! ## byte strings -/

/-- MIRROR internal/bytealg/compare_generic.go:11-36 `bytes.Compare`: the first differing byte decides, then the
    lengths (type_byte_array.go:19, type_fixed_len_byte_array.go:32-34, type_string.go:33-35) -/
def bytesCompare : List Nat → List Nat → Int
  | a :: as, b :: bs => if a < b then -1 else if a > b then 1 else bytesCompare as bs
  | [], [] => 0
  | [], _ :: _ => -1
  | _ :: _, [] => 1

/-- `binary.BigEndian.Uint64` (any length: the first byte is the most significant) -/
def beNat : List Nat → Nat
  | [] => 0
  | b :: bs => b * 256 ^ bs.length + beNat bs

/-- MIRROR compare.go:147-166 `compareBE128`: the two big-endian 64-bit halves, high half first -/
def compareBE128 (v1 v2 : List Nat) : Int :=
  let x := beNat (v1.take 8)
  let y := beNat (v2.take 8)
  if x < y then -1
  else if x > y then 1
  else
    let x := beNat (v1.drop 8)
    let y := beNat (v2.drop 8)
    three (decide (x < y)) (decide (x > y))

/-- MIRROR compare.go:168-180 `lessBE128` -/
def lessBE128 (v1 v2 : List Nat) : Bool :=
  let x := beNat (v1.take 8)
  let y := beNat (v2.take 8)
  if x < y then true
  else if x > y then false
  else decide (beNat (v1.drop 8) < beNat (v2.drop 8))

/-! ## the logical integer types -/

/-- MIRROR type_int_logical.go:124-145 `(*intType).Compare`: the payload of a `Value` is its 64-bit field;
    `int32()` truncates it (value.go), `uint32(i1)` / `uint64(i1)` reinterpret the bits -/
def intTypeCompare (bitWidth : Nat) (isSigned : Bool) (a b : BitVec 64) : Int :=
  if bitWidth = 64 then
    if isSigned then compareInt64 a b else compareUint64 a b
  else
    let i1 := a.setWidth 32
    let i2 := b.setWidth 32
    if isSigned then compareInt32 i1 i2 else compareUint32 i1 i2

/-- SPEC (LogicalTypes.md, INT(bitWidth, isSigned)): the number the stored bits denote -/
def intTypeDenote (bitWidth : Nat) (isSigned : Bool) (a : BitVec 64) : Int :=
  if bitWidth = 64 then (if isSigned then a.toInt else (a.toNat : Int))
  else (if isSigned then (a.setWidth 32).toInt else ((a.setWidth 32).toNat : Int))

/-! ## dispatch: `Type.Compare` per leaf type, and the per-type arms of the positional row comparator

`Val` is the part of a `parquet.Value` the comparison code reads: the 64-bit field `u64` (value.go:498-505: `boolean()`
= `u64 != 0`, `int32()` = `int32(u64)`, `uint32()` = `uint32(u64)`, `float()` = `Float32frombits(uint32(u64))`, …)
and the bytes `ptr[:u64]` of the byte-array kinds (`byteArray()`, `be128()`). Calls with a value of another kind
than the column's are not modelled. -/

structure Val where
  u64 : BitVec 64
  bytes : List Nat

def Val.boolean (v : Val) : Bool := v.u64 != 0
def Val.int32 (v : Val) : BitVec 32 := v.u64.setWidth 32
def Val.int64 (v : Val) : BitVec 64 := v.u64
/-- `uint32()`, `float()` read the same low 32 bits, `uint64()`, `double()` the same 64 bits; the sign / float reading
    is in the comparison function that receives them -/
abbrev Val.uint32 (v : Val) : BitVec 32 := v.int32
abbrev Val.float (v : Val) : BitVec 32 := v.int32
abbrev Val.uint64 (v : Val) : BitVec 64 := v.int64
abbrev Val.double (v : Val) : BitVec 64 := v.int64
abbrev Val.byteArray (v : Val) : List Nat := v.bytes
abbrev Val.be128 (v : Val) : List Nat := v.bytes

/-- the leaf types as the type switches of compare.go distinguish them (Go type of `Node.Type()`) -/
inductive LeafType where
  | int32 | uint32 | int64 | uint64 | float | double | boolean
  | byteArray | string | fixedLenByteArray | enum | geography | bson | geometry | json
  | be128 | uuid | date | timestamp
  | time (useInt32 : Bool)
  | int (bitWidth : Nat) (isSigned : Bool)
  | interval | decimalInt32 | decimalInt64
deriving DecidableEq

/-- MIRROR of the `Compare` methods: type_int32.go:23,101, type_int64.go:23,101, type_float.go:18, type_double.go:18,
    type_boolean.go:18, type_byte_array.go:19, type_string.go:33, type_fixed_len_byte_array.go:32,175, type_enum.go:32,
    type_geography.go:30, type_bson.go:32, type_geometry.go:32, type_json.go:33, type_uuid.go:32, type_date.go:33,
    type_timestamp.go:150, type_time.go:182-204, type_int_logical.go:124-145, type_interval.go:48, type_decimal.go:77-82
    (non-binary: the embedded physical type) -/
def typeCompare (t : LeafType) (a b : Val) : Int :=
  match t with
  | .int32 => compareInt32 a.int32 b.int32
  | .uint32 => compareUint32 a.uint32 b.uint32
  | .int64 => compareInt64 a.int64 b.int64
  | .uint64 => compareUint64 a.uint64 b.uint64
  | .float => compareFloat32 a.float b.float
  | .double => compareFloat64 a.double b.double
  | .boolean => compareBool a.boolean b.boolean
  | .byteArray | .string | .fixedLenByteArray | .enum | .geography | .bson | .geometry | .json | .interval =>
    bytesCompare a.byteArray b.byteArray
  | .be128 | .uuid => compareBE128 a.be128 b.be128
  | .date => compareInt32 a.int32 b.int32
  | .timestamp => compareInt64 a.int64 b.int64
  | .time useInt32 => if useInt32 then compareInt32 a.int32 b.int32 else compareInt64 a.int64 b.int64
  | .int bitWidth isSigned => intTypeCompare bitWidth isSigned a.u64 b.u64
  | .decimalInt32 => compareInt32 a.int32 b.int32
  | .decimalInt64 => compareInt64 a.int64 b.int64

/-- MIRROR compare.go:229-310 `compareRowsFuncOfIndexAscending`: the comparison each arm of the type switch performs
    on the two values at the column index; `default:` calls `typ.Compare` -/
def armAscending (t : LeafType) (a b : Val) : Int :=
  match t with
  | .int32 => compareInt32 a.int32 b.int32
  | .uint32 => compareUint32 a.uint32 b.uint32
  | .int64 => compareInt64 a.int64 b.int64
  | .uint64 => compareUint64 a.uint64 b.uint64
  | .float => compareFloat32 a.float b.float
  | .double => compareFloat64 a.double b.double
  | .boolean => compareBool a.boolean b.boolean
  | .byteArray | .string | .fixedLenByteArray | .enum | .geography | .bson | .geometry | .json =>
    bytesCompare a.byteArray b.byteArray
  | .be128 | .uuid => compareBE128 a.be128 b.be128
  | .date => compareInt32 a.int32 b.int32
  | .timestamp => compareInt64 a.int64 b.int64
  | .time useInt32 => if useInt32 then compareInt32 a.int32 b.int32 else compareInt64 a.int64 b.int64
  | .int bitWidth isSigned =>
    if bitWidth = 64 then
      if isSigned then compareInt64 a.int64 b.int64 else compareUint64 a.uint64 b.uint64
    else
      if isSigned then compareInt32 a.int32 b.int32 else compareUint32 a.uint32 b.uint32
  | t => typeCompare t a b

/-- MIRROR compare.go:313-394 `compareRowsFuncOfIndexDescending`: the same switch, every arm with a leading minus -/
def armDescending (t : LeafType) (a b : Val) : Int :=
  match t with
  | .int32 => - compareInt32 a.int32 b.int32
  | .uint32 => - compareUint32 a.uint32 b.uint32
  | .int64 => - compareInt64 a.int64 b.int64
  | .uint64 => - compareUint64 a.uint64 b.uint64
  | .float => - compareFloat32 a.float b.float
  | .double => - compareFloat64 a.double b.double
  | .boolean => - compareBool a.boolean b.boolean
  | .byteArray | .string | .fixedLenByteArray | .enum | .geography | .bson | .geometry | .json =>
    - bytesCompare a.byteArray b.byteArray
  | .be128 | .uuid => - compareBE128 a.be128 b.be128
  | .date => - compareInt32 a.int32 b.int32
  | .timestamp => - compareInt64 a.int64 b.int64
  | .time useInt32 => if useInt32 then - compareInt32 a.int32 b.int32 else - compareInt64 a.int64 b.int64
  | .int bitWidth isSigned =>
    if bitWidth = 64 then
      if isSigned then - compareInt64 a.int64 b.int64 else - compareUint64 a.uint64 b.uint64
    else
      if isSigned then - compareInt32 a.int32 b.int32 else - compareUint32 a.uint32 b.uint32
  | t => - typeCompare t a b

/-- the types whose `Compare` reads floats / exactly 16 bytes (they need a side condition to be total preorders) -/
def LeafType.isFloat : LeafType → Bool
  | .float | .double => true
  | _ => false
def LeafType.is128 : LeafType → Bool
  | .be128 | .uuid => true
  | _ => false

/-! ## lemmas -/

theorem three_lt (l g : Bool) : three l g < 0 ↔ l = true := by
  unfold three; cases l <;> cases g <;> simp
theorem three_gt (l g : Bool) (h : l = true → g = false) : 0 < three l g ↔ g = true := by
  unfold three; cases l <;> cases g <;> simp at h ⊢
theorem three_le (l g : Bool) (h : l = true → g = false) : three l g ≤ 0 ↔ g = false := by
  unfold three; cases l <;> cases g <;> simp at h ⊢
theorem three_eq (l g : Bool) : three l g = 0 ↔ l = false ∧ g = false := by
  unfold three; cases l <;> cases g <;> simp

theorem compareSigned_eq {w : Nat} (a b : BitVec w) :
    compareSigned a b = three ((sint w).lt a b) ((sint w).lt b a) := by
  simp [compareSigned, sint, ofKey, BitVec.slt]

theorem compareUnsigned_eq {w : Nat} (a b : BitVec w) :
    compareUnsigned a b = three ((uint w).lt a b) ((uint w).lt b a) := by
  simp [compareUnsigned, uint, ofKey, BitVec.ult]

/-! ### floats -/

theorem body_lt (e m : Nat) (b : BitVec (1 + e + m)) : fBody e m b < 2 ^ e * 2 ^ m := by
  unfold fBody
  rw [← Nat.pow_add]
  exact Nat.mod_lt _ (Nat.two_pow_pos _)

/-- the two readings of "is NaN" agree: exponent all ones and fraction non-zero ↔ body above the infinity pattern -/
theorem ieeeIsNaN_eq (e m : Nat) (b : BitVec (1 + e + m)) : ieeeIsNaN e m b = fIsNaN e m b := by
  have hlt := body_lt e m b
  unfold ieeeIsNaN fIsNaN fExp fMant
  change _ = decide (fBody e m b > (2 ^ e - 1) * 2 ^ m)
  generalize fBody e m b = x at hlt
  have hP : 0 < 2 ^ m := Nat.two_pow_pos _
  have hE : 0 < 2 ^ e := Nat.two_pow_pos _
  generalize 2 ^ m = P at *
  generalize 2 ^ e = E at *
  have hq : x / P < E := (Nat.div_lt_iff_lt_mul hP).mpr hlt
  have hx : x = P * (x / P) + x % P := (Nat.div_add_mod x P).symm
  have hr : x % P < P := Nat.mod_lt _ hP
  generalize x / P = q at *
  generalize x % P = r at *
  subst hx
  rw [Bool.eq_iff_iff]
  simp only [Bool.and_eq_true, beq_iff_eq, bne_iff_ne, ne_eq, decide_eq_true_eq, gt_iff_lt]
  constructor
  · rintro ⟨rfl, hr0⟩
    rw [Nat.mul_comm]; omega
  · intro h
    have hq' : q = E - 1 := by
      by_cases hc : q + 1 ≤ E - 1
      · have := Nat.mul_le_mul_left P hc
        rw [Nat.mul_add] at this
        rw [Nat.mul_comm (E - 1) P] at h
        omega
      · omega
    subst hq'
    rw [Nat.mul_comm] at h
    exact ⟨rfl, by omega⟩

theorem magOf_zero (m : Nat) : magOf m 0 = 0 := by simp [magOf]

/-- the magnitude denoted is strictly monotone in the body bits: this is what makes the sign-magnitude integer
    comparison of float bit patterns correct -/
theorem magOf_strictMono (m : Nat) {x y : Nat} (h : x < y) : magOf m x < magOf m y := by
  have hP : 0 < 2 ^ m := Nat.two_pow_pos _
  have hx : x = 2 ^ m * (x / 2 ^ m) + x % 2 ^ m := (Nat.div_add_mod x _).symm
  have hy : y = 2 ^ m * (y / 2 ^ m) + y % 2 ^ m := (Nat.div_add_mod y _).symm
  have hrx : x % 2 ^ m < 2 ^ m := Nat.mod_lt _ hP
  have hry : y % 2 ^ m < 2 ^ m := Nat.mod_lt _ hP
  have hq : x / 2 ^ m ≤ y / 2 ^ m := Nat.div_le_div_right (Nat.le_of_lt h)
  unfold magOf
  generalize x / 2 ^ m = q at *
  generalize y / 2 ^ m = q' at *
  generalize x % 2 ^ m = r at *
  generalize y % 2 ^ m = r' at *
  generalize 2 ^ m = P at *
  rcases Nat.lt_or_eq_of_le hq with hlt | rfl
  · -- a smaller exponent field: everything of binade q is below the start of binade q'
    have hq'0 : ¬ q' = 0 := by omega
    rw [if_neg hq'0]
    have hstart : P * 2 ^ (q' - 1) ≤ (P + r') * 2 ^ (q' - 1) := Nat.mul_le_mul_right _ (by omega)
    have hone : 1 ≤ 2 ^ (q' - 1) := Nat.two_pow_pos _
    split
    · have : P * 1 ≤ P * 2 ^ (q' - 1) := Nat.mul_le_mul_left _ hone
      omega
    · rename_i hq0
      have h1 : (P + r) * 2 ^ (q - 1) < (P + P) * 2 ^ (q - 1) :=
        Nat.mul_lt_mul_of_lt_of_le (by omega) (Nat.le_refl _) (Nat.two_pow_pos _)
      have h2 : 2 ^ (q - 1 + 1) ≤ 2 ^ (q' - 1) := Nat.pow_le_pow_right (by decide) (by omega)
      have h3 : (P + P) * 2 ^ (q - 1) = P * 2 ^ (q - 1 + 1) := by
        rw [Nat.pow_succ, ← Nat.two_mul, Nat.mul_comm 2 P, Nat.mul_assoc, Nat.mul_comm 2]
      have h4 : P * 2 ^ (q - 1 + 1) ≤ P * 2 ^ (q' - 1) := Nat.mul_le_mul_left _ h2
      omega
  · -- same exponent field: the fraction decides
    have hr : r < r' := by
      subst hx hy
      omega
    split
    · exact hr
    · exact Nat.mul_lt_mul_of_lt_of_le (by omega) (Nat.le_refl _) (Nat.two_pow_pos _)

theorem magOf_lt_iff (m : Nat) (x y : Nat) : magOf m x < magOf m y ↔ x < y := by
  constructor
  · intro h
    rcases Nat.lt_trichotomy x y with h' | h' | h'
    · exact h'
    · subst h'; omega
    · have := magOf_strictMono m h'; omega
  · exact magOf_strictMono m

/-- comparing the denoted numbers = comparing the sign-magnitude keys of `Stats.fKey` -/
theorem fDenote_lt_iff (e m : Nat) (a b : BitVec (1 + e + m)) :
    fDenote e m a < fDenote e m b ↔ fKey e m a < fKey e m b := by
  unfold fDenote fKey fSign
  change _ ↔ (if a.toNat < 2 ^ (e + m) then ((fBody e m a : Nat) : Int) else -((fBody e m a : Nat) : Int)) <
    (if b.toNat < 2 ^ (e + m) then ((fBody e m b : Nat) : Int) else -((fBody e m b : Nat) : Int))
  have h1 := magOf_lt_iff m (fBody e m a) (fBody e m b)
  have h2 := magOf_lt_iff m (fBody e m b) (fBody e m a)
  have h3 := magOf_lt_iff m 0 (fBody e m a)
  have h4 := magOf_lt_iff m 0 (fBody e m b)
  rw [magOf_zero] at h3 h4
  generalize magOf m (fBody e m a) = ma at *
  generalize magOf m (fBody e m b) = mb at *
  generalize fBody e m a = xa at *
  generalize fBody e m b = xb at *
  by_cases ha : a.toNat < 2 ^ (e + m) <;> by_cases hb : b.toNat < 2 ^ (e + m)
  · have ha' : ¬ 2 ^ (e + m) ≤ a.toNat := by omega
    have hb' : ¬ 2 ^ (e + m) ≤ b.toNat := by omega
    simp only [ha, hb, ha', hb', decide_false, if_true, if_false, Bool.false_eq_true]
    omega
  · have ha' : ¬ 2 ^ (e + m) ≤ a.toNat := by omega
    have hb' : 2 ^ (e + m) ≤ b.toNat := by omega
    simp only [ha, hb, ha', hb', decide_false, decide_true, if_true, if_false, Bool.false_eq_true]
    omega
  · have ha' : 2 ^ (e + m) ≤ a.toNat := by omega
    have hb' : ¬ 2 ^ (e + m) ≤ b.toNat := by omega
    simp only [ha, hb, ha', hb', decide_false, decide_true, if_true, if_false, Bool.false_eq_true]
    omega
  · have ha' : 2 ^ (e + m) ≤ a.toNat := by omega
    have hb' : 2 ^ (e + m) ≤ b.toNat := by omega
    simp only [ha, hb, ha', hb', decide_true, if_true, if_false]
    omega

/-- Go's `<` on floats (IEEE-754 by value) is the `lt` of the column order `Stats.float` (sign-magnitude key) -/
theorem ieeeLt_eq (e m : Nat) (a b : BitVec (1 + e + m)) : ieeeLt e m a b = (float e m).lt a b := by
  unfold ieeeLt float ofKey
  simp only [ieeeIsNaN_eq]
  congr 1
  exact decide_eq_decide.mpr (fDenote_lt_iff e m a b)

/-! ### byte strings -/

theorem bytesCompare_eq : ∀ a b : List Nat, bytesCompare a b = three (lexLt a b) (lexLt b a)
  | [], [] => by simp [bytesCompare, three, lexLt, Trunc.lexLe]
  | [], _ :: _ => by simp [bytesCompare, three, lexLt, Trunc.lexLe]
  | _ :: _, [] => by simp [bytesCompare, three, lexLt, Trunc.lexLe]
  | a :: as, b :: bs => by
    have ih := bytesCompare_eq as bs
    simp only [bytesCompare, lexLt, Trunc.lexLe] at ih ⊢
    by_cases h1 : a < b
    · have h2 : ¬ b < a := by omega
      have h3 : ¬ b = a := by omega
      simp [h1, h2, h3, three]
    · by_cases h2 : b < a
      · have h3 : ¬ a = b := by omega
        simp [h1, h2, h3, three]
      · have h3 : a = b := by omega
        subst h3
        simp only [Nat.lt_irrefl, if_false, if_true, gt_iff_lt]
        exact ih

def IsBytes (v : List Nat) : Prop := ∀ x ∈ v, x < 256

theorem beNat_lt : ∀ (v : List Nat), IsBytes v → beNat v < 256 ^ v.length
  | [], _ => by simp [beNat]
  | b :: bs, h => by
    have ih := beNat_lt bs (fun x hx => h x (by simp [hx]))
    have hb : b < 256 := h b (by simp)
    simp only [beNat, List.length_cons, Nat.pow_succ]
    have : (b + 1) * 256 ^ bs.length ≤ 256 * 256 ^ bs.length := Nat.mul_le_mul_right _ (by omega)
    rw [Nat.add_mul] at this
    rw [Nat.mul_comm (256 ^ bs.length) 256]
    omega

/-- on byte strings of one length, comparing the big-endian numbers = `bytes.Compare` -/
theorem bytesCompare_beNat : ∀ (a b : List Nat), a.length = b.length → IsBytes a → IsBytes b →
    bytesCompare a b = three (decide (beNat a < beNat b)) (decide (beNat a > beNat b))
  | [], [], _, _, _ => by simp [bytesCompare, beNat, three]
  | [], _ :: _, h, _, _ => by simp at h
  | _ :: _, [], h, _, _ => by simp at h
  | a :: as, b :: bs, hl, ha, hb => by
    have hl' : as.length = bs.length := by simpa using hl
    have ha' : IsBytes as := fun x hx => ha x (by simp [hx])
    have hb' : IsBytes bs := fun x hx => hb x (by simp [hx])
    have ih := bytesCompare_beNat as bs hl' ha' hb'
    have la := beNat_lt as ha'
    have lb := beNat_lt bs hb'
    simp only [bytesCompare, beNat, hl'] at *
    generalize 256 ^ bs.length = W at *
    by_cases h1 : a < b
    · have : (a + 1) * W ≤ b * W := Nat.mul_le_mul_right _ h1
      rw [Nat.add_mul] at this
      have h' : a * W + beNat as < b * W + beNat bs := by omega
      have h'' : ¬ (a * W + beNat as > b * W + beNat bs) := by omega
      simp [h1, h', three]
    · by_cases h2 : a > b
      · have : (b + 1) * W ≤ a * W := Nat.mul_le_mul_right _ h2
        rw [Nat.add_mul] at this
        have h' : ¬ a * W + beNat as < b * W + beNat bs := by omega
        have h'' : a * W + beNat as > b * W + beNat bs := by omega
        simp [h1, h2, h', h'', three]
      · have : a = b := by omega
        subst this
        simp only [Nat.lt_irrefl, if_false, gt_iff_lt]
        rw [ih]
        congr 1 <;> exact decide_eq_decide.mpr (by omega)

theorem bytesCompare_append : ∀ (a1 b1 a2 b2 : List Nat), a1.length = b1.length →
    bytesCompare (a1 ++ a2) (b1 ++ b2) = if bytesCompare a1 b1 ≠ 0 then bytesCompare a1 b1 else bytesCompare a2 b2
  | [], [], _, _, _ => by simp [bytesCompare]
  | [], _ :: _, _, _, h => by simp at h
  | _ :: _, [], _, _, h => by simp at h
  | a :: as, b :: bs, a2, b2, hl => by
    have ih := bytesCompare_append as bs a2 b2 (by simpa using hl)
    simp only [List.cons_append, bytesCompare]
    by_cases h1 : a < b
    · simp [h1]
    · by_cases h2 : a > b
      · simp [h1, h2]
      · simp only [h1, h2, if_false]; exact ih

end PqModel.CompareTypes
