import PqModel.RleDecodeLemmas

/-! `bitpack.Pack` (portable `packInt32Default`) equals LSB-first packing (C04 rle). -/
namespace PqModel.Rle
open PqModel.Bits

theorem two_pow_8 : (2 : Nat) ^ 8 = 256 := by decide

theorem leNat_append : ∀ (a b : List Nat), leNat (a ++ b) = leNat a + 2 ^ (8 * a.length) * leNat b
  | [], b => by simp [leNat]
  | x :: a, b => by
    have e : 8 * (a.length + 1) = 8 + 8 * a.length := by omega
    simp only [List.cons_append, leNat, leNat_append a b, List.length_cons, e, Nat.pow_add, two_pow_8]
    rw [Nat.mul_add, Nat.mul_assoc, Nat.add_assoc]

theorem leBytes_add : ∀ (out : List Nat) (k B : Nat), (∀ b ∈ out, b < 256) →
    leBytes (out.length + k) (leNat out + 2 ^ (8 * out.length) * B) = out ++ leBytes k B
  | [], k, B, _ => by simp [leNat]
  | x :: out, k, B, h => by
    have hx := h x (by simp)
    have ih := leBytes_add out k B (fun y hy => h y (by simp [hy]))
    have e : 8 * (out.length + 1) = 8 + 8 * out.length := by omega
    have en : out.length + 1 + k = (out.length + k) + 1 := by omega
    simp only [List.length_cons, leNat, e, Nat.pow_add, two_pow_8, en, leBytes, List.cons_append]
    have hsum : x + 256 * leNat out + 256 * 2 ^ (8 * out.length) * B =
        x + 256 * (leNat out + 2 ^ (8 * out.length) * B) := by
      rw [Nat.mul_add, Nat.mul_assoc, Nat.add_assoc]
    rw [hsum]
    generalize leNat out + 2 ^ (8 * out.length) * B = M at ih ⊢
    have e1 : (x + 256 * M) % 256 = x := by omega
    have e2 : (x + 256 * M) / 256 = M := by omega
    rw [e1, e2, ih]

theorem bitsToBytes_leBytes_gen : ∀ (f : Nat) (bits : List Bool), (bits.length + 7) / 8 ≤ f →
    bitsToBytes f bits = leBytes ((bits.length + 7) / 8) (fromBits bits)
  | 0, bits, h => by
    have : bits = [] := by cases bits <;> simp_all <;> omega
    subst this; rfl
  | f + 1, [], _ => by simp [bitsToBytes, leBytes]
  | f + 1, b :: bs, h => by
    have hk : ((b :: bs).length + 7) / 8 = (((b :: bs).drop 8).length + 7) / 8 + 1 := by
      simp only [List.length_drop, List.length_cons]; omega
    simp only [bitsToBytes, List.isEmpty_cons, Bool.false_eq_true, if_false]
    rw [hk, leBytes, bitsToBytes_leBytes_gen f _ (by rw [hk] at h; omega), fromBits_take 8, fromBits_drop 8,
      two_pow_8]

/-- invariant of `packInt32Default` after the values `xs` -/
structure PackInv (w : Nat) (st : PackSt) (xs : List Nat) : Prop where
  len : 8 * st.out.length + st.bits = xs.length * w
  lt32 : st.bits < 32
  buf : st.buffer < 2 ^ st.bits
  num : leNat st.out + 2 ^ (8 * st.out.length) * st.buffer = fromBits (packBits w (xs.map (· % 2 ^ w)))
  bytes : ∀ b ∈ st.out, b < 256

theorem leBytes_lt : ∀ (k v : Nat), ∀ b ∈ leBytes k v, b < 256
  | 0, _, b, hb => by simp [leBytes] at hb
  | k + 1, v, b, hb => by
    simp only [leBytes, List.mem_cons] at hb
    rcases hb with rfl | hb
    · omega
    · exact leBytes_lt k _ b hb

theorem packFlush_small (f : Nat) (st : PackSt) (h : st.bits < 32) : packFlush f st = st := by
  cases f with
  | zero => rfl
  | succ f =>
    have : ¬ st.bits ≥ 32 := by omega
    simp [packFlush, this]

theorem packStep_inv (w : Nat) (hw : w ≤ 32) (st : PackSt) (xs : List Nat) (v : Nat)
    (h : PackInv w st xs) : PackInv w (packStep w st v) (xs ++ [v]) := by
  obtain ⟨hlen, hlt, hbuf, hnum, hbytes⟩ := h
  unfold packStep
  have hx : v % 2 ^ w < 2 ^ w := Nat.mod_lt _ (Nat.two_pow_pos w)
  -- the number denoted by the bit string grows by x * 2^T
  have hN : fromBits (packBits w ((xs ++ [v]).map (· % 2 ^ w))) =
      fromBits (packBits w (xs.map (· % 2 ^ w))) + 2 ^ (xs.length * w) * (v % 2 ^ w) := by
    rw [List.map_append, packBits_append, fromBits_append, packBits_length, List.length_map]
    simp [packBits, fromBits_toBits w _ hx]
  have hlen' : 8 * st.out.length + (st.bits + w) = (xs ++ [v]).length * w := by
    rw [List.length_append, List.length_singleton, Nat.add_mul, Nat.one_mul]; omega
  generalize v % 2 ^ w = x at hx hN ⊢
  -- after `buffer |= x << bufferedBits; bufferedBits += w`
  have hb1 : st.buffer + x * 2 ^ st.bits < 2 ^ (st.bits + w) := by
    have h1 : (x + 1) * 2 ^ st.bits ≤ 2 ^ w * 2 ^ st.bits := Nat.mul_le_mul_right _ (by omega)
    have h2 : (x + 1) * 2 ^ st.bits = x * 2 ^ st.bits + 2 ^ st.bits := by rw [Nat.add_mul, Nat.one_mul]
    rw [Nat.pow_add, Nat.mul_comm (2 ^ st.bits) (2 ^ w)]
    omega
  have hnum1 : leNat st.out + 2 ^ (8 * st.out.length) * (st.buffer + x * 2 ^ st.bits) =
      fromBits (packBits w ((xs ++ [v]).map (· % 2 ^ w))) := by
    rw [hN, ← hnum, ← hlen, Nat.pow_add, Nat.mul_add, Nat.add_assoc]
    congr 2
    ac_rfl
  generalize hB : st.buffer + x * 2 ^ st.bits = B at hb1 hnum1 ⊢
  by_cases hge : st.bits + w ≥ 32
  · -- one flush of 4 bytes
    have hb32 : st.bits + w - 32 < 32 := by omega
    have hsplit : 2 ^ (st.bits + w) = 2 ^ 32 * 2 ^ (st.bits + w - 32) := by
      rw [← Nat.pow_add]; congr 1; omega
    have hno : ¬ (st.bits + w - 32 ≥ 32) := by omega
    simp only [packFlush, hge, hno, if_true, if_false]
    have ho : (st.out ++ leBytes 4 (B % 2 ^ 32)).length = st.out.length + 4 := by
      rw [List.length_append, leBytes_length]
    refine ⟨?_, hb32, ?_, ?_, ?_⟩
    · show 8 * (st.out ++ leBytes 4 (B % 2 ^ 32)).length + (st.bits + w - 32) = _
      rw [ho]; omega
    · exact Nat.div_lt_of_lt_mul (by rw [← hsplit]; exact hb1)
    · show leNat (st.out ++ leBytes 4 (B % 2 ^ 32)) +
          2 ^ (8 * (st.out ++ leBytes 4 (B % 2 ^ 32)).length) * (B / 2 ^ 32) = _
      rw [ho]
      rw [leNat_append, leNat_leBytes, ← hnum1]
      have h2564 : (256 : Nat) ^ 4 = 2 ^ 32 := by decide
      have hr : B % 2 ^ 32 % 256 ^ 4 = B % 2 ^ 32 := by
        rw [h2564]; exact Nat.mod_mod _ _
      have e : 8 * (st.out.length + 4) = 8 * st.out.length + 32 := by omega
      rw [hr, e, Nat.pow_add, Nat.add_assoc, Nat.mul_assoc, ← Nat.mul_add, Nat.mod_add_div]
    · intro b hb
      rw [List.mem_append] at hb
      rcases hb with hb | hb
      · exact hbytes b hb
      · exact leBytes_lt _ _ b hb
  · have hlt' : st.bits + w < 32 := by omega
    rw [packFlush_small 2 _ hlt']
    exact ⟨hlen', hlt', hb1, hnum1, hbytes⟩

theorem packFold_inv (w : Nat) (hw : w ≤ 32) : ∀ (src xs : List Nat) (st : PackSt), PackInv w st xs →
    PackInv w (src.foldl (packStep w) st) (xs ++ src)
  | [], xs, st, h => by simpa using h
  | v :: src, xs, st, h => by
    have := packFold_inv w hw src (xs ++ [v]) (packStep w st v) (packStep_inv w hw st xs v h)
    simpa using this

/-- `bitpack.Pack` (portable `packInt32Default`) on int32 values at a width ≤ 32 is exactly the
LSB-first packing of the values masked to the width, zero padded to a byte (`packBytes`). -/
theorem goPackInt32_eq (w : Nat) (hw : w ≤ 32) (src : List Nat) : goPackInt32 w src = packBytes w src := by
  have hinv := packFold_inv w hw src [] { buffer := 0, bits := 0, out := [] }
    ⟨by simp, by simp, by simp, by simp [leNat, packBits, fromBits], by simp⟩
  simp only [List.nil_append] at hinv
  obtain ⟨hlen, hlt, hbuf, hnum, hbytes⟩ := hinv
  unfold goPackInt32
  generalize List.foldl (packStep w) { buffer := 0, bits := 0, out := [] } src = st at *
  have hres : (if st.bits > 0 then st.out ++ leBytes ((st.bits + 7) / 8) st.buffer else st.out) =
      st.out ++ leBytes ((st.bits + 7) / 8) st.buffer := by
    split
    · rfl
    · have : st.bits = 0 := by omega
      simp [this, leBytes]
  simp only [hres]
  simp only [packBytes]
  rw [bitsToBytes_leBytes_gen _ _ (by omega), ← hnum, packBits_length, List.length_map]
  have e : (src.length * w + 7) / 8 = st.out.length + (st.bits + 7) / 8 := by omega
  rw [e, leBytes_add st.out _ _ hbytes]

end PqModel.Rle
