import PqModel.StatsDecimal

/-! # Logical-type conversion (C01): UUID text <-> FIXED_LEN_BYTE_ARRAY(16)

A Go `string` field tagged `uuid` is stored as the 16 bytes `uuid.Parse` / `uuid.MustParse` gives
(`writeUUID`, column_buffer_reflect.go:954-967; `writeRowsFuncOfUUIDString`, column_buffer_write.go:528-561)
and rebuilt with `uuid.UUID(v).String()` (`fixedLenByteArrayType.AssignValue`, type_fixed_len_byte_array.go:94-98).

MIRRORS of github.com/google/uuid v1.6.0 as the library uses it: `Parse` (uuid.go:68-117), `xtob` / `xvalues`
(util.go:19-43), `encodeHex` / `String` (uuid.go:259-269 with `encoding/hex`'s lowercase table). Text is a list of
byte values. -/
namespace PqModel.LogicalUuid
open PqModel.Stats

/-- `encoding/hex` table "0123456789abcdef" -/
def hexDigitLower (n : Nat) : Nat := if n < 10 then 48 + n else 87 + n

/-- MIRROR of `xvalues` (util.go:19-36): 255 = not a hex digit -/
def xvalue (c : Nat) : Nat :=
  if 48 ≤ c ∧ c ≤ 57 then c - 48
  else if 65 ≤ c ∧ c ≤ 70 then c - 55
  else if 97 ≤ c ∧ c ≤ 102 then c - 87
  else 255

/-- MIRROR of `xtob` (util.go:39-43): `(b1 << 4) | b2` is `16*b1 + b2` when both are digits -/
def xtob (x1 x2 : Nat) : Option Nat :=
  if xvalue x1 ≠ 255 ∧ xvalue x2 ≠ 255 then some (xvalue x1 * 16 + xvalue x2) else none

def encodeHexBytes : List Nat → List Nat
  | [] => []
  | b :: rest => hexDigitLower (b / 16) :: hexDigitLower (b % 16) :: encodeHexBytes rest

/-- MIRROR of `UUID.String` / `encodeHex` (uuid.go:259-269) -/
def uuidString (u : List Nat) : List Nat :=
  encodeHexBytes (u.take 4) ++ 45 :: encodeHexBytes ((u.drop 4).take 2) ++ 45 ::
  encodeHexBytes ((u.drop 6).take 2) ++ 45 :: encodeHexBytes ((u.drop 8).take 2) ++ 45 ::
  encodeHexBytes (u.drop 10)

def parseHexPairs : List Nat → Option (List Nat)
  | [] => some []
  | [_] => none
  | a :: b :: rest =>
    match xtob a b, parseHexPairs rest with
    | some v, some r => some (v :: r)
    | _, _ => none

/-- ASCII lower case; `strings.EqualFold(s[:9], "urn:uuid:")` is this comparison (none of u r n i d has a
    non-ASCII simple fold) -/
def lowerAscii (c : Nat) : Nat := if 65 ≤ c ∧ c ≤ 90 then c + 32 else c

def urnPrefix : List Nat := [117, 114, 110, 58, 117, 117, 105, 100, 58]

def pairAt (t : List Nat) (x : Nat) : Option Nat := xtob (t.getD x 0) (t.getD (x + 1) 0)

/-- MIRROR of `uuid.Parse` (uuid.go:68-117): the four accepted lengths; the 38-byte form drops its first byte
    and never looks at the first and last byte (they need not be braces) -/
def uuidParse (s : List Nat) : Option (List Nat) :=
  if s.length = 32 then parseHexPairs s
  else
    let body : Option (List Nat) :=
      if s.length = 36 then some s
      else if s.length = 45 then (if (s.take 9).map lowerAscii = urnPrefix then some (s.drop 9) else none)
      else if s.length = 38 then some (s.drop 1)
      else none
    match body with
    | none => none
    | some t =>
      if t.getD 8 0 ≠ 45 ∨ t.getD 13 0 ≠ 45 ∨ t.getD 18 0 ≠ 45 ∨ t.getD 23 0 ≠ 45 then none
      else [0, 2, 4, 6, 9, 11, 14, 16, 19, 21, 24, 26, 28, 30, 32, 34].mapM (pairAt t)

/-- MIRROR of the typed path `writeRowsFuncOfUUIDString` (column_buffer_write.go:551-556): the empty string is
    the zero UUID, anything else goes through `uuid.MustParse` (`none` = panic) -/
def uuidWriteTyped (s : List Nat) : Option (List Nat) :=
  if s = [] then some (List.replicate 16 0) else uuidParse s

/-- MIRROR of the reflection path `writeUUID` (column_buffer_reflect.go:954-967): `uuid.Parse`, panic on error -/
def uuidWriteReflect (s : List Nat) : Option (List Nat) := uuidParse s

theorem xtob_hex : ∀ b : Fin 256, xtob (hexDigitLower (b.val / 16)) (hexDigitLower (b.val % 16)) = some b.val := by
  decide +kernel

theorem xtob_hex' (b : Nat) (h : b ≤ 255) : xtob (hexDigitLower (b / 16)) (hexDigitLower (b % 16)) = some b :=
  xtob_hex ⟨b, by omega⟩

theorem length16 (u : List Nat) (h : u.length = 16) :
    ∃ b0 b1 b2 b3 b4 b5 b6 b7 b8 b9 b10 b11 b12 b13 b14 b15,
      u = [b0, b1, b2, b3, b4, b5, b6, b7, b8, b9, b10, b11, b12, b13, b14, b15] := by
  match u, h with
  | [b0, b1, b2, b3, b4, b5, b6, b7, b8, b9, b10, b11, b12, b13, b14, b15], _ =>
    exact ⟨b0, b1, b2, b3, b4, b5, b6, b7, b8, b9, b10, b11, b12, b13, b14, b15, rfl⟩

end PqModel.LogicalUuid
