/-! # C09 — the row-group views the merge planner meets, what their `Rows()` deliver and what their
    column chunks hold

MIRROR of the three structural predicates the planner and `ConvertRowGroup` rely on:
`rowGroupInterleavesChunks` (merge.go:158-176), `rowGroupDropsRows` (merge_refine.go) and
`rowGroupReadsChunksInOrder` (multi_row_group.go:149-166), over the row-group types of merge.go,
multi_row_group.go, row_range.go and convert.go as an inductive tree (`Shape`).

SPEC side: two readings of such a tree. `chunks` — the rows obtained by reading its column chunks one
after the other, which is what page indexes, offset-index row positions and row-range views refer
to; `rows` — what `Rows()` delivers (a merged row group interleaves its members through the loser
tree, a deduplicating view drops rows, a row-range view reads the chunks of its base, a converted
view reads its source through the source's own `Rows()`). The loser-tree merge and the
deduplication enter as arbitrary functions `m` and `d`: nothing below depends on what they compute.

The theorems say when the two readings agree — exactly the hypothesis under which the planner may
take the first/last page for the bounds of a row group (`PagesOk`) and slice it by row positions
(`hasCuts`) — and carry the witnesses of the three defects this structure had:
seed C09-4b (`segments` answering "does not interleave"), the conversion of a merged row group
(fixed in 6a492b8) and the row-range view of a deduplicating view (fixed with `rowGroupDropsRows`). -/
namespace PqModel.Shape

inductive Shape (α : Type) where
  /-- `*FileRowGroup`, `*Buffer`, `*GenericBuffer`: `Rows()` reads the column chunks in order -/
  | leaf (rows : List α)
  /-- `*emptyRowGroup` (a merge of no row groups): no chunks, no rows, no marker -/
  | empty
  /-- `*rowGroup` (row_group.go:155; the masked copy `ConvertRowGroup` makes of a source that reads its
      chunks in order): `Rows()` is `NewRowGroupRowReader`, but the type carries no marker -/
  | plain (rows : List α)
  /-- `*mergedRowGroup` (merge.go): loser-tree merge of the members, `drop` = `dropDuplicatedRows` -/
  | merged (drop : Bool) (ms : List (Shape α))
  /-- `*sortedSegmentRowGroup` (merge.go): the segments one after the other -/
  | segments (drop : Bool) (ss : List (Shape α))
  /-- `*multiRowGroup` (multi_row_group.go) -/
  | multi (ss : List (Shape α))
  /-- `*dedupRowGroup` (merge.go:456) -/
  | dedup (s : Shape α)
  /-- `*rowRangeRowGroup` (row_range.go:17): rows `[off, off+len)` of the chunks of the base -/
  | range (s : Shape α) (off len : Nat)
  /-- `*convertedRowGroup` (convert.go) -/
  | converted (s : Shape α)

variable {α : Type}

/-! ## MIRROR: the structural predicates -/

mutual
/-- merge.go:158-176 `rowGroupInterleavesChunks` -/
def interleaves : Shape α → Bool
  | .leaf _ => false
  | .empty => false
  | .plain _ => false
  | .merged _ _ => true
  | .segments _ ss => anyInterleaves ss
  | .multi ss => anyInterleaves ss
  | .dedup s => interleaves s
  | .range s _ _ => interleaves s
  | .converted s => interleaves s
/-- `slices.ContainsFunc(_, rowGroupInterleavesChunks)` -/
def anyInterleaves : List (Shape α) → Bool
  | [] => false
  | s :: ss => interleaves s || anyInterleaves ss
end

mutual
/-- merge_refine.go `rowGroupDropsRows` -/
def dropsRows : Shape α → Bool
  | .leaf _ => false
  | .empty => false
  | .plain _ => false
  | .merged drop _ => drop
  | .segments drop ss => drop || anyDropsRows ss
  | .multi ss => anyDropsRows ss
  | .dedup _ => true
  | .range s _ _ => dropsRows s
  | .converted s => dropsRows s
def anyDropsRows : List (Shape α) → Bool
  | [] => false
  | s :: ss => dropsRows s || anyDropsRows ss
end

mutual
/-- multi_row_group.go:149-166 `rowGroupReadsChunksInOrder`: the types that carry the
    `chunkTransparentRowGroup` marker (file row groups, buffers, row-range views) and multi row groups
    made of such -/
def readsChunksInOrder : Shape α → Bool
  | .leaf _ => true
  | .range _ _ _ => true
  | .multi ss => allReadChunksInOrder ss
  | .empty => false
  | .plain _ => false
  | .merged _ _ => false
  | .segments _ _ => false
  | .dedup _ => false
  | .converted _ => false
def allReadChunksInOrder : List (Shape α) → Bool
  | [] => true
  | s :: ss => readsChunksInOrder s && allReadChunksInOrder ss
end

/-- row_range.go:82-93 `supportsRowRanges`: `rowRangeOf` can present a range of the rows — the row
    group reads its column chunks in order (marker types, multi row groups of such, a plain
    `*rowGroup`), possibly seen through conversions -/
def supportsRowRanges : Shape α → Bool
  | .converted s => supportsRowRanges s
  | .plain _ => true
  | .leaf rows => readsChunksInOrder (.leaf rows : Shape α)
  | .empty => readsChunksInOrder (.empty : Shape α)
  | .merged drop ms => readsChunksInOrder (.merged drop ms)
  | .segments drop ss => readsChunksInOrder (.segments drop ss)
  | .multi ss => readsChunksInOrder (.multi ss)
  | .dedup s => readsChunksInOrder (.dedup s)
  | .range s off len => readsChunksInOrder (.range s off len)

/-- row_range.go:60-80 `rowRangeOf` (library fix 35e9777): the range of a converted view is taken below
    the conversion — the source is sliced and the slice converted -/
def rangeOf : Shape α → Nat → Nat → Shape α
  | .converted s, off, len => .converted (rangeOf s off len)
  | s, off, len => .range s off len

/-! ## SPEC: the two readings -/

mutual
/-- the rows held by the column chunks, chunk after chunk (what `ColumnChunks()`, the page indexes
    and the offset indexes describe) -/
def chunks : Shape α → List α
  | .leaf rows => rows
  | .empty => []
  | .plain rows => rows
  | .merged _ ms => chunksL ms
  | .segments _ ss => chunksL ss
  | .multi ss => chunksL ss
  | .dedup s => chunks s
  | .range s off len => ((chunks s).drop off).take len
  | .converted s => chunks s
def chunksL : List (Shape α) → List α
  | [] => []
  | s :: ss => chunks s ++ chunksL ss
end

mutual
/-- what `Rows()` delivers. `m` = the loser-tree merge of the members' rows, `d` = deduplication, both
    arbitrary. `fixed = false` is `ConvertRowGroup` before 6a492b8: the source of a converted view was
    replaced by a plain row group over the source's column chunks. -/
def rows (fixed : Bool) (m : List (List α) → List α) (d : List α → List α) : Shape α → List α
  | .leaf rows => rows
  | .empty => []
  | .plain rows => rows
  | .merged drop ms => if drop then d (m (rowsL fixed m d ms)) else m (rowsL fixed m d ms)
  | .segments drop ss => if drop then d (rowsL fixed m d ss).flatten else (rowsL fixed m d ss).flatten
  | .multi ss => (rowsL fixed m d ss).flatten
  | .dedup s => d (rows fixed m d s)
  | .range s off len => ((chunks s).drop off).take len
  | .converted s => if fixed then rows fixed m d s else chunks s
def rowsL (fixed : Bool) (m : List (List α) → List α) (d : List α → List α) : List (Shape α) → List (List α)
  | [] => []
  | s :: ss => rows fixed m d s :: rowsL fixed m d ss
end

/-! ## when the two readings agree -/

mutual
/-- **a row group that neither interleaves its chunks nor drops rows delivers the rows of its column
    chunks, in their order** — whatever the merge and the deduplication compute, however the views
    are nested. This is what `rowGroupInterleavesChunks` and `rowGroupDropsRows` have to answer for. -/
theorem rows_eq_chunks (m : List (List α) → List α) (d : List α → List α) :
    ∀ (s : Shape α), interleaves s = false → dropsRows s = false → rows true m d s = chunks s
  | .leaf _, _, _ => by simp [rows, chunks]
  | .empty, _, _ => by simp [rows, chunks]
  | .plain _, _, _ => by simp [rows, chunks]
  | .merged _ _, hi, _ => by simp [interleaves] at hi
  | .segments drop ss, hi, hd => by
    simp only [interleaves] at hi
    simp only [dropsRows, Bool.or_eq_false_iff] at hd
    simp only [rows, chunks, hd.1, Bool.false_eq_true, ↓reduceIte]
    exact rowsL_eq_chunksL m d ss hi hd.2
  | .multi ss, hi, hd => by
    simp only [interleaves] at hi
    simp only [dropsRows] at hd
    simp only [rows, chunks]
    exact rowsL_eq_chunksL m d ss hi hd
  | .dedup _, _, hd => by simp [dropsRows] at hd
  | .range _ _ _, _, _ => by simp [rows, chunks]
  | .converted s, hi, hd => by
    simp only [interleaves] at hi
    simp only [dropsRows] at hd
    simp only [rows, chunks, ↓reduceIte]
    exact rows_eq_chunks m d s hi hd
theorem rowsL_eq_chunksL (m : List (List α) → List α) (d : List α → List α) :
    ∀ (ss : List (Shape α)), anyInterleaves ss = false → anyDropsRows ss = false →
      (rowsL true m d ss).flatten = chunksL ss
  | [], _, _ => by simp [rowsL, chunksL]
  | s :: ss, hi, hd => by
    simp only [anyInterleaves, Bool.or_eq_false_iff] at hi
    simp only [anyDropsRows, Bool.or_eq_false_iff] at hd
    simp only [rowsL, chunksL, List.flatten_cons]
    rw [rows_eq_chunks m d s hi.1 hd.1, rowsL_eq_chunksL m d ss hi.2 hd.2]
end

/-- **a row-range view of such a row group is the slice of its rows**: the planner (merge_refine.go)
    may cut it at row positions taken from the offset index. -/
theorem range_is_slice_of_rows (m : List (List α) → List α) (d : List α → List α) (s : Shape α) (off len : Nat)
    (hi : interleaves s = false) (hd : dropsRows s = false) :
    rows true m d (.range s off len) = ((rows true m d s).drop off).take len := by
  rw [rows_eq_chunks m d s hi hd]
  simp [rows]

mutual
/-- `rowGroupReadsChunksInOrder` is sound for both versions of `ConvertRowGroup`: a row group it
    accepts delivers the rows of its chunks. (`ConvertRowGroup` masks the unused columns of exactly
    these sources; `multiRowGroup.Rows()` reads the concatenated chunks of exactly these members.) -/
theorem readsChunksInOrder_sound (fixed : Bool) (m : List (List α) → List α) (d : List α → List α) :
    ∀ (s : Shape α), readsChunksInOrder s = true → rows fixed m d s = chunks s
  | .leaf _, _ => by simp [rows, chunks]
  | .range _ _ _, _ => by simp [rows, chunks]
  | .multi ss, h => by
    simp only [readsChunksInOrder] at h
    simp only [rows, chunks]
    exact allReadChunksInOrder_sound fixed m d ss h
  | .empty, h => by simp [readsChunksInOrder] at h
  | .plain _, h => by simp [readsChunksInOrder] at h
  | .merged _ _, h => by simp [readsChunksInOrder] at h
  | .segments _ _, h => by simp [readsChunksInOrder] at h
  | .dedup _, h => by simp [readsChunksInOrder] at h
  | .converted _, h => by simp [readsChunksInOrder] at h
theorem allReadChunksInOrder_sound (fixed : Bool) (m : List (List α) → List α) (d : List α → List α) :
    ∀ (ss : List (Shape α)), allReadChunksInOrder ss = true → (rowsL fixed m d ss).flatten = chunksL ss
  | [], _ => by simp [rowsL, chunksL]
  | s :: ss, h => by
    simp only [allReadChunksInOrder, Bool.and_eq_true] at h
    simp only [rowsL, chunksL, List.flatten_cons]
    rw [readsChunksInOrder_sound fixed m d s h.1, allReadChunksInOrder_sound fixed m d ss h.2]
end

/-- **the range `rowRangeOf` presents of a row group that `supportsRowRanges` accepts is the slice of
    its rows**, through any number of conversions (the merge planner only cuts such row groups) -/
theorem supported_range_is_slice_of_rows (m : List (List α) → List α) (d : List α → List α) (off len : Nat) :
    ∀ (s : Shape α), supportsRowRanges s = true →
      rows true m d (rangeOf s off len) = ((rows true m d s).drop off).take len
  | .converted s, h => by
    simp only [supportsRowRanges] at h
    simp only [rangeOf, rows, ↓reduceIte]
    exact supported_range_is_slice_of_rows m d off len s h
  | .plain _, _ => by simp [rangeOf, rows, chunks]
  | .leaf _, _ => by simp [rangeOf, rows, chunks]
  | .empty, h => by simp [supportsRowRanges, readsChunksInOrder] at h
  | .merged _ _, h => by simp [supportsRowRanges, readsChunksInOrder] at h
  | .segments _ _, h => by simp [supportsRowRanges, readsChunksInOrder] at h
  | .dedup _, h => by simp [supportsRowRanges, readsChunksInOrder] at h
  | .multi ss, h => by
    simp only [supportsRowRanges] at h
    simp only [rangeOf]
    rw [readsChunksInOrder_sound true m d (.multi ss) h]
    simp [rows]
  | .range s o l, h => by
    simp only [rangeOf]
    simp [rows, chunks]

/-- the range view of a converted view as the planner built it before 35e9777 (a `range` over the
    converted view reads the chunks: the source's levels and values, not the converted rows) is, in
    this model where conversion is the identity on keys, the same slice; what differs are the
    converted values (C12). The structural point kept here: `rangeOf` never wraps a conversion. -/
theorem rangeOf_converted (s : Shape α) (off len : Nat) :
    rangeOf (.converted s) off len = .converted (rangeOf s off len) := rfl

/-- a sequence of segments is not sliced even when it neither interleaves nor drops rows: its `Rows()`
    concatenates the segments' own `Rows()`, the type carries no marker -/
theorem segments_do_not_support_row_ranges (drop : Bool) (ss : List (Shape α)) :
    supportsRowRanges (.segments drop ss) = false := by
  simp [supportsRowRanges, readsChunksInOrder]

/-- **conversion commutes with `Rows()`** (after 6a492b8): a converted view delivers the rows of its
    source, so a converted merge is still the merge. Before the fix it delivered the chunks. -/
theorem converted_rows (m : List (List α) → List α) (d : List α → List α) (s : Shape α) :
    rows true m d (.converted s) = rows true m d s ∧ rows false m d (.converted s) = chunks s := by
  simp [rows]

/-! ## witnesses -/

/-- a merge of sorted lists of numbers, for the witnesses: insertion of every row into the output -/
def insertNat (x : Nat) : List Nat → List Nat
  | [] => [x]
  | y :: ys => if x ≤ y then x :: y :: ys else y :: insertNat x ys

def mergeNat (ls : List (List Nat)) : List Nat := ls.flatten.foldl (fun acc x => insertNat x acc) []

/-- adjacent duplicates dropped -/
def dedupNat : List Nat → List Nat
  | [] => []
  | [x] => [x]
  | x :: y :: rest => if x = y then dedupNat (y :: rest) else x :: dedupNat (y :: rest)

/-- seed C09-4b: a sequence of segments one of which is a loser-tree merge delivers rows that are not
    in the order of its chunks, and the mirror says so (`interleaves = true`); the seeded variant
    answered `false` for every `segments`, contradicting `rows_eq_chunks`. `X = [-3,-2]`, `A = [0,10]`,
    `B = [5,6]`: the last chunk rows are `B`'s, the last row is `A`'s. -/
theorem segments_with_a_merged_segment_interleave :
    let s : Shape Nat := .segments false [.leaf [1, 2], .merged false [.leaf [10, 20], .leaf [15, 16]]]
    interleaves s = true ∧ dropsRows s = false ∧
    rows true mergeNat dedupNat s = [1, 2, 10, 15, 16, 20] ∧ chunks s = [1, 2, 10, 20, 15, 16] := by
  decide

/-- the conversion of a merged row group before 6a492b8: `Merge(evens, odds)` read through
    `ConvertRowGroup` came out as the evens followed by the odds -/
theorem converted_merge_before_fix_is_not_the_merge :
    let s : Shape Nat := .converted (.merged false [.leaf [0, 2, 4], .leaf [1, 3, 5]])
    rows false mergeNat dedupNat s = [0, 2, 4, 1, 3, 5] ∧ rows true mergeNat dedupNat s = [0, 1, 2, 3, 4, 5] ∧
    -- and the planner did not see that the converted view interleaves: its source had been replaced
    -- by a plain row group (a `leaf` over the chunks)
    interleaves (.converted (.leaf (chunks s)) : Shape Nat) = false ∧ interleaves s = true := by
  decide

/-- a row-range view of a deduplicating view brings the dropped rows back: the view of
    `[1,1,2,2,3,3]` delivers `[1,2,3]`, its first two rows are `[1,2]`, the range view `[0,2)` reads
    `[1,1]`. `rowGroupDropsRows` keeps the planner from slicing such a row group. -/
theorem range_of_dedup_view_brings_rows_back :
    let s : Shape Nat := .dedup (.leaf [1, 1, 2, 2, 3, 3])
    rows true mergeNat dedupNat s = [1, 2, 3] ∧
    rows true mergeNat dedupNat (.range s 0 2) = [1, 1] ∧
    ((rows true mergeNat dedupNat s).drop 0).take 2 = [1, 2] ∧
    dropsRows s = true ∧ interleaves s = false := by
  decide

/-- non-vacuity of `rows_eq_chunks`: a converted view of segments of a file and a slice of a file -/
example : let s : Shape Nat := .converted (.segments false [.leaf [1, 2], .range (.leaf [3, 4, 5, 6]) 1 2])
    interleaves s = false ∧ dropsRows s = false ∧ rows true mergeNat dedupNat s = [1, 2, 4, 5] := by
  decide

/-! ## the null count of an in-memory column index (column_buffer.go:109)

The planner reads `hasNulls` of a page (`PageStat`) from `ColumnIndex.NullCount`; for a `Buffer` the
index is computed from the definition levels. MIRROR `nullCount`; SPEC: a value is null iff its
definition level is below the maximum of its column (a null leaf of a present optional group has a
level that is neither 0 nor the maximum). -/

/-- column_buffer.go:109-111 `nullableColumnIndex.NullCount`: `countLevelsNotEqual(levels, max)` -/
def nullCount (maxDef : Nat) (defs : List Nat) : Nat := defs.countP (fun d => d != maxDef)

/-- the variant of seed C09-4a: `countLevelsEqual(levels, 0)` -/
def nullCountSeeded (defs : List Nat) : Nat := defs.countP (fun d => d == 0)

/-- the page "has nulls" exactly when some value is null, for any maximum definition level -/
theorem nullCount_pos_iff (maxDef : Nat) (defs : List Nat) :
    0 < nullCount maxDef defs ↔ ∃ d ∈ defs, d ≠ maxDef := by
  unfold nullCount
  rw [List.countP_pos_iff]
  constructor
  · rintro ⟨d, hd, h⟩
    exact ⟨d, hd, by simpa using h⟩
  · rintro ⟨d, hd, h⟩
    exact ⟨d, hd, by simpa using h⟩

/-- for a flat optional column (maximum level 1) the two counts coincide, which is why the seeded
    change passes every test on flat columns -/
theorem nullCountSeeded_eq_flat (defs : List Nat) (h : ∀ d ∈ defs, d ≤ 1) :
    nullCountSeeded defs = nullCount 1 defs := by
  unfold nullCountSeeded nullCount
  apply List.countP_congr
  intro d hd
  have := h d hd
  constructor <;> intro h' <;> simp at h' ⊢ <;> omega

/-- a key nested in an optional group (maximum level 2): the null leaf of a present group (level 1)
    is a null that the seeded count does not see -/
theorem nullCountSeeded_misses_null_leaf : nullCount 2 [2, 1, 2] = 1 ∧ nullCountSeeded [2, 1, 2] = 0 := by decide

end PqModel.Shape
