import PqModel.VariantWindow

/-! # Element groups of a typed list in the columnar VariantReader (round 6)

MIRROR of the `LocTypedList` branch of `VariantCursor.processElements`
(variant_column_reader.go:982-1024): the two-pointer walk over `startsP = plw.starts(p.depth)` (the
slot groups of the list cursor in its presence leaf) and `startsE = plw.starts(c.depth)` (the slot
groups one repetition level deeper = the elements), which gives every entry of the list cursor the
element groups `h` that lie inside its own slot range, and `listOffsets`.
Both `starts` arrays end with the sentinel `numSlots`. -/
namespace PqModel.VariantWindow

/-- `for h < len(startsE)-1 && startsE[h] < bound { h++ }` (:1003-1005 and, with the body that
    appends an entry for `h`, :1007-1011); fuel = an upper bound of the iterations -/
def skipTo (startsE : List Nat) (bound : Nat) : Nat → Nat → Nat
  | 0, h => h
  | fuel + 1, h =>
    if h < startsE.length - 1 ∧ startsE.getD h 0 < bound then skipTo startsE bound fuel (h + 1) else h

/-- one entry per element of the result: the element groups appended for that entry of the list
    cursor. `entries`: `some g` = an entry tagged LocTypedList with slot group `g`, `none` = any other
    entry (the residual branch is modelled in VariantCursor.lean); `present s` = `plw.defs[s] >=
    p.elemsDefAbs`. -/
def elemsLoop (startsP startsE : List Nat) (present : Nat → Bool) : List (Option Nat) → Nat → List (List Nat)
  | [], _ => []
  | none :: es, h => [] :: elemsLoop startsP startsE present es h
  | some g :: es, h =>
    if g ≥ startsP.length - 1 then [] :: elemsLoop startsP startsE present es h
    else
      let gs := startsP.getD g 0
      let ge := startsP.getD (g + 1) 0
      let h1 := skipTo startsE gs startsE.length h
      if present gs then
        let h2 := skipTo startsE ge startsE.length h1
        List.range' h1 (h2 - h1) :: elemsLoop startsP startsE present es h2
      else [] :: elemsLoop startsP startsE present es h1

/-- `p.listOffsets` :992, :1021: the running number of element entries -/
def listOffsetsFrom : Nat → List (List Nat) → List Nat
  | k, [] => [k]
  | k, l :: ls => k :: listOffsetsFrom (k + l.length) ls

end PqModel.VariantWindow
