import PqModel.SearchMultiIndex
import PqModel.SearchNaN

/-! # `Find` on the multi index of FLOAT / DOUBLE members with NaN bounds

The float model of `SearchNaN.lean` (`FB` = null | NaN | rank) lifted to several members. The seam loop of
`multiColumnIndex.IsAscending` is NOT mirrored over NaN bounds here: the theorem takes the answer `flag` of
`IsAscending()` as a parameter and needs two facts about it that the code gives (multi_row_group.go:407-411: false as
soon as one member does not claim ASCENDING; without any NaN bound the float comparison is the rank comparison, so the
answer is `multiIsAscending` on the ranks). MIRROR: `findViewF` (search.go `Find`); SPEC: `concatF`. -/
namespace PqModel.Search

structure FChunk where
  nulls : List Bool
  ix : FIndex
  asc : Bool
  desc : Bool

def FChunk.ranks (c : FChunk) : Chunk := { nulls := c.nulls, ix := c.ix.ranks, asc := c.asc, desc := c.desc }

def concatF (cs : List FChunk) : FIndex :=
  { mins := cs.flatMap (fun c => c.ix.mins), maxs := cs.flatMap (fun c => c.ix.maxs) }

def concatNullsF (cs : List FChunk) : List Bool := cs.flatMap (fun c => c.nulls)

/-- search.go:31-50 `Find` on a float index view: `flag` = `IsAscending()`, the guard reads `NullPage(i)` -/
def findViewF (nf flag : Bool) (nulls : List Bool) (ix : FIndex) (v : Int) : Nat :=
  if flag && !nulls.any id then binarySearchF nf ix v else linearSearchF nf ix v

theorem concatF_toF : ∀ (cs : List FChunk), (∀ c ∈ cs, hasNaN c.ix = false) →
    (concat (cs.map FChunk.ranks)).toF = concatF cs ∧ concatNulls (cs.map FChunk.ranks) = concatNullsF cs
  | [], _ => ⟨rfl, rfl⟩
  | c :: cs, h => by
    have ih := concatF_toF cs (fun c' hc' => h c' (by simp [hc']))
    have hc := h c (by simp)
    simp only [hasNaN, Bool.or_eq_false_iff] at hc
    simp only [concat, Index.toF, concatF, FIndex.mk.injEq, concatNulls, concatNullsF] at ih
    simp only [List.map_cons, concat, Index.toF, List.flatMap_cons, List.map_append, concatF, FIndex.mk.injEq,
      concatNulls, concatNullsF, ih.1.1, ih.1.2, ih.2]
    simp [FChunk.ranks, FIndex.ranks, toF_ofF_of_not_nan _ hc.1, toF_ofF_of_not_nan _ hc.2]

theorem hasNull_ranks (ix : FIndex) (h : hasNaN ix = false) : hasNull ix.ranks = hasNullF ix := by
  have e := ranks_toF ix h
  have : hasNullF ix.ranks.toF = hasNull ix.ranks := by
    simp only [hasNullF, hasNull, Index.toF, any_null_toF]
  rw [← this, e]

/-- C06 on the multi index of FLOAT / DOUBLE members, NaN bounds included: with the flags the float indexers
    compute per member, `Find` answers the first page of the concatenation whose bounds contain `v` under the
    float comparison (a NaN bound excludes nothing), else the number of pages. Any number of members, members
    without pages, null pages and NaN pages anywhere. -/
theorem findMultiF_no_miss (nf : Bool) (z : Int) (cs : List FChunk) (flag : Bool) (v : Int)
    (hwf : ∀ c ∈ cs, c.ranks.WF)
    (hbnd : ∀ c ∈ cs, c.nulls.any id = false → hasNullF c.ix = false)
    (hflagw : ∀ c ∈ cs, c.asc = (writerOrderF z c.ix == 1))
    (hle : ∀ c ∈ cs, ∀ i a b, i < c.ix.n → minAtF c.ix i = .val a → maxAtF c.ix i = .val b → a ≤ b)
    (hall : flag = true → ∀ c ∈ cs, c.asc = true)
    (hseam : (∀ c ∈ cs, hasNaN c.ix = false) → flag = multiIsAscending z (cs.map FChunk.ranks)) :
    let r := findViewF nf flag (concatNullsF cs) (concatF cs) v
    r ≤ (concatF cs).n ∧ (r < (concatF cs).n → containsF nf (concatF cs) r v = true) ∧
    (∀ p, p < (concatF cs).n → containsF nf (concatF cs) p v = true → r ≤ p) := by
  by_cases hn : ∀ c ∈ cs, hasNaN c.ix = false
  · obtain ⟨e1, e2⟩ := concatF_toF cs hn
    have hmem : ∀ c' ∈ cs.map FChunk.ranks, ∃ c ∈ cs, c' = c.ranks := by
      intro c' hc'
      obtain ⟨c, hc, rfl⟩ := List.mem_map.mp hc'
      exact ⟨c, hc, rfl⟩
    have hbase := findMulti_no_miss_any nf z (cs.map FChunk.ranks) v
      (by intro c' hc'; obtain ⟨c, hc, rfl⟩ := hmem c' hc'; exact hwf c hc)
      (by
        intro c' hc' hnn; obtain ⟨c, hc, rfl⟩ := hmem c' hc'
        have : hasNull c.ix.ranks = hasNullF c.ix := hasNull_ranks c.ix (hn c hc)
        simp only [FChunk.ranks] at hnn ⊢
        rw [this]; exact hbnd c hc hnn)
      (by
        intro c' hc' ha; obtain ⟨c, hc, rfl⟩ := hmem c' hc'
        have hw : writerOrderF z c.ix = 1 := by
          have := hflagw c hc
          simp only [FChunk.ranks] at ha
          rw [ha] at this
          simpa using this.symm
        have hw' : writerOrder z c.ix.ranks = 1 := by simpa [writerOrderF, hn c hc] using hw
        exact ⟨(writerOrder_one z _ hw').1, (writerOrder_one z _ hw').2.1⟩)
      (by
        intro c' hc' i a b hi ha hb; obtain ⟨c, hc, rfl⟩ := hmem c' hc'
        have e := ranks_toF c.ix (hn c hc)
        apply hle c hc i a b
        · simpa [Chunk.n, FChunk.ranks, FIndex.ranks, Index.n, FIndex.n] using hi
        · rw [← e, minAtF_toF]; simp only [FChunk.ranks] at ha; rw [ha]; rfl
        · rw [← e, maxAtF_toF]; simp only [FChunk.ranks] at hb; rw [hb]; rfl)
    rw [findMultiGo_eq nf z _ v
      (by intro c' hc'; obtain ⟨c, hc, rfl⟩ := hmem c' hc'; exact hwf c hc)] at hbase
    simp only [findMulti, findView, ← hseam hn, e2] at hbase
    simp only [findViewF, ← e1, binarySearchF_toF, linearSearchF, lloopF_toF, toF_n, containsF_toF]
    simpa only [linearSearch] using hbase
  · have hflag : flag = false := by
      cases hf : flag with
      | false => rfl
      | true =>
        exfalso
        apply hn
        intro c hc
        have ha := hall hf c hc
        rw [hflagw c hc] at ha
        cases hnan : hasNaN c.ix with
        | false => rfl
        | true => simp [writerOrderF, hnan] at ha
    simp only [findViewF, hflag, Bool.false_and, Bool.false_eq_true, if_false]
    exact linearSearchF_first nf (concatF cs) v

end PqModel.Search
