import PqModel.TypedPath

/-! # Go maps written onto GROUP schemas (C03, round 6)

MIRROR of `writeRowsFuncOfMapToGroup` (`column_buffer_write.go:777-897`) and of the per-node value
writers it calls for `map[string]any` / `map[string]V` (`writeValueFuncOf`, `…Optional`, `…Group`,
`…Leaf`: `column_buffer_reflect.go:338-365, 601-650, 732-750`), on group schemas made of required
leaves, optional nodes and nested groups (no repeated node, no LIST/MAP below the group).

Abstractions: a Go map with string keys is `Val.list` of entries `Val.struct [Val.prim key, value]`
(key = identifier of the key string; the nil map and the empty map are `Val.none` / `Val.list []`);
`m[name]`, `MapIndex(name)` is `mlookup` (first entry with that key; a missing key is `Val.none`: the
zero value of the string branch, the invalid `reflect.Value` of the other two). Whether a value
that was found is null (`isNullValue`: nil, zero value) is decided by the harness: a non-null value
below an optional node is `Val.some w`. Triples as in `TypedPath`. What the COLUMN BUFFER stores for
a triple (`writeNull` against `WriteValues` of a null `Value`) is `storeNull` / `storeRows` below.

SPEC side: `resolveN` (the documented meaning: every field of the group is looked up by name in the
map, a missing key is a null member, extra keys are ignored) followed by the Dremel `shredN`. -/
namespace PqModel.MapToGroup
open PqModel.Dremel PqModel.TypedPath PqModel.NullScan

/-- `m[name]` / `m.MapIndex(name)` on the entries of a Go map -/
def mlookup : List Val → Nat → Val
  | [], _ => .none
  | e :: es, name =>
    match e with
    | .struct [.prim k, v] => if k = name then v else mlookup es name
    | _ => mlookup es name

/- group schemas with named fields -/
mutual
inductive GNode where
  | leaf
  | opt (n : GNode)
  | group (fs : GFields)
inductive GFields where
  | nil
  | cons (name : Nat) (n : GNode) (fs : GFields)
end

mutual
def eraseG : GNode → Node
  | .leaf => .leaf
  | .opt n => .opt (eraseG n)
  | .group fs => .group (eraseGF fs)
def eraseGF : GFields → Fields
  | .nil => .nil
  | .cons _ n fs => .cons (eraseG n) (eraseGF fs)
end

/- SPEC: the value of the group a Go map stands for (members by name, missing = null) -/
mutual
def resolveN : GNode → Val → Val
  | .leaf, v => v
  | .opt n, v =>
    match v with
    | .some w => .some (resolveN n w)
    | _ => .none
  | .group fs, v =>
    match v with
    | .list es => .struct (resolveF fs es)
    | _ => .none
def resolveF : GFields → List Val → List Val
  | .nil, _ => []
  | .cons name n fs, es => resolveN n (mlookup es name) :: resolveF fs es
end

/- MIRROR `writeValueFuncOf` (`column_buffer_reflect.go:338-353`) on leaf / optional / group nodes:
`writeValueFuncOfLeaf` (732-750: invalid or nil value = `col.writeNull(levels)`, else the value at
the levels), `writeValueFuncOfOptional` (355-365: a null value goes down as it is at the same
definition level, any other one level up), `writeValueFuncOfGroup` (601-650: an invalid value hands
every member the invalid value; a map hands member `name` the value `m[name]`). `wvF fs r d none` is
the invalid-value branch, `some es` the map branch. -/
mutual
def wvN : GNode → (rep dfn : Nat) → Val → Cols
  | .leaf, r, d, v =>
    match v with
    | .prim x => [[⟨Option.some x, r, d⟩]]
    | _ => [[⟨Option.none, r, d⟩]]
  | .opt n, r, d, v =>
    match v with
    | .some w => wvN n r (d + 1) w
    | _ => wvN n r d .none
  | .group fs, r, d, v =>
    match v with
    | .list es => wvF fs r d (Option.some es)
    | _ => wvF fs r d Option.none
def wvF : GFields → (rep dfn : Nat) → Option (List Val) → Cols
  | .nil, _, _, _ => []
  | .cons name n fs, r, d, m =>
    wvN n r d (match m with | Option.some es => mlookup es name | Option.none => .none) ++ wvF fs r d m
end

/-- MIRROR `writeRowsFuncOfMapToGroup`, the `map[string]any` branch and the default branch
(`column_buffer_write.go:855-882`, outer closure 885-896): no rows = every member writer on the empty
array (`writeRowsFuncOfInterface`: the invalid value); else row by row, member by member,
`writeValue(columns, levels, m[name])`. -/
def wrM2GVal (fs : GFields) : WriteRows := fun r _ d rows =>
  if rows.isEmpty then wvF fs r d Option.none
  else joinSegs (leavesF (eraseGF fs)) (rows.map fun row => wvF fs r d (Option.some (elemsS row)))

/-- `GenericWriter[map[string]any].Write(batch)` -/
def m2gWrite (fs : GFields) (batch : List Val) : Cols :=
  if batch.isEmpty then List.replicate (leavesF (eraseGF fs)) [] else wrM2GVal fs 0 0 0 batch

/-- the member writer of the string branch: `writeRowsFuncOf(string)` = the leaf writer, wrapped by
`writeRowsFuncOfOptional` when the member is optional (`column_buffer_write.go:803-807`) -/
def fieldT (optional : Bool) : TNode := if optional then .optLeaf else .leaf

def toFields : List (Nat × Bool) → Fields
  | [] => .nil
  | f :: fs => .cons (erase (fieldT f.2)) (toFields fs)

/-- MIRROR `writeRowsFuncOfMapToGroup`, the `map[string]string` branch (`column_buffer_write.go:
821-853`): member by member, the column `m[name]` of all rows (a missing key is the zero string) goes
to the member's `writeRows` in ONE call (so the bitmap scan of an optional member runs over the
whole batch). Members are `(name, optional)`; the zero string of an optional member is `Val.none`,
any other `Val.some (Val.prim id)` (`TypedPath.unopt`). -/
def wrM2GStr (fs : List (Nat × Bool)) (dm : Nat) : WriteRows := fun r k d rows =>
  fs.flatMap fun f => tyN (fieldT f.2) dm r k d (rows.map fun row => mlookup (elemsS row) f.1)

def m2gWriteStr (fs : List (Nat × Bool)) (batch : List Val) : Cols :=
  if batch.isEmpty then List.replicate fs.length [] else wrM2GStr fs 0 0 0 0 batch

/-! ## what the column buffer keeps of a stream of triples -/

/-- MIRROR of the value-writer side: a triple with a value is `col.writeInt32(levels, v)` etc., a
triple without one `col.writeNull(levels)`. Plain buffer (`dm = 0`, `column_buffer_int32.go:122-124`):
`writeNull` appends the zero value (payload 0). `optionalColumnBuffer.writeNull`
(`column_buffer_optional.go:315-318`): the definition level and row index -1, NO value, whatever
the level is. Result: definition levels and the values of the base buffer. -/
def storeNull (dm : Nat) (col : List Triple) : List Nat × List Nat :=
  (col.map (·.dfn), col.filterMap fun t => if dm = 0 then Option.some (t.val.getD 0) else t.val)

/-- MIRROR of the row side (`WriteRows` of deconstructed rows: `optionalColumnBuffer.writeValues`,
`column_buffer_optional.go:218-250`): an entry whose definition level is the maximum appends its
value to the base buffer (the null `Value` of a missing required member reads as zero). -/
def storeRows (dm : Nat) (col : List Triple) : List Nat × List Nat :=
  (col.map (·.dfn), col.filterMap fun t => if t.dfn = dm then Option.some (t.val.getD 0) else Option.none)

/-- page read-back: a slot at the maximum definition level takes the next stored value (zero when the
values have run out), any other slot is null -/
def readBack (dm : Nat) : List Nat → List Nat → List (Option Nat)
  | [], _ => []
  | d :: ds, vs =>
    if d = dm then
      match vs with
      | v :: vs' => Option.some v :: readBack dm ds vs'
      | [] => Option.some 0 :: readBack dm ds []
    else Option.none :: readBack dm ds vs

/- maximum definition level of the leaf columns below a node, in column order -/
mutual
def maxDefsN : GNode → Nat → List Nat
  | .leaf, d => [d]
  | .opt n, d => maxDefsN n (d + 1)
  | .group fs, d => maxDefsF fs d
def maxDefsF : GFields → Nat → List Nat
  | .nil, _ => []
  | .cons _ n fs, d => maxDefsN n d ++ maxDefsF fs d
end

/-- the page contents a reader gets back from what the value writers stored, column by column -/
def readCols (dms : List Nat) (cs : Cols) : List (List (Option Nat)) :=
  (cs.zip dms).map fun (c, dm) => readBack dm (storeNull dm c).1 (storeNull dm c).2

/-- a definition level equal to the maximum without a value: the situation `writeNull` mishandles -/
def hole (dm : Nat) (t : Triple) : Bool := t.dfn == dm && t.val.isNone

/-! ## lemmas -/

theorem resolveN_none (n : GNode) : resolveN n .none = .none := by
  cases n <;> simp [resolveN]

mutual
theorem wvN_eq_shred (n : GNode) (r k d : Nat) (v : Val) :
    wvN n r d v = shredN (eraseG n) r k d (resolveN n v) := by
  cases n with
  | leaf => cases v <;> simp [wvN, shredN, eraseG, resolveN]
  | opt n =>
    cases v with
    | some w => simpa [wvN, shredN, eraseG, resolveN] using wvN_eq_shred n r k (d + 1) w
    | none =>
      simpa [wvN, shredN, eraseG, resolveN, resolveN_none, shredN_none, absentN] using wvN_eq_shred n r k d .none
    | prim x =>
      simpa [wvN, shredN, eraseG, resolveN, resolveN_none, shredN_none, absentN] using wvN_eq_shred n r k d .none
    | struct vs =>
      simpa [wvN, shredN, eraseG, resolveN, resolveN_none, shredN_none, absentN] using wvN_eq_shred n r k d .none
    | list ws =>
      simpa [wvN, shredN, eraseG, resolveN, resolveN_none, shredN_none, absentN] using wvN_eq_shred n r k d .none
  | group fs =>
    cases v with
    | list es => simpa [wvN, shredN, eraseG, resolveN] using wvF_some fs r k d es
    | none => simpa [wvN, shredN, eraseG, resolveN] using wvF_none fs r k d
    | prim x => simpa [wvN, shredN, eraseG, resolveN] using wvF_none fs r k d
    | struct vs => simpa [wvN, shredN, eraseG, resolveN] using wvF_none fs r k d
    | some w => simpa [wvN, shredN, eraseG, resolveN] using wvF_none fs r k d
theorem wvF_some (fs : GFields) (r k d : Nat) (es : List Val) :
    wvF fs r d (Option.some es) = shredF (eraseGF fs) r k d (resolveF fs es) := by
  cases fs with
  | nil => simp [wvF, shredF, eraseGF, resolveF]
  | cons name n fs =>
    simp only [wvF, eraseGF, resolveF, shredF]
    rw [wvN_eq_shred n r k d (mlookup es name), wvF_some fs r k d es]
theorem wvF_none (fs : GFields) (r k d : Nat) :
    wvF fs r d Option.none = absentF (eraseGF fs) r d := by
  cases fs with
  | nil => simp [wvF, absentF, eraseGF]
  | cons name n fs =>
    simp only [wvF, eraseGF, absentF]
    rw [wvN_eq_shred n r k d .none, resolveN_none, shredN_none, wvF_none fs r k d]
end

theorem toFields_leaves : ∀ (fs : List (Nat × Bool)), leavesF (toFields fs) = fs.length
  | [] => by simp [toFields, leavesF]
  | f :: fs => by
    have h1 : leavesN (erase (fieldT f.2)) = 1 := by
      cases hf : f.2 <;> simp [fieldT, erase, leavesN]
    simp [toFields, leavesF, h1, toFields_leaves fs]; omega

theorem joinSegs_zero_nil {α : Type} : ∀ (xs : List α), joinSegs 0 (xs.map fun _ => ([] : Cols)) = []
  | [] => by simp [joinSegs]
  | _ :: xs => by simp only [List.map_cons, joinSegs_cons, zipApp]

/-! ## interface-typed struct fields on an explicit schema -/

/-- MIRROR `writeRowsFuncOfInterface` (`column_buffer_write.go:646-677`): the writer of a field of
Go type `any` whose schema node has leaf columns: no rows = `writeValue(columns, levels,
reflect.Value{})`, else one `writeValue` per row with the row's levels. -/
def wrInterface (n : GNode) : WriteRows := fun r _ d vs =>
  if vs.isEmpty then wvN n r d .none
  else joinSegs (leavesN (eraseG n)) (vs.map (wvN n r d))

/-- MIRROR `writeRowsFuncOfStruct` (`column_buffer_write.go:578-644`) over fields of type `any`
(the optional wrapper is NOT added for interface kinds, 612-614): field by field, the column of the
field's values of all rows. Rows are the lists of remaining field values, in schema order (the Go
field order only permutes calls that write disjoint columns). -/
def ifaceF : GFields → (rep depth dfn : Nat) → List (List Val) → Cols
  | .nil, _, _, _, _ => []
  | .cons _ n fs, r, k, d, vss => wrInterface n r k d (vss.map hd) ++ ifaceF fs r k d (vss.map List.tail)

/-- `GenericWriter[T].Write(batch)` for a struct `T` of `any` fields -/
def ifaceWrite (fs : GFields) (batch : List Val) : Cols :=
  if batch.isEmpty then List.replicate (leavesF (eraseGF fs)) [] else ifaceF fs 0 0 0 (batch.map fieldsOf)

/-- SPEC: the group value of a struct of `any` fields (positional) -/
def resolveP : GFields → List Val → List Val
  | .nil, _ => []
  | .cons _ n fs, vs => resolveN n (hd vs) :: resolveP fs vs.tail

theorem wrInterface_rows (n : GNode) (r k d : Nat) (vs : List Val) (h : vs ≠ []) :
    wrInterface n r k d vs =
      joinSegs (leavesN (eraseG n)) (vs.map fun v => shredN (eraseG n) r k d (resolveN n v)) := by
  unfold wrInterface
  cases vs with
  | nil => exact absurd rfl h
  | cons v vs =>
    simp only [List.isEmpty_cons, Bool.false_eq_true, if_false]
    congr 1
    exact map_congr_mem fun w _ => wvN_eq_shred n r k d w

theorem wrInterface_empty (n : GNode) (r k d : Nat) :
    wrInterface n r k d [] = absentN (eraseG n) r d := by
  simp [wrInterface, wvN_eq_shred n r k d .none, resolveN_none, shredN_none]

/-! ## when the value writers store what the row path stores -/

/- `okN n top v`: no REQUIRED leaf below `n` is left without a value while all its optional
ancestors are present, unless it has no optional ancestor at all (`top`: its column is a plain
buffer, whose `writeNull` appends the zero value) - follows `wvN` / `wvF` case by case. -/
mutual
def okN : GNode → Bool → Val → Bool
  | .leaf, top, v =>
    match v with
    | .prim _ => true
    | _ => top
  | .opt n, _, v =>
    match v with
    | .some w => okN n false w
    | _ => true
  | .group fs, top, v =>
    match v with
    | .list es => okF fs top (Option.some es)
    | _ => okF fs top Option.none
def okF : GFields → Bool → Option (List Val) → Bool
  | .nil, _, _ => true
  | .cons name n fs, top, m =>
    okN n top (match m with | Option.some es => mlookup es name | Option.none => .none) && okF fs top m
end

/-- an entry the two sides of the column buffer store alike -/
def TripleOk (dm : Nat) (t : Triple) : Prop :=
  (dm = 0 ∨ hole dm t = false) ∧ (t.val.isSome = true → t.dfn = dm) ∧ t.dfn ≤ dm

def ColsOk : Cols → List Nat → Prop
  | [], [] => True
  | c :: cs, dm :: dms => (∀ t ∈ c, TripleOk dm t) ∧ ColsOk cs dms
  | _, _ => False

theorem colsOk_append : ∀ {a : Cols} {da : List Nat} {b : Cols} {db : List Nat},
    ColsOk a da → ColsOk b db → ColsOk (a ++ b) (da ++ db)
  | [], [], _, _, _, hb => by simpa using hb
  | c :: cs, dm :: dms, _, _, ha, hb => by
    simp only [List.cons_append, ColsOk] at ha ⊢
    exact ⟨ha.1, colsOk_append ha.2 hb⟩
  | [], _ :: _, _, _, ha, _ => by simp [ColsOk] at ha
  | _ :: _, [], _, _, ha, _ => by simp [ColsOk] at ha

theorem colsOk_zipApp : ∀ {A B : Cols} {dms : List Nat},
    ColsOk A dms → ColsOk B dms → ColsOk (zipApp A B) dms
  | [], [], [], _, _ => by simp [zipApp, ColsOk]
  | a :: as, b :: bs, dm :: dms, ha, hb => by
    simp only [zipApp, ColsOk] at ha hb ⊢
    refine ⟨?_, colsOk_zipApp ha.2 hb.2⟩
    intro t ht
    rcases List.mem_append.mp ht with h | h
    · exact ha.1 t h
    · exact hb.1 t h
  | [], _ :: _, [], _, hb => by simp [ColsOk] at hb
  | [], _, _ :: _, ha, _ => by simp [ColsOk] at ha
  | _ :: _, _, [], ha, _ => by simp [ColsOk] at ha
  | _ :: _, [], _ :: _, _, hb => by simp [ColsOk] at hb

theorem colsOk_replicate : ∀ (dms : List Nat), ColsOk (List.replicate dms.length []) dms
  | [] => by simp [ColsOk]
  | _ :: dms => by simp [List.replicate_succ, ColsOk, colsOk_replicate dms]

theorem colsOk_joinSegs {dms : List Nat} : ∀ {segs : List Cols}, (∀ s ∈ segs, ColsOk s dms) →
    ColsOk (joinSegs dms.length segs) dms
  | [], _ => by simpa [joinSegs] using colsOk_replicate dms
  | s :: rest, h => by
    rw [joinSegs_cons]
    exact colsOk_zipApp (h s (by simp)) (colsOk_joinSegs fun x hx => h x (by simp [hx]))

mutual
theorem wvN_colsOk (n : GNode) (top : Bool) (r d d0 : Nat) (v : Val)
    (h : (d = d0 ∧ okN n top v = true ∧ (top = true → d0 = 0)) ∨ (d < d0 ∧ v = .none)) :
    ColsOk (wvN n r d v) (maxDefsN n d0) := by
  cases n with
  | leaf =>
    rcases h with ⟨rfl, hk, ht⟩ | ⟨hlt, rfl⟩
    · cases v with
      | prim x => simp [wvN, maxDefsN, ColsOk, TripleOk, hole]
      | none => simp only [okN] at hk; simp [wvN, maxDefsN, ColsOk, TripleOk, ht hk]
      | some w => simp only [okN] at hk; simp [wvN, maxDefsN, ColsOk, TripleOk, ht hk]
      | struct vs => simp only [okN] at hk; simp [wvN, maxDefsN, ColsOk, TripleOk, ht hk]
      | list ws => simp only [okN] at hk; simp [wvN, maxDefsN, ColsOk, TripleOk, ht hk]
    · simp [wvN, maxDefsN, ColsOk, TripleOk, hole]; omega
  | opt n =>
    simp only [maxDefsN]
    rcases h with ⟨rfl, hk, _⟩ | ⟨hlt, rfl⟩
    · cases v with
      | some w =>
        simp only [wvN]
        exact wvN_colsOk n false r (d + 1) (d + 1) w (Or.inl ⟨rfl, by simpa [okN] using hk, by simp⟩)
      | none => simp only [wvN]; exact wvN_colsOk n false r d (d + 1) .none (Or.inr ⟨by omega, rfl⟩)
      | prim x => simp only [wvN]; exact wvN_colsOk n false r d (d + 1) .none (Or.inr ⟨by omega, rfl⟩)
      | struct vs => simp only [wvN]; exact wvN_colsOk n false r d (d + 1) .none (Or.inr ⟨by omega, rfl⟩)
      | list ws => simp only [wvN]; exact wvN_colsOk n false r d (d + 1) .none (Or.inr ⟨by omega, rfl⟩)
    · simp only [wvN]; exact wvN_colsOk n false r d (d0 + 1) .none (Or.inr ⟨by omega, rfl⟩)
  | group fs =>
    simp only [maxDefsN]
    rcases h with ⟨rfl, hk, ht⟩ | ⟨hlt, rfl⟩
    · cases v with
      | list es =>
        simp only [wvN]
        exact wvF_colsOk fs top r d d (Option.some es) (Or.inl ⟨rfl, by simpa [okN] using hk, ht⟩)
      | none => simp only [wvN]; exact wvF_colsOk fs top r d d Option.none (Or.inl ⟨rfl, by simpa [okN] using hk, ht⟩)
      | prim x => simp only [wvN]; exact wvF_colsOk fs top r d d Option.none (Or.inl ⟨rfl, by simpa [okN] using hk, ht⟩)
      | struct vs => simp only [wvN]; exact wvF_colsOk fs top r d d Option.none (Or.inl ⟨rfl, by simpa [okN] using hk, ht⟩)
      | some w => simp only [wvN]; exact wvF_colsOk fs top r d d Option.none (Or.inl ⟨rfl, by simpa [okN] using hk, ht⟩)
    · simp only [wvN]; exact wvF_colsOk fs top r d d0 Option.none (Or.inr ⟨hlt, rfl⟩)
theorem wvF_colsOk (fs : GFields) (top : Bool) (r d d0 : Nat) (m : Option (List Val))
    (h : (d = d0 ∧ okF fs top m = true ∧ (top = true → d0 = 0)) ∨ (d < d0 ∧ m = Option.none)) :
    ColsOk (wvF fs r d m) (maxDefsF fs d0) := by
  cases fs with
  | nil => simp [wvF, maxDefsF, ColsOk]
  | cons name n fs =>
    simp only [wvF, maxDefsF]
    apply colsOk_append
    · apply wvN_colsOk n top
      rcases h with ⟨rfl, hk, ht⟩ | ⟨hlt, rfl⟩
      · simp only [okF, Bool.and_eq_true] at hk
        exact Or.inl ⟨rfl, hk.1, ht⟩
      · exact Or.inr ⟨hlt, rfl⟩
    · apply wvF_colsOk fs top
      rcases h with ⟨rfl, hk, ht⟩ | ⟨hlt, rfl⟩
      · simp only [okF, Bool.and_eq_true] at hk
        exact Or.inl ⟨rfl, hk.2, ht⟩
      · exact Or.inr ⟨hlt, rfl⟩
end

mutual
theorem maxDefsN_length (n : GNode) (d : Nat) : (maxDefsN n d).length = leavesN (eraseG n) := by
  cases n with
  | leaf => simp [maxDefsN, eraseG, leavesN]
  | opt n => simpa [maxDefsN, eraseG, leavesN] using maxDefsN_length n (d + 1)
  | group fs => simpa [maxDefsN, eraseG, leavesN] using maxDefsF_length fs d
theorem maxDefsF_length (fs : GFields) (d : Nat) : (maxDefsF fs d).length = leavesF (eraseGF fs) := by
  cases fs with
  | nil => simp [maxDefsF, eraseGF, leavesF]
  | cons name n fs => simp [maxDefsF, eraseGF, leavesF, maxDefsN_length n d, maxDefsF_length fs d]
end

theorem store_agree (dm : Nat) : ∀ (col : List Triple), (∀ t ∈ col, TripleOk dm t) →
    storeNull dm col = storeRows dm col := by
  intro col h
  unfold storeNull storeRows
  congr 1
  induction col with
  | nil => rfl
  | cons t ts ih =>
    have iht := ih (fun u hu => h u (by simp [hu]))
    obtain ⟨h1, h2, h3⟩ := h t (by simp)
    simp only [List.filterMap_cons]
    rw [iht]
    cases hval : t.val with
    | none =>
      rcases h1 with h0 | h1
      · have : t.dfn = 0 := by omega
        simp [h0, this]
      · have hne : t.dfn ≠ dm := by
          intro he; simp [hole, he, hval] at h1
        have hdm : dm ≠ 0 := by omega
        simp [hne, hdm]
    | some x =>
      have : t.dfn = dm := h2 (by simp [hval])
      simp [this]

/-- what the column buffers keep, column by column, on either side -/
def storeAll (f : Nat → List Triple → List Nat × List Nat) : Cols → List Nat → List (List Nat × List Nat)
  | c :: cs, dm :: dms => f dm c :: storeAll f cs dms
  | _, _ => []

theorem storeAll_agree : ∀ (cs : Cols) (dms : List Nat), ColsOk cs dms →
    storeAll storeNull cs dms = storeAll storeRows cs dms
  | [], [], _ => rfl
  | c :: cs, dm :: dms, h => by
    simp only [ColsOk] at h
    simp only [storeAll]
    rw [store_agree dm c h.1, storeAll_agree cs dms h.2]
  | [], _ :: _, _ => rfl
  | _ :: _, [], _ => rfl

/-! ## only the members' keys matter -/

def namesF : GFields → List Nat
  | .nil => []
  | .cons name _ fs => name :: namesF fs

theorem wvF_congr : ∀ (fs : GFields) (r d : Nat) (es es' : List Val),
    (∀ name ∈ namesF fs, mlookup es name = mlookup es' name) →
    wvF fs r d (Option.some es) = wvF fs r d (Option.some es')
  | .nil, _, _, _, _, _ => by simp [wvF]
  | .cons name n fs, r, d, es, es', h => by
    simp only [wvF]
    rw [h name (by simp [namesF]), wvF_congr fs r d es es' (fun x hx => h x (by simp [namesF, hx]))]

/-! ## the map field on an OPTIONAL group node -/

/-- MIRROR: `writeRowsFuncOfStruct` wraps the writer of a map field whose schema node is an optional
GROUP with `writeRowsFuncOfOptional` (`column_buffer_write.go:606-627`; bitmap branch, null index of
map types: the nil map is null) over `writeRowsFuncOfMapToGroup`. Rows: `Val.some map` / `Val.none`.
One `GenericBuffer[struct{ M map[string]V }].Write(batch)`, any / default branches
(theorem `maptogroup_optional_member_eq_reflect`). -/
def m2gOptWrite (fs : GFields) (batch : List Val) : Cols :=
  if batch.isEmpty then List.replicate (leavesF (eraseGF fs)) []
  else wrOptional (leavesF (eraseGF fs)) (wrM2GVal fs) 0 0 0 batch

/-! ## the predicate is exact: a row that fails `okF` leaves a level without value -/

/-- some column of an optional buffer (`0 < dm`) holds an entry at the maximum level without value -/
def HasHole : Cols → List Nat → Prop
  | c :: cs, dm :: dms => (0 < dm ∧ ∃ t ∈ c, hole dm t = true) ∨ HasHole cs dms
  | _, _ => False

theorem hasHole_append_left : ∀ {a : Cols} {da : List Nat} (b : Cols) (db : List Nat),
    HasHole a da → HasHole (a ++ b) (da ++ db)
  | c :: cs, dm :: dms, b, db, h => by
    simp only [List.cons_append, HasHole] at h ⊢
    rcases h with h | h
    · exact Or.inl h
    · exact Or.inr (hasHole_append_left b db h)
  | [], _, _, _, h => by simp [HasHole] at h
  | _ :: _, [], _, _, h => by simp [HasHole] at h

theorem hasHole_append_right : ∀ {a : Cols} {da : List Nat} {b : Cols} {db : List Nat},
    a.length = da.length → HasHole b db → HasHole (a ++ b) (da ++ db)
  | [], [], _, _, _, h => by simpa using h
  | c :: cs, dm :: dms, _, _, hl, h => by
    simp only [List.cons_append, HasHole]
    exact Or.inr (hasHole_append_right (by simpa using hl) h)
  | [], _ :: _, _, _, hl, _ => by simp at hl
  | _ :: _, [], _, _, hl, _ => by simp at hl

theorem wvN_length (n : GNode) (r d d0 : Nat) (v : Val) :
    (wvN n r d v).length = (maxDefsN n d0).length := by
  rw [wvN_eq_shred n r 0 d v, shredN_length, maxDefsN_length]

mutual
theorem wvN_hole (n : GNode) (top : Bool) (r d : Nat) (v : Val)
    (hk : okN n top v = false) (ht : top = false → 0 < d) :
    HasHole (wvN n r d v) (maxDefsN n d) := by
  cases n with
  | leaf =>
    cases v with
    | prim x => simp [okN] at hk
    | none => simp only [okN] at hk; simp [wvN, maxDefsN, HasHole, hole, ht hk]
    | some w => simp only [okN] at hk; simp [wvN, maxDefsN, HasHole, hole, ht hk]
    | struct vs => simp only [okN] at hk; simp [wvN, maxDefsN, HasHole, hole, ht hk]
    | list ws => simp only [okN] at hk; simp [wvN, maxDefsN, HasHole, hole, ht hk]
  | opt n =>
    cases v with
    | some w =>
      simp only [wvN, maxDefsN]
      exact wvN_hole n false r (d + 1) w (by simpa [okN] using hk) (fun _ => by omega)
    | none => simp [okN] at hk
    | prim x => simp [okN] at hk
    | struct vs => simp [okN] at hk
    | list ws => simp [okN] at hk
  | group fs =>
    cases v with
    | list es => simp only [wvN, maxDefsN]; exact wvF_hole fs top r d (Option.some es) (by simpa [okN] using hk) ht
    | none => simp only [wvN, maxDefsN]; exact wvF_hole fs top r d Option.none (by simpa [okN] using hk) ht
    | prim x => simp only [wvN, maxDefsN]; exact wvF_hole fs top r d Option.none (by simpa [okN] using hk) ht
    | struct vs => simp only [wvN, maxDefsN]; exact wvF_hole fs top r d Option.none (by simpa [okN] using hk) ht
    | some w => simp only [wvN, maxDefsN]; exact wvF_hole fs top r d Option.none (by simpa [okN] using hk) ht
theorem wvF_hole (fs : GFields) (top : Bool) (r d : Nat) (m : Option (List Val))
    (hk : okF fs top m = false) (ht : top = false → 0 < d) :
    HasHole (wvF fs r d m) (maxDefsF fs d) := by
  cases fs with
  | nil => simp [okF] at hk
  | cons name n fs =>
    simp only [wvF, maxDefsF]
    simp only [okF, Bool.and_eq_false_iff] at hk
    rcases hk with hk | hk
    · exact hasHole_append_left _ _ (wvN_hole n top r d _ hk ht)
    · exact hasHole_append_right (wvN_length n r d d _) (wvF_hole fs top r d m hk ht)
end

/-! ## the optional member: reduction to `wrOptional_sound` -/

/-- the writer that is sound by construction (SPEC side of a node's writer) -/
def canonW (n : Node) : WriteRows := fun r k d vs =>
  if vs.isEmpty then absentN n r d else joinSegs (leavesN n) (vs.map (shredN n r k d))

theorem canonW_sound (n : Node) : Sound n (fun _ => canonW n) := by
  intro dm r k
  refine ⟨?_, ?_, ?_⟩
  · intro vs hvs
    cases vs with
    | nil => exact absurd rfl hvs
    | cons v vs => simp [canonW]
  · intro d _; simp [canonW]
  · intro d _ c
    simp [canonW, List.replicate_succ, shredN_none, List.map_replicate]

theorem wvF_some_nil : ∀ (fs : GFields) (r d : Nat), wvF fs r d (Option.some []) = wvF fs r d Option.none
  | .nil, _, _ => by simp [wvF]
  | .cons name n fs, r, d => by simp only [wvF, mlookup]; rw [wvF_some_nil fs r d]

theorem wvF_row (fs : GFields) (r k d : Nat) (v : Val) :
    wvF fs r d (Option.some (elemsS v)) = shredN (.group (eraseGF fs)) r k d (resolveN (.group fs) v) := by
  cases v with
  | list es => simp [elemsS, resolveN, shredN, wvF_some fs r k d es]
  | none => simp [elemsS, resolveN, shredN, wvF_some_nil, wvF_none fs r k d]
  | prim x => simp [elemsS, resolveN, shredN, wvF_some_nil, wvF_none fs r k d]
  | struct vs => simp [elemsS, resolveN, shredN, wvF_some_nil, wvF_none fs r k d]
  | some w => simp [elemsS, resolveN, shredN, wvF_some_nil, wvF_none fs r k d]

theorem wrM2GVal_canon (fs : GFields) (r k d : Nat) (vs : List Val) :
    wrM2GVal fs r k d vs = canonW (.group (eraseGF fs)) r k d (vs.map (resolveN (.group fs))) := by
  unfold wrM2GVal canonW
  cases vs with
  | nil => simp [wvF_none fs r k d, absentN]
  | cons v vs =>
    simp only [List.isEmpty_cons, Bool.false_eq_true, if_false, List.map_cons, leavesN, List.map_map]
    congr 1
    simp only [List.cons.injEq]
    exact ⟨wvF_row fs r k d v, map_congr_mem fun w _ => wvF_row fs r k d w⟩

theorem nullIndexFrom_map {α β : Type} (nz : β → Bool) (g : α → β) : ∀ (vs : List α) (i : Nat) (bits : List (BitVec 64)),
    nullIndexFrom nz (vs.map g) i bits = nullIndexFrom (fun v => nz (g v)) vs i bits
  | [], _, _ => rfl
  | v :: vs, i, bits => by simp only [List.map_cons, nullIndexFrom]; exact nullIndexFrom_map nz g vs (i + 1) _

/-- rows resolved before or after the optional wrapper -/
theorem wrOptional_map (m : Nat) (inner : WriteRows) (g gO : Val → Val)
    (h1 : ∀ v, isSome (gO v) = isSome v) (h2 : ∀ v, unopt (gO v) = g (unopt v)) (r k d : Nat) (vs : List Val) :
    wrOptional m (fun r k d vs => inner r k d (vs.map g)) r k d vs = wrOptional m inner r k d (vs.map gO) := by
  unfold wrOptional wrOptionalWith
  have hidx : nullIndex isSome (vs.map gO) = nullIndex isSome vs := by
    unfold nullIndex
    rw [nullIndexFrom_map, List.length_map]
    congr 1
    funext v; exact h1 v
  rw [hidx, List.length_map]
  cases vs with
  | nil => simp
  | cons v vs =>
    simp only [List.isEmpty_cons, List.map_cons, Bool.false_eq_true, if_false]
    split
    · congr 1
      apply map_congr_mem
      intro run _
      congr 1
      simp only [sliceRows, ← List.map_cons, List.map_drop, List.map_take, List.map_map]
      have hf : (g ∘ unopt) = (unopt ∘ gO) := by funext w; simp [h2 w]
      rw [hf]
    · rfl

end PqModel.MapToGroup
