import PqModel.ThriftSkipFuel
import PqModel.ThriftWriteProofs

/-! Lemmas: the MIRROR of the decoder's structure walk (`PqModel.ThriftSkip`: `compactBytesReader` +
    `skipStruct` of encoding/thrift) accepts what the MIRROR of the encoder (`PqModel.ThriftWrite`:
    `compactWriter` + `structEncoder.encode`) emits, and ends exactly at its end. First the reader
    primitives on the writer primitives (`binary.Uvarint` with its 10-byte overflow rule on
    `binary.PutUvarint`, `readVarint` with its range check on `PutVarint`, `ReadField` on the two
    header forms of `WriteField`, `ReadList` on `WriteList`, `skipBinary` on `WriteBytes`), then the
    mutual induction over the value tree. The property-level statements are in
    `PqModel/Props/C14FooterRT.lean`. -/
namespace PqModel.ThriftSkipWrite
open PqModel.IoFault (Bytes)
open PqModel.ThriftSkip PqModel.ThriftWrite

/-- the bytes `bs` sit in `d` at offset `pos` -/
def Sits (d : Bytes) (pos : Nat) (bs : List UInt8) : Prop :=
  ∃ pre rest, d = pre ++ (bs ++ rest) ∧ pre.length = pos

theorem Sits.append {d : Bytes} {pos : Nat} {a b : List UInt8} (h : Sits d pos (a ++ b)) :
    Sits d pos a ∧ Sits d (pos + a.length) b := by
  obtain ⟨pre, rest, hr, hp⟩ := h
  exact ⟨⟨pre, b ++ rest, by simp [hr], hp⟩, ⟨pre ++ a, rest, by simp [hr], by simp [hp]⟩⟩

theorem Sits.bound {d : Bytes} {pos : Nat} {bs : List UInt8} (h : Sits d pos bs) :
    pos + bs.length ≤ d.length := by
  obtain ⟨pre, rest, hr, hp⟩ := h
  have := congrArg List.length hr
  simp at this
  omega

theorem Sits.cons {d : Bytes} {pos : Nat} {b : UInt8} {bs : List UInt8} (h : Sits d pos (b :: bs)) :
    d[pos]? = some b ∧ Sits d (pos + 1) bs := by
  refine ⟨?_, (Sits.append (a := [b]) (b := bs) h).2⟩
  obtain ⟨pre, rest, hr, hp⟩ := h
  subst hp
  rw [hr, List.getElem?_append_right (Nat.le_refl _)]
  simp

theorem readByte_sits {d : Bytes} {pos : Nat} {b : UInt8} {bs : List UInt8} (h : Sits d pos (b :: bs)) :
    readByte d pos = .ok (b, pos + 1) := by
  simp only [readByte, h.cons.1]

/-! ## varints -/

theorem or_split (x s : Nat) : ((x % 128) <<< s) ||| ((x / 128) <<< (s + 7)) = x <<< s := by
  rw [Nat.add_comm s 7, Nat.shiftLeft_add, ← Nat.shiftLeft_or_distrib, Nat.or_comm,
    ← Nat.shiftLeft_add_eq_or_of_lt (by omega : x % 128 < 2 ^ 7)]
  congr 1
  rw [Nat.shiftLeft_eq]; omega

theorem and127 (x : Nat) : (x % 128 + 128) &&& 127 = x % 128 := by
  have := Nat.and_two_pow_sub_one_eq_mod (x % 128 + 128) 7
  simp only [Nat.reducePow, Nat.reduceSub] at this
  rw [this]; omega

/-- `binary.Uvarint` on the output of `binary.PutUvarint`: the rounds `i` already done and the
    bytes `f + 1` still allowed add up to the 10 bytes of a 64-bit value, and the value left fits
    the bits left (`x·128^i < 2^64`), so the overflow test of the 10th byte does not fire. -/
theorem uvLoop_put (d : Bytes) : ∀ (f x k pos i acc s : Nat), i + f = 9 → f < k → x < 128 ^ (f + 1) →
    x * 128 ^ i < 2 ^ 64 → Sits d pos (putUvarint f x) →
    uvLoop d k pos i acc s = .val (acc ||| (x <<< s)) (i + (putUvarint f x).length) := by
  intro f
  induction f with
  | zero =>
    intro x k pos i acc s hi hk hx hb h
    obtain ⟨k, rfl⟩ : ∃ j, k = j + 1 := ⟨k - 1, by omega⟩
    have hi9 : i = 9 := by omega
    subst hi9
    simp only [Nat.reducePow] at hb
    simp only [putUvarint] at h ⊢
    have hx' : x < 128 := by simpa using hx
    have hn : x.toUInt8.toNat = x := toUInt8_toNat x (by omega)
    have h1 : ¬ (x > 1) := by omega
    simp [uvLoop, h.cons.1, hn, hx', h1]
  | succ f ih =>
    intro x k pos i acc s hi hk hx hb h
    obtain ⟨k, rfl⟩ : ∃ j, k = j + 1 := ⟨k - 1, by omega⟩
    simp only [putUvarint] at h ⊢
    by_cases hx' : x < 128
    · rw [if_pos hx'] at h ⊢
      have hn : x.toUInt8.toNat = x := toUInt8_toNat x (by omega)
      have hi9 : (i == 9) = false := by simp; omega
      simp [uvLoop, h.cons.1, hn, hx', hi9]
    · rw [if_neg hx'] at h ⊢
      have hn : (x % 128 + 128).toUInt8.toNat = x % 128 + 128 := toUInt8_toNat _ (by omega)
      have hnot : ¬ (x % 128 + 128 < 128) := by omega
      have hx2 : x / 128 < 128 ^ (f + 1) := by
        rw [Nat.div_lt_iff_lt_mul (by omega)]
        rw [Nat.pow_succ] at hx; exact hx
      have hb2 : x / 128 * 128 ^ (i + 1) < 2 ^ 64 := by
        have e : x / 128 * 128 ^ (i + 1) = (x / 128 * 128) * 128 ^ i := by
          rw [Nat.pow_succ, Nat.mul_comm (128 ^ i) 128, Nat.mul_assoc]
        rw [e]
        exact Nat.lt_of_le_of_lt (Nat.mul_le_mul_right _ (Nat.div_mul_le_self x 128)) hb
      have := ih (x / 128) k (pos + 1) (i + 1) (acc ||| ((x % 128) <<< s)) (s + 7) (by omega) (by omega) hx2 hb2 h.cons.2
      unfold uvLoop
      simp only [h.cons.1, hn, hnot, if_false, and127]
      rw [this, Nat.or_assoc, or_split]
      simp only [List.length_cons]
      congr 1; omega

theorem readUvarint_put (d : Bytes) (mx x pos : Nat) (hx : x < 2 ^ 64) (hm : x ≤ mx)
    (h : Sits d pos (uvarintBytes x)) :
    readUvarint mx d pos = .ok (x, pos + (uvarintBytes x).length) := by
  have := uvLoop_put d 9 x 10 pos 0 0 0 (by omega) (by omega) (by omega) (by omega) h
  simp only [Nat.zero_or, Nat.shiftLeft_zero, Nat.zero_add] at this
  have hg : ¬ (x > mx) := by omega
  simp only [readUvarint, goUvarint, this, uvarintBytes, hg, if_false]

theorem unzig_eq_zigzag (n : Nat) : unzig n = PqModel.Spec.zigzag n := by
  unfold unzig PqModel.Spec.zigzag
  by_cases h : n % 2 = 0
  · simp [h]
  · have h1 : n % 2 = 1 := by omega
    simp [h1]
    omega

/-- `readVarint(typ, lo, hi)` on `writeVarint`: the value comes back when it is inside the range
    the reader checks -/
theorem readVarint_put (d : Bytes) (lo hi i : Int) (pos : Nat)
    (h1 : -9223372036854775808 ≤ i) (h2 : i < 9223372036854775808) (hlo : lo ≤ i) (hhi : i ≤ hi)
    (h : Sits d pos (varintBytes i)) :
    readVarint lo hi d pos = .ok (i, pos + (varintBytes i).length) := by
  have hz := zigzag64_lt (BitVec.ofInt 64 i)
  have := uvLoop_put d 9 (PqModel.Delta.zigzag64 (BitVec.ofInt 64 i)) 10 pos 0 0 0 (by omega) (by omega)
    (by omega) (by omega) h
  simp only [Nat.zero_or, Nat.shiftLeft_zero, Nat.zero_add] at this
  have hu : unzig (PqModel.Delta.zigzag64 (BitVec.ofInt 64 i)) = i := by
    rw [unzig_eq_zigzag]; exact zigzag_zigzag64 i h1 h2
  have hg : (decide (i < lo) || decide (i > hi)) = false := by simp; omega
  simp only [readVarint, goUvarint, this, hu, hg, varintBytes, uvarintBytes, Bool.false_eq_true, if_false]

/-! ## headers and leaf values -/

theorem uint8_ne_zero (b : UInt8) (h : b.toNat ≠ 0) : (b == 0) = false := by
  simp only [beq_eq_false_iff_ne, ne_eq]
  intro hc; rw [hc] at h; exact h rfl

/-- `ReadField` on both forms `WriteField` emits (delta nibble, or type byte + zigzag id) -/
theorem readField_put (d : Bytes) (last id ty pos : Nat) (h1 : last < id) (h2 : id ≤ 32767)
    (ht0 : 0 < ty) (ht : ty < 16) (h : Sits d pos (fieldHeader last id ty)) :
    readField d pos = .ok (some ty, pos + (fieldHeader last id ty).length) := by
  unfold fieldHeader at h ⊢
  simp only at h ⊢
  by_cases hd : (id : Int) - (last : Int) ≤ 15
  · simp only [hd, if_true] at h ⊢
    obtain ⟨k, hk⟩ : ∃ k : Nat, (id : Int) - (last : Int) = k := ⟨id - last, by omega⟩
    have hk15 : k < 16 := by omega
    have hk0 : 0 < k := by omega
    have hbyte : ((((id : Int) - (last : Int)) * 16 % 256).toNat.toUInt8 ||| ty.toUInt8) = (((k * 16) % 256).toUInt8 ||| ty.toUInt8) := by
      rw [hk]; congr 2 <;> omega
    rw [hbyte] at h ⊢
    have hn := hdrByte_toNat k ty hk15 ht
    have hz := uint8_ne_zero _ (by rw [hn]; omega)
    have e1 : ((k * 16 + ty) / 16 != 0) = true := by simp; omega
    have e2 : (ty == 0) = false := by simp; omega
    have e3 : (k * 16 + ty) % 16 = ty := by omega
    simp only [readField, readByte_sits h, seq, hz, hn, e1, e2, e3, Bool.false_eq_true, if_false, if_true,
      List.length_singleton]
  · have hd' : ¬ ((id : Int) ≤ 15) := by omega
    simp only [hd, hd', if_false] at h ⊢
    have hn : ty.toUInt8.toNat = ty := toUInt8_toNat _ (by omega)
    have hz := uint8_ne_zero _ (by rw [hn]; omega)
    have e1 : (ty / 16 != 0) = false := by simp; omega
    have hv := readVarint_put d (-32768) 32767 (id : Int) (pos + 1) (by omega) (by omega) (by omega) (by omega) h.cons.2
    simp only [readField, readByte_sits h, seq, hz, hn, e1, Bool.false_eq_true, if_false, readInt16, hv,
      List.length_cons, Nat.add_assoc, Nat.add_comm 1]

/-- `ReadList` on both forms `WriteList` emits -/
theorem readList_put (d : Bytes) (ety n pos : Nat) (he : ety < 16) (hn : n < 2147483648)
    (h : Sits d pos (listHeader ety n)) :
    readList d pos = .ok ((ety, n), pos + (listHeader ety n).length) := by
  unfold listHeader at h ⊢
  by_cases hs : n ≤ 14
  · simp only [hs, if_true] at h ⊢
    have hb := hdrByte_toNat n ety (by omega) he
    have e1 : (n != 15) = true := by simp; omega
    have e2 : (n * 16 + ety) % 16 = ety := by omega
    have e3 : (n * 16 + ety) / 16 = n := by omega
    simp only [readList, readByte_sits h, seq, hb, e1, e2, e3, if_true, List.length_singleton]
  · simp only [hs, if_false] at h ⊢
    have hb : ((0xF0 : UInt8) ||| ety.toUInt8).toNat = 15 * 16 + ety := by
      have := hdrByte_toNat 15 ety (by omega) he
      simpa using this
    have e1 : ((15 * 16 + ety) / 16 != 15) = false := by simp; omega
    have e2 : (15 * 16 + ety) % 16 = ety := by omega
    have hu := readUvarint_put d maxInt32 n (pos + 1) (by omega) (by unfold maxInt32; omega) h.cons.2
    simp only [readList, readByte_sits h, seq, hb, e1, e2, Bool.false_eq_true, if_false, hu, List.length_cons,
      Nat.add_assoc, Nat.add_comm 1]

/-- `skipBinary` (`ReadLength` + `Discard`) on `WriteBytes` -/
theorem skipBinary_put (d : Bytes) (b : List UInt8) (pos : Nat) (hb : b.length < 2147483648)
    (h : Sits d pos (uvarintBytes b.length ++ b)) :
    skipBinary d pos = .ok ((), pos + (uvarintBytes b.length ++ b).length) := by
  have hu := readUvarint_put d maxInt32 b.length pos (by omega) (by unfold maxInt32; omega) h.append.1
  have hbd := h.append.2.bound
  simp only [skipBinary, hu, seq, List.length_append]
  by_cases h0 : b.length = 0
  · simp [h0]
  · have e : (b.length == 0) = false := by simp [h0]
    have hd : ¬ (d.length - (pos + (uvarintBytes b.length).length) < b.length) := by omega
    simp only [e, Bool.false_eq_true, if_false, ThriftSkip.discard, hd, Nat.add_assoc]

theorem readFloat_put (d : Bytes) (x : UInt64) (pos : Nat) (h : Sits d pos (le64 x)) :
    readFloat d pos = .ok ((), pos + (le64 x).length) := by
  have hb := h.bound
  rw [le64_length] at hb ⊢
  have : ¬ (pos + 8 > d.length) := by omega
  simp only [readFloat, this, if_false]

/-! ## the walk accepts: combinators -/

/-- the task `t` started at `p` is accepted and ends at `q` (with some fuel, hence with any larger
    fuel: `skipT_fuel_mono`; `skipStruct`'s own fuel is enough: `skipStruct_eq_of_fuel`) -/
def Acc (d : Bytes) (t : Task) (p q : Nat) : Prop := ∃ f, skipT d f t p = .ok ((), q)

theorem Acc.at {d : Bytes} {t : Task} {p q f f' : Nat} (h : skipT d f t p = .ok ((), q)) (hf : f ≤ f') :
    skipT d f' t p = .ok ((), q) := skipT_fuel_mono d t p hf _ h

theorem acc_item_of_val {d : Bytes} {ty p q : Nat} (h1 : ty ≠ 1) (h2 : ty ≠ 2)
    (h : Acc d (.val ty) p q) : Acc d (.item ty) p q := by
  obtain ⟨f, hf⟩ := h
  refine ⟨f + 1, ?_⟩
  have e : (ty == 1 || ty == 2) = false := by simp [h1, h2]
  simp only [skipT, e, Bool.false_eq_true, if_false, hf]

theorem acc_item_bool {d : Bytes} {p : Nat} {b : UInt8} {bs : List UInt8} (h : Sits d p (b :: bs)) :
    Acc d (.item 2) p (p + 1) := by
  refine ⟨1, ?_⟩
  simp [skipT, readByte_sits h, seq]

theorem acc_items_nil (d : Bytes) (ty p : Nat) : Acc d (.items ty 0) p p := ⟨1, by simp only [skipT]⟩

theorem acc_items_cons {d : Bytes} {ty n p q r : Nat} (h1 : Acc d (.item ty) p q)
    (h2 : Acc d (.items ty n) q r) : Acc d (.items ty (n + 1)) p r := by
  obtain ⟨f1, hf1⟩ := h1
  obtain ⟨f2, hf2⟩ := h2
  refine ⟨max f1 f2 + 1, ?_⟩
  simp only [skipT, Acc.at hf1 (Nat.le_max_left f1 f2), seq, Acc.at hf2 (Nat.le_max_right f1 f2)]

theorem acc_fields_stop {d : Bytes} {first : Bool} {p q : Nat} (h : readField d p = .ok (none, q)) :
    Acc d (.fields first) p q := ⟨1, by simp only [skipT, h, seq]⟩

theorem acc_fields_cons {d : Bytes} {first : Bool} {ty p q r s : Nat} (h : readField d p = .ok (some ty, q))
    (h1 : Acc d (.val ty) q r) (h2 : Acc d (.fields false) r s) : Acc d (.fields first) p s := by
  obtain ⟨f1, hf1⟩ := h1
  obtain ⟨f2, hf2⟩ := h2
  refine ⟨max f1 f2 + 1, ?_⟩
  simp only [skipT, h, seq, Acc.at hf1 (Nat.le_max_left f1 f2), Acc.at hf2 (Nat.le_max_right f1 f2)]

theorem acc_val_list {d : Bytes} {ety n p q r : Nat} (h : readList d p = .ok ((ety, n), q))
    (h1 : Acc d (.items ety n) q r) : Acc d (.val 9) p r := by
  obtain ⟨f1, hf1⟩ := h1
  exact ⟨f1 + 1, by simp only [skipT, h, seq, hf1]⟩

theorem acc_val_struct {d : Bytes} {p q : Nat} (h : Acc d (.fields true) p q) : Acc d (.val 12) p q := by
  obtain ⟨f1, hf1⟩ := h
  exact ⟨f1 + 1, by simp only [skipT, hf1]⟩

theorem fcode_range (v : WVal) : 0 < fcode v ∧ fcode v < 16 := by
  cases v <;> simp [fcode] <;> (rename_i b; cases b <;> simp)

/-! ## the walk accepts the encoder's output: induction over the value tree -/

mutual
/-- `skip(r, t)` over the bytes of a value in field position -/
theorem val_write (d : Bytes) : ∀ (v : WVal) (pos : Nat), WfT v = true → Sits d pos (writeVal v) →
    Acc d (.val (fcode v)) pos (pos + (writeVal v).length)
  | .bool b, pos, _, _ => by
    refine ⟨1, ?_⟩
    cases b <;> simp [fcode, skipT, writeVal]
  | .i8 i, pos, _, h => by
    refine ⟨1, ?_⟩
    simp only [writeVal] at h ⊢
    simp only [fcode, skipT, readByte_sits h, seq, List.length_singleton]
  | .i16 i, pos, hw, h => by
    refine ⟨1, ?_⟩
    simp only [WfT, decide_eq_true_eq] at hw
    simp only [writeVal] at h ⊢
    have hv := readVarint_put d (-32768) 32767 i pos (by omega) (by omega) (by omega) (by omega) h
    simp only [fcode, skipT, readInt16, hv, seq]
  | .i32 i, pos, hw, h => by
    refine ⟨1, ?_⟩
    simp only [WfT, decide_eq_true_eq] at hw
    simp only [writeVal] at h ⊢
    have hv := readVarint_put d (-2147483648) 2147483647 i pos (by omega) (by omega) (by omega) (by omega) h
    simp only [fcode, skipT, readInt32, hv, seq]
  | .i64 i, pos, hw, h => by
    refine ⟨1, ?_⟩
    simp only [WfT, decide_eq_true_eq] at hw
    simp only [writeVal] at h ⊢
    have hv := readVarint_put d (-9223372036854775808) 9223372036854775807 i pos (by omega) (by omega) (by omega) (by omega) h
    simp only [fcode, skipT, readInt64, hv, seq]
  | .double b, pos, _, h => by
    refine ⟨1, ?_⟩
    simp only [writeVal] at h ⊢
    simp only [fcode, skipT, readFloat_put d b pos h]
  | .bin b, pos, hw, h => by
    refine ⟨1, ?_⟩
    simp only [WfT, decide_eq_true_eq] at hw
    simp only [writeVal] at h ⊢
    simp only [fcode, skipT, skipBinary_put d b pos hw h]
  | .list ety xs, pos, hw, h => by
    simp only [WfT, Bool.and_eq_true, decide_eq_true_eq] at hw
    simp only [writeVal] at h ⊢
    have hl := readList_put d ety xs.length pos hw.1.1 hw.1.2 h.append.1
    have ih := items_write d xs ety (pos + (listHeader ety xs.length).length) hw.2 h.append.2
    rw [List.length_append, ← Nat.add_assoc]
    exact acc_val_list hl ih
  | .struct fs, pos, hw, h => by
    simp only [WfT] at hw
    simp only [writeVal] at h ⊢
    exact acc_val_struct (fields_write d fs 0 true pos hw h)
/-- `skipListItems` over the elements back to back -/
theorem items_write (d : Bytes) : ∀ (xs : List WVal) (ety pos : Nat), WfL ety xs = true →
    Sits d pos (writeElems xs) → Acc d (.items ety xs.length) pos (pos + (writeElems xs).length)
  | [], ety, pos, _, _ => by
    simp only [writeElems, List.length_nil, Nat.add_zero]
    exact acc_items_nil d ety pos
  | x :: xs, ety, pos, hw, h => by
    simp only [WfL, Bool.and_eq_true, decide_eq_true_eq] at hw
    obtain ⟨⟨hc, hwx⟩, hwl⟩ := hw
    cases hb : isBool x with
    | true =>
      cases x <;> simp [isBool] at hb
      rename_i b
      simp only [lcode] at hc
      subst hc
      simp only [writeElems] at h ⊢
      have ih := items_write d xs 2 (pos + 1) hwl h.cons.2
      simp only [List.length_cons, List.length_append, List.length_nil, Nat.zero_add, ← Nat.add_assoc]
      exact acc_items_cons (acc_item_bool h) ih
    | false =>
      obtain ⟨hlc, hnb, _, he⟩ := nonbool_facts x hb
      rw [he xs] at h ⊢
      have hx := val_write d x pos hwx h.append.1
      have ih := items_write d xs ety (pos + (writeVal x).length) hwl h.append.2
      simp only [Bool.or_eq_false_iff, beq_eq_false_iff_ne, ne_eq] at hnb
      rw [← hc, hlc] at ih ⊢
      simp only [List.length_cons, List.length_append, ← Nat.add_assoc]
      exact acc_items_cons (acc_item_of_val hnb.1 hnb.2 hx) ih
/-- the loop of `skipStruct` over the fields the encoder writes and the stop byte; `first` only
    selects the error mapping -/
theorem fields_write (d : Bytes) : ∀ (fs : List (FMeta × WVal)) (last : Nat) (first : Bool) (pos : Nat),
    WfF last fs = true → Sits d pos (writeFields last fs) →
    Acc d (.fields first) pos (pos + (writeFields last fs).length)
  | [], last, first, pos, _, h => by
    simp only [writeFields, List.length_singleton] at h ⊢
    apply acc_fields_stop
    simp [readField, readByte_sits h, seq]
  | (m, v) :: fs, last, first, pos, hw, h => by
    simp only [WfF] at hw
    simp only [writeFields] at h ⊢
    by_cases hom : m.omitted = true
    · simp only [hom, if_true] at hw h ⊢
      exact fields_write d fs last first pos hw h
    · simp only [hom, if_false, Bool.false_eq_true] at hw h ⊢
      simp only [Bool.and_eq_true, decide_eq_true_eq] at hw
      obtain ⟨⟨⟨hlt, hmax⟩, hwv⟩, hwf⟩ := hw
      have hty := fcode_range v
      have hr := readField_put d last m.id (fcode v) pos hlt hmax hty.1 hty.2 h.append.1.append.1
      have hv := val_write d v (pos + (fieldHeader last m.id (fcode v)).length) hwv h.append.1.append.2
      have ih := fields_write d fs m.id false
        (pos + (fieldHeader last m.id (fcode v)).length + (writeVal v).length) hwf
        (by simpa [Nat.add_assoc] using h.append.2)
      simp only [List.length_append, ← Nat.add_assoc]
      exact acc_fields_cons hr hv ih
end

/-- the encoder's output anywhere in a buffer: `skipStruct`'s loop started at its first byte ends
    right after its stop byte -/
theorem fields_writeStruct (fs : List (FMeta × WVal)) (pre rest : List UInt8) (hw : WfF 0 fs = true) :
    Acc (pre ++ (writeStruct fs ++ rest)) (.fields true) pre.length (pre.length + (writeStruct fs).length) :=
  fields_write _ fs 0 true pre.length hw ⟨pre, rest, rfl, rfl⟩

/-- `skipStruct` on a fresh reader over the encoder's output followed by anything -/
theorem skipStruct_writeStruct (fs : List (FMeta × WVal)) (rest : List UInt8) (hw : WfF 0 fs = true) :
    skipStruct (writeStruct fs ++ rest) = .ok (writeStruct fs).length := by
  obtain ⟨f, hf⟩ := fields_writeStruct fs [] rest hw
  simp only [List.nil_append, List.length_nil, Nat.zero_add] at hf
  have h1 := Acc.at hf (Nat.le_max_left f (fuelFor (writeStruct fs ++ rest)))
  rw [skipStruct_eq_of_fuel _ _ (Nat.le_max_right _ _)] at h1
  unfold skipStruct
  rw [h1]

end PqModel.ThriftSkipWrite
