import PqModel.VariantWindowLemmas

/-! Histories of `Next` / `SeekToRow` / cursor creation on the columnar VariantReader, as one leaf
    column sees them: the SPEC (`specRun`: a position in the row group, windows are row ranges of
    the column) and the invariant tying the mirror (`step`) to it. -/
namespace PqModel.VariantWindow

/-- SPEC: what a history shows on a column whose rows are `rows`: `Next(n)` at position `pos` shows
    the rows `pos .. pos + min n (numRows - pos)` of the column and nothing else -/
def specRun (rows : List (List Cell)) : Nat → Bool → List Op → List Out
  | _, _, [] => []
  | pos, _, .attach :: ops => .nothing :: specRun rows pos true ops
  | pos, att, .seek k :: ops =>
    if k > rows.length then .err :: specRun rows pos att ops else .nothing :: specRun rows k att ops
  | pos, att, .next n :: ops =>
    if n = 0 then .rows 0 :: specRun rows pos att ops
    else if rows.length ≤ pos then .eof :: specRun rows pos att ops
    else
      let n' := if n > rows.length - pos then rows.length - pos else n
      (if att then Out.win n' ((rows.drop pos).take n').flatten else .rows n') ::
        specRun rows (pos + n') att ops

/-- the column chunk: its pages pass `checkPageValues` and hold the rows `rows` -/
structure ColOK (maxDef : Nat) (col : List Page) (rows : List (List Cell)) : Prop where
  ok : restOK maxDef col
  cells : allCells maxDef col = rows.flatten
  rows : ∀ row ∈ rows, rowOK row = true

/-- the invariant: the reader is at row `pos`; an opened leaf either has a seek to `pos` pending or
    stands at the first cell of row `pos` -/
structure Good (maxDef : Nat) (rows : List (List Cell)) (s : St) (pos : Nat) (att : Bool) : Prop where
  nr : s.numRows = rows.length
  ro : s.rowOffset = pos
  le : pos ≤ rows.length
  nf : s.failed = false
  att : s.attached = att
  oa : s.opened = true → s.attached = true
  closed : s.opened = false → s.pendingSeek = none
  pend : s.opened = true → ∀ k, s.pendingSeek = some k → k = pos
  posd : s.opened = true → s.pendingSeek = none →
    stream maxDef s.leaf = (rows.drop pos).flatten ∧ restOK maxDef s.leaf.rest

theorem good_init (maxDef : Nat) (rows : List (List Cell)) : Good maxDef rows (init rows.length) 0 false where
  nr := rfl
  ro := rfl
  le := Nat.zero_le _
  nf := rfl
  att := rfl
  oa := by intro h; simp [init] at h
  closed := by intro _; rfl
  pend := by intro h; simp [init] at h
  posd := by intro h; simp [init] at h

theorem positioned_spec {maxDef : Nat} {col : List Page} {rows : List (List Cell)} (hc : ColOK maxDef col rows)
    {s : St} {pos : Nat} {att : Bool} (g : Good maxDef rows s pos att) :
    stream maxDef (positioned maxDef col s) = (rows.drop pos).flatten ∧
      restOK maxDef (positioned maxDef col s).rest := by
  have hseek : ∀ k, k = pos → stream maxDef (seekLeaf maxDef col k) = (rows.drop pos).flatten ∧
      restOK maxDef (seekLeaf maxDef col k).rest := by
    intro k hk; subst hk
    refine ⟨?_, by intro p hp; simp [seekLeaf] at hp⟩
    simp [stream, seekLeaf, hc.cells, dropRows_rows k rows hc.rows]
  cases hop : s.opened with
  | true =>
    cases hp : s.pendingSeek with
    | some k =>
      have := hseek k (g.pend hop k hp)
      simpa [positioned, hop, hp] using this
    | none =>
      have := g.posd hop hp
      simpa [positioned, hop, hp] using this
  | false =>
    have hp := g.closed hop
    by_cases h0 : s.rowOffset > 0
    · have := hseek s.rowOffset g.ro
      simpa [positioned, hop, hp, h0] using this
    · have hz : pos = 0 := by have := g.ro; omega
      have hro : s.rowOffset = 0 := by omega
      subst hz
      refine ⟨?_, ?_⟩
      · simp only [positioned, hop, hp, hro]
        simp [stream, ← hc.cells, allCells]
      · simp only [positioned, hop, hp, hro]
        simpa using hc.ok

/-- one call: the mirror shows what the spec says and the invariant is kept -/
theorem step_spec {maxDef : Nat} {col : List Page} {rows : List (List Cell)} (hc : ColOK maxDef col rows)
    {s : St} {pos : Nat} {att : Bool} (g : Good maxDef rows s pos att) (op : Op) (ops : List Op) :
    ∃ pos' att', Good maxDef rows (step maxDef col s op).1 pos' att' ∧
      specRun rows pos att (op :: ops) = (step maxDef col s op).2 :: specRun rows pos' att' ops := by
  cases op with
  | attach =>
    refine ⟨pos, true, ?_, by simp [specRun, step]⟩
    exact { nr := g.nr, ro := g.ro, le := g.le, nf := g.nf, att := rfl, oa := fun _ => rfl,
            closed := g.closed, pend := g.pend, posd := g.posd }
  | seek k =>
    by_cases hk : k > rows.length
    · refine ⟨pos, att, ?_, ?_⟩
      · simpa [step, g.nf, g.nr, hk] using g
      · simp [specRun, step, g.nf, g.nr, hk]
    · refine ⟨k, att, ?_, ?_⟩
      · simp only [step, g.nf, g.nr, hk, if_false, Bool.false_eq_true]
        exact { nr := rfl, ro := rfl, le := by omega, nf := rfl, att := g.att, oa := g.oa,
                closed := by intro h; have h' : s.opened = false := h; simp [h', g.closed h'],
                pend := by intro h j hj; have h' : s.opened = true := h; simp [h'] at hj; exact hj.symm,
                posd := by intro h hj; have h' : s.opened = true := h; simp [h'] at hj }
      · simp [specRun, step, g.nf, g.nr, hk]
  | next n =>
    by_cases hn : n = 0
    · refine ⟨pos, att, ?_, ?_⟩
      · simpa [step, g.nf, hn] using g
      · simp [specRun, step, g.nf, hn]
    by_cases he : rows.length ≤ pos
    · refine ⟨pos, att, ?_, ?_⟩
      · simpa [step, g.nf, hn, g.nr, g.ro, he] using g
      · simp [specRun, step, g.nf, hn, g.nr, g.ro, he]
    generalize hn' : (if n > rows.length - pos then rows.length - pos else n) = n'
    have hn'pos : 0 < n' := by subst hn'; split <;> omega
    have hn'le : pos + n' ≤ rows.length := by subst hn'; split <;> omega
    cases hatt : att with
    | false =>
      have hsa : s.attached = false := by rw [g.att, hatt]
      have hop : s.opened = false := by
        cases h : s.opened with
        | false => rfl
        | true => have := g.oa h; simp [hsa] at this
      refine ⟨pos + n', false, ?_, ?_⟩
      · simp only [step, g.nf, hn, g.nr, g.ro, he, hn', hsa, if_false, Bool.false_eq_true, not_false_eq_true, if_true]
        exact { nr := rfl, ro := rfl, le := hn'le, nf := rfl, att := rfl,
                oa := (by intro h; have h' : s.opened = true := h; rw [hop] at h'; cases h'),
                closed := g.closed, pend := by intro h; simp [hop] at h, posd := by intro h; simp [hop] at h }
      · simp [specRun, step, g.nf, hn, g.nr, g.ro, he, hn', hsa]
    | true =>
      have hsa : s.attached = true := by rw [g.att, hatt]
      obtain ⟨hst, hrk⟩ := positioned_spec hc g
      obtain ⟨l', hrw, hs', hok'⟩ := readWindow_take maxDef n' (positioned maxDef col s) (rows.drop pos) hrk hst
        (fun r hr => hc.rows r (List.mem_of_mem_drop hr)) hn'pos (by simp; omega)
      refine ⟨pos + n', true, ?_, ?_⟩
      · simp only [step, g.nf, hn, g.nr, g.ro, he, hn', hsa, if_false, Bool.false_eq_true, not_true_eq_false, hrw]
        exact { nr := rfl, ro := rfl, le := hn'le, nf := rfl, att := rfl, oa := fun _ => rfl,
                closed := by intro h; simp at h, pend := by intro _ k hk; simp at hk,
                posd := by intro _ _; exact ⟨by simpa [List.drop_drop] using hs', hok'⟩ }
      · simp [specRun, step, g.nf, hn, g.nr, g.ro, he, hn', hsa, hrw]

theorem run_spec {maxDef : Nat} {col : List Page} {rows : List (List Cell)} (hc : ColOK maxDef col rows) :
    ∀ (ops : List Op) (s : St) (pos : Nat) (att : Bool), Good maxDef rows s pos att →
      run maxDef col s ops = specRun rows pos att ops := by
  intro ops
  induction ops with
  | nil => intro s pos att _; simp [run, specRun]
  | cons op ops ih =>
    intro s pos att g
    obtain ⟨pos', att', g', h⟩ := step_spec hc g op ops
    rw [h, run, ih _ pos' att' g']

end PqModel.VariantWindow
