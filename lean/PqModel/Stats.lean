import PqModel.Trunc

/-! # Statistics and page indexes (C05): column orders, page bounds, chunk fold, boundary order.

Naming: a *mirror* transliterates Go code of parquet-go as it is (doc comment carries `file:line`),
a *spec* definition is written from the Parquet format documents / the property statement only. -/
namespace PqModel.Stats

/-! ## Column orders

`lt` is what the Go code evaluates (`<` on ints/floats, `bytes.Compare(a,b) < 0`,
`Type.Compare(a,b) < 0`); `ok v = false` exactly for the values that take no part in the order
(float NaN). Values are bit patterns (`BitVec 32/64`) or byte strings (`List Nat`, bytes ≤ 255). -/

structure ColOrder (α : Type) where
  lt : α → α → Bool
  ok : α → Bool

/-- `a ≤ b` as the code tests it: `!(b < a)` -/
def ColOrder.le {α} (o : ColOrder α) (a b : α) : Bool := !o.lt b a

/-- SPEC. What a Parquet column order has to be on the values that take part in it: a strict weak
    order (a total preorder: `-0.0`/`+0.0` are distinct bit patterns that compare equal). -/
structure Lawful {α} (o : ColOrder α) : Prop where
  irrefl : ∀ a, o.lt a a = false
  trans : ∀ a b c, o.lt a b = true → o.lt b c = true → o.lt a c = true
  negtrans : ∀ a b c, o.ok b = true → o.lt a c = true → o.lt a b = true ∨ o.lt b c = true
  nan : ∀ a b, o.lt a b = true → o.ok a = true ∧ o.ok b = true

/-- the same order read from the other end (used for max = min of the flipped order) -/
def ColOrder.flip {α} (o : ColOrder α) : ColOrder α := { lt := fun a b => o.lt b a, ok := o.ok }

theorem Lawful.flip {α} {o : ColOrder α} (h : Lawful o) : Lawful o.flip where
  irrefl := h.irrefl
  trans := fun a b c h1 h2 => h.trans c b a h2 h1
  negtrans := fun a b c hb hac => (h.negtrans c b a hb hac).symm
  nan := fun a b hab => (h.nan b a hab).symm

/-- an order given by a rank into `Int` and a NaN test -/
def ofKey {α} (key : α → Int) (nan : α → Bool) : ColOrder α :=
  { lt := fun a b => !nan a && !nan b && decide (key a < key b), ok := fun a => !nan a }

theorem ofKey_lawful {α} (key : α → Int) (nan : α → Bool) : Lawful (ofKey key nan) where
  irrefl := by intro a; simp [ofKey]
  trans := by
    intro a b c; simp only [ofKey, Bool.and_eq_true, Bool.not_eq_true', decide_eq_true_eq]
    intro ⟨⟨ha, _⟩, h1⟩ ⟨⟨_, hc⟩, h2⟩; exact ⟨⟨ha, hc⟩, by omega⟩
  negtrans := by
    intro a b c; simp only [ofKey, Bool.and_eq_true, Bool.not_eq_true', decide_eq_true_eq]
    intro hb ⟨⟨ha, hc⟩, h1⟩
    by_cases h : key a < key b
    · exact Or.inl ⟨⟨ha, hb⟩, h⟩
    · exact Or.inr ⟨⟨hb, hc⟩, by omega⟩
  nan := by
    intro a b; simp only [ofKey, Bool.and_eq_true, Bool.not_eq_true', decide_eq_true_eq]
    intro ⟨⟨ha, hb⟩, _⟩; exact ⟨ha, hb⟩

/-- an order pulled back along a function (decimal FLBA: flip the sign bit, then unsigned bytes) -/
def ColOrder.comap {α β} (o : ColOrder β) (f : α → β) : ColOrder α :=
  { lt := fun a b => o.lt (f a) (f b), ok := fun a => o.ok (f a) }

theorem Lawful.comap {α β} {o : ColOrder β} (h : Lawful o) (f : α → β) : Lawful (o.comap f) where
  irrefl := fun a => h.irrefl (f a)
  trans := fun a b c => h.trans (f a) (f b) (f c)
  negtrans := fun a b c => h.negtrans (f a) (f b) (f c)
  nan := fun a b => h.nan (f a) (f b)

/-! ### the concrete orders -/

/-- INT32 / INT64 signed (compare.go:70-90 `compareInt32/64`) -/
def sint (w : Nat) : ColOrder (BitVec w) := ofKey (fun b => b.toInt) (fun _ => false)
/-- UINT32 / UINT64 logical types (compare.go:125-145 `compareUint32/64`) -/
def uint (w : Nat) : ColOrder (BitVec w) := ofKey (fun b => (b.toNat : Int)) (fun _ => false)

/-- IEEE-754 NaN on the bit pattern: exponent all ones, mantissa non-zero. `e` exponent bits, `m` mantissa bits. -/
def fIsNaN (e m : Nat) (b : BitVec (1 + e + m)) : Bool :=
  decide (b.toNat % 2 ^ (e + m) > (2 ^ e - 1) * 2 ^ m)

/-- sign-magnitude rank of a non-NaN float: `-0.0` and `+0.0` get the same rank, as Go's `<` sees them -/
def fKey (e m : Nat) (b : BitVec (1 + e + m)) : Int :=
  if b.toNat < 2 ^ (e + m) then (b.toNat % 2 ^ (e + m) : Nat) else -((b.toNat % 2 ^ (e + m) : Nat) : Int)

/-- FLOAT / DOUBLE: Go's `<` on float32/float64 (compare.go:103-123), on bit patterns -/
def float (e m : Nat) : ColOrder (BitVec (1 + e + m)) := ofKey (fKey e m) (fIsNaN e m)

abbrev f32 : ColOrder (BitVec 32) := float 8 23
abbrev f64 : ColOrder (BitVec 64) := float 11 52

theorem sint_lawful (w) : Lawful (sint w) := ofKey_lawful _ _
theorem uint_lawful (w) : Lawful (uint w) := ofKey_lawful _ _
theorem float_lawful (e m) : Lawful (float e m) := ofKey_lawful _ _

/-- strict unsigned lexicographic order: `bytes.Compare(a, b) < 0` -/
def lexLt (a b : List Nat) : Bool := !Trunc.lexLe b a

/-- BYTE_ARRAY / FIXED_LEN_BYTE_ARRAY / be128: unsigned lexicographic bytes -/
def bytes : ColOrder (List Nat) := { lt := lexLt, ok := fun _ => true }

theorem lexLe_total : ∀ a b : List Nat, Trunc.lexLe a b = true ∨ Trunc.lexLe b a = true
  | [], _ => by simp [Trunc.lexLe]
  | _ :: _, [] => by simp [Trunc.lexLe]
  | a :: as, b :: bs => by
    simp only [Trunc.lexLe]
    by_cases h1 : a < b
    · simp [h1]
    · by_cases h2 : a = b
      · subst h2; simpa using lexLe_total as bs
      · have : b < a := by omega
        simp [this]

theorem lexLe_trans : ∀ a b c : List Nat, Trunc.lexLe a b = true → Trunc.lexLe b c = true → Trunc.lexLe a c = true
  | [], _, _ => by simp [Trunc.lexLe]
  | _ :: _, [], _ => by simp [Trunc.lexLe]
  | _ :: _, _ :: _, [] => by simp [Trunc.lexLe]
  | a :: as, b :: bs, c :: cs => by
    simp only [Trunc.lexLe]
    intro h1 h2
    by_cases hab : a < b
    · by_cases hbc : b < c
      · have : a < c := by omega
        simp [this]
      · by_cases hbc' : b = c
        · subst hbc'; simp [hab]
        · simp [hbc, hbc'] at h2
    · by_cases hab' : a = b
      · subst hab'
        by_cases hac : a < c
        · simp [hac]
        · by_cases hac' : a = c
          · subst hac'
            simp only [Nat.lt_irrefl, if_false, if_true] at h1 h2 ⊢
            exact lexLe_trans as bs cs h1 h2
          · simp [hac, hac'] at h2
      · simp [hab, hab'] at h1

theorem bytes_lawful : Lawful bytes where
  irrefl := by intro a; simp [bytes, lexLt, Trunc.lexLe_refl]
  trans := by
    intro a b c; simp only [bytes, lexLt, Bool.not_eq_true']
    intro h1 h2
    -- a < b < c : if c ≤ a then c ≤ a ≤ b (since ¬ b ≤ a gives a ≤ b) so c ≤ b, contradiction
    cases h : Trunc.lexLe c a with
    | false => rfl
    | true =>
      have hab : Trunc.lexLe a b = true := (lexLe_total a b).resolve_right (by simp [h1])
      have := lexLe_trans c a b h hab
      simp [this] at h2
  negtrans := by
    intro a b c _; simp only [bytes, lexLt, Bool.not_eq_true']
    intro hac
    cases h1 : Trunc.lexLe b a with
    | false => exact Or.inl rfl
    | true =>
      cases h2 : Trunc.lexLe c b with
      | false => exact Or.inr rfl
      | true => have := lexLe_trans c b a h2 h1; simp [this] at hac
  nan := by intro a b _; simp [bytes]

/-- SPEC (LogicalTypes.md, DECIMAL on FIXED_LEN_BYTE_ARRAY): signed big-endian two's complement of
    equal width = unsigned order after flipping the sign bit of the first byte. -/
def flipSign : List Nat → List Nat
  | [] => []
  | b :: rest => (if b < 128 then b + 128 else b - 128) :: rest

def decimalFixed : ColOrder (List Nat) := bytes.comap flipSign
theorem decimalFixed_lawful : Lawful decimalFixed := bytes_lawful.comap flipSign

/-- MIRROR type_decimal.go:121-159 `compareDecimalByteArrays` + `compareDecimalPadded`
    (variable width, sign extension), as a three-way result. -/
def cmpPadded (pad : Nat) : List Nat → Nat → List Nat → Int
  | a, 0, b => if lexLt a b then -1 else if lexLt b a then 1 else 0
  | [], _ + 1, _ => 0
  | c :: a, k + 1, b => if c < pad then -1 else if c > pad then 1 else cmpPadded pad a k b

def cmpDecimal (a b : List Nat) : Int :=
  let negA := match a with | x :: _ => decide (x ≥ 128) | [] => false
  let negB := match b with | x :: _ => decide (x ≥ 128) | [] => false
  if negA && !negB then -1
  else if !negA && negB then 1
  else
    let pad := if negA then 255 else 0
    if a.length < b.length then -(cmpPadded pad b (b.length - a.length) a)
    else cmpPadded pad a (a.length - b.length) b

/-! ## Page bounds -/

/-- MIRROR page_bounds_purego.go:9-24 `boundsInt32` (identical shape: `boundsInt64/Uint32/Uint64/
    Float32/Float64`, page_bounds.go:5-25 `boundsFixedLenByteArray`): one pass, two independent updates. -/
def boundsLoop {α} (lt : α → α → Bool) (mn mx : α) : List α → α × α
  | [] => (mn, mx)
  | v :: rest => boundsLoop lt (if lt v mn then v else mn) (if lt mx v then v else mx) rest

def bounds {α} (lt : α → α → Bool) : List α → Option (α × α)
  | [] => none
  | x :: rest => some (boundsLoop lt x x rest)

/-- MIRROR page_byte_array.go `byteArrayPage.bounds`: `switch { case v < min: …; case v > max: … }`
    (the max test is skipped when the min was replaced). -/
def boundsSwitchLoop {α} (lt : α → α → Bool) (mn mx : α) : List α → α × α
  | [] => (mn, mx)
  | v :: rest =>
    if lt v mn then boundsSwitchLoop lt v mx rest
    else if lt mx v then boundsSwitchLoop lt mn v rest
    else boundsSwitchLoop lt mn mx rest

def boundsSwitch {α} (lt : α → α → Bool) : List α → Option (α × α)
  | [] => none
  | x :: rest => some (boundsSwitchLoop lt x x rest)

/-- MIRROR page_float.go:61-90 / page_double.go `Bounds`: the loop after the first non-NaN value -/
def boundsNaNLoop {α} (o : ColOrder α) (lo hi : α) : List α → α × α
  | [] => (lo, hi)
  | v :: rest =>
    if !o.ok v then boundsNaNLoop o lo hi rest
    else boundsNaNLoop o (if o.lt v lo then v else lo) (if o.lt hi v then v else hi) rest

/-- MIRROR page_float.go:61-90 `floatPage.Bounds` (and `doublePage.Bounds`): skip leading NaNs; an
    all-NaN page reports its first value (a NaN) as both bounds; otherwise NaNs are ignored. -/
def boundsNaN {α} (o : ColOrder α) (xs : List α) : Option (α × α) :=
  match xs with
  | [] => none
  | x0 :: _ =>
    match xs.dropWhile (fun v => !o.ok v) with
    | [] => some (x0, x0)
    | y :: rest => some (boundsNaNLoop o y y rest)

/-- one-sided loops used to reason about the two components separately -/
def minLoop {α} (o : ColOrder α) (lo : α) : List α → α
  | [] => lo
  | v :: rest => if !o.ok v then minLoop o lo rest else minLoop o (if o.lt v lo then v else lo) rest

theorem boundsNaNLoop_fst {α} (o : ColOrder α) : ∀ (xs : List α) (lo hi : α),
    (boundsNaNLoop o lo hi xs).1 = minLoop o lo xs
  | [], _, _ => rfl
  | v :: rest, lo, hi => by
    simp only [boundsNaNLoop, minLoop]
    split
    · exact boundsNaNLoop_fst o rest lo hi
    · exact boundsNaNLoop_fst o rest _ _

theorem boundsNaNLoop_snd {α} (o : ColOrder α) : ∀ (xs : List α) (lo hi : α),
    (boundsNaNLoop o lo hi xs).2 = minLoop o.flip hi xs
  | [], _, _ => rfl
  | v :: rest, lo, hi => by
    cases hv : o.ok v with
    | false =>
      have : o.flip.ok v = false := hv
      simp only [boundsNaNLoop, minLoop, hv, this, Bool.not_false, if_true]
      exact boundsNaNLoop_snd o rest lo hi
    | true =>
      have : o.flip.ok v = true := hv
      simp only [boundsNaNLoop, minLoop, hv, this, Bool.not_true, Bool.false_eq_true, if_false]
      exact boundsNaNLoop_snd o rest _ _

/-- the running minimum is an element, takes part in the order, and nothing that takes part is below it -/
theorem minLoop_spec {α} {o : ColOrder α} (h : Lawful o) : ∀ (xs : List α) (lo : α), o.ok lo = true →
    (minLoop o lo xs ∈ lo :: xs) ∧ o.ok (minLoop o lo xs) = true ∧
    ∀ w ∈ lo :: xs, o.ok w = true → o.lt w (minLoop o lo xs) = false
  | [], lo, hlo => by
    refine ⟨by simp [minLoop], by simpa [minLoop] using hlo, ?_⟩
    intro w hw _
    simp only [List.mem_singleton] at hw
    subst hw
    simpa [minLoop] using h.irrefl w
  | v :: rest, lo, hlo => by
    simp only [minLoop]
    cases hv : o.ok v with
    | false =>
      simp only [Bool.not_false, if_true]
      obtain ⟨h1, h2, h3⟩ := minLoop_spec h rest lo hlo
      refine ⟨?_, h2, ?_⟩
      · simp only [List.mem_cons] at h1 ⊢
        rcases h1 with h1 | h1
        · exact Or.inl h1
        · exact Or.inr (Or.inr h1)
      · intro w hw hwok
        simp only [List.mem_cons] at hw
        rcases hw with hw | hw | hw
        · exact h3 w (by simp [hw]) hwok
        · subst hw; simp [hv] at hwok
        · exact h3 w (by simp [hw]) hwok
    | true =>
      simp only [Bool.not_true, Bool.false_eq_true, if_false]
      cases hlt : o.lt v lo with
      | true =>
        simp only [if_true]
        obtain ⟨h1, h2, h3⟩ := minLoop_spec h rest v hv
        refine ⟨?_, h2, ?_⟩
        · simp only [List.mem_cons] at h1 ⊢
          rcases h1 with h1 | h1
          · exact Or.inr (Or.inl h1)
          · exact Or.inr (Or.inr h1)
        · intro w hw hwok
          simp only [List.mem_cons] at hw
          rcases hw with hw | hw | hw
          · subst hw
            have hvr := h3 v (by simp) hv
            cases hc : o.lt w (minLoop o v rest) with
            | false => rfl
            | true => have := h.trans _ _ _ hlt hc; simp [this] at hvr
          · subst hw; exact h3 w (by simp) hwok
          · exact h3 w (by simp [hw]) hwok
      | false =>
        simp only [Bool.false_eq_true, if_false]
        obtain ⟨h1, h2, h3⟩ := minLoop_spec h rest lo hlo
        refine ⟨?_, h2, ?_⟩
        · simp only [List.mem_cons] at h1 ⊢
          rcases h1 with h1 | h1
          · exact Or.inl h1
          · exact Or.inr (Or.inr h1)
        · intro w hw hwok
          simp only [List.mem_cons] at hw
          rcases hw with hw | hw | hw
          · exact h3 w (by simp [hw]) hwok
          · subst hw
            have hlr := h3 lo (by simp) hlo
            cases hc : o.lt w (minLoop o lo rest) with
            | false => rfl
            | true =>
              rcases h.negtrans _ lo _ hlo hc with h' | h'
              · simp [h'] at hlt
              · simp [h'] at hlr
          · exact h3 w (by simp [hw]) hwok

/-- SPEC. `(mn, mx)` are exact bounds of the values of `xs` that take part in the order. -/
structure IsBounds {α} (o : ColOrder α) (xs : List α) (mn mx : α) : Prop where
  min_mem : mn ∈ xs
  max_mem : mx ∈ xs
  min_ok : o.ok mn = true
  max_ok : o.ok mx = true
  lower : ∀ v ∈ xs, o.ok v = true → o.lt v mn = false
  upper : ∀ v ∈ xs, o.ok v = true → o.lt mx v = false

theorem mem_of_mem_dropWhile {α} (p : α → Bool) : ∀ (xs : List α) (a : α), a ∈ xs.dropWhile p → a ∈ xs
  | [], _, h => by simp at h
  | x :: xs, a, h => by
    simp only [List.dropWhile] at h
    split at h
    · exact List.mem_cons_of_mem _ (mem_of_mem_dropWhile p xs a h)
    · exact h

theorem mem_dropWhile_of_not {α} (p : α → Bool) : ∀ (xs : List α) (a : α), a ∈ xs → p a = false → a ∈ xs.dropWhile p
  | [], _, h, _ => by simp at h
  | x :: xs, a, h, hp => by
    simp only [List.dropWhile]
    split
    · rename_i hx
      simp only [List.mem_cons] at h
      rcases h with h | h
      · subst h; simp [hp] at hx
      · exact mem_dropWhile_of_not p xs a h hp
    · exact h

theorem dropWhile_head_not {α} (p : α → Bool) : ∀ (xs : List α) (y : α) (rest : List α),
    xs.dropWhile p = y :: rest → p y = false
  | [], _, _, h => by simp at h
  | x :: xs, y, rest, h => by
    simp only [List.dropWhile] at h
    split at h
    · exact dropWhile_head_not p xs y rest h
    · rename_i hx
      simp only [List.cons.injEq] at h
      rw [← h.1]; simpa using hx

/-- core of `pageBounds_bound`: the float/double `Bounds` mirror on a page with a non-NaN value -/
theorem boundsNaN_isBounds {α} {o : ColOrder α} (h : Lawful o) (xs : List α)
    (hex : ∃ v ∈ xs, o.ok v = true) :
    ∃ mn mx, boundsNaN o xs = some (mn, mx) ∧ IsBounds o xs mn mx := by
  obtain ⟨v0, hv0, hv0ok⟩ := hex
  cases xs with
  | nil => simp at hv0
  | cons x0 xt =>
    simp only [boundsNaN]
    have hm := mem_dropWhile_of_not (fun v => !o.ok v) (x0 :: xt) v0 hv0 (by simp [hv0ok])
    cases hd : List.dropWhile (fun v => !o.ok v) (x0 :: xt) with
    | nil => rw [hd] at hm; simp at hm
    | cons y rest =>
      have hy : o.ok y = true := by simpa using dropWhile_head_not _ _ _ _ hd
      have hsub : ∀ a, a ∈ y :: rest → a ∈ x0 :: xt := fun a ha =>
        mem_of_mem_dropWhile _ _ a (by rw [hd]; exact ha)
      have hsup : ∀ a, a ∈ x0 :: xt → o.ok a = true → a ∈ y :: rest := fun a ha hok => by
        have := mem_dropWhile_of_not (fun v => !o.ok v) (x0 :: xt) a ha (by simp [hok])
        rwa [hd] at this
      refine ⟨_, _, rfl, ?_⟩
      obtain ⟨a1, a2, a3⟩ := minLoop_spec h rest y hy
      obtain ⟨b1, b2, b3⟩ := minLoop_spec h.flip rest y hy
      rw [boundsNaNLoop_fst, boundsNaNLoop_snd]
      exact {
        min_mem := hsub _ a1
        max_mem := hsub _ b1
        min_ok := a2
        max_ok := b2
        lower := fun v hv hok => a3 v (hsup v hv hok) hok
        upper := fun v hv hok => b3 v (hsup v hv hok) hok }

theorem dropWhile_eq_nil_of_all {α} (p : α → Bool) : ∀ xs : List α, (∀ v ∈ xs, p v = true) → xs.dropWhile p = []
  | [], _ => rfl
  | x :: xs, h => by
    simp only [List.dropWhile, h x (by simp)]
    exact dropWhile_eq_nil_of_all p xs (fun v hv => h v (by simp [hv]))

/-- all-NaN page: both bounds are the first value (a NaN), as the Go doc comment says -/
theorem boundsNaN_allNaN {α} (o : ColOrder α) (x0 : α) (xt : List α)
    (hall : ∀ v ∈ x0 :: xt, o.ok v = false) : boundsNaN o (x0 :: xt) = some (x0, x0) := by
  simp only [boundsNaN]
  rw [dropWhile_eq_nil_of_all _ _ (fun v hv => by simp [hall v hv])]

theorem boundsNaN_nil {α} (o : ColOrder α) : boundsNaN o [] = none := rfl

/-- when every value takes part in the order the NaN-aware loop is the plain loop -/
theorem boundsNaNLoop_eq_boundsLoop {α} (o : ColOrder α) (hok : ∀ v, o.ok v = true) :
    ∀ (xs : List α) (lo hi : α), boundsNaNLoop o lo hi xs = boundsLoop o.lt lo hi xs
  | [], _, _ => rfl
  | v :: rest, lo, hi => by
    simp only [boundsNaNLoop, boundsLoop, hok v, Bool.not_true, Bool.false_eq_true, if_false]
    exact boundsNaNLoop_eq_boundsLoop o hok rest _ _

theorem boundsNaN_eq_bounds {α} (o : ColOrder α) (hok : ∀ v, o.ok v = true) (xs : List α) :
    boundsNaN o xs = bounds o.lt xs := by
  cases xs with
  | nil => rfl
  | cons x xt =>
    simp only [boundsNaN, bounds, List.dropWhile, hok x, Bool.not_true]
    rw [boundsNaNLoop_eq_boundsLoop o hok]

/-- the byte-array `switch` loop computes the same pair as the two-update loop once `mn ≤ mx` -/
theorem boundsSwitchLoop_eq {α} {o : ColOrder α} (h : Lawful o) : ∀ (xs : List α) (mn mx : α),
    o.lt mx mn = false → boundsSwitchLoop o.lt mn mx xs = boundsLoop o.lt mn mx xs
  | [], _, _, _ => rfl
  | v :: rest, mn, mx, hle => by
    simp only [boundsSwitchLoop, boundsLoop]
    cases h1 : o.lt v mn with
    | true =>
      have h2 : o.lt mx v = false := by
        cases hc : o.lt mx v with
        | false => rfl
        | true => have := h.trans _ _ _ hc h1; simp [this] at hle
      simp only [if_true, h2, Bool.false_eq_true, if_false]
      exact boundsSwitchLoop_eq h rest v mx h2
    | false =>
      simp only [Bool.false_eq_true, if_false]
      cases h2 : o.lt mx v with
      | true => simp only [if_true]; exact boundsSwitchLoop_eq h rest mn v h1
      | false => simp only [Bool.false_eq_true, if_false]; exact boundsSwitchLoop_eq h rest mn mx hle

theorem boundsSwitch_eq_bounds {α} {o : ColOrder α} (h : Lawful o) (xs : List α) :
    boundsSwitch o.lt xs = bounds o.lt xs := by
  cases xs with
  | nil => rfl
  | cons x xt => simp only [boundsSwitch, bounds]; rw [boundsSwitchLoop_eq h xt x x (h.irrefl x)]

/-! ## Pages with nulls (optional columns): what `IndexPage` is told -/

/-- the base page of an optional column holds the non-null values only (page_optional.go `Bounds`) -/
def nonNull {α} (vals : List (Option α)) : List α := vals.filterMap id

/-- MIRROR column_index.go:288-291 `baseColumnIndexer.observe` + writer.go:2716-2728: per page
    `(nullPage, nullCount, bounds)`; `numValues` counts nulls too. -/
structure PageStats (α : Type) where
  numValues : Nat
  numNulls : Nat
  nullPage : Bool
  bounds : Option (α × α)

def pageStats {α} (o : ColOrder α) (vals : List (Option α)) : PageStats α :=
  let numNulls := (vals.filter Option.isNone).length
  { numValues := vals.length, numNulls := numNulls, nullPage := vals.length == numNulls,
    bounds := boundsNaN o (nonNull vals) }

/-! ## Chunk statistics: the fold of `recordPageStats` -/

/-- MIRROR of writer.go `recordPageStats` (min/max part) BEFORE the fix "chunk statistics replace a
    NaN bound": pages without bounds leave the chunk statistics alone; the first page with bounds
    initialises them; later pages replace max when `Compare(max, existing) > 0` and min when
    `Compare(min, existing) < 0`. Kept as a regression fact. -/
def foldStep_before_fix {α} (lt : α → α → Bool) (acc : Option (α × α)) (pg : Option (α × α)) : Option (α × α) :=
  match pg with
  | none => acc
  | some (pmn, pmx) =>
    match acc with
    | none => some (pmn, pmx)
    | some (emn, emx) => some (if lt pmn emn then pmn else emn, if lt emx pmx then pmx else emx)

def foldChunk_before_fix {α} (lt : α → α → Bool) (pages : List (Option (α × α))) : Option (α × α) :=
  pages.foldl (foldStep_before_fix lt) none

/-- minimum / maximum bounds of the pages that have bounds, in page order -/
def pairsOf {α} (pages : List (Option (α × α))) : List (α × α) := pages.filterMap id

theorem foldl_foldStep_before_fix_pairs {α} (lt : α → α → Bool) : ∀ (pages : List (Option (α × α))) (acc : Option (α × α)),
    pages.foldl (foldStep_before_fix lt) acc = (pairsOf pages).foldl (fun a p => foldStep_before_fix lt a (some p)) acc
  | [], _ => rfl
  | none :: t, acc => by
    simp only [List.foldl, pairsOf, List.filterMap_cons, id]
    exact foldl_foldStep_before_fix_pairs lt t acc
  | some p :: t, acc => by
    simp only [List.foldl, pairsOf, List.filterMap_cons, id]
    exact foldl_foldStep_before_fix_pairs lt t _

/-- under the NaN law the explicit NaN test of `minLoop` is redundant -/
theorem minLoop_cons {α} {o : ColOrder α} (h : Lawful o) (lo v : α) (rest : List α) :
    minLoop o lo (v :: rest) = minLoop o (if o.lt v lo then v else lo) rest := by
  simp only [minLoop]
  cases hv : o.ok v with
  | true => simp
  | false =>
    have : o.lt v lo = false := by
      cases hc : o.lt v lo with
      | false => rfl
      | true => have := (h.nan _ _ hc).1; simp [hv] at this
    simp [this]

theorem foldl_pairs_some_before_fix {α} {o : ColOrder α} (h : Lawful o) : ∀ (ps : List (α × α)) (a b : α),
    ps.foldl (fun acc p => foldStep_before_fix o.lt acc (some p)) (some (a, b)) =
      some (minLoop o a (ps.map Prod.fst), minLoop o.flip b (ps.map Prod.snd))
  | [], _, _ => rfl
  | (pmn, pmx) :: t, a, b => by
    rw [List.foldl_cons]
    have e : foldStep_before_fix o.lt (some (a, b)) (some (pmn, pmx)) =
        some (if o.lt pmn a then pmn else a, if o.lt b pmx then pmx else b) := rfl
    rw [e, foldl_pairs_some_before_fix h t, List.map_cons, List.map_cons, minLoop_cons h, minLoop_cons h.flip]
    rfl

/-- closed form of the chunk fold -/
theorem foldChunk_before_fix_eq {α} {o : ColOrder α} (h : Lawful o) (pages : List (Option (α × α))) :
    foldChunk_before_fix o.lt pages =
      match pairsOf pages with
      | [] => none
      | p0 :: pt => some (minLoop o p0.1 (pt.map Prod.fst), minLoop o.flip p0.2 (pt.map Prod.snd)) := by
  unfold foldChunk_before_fix
  rw [foldl_foldStep_before_fix_pairs]
  cases hps : pairsOf pages with
  | nil => rfl
  | cons p0 pt =>
    obtain ⟨a, b⟩ := p0
    simp only [List.foldl, foldStep_before_fix]
    exact foldl_pairs_some_before_fix h pt a b

/-- SPEC-side statement of what the chunk statistics must be, given per-page bounds. The hypothesis is
    exactly what the code needs: the FIRST page that has bounds must not be an all-NaN page. -/
theorem foldChunk_before_fix_spec {α} {o : ColOrder α} (h : Lawful o) (pages : List (Option (α × α)))
    (p0 : α × α) (pt : List (α × α)) (hps : pairsOf pages = p0 :: pt)
    (hok : o.ok p0.1 = true ∧ o.ok p0.2 = true) :
    ∃ cmn cmx, foldChunk_before_fix o.lt pages = some (cmn, cmx) ∧
      o.ok cmn = true ∧ o.ok cmx = true ∧
      cmn ∈ (pairsOf pages).map Prod.fst ∧ cmx ∈ (pairsOf pages).map Prod.snd ∧
      (∀ p ∈ pairsOf pages, o.ok p.1 = true → o.lt p.1 cmn = false) ∧
      (∀ p ∈ pairsOf pages, o.ok p.2 = true → o.lt cmx p.2 = false) := by
  rw [foldChunk_before_fix_eq h, hps]
  obtain ⟨a1, a2, a3⟩ := minLoop_spec h (pt.map Prod.fst) p0.1 hok.1
  obtain ⟨b1, b2, b3⟩ := minLoop_spec h.flip (pt.map Prod.snd) p0.2 hok.2
  refine ⟨_, _, rfl, a2, b2, by simpa using a1, by simpa using b1, ?_, ?_⟩
  · intro p hp hpok
    refine a3 p.1 ?_ hpok
    simp only [List.mem_cons] at hp ⊢
    rcases hp with hp | hp
    · exact Or.inl (by rw [hp])
    · exact Or.inr (List.mem_map.mpr ⟨p, hp, rfl⟩)
  · intro p hp hpok
    refine b3 p.2 ?_ hpok
    simp only [List.mem_cons] at hp ⊢
    rcases hp with hp | hp
    · exact Or.inl (by rw [hp])
    · exact Or.inr (List.mem_map.mpr ⟨p, hp, rfl⟩)

theorem foldChunk_before_fix_none {α} {o : ColOrder α} (h : Lawful o) (pages : List (Option (α × α)))
    (hps : pairsOf pages = []) : foldChunk_before_fix o.lt pages = none := by
  rw [foldChunk_before_fix_eq h, hps]

/-- MIRROR writer.go `recordPageStats` (min/max part, as repaired): like the above, and an existing
    bound that is NaN (`isNaNValue`, left by an all-NaN page) is replaced by the next page's bound. -/
def foldStep {α} (o : ColOrder α) (acc : Option (α × α)) (pg : Option (α × α)) : Option (α × α) :=
  match pg with
  | none => acc
  | some (pmn, pmx) =>
    match acc with
    | none => some (pmn, pmx)
    | some (emn, emx) =>
      some (if !o.ok emn || o.lt pmn emn then pmn else emn, if !o.ok emx || o.lt emx pmx then pmx else emx)

def foldChunk {α} (o : ColOrder α) (pages : List (Option (α × α))) : Option (α × α) :=
  pages.foldl (foldStep o) none

/-- one component of the repaired fold -/
def minLoopR {α} (o : ColOrder α) (lo : α) : List α → α
  | [] => lo
  | v :: rest => minLoopR o (if !o.ok lo || o.lt v lo then v else lo) rest

theorem foldl_foldStep_pairs {α} (o : ColOrder α) : ∀ (pages : List (Option (α × α))) (acc : Option (α × α)),
    pages.foldl (foldStep o) acc = (pairsOf pages).foldl (fun a p => foldStep o a (some p)) acc
  | [], _ => rfl
  | none :: t, acc => by
    simp only [List.foldl, pairsOf, List.filterMap_cons, id]
    exact foldl_foldStep_pairs o t acc
  | some p :: t, acc => by
    simp only [List.foldl, pairsOf, List.filterMap_cons, id]
    exact foldl_foldStep_pairs o t _

theorem foldl_pairs_some {α} (o : ColOrder α) : ∀ (ps : List (α × α)) (a b : α),
    ps.foldl (fun acc p => foldStep o acc (some p)) (some (a, b)) =
      some (minLoopR o a (ps.map Prod.fst), minLoopR o.flip b (ps.map Prod.snd))
  | [], _, _ => rfl
  | (pmn, pmx) :: t, a, b => by
    rw [List.foldl_cons]
    have e : foldStep o (some (a, b)) (some (pmn, pmx)) =
        some (if !o.ok a || o.lt pmn a then pmn else a, if !o.ok b || o.lt b pmx then pmx else b) := rfl
    rw [e, foldl_pairs_some o t]
    rfl

theorem foldChunk_eq {α} (o : ColOrder α) (pages : List (Option (α × α))) :
    foldChunk o pages =
      match pairsOf pages with
      | [] => none
      | p0 :: pt => some (minLoopR o p0.1 (pt.map Prod.fst), minLoopR o.flip p0.2 (pt.map Prod.snd)) := by
  unfold foldChunk
  rw [foldl_foldStep_pairs]
  cases hps : pairsOf pages with
  | nil => rfl
  | cons p0 pt =>
    obtain ⟨a, b⟩ := p0
    simp only [List.foldl, foldStep]
    exact foldl_pairs_some o pt a b

theorem minLoopR_mem {α} (o : ColOrder α) : ∀ (xs : List α) (lo : α), minLoopR o lo xs ∈ lo :: xs
  | [], lo => by simp [minLoopR]
  | v :: rest, lo => by
    simp only [minLoopR]
    by_cases hc : (!o.ok lo || o.lt v lo) = true
    · rw [if_pos hc]
      have := minLoopR_mem o rest v
      simp only [List.mem_cons] at this ⊢
      rcases this with h | h
      · exact Or.inr (Or.inl h)
      · exact Or.inr (Or.inr h)
    · rw [if_neg hc]
      have := minLoopR_mem o rest lo
      simp only [List.mem_cons] at this ⊢
      rcases this with h | h
      · exact Or.inl h
      · exact Or.inr (Or.inr h)

/-- the repaired loop skips leading NaN candidates and then is the NaN-skipping loop `minLoop` -/
theorem minLoopR_eq {α} {o : ColOrder α} (h : Lawful o) : ∀ (xs : List α) (lo y : α) (rest : List α),
    (lo :: xs).dropWhile (fun v => !o.ok v) = y :: rest → minLoopR o lo xs = minLoop o y rest
  | [], lo, y, rest, hd => by
    simp only [List.dropWhile] at hd
    split at hd
    · simp at hd
    · simp only [List.cons.injEq] at hd
      rw [← hd.1, ← hd.2]; rfl
  | v :: t, lo, y, rest, hd => by
    simp only [minLoopR]
    cases hlo : o.ok lo with
    | true =>
      simp only [List.dropWhile, hlo, Bool.not_true] at hd
      simp only [List.cons.injEq] at hd
      rw [← hd.1, ← hd.2, minLoop_cons h]
      simp only [Bool.not_true, Bool.false_or]
      have hok' : o.ok (if o.lt v lo = true then v else lo) = true := by
        split
        · rename_i hlt; exact (h.nan _ _ hlt).1
        · exact hlo
      exact minLoopR_eq h t _ _ t (by simp [List.dropWhile, hok'])
    | false =>
      simp only [List.dropWhile, hlo, Bool.not_false] at hd
      simp only [Bool.not_false, Bool.true_or, if_true]
      exact minLoopR_eq h t v y rest hd

/-- SPEC-side statement of what the chunk statistics must be, given per-page bounds: as soon as SOME page
    has non-NaN bounds the chunk bounds are non-NaN page bounds and bound every non-NaN page bound. -/
theorem foldChunk_spec {α} {o : ColOrder α} (h : Lawful o) (pages : List (Option (α × α)))
    (hmn : ∃ p ∈ pairsOf pages, o.ok p.1 = true) (hmx : ∃ p ∈ pairsOf pages, o.ok p.2 = true) :
    ∃ cmn cmx, foldChunk o pages = some (cmn, cmx) ∧
      o.ok cmn = true ∧ o.ok cmx = true ∧
      cmn ∈ (pairsOf pages).map Prod.fst ∧ cmx ∈ (pairsOf pages).map Prod.snd ∧
      (∀ p ∈ pairsOf pages, o.ok p.1 = true → o.lt p.1 cmn = false) ∧
      (∀ p ∈ pairsOf pages, o.ok p.2 = true → o.lt cmx p.2 = false) := by
  rw [foldChunk_eq]
  cases hps : pairsOf pages with
  | nil => rw [hps] at hmn; obtain ⟨p, hp, _⟩ := hmn; simp at hp
  | cons p0 pt =>
    rw [hps] at hmn hmx
    -- generic component argument
    have comp : ∀ (o' : ColOrder α), Lawful o' → ∀ (f : α × α → α), (∃ p ∈ p0 :: pt, o'.ok (f p) = true) →
        o'.ok (minLoopR o' (f p0) (pt.map f)) = true ∧
        minLoopR o' (f p0) (pt.map f) ∈ (p0 :: pt).map f ∧
        ∀ p ∈ p0 :: pt, o'.ok (f p) = true → o'.lt (f p) (minLoopR o' (f p0) (pt.map f)) = false := by
      intro o' h' f ⟨q, hq, hqok⟩
      have hqm : f q ∈ f p0 :: pt.map f := by
        simpa using List.mem_map.mpr ⟨q, hq, rfl⟩
      have hm := mem_dropWhile_of_not (fun v => !o'.ok v) (f p0 :: pt.map f) (f q) hqm (by simp [hqok])
      cases hd : List.dropWhile (fun v => !o'.ok v) (f p0 :: pt.map f) with
      | nil => rw [hd] at hm; simp at hm
      | cons y rest =>
        have hy : o'.ok y = true := by simpa using dropWhile_head_not _ _ _ _ hd
        rw [minLoopR_eq h' _ _ y rest hd]
        obtain ⟨a1, a2, a3⟩ := minLoop_spec h' rest y hy
        refine ⟨a2, ?_, ?_⟩
        · have := mem_of_mem_dropWhile (fun v => !o'.ok v) (f p0 :: pt.map f) _ (by rw [hd]; exact a1)
          simpa using this
        · intro p hp hpok
          have hpm : f p ∈ f p0 :: pt.map f := by simpa using List.mem_map.mpr ⟨p, hp, rfl⟩
          have := mem_dropWhile_of_not (fun v => !o'.ok v) (f p0 :: pt.map f) (f p) hpm (by simp [hpok])
          rw [hd] at this
          exact a3 (f p) this hpok
    obtain ⟨a1, a2, a3⟩ := comp o h Prod.fst hmn
    obtain ⟨b1, b2, b3⟩ := comp o.flip h.flip Prod.snd hmx
    exact ⟨_, _, rfl, a1, b1, a2, b2, a3, b3⟩

theorem foldChunk_none {α} (o : ColOrder α) (pages : List (Option (α × α)))
    (hps : pairsOf pages = []) : foldChunk o pages = none := by
  rw [foldChunk_eq, hps]

/-! ## Truncation of byte-array bounds (column index only) -/

/-- MIRROR column_index.go:684-689 `truncateLargeMinByteArrayValue` -/
abbrev truncMin := Trunc.truncMin
/-- MIRROR column_index.go `truncateLargeMaxByteArrayValue` + `incrementByteArrayInplace` BEFORE the fix:
    on full overflow the kept prefix was restored to 0xFF..FF and returned. Regression fact. -/
abbrev truncMax_before_fix := Trunc.truncMaxBuggy
/-- MIRROR column_index.go `truncateLargeMaxByteArrayValue` (as repaired, like parquet-java's
    `BinaryTruncator`): when the increment of the kept prefix overflows the untruncated value is kept -/
abbrev truncMax := Trunc.truncMaxFixed

/-- `sizeLimit > 0` guard of the byte-array indexers (column_index.go:519-527, 571-579) -/
def truncMinLim (v : List Nat) (lim : Nat) : List Nat := if lim > 0 then truncMin v lim else v
def truncMaxLim (v : List Nat) (lim : Nat) : List Nat := if lim > 0 then truncMax v lim else v

theorem incr_carry_iff : ∀ p : List Nat, (Trunc.incr p).2 = true ↔ ∀ b ∈ p, b = 255
  | [] => by simp [Trunc.incr]
  | a :: as => by
    have ih := incr_carry_iff as
    simp only [Trunc.incr]
    cases hc : Trunc.incr as with
    | mk as' c =>
      rw [hc] at ih
      cases c with
      | true =>
        simp only at ih
        by_cases ha : a = 255
        · simp only [ha, if_true, true_iff]
          intro b hb
          simp only [List.mem_cons] at hb
          rcases hb with hb | hb
          · exact hb
          · exact ih.mp trivial b hb
        · simp only [ha, if_false]
          constructor
          · intro hh; simp at hh
          · intro hh; exact absurd (hh a (by simp)) ha
      | false =>
        simp only at ih
        constructor
        · intro hh; simp at hh
        · intro hh
          have := ih.mpr (fun b hb => hh b (by simp [hb]))
          simp at this

theorem lexLe_take_strict : ∀ (v : List Nat) (n : Nat), n < v.length → Trunc.lexLe v (v.take n) = false
  | [], n, h => by simp at h
  | a :: as, 0, _ => by simp [Trunc.lexLe]
  | a :: as, n + 1, h => by
    have := lexLe_take_strict as n (by simpa using h)
    simp [Trunc.lexLe, this]

theorem map_const_of_all {p : List Nat} (h : ∀ b ∈ p, b = 255) (r : List Nat) (hl : r.length = p.length) :
    r.map (fun _ => 255) = p := by
  induction p generalizing r with
  | nil => cases r with
    | nil => rfl
    | cons _ _ => simp at hl
  | cons a as ih =>
    cases r with
    | nil => simp at hl
    | cons x xs =>
      simp only [List.map_cons, List.cons.injEq]
      exact ⟨(h a (by simp)).symm, ih (fun b hb => h b (by simp [hb])) xs (by simpa using hl)⟩

/-- on an all-0xFF prefix the code returns the bare prefix -/
theorem truncMax_before_fix_allFF (v : List Nat) (n : Nat) (hlen : n < v.length) (hff : ∀ b ∈ v.take n, b = 255) :
    truncMax_before_fix v n = v.take n := by
  simp only [truncMax_before_fix, Trunc.truncMaxBuggy]
  have hc := (incr_carry_iff (v.take n)).mpr hff
  have hl := Trunc.incr_length (v.take n)
  cases hi : Trunc.incr (v.take n) with
  | mk r c =>
    rw [hi] at hc hl
    simp only at hc hl
    subst hc
    simp only [hlen, if_true]
    exact map_const_of_all hff r hl

/-! ## Boundary order -/

/-- MIRROR order_purego.go:27-34 `orderIsAscending`: no adjacent pair with `data[i-1] > data[i]` -/
def isAscBy {α} (lt : α → α → Bool) : List α → Bool
  | a :: b :: rest => !lt b a && isAscBy lt (b :: rest)
  | _ => true

/-- MIRROR order_purego.go:36-43 `orderIsDescending`: no adjacent pair with `data[i-1] < data[i]` -/
def isDescBy {α} (lt : α → α → Bool) : List α → Bool
  | a :: b :: rest => !lt a b && isDescBy lt (b :: rest)
  | _ => true

/-- MIRROR order_purego.go:15-25 `orderOf` (the assembly kernels of order_amd64.go are tied to it by L2) -/
def orderOf {α} (lt : α → α → Bool) (xs : List α) : Int :=
  if xs.length > 1 then (if isAscBy lt xs then 1 else if isDescBy lt xs then -1 else 0) else 0

/-- MIRROR order.go:76-83 `skipBytesStreak`: drop the leading run of values equal to the first one,
    keeping one of them (`eq` is `bytes.Equal`) -/
def skipStreak {α} (eq : α → α → Bool) : List α → List α
  | [] => []
  | x0 :: rest => x0 :: rest.dropWhile (fun x => eq x x0)

/-- MIRROR order.go:53-74 `orderOfBytes` -/
def orderOfBytes (xs : List (List Nat)) : Int :=
  if xs.length < 2 then 0 else
  match skipStreak (fun a b => a == b) xs with
  | a :: b :: rest =>
    if lexLt a b then (if isAscBy lexLt (b :: rest) then 1 else 0)
    else if lexLt b a then (if isDescBy lexLt (b :: rest) then -1 else 0)
    else 0
  | _ => 1

/-- MIRROR order.go:9-39 `orderOfBool` with `streakOfTrue/False` as `takeWhile` lengths -/
def orderOfBool (xs : List Bool) : Int :=
  if xs.length < 2 then 0 else
  let n := xs.length
  match xs with
  | true :: _ =>
    let i := (xs.takeWhile (· == true)).length
    if i == n then 1
    else
      let i2 := i + ((xs.drop i).takeWhile (· == false)).length
      if i2 != n then 0 else -1
  | _ =>
    let i := (xs.takeWhile (· == false)).length
    let i2 := i + ((xs.drop i).takeWhile (· == true)).length
    if i2 != n then 0 else 1

/-- MIRROR column_index.go:745-755 `boundaryOrderOf`: 1 = ASCENDING, 2 = DESCENDING, 0 = UNORDERED -/
def boundaryOrderOf (minOrder maxOrder : Int) : Nat :=
  if minOrder = maxOrder then (if minOrder > 0 then 1 else if minOrder < 0 then 2 else 0) else 0

/-- MIRROR of the typed indexers' `IndexPage` (column_index.go:333-338 etc.): a null page has
    `min = max = Value{}` whose typed accessor yields the zero value `z` -/
def storedMins {α} (z : α) (pages : List (Option (α × α))) : List α := pages.map (fun p => (p.getD (z, z)).1)
def storedMaxs {α} (z : α) (pages : List (Option (α × α))) : List α := pages.map (fun p => (p.getD (z, z)).2)

/-- MIRROR `ColumnIndex()` of the numeric indexers BEFORE the fix "no boundary order when a bound is
    NaN": boundary order over the stored values, null pages included. Regression fact. -/
def indexOrder_before_fix {α} (o : ColOrder α) (z : α) (pages : List (Option (α × α))) : Nat :=
  boundaryOrderOf (orderOf o.lt (storedMins z pages)) (orderOf o.lt (storedMaxs z pages))

/-- MIRROR `ColumnIndex()` of the numeric indexers (as repaired): the float/double indexers claim no order
    when `containsNaN(minValues) || containsNaN(maxValues)`; for the integer indexers `ok` is constantly
    true and the guard is vacuous. -/
def indexOrder {α} (o : ColOrder α) (z : α) (pages : List (Option (α × α))) : Nat :=
  if (storedMins z pages).all o.ok && (storedMaxs z pages).all o.ok then
    boundaryOrderOf (orderOf o.lt (storedMins z pages)) (orderOf o.lt (storedMaxs z pages))
  else 0

/-- MIRROR `byteArrayColumnIndexer.ColumnIndex` (column_index.go:516-535): null pages store the empty
    string, every entry is truncated, then `orderOfBytes` on the truncated entries -/
def bytesIndexMins (lim : Nat) (pages : List (Option (List Nat × List Nat))) : List (List Nat) :=
  (storedMins [] pages).map (truncMinLim · lim)
def bytesIndexMaxs (lim : Nat) (pages : List (Option (List Nat × List Nat))) : List (List Nat) :=
  (storedMaxs [] pages).map (truncMaxLim · lim)
def bytesIndexOrder (lim : Nat) (pages : List (Option (List Nat × List Nat))) : Nat :=
  boundaryOrderOf (orderOfBytes (bytesIndexMins lim pages)) (orderOfBytes (bytesIndexMaxs lim pages))

/-- MIRROR column_index.go:732-743 `splitFixedLenByteArrays`: `len(data)/size` chunks -/
def splitFixed (size : Nat) : Nat → List Nat → List (List Nat)
  | 0, _ => []
  | k + 1, data => data.take size :: splitFixed size k (data.drop size)

/-- MIRROR `fixedLenByteArrayColumnIndexer.IndexPage/ColumnIndex` BEFORE fix 0506fde: the bounds were
    appended to one flat buffer (`Value{}.byteArray()` is empty for a null page) and split again. -/
def flbaIndexMins_before_fix (size lim : Nat) (pages : List (Option (List Nat × List Nat))) : List (List Nat) :=
  let flat := (storedMins [] pages).flatten
  (splitFixed size (flat.length / size) flat).map (truncMinLim · lim)

/-- MIRROR `be128ColumnIndexer.IndexPage` BEFORE fix 0506fde: null bounds were skipped -/
def be128IndexMins_before_fix (pages : List (Option (List Nat × List Nat))) : List (List Nat) :=
  (pairsOf pages).map Prod.fst

/-- MIRROR `fixedLenByteArrayColumnIndexer` (as repaired, `appendValue`): a null page stores `size` zero
    bytes; every entry is truncated like the byte-array indexer's; `orderOfBytes` on the result.
    `be128ColumnIndexer` is the instance `size = 16`, `lim = 0` (no truncation). -/
def flbaIndexMins (size lim : Nat) (pages : List (Option (List Nat × List Nat))) : List (List Nat) :=
  (storedMins (List.replicate size 0) pages).map (truncMinLim · lim)
def flbaIndexMaxs (size lim : Nat) (pages : List (Option (List Nat × List Nat))) : List (List Nat) :=
  (storedMaxs (List.replicate size 0) pages).map (truncMaxLim · lim)
def flbaIndexOrder (size lim : Nat) (pages : List (Option (List Nat × List Nat))) : Nat :=
  boundaryOrderOf (orderOfBytes (flbaIndexMins size lim pages)) (orderOfBytes (flbaIndexMaxs size lim pages))

theorem isAscBy_pairwise {α} {o : ColOrder α} (h : Lawful o) : ∀ xs : List α, (∀ x ∈ xs, o.ok x = true) →
    isAscBy o.lt xs = true → xs.Pairwise (fun a b => o.lt b a = false)
  | [], _, _ => List.Pairwise.nil
  | [a], _, _ => by simp
  | a :: b :: rest, hok, hasc => by
    simp only [isAscBy, Bool.and_eq_true, Bool.not_eq_true'] at hasc
    have ih := isAscBy_pairwise h (b :: rest) (fun x hx => hok x (by simp [hx])) hasc.2
    rw [List.pairwise_cons]
    refine ⟨?_, ih⟩
    intro c hc
    simp only [List.mem_cons] at hc
    rcases hc with hc | hc
    · subst hc; exact hasc.1
    · have hcb := (List.pairwise_cons.mp ih).1 c hc
      cases hca : o.lt c a with
      | false => rfl
      | true =>
        rcases h.negtrans c b a (hok b (by simp)) hca with h' | h'
        · simp [h'] at hcb
        · simp [h'] at hasc

theorem isDescBy_eq_flip {α} (lt : α → α → Bool) : ∀ xs : List α, isDescBy lt xs = isAscBy (fun a b => lt b a) xs
  | [] => rfl
  | [_] => rfl
  | a :: b :: rest => by simp only [isDescBy, isAscBy]; rw [isDescBy_eq_flip lt (b :: rest)]

theorem isDescBy_pairwise {α} {o : ColOrder α} (h : Lawful o) (xs : List α) (hok : ∀ x ∈ xs, o.ok x = true)
    (hd : isDescBy o.lt xs = true) : xs.Pairwise (fun a b => o.lt a b = false) := by
  rw [isDescBy_eq_flip] at hd
  exact isAscBy_pairwise h.flip xs hok hd

theorem pairwise_filterMap_of_map {α β} (R : β → β → Prop) (f : α → Option β) (g : α → β)
    (hfg : ∀ x y, f x = some y → g x = y) : ∀ l : List α, (l.map g).Pairwise R → (l.filterMap f).Pairwise R
  | [], _ => List.Pairwise.nil
  | x :: t, hp => by
    rw [List.map_cons, List.pairwise_cons] at hp
    have ih := pairwise_filterMap_of_map R f g hfg t hp.2
    cases hfx : f x with
    | none => simpa [List.filterMap_cons, hfx] using ih
    | some y =>
      simp only [List.filterMap_cons, hfx]
      rw [List.pairwise_cons]
      refine ⟨?_, ih⟩
      intro y' hy'
      obtain ⟨x', hx', hfx'⟩ := List.mem_filterMap.mp hy'
      have := hp.1 (g x') (List.mem_map.mpr ⟨x', hx', rfl⟩)
      rwa [hfg x y hfx, hfg x' y' hfx'] at this

/-- mins / maxs of the non-null pages, in page order (the reader's view: null pages have no bounds) -/
def nonNullMins {α} (pages : List (Option (α × α))) : List α := pages.filterMap (fun p => p.map Prod.fst)
def nonNullMaxs {α} (pages : List (Option (α × α))) : List α := pages.filterMap (fun p => p.map Prod.snd)

/-- index entries of the non-null pages (entries are aligned with pages) -/
def nonNullOf {α β} (pages : List (Option β)) (entries : List α) : List α :=
  (pages.zip entries).filterMap (fun pe => if pe.1.isSome then some pe.2 else none)

theorem nonNullOf_pairwise {α β} (R : α → α → Prop) (pages : List (Option β)) (entries : List α)
    (hlen : entries.length = pages.length) (hp : entries.Pairwise R) : (nonNullOf pages entries).Pairwise R := by
  unfold nonNullOf
  apply pairwise_filterMap_of_map R _ Prod.snd
  · intro x y hxy
    split at hxy
    · simpa using hxy
    · simp at hxy
  · rw [List.map_snd_zip (by omega)]; exact hp

theorem nonNullOf_storedMins {α} (z : α) : ∀ pages : List (Option (α × α)),
    nonNullOf pages (storedMins z pages) = nonNullMins pages
  | [] => rfl
  | none :: t => by
    have := nonNullOf_storedMins z t
    simp only [nonNullOf, storedMins, nonNullMins] at this ⊢
    simpa using this
  | some p :: t => by
    have := nonNullOf_storedMins z t
    simp only [nonNullOf, storedMins, nonNullMins] at this ⊢
    simpa using this

theorem nonNullOf_storedMaxs {α} (z : α) : ∀ pages : List (Option (α × α)),
    nonNullOf pages (storedMaxs z pages) = nonNullMaxs pages
  | [] => rfl
  | none :: t => by
    have := nonNullOf_storedMaxs z t
    simp only [nonNullOf, storedMaxs, nonNullMaxs] at this ⊢
    simpa using this
  | some p :: t => by
    have := nonNullOf_storedMaxs z t
    simp only [nonNullOf, storedMaxs, nonNullMaxs] at this ⊢
    simpa using this

theorem orderOf_cases {α} (lt : α → α → Bool) (xs : List α) :
    (orderOf lt xs = 1 ∧ isAscBy lt xs = true) ∨ (orderOf lt xs = -1 ∧ isDescBy lt xs = true) ∨ orderOf lt xs = 0 := by
  unfold orderOf
  split
  · cases h1 : isAscBy lt xs with
    | true => simp
    | false =>
      cases h2 : isDescBy lt xs with
      | true => simp
      | false => simp
  · simp

theorem boundaryOrderOf_one {a b : Int} (h : boundaryOrderOf a b = 1) : a = b ∧ a > 0 := by
  unfold boundaryOrderOf at h
  split at h
  · split at h
    · exact ⟨by assumption, by assumption⟩
    · split at h <;> simp at h
  · simp at h

theorem boundaryOrderOf_two {a b : Int} (h : boundaryOrderOf a b = 2) : a = b ∧ a < 0 := by
  unfold boundaryOrderOf at h
  split at h
  · split at h
    · simp at h
    · split at h
      · exact ⟨by assumption, by assumption⟩
      · simp at h
  · simp at h

theorem dropWhile_nil_all {α} (p : α → Bool) : ∀ l : List α, l.dropWhile p = [] → ∀ x ∈ l, p x = true
  | [], _, x, hx => by simp at hx
  | a :: t, h, x, hx => by
    simp only [List.dropWhile] at h
    split at h
    · rename_i ha
      simp only [List.mem_cons] at hx
      rcases hx with hx | hx
      · subst hx; exact ha
      · exact dropWhile_nil_all p t h x hx
    · simp at h

theorem pairwise_insert_equal {α} (R : α → α → Prop) (x0 : α) (hxx : R x0 x0) :
    ∀ (eqs t : List α), (∀ e ∈ eqs, e = x0) → (x0 :: t).Pairwise R → (x0 :: (eqs ++ t)).Pairwise R
  | [], t, _, hp => by simpa using hp
  | e :: es, t, he, hp => by
    have hex : e = x0 := he e (by simp)
    subst hex
    have ih := pairwise_insert_equal R e hxx es t (fun e' he' => he e' (by simp [he'])) hp
    rw [List.cons_append, List.pairwise_cons]
    refine ⟨?_, ih⟩
    intro c hc
    simp only [List.mem_cons] at hc
    rcases hc with hc | hc
    · subst hc; exact hxx
    · exact (List.pairwise_cons.mp ih).1 c hc

theorem mem_takeWhile_pred {α} (p : α → Bool) : ∀ (l : List α) (x : α), x ∈ l.takeWhile p → p x = true
  | [], x, h => by simp at h
  | a :: t, x, h => by
    simp only [List.takeWhile] at h
    split at h
    · rename_i ha
      simp only [List.mem_cons] at h
      rcases h with h | h
      · subst h; exact ha
      · exact mem_takeWhile_pred p t x h
    · simp at h

/-- what `skipBytesStreak` removed were copies of the first value -/
theorem skipStreak_decomp (x0 : List Nat) (rest : List (List Nat)) :
    ∃ eqs, (∀ e ∈ eqs, e = x0) ∧ rest = eqs ++ rest.dropWhile (fun x => x == x0) := by
  refine ⟨rest.takeWhile (fun x => x == x0), ?_, (List.takeWhile_append_dropWhile).symm⟩
  intro e he
  have := mem_takeWhile_pred _ _ _ he
  exact eq_of_beq this

theorem lexLt_asymm {a b : List Nat} (h : lexLt a b = true) : lexLt b a = false := by
  cases hc : lexLt b a with
  | false => rfl
  | true =>
    have := bytes_lawful.trans a b a h hc
    have h2 := bytes_lawful.irrefl a
    simp only [bytes] at this h2
    simp [this] at h2

theorem orderOfBytes_asc (xs : List (List Nat)) (h : orderOfBytes xs = 1) :
    xs.Pairwise (fun a b => lexLt b a = false) := by
  unfold orderOfBytes at h
  split at h
  · simp at h
  · cases xs with
    | nil => simp
    | cons x0 rest =>
      obtain ⟨eqs, heq, hrest⟩ := skipStreak_decomp x0 rest
      simp only [skipStreak] at h
      have hirr : lexLt x0 x0 = false := bytes_lawful.irrefl x0
      cases hd : rest.dropWhile (fun x => x == x0) with
      | nil =>
        rw [hd] at hrest
        simp only [List.append_nil] at hrest
        subst hrest
        have := pairwise_insert_equal (fun a b => lexLt b a = false) x0 hirr rest [] heq (by simp)
        simpa using this
      | cons b rest' =>
        rw [hd] at h hrest
        simp only at h
        split at h
        · rename_i hlt
          split at h
          · rename_i hasc
            have hp : (x0 :: b :: rest').Pairwise (fun a b => lexLt b a = false) := by
              apply isAscBy_pairwise bytes_lawful
              · intro x _; rfl
              · show isAscBy lexLt (x0 :: b :: rest') = true
                simp only [isAscBy, Bool.and_eq_true, Bool.not_eq_true']
                exact ⟨lexLt_asymm hlt, hasc⟩
            rw [hrest]
            exact pairwise_insert_equal _ x0 hirr eqs (b :: rest') heq hp
          · simp at h
        · split at h
          · split at h <;> simp at h
          · simp at h

theorem orderOfBytes_desc (xs : List (List Nat)) (h : orderOfBytes xs = -1) :
    xs.Pairwise (fun a b => lexLt a b = false) := by
  unfold orderOfBytes at h
  split at h
  · simp at h
  · cases xs with
    | nil => simp
    | cons x0 rest =>
      obtain ⟨eqs, heq, hrest⟩ := skipStreak_decomp x0 rest
      simp only [skipStreak] at h
      have hirr : lexLt x0 x0 = false := bytes_lawful.irrefl x0
      cases hd : rest.dropWhile (fun x => x == x0) with
      | nil => rw [hd] at h; simp at h
      | cons b rest' =>
        rw [hd] at h hrest
        simp only at h
        split at h
        · split at h <;> simp at h
        · rename_i hnlt
          split at h
          · rename_i hlt
            split at h
            · rename_i hdesc
              have hp : (x0 :: b :: rest').Pairwise (fun a b => lexLt a b = false) := by
                apply isDescBy_pairwise bytes_lawful
                · intro x _; rfl
                · show isDescBy lexLt (x0 :: b :: rest') = true
                  simp only [isDescBy, Bool.and_eq_true, Bool.not_eq_true']
                  exact ⟨by simpa using hnlt, hdesc⟩
              rw [hrest]
              exact pairwise_insert_equal _ x0 hirr eqs (b :: rest') heq hp
            · simp at h
          · simp at h

/-! ### `orderOfBool` is sound -/

/-- `compareBool(a, b) < 0` (compare.go:59-68): false < true -/
def boolLt (a b : Bool) : Bool := !a && b

theorem pairwise_of_forall_mem {α} (R : α → α → Prop) : ∀ l : List α, (∀ x ∈ l, ∀ y ∈ l, R x y) → l.Pairwise R
  | [], _ => List.Pairwise.nil
  | a :: t, h => by
    rw [List.pairwise_cons]
    exact ⟨fun y hy => h a (by simp) y (by simp [hy]),
      pairwise_of_forall_mem R t (fun x hx y hy => h x (by simp [hx]) y (by simp [hy]))⟩

theorem takeWhile_length_le {α} (p : α → Bool) : ∀ l : List α, (l.takeWhile p).length ≤ l.length
  | [] => by simp
  | a :: t => by
    simp only [List.takeWhile]
    split
    · simpa using takeWhile_length_le p t
    · simp

theorem takeWhile_length_eq_all {α} (p : α → Bool) : ∀ l : List α, (l.takeWhile p).length = l.length → ∀ x ∈ l, p x = true
  | [], _, x, hx => by simp at hx
  | a :: t, h, x, hx => by
    simp only [List.takeWhile] at h
    split at h
    · rename_i ha
      simp only [List.length_cons, Nat.add_right_cancel_iff] at h
      simp only [List.mem_cons] at hx
      rcases hx with hx | hx
      · subst hx; exact ha
      · exact takeWhile_length_eq_all p t h x hx
    · simp at h

/-- a list that is a block satisfying `p` followed by a block satisfying `q`, as the streak scans see it -/
theorem two_blocks {α} (p q : α → Bool) (l : List α)
    (h : (l.takeWhile p).length + ((l.drop (l.takeWhile p).length).takeWhile q).length = l.length) :
    ∃ a b, l = a ++ b ∧ (∀ x ∈ a, p x = true) ∧ (∀ x ∈ b, q x = true) := by
  refine ⟨l.takeWhile p, l.dropWhile p, List.takeWhile_append_dropWhile.symm, mem_takeWhile_pred p l, ?_⟩
  have hd : l.drop (l.takeWhile p).length = l.dropWhile p := by
    have : List.drop (l.takeWhile p).length (l.takeWhile p ++ l.dropWhile p) = l.dropWhile p := List.drop_left
    rwa [List.takeWhile_append_dropWhile] at this
  have hl : l.length = (l.takeWhile p).length + (l.dropWhile p).length := by
    have := congrArg List.length (List.takeWhile_append_dropWhile (p := p) (l := l))
    rw [List.length_append] at this
    omega
  rw [hd] at h
  exact takeWhile_length_eq_all q _ (by omega)

theorem pairwise_two_blocks {α} (R : α → α → Prop) (a b : List α) (u v : α)
    (ha : ∀ x ∈ a, x = u) (hb : ∀ x ∈ b, x = v) (huu : R u u) (huv : R u v) (hvv : R v v) :
    (a ++ b).Pairwise R := by
  rw [List.pairwise_append]
  refine ⟨pairwise_of_forall_mem R a ?_, pairwise_of_forall_mem R b ?_, ?_⟩
  · intro x hx y hy; rw [ha x hx, ha y hy]; exact huu
  · intro x hx y hy; rw [hb x hx, hb y hy]; exact hvv
  · intro x hx y hy; rw [ha x hx, hb y hy]; exact huv

/-- `orderOfBool` claims ascending only for `false* true*`, descending only for `true* false*` -/
theorem orderOfBool_sound (xs : List Bool) :
    (orderOfBool xs = 1 → xs.Pairwise (fun a b => boolLt b a = false)) ∧
    (orderOfBool xs = -1 → xs.Pairwise (fun a b => boolLt a b = false)) := by
  unfold orderOfBool
  split
  · simp
  · cases xs with
    | nil => simp
    | cons x0 rest =>
      cases x0 with
      | true =>
        simp only
        split
        · rename_i hall
          constructor
          · intro _
            have hall' := takeWhile_length_eq_all (· == true) (true :: rest) (by simpa using hall)
            apply pairwise_of_forall_mem
            intro x hx y hy
            have h1 := hall' x hx; have h2 := hall' y hy
            simp only [beq_iff_eq] at h1 h2
            subst h1; subst h2; rfl
          · intro h; simp at h
        · split
          · simp
          · rename_i hne
            constructor
            · intro h; simp at h
            · intro _
              obtain ⟨a, b, hab, ha, hb⟩ := two_blocks (· == true) (· == false) (true :: rest) (by simpa using hne)
              rw [hab]
              exact pairwise_two_blocks _ a b true false (fun x hx => by simpa using ha x hx)
                (fun x hx => by simpa using hb x hx) rfl rfl rfl
      | false =>
        simp only
        split
        · simp
        · rename_i hne
          constructor
          · intro _
            obtain ⟨a, b, hab, ha, hb⟩ := two_blocks (· == false) (· == true) (false :: rest) (by simpa using hne)
            rw [hab]
            exact pairwise_two_blocks _ a b false true (fun x hx => by simpa using ha x hx)
              (fun x hx => by simpa using hb x hx) rfl rfl rfl
          · intro h; simp at h


theorem orderOfBool_range (xs : List Bool) : orderOfBool xs = 1 ∨ orderOfBool xs = -1 ∨ orderOfBool xs = 0 := by
  unfold orderOfBool
  split
  · simp
  · split
    · simp only
      split
      · simp
      · split <;> simp
    · simp only
      split <;> simp

/-- MIRROR `booleanColumnIndexer.ColumnIndex` (column_index.go:325-332): null pages store `false` -/
def boolIndexOrder (pages : List (Option (Bool × Bool))) : Nat :=
  boundaryOrderOf (orderOfBool (storedMins false pages)) (orderOfBool (storedMaxs false pages))

/-! ### the remaining column orders -/

/-- INT96 as its three little-endian 32-bit words `(i[0], i[1], i[2])` -/
abbrev I96 := Nat × Nat × Nat

/-- MIRROR deprecated/int96.go:35-62 `Int96.Negative` / `Int96.Less`: sign of the top word first, then the words
    from the most significant one, unsigned -/
def int96Less (a b : I96) : Bool :=
  let negA := decide (a.2.2 ≥ 2 ^ 31)
  let negB := decide (b.2.2 ≥ 2 ^ 31)
  if negA && !negB then true
  else if !negA && negB then false
  else if a.2.2 < b.2.2 then true
  else if a.2.2 > b.2.2 then false
  else if a.2.1 < b.2.1 then true
  else if a.2.1 > b.2.1 then false
  else if a.1 < b.1 then true
  else false

/-- SPEC: the value of a 96-bit two's complement integer -/
def int96Key (a : I96) : Int :=
  ((a.1 + 2 ^ 32 * a.2.1 + 2 ^ 64 * a.2.2 : Nat) : Int) - (if a.2.2 ≥ 2 ^ 31 then 2 ^ 96 else 0)

/-- INT96: signed 96-bit order -/
def int96 : ColOrder I96 := ofKey int96Key (fun _ => false)
theorem int96_lawful : Lawful int96 := ofKey_lawful _ _

/-- the library's `Less` IS the signed 96-bit order (words are 32-bit) -/
theorem int96Less_eq (a b : I96) (ha : a.1 < 2 ^ 32 ∧ a.2.1 < 2 ^ 32 ∧ a.2.2 < 2 ^ 32)
    (hb : b.1 < 2 ^ 32 ∧ b.2.1 < 2 ^ 32 ∧ b.2.2 < 2 ^ 32) : int96Less a b = int96.lt a b := by
  obtain ⟨a0, a1, a2⟩ := a
  obtain ⟨b0, b1, b2⟩ := b
  simp only at ha hb
  simp only [int96Less, int96, ofKey, int96Key, Bool.not_false, Bool.true_and]
  by_cases hna : a2 ≥ 2 ^ 31 <;> by_cases hnb : b2 ≥ 2 ^ 31 <;>
    simp only [hna, hnb, decide_true, decide_false, Bool.and_true, Bool.and_false, Bool.not_true, Bool.not_false,
      Bool.false_eq_true, if_true, if_false, Bool.true_and, Bool.false_and] <;>
    (repeat' split) <;> simp only [decide_eq_true_eq, decide_eq_false_iff_not, Bool.true_eq, Bool.false_eq] <;> omega

/-- SPEC: the value of a big-endian two's complement byte string of any length (DECIMAL on BYTE_ARRAY) -/
def beUnsigned : List Nat → Nat
  | [] => 0
  | b :: rest => b * 256 ^ rest.length + beUnsigned rest

def decimalValue : List Nat → Int
  | [] => 0
  | b :: rest => ((beUnsigned (b :: rest) : Nat) : Int) - (if b ≥ 128 then 256 ^ (rest.length + 1) else 0)

/-- DECIMAL on BYTE_ARRAY / FIXED_LEN_BYTE_ARRAY: order of the represented integers (SPEC; the mirror
    `cmpDecimal` is tied to it by `cmpDecimal_fixed` for equal widths and by L2 for mixed widths) -/
def decimalBinary : ColOrder (List Nat) := ofKey decimalValue (fun _ => false)
theorem decimalBinary_lawful : Lawful decimalBinary := ofKey_lawful _ _

/-- for equal widths the mirror of `compareDecimalByteArrays` is the sign-flipped unsigned order -/
theorem cmpDecimal_fixed : ∀ (a b : List Nat), a.length = b.length → (∀ x ∈ a, x ≤ 255) → (∀ x ∈ b, x ≤ 255) →
    (decide (cmpDecimal a b < 0)) = decimalFixed.lt a b
  | [], [], _, _, _ => by decide
  | [], _ :: _, h, _, _ => by simp at h
  | _ :: _, [], h, _, _ => by simp at h
  | a0 :: as, b0 :: bs, hlen, ha, hb => by
    have ha0 : a0 ≤ 255 := ha a0 (by simp)
    have hb0 : b0 ≤ 255 := hb b0 (by simp)
    have hl : as.length = bs.length := by simpa using hlen
    simp only [cmpDecimal, decimalFixed, ColOrder.comap, Stats.bytes, flipSign, List.length_cons, hl,
      Nat.lt_irrefl, if_false, Nat.sub_self, cmpPadded, lexLt, Trunc.lexLe]
    by_cases hna : a0 ≥ 128 <;> by_cases hnb : b0 ≥ 128
    · have e1 : ¬ a0 < 128 := by omega
      have e2 : ¬ b0 < 128 := by omega
      simp only [hna, hnb, decide_true, Bool.not_true, Bool.and_false, Bool.false_eq_true, if_false, e1, e2,
        Bool.and_true, Bool.true_and]
      by_cases h1 : b0 < a0
      · have : b0 - 128 < a0 - 128 := by omega
        simp [h1, this] <;> (split <;> omega)
      · by_cases h2 : b0 = a0
        · subst h2
          simp only [Nat.lt_irrefl, if_false, if_true]
          cases hle : Trunc.lexLe bs as <;> simp
          · split <;> simp
        · have h3 : a0 < b0 := by omega
          have : ¬ b0 - 128 < a0 - 128 := by omega
          have h4 : ¬ b0 - 128 = a0 - 128 := by omega
          have h5 : a0 - 128 < b0 - 128 := by omega
          simp [h1, h2, h3, this, h4, h5]
    · have e1 : ¬ a0 < 128 := by omega
      have e2 : b0 < 128 := by omega
      have : a0 - 128 < b0 + 128 := by omega
      have h2 : ¬ b0 + 128 < a0 - 128 := by omega
      have h3 : ¬ b0 + 128 = a0 - 128 := by omega
      simp [hna, hnb, e1, e2, h2, h3]
    · have e1 : a0 < 128 := by omega
      have e2 : ¬ b0 < 128 := by omega
      have : b0 - 128 < a0 + 128 := by omega
      simp [hna, hnb, e1, e2, this]
    · have e1 : a0 < 128 := by omega
      have e2 : b0 < 128 := by omega
      simp only [hna, hnb, decide_false, Bool.not_false, Bool.and_true, Bool.false_and, Bool.and_false,
        Bool.false_eq_true, if_false, e1, e2, if_true]
      by_cases h1 : b0 < a0
      · have : b0 + 128 < a0 + 128 := by omega
        simp [h1, this] <;> (split <;> omega)
      · by_cases h2 : b0 = a0
        · subst h2
          simp only [Nat.lt_irrefl, if_false, if_true]
          cases hle : Trunc.lexLe bs as <;> simp
          · split <;> simp
        · have h3 : a0 < b0 := by omega
          have : ¬ b0 + 128 < a0 + 128 := by omega
          have h4 : ¬ b0 + 128 = a0 + 128 := by omega
          simp [h1, h2, h3, this, h4]

/-! ### statistics of a column chunk copied verbatim (`WriteRowGroup` from a file) -/

/-- what the statistics of one column chunk say, next to the pages they describe -/
structure ChunkRecord (α : Type) where
  pages : List (List (Option α))        -- the values of each data page (`none` = null)
  index : List (Option (α × α))         -- column index entries, `none` = null page
  nullCounts : List Nat                 -- column index null_counts
  chunk : Option (α × α)                -- chunk statistics min/max
  chunkNulls : Nat
  offsets : List Nat                    -- offset index: page offsets in the file

/-- SPEC: the record is sound (this is C05 for one chunk) -/
structure ChunkRecord.Sound {α} (o : ColOrder α) (c : ChunkRecord α) : Prop where
  aligned : c.index.length = c.pages.length ∧ c.nullCounts.length = c.pages.length
  nulls : ∀ (i : Nat) (vals : List (Option α)), c.pages[i]? = some vals → c.nullCounts[i]? = some (vals.countP (· = none))
  nullPage : ∀ (i : Nat) (vals : List (Option α)), c.pages[i]? = some vals → (c.index[i]? = some none ↔ ∀ v ∈ vals, v = none)
  bound : ∀ (i : Nat) vals mn mx, c.pages[i]? = some vals → c.index[i]? = some (some (mn, mx)) →
    ∀ v, some v ∈ vals → o.ok v = true → o.lt v mn = false ∧ o.lt mx v = false
  chunkBound : ∀ mn mx, c.chunk = some (mn, mx) → ∀ vals ∈ c.pages, ∀ v, some v ∈ vals → o.ok v = true →
    o.lt v mn = false ∧ o.lt mx v = false
  chunkNullsExact : c.chunkNulls = ((c.pages.map (fun vals => vals.countP (· = none))).sum)

/-- MIRROR writer_copy.go `loadCopiedChunk` + writer.go `writeRowGroup` (copied column): the page bytes are
    streamed unchanged, column index / statistics / size statistics are clones of the source's, and the page
    locations are rebased from the source's data page offset to the destination's. -/
def copyVerbatim {α} (c : ChunkRecord α) (srcDataOffset dstDataOffset : Nat) : ChunkRecord α :=
  { pages := c.pages, index := c.index, nullCounts := c.nullCounts, chunk := c.chunk, chunkNulls := c.chunkNulls,
    offsets := c.offsets.map (fun off => off - srcDataOffset + dstDataOffset) }

end PqModel.Stats
