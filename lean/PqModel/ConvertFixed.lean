import PqModel.ConvertAddedTree

/-! C12, the mirror after repairs fa179c0 / 2c2062a: algebra of the second fix-up stage
    (`zeroCol` / `zeroAtMax`: a null at the column's maximal definition level becomes the typed
    zero), used to carry the theorems about the first stage (`convN`) over to `convertRow`. -/
namespace PqModel.Convert
open PqModel.Dremel

theorem canonCol_zeroCol (td : Nat) (c : List Triple) :
    canonCol td (zeroCol td c) = zeroCol td (canonCol td c) := by
  simp only [canonCol, zeroCol, List.map_map]
  apply List.map_congr_left
  intro t _
  simp only [Function.comp]
  by_cases h1 : t.dfn < td
  · have h3 : ¬ t.dfn = td := by omega
    simp [h1, h3]
  · by_cases h2 : t.val.isNone = true <;> by_cases h3 : t.dfn = td <;> simp [h1, h2, h3]

/-- erasing payload below the maximum and zeroing nulls at the maximum commute -/
theorem canon_zeroAtMax : ∀ (tds : List Nat) (X : Cols),
    canon tds (zeroAtMax tds X) = zeroAtMax tds (canon tds X)
  | [], _ => by simp [canon, zeroAtMax]
  | _ :: _, [] => by simp [canon, zeroAtMax]
  | td :: tds, c :: X => by
    have ih := canon_zeroAtMax tds X
    simp only [canon, zeroAtMax, List.zipWith_cons_cons] at ih ⊢
    rw [canonCol_zeroCol, ih]

/-- a column without a null at its maximal definition level is left alone -/
theorem zeroCol_id (td : Nat) (c : List Triple) (h : ∀ t ∈ c, t.val = none → t.dfn ≠ td) : zeroCol td c = c := by
  simp only [zeroCol]
  conv => rhs; rw [← List.map_id c]
  apply List.map_congr_left
  intro t ht
  by_cases hn : t.val = none
  · have := h t ht hn
    simp [hn, this]
  · cases hv : t.val with
    | none => exact absurd hv hn
    | some x => simp

/-! ### the shredding of a conforming value holds no null at a column's maximal definition level -/

def okCol (td : Nat) (c : List Triple) : Prop := ∀ t ∈ c, t.val = none → t.dfn < td

def OkCols : List Nat → Cols → Prop
  | [], [] => True
  | td :: tds, c :: X => okCol td c ∧ OkCols tds X
  | _, _ => False

theorem ok_append : ∀ {t1 t2 : List Nat} {A B : Cols}, OkCols t1 A → OkCols t2 B → OkCols (t1 ++ t2) (A ++ B)
  | [], _, [], _, _, hb => by simpa using hb
  | [], _, _ :: _, _, ha, _ => by simp [OkCols] at ha
  | _ :: _, _, [], _, ha, _ => by simp [OkCols] at ha
  | td :: t1, t2, c :: A, B, ha, hb => by
    simp only [OkCols, List.cons_append] at ha ⊢
    exact ⟨ha.1, ok_append ha.2 hb⟩

theorem ok_zipApp : ∀ {tds : List Nat} {A B : Cols}, OkCols tds A → OkCols tds B → OkCols tds (zipApp A B)
  | [], [], [], _, _ => by simp [zipApp, OkCols]
  | [], [], _ :: _, _, hb => by simp [OkCols] at hb
  | [], _ :: _, _, ha, _ => by simp [OkCols] at ha
  | _ :: _, [], _, ha, _ => by simp [OkCols] at ha
  | _ :: _, _ :: _, [], _, hb => by simp [OkCols] at hb
  | td :: tds, a :: A, b :: B, ha, hb => by
    simp only [OkCols, zipApp] at ha hb ⊢
    refine ⟨?_, ok_zipApp ha.2 hb.2⟩
    intro t ht hn
    rcases List.mem_append.mp ht with h | h
    · exact ha.1 t h hn
    · exact hb.1 t h hn

theorem ok_replicate : ∀ (tds : List Nat), OkCols tds (List.replicate tds.length [])
  | [] => by simp [OkCols]
  | td :: tds => by
    simp only [List.length_cons, List.replicate_succ, OkCols]
    exact ⟨by intro t ht; simp at ht, ok_replicate tds⟩

mutual
theorem absent_okN : ∀ (t : PNode) (r d d' : Nat), d < d' → OkCols (maxDefsN t d') (absentN (eraseN t) r d)
  | .leaf, r, d, d', h => by
    simp only [maxDefsN, eraseN, absentN, OkCols, and_true]
    intro t ht _
    simp only [List.mem_singleton] at ht
    subst ht
    exact h
  | .group fs, r, d, d', h => by
    simp only [maxDefsN, eraseN, absentN]
    exact absent_okF fs r d d' h
theorem absent_okF : ∀ (fs : PFields) (r d d' : Nat), d < d' → OkCols (maxDefsF fs d') (absentF (eraseF fs) r d)
  | .nil, _, _, _, _ => by simp [maxDefsF, eraseF, absentF, OkCols]
  | .cons nm rp n fs, r, d, d', h => by
    simp only [maxDefsF, eraseF, absentF, absent_wrap]
    exact ok_append (absent_okN n r d (d' + defOf rp) (by omega)) (absent_okF fs r d d' h)
end

mutual
theorem shred_okN : ∀ (t : PNode) (r k d : Nat) (v : Val), confN (eraseN t) v = true →
    OkCols (maxDefsN t d) (shredN (eraseN t) r k d v)
  | .leaf, r, k, d, v, hc => by
    cases v with
    | prim x =>
      simp only [maxDefsN, eraseN, shredN, OkCols, and_true]
      intro t ht hn
      simp only [List.mem_singleton] at ht
      subst ht
      simp at hn
    | struct vs => simp [eraseN, confN] at hc
    | none => simp [eraseN, confN] at hc
    | some w => simp [eraseN, confN] at hc
    | list ws => simp [eraseN, confN] at hc
  | .group fs, r, k, d, v, hc => by
    cases v with
    | struct vs =>
      simp only [eraseN, confN] at hc
      simp only [maxDefsN, eraseN, shredN]
      exact shred_okF fs r k d vs hc
    | prim x => simp [eraseN, confN] at hc
    | none => simp [eraseN, confN] at hc
    | some w => simp [eraseN, confN] at hc
    | list ws => simp [eraseN, confN] at hc
theorem shred_okF : ∀ (fs : PFields) (r k d : Nat) (vs : List Val), confF (eraseF fs) vs = true →
    OkCols (maxDefsF fs d) (shredF (eraseF fs) r k d vs)
  | .nil, _, _, _, _, _ => by simp [maxDefsF, eraseF, shredF, OkCols]
  | .cons nm rp n fs, r, k, d, vs, hc => by
    cases vs with
    | nil => simp [eraseF, confF] at hc
    | cons v vs' =>
      simp only [eraseF, confF, Bool.and_eq_true] at hc
      simp only [maxDefsF, eraseF, shredF]
      refine ok_append ?_ (shred_okF fs r k d vs' hc.2)
      have hcv := hc.1
      cases rp with
      | req =>
        simp only [wrap, defOf, Nat.add_zero] at hcv ⊢
        exact shred_okN n r k d v hcv
      | opt =>
        simp only [wrap, defOf] at hcv ⊢
        cases v with
        | some w =>
          simp only [confN] at hcv
          simp only [shredN]
          exact shred_okN n r k (d + 1) w hcv
        | none =>
          simp only [shredN]
          exact absent_okN n r d (d + 1) (by omega)
        | prim x => simp [confN] at hcv
        | struct vs'' => simp [confN] at hcv
        | list ws => simp [confN] at hcv
      | rpt =>
        simp only [wrap, defOf] at hcv ⊢
        cases v with
        | list ws =>
          simp only [confN] at hcv
          cases ws with
          | nil =>
            simp only [shredN]
            exact absent_okN n r d (d + 1) (by omega)
          | cons w0 ws =>
            simp only [List.all_cons, Bool.and_eq_true] at hcv
            simp only [shredN]
            refine ok_zipApp (shred_okN n r (k + 1) (d + 1) w0 hcv.1) ?_
            have hlen : leavesN (eraseN n) = (maxDefsN n (d + 1)).length := by
              rw [maxDefsN_length]; rfl
            rw [hlen]
            have hall : ∀ w ∈ ws, OkCols (maxDefsN n (d + 1)) (shredN (eraseN n) (k + 1) (k + 1) (d + 1) w) :=
              fun w hw => shred_okN n (k + 1) (k + 1) (d + 1) w ((List.all_eq_true.mp hcv.2) w hw)
            clear hcv hc
            induction ws with
            | nil => exact ok_replicate _
            | cons w l ih =>
              simp only [List.foldr_cons]
              exact ok_zipApp (hall w (by simp)) (ih (fun w' hw' => hall w' (by simp [hw'])))
        | prim x => simp [confN] at hcv
        | struct vs'' => simp [confN] at hcv
        | none => simp [confN] at hcv
        | some w => simp [confN] at hcv
end

theorem zeroAtMax_of_ok : ∀ (tds : List Nat) (X : Cols), OkCols tds X → zeroAtMax tds X = X
  | [], [], _ => by simp [zeroAtMax]
  | [], _ :: _, h => by simp [OkCols] at h
  | _ :: _, [], h => by simp [OkCols] at h
  | td :: tds, c :: X, h => by
    simp only [OkCols] at h
    have ih := zeroAtMax_of_ok tds X h.2
    simp only [zeroAtMax, List.zipWith_cons_cons] at ih ⊢
    rw [ih, zeroCol_id td c (fun t ht hn => by have := h.1 t ht hn; omega)]

/-- the final fix-up leaves the shredding of a conforming value alone -/
theorem zeroAtMax_shred (t : PNode) (v : Val) (hc : confN (eraseN t) v = true) :
    zeroAtMax (maxDefsN t 0) (shred t v) = shred t v :=
  zeroAtMax_of_ok _ _ (shred_okN t 0 0 0 v hc)

/-! ### the projection of a conforming value conforms to the target -/

mutual
theorem conf_projN : ∀ (t s : PNode) (v : Val), subN s t = true → wfN (eraseN s) = true →
    confN (eraseN s) v = true → confN (eraseN t) (projN s t v) = true
  | .leaf, s, v, hs, hw, hc => by
    cases s with
    | group sfs => simp [subN] at hs
    | leaf => simpa [projN] using hc
  | .group tfs, s, v, hs, hw, hc => by
    cases s with
    | leaf => simp [subN] at hs
    | group sfs =>
      cases v with
      | struct vs =>
        simp only [eraseN, confN] at hc
        simp only [eraseN, wfN, Bool.and_eq_true] at hw
        simp only [subN] at hs
        simp only [projN, eraseN, confN]
        exact conf_projF tfs sfs vs hs hw.1 hc
      | prim x => simp [eraseN, confN] at hc
      | none => simp [eraseN, confN] at hc
      | some w => simp [eraseN, confN] at hc
      | list ws => simp [eraseN, confN] at hc
theorem conf_projF : ∀ (tfs sfs : PFields) (vs : List Val), subF sfs tfs = true → wfF (eraseF sfs) = true →
    confF (eraseF sfs) vs = true → confF (eraseF tfs) (projF sfs vs tfs) = true
  | .nil, _, _, _, _, _ => by simp [projF, eraseF, confF]
  | .cons nm trp tn tfs, sfs, vs, hs, hw, hc => by
    obtain ⟨srp, sn, hg, hok, hsn, hrest⟩ := subF_cons hs
    obtain ⟨v, hfv, _, hcv, hwn⟩ := fld_shred nm srp sn 0 0 0 (Nat.le_refl _) sfs vs hw hc hg
    have hsk := sameKind_of_sub hsn
    simp only [projF, hfv, hsk, if_true, eraseF, confF, Bool.and_eq_true]
    refine ⟨?_, conf_projF tfs sfs vs hrest hw hc⟩
    cases srp <;> cases trp <;> simp only [rpOk, Bool.false_eq_true] at hok
    · -- required -> required
      simp only [wrap] at hcv ⊢
      exact conf_projN tn sn v hsn hwn hcv
    · -- required -> optional
      simp only [wrap] at hcv ⊢
      simp only [confN]
      exact conf_projN tn sn v hsn hwn hcv
    · -- optional -> optional
      simp only [wrap] at hcv ⊢
      cases v with
      | some w =>
        simp only [confN] at hcv ⊢
        exact conf_projN tn sn w hsn hwn hcv
      | none => simp [confN]
      | prim x => simp [confN] at hcv
      | struct vs' => simp [confN] at hcv
      | list ws => simp [confN] at hcv
    · -- repeated -> repeated
      simp only [wrap] at hcv ⊢
      cases v with
      | list ws =>
        simp only [confN, List.all_eq_true] at hcv
        simp only [confN, List.all_map, List.all_eq_true]
        intro w hw'
        exact conf_projN tn sn w hsn hwn (hcv w hw')
      | prim x => simp [confN] at hcv
      | struct vs' => simp [confN] at hcv
      | none => simp [confN] at hcv
      | some w => simp [confN] at hcv
end

/-- the mirror as it stands on targets that delete, permute and widen: the second fix-up stage
    finds nothing to do on the shredded projection -/
theorem convertRow_shred (src tgt : PNode) (v : Val)
    (hsub : subN src tgt = true) (hwf : wfN (eraseN src) = true) (hconf : confN (eraseN src) v = true) :
    convertRow src tgt (shred src v) = shred tgt (projN src tgt v) := by
  have h : convertRow_before_fix src tgt (shred src v) = shred tgt (projN src tgt v) :=
    main_convN tgt .req lv0 src v 0 none hsub hwf hconf (Nat.le_refl _) rfl rfl
  simp only [convertRow]
  rw [h, zeroAtMax_shred tgt _ (conf_projN tgt src v hsub hwf hconf)]

end PqModel.Convert
