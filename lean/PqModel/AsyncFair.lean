import PqModel.AsyncTrace

/-! Termination of `ReadPage` under fairness.

While the consumer waits in `ReadPage` the only cycle of the transition system is
offer → rendezvous → stale → drop → offer …, taken when the producer's `select` (page.go, the
select after the loop body) chooses `read <-` although the `seek` case is ready as well. Every other
step decreases the potential `phi`; a `drop` raises it by at most 3. Hence a wait that sees `d` drops
lasts at most `10 + 4·d` steps, and an infinite wait drops infinitely often, i.e. the select starves
its ready `seek` case forever. Go's `select` picks uniformly at random among the ready cases, which
excludes that with probability 1 (strong fairness of the select). Weak fairness is NOT enough:
the `seek` case is not continuously enabled (`stale_loop`). -/
namespace PqModel.Async

def isDeliver : Ev → Bool
  | .deliver _ _ => true
  | _ => false

def isDrop : Ev → Bool
  | .drop _ => true
  | _ => false

def drops (es : List Ev) : Nat := (es.filter isDrop).length

/-- producer part of the potential -/
def prank (U : Under) (g : G) : Nat :=
  match g.ppc with
  | .waitInit => 5
  | .poll => 4
  | .top => (if (body U g.loc).2 = none then 1 else 0) + (if g.pver = g.cver then 2 else 5)
  | .send _ => if g.pver = g.cver then 1 else 4
  | _ => 0

/-- consumer part -/
def crank (g : G) : Nat :=
  match g.cpc with
  | .reading => 3
  | _ => 0

def phi (U : Under) (g : G) : Nat := prank U g + crank g

/-- close an arithmetic goal over the if/match terms of `phi` -/
macro "phi_arith" : tactic => `(tactic| (first | omega | (split <;> first | omega | (split <;> first | omega | (split <;> omega)))))

def Waiting (g : G) : Prop := g.cpc = .reading ∨ ∃ it, g.cpc = .got it

theorem prank_top_le {U g} (hp : g.ppc = .top) (hv : g.pver = g.cver) : prank U g ≤ 3 := by
  simp only [prank, hp, hv]; split <;> simp

theorem phi_le {U g} : phi U g ≤ 10 := by
  simp only [phi, prank, crank]
  split <;> split <;> (try split) <;> (try split) <;> omega

/-- every step taken while the consumer waits, other than the delivery, keeps it waiting and
    decreases the potential, except `drop`, which raises it by at most 3 -/
theorem phi_step {U g e g'} (hc : Ctl g) (hw : Waiting g) (h : Step U g e g') (hd : isDeliver e = false) :
    Waiting g' ∧ (if isDrop e then phi U g' ≤ phi U g + 3 else phi U g' + 1 ≤ phi U g) := by
  have nodone : g.doneClosed = true → False := by
    intro hdn
    rcases hc.done_c hdn with h1 | h1 <;> rcases hw with h2 | ⟨it, h2⟩ <;> rw [h1] at h2 <;> cases h2
  cases h
  case readBegin h1 => rcases hw with h2 | ⟨it, h2⟩ <;> rw [h1] at h2 <;> cases h2
  case handoff it h1 h2 =>
    refine ⟨Or.inr ⟨it, rfl⟩, ?_⟩
    simp only [isDrop, phi, prank, crank, h1, h2]
    simp
    phi_arith
  case deliver => simp [isDeliver] at hd
  case drop it h1 h2 =>
    refine ⟨Or.inl rfl, ?_⟩
    simp only [isDrop, phi, prank, crank, h1]
    simp
  case readClosed h1 => rcases hw with h2 | ⟨it, h2⟩ <;> rw [h1] at h2 <;> cases h2
  case seekPollDrain h1 _ => rcases hw with h2 | ⟨it, h2⟩ <;> rw [h1] at h2 <;> cases h2
  case seekPollBump h1 _ => rcases hw with h2 | ⟨it, h2⟩ <;> rw [h1] at h2 <;> cases h2
  case seekSend h1 => rcases hw with h2 | ⟨it, h2⟩ <;> rw [h1] at h2 <;> cases h2
  case seekClosed h1 => rcases hw with h2 | ⟨it, h2⟩ <;> rw [h1] at h2 <;> cases h2
  case closeBegin h1 => rcases hw with h2 | ⟨it, h2⟩ <;> rw [h1] at h2 <;> cases h2
  case closeRecv h1 _ => rcases hw with h2 | ⟨it, h2⟩ <;> rw [h1] at h2 <;> cases h2
  case closeFinal h1 _ => rcases hw with h2 | ⟨it, h2⟩ <;> rw [h1] at h2 <;> cases h2
  case closeEnd h1 _ => rcases hw with h2 | ⟨it, h2⟩ <;> rw [h1] at h2 <;> cases h2
  case closeAgain h1 => rcases hw with h2 | ⟨it, h2⟩ <;> rw [h1] at h2 <;> cases h2
  case initPass h1 h2 =>
    refine ⟨hw, ?_⟩
    simp only [isDrop, phi, prank, crank, h1]
    simp
    phi_arith
  case initDone h1 h2 => exact (nodone h2).elim
  case pollTake k v h1 h2 =>
    refine ⟨hw, ?_⟩
    have hv := (hc.ch k v h2).1
    have := prank_top_le (U := U)
      (g := { g with ppc := .top, seekCh := none, loc := { g.loc with row := some k }, pver := v }) rfl hv
    simp only [isDrop, phi, crank] at this ⊢
    have e : prank U g = 4 := by simp [prank, h1]
    rw [e]; simp; omega
  case pollEmpty h1 h2 =>
    refine ⟨hw, ?_⟩
    have hm : g.cpc ≠ .seekMid := by
      rcases hw with h3 | ⟨it, h3⟩ <;> rw [h3] <;> simp
    have hv := hc.cur h2 hm
    have := prank_top_le (U := U) (g := { g with ppc := .top }) rfl hv
    simp only [isDrop, phi, crank] at this ⊢
    have e : prank U g = 4 := by simp [prank, h1]
    rw [e]; simp; omega
  case bodyCont l h1 h2 =>
    refine ⟨hw, ?_⟩
    obtain ⟨l2, r, h3⟩ := body_none_then_some h2
    simp only [isDrop, phi, prank, crank, h1, h2, h3]
    simp
    phi_arith
  case bodyOffer l r h1 h2 =>
    refine ⟨hw, ?_⟩
    simp only [isDrop, phi, prank, crank, h1, h2]
    simp
    phi_arith
  case selTake it k v h1 h2 =>
    refine ⟨hw, ?_⟩
    obtain ⟨hv, hlt, _⟩ := hc.ch k v h2
    have := prank_top_le (U := U)
      (g := { g with ppc := .top, seekCh := none, loc := { g.loc with row := some k }, pver := v,
                     released := it.id :: g.released }) rfl hv
    simp only [isDrop, phi, crank] at this ⊢
    have e : prank U g = 4 := by
      simp only [prank, h1]; rw [if_neg (by omega)]
    rw [e]; simp; omega
  case selDone it h1 h2 => exact (nodone h2).elim

/-- bounded form: a wait in `ReadPage` that has not been served yet and has seen `d` drops has
    lasted at most `10 + 4·d` steps -/
theorem wait_bounded {U g es g'} (hr : Reachable U g) (hw : Waiting g) (hp : Path U g es g')
    (hnd : ∀ e ∈ es, isDeliver e = false) :
    es.length + phi U g' ≤ phi U g + 4 * drops es ∧ Waiting g' := by
  induction hp with
  | nil => simp [drops, hw]
  | @cons g e g1 es g2 s p ih =>
    have hc := (data_reachable hr).1
    have hd := hnd e (List.mem_cons_self)
    obtain ⟨hw1, hphi⟩ := phi_step hc hw s hd
    have hr1 : Reachable U g1 := by obtain ⟨es0, p0⟩ := hr; exact ⟨_, p0.snoc s⟩
    obtain ⟨i1, i2⟩ := ih hr1 hw1 (fun e he => hnd e (List.mem_cons_of_mem _ he))
    refine ⟨?_, i2⟩
    simp only [drops, List.filter_cons, List.length_cons] at i1 ⊢
    by_cases hdr : isDrop e = true
    · simp only [hdr, if_true, List.length_cons] at hphi ⊢; omega
    · simp only [hdr] at hphi ⊢; simp at hphi ⊢; omega

/-- infinite runs: the steps of a run -/
structure Run (U : Under) where
  st : Nat → G
  ev : Nat → Ev
  step : ∀ n, Step U (st n) (ev n) (st (n + 1))

def Run.prefixEvents {U} (ρ : Run U) : Nat → List Ev
  | 0 => []
  | n + 1 => ρ.prefixEvents n ++ [ρ.ev n]

theorem Run.prefix_path {U} (ρ : Run U) (n : Nat) : Path U (ρ.st 0) (ρ.prefixEvents n) (ρ.st n) := by
  induction n with
  | zero => exact .nil
  | succ n ih => exact ih.snoc (ρ.step n)

theorem Run.prefix_length {U} (ρ : Run U) (n : Nat) : (ρ.prefixEvents n).length = n := by
  induction n with
  | zero => rfl
  | succ n ih => simp [Run.prefixEvents, ih]

theorem Run.prefix_mem {U} (ρ : Run U) (n : Nat) (e : Ev) (h : e ∈ ρ.prefixEvents n) : ∃ m, m < n ∧ ρ.ev m = e := by
  induction n with
  | zero => simp [Run.prefixEvents] at h
  | succ n ih =>
    simp only [Run.prefixEvents, List.mem_append, List.mem_singleton] at h
    rcases h with h | h
    · obtain ⟨m, hm, he⟩ := ih h; exact ⟨m, by omega, he⟩
    · exact ⟨n, by omega, h.symm⟩

theorem Run.prefix_drops {U} (ρ : Run U) (N : Nat) (hN : ∀ n, N ≤ n → isDrop (ρ.ev n) = false) (n : Nat) :
    drops (ρ.prefixEvents n) ≤ N := by
  induction n with
  | zero => simp [Run.prefixEvents, drops]
  | succ n ih =>
    simp only [Run.prefixEvents, drops, List.filter_append, List.length_append] at ih ⊢
    by_cases hn : N ≤ n
    · simp [hN n hn]; exact ih
    · have : (ρ.prefixEvents n).length = n := ρ.prefix_length n
      have hle : (List.filter isDrop (ρ.prefixEvents n)).length ≤ n := by
        have := List.length_filter_le isDrop (ρ.prefixEvents n); omega
      have h1 : (List.filter isDrop [ρ.ev n]).length ≤ 1 := by
        have := List.length_filter_le isDrop [ρ.ev n]; simpa using this
      omega

/-- the stale loop: with a seek waiting in the channel, a consumer waiting in ReadPage and a producer
    that keeps choosing `read <-`, the wait can last arbitrarily long although the `seek` case of
    the select is ready every time the select is reached; between two selects it is not enabled
    (`selTake` needs `ppc = send`), so weak fairness does not force it -/
theorem stale_loop {U} (n : Nat) : ∀ g k v, g.cpc = .reading → g.ppc = .top → g.seekCh = some (k, v) →
    g.pver ≠ g.cver → g.loc.row = none →
    ∃ es g', Path U g es g' ∧ es.length = 3 * n ∧ (∀ e ∈ es, isDeliver e = false) ∧ drops es = n ∧
      g'.cpc = .reading ∧ g'.ppc = .top ∧ g'.seekCh = some (k, v) := by
  induction n with
  | zero => intro g k v h1 h2 h3 _ _; exact ⟨[], g, .nil, rfl, by simp, rfl, h1, h2, h3⟩
  | succ n ih =>
    intro g k v h1 h2 h3 h4 h5
    -- one round: offer, rendezvous, drop
    have hb : ∃ l r, body U g.loc = (l, some r) ∧ l.row = none := by
      unfold body
      rcases hf : g.loc.ferr with _ | e
      · simp only [h5]
        rcases U.rd g.loc.pos with _ | _ | c <;> simp [h5]
      · exact ⟨_, _, rfl, h5⟩
    obtain ⟨l, r, hb, hl⟩ := hb
    have s1 := Step.bodyOffer (U := U) h2 hb
    have s2 := Step.handoff (U := U)
      (g := { g with loc := l, ppc := .send ⟨r, g.pver, g.nprod⟩, nprod := g.nprod + 1 })
      (it := ⟨r, g.pver, g.nprod⟩) h1 rfl
    have s3 := Step.drop (U := U)
      (g := { g with loc := l, ppc := .top, nprod := g.nprod + 1, cpc := .got ⟨r, g.pver, g.nprod⟩ })
      (it := ⟨r, g.pver, g.nprod⟩) rfl h4
    obtain ⟨es, g', p, hlen, hnd, hdr, c1, c2, c3⟩ :=
      ih { g with loc := l, ppc := .top, nprod := g.nprod + 1, cpc := .reading, released := g.nprod :: g.released }
        k v rfl rfl h3 h4 hl
    refine ⟨.bodyOffer r g.pver :: .handoff :: .drop g.pver :: es, g', .cons s1 (.cons s2 (.cons s3 p)),
      by simp [hlen]; omega, ?_, ?_, c1, c2, c3⟩
    · intro e he
      simp only [List.mem_cons] at he
      rcases he with rfl | rfl | rfl | he
      · rfl
      · rfl
      · rfl
      · exact hnd e he
    · simp only [drops, List.filter_cons, isDrop] at hdr ⊢
      simp; omega

end PqModel.Async
