import PqModel.DictReset
import PqModel.HashProbeFirstSeen

/-! # The probe-table dictionaries stated OVER the hashprobe table mirror (C04, round 6, "dictreplumb")

`DictReset.lean` mirrors the Insert/Reset state machine of the seven probe-table dictionary types
(int32/int64/float/double/uint32/uint64/be128) with the table as a LIST ORACLE (`ProbeDict.table : Option
(List α)`, probed with `Plain.insertAll`). `HashProbe.lean` mirrors the real open-addressing tables. This file
states the same Go code (`dictionary_int32.go:42-109`, same code in `dictionary_{int64,float,double,uint32,
uint64}.go`, `dictionary_be128.go:40-128`) over the TABLE MIRROR: `d.table` is a `HashProbe.Table`, `init`
is `NewXxxTable` + the `Probe` loop over the page, `insert` is the chunk loop over `ProbeArray`, `Reset` is
`table.Reset()`.

Reading of the code:
* `Cfg` collects what differs between the types: the group size `G` (7 / 4 / 1), the clamp of the requested
  capacity in `makeTableNN` (`if cap < 7` / `4` / `8`, hashprobe.go:183, :428, :622), the sizing oracle `sz`
  (`tableSizeAndMaxLen`), and the stream of seeds `randSeed()` returns: `seeds k` is the hash function keyed by
  the k-th seed drawn, an ARBITRARY function. `tick` counts the seeds drawn so far: `NewXxxTable` draws one,
  every `Probe`/`ProbeArray` call is given the one its `grow` would draw (as in `HashProbe.session`).
* `ProbeArray` returns `t.len - baseLength` (hashprobe.go:289); the mirror reads it off the two tables.
* `Insert(indexes, values)`: `indexes` has the length of the batch (what `init` sees as `len(indexes)`).
* the `init` loop `for i := 0; i < len(values); i += n` (dictionary_int32.go:46-51) is mirrored AS IT IS with
  fuel = `len(values)`: for `n ≥ 1` every round consumes a value; for `n = 0` (an EMPTY batch inserted first
  into a dictionary created over a NON-EMPTY page) `i` never moves and the real loop never ends
  (`initLoop_zero_hangs`: `none` for every fuel). -/
namespace PqModel.DictTable
open PqModel.Plain PqModel.DictReset PqModel.HashProbe

variable {α : Type} [DecidableEq α]

/-- what distinguishes the probe-table dictionary types, and the seeds the run will draw -/
structure Cfg (α : Type) where
  /-- group size of the table: 7 (table32), 4 (table64), 1 (table128) -/
  G : Nat
  /-- `if cap < minCap { cap = minCap }` of `makeTableNN`: 7, 4, 8 -/
  minCap : Nat
  /-- `tableSizeAndMaxLen(groupSize, cap, maxLoad)`: number of groups, maxLen -/
  sz : Nat → Nat × Nat
  /-- the hash function keyed by the k-th seed `randSeed()` returns -/
  seeds : Nat → α → Nat

/-- the page `values`, the table pointer (`none` = nil) and the number of seeds drawn so far -/
structure TableDict (α : Type) where
  values : List α
  table : Option (Table α)
  tick : Nat

/-- `newInt32Dictionary` (dictionary_int32.go:18-28): the page as read, `table == nil` -/
def tableNew (page : List α) (tick : Nat) : TableDict α := { values := page, table := none, tick := tick }

/-- MIRROR of `for i := 0; i < len(values); i += n { j := min(i+n, len(values));
    d.table.Probe(values[i:j:j], indexes[:n:n]) }` (dictionary_int32.go:48-51); `rest` is `values[i:]`.
    `none` = the loop has not ended within `fuel` rounds -/
def initLoop (c : Cfg α) (n : Nat) : Nat → Table α → Nat → List α → Option (Table α × Nat)
  | _, t, k, [] => some (t, k)
  | 0, _, _, _ :: _ => none
  | fuel + 1, t, k, x :: xs =>
    match probeArray c.G c.sz (c.seeds k) t ((x :: xs).take n) with
    | none => none
    | some (t1, _) => initLoop c n fuel t1 (k + 1) ((x :: xs).drop n)

/-- MIRROR of `int32Dictionary.init(indexes)` (dictionary_int32.go:42-52; be128: dictionary_be128.go:76-85):
    `hashprobe.NewInt32Table(len(values), maxLoad)` (capacity clamped by `makeTable32`), `n := min(len(values),
    len(indexes))`, then the loop -/
def tableInit (c : Cfg α) (values : List α) (tick numIndexes : Nat) : Option (Table α × Nat) :=
  initLoop c (min values.length numIndexes) values.length
    (mkTable c.sz (c.seeds tick) (max values.length c.minCap)) (tick + 1) values

/-- MIRROR of the chunk loop of `int32Dictionary.insert` (dictionary_int32.go:76-86; be128:
    dictionary_be128.go:58-73, :96-106): `if d.table.ProbeArray(chunk, indexes[i:j:j]) > 0 { append loop }`,
    over the REAL table -/
def tableChunks (c : Cfg α) (values : List α) (t : Table α) (k : Nat) :
    List (List α) → Option ((List α × Table α × Nat) × List Nat)
  | [] => some ((values, t, k), [])
  | ch :: cs =>
    match probeArray c.G c.sz (c.seeds k) t ch with
    | none => none
    | some (t1, idx) =>
      let v := if t1.len - t.len > 0 then appendLoop values ch idx else values
      match tableChunks c v t1 (k + 1) cs with
      | none => none
      | some (r, idxs) => some (r, idx ++ idxs)

/-- `if d.table == nil { d.init(indexes) }` (dictionary_int32.go:70-72) -/
def tableEnsure (c : Cfg α) (g : TableDict α) (numIndexes : Nat) : Option (Table α × Nat) :=
  match g.table with
  | some t => some (t, g.tick)
  | none => tableInit c g.values g.tick numIndexes

/-- MIRROR of `int32Dictionary.insert` (dictionary_int32.go:55-87) over the table mirror -/
def tableInsert (c : Cfg α) (g : TableDict α) (chunks : List (List α)) : Option (TableDict α × List Nat) :=
  match tableEnsure c g chunks.flatten.length with
  | none => none
  | some (t, k) =>
    match tableChunks c g.values t k chunks with
    | none => none
    | some ((v, t', k'), idx) => some ({ values := v, table := some t', tick := k' }, idx)

/-- MIRROR of `int32Dictionary.Reset` (dictionary_int32.go:104-109): `d.values.Reset(); if d.table != nil {
    d.table.Reset() }` with `table32.reset` (hashprobe.go:241-247) -/
def tableReset (g : TableDict α) : TableDict α := { g with values := [], table := g.table.map reset }

/-- a `Reset` that forgets `d.table.Reset()` (for the necessity theorem on the composed mirror) -/
def tableResetKeepingTable (g : TableDict α) : TableDict α := { g with values := [] }

/-- the session with that `Reset` -/
def tableRunKeepingTable (c : Cfg α) : TableDict α → List (Op α) → Option (TableDict α × List (List Nat))
  | g, [] => some (g, [])
  | g, .reset :: ops => (tableRunKeepingTable c (tableResetKeepingTable g) ops).map fun r => (r.1, [] :: r.2)
  | g, .insert cs :: ops =>
    match tableInsert c g cs with
    | none => none
    | some (g1, out) => (tableRunKeepingTable c g1 ops).map fun r => (r.1, out :: r.2)

def tableStep (c : Cfg α) (g : TableDict α) : Op α → Option (TableDict α × List Nat)
  | .insert cs => tableInsert c g cs
  | .reset => some (tableReset g, [])

/-- a session of `Insert` / `Reset` calls on the composed mirror (dictionary type → table → groups); `none` =
    some call never returns -/
def tableRun (c : Cfg α) : TableDict α → List (Op α) → Option (TableDict α × List (List Nat))
  | g, [] => some (g, [])
  | g, op :: ops =>
    match tableStep c g op with
    | none => none
    | some (g1, out) =>
      match tableRun c g1 ops with
      | none => none
      | some (g2, outs) => some (g2, out :: outs)

/-! ## the representation relation to the list-oracle machine -/

/-- the table-level state `s` represents the list-oracle state `g` of `DictReset.lean`: same page, and the
    real table represents the numbering of the oracle's key list -/
def Rep (c : Cfg α) (s : TableDict α) (g : ProbeDict α) : Prop :=
  s.values = g.values ∧
  match s.table, g.table with
  | none, none => True
  | some t, some d => TInv c.G t (numbering d)
  | _, _ => False

/-- the first call of the session is not an `Insert` of an empty batch -/
def firstOk : List (Op α) → Prop
  | .insert cs :: _ => cs.flatten ≠ []
  | _ => True

omit [DecidableEq α] in
theorem numbering_length (d : List α) : (numbering d).length = d.length := by simp [numbering]

/-- the `n = 0` loop of `init` over a non-empty page never ends, whatever the fuel -/
theorem initLoop_zero_hangs (c : Cfg α) : ∀ (fuel : Nat) (t : Table α) (k : Nat) (x : α) (xs : List α),
    initLoop c 0 fuel t k (x :: xs) = none
  | 0, _, _, _, _ => rfl
  | fuel + 1, t, k, x, xs => by
    simp only [initLoop, List.take_zero, List.drop_zero]
    cases probeArray c.G c.sz (c.seeds k) t [] with
    | none => rfl
    | some r => exact initLoop_zero_hangs c fuel r.1 (k + 1) x xs

/-- for `n ≥ 1` the `init` loop ends and the table represents the first occurrences of the page -/
theorem initLoop_refines (c : Cfg α) (hsz : SizingOk c.G c.sz) (n : Nat) (hn : 1 ≤ n) :
    ∀ (fuel : Nat) (t : Table α) (k : Nat) (rest d : List α), TInv c.G t (numbering d) → rest.length ≤ fuel →
      ∃ t' k', initLoop c n fuel t k rest = some (t', k') ∧ TInv c.G t' (numbering (insertAll d rest).1)
  | fuel, t, k, [], d, ti, _ => ⟨t, k, by cases fuel <;> rfl, ti⟩
  | 0, _, _, _ :: _, _, _, hl => by simp at hl
  | fuel + 1, t, k, x :: xs, d, ti, hl => by
    obtain ⟨t1, e1, ti1⟩ := probeArray_refines hsz (c.seeds k) ti ((x :: xs).take n)
    rw [specProbe_numbering] at e1 ti1
    have hd : ((x :: xs).drop n).length ≤ fuel := by
      simp only [List.length_drop, List.length_cons] at hl ⊢; omega
    obtain ⟨t', k', e2, ti2⟩ := initLoop_refines c hsz n hn fuel t1 (k + 1) ((x :: xs).drop n) _ ti1 hd
    refine ⟨t', k', by simp only [initLoop, e1, e2], ?_⟩
    have := insertAll_append ((x :: xs).take n) ((x :: xs).drop n) d
    rw [List.take_append_drop] at this
    rw [this]; exact ti2

/-- the chunk loop over the real table is the chunk loop over the oracle -/
theorem tableChunks_refines (c : Cfg α) (hsz : SizingOk c.G c.sz) :
    ∀ (cs : List (List α)) (values : List α) (t : Table α) (k : Nat) (d : List α), TInv c.G t (numbering d) →
      ∃ t' k', tableChunks c values t k cs
          = some (((probeChunks values d cs).1.1, t', k'), (probeChunks values d cs).2)
        ∧ TInv c.G t' (numbering (probeChunks values d cs).1.2)
  | [], values, t, k, d, ti => ⟨t, k, rfl, ti⟩
  | ch :: cs, values, t, k, d, ti => by
    obtain ⟨t1, e1, ti1⟩ := probeArray_refines hsz (c.seeds k) ti ch
    rw [specProbe_numbering] at e1 ti1
    have hcnt : (t1.len - t.len > 0) ↔ d.length < (insertAll d ch).1.length := by
      rw [ti1.len, ti.len, numbering_length, numbering_length]; omega
    have hv : (if t1.len - t.len > 0 then appendLoop values ch (insertAll d ch).2 else values)
        = (if d.length < (insertAll d ch).1.length then appendLoop values ch (insertAll d ch).2 else values) := by
      by_cases h : d.length < (insertAll d ch).1.length
      · rw [if_pos h, if_pos (hcnt.mpr h)]
      · rw [if_neg h, if_neg (fun h' => h (hcnt.mp h'))]
    obtain ⟨t', k', e2, ti2⟩ := tableChunks_refines c hsz cs
      (if d.length < (insertAll d ch).1.length then appendLoop values ch (insertAll d ch).2 else values)
      t1 (k + 1) _ ti1
    refine ⟨t', k', ?_, ?_⟩
    · simp only [tableChunks, e1, hv, e2, probeChunks]
    · simpa only [probeChunks] using ti2

/-- `if d.table == nil { d.init(indexes) }` yields a table representing `probeTable` of the oracle state,
    unless it is the hanging case -/
theorem tableEnsure_refines (c : Cfg α) (hsz : SizingOk c.G c.sz) (s : TableDict α) (g : ProbeDict α)
    (hr : Rep c s g) (numIndexes : Nat) (hok : s.table = none → s.values ≠ [] → numIndexes ≠ 0) :
    ∃ t k, tableEnsure c s numIndexes = some (t, k) ∧ TInv c.G t (numbering (probeTable g)) := by
  obtain ⟨hv, ht⟩ := hr
  cases hs : s.table with
  | some t =>
    cases hg : g.table with
    | none => simp [hs, hg] at ht
    | some d =>
      simp only [hs, hg] at ht
      exact ⟨t, s.tick, by simp [tableEnsure, hs], by simpa [probeTable, hg] using ht⟩
  | none =>
    cases hg : g.table with
    | some d => simp [hs, hg] at ht
    | none =>
      have ti0 := mkTable_inv (G := c.G) hsz (c.seeds s.tick) (max s.values.length c.minCap)
      by_cases hne : s.values = []
      · refine ⟨_, _, by simp only [tableEnsure, hs, tableInit, hne, initLoop]; rfl, ?_⟩
        simpa [probeTable, hg, ← hv, hne, insertAll, numbering] using ti0
      · have hn : 1 ≤ min s.values.length numIndexes := by
          have := hok hs hne
          have : s.values.length ≠ 0 := fun h => hne (List.eq_nil_of_length_eq_zero h)
          omega
        obtain ⟨t', k', e, ti⟩ := initLoop_refines c hsz _ hn s.values.length _ (s.tick + 1) s.values []
          (by simpa [numbering] using ti0) (Nat.le_refl _)
        exact ⟨t', k', by simp only [tableEnsure, hs, tableInit, e], by simpa [probeTable, hg, ← hv] using ti⟩

/-- one `Insert` on the composed mirror = one `Insert` on the list-oracle machine -/
theorem tableInsert_refines (c : Cfg α) (hsz : SizingOk c.G c.sz) (s : TableDict α) (g : ProbeDict α)
    (hr : Rep c s g) (cs : List (List α)) (hok : s.table = none → s.values ≠ [] → cs.flatten ≠ []) :
    ∃ s', tableInsert c s cs = some (s', (probeInsert g cs).2) ∧ Rep c s' (probeInsert g cs).1
      ∧ s'.table ≠ none := by
  obtain ⟨t, k, e1, ti⟩ := tableEnsure_refines c hsz s g hr cs.flatten.length
    (fun h1 h2 h3 => hok h1 h2 (List.eq_nil_of_length_eq_zero h3))
  obtain ⟨t', k', e2, ti2⟩ := tableChunks_refines c hsz cs s.values t k _ ti
  rw [hr.1] at e2 ti2
  refine ⟨{ values := (probeChunks g.values (probeTable g) cs).1.1, table := some t', tick := k' }, ?_, ?_,
    by simp⟩
  · simp only [tableInsert, e1, hr.1, e2, probeInsert]
  · exact ⟨rfl, by simpa [probeInsert] using ti2⟩

theorem tableReset_refines (c : Cfg α) (s : TableDict α) (g : ProbeDict α) (hr : Rep c s g) :
    Rep c (tableReset s) (probeReset g) := by
  obtain ⟨_, ht⟩ := hr
  refine ⟨rfl, ?_⟩
  cases hs : s.table with
  | none =>
    cases hg : g.table with
    | none => simp [tableReset, probeReset, hs, hg]
    | some d => simp [hs, hg] at ht
  | some t =>
    cases hg : g.table with
    | none => simp [hs, hg] at ht
    | some d =>
      simp only [hs, hg] at ht
      simpa [tableReset, probeReset, hs, hg, numbering] using reset_inv ht

/-- every session on the composed mirror is the session on the list-oracle machine, call by call -/
theorem tableRun_refines (c : Cfg α) (hsz : SizingOk c.G c.sz) :
    ∀ (ops : List (Op α)) (s : TableDict α) (g : ProbeDict α), Rep c s g →
      (s.table = none → s.values ≠ [] → firstOk ops) →
      ∃ s', tableRun c s ops = some (s', (probeMachine.run g ops).2) ∧ Rep c s' (probeMachine.run g ops).1
  | [], s, g, hr, _ => ⟨s, rfl, hr⟩
  | .reset :: ops, s, g, hr, _ => by
    obtain ⟨s', e, hr'⟩ := tableRun_refines c hsz ops (tableReset s) (probeReset g)
      (tableReset_refines c s g hr) (fun _ h => absurd rfl h)
    exact ⟨s', by simp only [tableRun, tableStep, e]; rfl, hr'⟩
  | .insert cs :: ops, s, g, hr, hok => by
    obtain ⟨s1, e1, hr1, hne⟩ := tableInsert_refines c hsz s g hr cs hok
    obtain ⟨s', e, hr'⟩ := tableRun_refines c hsz ops s1 (probeInsert g cs).1 hr1 (fun h => absurd h hne)
    exact ⟨s', by simp only [tableRun, tableStep, e1, e]; rfl, hr'⟩

/-- the hanging call: `Insert` of an empty batch as the first call on a dictionary created over a non-empty
    page (`table == nil`, `n = min(len(values), 0) = 0`) -/
theorem tableInsert_empty_hangs (c : Cfg α) (x : α) (xs : List α) (tick : Nat) (cs : List (List α))
    (he : cs.flatten = []) : tableInsert c (tableNew (x :: xs) tick) cs = none := by
  simp only [tableInsert, tableEnsure, tableNew, tableInit, he, List.length_nil, Nat.min_zero,
    initLoop_zero_hangs]

omit [DecidableEq α] in
theorem firstOk_append (pre post : List (Op α)) (h : firstOk pre) : firstOk (pre ++ .reset :: post) := by
  cases pre with
  | nil => trivial
  | cons op pre => cases op <;> exact h

/-- a small configuration in the theorems' domain (for the non-vacuity examples): groups of two entries, capacity clamp 2, a sizing of the required
    shape (growth threshold = the whole room), colliding hash functions that change with every seed -/
def cfg1 : Cfg Nat :=
  { G := 2, minCap := 2, sz := fun n => (2 ^ (n / 2), 2 * 2 ^ (n / 2)), seeds := fun k x => (x + k) % 3 }

theorem cfg1_ok : SizingOk cfg1.G cfg1.sz := by
  intro n
  refine ⟨⟨n / 2, rfl⟩, ?_, Nat.le_refl _⟩
  have := Nat.lt_two_pow_self (n := n / 2)
  show n ≤ 2 * 2 ^ (n / 2)
  omega

end PqModel.DictTable
