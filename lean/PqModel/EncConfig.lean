/-! # Modular encryption: how the encryption setting travels through the option plumbing

MIRROR of what `config.go` and `encrypt.go` do to ONE field of a configuration under construction —
`WriterConfig.Encryption` (and, with the same code shape, `FileConfig.Decryption`) — when a list of
options is applied to it:

* `WithEncryption(cfg)` / `WithDecryption(keys)`  — encrypt.go:113,123: the field is ASSIGNED
  (`c.Encryption = o.cfg`; `cfg` may be nil, which switches encryption off again);
* a `*WriterConfig` / `*FileConfig` value used as an option — config.go:285-326 / 144-155: the
  whole target is rebuilt, the field becomes `cmp.Or(c.Encryption, config.Encryption)`: the struct's
  own value when it has one, the value under construction otherwise;
* every other option leaves the field alone;
* `NewWriterConfig(opts...)` / `NewFileConfig(opts...)` — config.go:271-275 / 130-134: the options are
  applied in order to the default configuration, whose field is nil; `NewGenericWriter`, `NewWriter`,
  `NewSortingWriter`, `Write`, `OpenFile` all start there, and `Write`/`NewSortingWriter` hand the
  RESULT on as the single option of an inner constructor (parquet.go:71-75, sorting.go:45-70).

An encryption configuration is a pointer in the code; here it is a number (its identity).

SPEC (`decides`): the LAST option that says anything about encryption decides; an option struct
whose field is nil says nothing. The property quantifies over configurations: however a caller
spells "encrypt with cfg", the writer must end up holding cfg. -/
namespace PqModel.EncConfig

inductive Opt where
  /-- `WithEncryption(cfg)`; `none` = a nil configuration -/
  | withEnc (c : Option Nat)
  /-- a `*WriterConfig` used as an option, with the value of its `Encryption` field -/
  | config (enc : Option Nat)
  /-- any other option -/
  | other
deriving DecidableEq, Repr

/-- MIRROR `opt.ConfigureWriter(config)` restricted to the field (encrypt.go:123, config.go:324) -/
def apply (cur : Option Nat) : Opt → Option Nat
  | .withEnc c => c
  | .config (some e) => some e      -- cmp.Or(c.Encryption, config.Encryption), first operand non-nil
  | .config none => cur             -- … first operand nil
  | .other => cur

/-- MIRROR `(*WriterConfig).Apply` (config.go:278-282) -/
def applyAll (cur : Option Nat) (opts : List Opt) : Option Nat := opts.foldl apply cur

/-- MIRROR `NewWriterConfig(opts...)` (config.go:271-275): `DefaultWriterConfig()` has a nil field -/
def run (opts : List Opt) : Option Nat := applyAll none opts

/-- NOT the code: the struct merge without `cmp.Or` (`Encryption: c.Encryption`), as
    `FileConfig.ConfigureFile` writes its boolean fields -/
def applyNoOr (cur : Option Nat) : Opt → Option Nat
  | .withEnc c => c
  | .config e => e
  | .other => cur

/-- SPEC: what an option says about encryption: `some (some c)` = encrypt with c, `some none` =
    do not encrypt, `none` = nothing -/
def says : Opt → Option (Option Nat)
  | .withEnc c => some c
  | .config (some e) => some (some e)
  | .config none => none
  | .other => none

/-- a statement replaces what was decided so far, silence keeps it -/
def orKeep (s : Option (Option Nat)) (cur : Option Nat) : Option Nat :=
  match s with
  | some v => v
  | none => cur

/-- SPEC: the last option that says anything decides; nobody said anything = no encryption -/
def decidesFrom (cur : Option Nat) : List Opt → Option Nat
  | [] => cur
  | o :: rest => decidesFrom (orKeep (says o) cur) rest

def decides (opts : List Opt) : Option Nat := decidesFrom none opts

/-- the option asks for encryption -/
def Opt.requests : Opt → Option Nat
  | .withEnc (some c) => some c
  | .config (some e) => some e
  | _ => none

/-- the option switches encryption off: only an explicit `WithEncryption(nil)` does -/
def Opt.revokes : Opt → Bool
  | .withEnc none => true
  | _ => false

/-! ## Nested constructions: option lists with `NewWriterConfig( … )` groups

A token list `… [ … ] …` stands for `…, NewWriterConfig(…), …` (the group's RESULT is one struct
option of the enclosing list). Evaluated with an explicit stack, so that the function is a fold. -/

inductive Tok where
  | opt (o : Opt)
  | openG    -- `NewWriterConfig(` : a new configuration under construction, starting at the default
  | closeG   -- `)` : the finished configuration becomes a struct option of the enclosing list
deriving DecidableEq, Repr

/-- one token; the stack holds the field of every configuration under construction, innermost first;
    `none` = unbalanced -/
def stepTok (st : Option (List (Option Nat))) (t : Tok) : Option (List (Option Nat)) :=
  match st, t with
  | none, _ => none
  | some [], _ => none
  | some (cur :: up), .opt o => some (apply cur o :: up)
  | some st, .openG => some (none :: st)
  | some [_], .closeG => none
  | some (cur :: outer :: up), .closeG => some (apply outer (.config cur) :: up)

/-- the field of the outermost configuration after all tokens (`none` = unbalanced brackets) -/
def runToks (toks : List Tok) : Option (Option Nat) :=
  match toks.foldl stepTok (some [none]) with
  | some [v] => some v
  | _ => none

end PqModel.EncConfig
