import PqModel.IoFault

/-! MIRROR of the structure walk of the library's Thrift COMPACT protocol DECODER over a byte slice:
    `encoding/thrift/compact.go` `compactBytesReader` (the reader `OpenFile` decodes the footer with,
    file.go:171-174 `f.protocol.NewReaderFromBytes`) and `encoding/thrift/decode.go` `skip`,
    `skipBinary`, `skipList/Set/Map`, `skipItem`, `skip{List,Set,Map}Items`, `skipStruct`
    (decode.go:634-812). The walk keeps only what decides acceptance: the read offset and the error
    class; field ids and values are read (with their range checks) and dropped, as `skip` does.

    The typed decoder (`structDecoder.decode`, decode.go:405-520) runs the same reader primitives in
    the same order for the fields it knows and `skip` for the others; it is NOT mirrored here (its
    extra rejections - missing required field, strict type mismatch - are outside this model; the
    harness checks on every sampled input that it accepts only what the walk accepts, with the same
    byte count).

    Everything is positional: a parser takes the whole input and an offset and answers the new offset,
    so that the run on a cut input `d.take m` can be compared with the run on `d` (`Rel`). -/
namespace PqModel.ThriftSkip
open PqModel.IoFault (Bytes)

/-- error classes of the walk. `fuel` is a model artefact (the Go code recurses without a bound). -/
inductive SkErr where
  | eof        -- io.EOF
  | ueof       -- io.ErrUnexpectedEOF
  | overflow   -- "… varint overflow"
  | range      -- "… varint out of range"
  | badType    -- "skipping unsupported thrift type"
  | fuel
  deriving DecidableEq, Repr

abbrev PR (α : Type) := Except SkErr (α × Nat)

/-- MIRROR error.go:100-110 `dontExpectEOF` -/
def dontExpectEOF : SkErr → SkErr
  | .eof => .ueof
  | e => e

/-- sequencing with the error mapping the Go call site applies to the first result -/
def seq {α β} (r : PR α) (fe : SkErr → SkErr) (k : α → Nat → PR β) : PR β :=
  match r with
  | .error e => .error (fe e)
  | .ok (a, p) => k a p

/-! ## reader primitives (`compactBytesReader`) -/

/-- MIRROR compact.go:552-559 `ReadByte` -/
def readByte (d : Bytes) (pos : Nat) : PR UInt8 :=
  match d[pos]? with
  | some b => .ok (b, pos + 1)
  | none => .error .eof

inductive UvRes where
  | val (x n : Nat)   -- value and number of bytes read
  | short             -- (0, 0): the buffer ended inside the varint
  | over              -- n < 0: more than 64 bits
  deriving DecidableEq, Repr

/-- MIRROR `encoding/binary.Uvarint` (go1.24 varint.go:69-85): `for i, b := range buf`; the first
    argument counts the rounds left before `i == MaxVarintLen64`, where the loop needs one more byte
    to exist to report the overflow (a buffer that ends there is "short"). -/
def uvLoop (d : Bytes) : Nat → Nat → Nat → Nat → Nat → UvRes
  | 0, pos, _, _, _ =>
    match d[pos]? with
    | none => .short
    | some _ => .over
  | k + 1, pos, i, x, s =>
    match d[pos]? with
    | none => .short
    | some b =>
      if b.toNat < 128 then
        if i == 9 && b.toNat > 1 then .over else .val (x ||| (b.toNat <<< s)) (i + 1)
      else uvLoop d k (pos + 1) (i + 1) (x ||| ((b.toNat &&& 127) <<< s)) (s + 7)

def goUvarint (d : Bytes) (pos : Nat) : UvRes := uvLoop d 10 pos 0 0 0

/-- MIRROR compact.go:565-578 `readUvarint(typ, max)` -/
def readUvarint (max : Nat) (d : Bytes) (pos : Nat) : PR Nat :=
  match goUvarint d pos with
  | .short => .error .ueof
  | .over => .error .overflow
  | .val u n => if u > max then .error .range else .ok (u, pos + n)

/-- `binary.Varint`: `x := int64(ux >> 1); if ux&1 != 0 { x = ^x }` -/
def unzig (ux : Nat) : Int := if ux % 2 = 0 then ((ux / 2 : Nat) : Int) else -((ux / 2 : Nat) : Int) - 1

/-- MIRROR compact.go:580-593 `readVarint(typ, min, max)` -/
def readVarint (lo hi : Int) (d : Bytes) (pos : Nat) : PR Int :=
  match goUvarint d pos with
  | .short => .error .ueof
  | .over => .error .overflow
  | .val ux n => if unzig ux < lo || unzig ux > hi then .error .range else .ok (unzig ux, pos + n)

def maxInt32 : Nat := 2147483647

/-- MIRROR compact.go:411-423 `ReadInt16/32/64` -/
def readInt16 := readVarint (-32768) 32767
def readInt32 := readVarint (-2147483648) 2147483647
def readInt64 := readVarint (-9223372036854775808) 9223372036854775807

/-- MIRROR compact.go:425-432 `ReadFloat64`: 8 raw bytes -/
def readFloat (d : Bytes) (pos : Nat) : PR Unit :=
  if pos + 8 > d.length then .error .ueof else .ok ((), pos + 8)

/-- MIRROR compact.go:391-398 `Discard` -/
def discard (n : Nat) (d : Bytes) (pos : Nat) : PR Unit :=
  if d.length - pos < n then .error .ueof else .ok ((), pos + n)

/-- MIRROR decode.go:680-690 `skipBinary` over `ReadLength` (compact.go:460-463) -/
def skipBinary (d : Bytes) (pos : Nat) : PR Unit :=
  seq (readUvarint maxInt32 d pos) id fun n p =>
    if n == 0 then .ok ((), p) else seq (discard n d p) dontExpectEOF fun _ q => .ok ((), q)

/-- MIRROR compact.go:492-515 `ReadField` followed by the `f.Type == STOP` test of the caller:
    `none` = STOP (a zero byte, or a delta header whose low nibble is 0), `some ty` otherwise. The
    field id is read and range-checked, then dropped. -/
def readField (d : Bytes) (pos : Nat) : PR (Option Nat) :=
  seq (readByte d pos) id fun b p =>
    if b == 0 then .ok (none, p)
    else if b.toNat / 16 != 0 then
      .ok ((if b.toNat % 16 == 0 then none else some (b.toNat % 16)), p)
    else seq (readInt16 d p) dontExpectEOF fun _ q => .ok (some b.toNat, q)

/-- MIRROR compact.go:517-530 `ReadList` (and `ReadSet`): (element type, size) -/
def readList (d : Bytes) (pos : Nat) : PR (Nat × Nat) :=
  seq (readByte d pos) id fun b p =>
    if b.toNat / 16 != 15 then .ok ((b.toNat % 16, b.toNat / 16), p)
    else seq (readUvarint maxInt32 d p) dontExpectEOF fun n q => .ok ((b.toNat % 16, n), q)

/-- MIRROR compact.go:537-550 `ReadMap`: `none` = empty map, else (key type, value type, size) -/
def readMap (d : Bytes) (pos : Nat) : PR (Option (Nat × Nat × Nat)) :=
  seq (readUvarint maxInt32 d pos) id fun n p =>
    if n == 0 then .ok (none, p)
    else seq (readByte d p) dontExpectEOF fun b q => .ok (some (b.toNat / 16, b.toNat % 16, n), q)

/-! ## the walk -/

/-- what is left to skip: the Go functions of decode.go, one constructor each -/
inductive Task where
  | val (ty : Nat)             -- `skip(r, t)` (the compact protocol coalesces bool fields)
  | item (ty : Nat)            -- `skipItem(r, t)`
  | items (ty n : Nat)         -- `skipListItems` / `skipSetItems` with `n` items to go
  | pairs (kt vt n : Nat)      -- `skipMapItems` with `n` entries to go
  | fields (first : Bool)      -- the loop of `skipStruct`; `first` = (`numFields == 0`)

/-- MIRROR decode.go:634-812. Every call spends one unit of fuel. -/
def skipT (d : Bytes) : Nat → Task → Nat → PR Unit
  | 0, _, _ => .error .fuel
  | f + 1, .val ty, pos =>
    match ty with
    | 1 => .ok ((), pos)
    | 2 => .ok ((), pos)
    | 3 => seq (readByte d pos) id fun _ p => .ok ((), p)
    | 4 => seq (readInt16 d pos) id fun _ p => .ok ((), p)
    | 5 => seq (readInt32 d pos) id fun _ p => .ok ((), p)
    | 6 => seq (readInt64 d pos) id fun _ p => .ok ((), p)
    | 7 => readFloat d pos
    | 8 => skipBinary d pos
    | 9 => seq (readList d pos) id fun l p => skipT d f (.items l.1 l.2) p
    | 10 => seq (readList d pos) id fun l p => skipT d f (.items l.1 l.2) p
    | 11 => seq (readMap d pos) id fun m p =>
        match m with
        | none => .ok ((), p)
        | some (kt, vt, n) => skipT d f (.pairs kt vt n) p
    | 12 => skipT d f (.fields true) pos
    | 13 => seq (readFloat d pos) id fun _ p => readFloat d p
    | _ => .error .badType
  | f + 1, .item ty, pos =>
    if ty == 1 || ty == 2 then seq (readByte d pos) id fun _ p => .ok ((), p)
    else skipT d f (.val ty) pos
  | _ + 1, .items _ 0, pos => .ok ((), pos)
  | f + 1, .items ty (n + 1), pos =>
    seq (skipT d f (.item ty) pos) dontExpectEOF fun _ p => skipT d f (.items ty n) p
  | _ + 1, .pairs _ _ 0, pos => .ok ((), pos)
  | f + 1, .pairs kt vt (n + 1), pos =>
    seq (skipT d f (.item kt) pos) dontExpectEOF fun _ p =>
      seq (skipT d f (.item vt) p) dontExpectEOF fun _ q => skipT d f (.pairs kt vt n) q
  | f + 1, .fields first, pos =>
    seq (readField d pos) (if first then id else dontExpectEOF) fun h p =>
      match h with
      | none => .ok ((), p)
      | some ty => seq (skipT d f (.val ty) p) dontExpectEOF fun _ q => skipT d f (.fields false) q

/-- fuel that a walk over `d` cannot exhaust: every unit spent either consumes a byte or is one of
    at most two calls (`val`/`item` wrappers) in front of a step that does -/
def fuelFor (d : Bytes) : Nat := 4 * d.length + 16

/-- MIRROR `skipStruct` on a fresh `compactBytesReader` over `d`: the offset after the struct -/
def skipStruct (d : Bytes) : Except SkErr Nat :=
  match skipT d (fuelFor d) (.fields true) 0 with
  | .ok (_, p) => .ok p
  | .error e => .error e

/-! ## a cut input: the run on `d.take m` against the run on `d` -/

/-- `r` is the result on `d` from offset `pos`, `r'` the result on `d.take m` from the same offset:
    a success on `d` ends at or after `pos`; if the cut is at or after the end, the cut run succeeds
    with the same answer; if it is before, the cut run fails with one of the end-of-input classes. -/
def Rel {α} (pos m : Nat) (r r' : PR α) : Prop :=
  ∀ a pos', r = .ok (a, pos') →
    pos ≤ pos' ∧ (pos ≤ m → (pos' ≤ m → r' = .ok (a, pos')) ∧
      (m < pos' → ∃ e, r' = .error e ∧ (e = .eof ∨ e = .ueof)))

theorem Rel.pure {α} (pos m : Nat) (a : α) (h : pos ≤ m) : Rel pos m (.ok (a, pos)) (.ok (a, pos)) := by
  intro a' p' e
  cases e
  exact ⟨Nat.le_refl _, fun _ => ⟨fun _ => rfl, fun h' => by omega⟩⟩

theorem Rel.error {α} (pos m : Nat) (e : SkErr) (r' : PR α) : Rel pos m (.error e) r' := by
  intro a' p' h; cases h

/-- error mappings that keep the end-of-input classes (`id`, `dontExpectEOF`) -/
class EofPres (fe : SkErr → SkErr) : Prop where
  pres : ∀ e, (e = .eof ∨ e = .ueof) → (fe e = .eof ∨ fe e = .ueof)

instance : EofPres id := ⟨fun _ h => h⟩
instance : EofPres dontExpectEOF := ⟨fun e h => by rcases h with h | h <;> subst h <;> simp [dontExpectEOF]⟩
instance (c : Prop) [Decidable c] (f g : SkErr → SkErr) [EofPres f] [EofPres g] : EofPres (if c then f else g) := by
  split <;> assumption

theorem seq_rel {α β} {pos m : Nat} {r r' : PR α} (fe : SkErr → SkErr) [hfe : EofPres fe] {k k' : α → Nat → PR β}
    (hr : Rel pos m r r') (hk : ∀ a p, pos ≤ p → Rel p m (k a p) (k' a p)) :
    Rel pos m (seq r fe k) (seq r' fe k') := by
  intro b q h
  cases r with
  | error e => simp [seq] at h
  | ok ap =>
    obtain ⟨a, p⟩ := ap
    simp only [seq] at h
    obtain ⟨h1, h2⟩ := hr a p rfl
    have hpq := (hk a p h1 b q h).1
    refine ⟨by omega, fun hpm => ?_⟩
    obtain ⟨h3, h4⟩ := h2 hpm
    by_cases hp : p ≤ m
    · rw [h3 hp]
      simp only [seq]
      exact (hk a p h1 b q h).2 hp
    · obtain ⟨e, he, hc⟩ := h4 (by omega)
      rw [he]
      exact ⟨fun _ => by omega, fun _ => ⟨_, rfl, hfe.pres e hc⟩⟩

/-! ## the open path with the walk plugged in -/

open PqModel.IoFault in
inductive FootErr where
  | trailer (e : OpenErr)     -- the magic / length / bounds checks of `openModel`
  | thrift (e : SkErr)        -- "reading parquet file metadata: …"
  | trailing (n : Nat)        -- "unexpected trailing bytes at the end of thrift input"
  | signedNoKeys              -- "parquet file has a signed footer but no DecryptionConfig was provided"
  deriving DecidableEq, Repr

/-- MIRROR file.go:165-211, the branch of a footer magic "PAR1", with the structure walk in place of
    the typed decoder: the footer must be one struct, followed by nothing or by a 28-byte signature
    (12-byte nonce + 16-byte tag), which needs a DecryptionConfig (`enc`; the verification of the
    signature is not modelled). Answers the number of bytes of the struct. -/
def footerWalk (enc : Bool) (ft : Bytes) : Except FootErr Nat :=
  match skipStruct ft with
  | .error e => .error (.thrift e)
  | .ok n =>
    if ft.length - n == 0 then .ok n
    else if ft.length - n == 28 then (if enc then .ok n else .error .signedNoKeys)
    else .error (.trailing (ft.length - n))

/-- MIRROR `OpenFile` up to the decoded footer (file.go:65-211): `openModel`, then `footerWalk` -/
def openWalk (enc : Bool) (f : Bytes) : Except FootErr Nat :=
  match PqModel.IoFault.openModel enc f with
  | .error e => .error (.trailer e)
  | .ok ft => footerWalk enc ft

/-- the 4 bytes `binary.LittleEndian.PutUint32` stores -/
def le32Bytes (n : Nat) : Bytes :=
  [UInt8.ofNat (n % 256), UInt8.ofNat (n / 256 % 256), UInt8.ofNat (n / 65536 % 256), UInt8.ofNat (n / 16777216 % 256)]

/-- a file whose footer section holds `ft`: `pre ‖ ft ‖ le32(len ft) ‖ "PAR1"` (`pre` starts with the
    header magic) -/
def fileWith (pre ft : Bytes) : Bytes := pre ++ ft ++ le32Bytes ft.length ++ PqModel.IoFault.magicPAR1

end PqModel.ThriftSkip
