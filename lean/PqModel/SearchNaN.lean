import PqModel.Search

/-! # FLOAT / DOUBLE column indexes: NaN bounds

`compareFloat32/64` (compare.go:103-123) answer 0 whenever an operand is NaN (`v1 < v2` and `v1 > v2` are both
false), so `Type.Compare` is NOT a linear order on a float column whose index holds a NaN bound (a page of NaN
values only). This file repeats the search mirrors of `Search.lean` over bounds that may be NaN, shows that
they coincide with the `Int`-rank mirrors when no bound is NaN, and carries the "never misses" theorem over:
with a NaN bound the writer claims no order (column_index.go:457-470, 495-509 after repair 2854665), `Find`
takes the linear search, and the linear search is correct for every comparison whatsoever.

All functions here are MIRRORS (same Go lines as their namesakes in `Search.lean`). -/
namespace PqModel.Search

/-- a bound of a float column index: the null `Value{}` of a null page, NaN, or a number (by rank) -/
inductive FB where
  | null
  | nan
  | val (x : Int)
  deriving DecidableEq, Repr

/-- `cmp(a, b) < 0` for `cmp = CompareNullsLast/First(typ.Compare)` (compare.go:20-57) over a float type -/
def ltF (nf : Bool) : FB → FB → Bool
  | .null, .null => false
  | .null, _ => nf
  | _, .null => !nf
  | .val x, .val y => decide (x < y)
  | _, _ => false

structure FIndex where
  mins : List FB
  maxs : List FB

def FIndex.n (ix : FIndex) : Nat := ix.mins.length
def minAtF (ix : FIndex) (i : Nat) : FB := ix.mins.getD i .null
def maxAtF (ix : FIndex) (i : Nat) : FB := ix.maxs.getD i .null

def containsF (nf : Bool) (ix : FIndex) (i : Nat) (v : Int) : Bool :=
  !(ltF nf (.val v) (minAtF ix i)) && !(ltF nf (maxAtF ix i) (.val v))

def bloopF (nf : Bool) (ix : FIndex) (v : Int) : Nat → Nat → Nat → Nat
  | 0, cur, _ => cur
  | fuel + 1, cur, top =>
    if cur < top then
      let next := (top - cur) / 2 + cur
      if ltF nf (.val v) (minAtF ix next) then bloopF nf ix v fuel cur next
      else if ltF nf (maxAtF ix next) (.val v) then bloopF nf ix v fuel (next + 1) top
      else bloopF nf ix v fuel cur next
    else cur

def binarySearchF (nf : Bool) (ix : FIndex) (v : Int) : Nat :=
  let c := bloopF nf ix v ix.n 0 ix.n
  if c < ix.n then
    if ltF nf (.val v) (minAtF ix c) || ltF nf (maxAtF ix c) (.val v) then ix.n else c
  else c

def lloopF (nf : Bool) (ix : FIndex) (v : Int) : Nat → Nat → Nat
  | 0, i => i
  | fuel + 1, i =>
    if i < ix.n then
      if !(ltF nf (.val v) (minAtF ix i)) && !(ltF nf (maxAtF ix i) (.val v)) then i else lloopF nf ix v fuel (i + 1)
    else i

def linearSearchF (nf : Bool) (ix : FIndex) (v : Int) : Nat := lloopF nf ix v ix.n 0

def hasNullF (ix : FIndex) : Bool := ix.mins.any (· == .null) || ix.maxs.any (· == .null)

def findF (nf asc : Bool) (ix : FIndex) (v : Int) : Nat :=
  if asc && !hasNullF ix then binarySearchF nf ix v else linearSearchF nf ix v

def hasNaN (ix : FIndex) : Bool := ix.mins.any (· == .nan) || ix.maxs.any (· == .nan)

def ofF : FB → Bound
  | .val x => some x
  | _ => none

def toF : Bound → FB
  | some x => .val x
  | none => .null

def FIndex.ranks (ix : FIndex) : Index := { mins := ix.mins.map ofF, maxs := ix.maxs.map ofF }
def Index.toF (ix : Index) : FIndex := { mins := ix.mins.map Search.toF, maxs := ix.maxs.map Search.toF }

/-- floatColumnIndexer/doubleColumnIndexer.ColumnIndex (column_index.go:457-470, 495-509): no boundary order
    when a min or max is NaN, else `orderOfFloat32/64` on the stored values as for every other type -/
def writerOrderF (z : Int) (ix : FIndex) : Nat :=
  if hasNaN ix then 0 else writerOrder z ix.ranks

/-! ### the linear search is correct whatever the comparison -/

theorem lloopF_spec (nf : Bool) (ix : FIndex) (v : Int) : ∀ (fuel i : Nat), ix.n - i ≤ fuel → i ≤ ix.n →
    i ≤ lloopF nf ix v fuel i ∧ lloopF nf ix v fuel i ≤ ix.n ∧
    (lloopF nf ix v fuel i < ix.n → containsF nf ix (lloopF nf ix v fuel i) v = true) ∧
    (∀ j, i ≤ j → j < lloopF nf ix v fuel i → containsF nf ix j v = false)
  | 0, i, hf, hi => by
    have : i = ix.n := by omega
    subst this
    simp only [lloopF]
    exact ⟨Nat.le_refl _, Nat.le_refl _, fun h => absurd h (Nat.lt_irrefl _), fun j h1 h2 => by omega⟩
  | fuel + 1, i, hf, hi => by
    simp only [lloopF]
    by_cases hlt : i < ix.n
    · rw [if_pos hlt]
      by_cases hc : containsF nf ix i v = true
      · have hc2 := hc
        unfold containsF at hc2
        rw [if_pos hc2]
        exact ⟨Nat.le_refl _, hi, fun _ => hc, fun j h1 h2 => by omega⟩
      · have hc2 := hc
        unfold containsF at hc2
        rw [if_neg hc2]
        have hc' : containsF nf ix i v = false := by simpa using hc
        obtain ⟨h1, h2, h3, h4⟩ := lloopF_spec nf ix v fuel (i + 1) (by omega) (by omega)
        refine ⟨by omega, h2, h3, ?_⟩
        intro j hj1 hj2
        by_cases hji : j = i
        · subst hji; exact hc'
        · exact h4 j (by omega) hj2
    · rw [if_neg hlt]
      exact ⟨Nat.le_refl _, hi, fun h => absurd h hlt, fun j h1 h2 => by omega⟩

theorem linearSearchF_first (nf : Bool) (ix : FIndex) (v : Int) :
    linearSearchF nf ix v ≤ ix.n ∧
    (linearSearchF nf ix v < ix.n → containsF nf ix (linearSearchF nf ix v) v = true) ∧
    (∀ i, i < ix.n → containsF nf ix i v = true → linearSearchF nf ix v ≤ i) := by
  obtain ⟨_, h2, h3, h4⟩ := lloopF_spec nf ix v ix.n 0 (by omega) (by omega)
  refine ⟨h2, h3, ?_⟩
  intro i hi hc
  unfold linearSearchF
  cases Nat.lt_or_ge i (lloopF nf ix v ix.n 0) with
  | inl hlt => have := h4 i (by omega) hlt; simp [this] at hc
  | inr hge => exact hge

/-! ### without NaN the float mirrors are the rank mirrors -/

theorem ltF_toF (nf : Bool) (a b : Bound) : ltF nf (toF a) (toF b) = ltNL nf a b := by
  cases a <;> cases b <;> simp [ltF, ltNL, toF]

theorem getD_map_toF : ∀ (l : List Bound) (i : Nat), (l.map toF).getD i .null = toF (l.getD i none)
  | [], _ => by simp [toF]
  | _ :: _, 0 => rfl
  | _ :: t, i + 1 => by simpa only [List.map_cons, List.getD_cons_succ] using getD_map_toF t i

theorem minAtF_toF (ix : Index) (i : Nat) : minAtF ix.toF i = toF (minAt ix i) := getD_map_toF ix.mins i
theorem maxAtF_toF (ix : Index) (i : Nat) : maxAtF ix.toF i = toF (maxAt ix i) := getD_map_toF ix.maxs i

theorem toF_n (ix : Index) : ix.toF.n = ix.n := by simp [FIndex.n, Index.toF, Index.n]

theorem containsF_toF (nf : Bool) (ix : Index) (i : Nat) (v : Int) :
    containsF nf ix.toF i v = contains nf ix i v := by
  have e : FB.val v = toF (some v) := rfl
  simp only [containsF, contains, minAtF_toF, maxAtF_toF, e, ltF_toF]

theorem bloopF_toF (nf : Bool) (ix : Index) (v : Int) : ∀ (fuel cur top : Nat),
    bloopF nf ix.toF v fuel cur top = bloop nf ix v fuel cur top
  | 0, _, _ => rfl
  | fuel + 1, cur, top => by
    have e : FB.val v = toF (some v) := rfl
    simp only [bloopF, bloop, minAtF_toF, maxAtF_toF, e, ltF_toF, bloopF_toF nf ix v fuel]

theorem binarySearchF_toF (nf : Bool) (ix : Index) (v : Int) :
    binarySearchF nf ix.toF v = binarySearch nf ix v := by
  have e : FB.val v = toF (some v) := rfl
  simp only [binarySearchF, binarySearch, toF_n, bloopF_toF, minAtF_toF, maxAtF_toF, e, ltF_toF]

theorem lloopF_toF (nf : Bool) (ix : Index) (v : Int) : ∀ (fuel i : Nat),
    lloopF nf ix.toF v fuel i = lloop nf ix v fuel i
  | 0, _ => rfl
  | fuel + 1, i => by
    have e : FB.val v = toF (some v) := rfl
    simp only [lloopF, lloop, leNL, toF_n, minAtF_toF, maxAtF_toF, e, ltF_toF, lloopF_toF nf ix v fuel]
    rfl

theorem any_null_toF : ∀ (l : List Bound), (l.map toF).any (· == FB.null) = l.any Option.isNone
  | [] => rfl
  | a :: t => by
    have := any_null_toF t
    cases a <;> simp_all [toF]

theorem findF_toF (nf asc : Bool) (ix : Index) (v : Int) : findF nf asc ix.toF v = find nf asc ix v := by
  have hn : hasNullF ix.toF = hasNull ix := by
    simp only [hasNullF, hasNull, Index.toF, any_null_toF]
  simp only [findF, find, hn, binarySearchF_toF, linearSearchF, linearSearch, lloopF_toF, toF_n]

theorem toF_ofF_of_not_nan : ∀ (l : List FB), l.any (· == FB.nan) = false → (l.map ofF).map toF = l
  | [], _ => rfl
  | a :: t, h => by
    simp only [List.any_cons, Bool.or_eq_false_iff] at h
    have ih := toF_ofF_of_not_nan t h.2
    cases a with
    | nan => simp at h
    | null => simp [ofF, toF, ih]
    | val x => simp [ofF, toF, ih]

theorem ranks_toF (ix : FIndex) (h : hasNaN ix = false) : ix.ranks.toF = ix := by
  simp only [hasNaN, Bool.or_eq_false_iff] at h
  cases ix with
  | mk mins maxs =>
    simp only [FIndex.ranks, Index.toF, toF_ofF_of_not_nan mins h.1, toF_ofF_of_not_nan maxs h.2]

theorem ofF_toF_map : ∀ (l : List Bound), (l.map toF).map ofF = l
  | [] => rfl
  | a :: t => by
    have ih := ofF_toF_map t
    cases a <;> simp [ofF, toF, ih]

theorem toF_ranks (ix : Index) : ix.toF.ranks = ix := by
  cases ix with
  | mk mins maxs => simp only [Index.toF, FIndex.ranks, ofF_toF_map]

theorem hasNaN_toF (ix : Index) : hasNaN ix.toF = false := by
  have h : ∀ (l : List Bound), (l.map toF).any (· == FB.nan) = false := by
    intro l
    induction l with
    | nil => rfl
    | cons a t ih => cases a <;> simp_all [toF]
  simp only [hasNaN, Index.toF, h, Bool.or_self]

/-- C06 for FLOAT/DOUBLE indexes, NaN bounds included: `Find` with the flag the float indexers compute never
    misses. With a NaN bound no order is claimed and the linear search runs; without, this is `find` on ranks. -/
theorem findF_no_miss_writer (nf : Bool) (z : Int) (ix : FIndex) (v : Int)
    (hlen : ix.maxs.length = ix.mins.length)
    (hle : ∀ i a b, i < ix.n → minAtF ix i = .val a → maxAtF ix i = .val b → a ≤ b)
    (hbase : ∀ (jx : Index), jx.maxs.length = jx.mins.length →
      (∀ i a b, i < jx.n → minAt jx i = some a → maxAt jx i = some b → a ≤ b) →
      let r := find nf (writerOrder z jx == 1) jx v
      r ≤ jx.n ∧ (r < jx.n → contains nf jx r v = true) ∧ (∀ p, p < jx.n → contains nf jx p v = true → r ≤ p)) :
    let r := findF nf (writerOrderF z ix == 1) ix v
    r ≤ ix.n ∧ (r < ix.n → containsF nf ix r v = true) ∧ (∀ p, p < ix.n → containsF nf ix p v = true → r ≤ p) := by
  by_cases hn : hasNaN ix = true
  · have : findF nf (writerOrderF z ix == 1) ix v = linearSearchF nf ix v := by
      simp [findF, writerOrderF, hn]
    simp only [this]
    exact linearSearchF_first nf ix v
  · have hn' : hasNaN ix = false := by simpa using hn
    obtain ⟨jx, rfl⟩ : ∃ jx : Index, ix = jx.toF := ⟨ix.ranks, (ranks_toF ix hn').symm⟩
    have hw : writerOrderF z jx.toF = writerOrder z jx := by
      simp only [writerOrderF, hasNaN_toF, toF_ranks]; rfl
    simp only [hw, findF_toF, containsF_toF, toF_n]
    apply hbase jx
    · simpa [Index.toF] using hlen
    · intro i a b hi ha hb
      apply hle i a b (by rw [toF_n]; exact hi)
      · rw [minAtF_toF, ha]; rfl
      · rw [maxAtF_toF, hb]; rfl

end PqModel.Search
