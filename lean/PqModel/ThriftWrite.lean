import PqModel.Spec.Thrift
import PqModel.Delta
import PqModel.DeltaProofs

/-! MIRROR of the library's Thrift COMPACT protocol ENCODER on a typed value tree
    (`encoding/thrift/compact.go` `compactWriter`, `encoding/thrift/encode.go` `structEncoder.encode`,
    `encodeFuncSliceOf`, `thrift.Slice.EncodeFunc`, `unionEncoder.encode`), and the lemmas that the
    SPEC reader `PqModel.Spec.readStruct` reads the mirror's bytes back.

    The tree `WVal` is what the Go encoder is handed after reflection: every field that is not a nil
    pointer / unset `Null[T]` / nil `Slice[T]` / unset union, with its id, its `required` and
    `writezero` tag options and whether `reflect.Value.IsZero` holds (the encoder asks the Go runtime
    for that; it is an input here). Which of those fields are written is decided by the mirror
    (`FMeta.omitted`). Sets and maps are not modelled (package `format` has none). -/
namespace PqModel.ThriftWrite
open PqModel.Spec

/-- a struct field as `structEncoder.encode` sees it (encode.go:289-311) -/
structure FMeta where
  id : Nat
  required : Bool := false
  writezero : Bool := false
  zero : Bool := false

/-- MIRROR encode.go:309 `if !f.flags.Have(Required) && !f.flags.Have(WriteZero) && x.IsZero() { continue }` -/
def FMeta.omitted (m : FMeta) : Bool := !m.required && !m.writezero && m.zero

inductive WVal where
  | bool (b : Bool)
  | i8 (i : Int)
  | i16 (i : Int)
  | i32 (i : Int)
  | i64 (i : Int)
  | double (bits : UInt64)
  | bin (b : List UInt8)
  | list (ety : Nat) (xs : List WVal)   -- `ety`: compact type code of the element type (`TypeOf(elem)`)
  | struct (fs : List (FMeta × WVal))
deriving Inhabited

/-! ## scalars -/

/-- MIRROR of `binary.PutUvarint` (used by compact.go:347-350 `writeUvarint`): the first argument is
    fuel for the `for x >= 0x80` loop; 9 rounds leave less than 2 of a 64-bit value. -/
def putUvarint : Nat → Nat → List UInt8
  | 0, x => [x.toUInt8]
  | f + 1, x => if x < 128 then [x.toUInt8] else (x % 128 + 128).toUInt8 :: putUvarint f (x / 128)

def uvarintBytes (x : Nat) : List UInt8 := putUvarint 9 x

/-- MIRROR compact.go:352-355 `writeVarint` = `binary.PutVarint` (zigzag of the int64, then uvarint);
    `WriteInt16/32/64` all widen to int64 first (compact.go:262-272). -/
def varintBytes (i : Int) : List UInt8 := uvarintBytes (PqModel.Delta.zigzag64 (BitVec.ofInt 64 i))

/-- MIRROR `binaryWriter.WriteInt8`: the byte `byte(v)` -/
def int8Byte (i : Int) : UInt8 := (i % 256).toNat.toUInt8

/-- MIRROR compact.go:274-277 `WriteFloat64`: 8 bytes little endian -/
def le64 (x : UInt64) : List UInt8 :=
  (List.range 8).map (fun i => ((x.toNat >>> (8 * i)) % 256).toUInt8)

/-- the compact type code a value carries in a FIELD header (encode.go:324-327: a true bool field
    becomes type TRUE = 1, BOOL = FALSE = 2) -/
def fcode : WVal → Nat
  | .bool true => 1 | .bool false => 2
  | .i8 _ => 3 | .i16 _ => 4 | .i32 _ => 5 | .i64 _ => 6
  | .double _ => 7 | .bin _ => 8 | .list _ _ => 9 | .struct _ => 12

/-- the code of the element type in a LIST header (`TypeOf`: bool is BOOL = 2) -/
def lcode : WVal → Nat
  | .bool _ => 2
  | v => fcode v

/-- MIRROR encode.go:316-321 (`delta := field.ID - lastFieldID; if delta <= 15 { field.ID = delta }`)
    followed by compact.go:311-320 `WriteField` (`if f.ID <= 15` one byte `ID<<4 | type`, else the
    type byte and the id as zigzag varint). Ids are int16 in Go; the arithmetic here is exact for
    ids in 0..32767. -/
def fieldHeader (last id ty : Nat) : List UInt8 :=
  let delta : Int := (id : Int) - (last : Int)
  let fid : Int := if delta ≤ 15 then delta else (id : Int)
  if fid ≤ 15 then [(((fid * 16) % 256).toNat.toUInt8) ||| ty.toUInt8]
  else ty.toUInt8 :: varintBytes id

/-- MIRROR compact.go:322-330 `WriteList` -/
def listHeader (ety n : Nat) : List UInt8 :=
  if n ≤ 14 then [((n * 16) % 256).toUInt8 ||| ety.toUInt8]
  else (0xF0 ||| ety.toUInt8) :: uvarintBytes n

mutual
/-- MIRROR: the bytes of a value in field position (a bool has none: it is the header's type) -/
def writeVal : WVal → List UInt8
  | .bool _ => []
  | .i8 i => [int8Byte i]
  | .i16 i => varintBytes i
  | .i32 i => varintBytes i
  | .i64 i => varintBytes i
  | .double b => le64 b
  | .bin b => uvarintBytes b.length ++ b
  | .list ety xs => listHeader ety xs.length ++ writeElems xs
  | .struct fs => writeFields 0 fs
/-- MIRROR encode.go:165-192 / list.go:24-40: the elements back to back; a bool element is one
    byte 1/0 (`binaryWriter.WriteBool`) -/
def writeElems : List WVal → List UInt8
  | [] => []
  | x :: xs => (match x with
      | .bool b => [if b then 1 else 0]
      | v => writeVal v) ++ writeElems xs
/-- MIRROR encode.go:283-349 `structEncoder.encode`: fields in ascending id order, omitted ones
    skipped, stop byte -/
def writeFields (last : Nat) : List (FMeta × WVal) → List UInt8
  | [] => [0]
  | (m, v) :: fs =>
    if m.omitted then writeFields last fs
    else fieldHeader last m.id (fcode v) ++ writeVal v ++ writeFields m.id fs
end

/-- what `Marshal` returns for a struct value -/
def writeStruct (fs : List (FMeta × WVal)) : List UInt8 := writeFields 0 fs

mutual
/-- the untyped tree a reader should see -/
def erase : WVal → TVal
  | .bool b => .bool b
  | .i8 i => .int i
  | .i16 i => .int i
  | .i32 i => .int i
  | .i64 i => .int i
  | .double b => .double b
  | .bin b => .bin ⟨b.toArray⟩
  | .list _ xs => .list (eraseL xs)
  | .struct fs => .struct (eraseF fs)
def eraseL : List WVal → List TVal
  | [] => []
  | x :: xs => erase x :: eraseL xs
def eraseF : List (FMeta × WVal) → List (Nat × TVal)
  | [] => []
  | (m, v) :: fs => if m.omitted then eraseF fs else (m.id, erase v) :: eraseF fs
end

mutual
/-- well-formed trees: ints within their width, lengths within int32 (`WriteLength` refuses more),
    list elements of the announced element type, written field ids ascending in 1..32767 -/
def WfT : WVal → Bool
  | .bool _ => true
  | .i8 i => decide (-128 ≤ i ∧ i < 128)
  | .i16 i => decide (-32768 ≤ i ∧ i < 32768)
  | .i32 i => decide (-2147483648 ≤ i ∧ i < 2147483648)
  | .i64 i => decide (-9223372036854775808 ≤ i ∧ i < 9223372036854775808)
  | .double _ => true
  | .bin b => decide (b.length < 2147483648)
  | .list ety xs => decide (ety < 16) && decide (xs.length < 2147483648) && WfL ety xs
  | .struct fs => WfF 0 fs
def WfL (ety : Nat) : List WVal → Bool
  | [] => true
  | x :: xs => decide (lcode x = ety) && WfT x && WfL ety xs
def WfF (last : Nat) : List (FMeta × WVal) → Bool
  | [] => true
  | (m, v) :: fs =>
    if m.omitted then WfF last fs
    else decide (last < m.id ∧ m.id ≤ 32767) && WfT v && WfF m.id fs
end

end PqModel.ThriftWrite
