import PqModel.ColWriter

/-! # C11 — the invariant of a `ColumnWriter` history (lemmas for `Props/C11ColWriter.lean`) -/
namespace PqModel.ColWriter

theorem bufLen_append (k : Kind) (a b : List Val) : bufLen k (a ++ b) = bufLen k a + bufLen k b := by
  cases k <;> simp [bufLen, List.countP_append]

theorem bufLen_nil (k : Kind) : bufLen k [] = 0 := by cases k <;> simp [bufLen]

theorem headOK_nil (k : Kind) : headOK k [] = true := by cases k <;> rfl

theorem headOK_append {k : Kind} {a b : List Val} (ha : headOK k a = true) (hb : headOK k b = true) :
    headOK k (a ++ b) = true := by
  cases a with
  | nil => simpa using hb
  | cons v t => cases k <;> simp_all [headOK]

theorem headOK_flatten {k : Kind} : ∀ {l : List (List Val)}, (∀ r ∈ l, headOK k r = true) →
    headOK k l.flatten = true
  | [], _ => by simpa using headOK_nil k
  | r :: rest, h => by
    simp only [List.flatten_cons]
    exact headOK_append (h r (by simp)) (headOK_flatten fun r' hr' => h r' (by simp [hr']))

/-- a buffer that starts at a row and holds no row holds nothing -/
theorem eq_nil_of_len_zero {k : Kind} {b : List Val} (hh : headOK k b = true) (hl : bufLen k b = 0) :
    b = [] := by
  cases b with
  | nil => rfl
  | cons v t =>
    cases k with
    | flat => simp [bufLen] at hl
    | optional => simp [bufLen] at hl
    | repeated =>
      simp only [headOK] at hh
      simp [bufLen, hh] at hl

theorem prefixSums_snoc : ∀ (acc : Nat) (l : List Nat) (x : Nat),
    prefixSums acc (l ++ [x]) = prefixSums acc l ++ [acc + l.sum]
  | acc, [], x => by simp [prefixSums]
  | acc, y :: l, x => by
    simp only [List.cons_append, prefixSums, prefixSums_snoc (acc + y) l x, List.sum_cons,
      Nat.add_assoc]

theorem sum_map_bufLen (k : Kind) : ∀ (ps : List (List Val)),
    (ps.map (bufLen k)).sum = bufLen k ps.flatten
  | [] => by simp [bufLen_nil]
  | p :: ps => by simp [bufLen_append, sum_map_bufLen k ps]

theorem writesOf_append : ∀ (a b : List Op), writesOf (a ++ b) = writesOf a ++ writesOf b
  | [], b => rfl
  | .write vs :: a, b => by simp [writesOf, writesOf_append a b]
  | .flush :: a, b => by simp [writesOf, writesOf_append a b]
  | .close :: a, b => by simp [writesOf, writesOf_append a b]

/-- The invariant: `all` is everything handed to the writer so far. -/
structure Good (k : Kind) (c : CW) (all : List Val) : Prop where
  /-- pages then buffer hold the values written, in order -/
  stream : c.pages.flatten ++ c.vals = all
  /-- the buffer starts at the beginning of a row -/
  head : headOK k c.vals = true
  /-- every page holds something and starts at the beginning of a row -/
  pagesOK : ∀ p ∈ c.pages, p ≠ [] ∧ headOK k p = true
  /-- `numRows` is the rows of the pages -/
  rows : c.numRows = (c.pages.map (bufLen k)).sum
  /-- `NumValues` is the values of the pages -/
  nvals : c.numValues = (c.pages.map List.length).sum
  /-- `FirstRowIndex` of page i is the rows of the pages before it -/
  first : c.firstRow = prefixSums 0 (c.pages.map (bufLen k))

theorem good_fresh (k : Kind) : Good k fresh [] :=
  ⟨rfl, headOK_nil k, by simp [fresh], rfl, rfl, rfl⟩

theorem good_flush {k : Kind} {c : CW} {all : List Val} (h : Good k c all) :
    Good k (flush k c) all ∧ (flush k c).vals = [] := by
  unfold flush
  cases hb : c.buf with
  | none => exact ⟨h, by simp [CW.vals, hb]⟩
  | some b =>
    have hv : c.vals = b := by simp [CW.vals, hb]
    have hh := h.head
    have hs := h.stream
    rw [hv] at hh hs
    by_cases hl : bufLen k b > 0
    · have hne : b ≠ [] := by
        intro he; subst he; simp [bufLen_nil] at hl
      have hlen : ¬ b.length = 0 := by simpa using hne
      simp only [hl, if_true, writeDataPage, hlen, if_false]
      refine ⟨⟨?_, ?_, ?_, ?_, ?_, ?_⟩, ?_⟩
      · simpa [CW.vals] using hs
      · simpa [CW.vals] using headOK_nil k
      · intro p hp
        simp only [List.mem_append, List.mem_singleton] at hp
        rcases hp with hp | rfl
        · exact h.pagesOK p hp
        · exact ⟨hne, hh⟩
      · simp [h.rows]
      · simp [h.nvals]
      · simp only [List.map_append, List.map_cons, List.map_nil, prefixSums_snoc, h.first, h.rows]
        simp
      · simp [CW.vals]
    · have : b = [] := eq_nil_of_len_zero hh (by omega)
      simp only [hl, if_false]
      exact ⟨h, by rw [hv, this]⟩

theorem good_write {k : Kind} {c : CW} {all : List Val} (bufferSize : Nat) {vs : List Val}
    (h : Good k c all) (hvs : headOK k vs = true) :
    Good k (writeRowValues k bufferSize c vs).1 (all ++ vs) := by
  have hc' : Good k { c with buf := some (c.vals ++ vs) } (all ++ vs) :=
    ⟨by simp [CW.vals, ← h.stream], by simpa [CW.vals] using headOK_append h.head hvs,
      h.pagesOK, h.rows, h.nvals, h.first⟩
  unfold writeRowValues
  simp only
  split
  · exact (good_flush hc').1
  · exact hc'

theorem good_close {k : Kind} {c : CW} {all : List Val} (h : Good k c all) :
    Good k (close k c) all ∧ (close k c).vals = [] := by
  unfold close
  cases hb : c.buf with
  | none => exact ⟨h, by simp [CW.vals, hb]⟩
  | some b =>
    obtain ⟨hg, he⟩ := good_flush h
    refine ⟨⟨?_, ?_, hg.pagesOK, hg.rows, hg.nvals, hg.first⟩, ?_⟩
    · have := hg.stream
      rw [he] at this
      simpa [CW.vals] using this
    · simpa [CW.vals] using headOK_nil k
    · simp [CW.vals]

theorem good_step {k : Kind} {c : CW} {all : List Val} (bufferSize : Nat) (h : Good k c all) (op : Op)
    (hop : ∀ vs, op = .write vs → headOK k vs = true) :
    Good k (step k bufferSize c op) (all ++ (writesOf [op]).flatten) := by
  cases op with
  | write vs => simpa [step, writesOf] using good_write bufferSize h (hop vs rfl)
  | flush => simpa [step, writesOf] using (good_flush h).1
  | close => simpa [step, writesOf] using (good_close h).1

theorem good_run {k : Kind} (bufferSize : Nat) : ∀ (ops : List Op) {c : CW} {all : List Val},
    Good k c all → (∀ vs, Op.write vs ∈ ops → headOK k vs = true) →
    Good k (run k bufferSize c ops) (all ++ (writesOf ops).flatten)
  | [], c, all, h, _ => by simpa [run, writesOf] using h
  | op :: ops, c, all, h, hw => by
    have h1 := good_step bufferSize h op (fun vs he => hw vs (by simp [he]))
    have h2 := good_run bufferSize ops h1 (fun vs hm => hw vs (by simp [hm]))
    have : writesOf (op :: ops) = writesOf [op] ++ writesOf ops := writesOf_append [op] ops
    simpa [run, this, List.append_assoc] using h2

/-- the row path hands the column writer only batches that start at a row, and all values in order -/
theorem rowPathOps_heads {k : Kind} : ∀ (fuel : Nat) (rows : List (List Val)),
    (∀ r ∈ rows, headOK k r = true) → ∀ vs, Op.write vs ∈ rowPathOps fuel rows → headOK k vs = true
  | 0, _, _, vs, hm => by simp [rowPathOps] at hm
  | fuel + 1, rows, hr, vs, hm => by
    unfold rowPathOps at hm
    split at hm
    · simp at hm
    · simp only [List.mem_append] at hm
      rcases hm with hm | hm
      · split at hm
        · simp at hm
        · simp only [List.mem_singleton, Op.write.injEq] at hm
          subst hm
          exact headOK_flatten fun r hm' => hr r (List.mem_of_mem_take hm')
      · exact rowPathOps_heads fuel _ (fun r hm' => hr r (List.mem_of_mem_drop hm')) vs hm

theorem rowPathOps_stream : ∀ (fuel : Nat) (rows : List (List Val)), rows.length < fuel →
    (writesOf (rowPathOps fuel rows)).flatten = rows.flatten
  | 0, _, h => by omega
  | fuel + 1, rows, h => by
    unfold rowPathOps
    split
    · next he => simp [List.isEmpty_iff.mp he, writesOf]
    · next he =>
      have hne : rows ≠ [] := by simpa [List.isEmpty_iff] using he
      have hpos : 0 < rows.length := List.length_pos_iff.mpr hne
      have ih := rowPathOps_stream fuel (rows.drop 64) (by simp only [List.length_drop]; omega)
      have hsplit : rows.flatten = (rows.take 64).flatten ++ (rows.drop 64).flatten := by
        rw [← List.flatten_append, List.take_append_drop]
      rw [writesOf_append, List.flatten_append, ih, hsplit]
      split
      · next hv => simp [List.isEmpty_iff.mp hv, writesOf]
      · simp [writesOf]

end PqModel.ColWriter
