import PqModel.RowsBufProofs
import PqModel.RowsState

/-! # Refinement `RowsBuf` → `RowsState` (C13, round 6, second wave): definitions

`RowsBuf` mirrors `rowGroupRows.ReadRows` / `SeekToRow` / `Reset` at the granularity of value buffers,
`RowsState` mirrors the same reader with the column readers abstracted to "the row the column stands
on". This file states the ABSTRACTION: what a column reader of `RowsBuf` will still deliver (`cstream`:
the value buffer, the rest of the current page, the pages from the cursor on, up to the end of the
chunk or to the first rejected page) and what it means for a column to stand on row `p` (`ColAt`:
that stream is the row groups `p, p+1, …, b-1` and ends either with the chunk, `b = total`, or in front
of a rejected page). Everything here is SPEC-side (no Go counterpart); the well-formedness predicate
`WfPages` is what the Parquet format says about the pages of a column chunk with an offset index
(consecutive row ranges starting at 0, every row starts with a value of repetition level 0). -/
namespace PqModel.RowsRefine
open PqModel.RowsBuf

/-- what the page reader still delivers from a cursor on (`skip` rows into the first page of `ps`):
    the values, and whether the stream is ended by a rejected page (`true`) or by the end of the chunk -/
def pstreamFrom : List Page → Nat → List Val × Bool
  | [], _ => ([], false)
  | p :: ps, skip =>
    if p.bad then ([], true)
    else if skip < p.numRows then
      ((p.vals.filter fun v => decide (p.firstRow + skip ≤ v.row)) ++ (pstreamFrom ps 0).1, (pstreamFrom ps 0).2)
    else pstreamFrom ps (skip - p.numRows)

def pstream (pages : List Page) (c : Cursor) : List Val × Bool := pstreamFrom (pages.drop c.next) c.skip

def rstream (pages : List Page) (r : Reader) : List Val × Bool :=
  (r.values.getD [] ++ (pstream pages r.cur).1, (pstream pages r.cur).2)

/-- everything column `c` will still deliver -/
def cstream (pages : List Page) (c : Col) : List Val × Bool :=
  (c.buf ++ (rstream pages c.reader).1, (rstream pages c.reader).2)

/-- `vs` is the values of the rows `a, a+1, …, b-1`, row after row: each row is one value of
    repetition level 0 followed by values of repetition level ≠ 0, all tagged with the row -/
inductive Groups : Nat → Nat → List Val → Prop
  | nil (a : Nat) : Groups a a []
  | cons {a b : Nat} {v : Val} {g rest : List Val} : v.row = a → v.rep = 0 →
      (∀ w ∈ g, w.row = a ∧ w.rep ≠ 0) → Groups (a + 1) b rest → Groups a b (v :: (g ++ rest))

/-- the pages of a column chunk of `total` rows, from row `f` on: consecutive row ranges, no empty
    page, the values of a page are the rows of its range -/
def WfPages : Nat → List Page → Nat → Prop
  | f, [], total => f = total
  | f, p :: ps, total =>
    p.firstRow = f ∧ 0 < p.numRows ∧ Groups f (f + p.numRows) p.vals ∧ WfPages (f + p.numRows) ps total

/-- a stream that starts with row `k`: the rows `k .. b-1`, ended by the chunk (`b = total`) or by a
    rejected page -/
def Lands (k total : Nat) (t : List Val × Bool) : Prop :=
  ∃ b, Groups k b t.1 ∧ b ≤ total ∧ (t.2 = false → b = total)

/-- column `c` stands on row `p` (`none`: nothing is known about it) -/
def ColAt (pages : List Page) (total : Nat) (c : Col) : Option Nat → Prop
  | none => True
  | some p => Lands p total (cstream pages c)

end PqModel.RowsRefine
