import PqModel.ConvertProofs

/-! C12, added columns: what the mirror of `convert.go` emits for a target subtree that the source
    does not have, for one instance of the enclosing group, compared with the specification
    (shredding the default value of the subtree). Streams are compared as Parquet streams: the
    payload of an entry only exists at the column's maximal definition level (`canon`). -/
namespace PqModel.Convert
open PqModel.Dremel


/-- erase the payload of entries below the column's maximal definition level -/
def canonCol (td : Nat) (c : List Triple) : List Triple :=
  c.map fun t => if t.dfn < td then ⟨none, t.rep, t.dfn⟩ else t

def canon (tds : List Nat) (X : Cols) : Cols := List.zipWith canonCol tds X

theorem canon_append {t1 t2 : List Nat} {A B : Cols} (h : t1.length = A.length) :
    canon (t1 ++ t2) (A ++ B) = canon t1 A ++ canon t2 B := by
  simp [canon, List.zipWith_append h]

/-- normal form of an added subtree in one group instance with levels `(r, d)`: every leaf column
    holds one entry, null unless `d` is the column's maximal definition level (then the zero value) -/
def nf (tds : List Nat) (r d : Nat) : Cols :=
  tds.map fun td => [⟨if d < td then none else some 0, r, d⟩]

theorem nf_append (t1 t2 : List Nat) (r d : Nat) : nf (t1 ++ t2) r d = nf t1 r d ++ nf t2 r d := by
  simp [nf]

mutual
theorem maxDefsN_length : ∀ (a : PNode) (d : Nat), (maxDefsN a d).length = leavesP a
  | .leaf, _ => by simp [maxDefsN, leavesP, eraseN, leavesN]
  | .group fs, d => by
    simp only [maxDefsN, leavesP, eraseN, leavesN]
    exact maxDefsF_length fs d
theorem maxDefsF_length : ∀ (fs : PFields) (d : Nat), (maxDefsF fs d).length = leavesF (eraseF fs)
  | .nil, _ => by simp [maxDefsF, eraseF, leavesF]
  | .cons nm rp n fs, d => by
    rw [leavesF_cons]
    simp only [maxDefsF, List.length_append]
    rw [maxDefsN_length n, maxDefsF_length fs]
end

/-! ### specification side -/

mutual
/-- an absent subtree (some ancestor is null or empty at definition level `d`) -/
theorem canon_absentN : ∀ (a : PNode) (td r d : Nat), d < td →
    canon (maxDefsN a td) (absentN (eraseN a) r d) = nf (maxDefsN a td) r d
  | .leaf, td, r, d, h => by simp [maxDefsN, eraseN, absentN, canon, canonCol, nf, h]
  | .group fs, td, r, d, h => by
    simp only [maxDefsN, eraseN, absentN]
    exact canon_absentF fs td r d h
theorem canon_absentF : ∀ (fs : PFields) (td r d : Nat), d < td →
    canon (maxDefsF fs td) (absentF (eraseF fs) r d) = nf (maxDefsF fs td) r d
  | .nil, _, _, _, _ => by simp [maxDefsF, eraseF, absentF, canon, nf]
  | .cons nm rp n fs, td, r, d, h => by
    simp only [maxDefsF, eraseF, absentF, absent_wrap, nf_append]
    rw [canon_append (by rw [maxDefsN_length, absentN_length]; rfl)]
    rw [canon_absentN n (td + defOf rp) r d (by omega), canon_absentF fs td r d h]
end

mutual
theorem dfltN_length : ∀ (a : PNode) (r k d : Nat), (shredN (eraseN a) r k d (dfltN a)).length = leavesP a
  | .leaf, _, _, _ => by simp [eraseN, shredN, dfltN, leavesP, leavesN]
  | .group fs, r, k, d => by
    simp only [eraseN, shredN, dfltN, leavesP, leavesN]
    exact dfltF_length fs r k d
theorem dfltF_length : ∀ (fs : PFields) (r k d : Nat), (shredF (eraseF fs) r k d (dfltF fs)).length = leavesF (eraseF fs)
  | .nil, _, _, _ => by simp [eraseF, shredF, dfltF, leavesF]
  | .cons nm rp n fs, r, k, d => by
    rw [leavesF_cons]
    simp only [eraseF, shredF, dfltF, List.length_append]
    rw [dfltF_length fs r k d]
    cases rp
    · simp only [wrap, dfltW]; rw [dfltN_length n r k d]
    · simp [wrap, dfltW, shredN, absentN_length, leavesP]
    · simp [wrap, dfltW, shredN, absentN_length, leavesP]
end

mutual
/-- the default value of a subtree in a present group instance (`d` = the group's max level) -/
theorem canon_dfltN : ∀ (a : PNode) (r k d : Nat),
    canon (maxDefsN a d) (shredN (eraseN a) r k d (dfltN a)) = nf (maxDefsN a d) r d
  | .leaf, r, k, d => by simp [maxDefsN, eraseN, shredN, dfltN, canon, canonCol, nf]
  | .group fs, r, k, d => by
    simp only [maxDefsN, eraseN, shredN, dfltN]
    exact canon_dfltF fs r k d
theorem canon_dfltF : ∀ (fs : PFields) (r k d : Nat),
    canon (maxDefsF fs d) (shredF (eraseF fs) r k d (dfltF fs)) = nf (maxDefsF fs d) r d
  | .nil, _, _, _ => by simp [maxDefsF, eraseF, shredF, dfltF, canon, nf]
  | .cons nm rp n fs, r, k, d => by
    simp only [maxDefsF, eraseF, shredF, dfltF, nf_append]
    have hl : (shredN (wrap rp (eraseN n)) r k d (dfltW rp (dfltN n))).length = leavesP n := by
      cases rp
      · simp only [wrap, dfltW]
        exact dfltN_length n r k d
      · simp [wrap, dfltW, shredN, absentN_length, leavesP]
      · simp [wrap, dfltW, shredN, absentN_length, leavesP]
    rw [canon_append (by rw [maxDefsN_length, hl])]
    rw [canon_dfltF fs r k d]
    congr 1
    cases rp
    · simp only [wrap, dfltW, defOf, Nat.add_zero]
      exact canon_dfltN n r k d
    · simp only [wrap, dfltW, shredN, defOf]
      exact canon_absentN n (d + 1) r d (by omega)
    · simp only [wrap, dfltW, shredN, defOf]
      exact canon_absentN n (d + 1) r d (by omega)
end

/-! ### mirror side -/

theorem stepS_lost (nm : Nat) (trp : Rp) (lv : Lv) (c : Option (List Triple)) :
    stepS nm trp lv (.lost c) = (lv.stepT trp, .lost c) := rfl

mutual
/-- the closest leaf sibling holds the single entry `(x, r, d)` in this group instance -/
theorem canon_lostN : ∀ (a : PNode) (trp : Rp) (lv : Lv) (x : Option Nat) (r d : Nat),
    d ≤ lv.td → (trp = .opt → d < lv.td) →
    canon (maxDefsN a lv.td) (convN a trp lv (.lost (some [⟨x, r, d⟩]))) = nf (maxDefsN a lv.td) r d
  | .leaf, trp, lv, x, r, d, hd, ho => by
    cases trp with
    | opt =>
      have h := ho rfl
      have h1 : ¬ d = lv.td := by omega
      have h2 : 0 < lv.td := by omega
      simp [convN, leafOut, maxDefsN, canon, canonCol, nf, toNullOpt, fixup, h, h1, h2]
    | req =>
      by_cases h : d < lv.td <;> simp [convN, leafOut, maxDefsN, canon, canonCol, nf, toZero, fixup, h]
    | rpt =>
      by_cases h : d < lv.td <;> simp [convN, leafOut, maxDefsN, canon, canonCol, nf, toZero, fixup, h]
  | .group fs, trp, lv, x, r, d, hd, _ => by
    simp only [convN, maxDefsN]
    exact canon_lostF fs lv x r d hd
theorem canon_lostF : ∀ (fs : PFields) (lv : Lv) (x : Option Nat) (r d : Nat), d ≤ lv.td →
    canon (maxDefsF fs lv.td) (convF fs lv (.lost (some [⟨x, r, d⟩]))) = nf (maxDefsF fs lv.td) r d
  | .nil, _, _, _, _, _ => by simp [convF, maxDefsF, canon, nf]
  | .cons nm rp n fs, lv, x, r, d, hd => by
    simp only [convF, stepS_lost, maxDefsF, nf_append]
    rw [canon_append (by rw [maxDefsN_length, convN_length])]
    have h := canon_lostN n rp (lv.stepT rp) x r d (by simp [Lv.stepT]; omega)
      (by intro h; subst h; simp [Lv.stepT, defOf]; omega)
    simp only [Lv.stepT] at h ⊢
    rw [h, canon_lostF fs lv x r d hd]
end

mutual
/-- no leaf sibling: one placeholder with levels (0, 0) -/
theorem canon_lostNoneN : ∀ (a : PNode) (trp : Rp) (lv : Lv), (trp = .opt → 0 < lv.td) →
    canon (maxDefsN a lv.td) (convN a trp lv (.lost none)) = nf (maxDefsN a lv.td) 0 0
  | .leaf, trp, lv, ho => by
    cases trp with
    | opt =>
      have h := ho rfl
      simp [convN, leafOut, maxDefsN, canon, canonCol, nf, placeholder, fixup, h]
    | req =>
      by_cases h : 0 < lv.td <;> simp [convN, leafOut, maxDefsN, canon, canonCol, nf, placeholder, toZero, fixup, h]
    | rpt =>
      by_cases h : 0 < lv.td <;> simp [convN, leafOut, maxDefsN, canon, canonCol, nf, placeholder, toZero, fixup, h]
  | .group fs, trp, lv, _ => by
    simp only [convN, maxDefsN]
    exact canon_lostNoneF fs lv
theorem canon_lostNoneF : ∀ (fs : PFields) (lv : Lv),
    canon (maxDefsF fs lv.td) (convF fs lv (.lost none)) = nf (maxDefsF fs lv.td) 0 0
  | .nil, _ => by simp [convF, maxDefsF, canon, nf]
  | .cons nm rp n fs, lv => by
    simp only [convF, stepS_lost, maxDefsF, nf_append]
    rw [canon_append (by rw [maxDefsN_length, convN_length])]
    have h := canon_lostNoneN n rp (lv.stepT rp) (by intro h; subst h; simp [Lv.stepT, defOf])
    simp only [Lv.stepT] at h ⊢
    rw [h, canon_lostNoneF fs lv]
end

end PqModel.Convert
