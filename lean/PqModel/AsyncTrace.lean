import PqModel.AsyncData
import PqModel.AsyncExec

/-! Trace-level consequences: the consumer's call history, the sequential run of that history,
    deadlock freedom. -/
namespace PqModel.Async

/-- the consumer's completed calls (SPEC side: what the caller did) -/
inductive Op where
  | seek (k : Nat)  -- SeekToRow(k) returned
  | read            -- ReadPage returned
deriving DecidableEq, Repr

/-- the completed consumer calls recorded in a log: a SeekToRow is complete at its send, a ReadPage
    at its delivery -/
def history : List Ev → List Op
  | [] => []
  | .seekSend k _ :: es => .seek k :: history es
  | .deliver _ _ :: es => .read :: history es
  | _ :: es => history es

/-- what ReadPage returned, in order -/
def delivered : List Ev → List Res
  | [] => []
  | .deliver r _ :: es => r :: delivered es
  | _ :: es => delivered es

/-- SPEC: one goroutine performing the calls on the wrapped reader: results of the reads -/
def seqRun (U : Under) (l : Loc) : List Op → List Res
  | [] => []
  | .seek k :: ops => seqRun U (lsSeek k l) ops
  | .read :: ops => (lsRead U l).2 :: seqRun U (lsRead U l).1 ops

/-- SPEC: the sequential reader's state after the calls -/
def seqState (U : Under) (l : Loc) : List Op → Loc
  | [] => l
  | .seek k :: ops => seqState U (lsSeek k l) ops
  | .read :: ops => seqState U (lsRead U l).1 ops

/-- the ghost reader moves exactly at the completed calls -/
def specAfter (U : Under) (e : Ev) (s : Loc) : Loc :=
  match e with
  | .seekSend k _ => lsSeek k s
  | .deliver _ _ => (lsRead U s).1
  | _ => s

theorem step_spec {U g e g'} (h : Step U g e g') : g'.spec = specAfter U e g.spec := by
  cases h <;> rfl

/-- the wrapped reader never fails fatally -/
def NoFatal (U : Under) : Prop := (∀ k c, U.sk k ≠ .fatal c) ∧ (∀ p c, U.rd p ≠ .fatal c)

theorem body_nofatal {U l l' o} (hn : NoFatal U) (h : body U l = (l', o)) (hf : l.ferr = none) :
    l'.ferr = none := by
  unfold body at h
  rcases hr : l.row with _ | k
  · rw [hf, hr] at h; simp only at h
    rcases hd : U.rd l.pos with _ | _ | c
    · rw [hd] at h; simp at h; (rw [← h.1]) <;> exact hf
    · rw [hd] at h; simp at h; (rw [← h.1]) <;> exact hf
    · exact absurd hd (hn.2 _ c)
  · rw [hf, hr] at h; simp only at h
    rcases hd : U.sk k with _ | c | c
    · rw [hd] at h; simp at h; rw [← h.1]
    · rw [hd] at h; simp at h; (rw [← h.1]) <;> exact hf
    · exact absurd hd (hn.1 _ c)

theorem step_nofatal {U g e g'} (hn : NoFatal U) (h : Step U g e g') (hf : g.loc.ferr = none) :
    g'.loc.ferr = none := by
  cases h <;> try exact hf
  case bodyCont l hp hb => exact body_nofatal hn hb hf
  case bodyOffer l r hp hb => exact body_nofatal hn hb hf

/-- state-level delivery theorem (used by Props.C15) -/
theorem deliver_correct {U g g' r v} (hr : Reachable U g) (hs : Step U g (.deliver r v) g') :
    v = g.cver ∧ (r = (lsRead U g.spec).2 ∨ ∃ e, g.loc.ferr = some e ∧ r = .fatal e) ∧
    g'.spec = (lsRead U g.spec).1 := by
  obtain ⟨_, hd⟩ := data_reachable hr
  cases hs with
  | deliver hc hv => exact ⟨hv, hd.got_res _ hc hv, rfl⟩

theorem path_trace {U g es g'} (hn : NoFatal U) (hp : Path U g es g') (hr : Reachable U g)
    (hf : g.loc.ferr = none) :
    delivered es = seqRun U g.spec (history es) ∧ g'.spec = seqState U g.spec (history es) ∧
    g'.loc.ferr = none := by
  induction hp with
  | nil => exact ⟨rfl, rfl, hf⟩
  | @cons g e g1 es g2 s p ih =>
    have hr1 : Reachable U g1 := by
      obtain ⟨es0, p0⟩ := hr; exact ⟨_, p0.snoc s⟩
    have hf1 := step_nofatal hn s hf
    obtain ⟨i1, i2, i3⟩ := ih hr1 hf1
    have hsp := step_spec s
    refine ⟨?_, ?_, i3⟩
    · cases e <;> simp only [delivered, history, seqRun] <;>
        (try (simp only [specAfter] at hsp; rw [← hsp]; exact i1))
      case deliver r v =>
        obtain ⟨_, h2, h3⟩ := deliver_correct hr s
        rcases h2 with h2 | ⟨e, he, _⟩
        · rw [h2, ← h3, i1]
        · rw [hf] at he; cases he
    · cases e <;> simp only [history, seqState] <;>
        (try (simp only [specAfter] at hsp; rw [← hsp]; exact i2))

/-- deadlock freedom (used by Props.C15) -/
theorem enabled_when_in_call {U g} (hc : Ctl g) (h : g.cpc ≠ .idle ∧ g.cpc ≠ .closed) :
    ∃ e g', Step U g e g' ∧ e ≠ .readBegin ∧ e ≠ .seekPoll true ∧ e ≠ .seekPoll false ∧ e ≠ .closeBegin := by
  rcases hcp : g.cpc with _ | _ | _ | it | _ | _
  · exact absurd hcp h.1
  · exact ⟨_, _, .seekSend (k := 0) hcp, by simp⟩
  · -- reading: whatever the producer is doing, it (or the rendezvous) can move
    have hi := hc.rd_init (Or.inl hcp)
    rcases hpp : g.ppc with _ | _ | _ | it | _ | _
    · exact ⟨_, _, .initPass hpp hi, by simp⟩
    · rcases hs : g.seekCh with _ | ⟨k, v⟩
      · exact ⟨_, _, .pollEmpty hpp hs, by simp⟩
      · exact ⟨_, _, .pollTake hpp hs, by simp⟩
    · rcases hb : body U g.loc with ⟨l, _ | r⟩
      · exact ⟨_, _, .bodyCont hpp hb, by simp⟩
      · exact ⟨_, _, .bodyOffer hpp hb, by simp⟩
    · exact ⟨_, _, .handoff hcp hpp, by simp⟩
    · have := hc.done_c (hc.fin_done (Or.inl hpp)); simp [hcp] at this
    · have := hc.done_c (hc.fin_done (Or.inr hpp)); simp [hcp] at this
  · by_cases hv : it.ver = g.cver
    · exact ⟨_, _, .deliver hcp hv, by simp⟩
    · exact ⟨_, _, .drop hcp hv, by simp⟩
  · -- closing
    have hd := hc.closing_done (Or.inl hcp)
    rcases hpp : g.ppc with _ | _ | _ | it | _ | _
    · exact ⟨_, _, .initDone hpp hd.1, by simp⟩
    · rcases hs : g.seekCh with _ | ⟨k, v⟩
      · exact ⟨_, _, .pollEmpty hpp hs, by simp⟩
      · exact ⟨_, _, .pollTake hpp hs, by simp⟩
    · rcases hb : body U g.loc with ⟨l, _ | r⟩
      · exact ⟨_, _, .bodyCont hpp hb, by simp⟩
      · exact ⟨_, _, .bodyOffer hpp hb, by simp⟩
    · exact ⟨_, _, .closeRecv hcp hpp, by simp⟩
    · exact ⟨_, _, .closeFinal hcp hpp, by simp⟩
    · exact ⟨_, _, .closeEnd hcp hpp, by simp⟩
  · exact absurd hcp h.2

end PqModel.Async
