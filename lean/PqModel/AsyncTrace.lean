import PqModel.AsyncData
import PqModel.AsyncExec

/-! Trace-level consequences: the consumer's call history, the sequential run of that history,
    deadlock freedom. -/
namespace PqModel.Async

/-- the consumer's completed calls (SPEC side: what the caller did) -/
inductive Op where
  | seek (k : Nat)  -- SeekToRow(k) returned
  | read            -- ReadPage returned
deriving DecidableEq, Repr

/-- the completed consumer calls recorded in a log: a SeekToRow is complete at its send, a ReadPage
    at its delivery -/
def history : List Ev → List Op
  | [] => []
  | .seekSend k _ :: es => .seek k :: history es
  | .deliver _ _ :: es => .read :: history es
  | _ :: es => history es

/-- what ReadPage returned, in order -/
def delivered : List Ev → List Res
  | [] => []
  | .deliver r _ :: es => r :: delivered es
  | _ :: es => delivered es

/-- SPEC: one goroutine performing the calls on the wrapped reader: results of the reads -/
def seqRun (U : Under) (l : Loc) : List Op → List Res
  | [] => []
  | .seek k :: ops => seqRun U (lsSeek k l) ops
  | .read :: ops => (lsRead U l).2 :: seqRun U (lsRead U l).1 ops

/-- SPEC: the sequential reader's state after the calls -/
def seqState (U : Under) (l : Loc) : List Op → Loc
  | [] => l
  | .seek k :: ops => seqState U (lsSeek k l) ops
  | .read :: ops => seqState U (lsRead U l).1 ops

/-- the ghost reader moves exactly at the completed calls -/
def specAfter (U : Under) (e : Ev) (s : Loc) : Loc :=
  match e with
  | .seekSend k _ => lsSeek k s
  | .deliver _ _ => (lsRead U s).1
  | _ => s

theorem step_spec {U g e g'} (h : Step U g e g') : g'.spec = specAfter U e g.spec := by
  cases h <;> rfl

/-- the wrapped reader never fails fatally -/
def NoFatal (U : Under) : Prop := (∀ k c, U.sk k ≠ .fatal c) ∧ (∀ p c, U.rd p ≠ .fatal c)

theorem body_nofatal {U l l' o} (hn : NoFatal U) (h : body U l = (l', o)) (hf : l.ferr = none) :
    l'.ferr = none := by
  unfold body at h
  rcases hr : l.row with _ | k
  · rw [hf, hr] at h; simp only at h
    rcases hd : U.rd l.pos with _ | _ | c
    · rw [hd] at h; simp at h; (rw [← h.1]) <;> exact hf
    · rw [hd] at h; simp at h; (rw [← h.1]) <;> exact hf
    · exact absurd hd (hn.2 _ c)
  · rw [hf, hr] at h; simp only at h
    rcases hd : U.sk k with _ | c | c
    · rw [hd] at h; simp at h; rw [← h.1]
    · rw [hd] at h; simp at h; (rw [← h.1]) <;> exact hf
    · exact absurd hd (hn.1 _ c)

theorem step_nofatal {U g e g'} (hn : NoFatal U) (h : Step U g e g') (hf : g.loc.ferr = none) :
    g'.loc.ferr = none := by
  cases h <;> try exact hf
  case bodyCont l hp hb => exact body_nofatal hn hb hf
  case bodyOffer l r hp hb => exact body_nofatal hn hb hf

/-- state-level delivery theorem (used by Props.C15) -/
theorem deliver_correct {U g g' r v} (hr : Reachable U g) (hs : Step U g (.deliver r v) g') :
    v = g.cver ∧ (r = (lsRead U g.spec).2 ∨ ∃ e, g.loc.ferr = some e ∧ r = .fatal e) ∧
    g'.spec = (lsRead U g.spec).1 := by
  obtain ⟨_, hd⟩ := data_reachable hr
  cases hs with
  | deliver hc hv => exact ⟨hv, hd.got_res _ hc hv, rfl⟩

theorem path_trace {U g es g'} (hn : NoFatal U) (hp : Path U g es g') (hr : Reachable U g)
    (hf : g.loc.ferr = none) :
    delivered es = seqRun U g.spec (history es) ∧ g'.spec = seqState U g.spec (history es) ∧
    g'.loc.ferr = none := by
  induction hp with
  | nil => exact ⟨rfl, rfl, hf⟩
  | @cons g e g1 es g2 s p ih =>
    have hr1 : Reachable U g1 := by
      obtain ⟨es0, p0⟩ := hr; exact ⟨_, p0.snoc s⟩
    have hf1 := step_nofatal hn s hf
    obtain ⟨i1, i2, i3⟩ := ih hr1 hf1
    have hsp := step_spec s
    refine ⟨?_, ?_, i3⟩
    · cases e <;> simp only [delivered, history, seqRun] <;>
        (try (simp only [specAfter] at hsp; rw [← hsp]; exact i1))
      case deliver r v =>
        obtain ⟨_, h2, h3⟩ := deliver_correct hr s
        rcases h2 with h2 | ⟨e, he, _⟩
        · rw [h2, ← h3, i1]
        · rw [hf] at he; cases he
    · cases e <;> simp only [history, seqState] <;>
        (try (simp only [specAfter] at hsp; rw [← hsp]; exact i2))

/-- deadlock freedom (used by Props.C15) -/
theorem enabled_when_in_call {U g} (hc : Ctl g) (h : g.cpc ≠ .idle ∧ g.cpc ≠ .closed) :
    ∃ e g', Step U g e g' ∧ e ≠ .readBegin ∧ e ≠ .seekPoll true ∧ e ≠ .seekPoll false ∧ e ≠ .closeBegin := by
  rcases hcp : g.cpc with _ | _ | _ | it | _ | _
  · exact absurd hcp h.1
  · exact ⟨_, _, .seekSend (k := 0) hcp, by simp⟩
  · -- reading: whatever the producer is doing, it (or the rendezvous) can move
    have hi := hc.rd_init (Or.inl hcp)
    rcases hpp : g.ppc with _ | _ | _ | it | _ | _
    · exact ⟨_, _, .initPass hpp hi, by simp⟩
    · rcases hs : g.seekCh with _ | ⟨k, v⟩
      · exact ⟨_, _, .pollEmpty hpp hs, by simp⟩
      · exact ⟨_, _, .pollTake hpp hs, by simp⟩
    · rcases hb : body U g.loc with ⟨l, _ | r⟩
      · exact ⟨_, _, .bodyCont hpp hb, by simp⟩
      · exact ⟨_, _, .bodyOffer hpp hb, by simp⟩
    · exact ⟨_, _, .handoff hcp hpp, by simp⟩
    · have := hc.done_c (hc.fin_done (Or.inl hpp)); simp [hcp] at this
    · have := hc.done_c (hc.fin_done (Or.inr hpp)); simp [hcp] at this
  · by_cases hv : it.ver = g.cver
    · exact ⟨_, _, .deliver hcp hv, by simp⟩
    · exact ⟨_, _, .drop hcp hv, by simp⟩
  · -- closing
    have hd := hc.closing_done (Or.inl hcp)
    rcases hpp : g.ppc with _ | _ | _ | it | _ | _
    · exact ⟨_, _, .initDone hpp hd.1, by simp⟩
    · rcases hs : g.seekCh with _ | ⟨k, v⟩
      · exact ⟨_, _, .pollEmpty hpp hs, by simp⟩
      · exact ⟨_, _, .pollTake hpp hs, by simp⟩
    · rcases hb : body U g.loc with ⟨l, _ | r⟩
      · exact ⟨_, _, .bodyCont hpp hb, by simp⟩
      · exact ⟨_, _, .bodyOffer hpp hb, by simp⟩
    · exact ⟨_, _, .closeRecv hcp hpp, by simp⟩
    · exact ⟨_, _, .closeFinal hcp hpp, by simp⟩
    · exact ⟨_, _, .closeEnd hcp hpp, by simp⟩
  · exact absurd hcp h.2

/-- events that are not the start of a consumer call -/
def quiet : Ev → Bool
  | .handoff | .drop _ | .initPass | .pollTake _ _ | .pollEmpty | .bodyCont | .bodyOffer _ _ | .selTake _ _ => true
  | _ => false

theorem complete_from_offer {U g l r} (hc : g.cpc = .reading) (hp : g.ppc = .top) (hv : g.pver = g.cver)
    (hb : body U g.loc = (l, some r)) :
    ∃ es v g', Path U g (es ++ [.deliver r v]) g' ∧ es.length ≤ 2 ∧ ∀ e ∈ es, quiet e = true := by
  have p : Path U g [.bodyOffer r g.pver, .handoff, .deliver r g.pver] _ :=
    .cons (.bodyOffer hp hb) (.cons (.handoff (it := ⟨r, g.pver, g.nprod⟩) hc rfl)
      (.cons (.deliver (it := ⟨r, g.pver, g.nprod⟩) rfl hv) .nil))
  exact ⟨[.bodyOffer r g.pver, .handoff], g.pver, _, p, by simp, by simp [quiet]⟩

theorem complete_from_top {U g} (hc : g.cpc = .reading) (hp : g.ppc = .top) (hv : g.pver = g.cver) :
    ∃ es r v g', Path U g (es ++ [.deliver r v]) g' ∧ es.length ≤ 3 ∧ ∀ e ∈ es, quiet e = true := by
  rcases hb : body U g.loc with ⟨l, _ | r⟩
  · obtain ⟨l2, r, hb2⟩ := body_none_then_some hb
    obtain ⟨es, v, g', p, hl, hq⟩ :=
      complete_from_offer (U := U) (g := { g with loc := l }) (l := l2) (r := r) hc hp hv hb2
    refine ⟨.bodyCont :: es, r, v, g', .cons (.bodyCont hp hb) p, by simp; omega, ?_⟩
    intro e he
    rcases List.mem_cons.mp he with rfl | he
    · rfl
    · exact hq e he
  · obtain ⟨es, v, g', p, hl, hq⟩ := complete_from_offer hc hp hv hb
    exact ⟨es, r, v, g', p, by omega, hq⟩

/-- ReadPage can always complete: from every reachable state in which the consumer waits in
    ReadPage there is a path of at most 8 producer/rendezvous steps (no new consumer call) to
    a delivery -/
theorem read_can_complete {U g} (hr : Reachable U g) (hc : g.cpc = .reading) :
    ∃ es r v g', Path U g (es ++ [.deliver r v]) g' ∧ es.length ≤ 7 ∧ ∀ e ∈ es, quiet e = true := by
  have hctl := (data_reachable hr).1
  have hinit := hctl.rd_init (Or.inl hc)
  -- once the producer is at `top` with the current version the rest is `complete_from_top`
  have fromTop : ∀ (g1 : G) (pre : List Ev), Path U g pre g1 → g1.cpc = .reading → g1.ppc = .top →
      g1.pver = g1.cver → pre.length ≤ 4 → (∀ e ∈ pre, quiet e = true) →
      ∃ es r v g', Path U g (es ++ [.deliver r v]) g' ∧ es.length ≤ 7 ∧ ∀ e ∈ es, quiet e = true := by
    intro g1 pre pp h1 h2 h3 pl pq
    obtain ⟨es, r, v, g', p, hl, hq⟩ := complete_from_top (U := U) h1 h2 h3
    refine ⟨pre ++ es, r, v, g', by rw [List.append_assoc]; exact pp.append p, by simp; omega, ?_⟩
    intro e he
    rcases List.mem_append.mp he with he | he
    · exact pq e he
    · exact hq e he
  -- from `poll`
  have fromPoll : ∀ (g1 : G) (pre : List Ev), Path U g pre g1 → Ctl g1 → g1.cpc = .reading → g1.ppc = .poll →
      pre.length ≤ 1 → (∀ e ∈ pre, quiet e = true) →
      ∃ es r v g', Path U g (es ++ [.deliver r v]) g' ∧ es.length ≤ 7 ∧ ∀ e ∈ es, quiet e = true := by
    intro g1 pre pp c1 h1 h2 pl pq
    rcases hs : g1.seekCh with _ | ⟨k, v⟩
    · have hv := c1.cur hs (by simp [h1])
      have p1 := pp.snoc (Step.pollEmpty (U := U) h2 hs)
      refine fromTop _ _ p1 h1 rfl hv (by simp; omega) ?_
      intro e he
      rcases List.mem_append.mp he with he | he
      · exact pq e he
      · simp at he; subst he; rfl
    · have hv := (c1.ch k v hs).1
      have p1 := pp.snoc (Step.pollTake (U := U) h2 hs)
      refine fromTop _ _ p1 h1 rfl hv (by simp; omega) ?_
      intro e he
      rcases List.mem_append.mp he with he | he
      · exact pq e he
      · simp at he; subst he; rfl
  rcases hp : g.ppc with _ | _ | _ | it | _ | _
  · -- waitInit
    have s := Step.initPass (U := U) hp hinit
    exact fromPoll _ [.initPass] (.cons s .nil) (ctl_step hctl s) hc rfl (by simp) (by simp [quiet])
  · exact fromPoll g [] .nil hctl hc hp (by simp) (by simp)
  · -- top: current, or a seek is waiting in the channel
    rcases hs : g.seekCh with _ | ⟨k, v⟩
    · exact fromTop g [] .nil hc hp (hctl.cur hs (by simp [hc])) (by simp) (by simp)
    · have hv := (hctl.ch k v hs).1
      -- produce something (one or two body steps), then take the seek
      rcases hb : body U g.loc with ⟨l, _ | r⟩
      · obtain ⟨l2, r, hb2⟩ := body_none_then_some hb
        have s1 := Step.bodyCont (U := U) hp hb
        have s2 := Step.bodyOffer (U := U) (g := { g with loc := l }) (l := l2) (r := r) hp hb2
        have s3 := Step.selTake (U := U)
          (g := { g with loc := l2, ppc := .send ⟨r, g.pver, g.nprod⟩, nprod := g.nprod + 1 })
          (it := ⟨r, g.pver, g.nprod⟩) (k := k) (v := v) rfl hs
        exact fromTop _ [.bodyCont, .bodyOffer r g.pver, .selTake k v]
          (.cons s1 (.cons s2 (.cons s3 .nil))) hc rfl hv (by simp) (by simp [quiet])
      · have s2 := Step.bodyOffer (U := U) hp hb
        have s3 := Step.selTake (U := U)
          (g := { g with loc := l, ppc := .send ⟨r, g.pver, g.nprod⟩, nprod := g.nprod + 1 })
          (it := ⟨r, g.pver, g.nprod⟩) (k := k) (v := v) rfl hs
        exact fromTop _ [.bodyOffer r g.pver, .selTake k v]
          (.cons s2 (.cons s3 .nil)) hc rfl hv (by simp) (by simp [quiet])
  · -- send it
    rcases hs : g.seekCh with _ | ⟨k, v⟩
    · have hv := hctl.cur hs (by simp [hc])
      have hiv := hctl.send_ver it hp
      have p : Path U g [.handoff, .deliver it.res it.ver] _ :=
        .cons (.handoff hc hp) (.cons (.deliver (it := it) rfl (by simp; omega)) .nil)
      exact ⟨[.handoff], it.res, it.ver, _, p, by simp, by simp [quiet]⟩
    · have hv := (hctl.ch k v hs).1
      have s3 := Step.selTake (U := U) hp hs
      exact fromTop _ [.selTake k v] (.cons s3 .nil) hc rfl hv (by simp) (by simp [quiet])
  · have := hctl.done_c (hctl.fin_done (Or.inl hp)); simp [hc] at this
  · have := hctl.done_c (hctl.fin_done (Or.inr hp)); simp [hc] at this

end PqModel.Async
