import PqModel.VariantShredLemmas

/-!
# Path navigation through the columnar variant reader (property C19, typed read by path)

MIRROR of the per-entry logic of `variant_column_reader.go` at the level of logical slots (the same
abstraction as `VariantShred.lean`: one `(value, typed_value)` slot per occurrence; the Dremel level
arithmetic that finds the slot of an entry is the level layer / L1). A cursor shows, at every entry
of its window, a location tag with something behind it (`Cur`). Cursors are created by `Field` and
`Elements` steps, for ANY name: below the shredded schema they are backed by the residual value of
the nearest shredded ancestor — a whole residual value, or the leftover fields of a partially
shredded object.

SPEC side (written from the Variant documents only): `fieldOf` / `elemsOf` — the field `k` / the
elements of a value; `navSpec` — the entries of a path over a window of rows.
-/
namespace PqModel.Variant

/-- what a cursor shows at one entry: `variant.Loc` with what is behind the tag -/
inductive Cur
  | missing                                   -- LocMissing
  | null                                      -- LocNull
  | resid (v : Value)                         -- LocResidual: a (decoded / navigated) residual value
  | typedPrim (p : Prim)                      -- LocTyped
  | typedObj (fields : List (Key × Schema)) (tfs : List (Key × Slot)) (leftover : Option Value)
                                              -- LocTypedObject, with the `value` column's leftover
  | typedList (e : Schema) (slots : List Slot) -- LocTypedList

/-- MIRROR variant_column_reader.go:1072-1083 (`computeOwn`, value side) and 829-839
    (`setNavigated`): variant null is tagged LocNull, anything else LocResidual. -/
def ofValue : Value → Cur
  | .prim .null => .null
  | v => .resid v

/-- MIRROR variant_column_reader.go:1031-1086 `computeOwn` (and its bulk twin `computeOwnFlat`,
    1093-1167): the entry from the node's own columns. `missingLoc` is the tag used when both
    sides are null (LocMissing for object fields, LocNull for the root and list elements). A
    present primitive / list typed_value wins over `value`; next to an object typed_value a present
    `value` is the leftover of a partially shredded object. -/
def own (missingLoc : Cur) : Schema → Slot → Cur
  | _, .missing => missingLoc
  | .prim _, .mk _ (.prim p) => .typedPrim p
  | .obj fields, .mk val (.obj tfs) => .typedObj fields tfs val
  | .list e, .mk _ (.list slots) => .typedList e slots
  | _, .mk (some v) _ => ofValue v
  | _, .mk none _ => missingLoc

/-- MIRROR variant_column_reader.go:589-606 `Field` (`fieldByName`: the first schema field of that
    name) together with the slot of that field group in the entry's typed object. -/
def lookupField (k : Key) : List (Key × Schema) → List (Key × Slot) → Option (Schema × Slot)
  | (name, s) :: fields, (_, sl) :: tfs => if name = k then some (s, sl) else lookupField k fields tfs
  | _, _ => none

/-- MIRROR variant_column_reader.go:970-980 `navigateField`: first field of that name of a decoded
    residual object; anything else stays missing. -/
def navValue (k : Key) : Value → Cur
  | .obj fs =>
    match findField k fs with
    | some x => ofValue x
    | none => .missing
  | _ => .missing

/-- MIRROR variant_column_reader.go:920-968, one entry of `processShreddedField` /
    `processVirtualField`: below a residual parent the field is navigated inside the residual value;
    below a typed object a field of the shredding schema is read from its own columns, any other name
    is navigated inside the leftover; everywhere else the field is missing. -/
def fieldCur (k : Key) : Cur → Cur
  | .resid v => navValue k v
  | .typedObj fields tfs leftover =>
    match lookupField k fields tfs with
    | some (s, sl) => own .missing s sl
    | none =>
      match leftover with
      | some v => navValue k v
      | none => .missing
  | _ => .missing

/-- MIRROR variant_column_reader.go:982-1024 `processElements`, the entries one parent entry
    contributes: the element slots of a typed list (both sides null reads as variant null), or the
    elements of a residual array. -/
def elemsCur : Cur → List Cur
  | .resid (.arr es) => es.map ofValue
  | .typedList e slots => slots.map (own .null e)
  | _ => []

/-- has the entry residual state (`len(p.res) != 0` counts these): a residual value, or the
    leftover bytes of a partially shredded object — NOT only the entries tagged LocResidual. -/
def hasRes : Cur → Bool
  | .resid _ => true
  | .typedObj _ _ (some _) => true
  | _ => false

/-- MIRROR variant_column_reader.go:949-968 `processVirtualField` on a window of parent entries,
    with its shortcut: when no parent entry has residual state every entry is missing. -/
def virtualFieldWindow (k : Key) (ps : List Cur) : List Cur :=
  if ps.all (fun p => !hasRes p) then ps.map fun _ => .missing
  else ps.map fun p =>
    match p with
    | .resid v => navValue k v
    | .typedObj _ _ (some v) => navValue k v
    | _ => .missing

/-- the value behind an entry, rebuilt the way a caller of the API does it: typed objects and
    lists through the row reader's reconstruction of that slot (`unshredR`). -/
def matCur : Cur → RRes
  | .missing => .missing
  | .null => .val (.prim .null)
  | .resid v => .val v
  | .typedPrim p => .val (.prim p)
  | .typedObj fields tfs lo => unshredR (.obj fields) (.mk lo (.obj tfs))
  | .typedList e slots => unshredR (.list e) (.mk none (.list slots))

/-! ### SPEC: paths over values -/

/-- SPEC: the field `k` of a value (objects only; first field of that name) -/
def fieldOf (k : Key) : Value → Option Value
  | .obj fs => findField k fs
  | _ => none

/-- SPEC: the elements of what sits at a position (arrays only) -/
def elemsOf : Option Value → List (Option Value)
  | some (.arr es) => es.map some
  | _ => []

inductive Step
  | field (k : Key)
  | elems

/-- SPEC: the entries of `p + step` from the entries of `p` -/
def navSpec : Step → List (Option Value) → List (Option Value)
  | .field k, os => os.map fun o => o.bind (fieldOf k)
  | .elems, os => os.flatMap elemsOf

/-- MIRROR: the window of the child cursor from the window of its parent -/
def navCur : Step → List Cur → List Cur
  | .field k, cs => cs.map (fieldCur k)
  | .elems, cs => cs.flatMap elemsCur

def navPathSpec (path : List Step) (os : List (Option Value)) : List (Option Value) :=
  path.foldl (fun acc st => navSpec st acc) os

def navPathCur (path : List Step) (cs : List Cur) : List Cur :=
  path.foldl (fun acc st => navCur st acc) cs

/-- the root cursor's window over rows shredded by the writer (`processRoot`: both null = LocNull) -/
def rootWindow (s : Schema) (vs : List Value) : List Cur := vs.map fun v => own .null s (shred s v)

/-- two lists related entry by entry (core has no `Forall₂`) -/
inductive All2 {α β : Type} (R : α → β → Prop) : List α → List β → Prop
  | nil : All2 R [] []
  | cons {a b as bs} : R a b → All2 R as bs → All2 R (a :: as) (b :: bs)

/-- `Shows c o`: the entry `c` stands for the (possibly missing) value `o` written at that path -/
inductive Shows : Cur → Option Value → Prop
  | missing : Shows .missing none
  | value (v : Value) : Shows (ofValue v) (some v)
  | shredded (m : Cur) (s : Schema) (v : Value) (hs : wfS s = true) (hv : distinctKeys v = true) :
      Shows (own m s (shred s v)) (some v)

/-! ### lemmas -/

theorem own_missing (m : Cur) (s : Schema) : own m s .missing = m := by
  cases s <;> simp [own]

theorem shredList_eq_map (e : Schema) (es : List Value) : shredList e es = es.map (shred e) := by
  induction es with
  | nil => simp [shredList]
  | cons x xs ih => simp [shredList, ih]

/-- the first schema field of a name -/
def findSchema (k : Key) : List (Key × Schema) → Option Schema
  | [] => none
  | (name, s) :: rest => if name = k then some s else findSchema k rest

theorem lookupField_shredFields (k : Key) (fields : List (Key × Schema)) (fs : List (Key × Value)) :
    lookupField k fields (shredFields fields fs) =
      (findSchema k fields).map fun s =>
        (s, match findField k fs with
            | some fv => shred s fv
            | none => .missing) := by
  induction fields with
  | nil => simp [lookupField, findSchema]
  | cons f rest ih =>
    obtain ⟨name, s⟩ := f
    simp only [shredFields, lookupField, findSchema]
    split
    · rename_i h; subst h; rfl
    · exact ih

theorem findSchema_none {k : Key} {fields : List (Key × Schema)} (h : findSchema k fields = none) :
    (schemaNames fields).contains k = false := by
  induction fields with
  | nil => simp [schemaNames]
  | cons f rest ih =>
    obtain ⟨name, s⟩ := f
    simp only [findSchema] at h
    split at h
    · cases h
    · rename_i hne
      have := ih h
      simp only [schemaNames, List.map_cons, List.contains_cons, Bool.or_eq_false_iff] at this ⊢
      exact ⟨by simpa using fun e => hne e.symm, this⟩

theorem wfS_findSchema {k : Key} {fields : List (Key × Schema)} {s : Schema}
    (hw : wfSFields fields = true) (h : findSchema k fields = some s) : wfS s = true := by
  induction fields with
  | nil => simp [findSchema] at h
  | cons f rest ih =>
    obtain ⟨name, s'⟩ := f
    simp only [wfSFields, Bool.and_eq_true] at hw
    simp only [findSchema] at h
    split at h
    · cases h; exact hw.1
    · exact ih hw.2 h

theorem findField_filter (k : Key) (names : List Key) (hk : names.contains k = false)
    (fs : List (Key × Value)) :
    findField k (fs.filter fun f => !names.contains f.1) = findField k fs := by
  induction fs with
  | nil => simp [findField]
  | cons f rest ih =>
    obtain ⟨k', v'⟩ := f
    rw [List.filter_cons]
    by_cases hc : names.contains k' = true
    · have hne : ¬ k' = k := by
        intro e; rw [e] at hc; rw [hc] at hk; cases hk
      rw [if_neg (by rw [hc]; decide)]
      simp only [findField, if_neg hne]
      exact ih
    · have hc' : names.contains k' = false := by simpa using hc
      rw [if_pos (by rw [hc']; decide)]
      simp only [findField]
      split
      · rfl
      · exact ih

theorem distinctKeys_findField {k : Key} {fs : List (Key × Value)} {v : Value}
    (hv : distinctKeys (.obj fs) = true) (h : findField k fs = some v) : distinctKeys v = true := by
  simp only [distinctKeys, Bool.and_eq_true] at hv
  exact (distinctKeysF_iff fs).mp hv.1 _ (findField_mem h)

theorem shows_ofValue_field (k : Key) (v : Value) : Shows (fieldCur k (ofValue v)) (fieldOf k v) := by
  cases v with
  | prim p => cases p <;> simp [ofValue, fieldCur, navValue, fieldOf] <;> exact .missing
  | arr es => simp [ofValue, fieldCur, navValue, fieldOf]; exact .missing
  | obj fs =>
    simp only [ofValue, fieldCur, navValue, fieldOf]
    split
    · rename_i x hx; rw [hx]; exact .value x
    · rename_i hx; rw [hx]; exact .missing

theorem shows_navValue (k : Key) (v : Value) : Shows (navValue k v) (fieldOf k v) := by
  cases v with
  | prim p => simp [navValue, fieldOf]; exact .missing
  | arr es => simp [navValue, fieldOf]; exact .missing
  | obj fs =>
    simp only [navValue, fieldOf]
    split
    · rename_i x hx; rw [hx]; exact .value x
    · rename_i hx; rw [hx]; exact .missing

/-- a `Field` step keeps `Shows`: the child entry stands for the field of the parent's value, for a
    name of the shredding schema or any other. -/
theorem shows_field (k : Key) {c : Cur} {o : Option Value} (h : Shows c o) :
    Shows (fieldCur k c) (o.bind (fieldOf k)) := by
  cases h with
  | missing => simp [fieldCur]; exact .missing
  | value v => simpa using shows_ofValue_field k v
  | shredded m s v hs hv =>
    simp only [Option.bind_some]
    cases s with
    | untyped => simp only [shred, own]; exact shows_ofValue_field k v
    | prim t =>
      cases v with
      | prim p =>
        simp only [shred]
        split
        · simp [own, fieldCur, fieldOf]; exact .missing
        · simp only [own]; exact shows_ofValue_field k _
      | arr es => simp only [shred, own]; exact shows_ofValue_field k _
      | obj fs => simp only [shred, own]; exact shows_ofValue_field k _
    | list e =>
      cases v with
      | prim p => simp only [shred, own]; exact shows_ofValue_field k _
      | arr es => simp [shred, own, fieldCur, fieldOf]; exact .missing
      | obj fs => simp only [shred, own]; exact shows_ofValue_field k _
    | obj fields =>
      cases v with
      | prim p => simp only [shred, own]; exact shows_ofValue_field k _
      | arr es => simp only [shred, own]; exact shows_ofValue_field k _
      | obj fs =>
        simp only [shred, own, fieldCur, fieldOf, lookupField_shredFields]
        simp only [wfS, Bool.and_eq_true] at hs
        cases hf : findSchema k fields with
        | some sk =>
          simp only [Option.map_some]
          have hsk := wfS_findSchema hs.1 hf
          cases hx : findField k fs with
          | some fv => exact .shredded .missing sk fv hsk (distinctKeys_findField hv hx)
          | none => exact .missing
        | none =>
          simp only [Option.map_none]
          have hflt := findField_filter k (schemaNames fields) (findSchema_none hf) fs
          by_cases hempty : (fs.filter fun f => !(schemaNames fields).contains f.1).isEmpty = true
          · have hnil : (fs.filter fun f => !(schemaNames fields).contains f.1) = [] := by
              simpa [List.isEmpty_iff] using hempty
            rw [hnil] at hflt
            simp only [findField] at hflt
            simp only [hempty, if_true]
            rw [← hflt]; exact .missing
          · rw [if_neg hempty]
            have := shows_navValue k (.obj (fs.filter fun f => !(schemaNames fields).contains f.1))
            simp only [fieldOf, hflt] at this
            exact this

theorem forall2_map_shows_value (es : List Value) :
    All2 Shows (es.map ofValue) (es.map some) := by
  induction es with
  | nil => exact .nil
  | cons x xs ih => exact .cons (.value x) ih

theorem shows_ofValue_elems (v : Value) : All2 Shows (elemsCur (ofValue v)) (elemsOf (some v)) := by
  cases v with
  | prim p => cases p <;> simp only [ofValue, elemsCur, elemsOf] <;> exact .nil
  | arr es => simpa [ofValue, elemsCur, elemsOf] using forall2_map_shows_value es
  | obj fs => simp only [ofValue, elemsCur, elemsOf]; exact .nil

/-- an `Elements` step keeps `Shows`, entry by entry: the child entries of one parent entry stand for
    the elements of the array written there (none when it is not an array). -/
theorem shows_elems {c : Cur} {o : Option Value} (h : Shows c o) :
    All2 Shows (elemsCur c) (elemsOf o) := by
  cases h with
  | missing => simp only [elemsCur, elemsOf]; exact .nil
  | value v => exact shows_ofValue_elems v
  | shredded m s v hs hv =>
    cases s with
    | untyped => simp only [shred, own]; exact shows_ofValue_elems v
    | prim t =>
      cases v with
      | prim p =>
        simp only [shred]
        split
        · simp only [own, elemsCur, elemsOf]; exact .nil
        · simp only [own]; exact shows_ofValue_elems _
      | arr es => simp only [shred, own]; exact shows_ofValue_elems _
      | obj fs => simp only [shred, own]; exact shows_ofValue_elems _
    | obj fields =>
      cases v with
      | prim p => simp only [shred, own]; exact shows_ofValue_elems _
      | arr es => simp only [shred, own]; exact shows_ofValue_elems _
      | obj fs => simp only [shred, own, elemsCur, elemsOf]; exact .nil
    | list e =>
      cases v with
      | prim p => simp only [shred, own]; exact shows_ofValue_elems _
      | obj fs => simp only [shred, own]; exact shows_ofValue_elems _
      | arr es =>
        simp only [shred, own, elemsCur, elemsOf, shredList_eq_map, List.map_map]
        simp only [wfS] at hs
        simp only [distinctKeys] at hv
        have hall := (distinctKeysL_iff es).mp hv
        clear hv
        induction es with
        | nil => exact .nil
        | cons x xs ih =>
          exact .cons (.shredded .null e x hs (hall x (by simp)))
            (ih (fun y hy => hall y (List.mem_cons_of_mem _ hy)))

theorem forall2_append {α β : Type} {R : α → β → Prop} {a1 a2 : List α} {b1 b2 : List β}
    (h1 : All2 R a1 b1) (h2 : All2 R a2 b2) : All2 R (a1 ++ a2) (b1 ++ b2) := by
  induction h1 with
  | nil => simpa using h2
  | cons h _ ih => exact .cons h ih

/-- one step over a whole window -/
theorem shows_step (st : Step) {cs : List Cur} {os : List (Option Value)}
    (h : All2 Shows cs os) : All2 Shows (navCur st cs) (navSpec st os) := by
  cases st with
  | field k =>
    simp only [navCur, navSpec]
    induction h with
    | nil => exact .nil
    | cons hx _ ih => exact .cons (shows_field k hx) ih
  | elems =>
    simp only [navCur, navSpec]
    induction h with
    | nil => exact .nil
    | cons hx _ ih => simpa [List.flatMap_cons] using forall2_append (shows_elems hx) ih

theorem shows_path (path : List Step) : ∀ {cs : List Cur} {os : List (Option Value)},
    All2 Shows cs os → All2 Shows (navPathCur path cs) (navPathSpec path os) := by
  induction path with
  | nil => intro cs os h; simpa [navPathCur, navPathSpec] using h
  | cons st rest ih =>
    intro cs os h
    simp only [navPathCur, navPathSpec, List.foldl_cons]
    exact ih (shows_step st h)

theorem shows_rootWindow (s : Schema) (hs : wfS s = true) (vs : List Value)
    (hv : ∀ v ∈ vs, distinctKeys v = true) :
    All2 Shows (rootWindow s vs) (vs.map some) := by
  induction vs with
  | nil => exact .nil
  | cons x xs ih =>
    exact .cons (.shredded .null s x hs (hv x (by simp)))
      (ih (fun y hy => hv y (List.mem_cons_of_mem _ hy)))

theorem matCur_ofValue (v : Value) : matCur (ofValue v) = .val v := by
  cases v with
  | prim p => cases p <;> simp [ofValue, matCur]
  | arr es => simp [ofValue, matCur]
  | obj fs => simp [ofValue, matCur]

/-- what is behind an entry built from the writer's slot is what the row reader reconstructs -/
theorem matCur_own_shred (m : Cur) (s : Schema) (v : Value) :
    matCur (own m s (shred s v)) = unshredR s (shred s v) := by
  cases s with
  | untyped => simp [shred, own, matCur_ofValue, unshredR, valueCol]
  | prim t =>
    cases v with
    | prim p =>
      simp only [shred]
      split
      · simp [own, matCur, unshredR]
      · simp [own, matCur_ofValue, unshredR, valueCol]
    | arr es => simp [shred, own, matCur_ofValue, unshredR, valueCol]
    | obj fs => simp [shred, own, matCur_ofValue, unshredR, valueCol]
  | list e =>
    cases v with
    | prim p => simp [shred, own, matCur_ofValue, unshredR, valueCol]
    | arr es => simp [shred, own, matCur]
    | obj fs => simp [shred, own, matCur_ofValue, unshredR, valueCol]
  | obj fields =>
    cases v with
    | prim p => simp [shred, own, matCur_ofValue, unshredR, valueCol]
    | arr es => simp [shred, own, matCur_ofValue, unshredR, valueCol]
    | obj fs => simp [shred, own, matCur]

/-- the shortcut of `processVirtualField` is sound: for a name outside the shredding schema of
    every parent entry, the window it computes is the entry-by-entry navigation. -/
theorem virtualFieldWindow_eq (k : Key) (ps : List Cur)
    (hk : ∀ p ∈ ps, ∀ fields tfs lo, p = .typedObj fields tfs lo → lookupField k fields tfs = none) :
    virtualFieldWindow k ps = ps.map (fieldCur k) := by
  have hentry : ∀ p ∈ ps, (match p with
      | .resid v => navValue k v
      | .typedObj _ _ (some v) => navValue k v
      | _ => Cur.missing) = fieldCur k p := by
    intro p hp
    cases p with
    | typedObj fields tfs lo =>
      have := hk _ hp fields tfs lo rfl
      cases lo <;> simp [fieldCur, this]
    | _ => simp [fieldCur]
  have hfast : ∀ p ∈ ps, hasRes p = false → fieldCur k p = .missing := by
    intro p hp hr
    cases p with
    | typedObj fields tfs lo =>
      have := hk _ hp fields tfs lo rfl
      cases lo with
      | none => simp [fieldCur, this]
      | some v => simp [hasRes] at hr
    | resid v => simp [hasRes] at hr
    | _ => simp [fieldCur]
  unfold virtualFieldWindow
  split
  · rename_i hall
    apply List.map_congr_left
    intro p hp
    have := List.all_eq_true.mp hall p hp
    exact (hfast p hp (by simpa using this)).symm
  · exact List.map_congr_left hentry

end PqModel.Variant
