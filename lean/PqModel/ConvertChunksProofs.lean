import PqModel.ConvertChunks
import PqModel.ConvertAddedTree

namespace PqModel.Convert
open PqModel.Dremel

/-! ### sorting columns -/

theorem carrySorting_prefix {κ : Type} (sv : κ → Bool) : ∀ (cs : List κ),
    ∃ rest, cs = carrySorting sv cs ++ rest ∧ (∀ c ∈ carrySorting sv cs, sv c = true) ∧
      (rest = [] ∨ ∃ c r, rest = c :: r ∧ sv c = false)
  | [] => ⟨[], rfl, by simp [carrySorting], Or.inl rfl⟩
  | c :: cs => by
    by_cases h : sv c = true
    · obtain ⟨rest, h1, h2, h3⟩ := carrySorting_prefix sv cs
      refine ⟨rest, ?_, ?_, h3⟩
      · simp only [carrySorting, h, if_true, List.cons_append]; rw [← h1]
      · intro x hx
        simp only [carrySorting, h, if_true, List.mem_cons] at hx
        rcases hx with rfl | hx
        · exact h
        · exact h2 x hx
    · refine ⟨c :: cs, by simp [carrySorting, h], by simp [carrySorting, h], Or.inr ⟨c, cs, rfl, by simpa using h⟩⟩

theorem lexLE_prefix {ρ : Type} : ∀ (k1 k2 : List (ρ → ρ → Ordering)) (a b : ρ),
    lexLE (k1 ++ k2) a b = true → lexLE k1 a b = true
  | [], _, _, _, _ => rfl
  | k :: ks, k2, a, b, h => by
    simp only [List.cons_append, lexLE] at h ⊢
    cases hk : k a b <;> simp only [hk] at h ⊢
    · exact lexLE_prefix ks k2 a b h
    · exact h

theorem sortedBy_prefix {ρ : Type} (k1 k2 : List (ρ → ρ → Ordering)) : ∀ (rows : List ρ),
    SortedBy (k1 ++ k2) rows → SortedBy k1 rows
  | [], _ => trivial
  | [_], _ => trivial
  | a :: b :: rest, h => ⟨lexLE_prefix k1 k2 a b h.1, sortedBy_prefix k1 k2 (b :: rest) h.2⟩

theorem lexLE_map {α β κ : Type} (f : α → β) (key : κ → α → α → Ordering) (key' : κ → β → β → Ordering) :
    ∀ (cs : List κ), (∀ c ∈ cs, ∀ a b, key' c (f a) (f b) = key c a b) → ∀ a b,
      lexLE (cs.map key') (f a) (f b) = lexLE (cs.map key) a b
  | [], _, _, _ => rfl
  | c :: cs, h, a, b => by
    simp only [List.map_cons, lexLE, h c (by simp) a b]
    rw [lexLE_map f key key' cs (fun x hx => h x (by simp [hx])) a b]

theorem sortedBy_map {α β κ : Type} (f : α → β) (key : κ → α → α → Ordering) (key' : κ → β → β → Ordering)
    (cs : List κ) (hag : ∀ c ∈ cs, ∀ a b, key' c (f a) (f b) = key c a b) : ∀ (rows : List α),
    SortedBy (cs.map key) rows → SortedBy (cs.map key') (rows.map f)
  | [], _ => trivial
  | [_], _ => trivial
  | a :: b :: rest, h => by
    refine ⟨?_, sortedBy_map f key key' cs hag (b :: rest) h.2⟩
    rw [lexLE_map f key key' cs hag a b]; exact h.1

/-! ### reading in batches -/

theorem read_plain {α : Type} (cap fuel : Nat) (st : Fwd α) (h : st.seek ≤ st.index) :
    Fwd.read cap (fuel + 1) st = (.rows (st.rest.take cap),
      { rest := st.rest.drop cap, seek := st.seek, index := st.index + (st.rest.take cap).length }) := by
  have : ¬ (0 < (st.rest.take cap).length ∧ st.index < st.seek) := by omega
  simp only [Fwd.read]
  rw [if_neg this]

theorem drain_plain {α β : Type} (f : α → β) : ∀ (caps : List Nat) (st : Fwd α), st.seek ≤ st.index →
    drain f caps st = some ((st.rest.take caps.sum).map f)
  | [], st, _ => by simp [drain]
  | cap :: caps, st, h => by
    simp only [drain, convRead, read_plain cap st.rest.length st h]
    rw [drain_plain f caps _ (by simp only []; omega)]
    simp [List.take_add, List.sum_cons]

/-- `forwardRowSeeker.ReadRows`: what it hands out followed by what the underlying
    reader still holds is the stream from row `seek` on (resp. from the current position when no
    seek is pending), and after a non-empty batch no seek is pending any more -/
theorem read_spec {α : Type} (cap : Nat) (hcap : 0 < cap) : ∀ (fuel : Nat) (st : Fwd α), st.rest.length < fuel →
    ∃ xs st', Fwd.read cap fuel st = (.rows xs, st') ∧
      xs ++ st'.rest = st.rest.drop (st.seek - st.index) ∧ (xs ≠ [] → st'.seek ≤ st'.index) ∧
      st'.seek = st.seek
  | 0, st, h => by omega
  | fuel + 1, st, h => by
    simp only [Fwd.read]
    by_cases hc : 0 < (st.rest.take cap).length ∧ st.index < st.seek
    · rw [if_pos hc]
      have hn : (st.rest.take cap).length = min cap st.rest.length := List.length_take
      by_cases hs : st.seek - st.index ≥ (st.rest.take cap).length
      · rw [if_pos hs]
        have hlen : (st.rest.drop cap).length < fuel := by simp [List.length_drop]; omega
        obtain ⟨xs, st', h1, h2, h3, h4⟩ := read_spec cap hcap fuel
          { rest := st.rest.drop cap, seek := st.seek, index := st.index + (st.rest.take cap).length } hlen
        refine ⟨xs, st', h1, ?_, h3, h4⟩
        rw [h2]
        simp only [List.drop_drop]
        by_cases hfull : cap ≤ st.rest.length
        · congr 1; omega
        · rw [List.drop_of_length_le (by omega), List.drop_of_length_le (by omega)]
      · rw [if_neg hs]
        refine ⟨_, _, rfl, ?_, ?_, rfl⟩
        · simp only []
          have : ((st.rest.take cap).drop (st.seek - st.index)) ++ st.rest.drop cap =
              (st.rest.take cap ++ st.rest.drop cap).drop (st.seek - st.index) := by
            rw [List.drop_append_of_le_length (by omega)]
          rw [this, List.take_append_drop]
        · intro _; simp only []; omega
    · rw [if_neg hc]
      refine ⟨_, _, rfl, ?_, ?_, rfl⟩
      · simp only [List.take_append_drop]
        by_cases hi : st.index < st.seek
        · have : (st.rest.take cap).length = 0 := by omega
          have hr : st.rest = [] := by
            cases hrest : st.rest with
            | nil => rfl
            | cons a as => rw [hrest] at this; simp at this; omega
          simp [hr]
        · have : st.seek - st.index = 0 := by omega
          simp [this]
      · intro hne
        simp only []
        by_cases hi : st.index < st.seek
        · exfalso
          apply hne
          have : (st.rest.take cap).length = 0 := by omega
          exact List.eq_nil_of_length_eq_zero this
        · omega

/-- a read keeps `rest = all.drop index`, and an empty batch means the source is exhausted -/
theorem read_inv {α : Type} (cap : Nat) (hcap : 0 < cap) (all : List α) : ∀ (fuel : Nat) (st : Fwd α),
    st.rest.length < fuel → st.rest = all.drop st.index →
    ∀ xs st', Fwd.read cap fuel st = (.rows xs, st') → st'.rest = all.drop st'.index ∧ (xs = [] → st'.rest = []) ∧
      st.index ≤ st'.index ∧ st'.index ≤ st.index + st.rest.length
  | 0, st, h, _, _, _, _ => by omega
  | fuel + 1, st, h, hinv, xs, st', he => by
    have hdrop : st.rest.drop cap = all.drop (st.index + (st.rest.take cap).length) := by
      rw [hinv, List.drop_drop, List.length_take]
      by_cases hfull : cap ≤ (all.drop st.index).length
      · rw [Nat.min_eq_left hfull]
      · rw [Nat.min_eq_right (by omega)]
        rw [List.drop_of_length_le (by simp only [List.length_drop] at hfull ⊢; omega),
          List.drop_of_length_le (by simp only [List.length_drop] at hfull ⊢; omega)]
    simp only [Fwd.read] at he
    by_cases hc : 0 < (st.rest.take cap).length ∧ st.index < st.seek
    · rw [if_pos hc] at he
      by_cases hs : st.seek - st.index ≥ (st.rest.take cap).length
      · rw [if_pos hs] at he
        have hn : (st.rest.take cap).length = min cap st.rest.length := List.length_take
        obtain ⟨h1, h2, h3, h4⟩ := read_inv cap hcap all fuel _ (by simp [List.length_drop]; omega) hdrop xs st' he
        simp only [List.length_drop] at h3 h4
        exact ⟨h1, h2, by omega, by omega⟩
      · rw [if_neg hs] at he
        simp only [Prod.mk.injEq, ReadOut.rows.injEq] at he
        obtain ⟨rfl, rfl⟩ := he
        have hn : (st.rest.take cap).length = min cap st.rest.length := List.length_take
        refine ⟨hdrop, fun h0 => ?_, by simp only []; omega, by simp only []; omega⟩
        exfalso
        have := congrArg List.length h0
        simp only [List.length_drop, List.length_nil] at this
        omega
    · rw [if_neg hc] at he
      simp only [Prod.mk.injEq, ReadOut.rows.injEq] at he
      obtain ⟨rfl, rfl⟩ := he
      have hn : (st.rest.take cap).length = min cap st.rest.length := List.length_take
      refine ⟨hdrop, fun h0 => ?_, by simp only []; omega, by simp only []; omega⟩
      simp only []
      have hlen : (st.rest.take cap).length = 0 := by rw [h0]; rfl
      rw [List.length_take] at hlen
      have : st.rest.length = 0 := by omega
      rw [List.eq_nil_of_length_eq_zero this]; simp

/-- every history of `ReadRows` / forward `SeekToRow` calls delivers the source rows from the
    sought positions, in order -/
theorem hist_refines {α : Type} (all : List α) : ∀ (ops : List Op) (st : Fwd α) (p : Nat),
    (∀ cap, Op.read cap ∈ ops → 0 < cap) → st.rest = all.drop st.index → p = max st.seek st.index →
    Refines all p ops (runHist ops st)
  | [], _, _, _, _, _ => rfl
  | .seek k :: ops, st, p, hcaps, hinv, hp => by
    intro hk
    simp only [runHist, Fwd.seekTo]
    have : k ≥ st.index := by omega
    rw [if_pos this]
    exact hist_refines all ops { st with seek := k } k (fun c hc => hcaps c (by simp [hc])) hinv (by simp only []; omega)
  | .read cap :: ops, st, p, hcaps, hinv, hp => by
    have hcap : 0 < cap := hcaps cap (by simp)
    obtain ⟨xs, st', he, happ, hpend, hseek⟩ := read_spec cap hcap (st.rest.length + 1) st (Nat.lt_succ_self _)
    obtain ⟨hinv', hempty, hlo, hhi⟩ := read_inv cap hcap all (st.rest.length + 1) st (Nat.lt_succ_self _) hinv xs st' he
    simp only [runHist, he]
    have hstream : xs ++ st'.rest = all.drop p := by
      rw [happ, hinv, List.drop_drop, hp]; congr 1; omega
    refine ⟨?_, ?_, ?_⟩
    · rw [← hstream, List.take_left']
      rfl
    · intro h0
      rw [← hstream, h0, hempty h0]
      rfl
    · apply hist_refines all ops st' (p + xs.length) (fun c hc => hcaps c (by simp [hc])) hinv'
      by_cases h0 : xs = []
      · -- nothing delivered: the source is exhausted, positions at or behind its end
        have hr : st'.rest = [] := hempty h0
        have hall : all.drop p = [] := by rw [← hstream, h0, hr]; rfl
        have hlen1 : all.length ≤ p := by
          have := congrArg List.length hall; simp only [List.length_drop, List.length_nil] at this; omega
        have hrl : st.rest.length = all.length - st.index := by rw [hinv, List.length_drop]
        subst h0
        simp only [List.length_nil, Nat.add_zero]
        omega
      · have hpd := hpend h0
        have hl := congrArg List.length hstream
        simp only [List.length_append, hinv', List.length_drop] at hl
        have hne : 0 < xs.length := List.length_pos_iff.mpr h0
        have hrl : st.rest.length = all.length - st.index := by rw [hinv, List.length_drop]
        omega

/-! ### the chunk view under delete / permute -/

theorem permF_cons {sfs : PFields} {nm : Nat} {trp : Rp} {t : PNode} {tfs : PFields}
    (h : permF sfs (.cons nm trp t tfs) = true) :
    ∃ s, getFld nm sfs = some (trp, s) ∧ permN s t = true ∧ permF sfs tfs = true := by
  simp only [permF, Bool.and_eq_true] at h
  cases hg : getFld nm sfs with
  | none => simp [hg] at h
  | some p =>
    obtain ⟨srp, s⟩ := p
    simp only [hg, Bool.and_eq_true, decide_eq_true_eq] at h
    obtain ⟨⟨rfl, h1⟩, h2⟩ := h
    exact ⟨s, rfl, h1, h2⟩

theorem rpOk_refl (rp : Rp) : rpOk rp rp = true := by cases rp <;> rfl

mutual
theorem perm_subN : ∀ (t s : PNode), permN s t = true → subN s t = true
  | .leaf, s, h => by cases s <;> simp_all [permN, subN]
  | .group tfs, s, h => by
    cases s with
    | leaf => simp [permN] at h
    | group sfs => simp only [permN] at h; simp only [subN]; exact perm_subF tfs sfs h
theorem perm_subF : ∀ (tfs sfs : PFields), permF sfs tfs = true → subF sfs tfs = true
  | .nil, _, _ => by simp [subF]
  | .cons nm trp tn tfs, sfs, h => by
    obtain ⟨sn, hg, hsn, hrest⟩ := permF_cons h
    simp only [subF, hg, rpOk_refl, perm_subN tn sn hsn, perm_subF tfs sfs hrest, Bool.and_self]
end

mutual
theorem chunkN_length (n : Nat) : ∀ (t : PNode) (trp : Rp) (lv : Lv) (s : Src) (adj : Option (List Triple)),
    (chunkN n t trp lv s adj).length = leavesP t
  | .leaf, _, _, s, _ => by
    simp only [chunkN, leavesP, eraseN, leavesN]
    split <;> simp
  | .group tfs, _, lv, s, _ => by
    simp only [chunkN, leavesP, eraseN, leavesN]
    exact chunkF_length n tfs tfs lv s
theorem chunkF_length (n : Nat) (all : PFields) : ∀ (tfs : PFields) (lv : Lv) (s : Src),
    (chunkF n all tfs lv s).length = leavesF (eraseF tfs)
  | .nil, _, _ => by simp [chunkF, eraseF, leavesF]
  | .cons nm trp tn tfs, lv, s => by
    rw [leavesF_cons]
    simp only [chunkF, List.length_append]
    rw [chunkN_length n tn, chunkF_length n all tfs]
end

theorem isDirect_of_id {lv : Lv} (h : IdLv lv) :
    (isDirect lv.R (lv.sr + 1) && isDirect lv.D (lv.sd + 1)) = true := by
  simp only [Bool.and_eq_true, isDirect, List.all_eq_true, List.mem_range, beq_iff_eq]
  exact ⟨fun i hi => h.R i (by omega), fun i hi => h.D i (by omega)⟩

/-- identity level tables: the column is `direct`, its chunk is the source chunk -/
theorem chunkLeaf_id {lv : Lv} (h : IdLv lv) (c : List Triple) : chunkLeaf lv c = c := by
  simp [chunkLeaf, isDirect_of_id h]

mutual
theorem lin_chunkN (n : Nat) : ∀ (t : PNode) (trp : Rp) (lv : Lv) (s : PNode) (X Y : Cols)
    (p1 p2 p3 a1 a2 a3 : Option (List Triple)),
    IdLv lv → permN s t = true → X.length = leavesP s → Y.length = leavesP s →
    chunkN n t trp lv (.on s (zipApp X Y) p3) a3 =
      zipApp (chunkN n t trp lv (.on s X p1) a1) (chunkN n t trp lv (.on s Y p2) a2)
  | .leaf, trp, lv, s, X, Y, p1, p2, p3, a1, a2, a3, hid, hs, hx, hy => by
    cases s with
    | group sfs => simp [permN] at hs
    | leaf =>
      simp only [leavesP, eraseN, leavesN] at hx hy
      match X, Y, hx, hy with
      | [x], [y], _, _ => simp [chunkN, zipApp, chunkLeaf_id hid]
  | .group tfs, trp, lv, s, X, Y, p1, p2, p3, a1, a2, a3, hid, hs, hx, hy => by
    cases s with
    | leaf => simp [permN] at hs
    | group sfs =>
      simp only [permN] at hs
      simp only [leavesP, eraseN, leavesN] at hx hy
      simp only [chunkN]
      exact lin_chunkF n tfs tfs lv sfs X Y p1 p2 p3 hid hs hx hy
theorem lin_chunkF (n : Nat) (all : PFields) : ∀ (tfs : PFields) (lv : Lv) (sfs : PFields) (X Y : Cols)
    (p1 p2 p3 : Option (List Triple)),
    IdLv lv → permF sfs tfs = true → X.length = leavesF (eraseF sfs) → Y.length = leavesF (eraseF sfs) →
    chunkF n all tfs lv (.on (.group sfs) (zipApp X Y) p3) =
      zipApp (chunkF n all tfs lv (.on (.group sfs) X p1)) (chunkF n all tfs lv (.on (.group sfs) Y p2))
  | .nil, _, _, _, _, _, _, _, _, _, _, _ => by simp [chunkF, zipApp]
  | .cons nm trp tn tfs, lv, sfs, X, Y, p1, p2, p3, hid, hs, hx, hy => by
    obtain ⟨sn, hg, hsn, hrest⟩ := permF_cons hs
    simp only [chunkF, stepS_on nm trp lv sfs _ _ hg]
    rw [blkOf_zip nm sfs X Y (by rw [hx, hy])]
    rw [lin_chunkN n tn trp (lv.step trp trp) sn (blkOf nm sfs X) (blkOf nm sfs Y) _ _ _ _ _ _ (hid.step trp) hsn
      (blkOf_length nm trp sn sfs X hg hx) (blkOf_length nm trp sn sfs Y hg hy)]
    rw [lin_chunkF n all tfs lv sfs X Y p1 p2 p3 hid hrest hx hy]
    rw [zipApp_append _ _ (by rw [chunkN_length, chunkN_length])]
end

mutual
theorem absent_chunkN (n : Nat) : ∀ (t : PNode) (trp : Rp) (lv : Lv) (s : PNode) (r d : Nat)
    (pc adj : Option (List Triple)), IdLv lv → permN s t = true →
    chunkN n t trp lv (.on s (absentN (eraseN s) r d) pc) adj = absentN (eraseN t) r d
  | .leaf, trp, lv, s, r, d, pc, adj, hid, hs => by
    cases s with
    | group sfs => simp [permN] at hs
    | leaf => simp [chunkN, eraseN, absentN, chunkLeaf_id hid]
  | .group tfs, trp, lv, s, r, d, pc, adj, hid, hs => by
    cases s with
    | leaf => simp [permN] at hs
    | group sfs =>
      simp only [permN] at hs
      simp only [chunkN, eraseN, absentN]
      exact absent_chunkF n tfs tfs lv sfs r d pc hid hs
theorem absent_chunkF (n : Nat) (all : PFields) : ∀ (tfs : PFields) (lv : Lv) (sfs : PFields) (r d : Nat)
    (pc : Option (List Triple)), IdLv lv → permF sfs tfs = true →
    chunkF n all tfs lv (.on (.group sfs) (absentF (eraseF sfs) r d) pc) = absentF (eraseF tfs) r d
  | .nil, _, _, _, _, _, _, _ => by simp [chunkF, eraseF, absentF]
  | .cons nm trp tn tfs, lv, sfs, r, d, pc, hid, hs => by
    obtain ⟨sn, hg, hsn, hrest⟩ := permF_cons hs
    simp only [chunkF, stepS_on nm trp lv sfs _ pc hg, eraseF, absentF, absent_wrap]
    rw [fld_absent nm trp sn r d sfs hg, absent_chunkN n tn trp _ sn r d _ _ (hid.step trp) hsn,
      absent_chunkF n all tfs lv sfs r d pc hid hrest]
end

theorem sameKind_of_perm {s t : PNode} (h : permN s t = true) : sameKind s t = true := by
  cases s <;> cases t <;> simp_all [permN, sameKind]

mutual
/-- one row: the chunks' streams of the converted group are the shredded projection -/
theorem main_chunkN (n : Nat) : ∀ (t : PNode) (trp : Rp) (lv : Lv) (s : PNode) (v : Val) (r k d : Nat)
    (pc adj : Option (List Triple)),
    IdLv lv → permN s t = true → wfN (eraseN s) = true → confN (eraseN s) v = true → r ≤ k →
    chunkN n t trp lv (.on s (shredN (eraseN s) r k d v) pc) adj = shredN (eraseN t) r k d (projN s t v)
  | .leaf, trp, lv, s, v, r, k, d, pc, adj, hid, hs, hw, hc, hr => by
    cases s with
    | group sfs => simp [permN] at hs
    | leaf =>
      cases v with
      | prim x => simp [chunkN, eraseN, shredN, projN, chunkLeaf_id hid]
      | struct vs => simp [eraseN, confN] at hc
      | none => simp [eraseN, confN] at hc
      | some w => simp [eraseN, confN] at hc
      | list ws => simp [eraseN, confN] at hc
  | .group tfs, trp, lv, s, v, r, k, d, pc, adj, hid, hs, hw, hc, hr => by
    cases s with
    | leaf => simp [permN] at hs
    | group sfs =>
      simp only [permN] at hs
      cases v with
      | struct vs =>
        simp only [eraseN, confN] at hc
        simp only [eraseN, wfN, Bool.and_eq_true] at hw
        simp only [chunkN, eraseN, shredN, projN]
        exact main_chunkF n tfs tfs lv sfs vs r k d pc hid hs hw.1 hc hr
      | prim x => simp [eraseN, confN] at hc
      | none => simp [eraseN, confN] at hc
      | some w => simp [eraseN, confN] at hc
      | list ws => simp [eraseN, confN] at hc
theorem main_chunkF (n : Nat) (all : PFields) : ∀ (tfs : PFields) (lv : Lv) (sfs : PFields) (vs : List Val)
    (r k d : Nat) (pc : Option (List Triple)),
    IdLv lv → permF sfs tfs = true → wfF (eraseF sfs) = true → confF (eraseF sfs) vs = true → r ≤ k →
    chunkF n all tfs lv (.on (.group sfs) (shredF (eraseF sfs) r k d vs) pc) =
      shredF (eraseF tfs) r k d (projF sfs vs tfs)
  | .nil, _, _, _, _, _, _, _, _, _, _, _, _ => by simp [chunkF, eraseF, shredF, projF]
  | .cons nm trp tn tfs, lv, sfs, vs, r, k, d, pc, hid, hs, hw, hc, hr => by
    obtain ⟨sn, hg, hsn, hrest⟩ := permF_cons hs
    obtain ⟨v, hfv, hblk, hcv, hwn⟩ := fld_shred nm trp sn r k d hr sfs vs hw hc hg
    have hsk : sameKind sn tn = true := sameKind_of_perm hsn
    simp only [chunkF, stepS_on nm trp lv sfs _ pc hg, hblk, eraseF, projF, hfv, hsk, if_true, shredF]
    rw [main_chunkF n all tfs lv sfs vs r k d pc hid hrest hw hc hr]
    congr 1
    generalize Option.map (fun x => x.snd) (closestLeaf sfs (shredF (eraseF sfs) r k d vs) none) = pc'
    generalize adjOf nm (trp == Rp.rpt) lv (Src.on (PNode.group sfs) (shredF (eraseF sfs) r k d vs) pc) all none = adj
    cases trp with
    | req =>
      simp only [wrap] at hcv ⊢
      exact main_chunkN n tn .req _ sn v r k d pc' adj (hid.step .req) hsn hwn hcv hr
    | opt =>
      simp only [wrap] at hcv ⊢
      cases v with
      | some w =>
        simp only [confN] at hcv
        simp only [shredN]
        exact main_chunkN n tn .opt _ sn w r k (d + 1) pc' adj (hid.step .opt) hsn hwn hcv hr
      | none =>
        simp only [shredN]
        exact absent_chunkN n tn .opt _ sn r d pc' adj (hid.step .opt) hsn
      | prim x => simp [confN] at hcv
      | struct vs' => simp [confN] at hcv
      | list ws => simp [confN] at hcv
    | rpt =>
      simp only [wrap] at hcv ⊢
      cases v with
      | list ws =>
        simp only [confN] at hcv
        cases ws with
        | nil =>
          simp only [shredN, List.map_nil]
          exact absent_chunkN n tn .rpt _ sn r d pc' adj (hid.step .rpt) hsn
        | cons w0 ws =>
          simp only [List.all_cons, Bool.and_eq_true] at hcv
          simp only [shredN, List.map_cons, List.foldr_map]
          have hgood : ∀ (r' : Nat) (w : Val), r' ≤ k + 1 →
              (shredN (eraseN sn) r' (k + 1) (d + 1) w).length = leavesN (eraseN sn) ∧
                NE (shredN (eraseN sn) r' (k + 1) (d + 1) w) := fun r' w hr' =>
            ⟨(shredN_spec (eraseN sn) r' (k + 1) (d + 1) w hwn hr').1.1,
              ne_of_good (shredN_spec (eraseN sn) r' (k + 1) (d + 1) w hwn hr').1⟩
          rw [conv_fold (fun X => chunkN n tn .rpt (lv.step .rpt .rpt) (.on sn X pc') adj) (leavesN (eraseN sn)) (leavesN (eraseN tn))
            (fun w => shredN (eraseN sn) (k + 1) (k + 1) (d + 1) w)
            (fun X Y hx hy _ _ => lin_chunkN n tn .rpt _ sn X Y pc' pc' pc' adj adj adj (hid.step .rpt) hsn hx hy)
            (fun X => chunkN_length n tn _ _ _ _) ws (fun w _ => hgood (k + 1) w (Nat.le_refl _))
            _ (hgood r w0 (by omega)).1 (hgood r w0 (by omega)).2]
          have h0 := main_chunkN n tn .rpt (lv.step .rpt .rpt) sn w0 r (k + 1) (d + 1) pc' adj (hid.step .rpt) hsn hwn hcv.1 (by omega)
          have hrest' : ∀ w ∈ ws, chunkN n tn .rpt (lv.step .rpt .rpt) (.on sn (shredN (eraseN sn) (k + 1) (k + 1) (d + 1) w) pc') adj =
              shredN (eraseN tn) (k + 1) (k + 1) (d + 1) (projN sn tn w) := fun w hw' =>
            main_chunkN n tn .rpt (lv.step .rpt .rpt) sn w (k + 1) (k + 1) (d + 1) pc' adj (hid.step .rpt) hsn hwn
              ((List.all_eq_true.mp hcv.2) w hw') (Nat.le_refl _)
          show zipApp (chunkN n tn .rpt (lv.step .rpt .rpt) (.on sn (shredN (eraseN sn) r (k + 1) (d + 1) w0) pc') adj) _ = _
          rw [foldr_zip_congr ws hrest', h0]
      | prim x => simp [confN] at hcv
      | struct vs' => simp [confN] at hcv
      | none => simp [confN] at hcv
      | some w => simp [confN] at hcv
end

/-- a whole (non-empty) row group: the chunk view distributes over the rows -/
theorem chunkView_rows (src tgt : PNode) (n : Nat) (v0 : Val) (vs : List Val)
    (hp : permN src tgt = true) (hwf : wfN (eraseN src) = true)
    (hconf : ∀ v ∈ v0 :: vs, confN (eraseN src) v = true) :
    chunkView src tgt (joinRows (leavesP src) ((v0 :: vs).map (shred src))) n =
      joinRows (leavesP tgt) ((v0 :: vs).map fun v => shred tgt (projN src tgt v)) := by
  have hgood : ∀ w, (shred src w).length = leavesP src ∧ NE (shred src w) := fun w =>
    ⟨(shredN_spec (eraseN src) 0 0 0 w hwf (Nat.le_refl _)).1.1,
      ne_of_good (shredN_spec (eraseN src) 0 0 0 w hwf (Nat.le_refl _)).1⟩
  simp only [chunkView, joinRows, joinSegs, List.map_cons, List.foldr_cons, List.foldr_map]
  rw [conv_fold (fun X => chunkN n tgt .req lv0 (.on src X none) none) (leavesP src) (leavesP tgt)
    (fun w => shred src w)
    (fun X Y hx hy _ _ => lin_chunkN n tgt .req lv0 src X Y none none none none none none idLv0 hp hx hy)
    (fun X => chunkN_length n tgt _ _ _ _) vs (fun w _ => hgood w) _ (hgood v0).1 (hgood v0).2]
  have h0 := main_chunkN n tgt .req lv0 src v0 0 0 0 none none idLv0 hp hwf (hconf v0 (by simp)) (Nat.le_refl _)
  have hrest : ∀ w ∈ vs, chunkN n tgt .req lv0 (.on src (shred src w) none) none = shred tgt (projN src tgt w) :=
    fun w hw => main_chunkN n tgt .req lv0 src w 0 0 0 none none idLv0 hp hwf (hconf w (by simp [hw])) (Nat.le_refl _)
  show zipApp (chunkN n tgt .req lv0 (.on src (shredN (eraseN src) 0 0 0 v0) none) none) _ = _
  rw [foldr_zip_congr vs hrest, h0]
  rfl

end PqModel.Convert
