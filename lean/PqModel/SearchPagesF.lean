import PqModel.SearchPages
import PqModel.SearchNaN

/-! # C06 on the VALUES of FLOAT / DOUBLE pages

The float counterpart of `SearchPages.lean`: pages hold bit patterns, some of them NaN. `Page.Bounds` of the float
pages skips NaN values and reports a NaN pair for a page of NaN values only (`Stats.boundsNaN`, MIRROR of
page_float.go:61-90), the indexer records the bounds as they come (a NaN bound stays NaN: `FB.nan`) and claims no
boundary order when a bound is NaN (`writerOrderF`). `Find` is `findF` (`SearchNaN.lean`).

MIRROR: `pageBoundF`, `indexOfPagesF`. SPEC: `BoundsForF` (what `Find` needs from the float `Page.Bounds`), `fbOf`.
The statement is about the values that take part in the order: a NaN probe compares equal to everything and is
not a value a page "contains" in the sense of the property. -/
namespace PqModel.Search
open PqModel.Stats

/-- SPEC. The bound the column index shows for a recorded value: NaN, or its rank in the column order -/
def fbOf {α} (key : α → Int) (nan : α → Bool) (x : α) : FB := if nan x then .nan else .val (key x)

/-- MIRROR. The two column-index entries of one float page (null bounds for a page without a non-null value). -/
def pageBoundF {α} (bnd : List α → Option (α × α)) (key : α → Int) (nan : α → Bool) (page : List (Option α)) : FB × FB :=
  match bnd (page.filterMap id) with
  | none => (.null, .null)
  | some (mn, mx) => (fbOf key nan mn, fbOf key nan mx)

/-- MIRROR. The column index of a float chunk whose pages hold these values (`none` = null value). -/
def indexOfPagesF {α} (bnd : List α → Option (α × α)) (key : α → Int) (nan : α → Bool)
    (pages : List (List (Option α))) : FIndex :=
  { mins := pages.map (fun p => (pageBoundF bnd key nan p).1), maxs := pages.map (fun p => (pageBoundF bnd key nan p).2) }

/-- SPEC. The contract of the float `Page.Bounds` towards `Find`: no bounds for no values; the bounds are values
    of the page; a bound that is not NaN encloses every non-NaN value of the page on its side. (A NaN bound
    excludes nothing under `compareFloat32/64`, so nothing is asked of it.) -/
structure BoundsForF {α} (bnd : List α → Option (α × α)) (key : α → Int) (nan : α → Bool) : Prop where
  nil : bnd [] = none
  some_of_ne : ∀ xs, xs ≠ [] → ∃ mn mx, bnd xs = some (mn, mx)
  mem : ∀ xs mn mx, bnd xs = some (mn, mx) → mn ∈ xs ∧ mx ∈ xs
  lower : ∀ xs mn mx, bnd xs = some (mn, mx) → nan mn = false → ∀ x ∈ xs, nan x = false → key mn ≤ key x
  upper : ∀ xs mn mx, bnd xs = some (mn, mx) → nan mx = false → ∀ x ∈ xs, nan x = false → key x ≤ key mx

theorem all_of_dropWhile_nil {α} (p : α → Bool) : ∀ xs : List α, xs.dropWhile p = [] → ∀ v ∈ xs, p v = true
  | [], _, v, hv => by simp at hv
  | x :: xs, h, v, hv => by
    simp only [List.dropWhile] at h
    cases hp : p x with
    | false => simp [hp] at h
    | true =>
      simp only [hp] at h
      simp only [List.mem_cons] at hv
      rcases hv with rfl | hv
      · exact hp
      · exact all_of_dropWhile_nil p xs h v hv

/-- `Stats.boundsNaN` (MIRROR of `floatPage.Bounds` / `doublePage.Bounds`) keeps the contract, for every order
    given by a key and a NaN test -/
theorem boundsNaN_sound {α} (key : α → Int) (nan : α → Bool) : BoundsForF (boundsNaN (ofKey key nan)) key nan := by
  have hl : Lawful (ofKey key nan) := ofKey_lawful key nan
  -- the two shapes of a non-empty page
  have hcases : ∀ xs : List α, xs ≠ [] →
      (∃ x0 xt, xs = x0 :: xt ∧ (∀ v ∈ xs, nan v = true) ∧ boundsNaN (ofKey key nan) xs = some (x0, x0)) ∨
      (∃ mn mx, boundsNaN (ofKey key nan) xs = some (mn, mx) ∧ IsBounds (ofKey key nan) xs mn mx) := by
    intro xs hne
    by_cases hex : ∃ v ∈ xs, (ofKey key nan).ok v = true
    · exact Or.inr (boundsNaN_isBounds hl xs hex)
    · left
      have hall : ∀ v ∈ xs, (ofKey key nan).ok v = false := by
        intro v hv
        cases h : (ofKey key nan).ok v with
        | false => rfl
        | true => exact absurd ⟨v, hv, h⟩ hex
      cases xs with
      | nil => exact absurd rfl hne
      | cons x0 xt =>
        refine ⟨x0, xt, rfl, ?_, boundsNaN_allNaN _ x0 xt hall⟩
        intro v hv
        have := hall v hv
        simpa [ofKey] using this
  exact {
    nil := rfl
    some_of_ne := by
      intro xs hne
      rcases hcases xs hne with ⟨x0, xt, _, _, h⟩ | ⟨mn, mx, h, _⟩
      · exact ⟨x0, x0, h⟩
      · exact ⟨mn, mx, h⟩
    mem := by
      intro xs mn mx h
      have hne : xs ≠ [] := by intro e; rw [e] at h; simp [boundsNaN] at h
      rcases hcases xs hne with ⟨x0, xt, hxs, _, h'⟩ | ⟨mn', mx', h', hb⟩
      · rw [h'] at h
        simp only [Option.some.injEq, Prod.mk.injEq] at h
        rw [← h.1, ← h.2, hxs]
        simp
      · rw [h'] at h
        simp only [Option.some.injEq, Prod.mk.injEq] at h
        rw [← h.1, ← h.2]
        exact ⟨hb.min_mem, hb.max_mem⟩
    lower := by
      intro xs mn mx h hmn x hx hxn
      have hne : xs ≠ [] := by intro e; rw [e] at hx; simp at hx
      rcases hcases xs hne with ⟨x0, xt, _, hall, _⟩ | ⟨mn', mx', h', hb⟩
      · have := hall x hx
        rw [hxn] at this
        exact absurd this (by simp)
      · rw [h'] at h
        simp only [Option.some.injEq, Prod.mk.injEq] at h
        have hlo := hb.lower x hx (by simp [ofKey, hxn])
        rw [h.1] at hlo
        simp only [ofKey, hxn, hmn, Bool.not_false, Bool.true_and, decide_eq_false_iff_not] at hlo
        omega
    upper := by
      intro xs mn mx h hmx x hx hxn
      have hne : xs ≠ [] := by intro e; rw [e] at hx; simp at hx
      rcases hcases xs hne with ⟨x0, xt, _, hall, _⟩ | ⟨mn', mx', h', hb⟩
      · have := hall x hx
        rw [hxn] at this
        exact absurd this (by simp)
      · rw [h'] at h
        simp only [Option.some.injEq, Prod.mk.injEq] at h
        have hup := hb.upper x hx (by simp [ofKey, hxn])
        rw [h.2] at hup
        simp only [ofKey, hxn, hmx, Bool.not_false, Bool.true_and, decide_eq_false_iff_not] at hup
        omega }

/-- FLOAT (`e = 8, m = 23`) / DOUBLE (`e = 11, m = 52`): the bounds mirror in Go's `<` on floats -/
def floatBounds (e m : Nat) : List (BitVec (1 + e + m)) → Option (BitVec (1 + e + m) × BitVec (1 + e + m)) :=
  boundsNaN (float e m)

theorem floatBounds_sound (e m : Nat) : BoundsForF (floatBounds e m) (fKey e m) (fIsNaN e m) :=
  boundsNaN_sound (fKey e m) (fIsNaN e m)

/-! ## reading the index of pages -/

theorem indexOfPagesF_n {α} (bnd : List α → Option (α × α)) (key : α → Int) (nan : α → Bool)
    (pages : List (List (Option α))) : (indexOfPagesF bnd key nan pages).n = pages.length := by
  simp [indexOfPagesF, FIndex.n]

theorem minAtF_indexOfPagesF {α} (bnd : List α → Option (α × α)) (key : α → Int) (nan : α → Bool)
    (pages : List (List (Option α))) (i : Nat) (hi : i < pages.length) :
    minAtF (indexOfPagesF bnd key nan pages) i = (pageBoundF bnd key nan (pages.getD i [])).1 := by
  simp only [minAtF, indexOfPagesF]
  exact getD_map_nil (fun p => (pageBoundF bnd key nan p).1) .null pages i hi

theorem maxAtF_indexOfPagesF {α} (bnd : List α → Option (α × α)) (key : α → Int) (nan : α → Bool)
    (pages : List (List (Option α))) (i : Nat) (hi : i < pages.length) :
    maxAtF (indexOfPagesF bnd key nan pages) i = (pageBoundF bnd key nan (pages.getD i [])).2 := by
  simp only [maxAtF, indexOfPagesF]
  exact getD_map_nil (fun p => (pageBoundF bnd key nan p).2) .null pages i hi

theorem ltF_val_fbOf {α} (nf : Bool) (key : α → Int) (nan : α → Bool) (v : Int) (b : α) (h : nan b = false → key b ≤ v) :
    ltF nf (.val v) (fbOf key nan b) = false := by
  unfold fbOf
  cases hb : nan b with
  | true => simp [ltF]
  | false =>
    have := h hb
    simp only [Bool.false_eq_true, if_false, ltF, decide_eq_false_iff_not]
    omega

theorem ltF_fbOf_val {α} (nf : Bool) (key : α → Int) (nan : α → Bool) (v : Int) (b : α) (h : nan b = false → v ≤ key b) :
    ltF nf (fbOf key nan b) (.val v) = false := by
  unfold fbOf
  cases hb : nan b with
  | true => simp [ltF]
  | false =>
    have := h hb
    simp only [Bool.false_eq_true, if_false, ltF, decide_eq_false_iff_not]
    omega

/-- a page that holds the non-NaN value `x` has recorded bounds that contain `key x` -/
theorem containsF_of_mem {α} (nf : Bool) {bnd : List α → Option (α × α)} {key : α → Int} {nan : α → Bool}
    (hb : BoundsForF bnd key nan) (pages : List (List (Option α))) (p : Nat) (hp : p < pages.length) (x : α)
    (hx : some x ∈ pages.getD p []) (hxn : nan x = false) :
    containsF nf (indexOfPagesF bnd key nan pages) p (key x) = true := by
  have hmem := mem_filterMap_id hx
  have hne : (pages.getD p []).filterMap id ≠ [] := by
    intro h; rw [h] at hmem; simp at hmem
  obtain ⟨mn, mx, hbnd⟩ := hb.some_of_ne _ hne
  have h1 := ltF_val_fbOf nf key nan (key x) mn (fun hmn => hb.lower _ mn mx hbnd hmn x hmem hxn)
  have h2 := ltF_fbOf_val nf key nan (key x) mx (fun hmx => hb.upper _ mn mx hbnd hmx x hmem hxn)
  simp only [containsF, minAtF_indexOfPagesF bnd key nan pages p hp, maxAtF_indexOfPagesF bnd key nan pages p hp,
    pageBoundF, hbnd, h1, h2, Bool.not_false, Bool.and_self]

theorem fbOf_val {α} {key : α → Int} {nan : α → Bool} {b : α} {a : Int} (h : fbOf key nan b = .val a) :
    nan b = false ∧ key b = a := by
  unfold fbOf at h
  cases hb : nan b with
  | true => simp [hb] at h
  | false => simp only [hb, Bool.false_eq_true, if_false, FB.val.injEq] at h; exact ⟨rfl, h⟩

/-- every page of the index whose two bounds are numbers has `min ≤ max` -/
theorem indexOfPagesF_le {α} {bnd : List α → Option (α × α)} {key : α → Int} {nan : α → Bool}
    (hb : BoundsForF bnd key nan) (pages : List (List (Option α))) :
    ∀ i a b, i < (indexOfPagesF bnd key nan pages).n → minAtF (indexOfPagesF bnd key nan pages) i = .val a →
      maxAtF (indexOfPagesF bnd key nan pages) i = .val b → a ≤ b := by
  intro i a b hi ha hb'
  rw [indexOfPagesF_n] at hi
  rw [minAtF_indexOfPagesF bnd key nan pages i hi] at ha
  rw [maxAtF_indexOfPagesF bnd key nan pages i hi] at hb'
  unfold pageBoundF at ha hb'
  cases hbnd : bnd ((pages.getD i []).filterMap id) with
  | none => rw [hbnd] at ha; exact absurd ha (by simp)
  | some pr =>
    obtain ⟨mn, mx⟩ := pr
    rw [hbnd] at ha hb'
    obtain ⟨hmn, hka⟩ := fbOf_val ha
    obtain ⟨hmx, hkb⟩ := fbOf_val hb'
    have hm := hb.mem _ mn mx hbnd
    have := hb.upper _ mn mx hbnd hmx mn hm.1 hmn
    omega

/-- C06 ON VALUES, FLOAT / DOUBLE. Pages of float values with NaN among them, all-NaN pages, all-null pages: for a
    non-NaN value `x` held by page `p`, `Find` on the index the float indexer builds (no order claimed when a bound
    is NaN) returns a page `r ≤ p` whose recorded bounds contain `x`. -/
theorem find_no_miss_float_values {α} (nf : Bool) (z : Int) {bnd : List α → Option (α × α)} {key : α → Int}
    {nan : α → Bool} (hb : BoundsForF bnd key nan) (pages : List (List (Option α))) (p : Nat) (hp : p < pages.length)
    (x : α) (hx : some x ∈ pages.getD p []) (hxn : nan x = false) :
    let ix := indexOfPagesF bnd key nan pages
    let r := findF nf (writerOrderF z ix == 1) ix (key x)
    r ≤ p ∧ r < ix.n ∧ containsF nf ix r (key x) = true := by
  intro ix r
  have hc : containsF nf ix p (key x) = true := containsF_of_mem nf hb pages p hp x hx hxn
  have hn : ix.n = pages.length := indexOfPagesF_n bnd key nan pages
  have hlen : ix.maxs.length = ix.mins.length := by simp [ix, indexOfPagesF]
  have hfind := findF_no_miss_writer nf z ix (key x) hlen (indexOfPagesF_le hb pages)
    (fun jx h1 h2 => find_no_miss_writer_core nf z jx (key x) h1 h2)
  obtain ⟨_, h2, h3⟩ := hfind
  have hrp : r ≤ p := h3 p (by omega) hc
  have hrn : r < ix.n := by omega
  exact ⟨hrp, hrn, h2 hrn⟩

end PqModel.Search
