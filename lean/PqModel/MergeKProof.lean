import PqModel.MergeLoser
import PqModel.Merge2Proof

/-! # C09 — the k-way reader `mergedRowReader`: every `ReadRows` call is an `Emits` schedule -/
namespace PqModel.Merge

/-! ## the bulk emission of run mode -/

theorem runOf_le (bound : Option Row) (w : List Row) (hs : SortedK w) : runOf bound w ≤ w.length := by
  cases bound with
  | none => exact Nat.le_refl _
  | some b => exact (runLength_spec' w b 0 hs).1

theorem runOf_bound (bound : Option Row) (w : List Row) (hs : SortedK w) :
    ∀ y ∈ w.take (runOf bound w), ∀ b, bound = some b → y.key ≤ b.key := by
  intro y hy b hb
  subst hb
  exact leMax_zero.mp ((runLength_spec' w b 0 hs).2.1 y hy)

theorem Buf.advance_advance (c : Buf) (a b : Nat) : ((c.advance a).1.advance b).1 = (c.advance (a + b)).1 := by
  simp [Buf.advance, List.drop_drop]

theorem Buf.advance_win (c : Buf) (n : Nat) : (c.advance n).1.win = c.win.drop n := rfl

theorem runEmit_spec (bound : Option Row) : ∀ (f m : Nat) (c : Buf), c.win ≠ [] → SortedK c.win →
    ∃ n, (runEmit bound f m c).1 = c.win.take n ∧ (runEmit bound f m c).2.1 = (c.advance n).1 ∧
      (∀ y ∈ c.win.take n, ∀ b, bound = some b → y.key ≤ b.key) ∧
      ((runEmit bound f m c).2.2 = true → (c.advance n).1.win = []) ∧
      ((runEmit bound f m c).2.2 = false → (c.advance n).1.win ≠ [])
  | 0, m, c, hw, _ => ⟨0, by simp [runEmit], by simp [runEmit, Buf.advance], by simp, by simp [runEmit],
      fun _ => by simpa [Buf.advance] using hw⟩
  | f + 1, m, c, hw, hs => by
    simp only [runEmit]
    split
    · exact ⟨0, by simp, by simp [Buf.advance], by simp, by simp, fun _ => by simpa [Buf.advance] using hw⟩
    · have hsw : SortedK (c.win.take m) := sortedK_sublist (List.take_sublist _ _) hs
      have hle := runOf_le bound (c.win.take m) hsw
      have hbd := runOf_bound bound (c.win.take m) hsw
      generalize runOf bound (c.win.take m) = run at hle hbd
      have htake : (c.win.take m).take run = c.win.take run := by
        simp only [List.length_take] at hle
        rw [List.take_take]; congr 1; omega
      rw [htake] at hbd ⊢
      split
      · rename_i hmore
        refine ⟨run, rfl, rfl, hbd, fun _ => ?_, fun h => by simp at h⟩
        simpa [Buf.advance] using hmore
      · rename_i hmore
        have hne : (c.advance run).1.win ≠ [] := by simpa [Buf.advance] using hmore
        split
        · exact ⟨run, rfl, rfl, hbd, fun h => by simp at h, fun _ => hne⟩
        · rename_i hfull
          have hrun : run = (c.win.take m).length := by omega
          have hs' : SortedK (c.advance run).1.win := sortedK_sublist (List.drop_sublist _ _) hs
          obtain ⟨n, e1, e2, e3, e4, e5⟩ := runEmit_spec bound f (m - run) (c.advance run).1 hne hs'
          refine ⟨run + n, ?_, ?_, ?_, ?_, ?_⟩
          · simp only [e1, Buf.advance_win]; rw [List.take_add]
          · simp only [e2, Buf.advance_advance]
          · intro y hy b hb
            rw [List.take_add, List.mem_append] at hy
            rcases hy with hy | hy
            · exact hbd y hy b hb
            · exact e3 y hy b hb
          · intro h; rw [← Buf.advance_advance]; exact e4 h
          · intro h; rw [← Buf.advance_advance]; exact e5 h

/-! ## counting the live inputs -/

theorem countP_flip {p p' : Nat → Bool} {w0 : Nat} : ∀ (l : List Nat), l.Nodup → w0 ∈ l →
    p w0 = true → p' w0 = false → (∀ x, x ≠ w0 → p' x = p x) → l.countP p' + 1 = l.countP p
  | [], _, h, _, _, _ => by simp at h
  | a :: t, hnd, hmem, h1, h2, hag => by
    have hnd' := List.nodup_cons.mp hnd
    by_cases ha : a = w0
    · subst ha
      have : t.countP p' = t.countP p := by
        apply List.countP_congr
        intro x hx
        have : x ≠ a := fun h => hnd'.1 (h ▸ hx)
        rw [hag x this]
      simp [List.countP_cons, h1, h2, this]
    · have hm : w0 ∈ t := by
        rcases List.mem_cons.mp hmem with h | h
        · exact absurd h.symm ha
        · exact h
      have ih := countP_flip t hnd'.2 hm h1 h2 hag
      simp only [List.countP_cons, hag a ha]
      omega

theorem countP_pos_iff {p : Nat → Bool} {k : Nat} : (List.range k).countP p ≠ 0 ↔ ∃ x, x < k ∧ p x = true := by
  constructor
  · intro h
    have := List.countP_pos_iff.mp (Nat.pos_of_ne_zero h)
    obtain ⟨x, hx, hp⟩ := this
    exact ⟨x, List.mem_range.mp hx, hp⟩
  · intro ⟨x, hx, hp⟩
    exact Nat.ne_of_gt (List.countP_pos_iff.mpr ⟨x, List.mem_range.mpr hx, hp⟩)


/-! ## the state invariant of `mergedRowReader` -/

def MK.rems (st : MK) : List (List Row) := st.bufs.map Buf.rem

/-- the tree of `st` is valid for heads `H` that agree with the buffers of all live inputs other than
    the current winner `w0` (whose buffer may have been consumed since the last replay) -/
structure Live (st : MK) (H : Heads) (win : Nat → Int) (w0 : Nat) : Prop where
  tinv : TInv st.bufs.length H st.losers win
  root : win 0 = (w0 : Int)
  winner : st.winner = (w0 : Int)
  leafpos : st.winnerLeaf = (st.bufs.length : Int) + (w0 : Int)
  bound : ∀ x, H.alive x = true → x < st.bufs.length
  link : ∀ x, x ≠ w0 → H.alive x = true → ∃ c, st.bufs[x]? = some c ∧ c.win ≠ [] ∧ c.head.key = H.key x
  dead : ∀ x, x < st.bufs.length → H.alive x = false → ∃ c, st.bufs[x]? = some c ∧ c.rem = []
  count : st.count = (List.range st.bufs.length).countP H.alive

/-- the buffered head of the winner is minimal (vacuous while its buffer is empty) -/
def MinOk (st : MK) (H : Heads) (w0 : Nat) : Prop :=
  ∀ c, st.bufs[w0]? = some c → c.win ≠ [] → ∀ x, x ≠ w0 → H.alive x = true → c.head.key ≤ H.key x

/-- the winner has rows buffered (true after every replay) -/
def Buffered (st : MK) (w0 : Nat) : Prop := ∃ c, st.bufs[w0]? = some c ∧ c.win ≠ []

def KInv (st : MK) : Prop :=
  (st.count = 0 → ∀ b ∈ st.bufs, b.rem = []) ∧
  (st.count ≠ 0 → ∃ H win w0, Live st H win w0 ∧ MinOk st H w0)

theorem headOf_eq {bufs : List Buf} {x : Nat} {c : Buf} (h : bufs[x]? = some c) : headOf bufs (x : Int) = c.head := by
  simp [headOf, List.getD_eq_getElem?_getD, h]

section live
variable {st : MK} {H : Heads} {win : Nat → Int} {w0 : Nat}

theorem Live.w0_lt (hl : Live st H win w0) : w0 < st.bufs.length := (hl.tinv.chain 0 w0 hl.root).2.1

theorem Live.w0_alive (hl : Live st H win w0) : H.alive w0 = true := (hl.tinv.chain 0 w0 hl.root).1

theorem Live.cur (hl : Live st H win w0) : st.bufs[w0]? = some st.cur := by
  have := hl.w0_lt
  simp [MK.cur, hl.winner, List.getD_eq_getElem?_getD, List.getElem?_eq_getElem this]

theorem setBuf_bufs (hl : Live st H win w0) (c' : Buf) : (st.setBuf c').bufs = st.bufs.set w0 c' := by
  simp [MK.setBuf, hl.winner]

theorem setBuf_get_ne (hl : Live st H win w0) (c' : Buf) {x : Nat} (hx : x ≠ w0) :
    (st.setBuf c').bufs[x]? = st.bufs[x]? := by
  rw [setBuf_bufs hl, List.getElem?_set]; simp [Ne.symm hx]

theorem setBuf_get_eq (hl : Live st H win w0) (c' : Buf) : (st.setBuf c').bufs[w0]? = some c' := by
  rw [setBuf_bufs hl, List.getElem?_set]; simp [hl.w0_lt]

theorem setBuf_len (hl : Live st H win w0) (c' : Buf) : (st.setBuf c').bufs.length = st.bufs.length := by
  rw [setBuf_bufs hl]; simp

/-- replacing the winner's buffer keeps the (stale) invariant -/
theorem Live.setBuf (hl : Live st H win w0) (c' : Buf) : Live (st.setBuf c') H win w0 := by
  have hlen := setBuf_len hl c'
  refine ⟨by rw [hlen]; exact hl.tinv, hl.root, hl.winner, by rw [hlen]; exact hl.leafpos,
    by rw [hlen]; exact hl.bound, ?_, ?_, by rw [hlen]; exact hl.count⟩
  · intro x hx ha
    rw [setBuf_get_ne hl c' hx]; exact hl.link x hx ha
  · intro x hx ha
    have : x ≠ w0 := by intro h; subst h; rw [hl.w0_alive] at ha; cases ha
    rw [setBuf_get_ne hl c' this]; exact hl.dead x (by rw [← hlen]; exact hx) ha

theorem Live.streak (hl : Live st H win w0) (s : Nat) : Live { st with streak := s } H win w0 :=
  ⟨hl.tinv, hl.root, hl.winner, hl.leafpos, hl.bound, hl.link, hl.dead, hl.count⟩

theorem replayGames_eq (st : MK) : st.replayGames =
    { st with losers := (replayLoop st.bufs st.bufs.length ((st.winnerLeaf.toNat - 1) / 2) st.winner st.losers).2,
              winner := (replayLoop st.bufs st.bufs.length ((st.winnerLeaf.toNat - 1) / 2) st.winner st.losers).1,
              winnerLeaf := (st.bufs.length : Int) +
                (replayLoop st.bufs st.bufs.length ((st.winnerLeaf.toNat - 1) / 2) st.winner st.losers).1 } := rfl

/-- after a replay the tree is valid for the actual heads of all live inputs -/
theorem fresh_of_tinv {st2 : MK} {H' : Heads} {w' : Nat → Int}
    (htinv : TInv st2.bufs.length H' st2.losers w') (hwin : w' 0 = st2.winner)
    (hleaf : st2.winnerLeaf = (st2.bufs.length : Int) + st2.winner)
    (hbound : ∀ x, H'.alive x = true → x < st2.bufs.length)
    (hfull : ∀ x, H'.alive x = true → ∃ c, st2.bufs[x]? = some c ∧ c.win ≠ [] ∧ c.head.key = H'.key x)
    (hdead : ∀ x, x < st2.bufs.length → H'.alive x = false → ∃ c, st2.bufs[x]? = some c ∧ c.rem = [])
    (hcount : st2.count = (List.range st2.bufs.length).countP H'.alive)
    (hsome : ∃ x, x < st2.bufs.length ∧ H'.alive x = true) :
    ∃ w1, Live st2 H' w' w1 ∧ MinOk st2 H' w1 ∧ Buffered st2 w1 := by
  obtain ⟨x0, hx0, ha0⟩ := hsome
  obtain ⟨w1, hw1, hal1, hlt1⟩ := htinv.winner_alive x0 hx0 ha0
  refine ⟨w1, ⟨htinv, hw1, by rw [← hwin, hw1], by rw [hleaf, ← hwin, hw1], hbound,
    fun x _ ha => hfull x ha, hdead, hcount⟩, ?_, ?_⟩
  case refine_2 =>
    obtain ⟨c1, hc1, hw1', _⟩ := hfull w1 hal1
    exact ⟨c1, hc1, hw1'⟩
  intro c hc _ x hx ha
  have hmin := htinv.tree_min x (hbound x ha) ha
  rw [hw1, pk_nat hal1, leInf_some] at hmin
  obtain ⟨c1, hc1, _, hk1⟩ := hfull w1 hal1
  rw [hc] at hc1; cases hc1
  omega

/-- replay after the head of the winner changed to the head of its non-empty buffer `c'` -/
theorem Live.replay_fresh (hl : Live st H win w0) (c' : Buf) (hc : st.bufs[w0]? = some c') (hc' : c'.win ≠ []) :
    ∃ H' win' w1, Live st.replayGames H' win' w1 ∧ MinOk st.replayGames H' w1 ∧ Buffered st.replayGames w1 := by
  let H' : Heads := { alive := H.alive, key := fun x => if x = w0 then c'.head.key else H.key x }
  have hfull : ∀ x, H'.alive x = true → ∃ c, st.bufs[x]? = some c ∧ c.win ≠ [] ∧ c.head.key = H'.key x := by
    intro x ha
    by_cases hx : x = w0
    · subst hx; exact ⟨c', hc, hc', by simp [H']⟩
    · obtain ⟨c, h1, h2, h3⟩ := hl.link x hx ha
      exact ⟨c, h1, h2, by simp [H', hx, h3]⟩
  have hrep := replay_inv (H' := H') (bufs := st.bufs) hl.tinv hl.root
    (by intro x hx; simp [H', hx])
    (by
      intro x ha
      obtain ⟨c, h1, _, h3⟩ := hfull x ha
      rw [headOf_eq h1, h3])
  simp only at hrep
  have hc0 : (if H'.alive w0 = true then (w0 : Int) else -1) = st.winner := by
    have : H'.alive w0 = true := hl.w0_alive
    rw [if_pos this, hl.winner]
  have hoff : par (st.bufs.length + w0) = (st.winnerLeaf.toNat - 1) / 2 := by
    rw [hl.leafpos]; simp only [par]; congr 2
  rw [hc0, hoff] at hrep
  obtain ⟨w', htinv, hwin⟩ := hrep
  obtain ⟨w1, h1, h2⟩ := fresh_of_tinv (st2 := st.replayGames) (H' := H') (w' := w')
    htinv hwin rfl hl.bound hfull hl.dead hl.count ⟨w0, hl.w0_lt, hl.w0_alive⟩
  exact ⟨H', w', w1, h1, h2⟩

/-- replay after the winner was exhausted -/
theorem Live.replay_eof (hl : Live st H win w0) (hrem : st.cur.rem = []) :
    let st1 : MK := { st with winner := -1, count := st.count - 1 }
    (st.count - 1 = 0 → ∀ b ∈ st.bufs, b.rem = []) ∧
    (st.count - 1 ≠ 0 → ∃ H' win' w1, Live st1.replayGames H' win' w1 ∧ MinOk st1.replayGames H' w1 ∧
      Buffered st1.replayGames w1) := by
  intro st1
  let H' : Heads := { alive := fun x => if x = w0 then false else H.alive x, key := H.key }
  have hcnt : (List.range st.bufs.length).countP H'.alive + 1 = st.count := by
    rw [hl.count]
    exact countP_flip _ List.nodup_range (List.mem_range.mpr hl.w0_lt) hl.w0_alive (by simp [H'])
      (by intro x hx; simp [H', hx])
  have hdead : ∀ x, x < st.bufs.length → H'.alive x = false → ∃ c, st.bufs[x]? = some c ∧ c.rem = [] := by
    intro x hx ha
    by_cases hxw : x = w0
    · subst hxw; exact ⟨st.cur, hl.cur, hrem⟩
    · exact hl.dead x hx (by simpa [H', hxw] using ha)
  constructor
  · intro h0 b hb
    obtain ⟨x, hx, rfl⟩ := List.mem_iff_getElem.mp hb
    have hz : (List.range st.bufs.length).countP H'.alive = 0 := by omega
    have hnone : H'.alive x = false := by
      have := List.countP_eq_zero.mp hz x (List.mem_range.mpr hx)
      simpa using this
    obtain ⟨c, hc, hcr⟩ := hdead x hx hnone
    rw [List.getElem?_eq_getElem hx] at hc
    cases hc; exact hcr
  · intro hne
    have hfull : ∀ x, H'.alive x = true → ∃ c, st.bufs[x]? = some c ∧ c.win ≠ [] ∧ c.head.key = H'.key x := by
      intro x ha
      have hx : x ≠ w0 := by intro h; subst h; simp [H'] at ha
      have ha' : H.alive x = true := by simpa [H', hx] using ha
      exact hl.link x hx ha'
    have hrep := replay_inv (H' := H') (bufs := st.bufs) hl.tinv hl.root
      (by intro x hx; simp [H', hx])
      (by
        intro x ha
        obtain ⟨c, h1, _, h3⟩ := hfull x ha
        rw [headOf_eq h1, h3])
    simp only at hrep
    have hc0 : (if H'.alive w0 = true then (w0 : Int) else -1) = st1.winner := by simp [H', st1]
    have hoff : par (st.bufs.length + w0) = ((st1.winnerLeaf.toNat - 1) / 2) := by
      show par (st.bufs.length + w0) = ((st.winnerLeaf.toNat - 1) / 2)
      rw [hl.leafpos]; simp only [par]; congr 2
    rw [hc0, hoff] at hrep
    obtain ⟨w', htinv, hwin⟩ := hrep
    have hsome : ∃ x, x < st.bufs.length ∧ H'.alive x = true :=
      countP_pos_iff.mp (by omega)
    obtain ⟨w1, h1, h2⟩ := fresh_of_tinv (st2 := st1.replayGames) (H' := H') (w' := w')
      htinv hwin rfl
      (by intro x ha
          have hx : x ≠ w0 := by intro h; subst h; simp [H'] at ha
          exact hl.bound x (by simpa [H', hx] using ha))
      hfull hdead (by show st.count - 1 = (List.range st.bufs.length).countP H'.alive; omega) hsome
    exact ⟨H', w', w1, h1, h2⟩


theorem cur_setBuf (hl : Live st H win w0) (c' : Buf) : (st.setBuf c').cur = c' := by
  have := setBuf_get_eq hl c'
  have hw : (st.setBuf c').winner = (w0 : Int) := hl.winner
  simp [MK.cur, hw, List.getD_eq_getElem?_getD, this]

theorem rems_setBuf (hl : Live st H win w0) (c' : Buf) : (st.setBuf c').rems = st.rems.set w0 c'.rem := by
  simp [MK.rems, setBuf_bufs hl, List.map_set]

theorem rems_setBuf_same (hl : Live st H win w0) (c' : Buf) (h : c'.rem = st.cur.rem) :
    (st.setBuf c').rems = st.rems := by
  rw [rems_setBuf hl, h]
  have hlt := hl.w0_lt
  have hc := hl.cur
  rw [List.getElem?_eq_getElem hlt] at hc
  have hget : st.bufs[w0] = st.cur := by simpa using hc
  have : st.cur.rem = st.rems[w0]'(by simpa [MK.rems] using hlt) := by
    simp only [MK.rems, List.getElem_map, hget]
  rw [this]; exact List.set_getElem_self _

/-- emitting the first `n` buffered rows of the winner, all below the heads of the other live inputs -/
theorem Live.emits (hl : Live st H win w0) (n : Nat)
    (hle : ∀ y ∈ st.cur.win.take n, ∀ x, x ≠ w0 → H.alive x = true → y.key ≤ H.key x) :
    Emits st.rems (st.cur.win.take n) (st.setBuf (st.cur.advance n).1).rems := by
  have h := emits_advance st.bufs w0 st.cur n hl.cur (by
    intro y hy j c' y' hj hcj hy'
    have hjlt : j < st.bufs.length := lt_of_getElem?_some hcj
    cases ha : H.alive j with
    | true =>
      obtain ⟨c'', h1, h2, h3⟩ := hl.link j hj ha
      rw [hcj] at h1; cases h1
      rw [Buf.head_rem h2] at hy'; cases hy'
      rw [h3]; exact hle y hy j hj ha
    | false =>
      obtain ⟨c'', h1, h2⟩ := hl.dead j hjlt ha
      rw [hcj] at h1; cases h1
      rw [h2] at hy'; cases hy')
  simpa only [MK.rems, setBuf_bufs hl] using h

end live

theorem KInv.streak {st : MK} (h : KInv st) (s : Nat) : KInv { st with streak := s } := by
  refine ⟨h.1, ?_⟩
  intro hc
  obtain ⟨H, win, w0, hl, hm⟩ := h.2 hc
  exact ⟨H, win, w0, hl.streak s, hm⟩

theorem KInv.replayKeep {st : MK} (p : Int) (h : KInv st.replayGames) : KInv (st.replayKeep p) := by
  unfold MK.replayKeep; split
  · exact h.streak 0
  · exact h

theorem KInv.replayCount {st : MK} (p : Int) (h : KInv st.replayGames) : KInv (st.replayCount p) := by
  unfold MK.replayCount; split
  · exact h.streak _
  · exact h.streak 0

theorem replayKeep_bufs (st : MK) (p : Int) : (st.replayKeep p).bufs = st.bufs := by
  unfold MK.replayKeep; split <;> rfl

theorem replayCount_bufs (st : MK) (p : Int) : (st.replayCount p).bufs = st.bufs := by
  unfold MK.replayCount; split <;> rfl

theorem kinv_of_live {st : MK} {H : Heads} {win : Nat → Int} {w0 : Nat}
    (hl : Live st H win w0) (hm : MinOk st H w0) (hc : st.count ≠ 0) : KInv st :=
  ⟨fun h => absurd h hc, fun _ => ⟨H, win, w0, hl, hm⟩⟩

theorem minOk_empty {st : MK} {H : Heads} {win : Nat → Int} {w0 : Nat} (hl : Live st H win w0) (c' : Buf)
    (hc' : c'.win = []) : MinOk (st.setBuf c') H w0 := by
  intro c hc hw
  rw [setBuf_get_eq hl c'] at hc; cases hc
  exact absurd hc' hw

/-- the loop of `ReadRows`: an `Emits` schedule that keeps the invariant -/
theorem MK.loop_emits : ∀ (f m : Nat) (st : MK), KInv st → (∀ l ∈ st.rems, SortedK l) →
    Emits st.rems (MK.loop f m st).1 (MK.loop f m st).2.rems ∧ KInv (MK.loop f m st).2
  | 0, m, st, hk, _ => by simp only [MK.loop]; exact ⟨Emits.nil, hk⟩
  | f + 1, m, st, hk, hs => by
    simp only [MK.loop]
    split
    · exact ⟨Emits.nil, hk⟩
    rename_i hcond
    simp only [Bool.or_eq_true, decide_eq_true_eq, not_or] at hcond
    obtain ⟨H, win, w0, hl, hmin⟩ := hk.2 hcond.2
    have hcur := hl.cur
    have hcurmem : st.cur.rem ∈ st.rems := by
      simp only [MK.rems, List.mem_map]
      exact ⟨st.cur, List.mem_of_getElem? hcur, rfl⟩
    split
    · -- the winner's buffer is empty: refill
      rename_i hempty
      have hwin : st.cur.win = [] := by simpa [Buf.empty] using hempty
      split
      · rename_i c' hr
        have hrem : (st.setBuf c').rems = st.rems := rems_setBuf_same hl c' (Buf.read_rem hr)
        obtain ⟨H', win', w1, hl', hm'⟩ := (hl.setBuf c').replay_fresh c' (setBuf_get_eq hl c') (Buf.read_win hr)
        have hk' : KInv ((st.setBuf c').replayKeep st.winner) :=
          KInv.replayKeep _ (kinv_of_live hl' hm'.1 hcond.2)
        have ih := MK.loop_emits f m _ hk' (by
          intro l hl_; apply hs; rw [← hrem]
          simpa only [MK.rems, replayKeep_bufs] using hl_)
        simp only [MK.rems, replayKeep_bufs] at ih
        change Emits (st.setBuf c').rems _ _ ∧ _ at ih
        rw [hrem] at ih
        exact ih
      · rename_i hr
        have hrem : st.cur.rem = [] := by simp [Buf.rem, hwin, Buf.read_none hr]
        obtain ⟨h0, h1⟩ := hl.replay_eof hrem
        have hk' : KInv ({ st with winner := -1, count := st.count - 1 }.replayKeep (-1)) := by
          apply KInv.replayKeep
          refine ⟨fun hc => h0 hc, fun hc => ?_⟩
          obtain ⟨H', win', w1, hl', hm'⟩ := h1 hc
          exact ⟨H', win', w1, hl', hm'.1⟩
        have ih := MK.loop_emits f m _ hk' (by
          simp only [MK.rems, replayKeep_bufs]; exact hs)
        simp only [MK.rems, replayKeep_bufs] at ih
        exact ih
    · -- emit the head of the winner
      rename_i hempty
      have hcw : st.cur.win ≠ [] := by simpa [Buf.empty] using hempty
      have hl1 := hl.setBuf (st.cur.advance 1).1
      have hE0 : Emits st.rems [st.cur.head] (st.setBuf (st.cur.advance 1).1).rems := by
        have := hl.emits 1 (by
          intro y hy x hx ha
          rw [Buf.take_one hcw] at hy
          simp at hy; subst hy
          exact hmin st.cur hcur hcw x hx ha)
        rwa [Buf.take_one hcw] at this
      have hs1 := (emits_sorted hE0 hs).2.2
      have hcount1 : (st.setBuf (st.cur.advance 1).1).count ≠ 0 := hcond.2
      split
      · -- the buffer is exhausted: return
        rename_i hmore
        have hw1 : (st.cur.advance 1).1.win = [] := by simpa [Buf.advance] using hmore
        exact ⟨hE0, kinv_of_live hl1 (minOk_empty hl _ hw1) hcount1⟩
      · rename_i hmore
        have hw1 : (st.cur.advance 1).1.win ≠ [] := by simpa [Buf.advance] using hmore
        split
        · -- run mode
          have hc1s : SortedK (st.cur.advance 1).1.win := by
            apply Buf.win_sorted
            apply hs1
            simp only [MK.rems, List.mem_map]
            exact ⟨_, List.mem_of_getElem? (setBuf_get_eq hl _), rfl⟩
          obtain ⟨n, e1, e2, e3, e4, e5⟩ := runEmit_spec (st.setBuf (st.cur.advance 1).1).runBound (m - 1) (m - 1)
            (st.cur.advance 1).1 hw1 hc1s
          have hrb : (st.setBuf (st.cur.advance 1).1).runBound =
              runBoundLoop (st.setBuf (st.cur.advance 1).1).bufs (st.setBuf (st.cur.advance 1).1).losers
                (st.setBuf (st.cur.advance 1).1).bufs.length (par ((st.setBuf (st.cur.advance 1).1).bufs.length + w0)) none := by
            simp only [MK.runBound, hl1.leafpos, par]; congr 2
          have hbmin := (runBound_min (bufs := (st.setBuf (st.cur.advance 1).1).bufs) hl1.tinv hl1.root (by
            intro x hx ha
            obtain ⟨c, h1, _, h3⟩ := hl1.link x hx ha
            rw [headOf_eq h1, h3])).1
          rw [← hrb] at hbmin
          have hE1 : Emits (st.setBuf (st.cur.advance 1).1).rems ((st.cur.advance 1).1.win.take n)
              ((st.setBuf (st.cur.advance 1).1).setBuf ((st.cur.advance 1).1.advance n).1).rems := by
            have := hl1.emits n (by
              rw [cur_setBuf hl]
              intro y hy x hx ha
              obtain ⟨b, hb1, hb2⟩ := hbmin x (hl1.bound x ha) hx ha
              have := e3 y hy b hb1
              omega)
            rwa [cur_setBuf hl] at this
          have hl2 := hl1.setBuf ((st.cur.advance 1).1.advance n).1
          rw [e1, e2]
          split
          · rename_i hret
            refine ⟨Emits.trans hE0 hE1, ?_⟩
            exact kinv_of_live hl2 (minOk_empty hl1 _ (e4 hret)) hcond.2
          · rename_i hret
            have hret' : (runEmit (st.setBuf (st.cur.advance 1).1).runBound (m - 1) (m - 1) (st.cur.advance 1).1).2.2 = false := by
              simpa using hret
            have hw2 := e5 hret'
            obtain ⟨H', win', w1, hl', hm'⟩ := (hl2.streak 0).replay_fresh _ (setBuf_get_eq hl1 _) hw2
            have hs2 := (emits_sorted hE1 hs1).2.2
            have ih := MK.loop_emits f (m - 1 - ((st.cur.advance 1).1.win.take n).length) _
              (kinv_of_live hl' hm'.1 hcond.2) hs2
            exact ⟨Emits.trans hE0 (Emits.trans hE1 ih.1), ih.2⟩
        · -- replay the games
          obtain ⟨H', win', w1, hl', hm'⟩ := hl1.replay_fresh _ (setBuf_get_eq hl _) hw1
          have hk' : KInv ((st.setBuf (st.cur.advance 1).1).replayCount st.winner) :=
            KInv.replayCount _ (kinv_of_live hl' hm'.1 hcond.2)
          have ih := MK.loop_emits f (m - 1) _ hk' (by
            simp only [MK.rems, replayCount_bufs]; exact hs1)
          simp only [MK.rems, replayCount_bufs] at ih
          exact ⟨Emits.trans hE0 ih.1, ih.2⟩


/-! ## initialisation and one `ReadRows` call -/

theorem readOr_rem (b : Buf) (hw : b.win = []) : (readOr b).rem = b.rem := by
  unfold readOr
  cases hr : b.read with
  | none => rfl
  | some b' => simp [Buf.read_rem hr]

theorem aliveAt_lt {bufs : List Buf} {i : Nat} (h : aliveAt bufs i = true) : i < bufs.length := by
  unfold aliveAt at h
  split at h
  · rename_i b hb; exact lt_of_getElem?_some hb
  · cases h

theorem initialize_rems (st : MK) (hw : ∀ b ∈ st.bufs, b.win = []) : st.initialize.rems = st.rems := by
  have : (st.bufs.map readOr).map Buf.rem = st.bufs.map Buf.rem := by
    rw [List.map_map]
    apply List.map_congr_left
    intro b hb
    exact readOr_rem b (hw b hb)
  unfold MK.initialize
  simp only
  split <;> simpa [MK.rems] using this

theorem initialize_kinv (st : MK) (hw : ∀ b ∈ st.bufs, b.win = []) : KInv st.initialize := by
  have hlen : (st.bufs.map readOr).length = st.bufs.length := by simp
  have hget : ∀ (x : Nat) (b : Buf), st.bufs[x]? = some b → (st.bufs.map readOr)[x]? = some (readOr b) := by
    intro x b hb; simp [hb]
  unfold MK.initialize
  simp only
  split
  · rename_i hpos
    let H : Heads := { alive := aliveAt st.bufs,
                       key := fun x => ((st.bufs.map readOr).getD x (Buf.fresh [] [])).head.key }
    have hfull : ∀ x, H.alive x = true → ∃ c, (st.bufs.map readOr)[x]? = some c ∧ c.win ≠ [] ∧ c.head.key = H.key x := by
      intro x ha
      have ha' : aliveAt st.bufs x = true := ha
      unfold aliveAt at ha'
      split at ha'
      · rename_i b hb
        obtain ⟨b', hb'⟩ := Option.isSome_iff_exists.mp ha'
        refine ⟨readOr b, hget x b hb, ?_, ?_⟩
        · simp only [readOr, hb', Option.getD_some]; exact Buf.read_win hb'
        · simp [H, List.getD_eq_getElem?_getD, hb]
      · cases ha'
    have hdead : ∀ x, x < (st.bufs.map readOr).length → H.alive x = false →
        ∃ c, (st.bufs.map readOr)[x]? = some c ∧ c.rem = [] := by
      intro x hx ha
      rw [hlen] at hx
      have hb : st.bufs[x]? = some st.bufs[x] := List.getElem?_eq_getElem hx
      have ha' : aliveAt st.bufs x = false := ha
      unfold aliveAt at ha'
      rw [hb] at ha'
      simp only at ha'
      have hnone : st.bufs[x].read = none := by
        cases hr : st.bufs[x].read with
        | none => rfl
        | some _ => rw [hr] at ha'; cases ha'
      refine ⟨readOr st.bufs[x], hget x _ hb, ?_⟩
      rw [readOr_rem _ (hw _ (List.getElem_mem hx))]
      simp [Buf.rem, hw _ (List.getElem_mem hx), Buf.read_none hnone]
    have hleaves : LeavesOk (st.bufs.map readOr)
        ((List.range st.bufs.length).map (fun i => if aliveAt st.bufs i then (i : Int) else -1)) H := by
      refine ⟨by simp, ?_, ?_⟩
      · intro x hx
        rw [hlen] at hx
        simp [List.getD_eq_getElem?_getD, hx, H]
      · intro x ha
        obtain ⟨c, h1, _, h3⟩ := hfull x ha
        rw [headOf_eq h1, h3]
    obtain ⟨htinv, hroot⟩ := init_inv hleaves (List.replicate st.bufs.length 0) (by simp)
    rw [hlen] at htinv hroot
    have hsome : ∃ x, x < st.bufs.length ∧ aliveAt st.bufs x = true :=
      countP_pos_iff.mp (by omega)
    obtain ⟨w1, h1, h2⟩ := fresh_of_tinv
      (st2 := { st with bufs := st.bufs.map readOr,
                        losers := (playInitialGames (st.bufs.map readOr)
                          ((List.range st.bufs.length).map (fun i => if aliveAt st.bufs i then (i : Int) else -1))
                          st.bufs.length 0 (List.replicate st.bufs.length 0)).2,
                        count := (List.range st.bufs.length).countP (aliveAt st.bufs),
                        winner := (playInitialGames (st.bufs.map readOr)
                          ((List.range st.bufs.length).map (fun i => if aliveAt st.bufs i then (i : Int) else -1))
                          st.bufs.length 0 (List.replicate st.bufs.length 0)).1,
                        winnerLeaf := (st.bufs.length : Int) + (playInitialGames (st.bufs.map readOr)
                          ((List.range st.bufs.length).map (fun i => if aliveAt st.bufs i then (i : Int) else -1))
                          st.bufs.length 0 (List.replicate st.bufs.length 0)).1,
                        initialized := true })
      (H' := H) (w' := initW (st.bufs.map readOr)
        ((List.range st.bufs.length).map (fun i => if aliveAt st.bufs i then (i : Int) else -1)))
      (by simpa [hlen] using htinv) hroot (by simp [hlen])
      (by intro x ha; rw [hlen]; exact aliveAt_lt ha) hfull hdead (by simp [hlen, H])
      (by simpa [hlen] using hsome)
    exact kinv_of_live h1 h2.1 (by show (List.range st.bufs.length).countP (aliveAt st.bufs) ≠ 0; omega)
  · rename_i hpos
    have hz : (List.range st.bufs.length).countP (aliveAt st.bufs) = 0 := by omega
    refine ⟨fun _ => ?_, fun h => absurd rfl h⟩
    intro b hb
    simp only [List.mem_map] at hb
    obtain ⟨b0, hb0, rfl⟩ := hb
    obtain ⟨x, hx, rfl⟩ := List.mem_iff_getElem.mp hb0
    have hdeadx : aliveAt st.bufs x = false := by
      have := List.countP_eq_zero.mp hz x (List.mem_range.mpr hx)
      simpa using this
    unfold aliveAt at hdeadx
    rw [List.getElem?_eq_getElem hx] at hdeadx
    simp only at hdeadx
    have hnone : st.bufs[x].read = none := by
      cases hr : st.bufs[x].read with
      | none => rfl
      | some _ => rw [hr] at hdeadx; cases hdeadx
    rw [readOr_rem _ (hw _ hb0)]
    simp [Buf.rem, hw _ hb0, Buf.read_none hnone]

theorem initialize_init (st : MK) : st.initialize.initialized = true := by
  unfold MK.initialize; simp only; split <;> rfl

theorem replayGames_init (st : MK) : st.replayGames.initialized = st.initialized := rfl

theorem MK.loop_init : ∀ (f m : Nat) (st : MK), (MK.loop f m st).2.initialized = st.initialized
  | 0, _, _ => rfl
  | f + 1, m, st => by
    simp only [MK.loop]
    split
    · rfl
    split
    · split
      · rw [MK.loop_init f]; unfold MK.replayKeep; split <;> rfl
      · rw [MK.loop_init f]; unfold MK.replayKeep; split <;> rfl
    · split
      · rfl
      · split
        · split
          · rfl
          · rw [MK.loop_init f]; rfl
        · rw [MK.loop_init f]; unfold MK.replayCount; split <;> rfl

/-- state invariant of the k-way reader between `ReadRows` calls -/
def MK.Ok (st : MK) : Prop :=
  (st.initialized = false → ∀ b ∈ st.bufs, b.win = []) ∧ (st.initialized = true → KInv st)

theorem MK.readRows_emits (st : MK) (m : Nat) (hok : st.Ok) (hs : ∀ l ∈ st.rems, SortedK l) :
    Emits st.rems (st.readRows m).1 (st.readRows m).2.2.rems ∧ (st.readRows m).2.2.Ok ∧
    ((st.readRows m).2.2.initialized = true) ∧
    ((st.readRows m).2.1 = true → ∀ l ∈ (st.readRows m).2.2.rems, l = []) := by
  obtain ⟨st1, hst1, hrem1, hk1, hi1⟩ : ∃ st1, st1 = (if st.initialized then st else st.initialize) ∧
      st1.rems = st.rems ∧ KInv st1 ∧ st1.initialized = true := by
    refine ⟨_, rfl, ?_, ?_, ?_⟩
    · split
      · rfl
      · rename_i h; exact initialize_rems st (hok.1 (by simpa using h))
    · split
      · rename_i h; exact hok.2 h
      · rename_i h; exact initialize_kinv st (hok.1 (by simpa using h))
    · split
      · assumption
      · exact initialize_init st
  have hunf : st.readRows m = ((MK.loop (2 * m + 2) m st1).1, decide ((MK.loop (2 * m + 2) m st1).2.count = 0),
      (MK.loop (2 * m + 2) m st1).2) := by
    rw [hst1]; rfl
  rw [hunf]
  obtain ⟨hE, hK⟩ := MK.loop_emits (2 * m + 2) m st1 hk1 (hrem1 ▸ hs)
  have hinit : (MK.loop (2 * m + 2) m st1).2.initialized = true := by rw [MK.loop_init, hi1]
  have hok' : (MK.loop (2 * m + 2) m st1).2.Ok :=
    ⟨fun h => (by rw [hinit] at h; cases h), fun _ => hK⟩
  refine ⟨hrem1 ▸ hE, hok', hinit, ?_⟩
  intro heof l hl
  simp only [decide_eq_true_eq] at heof
  simp only [MK.rems, List.mem_map] at hl
  obtain ⟨b, hb, rfl⟩ := hl
  exact hK.1 heof b hb

end PqModel.Merge
