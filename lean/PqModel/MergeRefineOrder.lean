import PqModel.MergeRefineProof

/-! # C09 — the two order facts the sweep of `refineSegment` relies on, on the merge's own comparator

`cutAbove_conservative` / `cutBelow_conservative` speak about the first sorting column in sort order.
The planner's argument (merge_refine.go:14-24: "every row of a region compares at most equal to every
row of the following regions") needs them on `compare`, the lexicographic comparator of all sorting
columns: a strict inequality on the first column decides the comparison (`cmpRows_lt_of_first`), so

* every row of the lone row group at or after `cutAbove(leftK)` is strictly after `leftK`, hence after
  every row that is at most `leftK` — the rows of the row groups whose ranges ended (`rows_from_cutAbove_after`);
* every row before `cutBelow(rightK)` is strictly before `rightK`, hence before every row that is at
  least `rightK` — the rows of the row groups that start there or later (`rows_to_cutBelow_before`).

These are the per-slice steps of the OPEN theorem `cuts_form_good_plan`; what remains open is the sweep
invariant that identifies, at every slice, the rows already planned with "at most `leftK`" and the
rows still to come with "at least `rightK`". SPEC-side statements about the MIRROR `cutAbove/cutBelow`. -/
namespace PqModel.Refine
open PqModel.Compare

theorem colCmp_lt_of_ord (s : ColSpec) (x y : Int) (h : ord s.desc x < ord s.desc y) :
    colCmp s (some x) (some y) < 0 := by
  unfold colCmp
  cases hd : s.desc <;> cases hn : s.nullsFirst <;>
    simp only [hd, ord, Bool.false_eq_true, if_false, if_true, nullsFirst, nullsLast, descending, cmpInt] at h ⊢ <;>
    (split <;> (try split) <;> omega)

/-- a strict inequality on the first sorting column, in sort order, decides the whole comparison -/
theorem cmpRows_lt_of_first (s : ColSpec) (ss : List ColSpec) (a b : KeyRow) (x y : Int)
    (ha : a.getD 0 none = some x) (hb : b.getD 0 none = some y) (h : ord s.desc x < ord s.desc y) :
    cmpRows (s :: ss) a b < 0 := by
  unfold cmpRows
  simp only [colComparators]
  rw [cmpLex_lt]
  left
  simp only [onCol, ha, hb]
  exact colCmp_lt_of_ord s x y h

/-- the rows of a row group as the comparator sees them, tied to the first-column values `vals` that
    `PagesOk` is about -/
def FirstCol (desc : Bool) (rows : List KeyRow) (vals : List Int) : Prop :=
  rows.length = vals.length ∧
  ∀ r, r < rows.length → ∃ v, (rows.getD r []).getD 0 none = some v ∧ ord desc v = vals.getD r 0

/-- rows at or after `cutAbove(leftK)` come strictly after every row that is at most `leftK` -/
theorem rows_from_cutAbove_after (s : ColSpec) (ss : List ColSpec) {t : Target} {vals : List Int}
    (h : PagesOk s.desc t vals) (rows : List KeyRow) (hf : FirstCol s.desc rows vals)
    (leftK : KeyRow) (kv : Int) (hk : leftK.getD 0 none = some kv)
    (a : KeyRow) (ha : cmpRows (s :: ss) a leftK ≤ 0)
    (r : Nat) (hr : cutAbove s.desc t leftK ≤ r) (hlt : r < t.numRows) :
    cmpRows (s :: ss) a (rows.getD r []) < 0 := by
  have hc := cutAbove_conservative h leftK kv hk r hr hlt
  obtain ⟨v, hv, hov⟩ := hf.2 r (by rw [hf.1, h.rows]; exact hlt)
  have := cmpRows_lt_of_first s ss leftK (rows.getD r []) kv v hk hv (by omega)
  exact (cmpRows_lawful (s :: ss)).lt_of_le_of_lt ha this

/-- rows before `cutBelow(rightK)` come strictly before every row that is at least `rightK` -/
theorem rows_to_cutBelow_before (s : ColSpec) (ss : List ColSpec) {t : Target} {vals : List Int}
    (h : PagesOk s.desc t vals) (rows : List KeyRow) (hf : FirstCol s.desc rows vals)
    (rightK : KeyRow) (kv : Int) (hk : rightK.getD 0 none = some kv)
    (b : KeyRow) (hb : cmpRows (s :: ss) rightK b ≤ 0)
    (r : Nat) (hr : r < cutBelow s.desc t rightK) (hlt : r < t.numRows) :
    cmpRows (s :: ss) (rows.getD r []) b < 0 := by
  have hc := cutBelow_conservative h rightK kv hk r hr
  obtain ⟨v, hv, hov⟩ := hf.2 r (by rw [hf.1, h.rows]; exact hlt)
  have := cmpRows_lt_of_first s ss (rows.getD r []) rightK v kv hv hk (by omega)
  exact (cmpRows_lawful (s :: ss)).lt_of_lt_of_le this hb

/-- hence a lone slice `[off, e)` with `cutAbove(leftK) ≤ off` and `e ≤ cutBelow(rightK)` sits strictly
    between the rows at most `leftK` and the rows at least `rightK` -/
theorem lone_slice_between (s : ColSpec) (ss : List ColSpec) {t : Target} {vals : List Int}
    (h : PagesOk s.desc t vals) (rows : List KeyRow) (hf : FirstCol s.desc rows vals)
    (leftK rightK : KeyRow) (kl kr : Int) (hl : leftK.getD 0 none = some kl) (hr : rightK.getD 0 none = some kr)
    (off e : Nat) (ho : cutAbove s.desc t leftK ≤ off) (he : e ≤ cutBelow s.desc t rightK) (hen : e ≤ t.numRows)
    (a b : KeyRow) (ha : cmpRows (s :: ss) a leftK ≤ 0) (hb : cmpRows (s :: ss) rightK b ≤ 0) :
    ∀ r, off ≤ r → r < e →
      cmpRows (s :: ss) a (rows.getD r []) < 0 ∧ cmpRows (s :: ss) (rows.getD r []) b < 0 := by
  intro r h1 h2
  exact ⟨rows_from_cutAbove_after s ss h rows hf leftK kl hl a ha r (by omega) (by omega),
    rows_to_cutBelow_before s ss h rows hf rightK kr hr b hb r (by omega) (by omega)⟩

end PqModel.Refine
