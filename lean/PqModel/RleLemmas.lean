import PqModel.Rle

/-! Lemmas about the RLE/bit-packed hybrid model (C04 rle). -/
namespace PqModel.Rle
open PqModel.Bits

/-! ### bit unpacking -/

theorem unpackBits_length (w : Nat) : ∀ (n : Nat) (bits : List Bool), (unpackBits w n bits).length = n
  | 0, _ => rfl
  | n + 1, bits => by simp [unpackBits, unpackBits_length w n]

theorem unpackBits_take (w : Nat) : ∀ (n k : Nat) (bits : List Bool),
    (unpackBits w n bits).take k = unpackBits w (min k n) bits
  | 0, k, bits => by simp [unpackBits]
  | n + 1, 0, bits => by simp [unpackBits]
  | n + 1, k + 1, bits => by
    have h : min (k + 1) (n + 1) = min k n + 1 := by omega
    simp [unpackBits, h, unpackBits_take w n k]

theorem Run.values_length (w : Nat) : ∀ r : Run, (r.values w).length = match r with | .rle c _ => c | .bp g _ => 8 * g
  | .rle c v => by simp [Run.values]
  | .bp g p => by simp [Run.values, unpackBits_length]

/-! ### the spec decoder reads back any well-formed run list -/

theorem decodeRuns_zero (w fuel : Nat) (bs : List Nat) : decodeRuns w fuel 0 bs = .ok [] := by
  cases fuel <;> simp [decodeRuns]

theorem serialize_cons (r : Run) (rs : List Run) : serialize (r :: rs) = r.bytes ++ serialize rs := by
  simp [serialize]

theorem runsValues_cons (w : Nat) (r : Run) (rs : List Run) :
    runsValues w (r :: rs) = r.values w ++ runsValues w rs := by
  simp [runsValues]

theorem decodeRuns_serialize (w : Nat) : ∀ (rs : List Run) (fuel need : Nat) (tl : List Nat),
    (∀ r ∈ rs, r.WF w) → rs.length ≤ fuel → need ≤ (runsValues w rs).length →
    decodeRuns w fuel need (serialize rs ++ tl) = .ok ((runsValues w rs).take need)
  | [], fuel, need, tl, _, _, hn => by
    have : need = 0 := by simpa [runsValues] using hn
    subst this
    simp [decodeRuns_zero]
  | r :: rs, 0, _, _, _, hf, _ => by simp at hf
  | r :: rs, f + 1, need, tl, hwf, hf, hn => by
    have hwf' : ∀ r ∈ rs, r.WF w := fun x hx => hwf x (by simp [hx])
    have hr : r.WF w := hwf r (by simp)
    have hf' : rs.length ≤ f := by simpa using hf
    by_cases h0 : need = 0
    · subst h0; simp [decodeRuns]
    · rw [runsValues_cons] at hn ⊢
      rw [serialize_cons]
      cases r with
      | rle c v =>
        simp only [Run.WF] at hr
        have hlen : (Run.values w (.rle c v)).length = c := by simp [Run.values]
        rw [List.length_append, hlen] at hn
        simp only [decodeRuns, h0, if_false, Run.bytes, List.append_assoc, uvarint_roundtrip]
        have h1 : ¬ (2 * c % 2 = 1) := by omega
        have h2 : 2 * c / 2 = c := by omega
        have h3 : ¬ ((v ++ (serialize rs ++ tl)).length < (w + 7) / 8) := by
          simp [List.length_append]; omega
        simp only [h1, if_false, h2, h3]
        rw [List.take_left' hr, List.drop_left' hr]
        rw [decodeRuns_serialize w rs f (need - min need c) tl hwf' hf' (by omega)]
        simp only [Except.map, Run.values]
        rw [List.take_append, List.take_replicate, List.length_replicate]
        congr 2
        by_cases hc : need ≤ c
        · have e1 : need - min need c = 0 := by omega
          have e2 : need - c = 0 := by omega
          rw [e1, e2]
        · have e1 : min need c = c := by omega
          rw [e1]
      | bp g p =>
        simp only [Run.WF] at hr
        have hlen : (Run.values w (.bp g p)).length = 8 * g := by simp [Run.values, unpackBits_length]
        rw [List.length_append, hlen] at hn
        simp only [decodeRuns, h0, if_false, Run.bytes, List.append_assoc, uvarint_roundtrip]
        have h1 : (2 * g + 1) % 2 = 1 := by omega
        have h2 : (2 * g + 1) / 2 = g := by omega
        have h3 : ¬ ((p ++ (serialize rs ++ tl)).length < g * w) := by
          simp [List.length_append]; omega
        simp only [h1, if_true, h2, h3, if_false]
        rw [List.take_left' hr, List.drop_left' hr]
        rw [decodeRuns_serialize w rs f (need - min need (8 * g)) tl hwf' hf' (by omega)]
        simp only [Except.map, Run.values]
        rw [List.take_append, unpackBits_take, unpackBits_length]
        congr 2
        by_cases hc : need ≤ 8 * g
        · have e1 : need - min need (8 * g) = 0 := by omega
          have e2 : need - 8 * g = 0 := by omega
          rw [e1, e2]
        · have e1 : min need (8 * g) = 8 * g := by omega
          rw [e1]

/-! ### packing -/

theorem bitsToBytes_nil (f : Nat) : bitsToBytes f [] = [] := by cases f <;> simp [bitsToBytes]

theorem bitsToBytes_length : ∀ (f : Nat) (bs : List Bool), bs.length ≤ f →
    (bitsToBytes f bs).length = (bs.length + 7) / 8
  | 0, bs, h => by
    have : bs = [] := by cases bs <;> simp_all
    subst this; rfl
  | f + 1, bs, h => by
    cases bs with
    | nil => simp [bitsToBytes]
    | cons b bs =>
      simp only [bitsToBytes, List.isEmpty_cons, Bool.false_eq_true, if_false, List.length_cons]
      rw [bitsToBytes_length f _ (by simp at h ⊢; omega)]
      simp only [List.length_drop, List.length_cons]
      omega

theorem packBits_length (w : Nat) : ∀ xs : List Nat, (packBits w xs).length = xs.length * w
  | [] => by simp [packBits]
  | x :: xs => by
    have ih := packBits_length w xs
    simp only [packBits] at ih
    simp only [packBits, List.map_cons, List.flatten_cons, List.length_append, toBits_length, ih,
      List.length_cons]
    rw [Nat.add_mul]; omega

theorem packBytes_length (w m : Nat) (vals : List Nat) (h : vals.length = 8 * m) :
    (packBytes w vals).length = m * w := by
  simp only [packBytes]
  rw [bitsToBytes_length _ _ (Nat.le_refl _), packBits_length, List.length_map, h]
  have : 8 * m * w = 8 * (m * w) := by rw [Nat.mul_assoc]
  omega

theorem unpack_packBytes (w : Nat) (vals : List Nat) :
    unpackBits w vals.length (bytesToBits (packBytes w vals)) = vals.map (· % 2 ^ w) := by
  have h := unpack_pack_bytes w (vals.map (· % 2 ^ w)) (by
    intro x hx
    simp only [List.mem_map] at hx
    obtain ⟨y, _, rfl⟩ := hx
    exact Nat.mod_lt _ (Nat.two_pow_pos w))
  simpa [packBytes] using h

/-! ### little-endian values -/

theorem leBytes_length : ∀ (k v : Nat), (leBytes k v).length = k
  | 0, _ => rfl
  | k + 1, v => by simp [leBytes, leBytes_length k]

theorem leNat_leBytes : ∀ (k v : Nat), leNat (leBytes k v) = v % 256 ^ k
  | 0, v => by simp [leBytes, leNat, Nat.mod_one]
  | k + 1, v => by
    simp only [leBytes, leNat, leNat_leBytes k, Nat.pow_succ]
    rw [Nat.mul_comm (256 ^ k) 256, Nat.mod_mul]

theorem mod_pow_of_le (v w k : Nat) (h : w ≤ 8 * k) : v % 256 ^ k % 2 ^ w = v % 2 ^ w := by
  have : (256 : Nat) ^ k = 2 ^ (8 * k) := by
    rw [Nat.pow_mul]
  rw [this]
  exact Nat.mod_mod_of_dvd _ (Nat.pow_dvd_pow 2 h)

/-! ### groups -/

theorem groups8_length : ∀ (n : Nat) (xs : List Nat), (groups8 n xs).length = n
  | 0, _ => rfl
  | n + 1, xs => by simp [groups8, groups8_length n]

theorem groups8_all_len : ∀ (n : Nat) (xs : List Nat), 8 * n ≤ xs.length →
    ∀ g ∈ groups8 n xs, g.length = 8
  | 0, _, _, g, hg => by simp [groups8] at hg
  | n + 1, xs, h, g, hg => by
    simp only [groups8, List.mem_cons] at hg
    rcases hg with rfl | hg
    · simp; omega
    · exact groups8_all_len n (xs.drop 8) (by simp; omega) g hg

theorem groups8_flatten : ∀ (n : Nat) (xs : List Nat), (groups8 n xs).flatten = xs.take (8 * n)
  | 0, xs => by simp [groups8]
  | n + 1, xs => by
    simp only [groups8, List.flatten_cons, groups8_flatten n]
    have : 8 * (n + 1) = 8 + 8 * n := by omega
    rw [this, List.take_add]

theorem flatten_length_of_all_len (l : List (List Nat)) (h : ∀ g ∈ l, g.length = 8) :
    l.flatten.length = 8 * l.length := by
  induction l with
  | nil => rfl
  | cons g gs ih =>
    simp only [List.flatten_cons, List.length_append, List.length_cons]
    rw [h g (by simp), ih (fun x hx => h x (by simp [hx]))]; omega

theorem flatten_of_all_eq (v : Nat) (l : List (List Nat)) (h : ∀ g ∈ l, g = List.replicate 8 v) :
    l.flatten = List.replicate (8 * l.length) v := by
  induction l with
  | nil => rfl
  | cons g gs ih =>
    simp only [List.flatten_cons, List.length_cons]
    rw [h g (by simp), ih (fun x hx => h x (by simp [hx]))]
    rw [List.replicate_append_replicate]; congr 1; omega

theorem drop_length_takeWhile {α} (p : α → Bool) (l : List α) :
    l.drop (l.takeWhile p).length = l.dropWhile p := by
  conv => lhs; arg 2; rw [← List.takeWhile_append_dropWhile (p := p) (l := l)]
  exact List.drop_left' rfl

theorem take_length_takeWhile {α} (p : α → Bool) (l : List α) :
    l.take (l.takeWhile p).length = l.takeWhile p := by
  conv => lhs; arg 2; rw [← List.takeWhile_append_dropWhile (p := p) (l := l)]
  exact List.take_left' rfl

theorem length_takeWhile_le {α} (p : α → Bool) : ∀ l : List α, (l.takeWhile p).length ≤ l.length
  | [] => by simp
  | a :: l => by
    have := length_takeWhile_le p l
    simp only [List.takeWhile_cons]
    split <;> simp <;> omega

theorem of_mem_takeWhile {α} (p : α → Bool) : ∀ (l : List α) (x : α), x ∈ l.takeWhile p → p x = true
  | [], x, h => by simp at h
  | a :: l, x, h => by
    simp only [List.takeWhile_cons] at h
    split at h
    · simp only [List.mem_cons] at h
      rcases h with rfl | h
      · assumption
      · exact of_mem_takeWhile p l x h
    · simp at h

/-! ### the run-detection loops produce well-formed runs that carry the (masked) input -/

structure EncOK (w : Nat) (enc : Nat → List Nat) : Prop where
  len : ∀ v, (enc v).length = (w + 7) / 8
  val : ∀ v, leNat (enc v) % 2 ^ w = v % 2 ^ w

theorem runsValues_nil (w : Nat) : runsValues w [] = [] := rfl

theorem groupLoop_spec (w : Nat) (enc : Nat → List Nat) (scan : List Nat → List (List Nat) → Nat)
    (henc : EncOK w enc) (hscan : ∀ g gs, scan g gs ≤ gs.length) :
    ∀ (f : Nat) (gs : List (List Nat)), gs.length ≤ f → (∀ g ∈ gs, g.length = 8) →
      (∀ r ∈ groupLoop enc scan w f gs, r.WF w) ∧
      runsValues w (groupLoop enc scan w f gs) = gs.flatten.map (· % 2 ^ w)
  | 0, gs, hf, _ => by
    have : gs = [] := by cases gs <;> simp_all
    subst this; simp [groupLoop, runsValues]
  | f + 1, [], _, _ => by simp [groupLoop, runsValues]
  | f + 1, g :: gs, hf, hall => by
    have hlen : gs.length ≤ f := by simpa using hf
    simp only [groupLoop]
    split
    · -- RLE run over the leading constant words
      rename_i hk
      generalize hkdef : (List.takeWhile (fun x => x == List.replicate 8 (g.headD 0)) (g :: gs)).length = k at hk ⊢
      have hkle : k ≤ (g :: gs).length := by
        rw [← hkdef]; exact length_takeWhile_le _ _
      have htake : (g :: gs).take k = List.takeWhile (fun x => x == List.replicate 8 (g.headD 0)) (g :: gs) := by
        rw [← hkdef]; exact take_length_takeWhile _ _
      have hconst : ((g :: gs).take k).flatten = List.replicate (8 * k) (g.headD 0) := by
        have := flatten_of_all_eq (g.headD 0) ((g :: gs).take k) (by
          intro x hx
          rw [htake] at hx
          have := of_mem_takeWhile _ _ x hx
          simpa using this)
        rw [this, List.length_take, Nat.min_eq_left hkle]
      obtain ⟨ih1, ih2⟩ := groupLoop_spec w enc scan henc hscan f ((g :: gs).drop k)
        (by simp only [List.length_drop, List.length_cons] at hkle ⊢; omega)
        (fun x hx => hall x (List.mem_of_mem_drop hx))
      refine ⟨?_, ?_⟩
      · intro r hr
        simp only [List.mem_cons] at hr
        rcases hr with rfl | hr
        · simp [Run.WF, henc.len]
        · exact ih1 r hr
      · rw [runsValues_cons, ih2]
        conv => rhs; rw [← List.take_append_drop k (g :: gs)]
        rw [List.flatten_append, List.map_append, hconst]
        simp [Run.values, henc.val]
    · -- bit-packed run
      rename_i hk
      generalize hmdef : 1 + scan g gs = m
      have hm1 : 1 ≤ m := by omega
      have hmle : m ≤ (g :: gs).length := by
        have := hscan g gs
        simp only [List.length_cons]; omega
      have hF : ((g :: gs).take m).flatten.length = 8 * m := by
        rw [flatten_length_of_all_len _ (fun x hx => hall x (List.mem_of_mem_take hx)),
          List.length_take, Nat.min_eq_left hmle]
      obtain ⟨ih1, ih2⟩ := groupLoop_spec w enc scan henc hscan f ((g :: gs).drop m)
        (by simp only [List.length_drop, List.length_cons] at hmle ⊢; omega)
        (fun x hx => hall x (List.mem_of_mem_drop hx))
      refine ⟨?_, ?_⟩
      · intro r hr
        simp only [List.mem_cons] at hr
        rcases hr with rfl | hr
        · simp only [Run.WF]; exact packBytes_length w m _ hF
        · exact ih1 r hr
      · rw [runsValues_cons, ih2]
        conv => rhs; rw [← List.take_append_drop m (g :: gs)]
        rw [List.flatten_append, List.map_append]
        congr 1
        simp only [Run.values]
        rw [← hF, unpack_packBytes]

theorem tailLoop_spec (w : Nat) (enc : Nat → List Nat) (henc : EncOK w enc) :
    ∀ (f : Nat) (l : List Nat), l.length ≤ f →
      (∀ r ∈ tailLoop enc f l, r.WF w) ∧
      runsValues w (tailLoop enc f l) = l.map (· % 2 ^ w)
  | 0, l, hf => by
    have : l = [] := by cases l <;> simp_all
    subst this; simp [tailLoop, runsValues]
  | f + 1, [], _ => by simp [tailLoop, runsValues]
  | f + 1, a :: rest, hf => by
    have hlen : rest.length ≤ f := by simpa using hf
    simp only [tailLoop]
    generalize hkdef : (List.takeWhile (fun x => x == a) rest).length = k
    have hkle : k ≤ rest.length := by rw [← hkdef]; exact length_takeWhile_le _ _
    have htake : rest.take k = List.replicate k a := by
      rw [← hkdef, take_length_takeWhile]
      rw [List.eq_replicate_iff]
      refine ⟨rfl, ?_⟩
      intro b hb
      have := of_mem_takeWhile _ _ b hb
      simpa using this
    obtain ⟨ih1, ih2⟩ := tailLoop_spec w enc henc f (rest.drop k) (by simp only [List.length_drop]; omega)
    refine ⟨?_, ?_⟩
    · intro r hr
      simp only [List.mem_cons] at hr
      rcases hr with rfl | hr
      · simp [Run.WF, henc.len]
      · exact ih1 r hr
    · rw [runsValues_cons, ih2]
      conv => rhs; rw [← List.take_append_drop k rest, htake]
      simp [Run.values, henc.val, List.replicate_succ]

/-! ### booleans -/

theorem scanBits_le : ∀ (prev : Nat) (l : List Nat), scanBits prev l ≤ l.length
  | _, [] => by simp [scanBits]
  | prev, b :: bs => by
    have := scanBits_le b bs
    simp only [scanBits]
    split <;> simp <;> omega

theorem scanLevels_le : ∀ (prev : List Nat) (l : List (List Nat)), scanLevels prev l ≤ l.length
  | _, [] => by simp [scanLevels]
  | prev, g :: gs => by
    have := scanLevels_le g gs
    simp only [scanLevels]
    split <;> simp <;> omega

theorem bytesToBits_append (a b : List Nat) : bytesToBits (a ++ b) = bytesToBits a ++ bytesToBits b := by
  simp [bytesToBits]

theorem bytesToBits_length : ∀ l : List Nat, (bytesToBits l).length = 8 * l.length
  | [] => rfl
  | a :: l => by
    have ih := bytesToBits_length l
    simp only [bytesToBits] at ih
    simp only [bytesToBits, List.map_cons, List.flatten_cons, List.length_append, toBits_length, ih,
      List.length_cons]
    omega

theorem unpackBits_one : ∀ bits : List Bool, unpackBits 1 bits.length bits = bits.map b2n
  | [] => rfl
  | b :: bs => by
    simp only [List.length_cons, unpackBits, List.take_succ_cons, List.take_zero, List.drop_succ_cons,
      List.drop_zero, List.map_cons, unpackBits_one bs]
    cases b <;> simp [fromBits, b2n]

theorem bytesToBits_replicate (n a : Nat) (h : a = 0 ∨ a = 0xFF) :
    (bytesToBits (List.replicate n a)).map b2n = List.replicate (8 * n) (a % 2) := by
  induction n with
  | zero => simp [bytesToBits]
  | succ n ih =>
    rw [List.replicate_succ, ← List.singleton_append, bytesToBits_append, List.map_append, ih]
    have e : 8 * (n + 1) = 8 + 8 * n := by omega
    rw [e, ← List.replicate_append_replicate]
    congr 1
    rcases h with rfl | rfl <;> decide

theorem runsValues_append (w : Nat) (a b : List Run) :
    runsValues w (a ++ b) = runsValues w a ++ runsValues w b := by
  simp [runsValues]

theorem serialize_append (a b : List Run) : serialize (a ++ b) = serialize a ++ serialize b := by
  simp [serialize]

theorem bitsLoop_spec : ∀ (f : Nat) (l : List Nat), l.length ≤ f →
    (∀ r ∈ bitsLoop f l, r.WF 1) ∧ runsValues 1 (bitsLoop f l) = (bytesToBits l).map b2n
  | 0, l, hf => by
    have : l = [] := by cases l <;> simp_all
    subst this; simp [bitsLoop, runsValues, bytesToBits]
  | f + 1, [], _ => by simp [bitsLoop, runsValues, bytesToBits]
  | f + 1, a :: rest, hf => by
    have hlen : rest.length ≤ f := by simpa using hf
    simp only [bitsLoop]
    split
    · -- RLE run of equal 00 / FF bytes
      rename_i hc
      generalize hkdef : (List.takeWhile (fun x => x == a) rest).length = k at hc ⊢
      have hkle : k ≤ rest.length := by rw [← hkdef]; exact length_takeWhile_le _ _
      have ha : a = 0 ∨ a = 0xFF := by
        simp only [Bool.and_eq_true, Bool.or_eq_true, beq_iff_eq, decide_eq_true_eq] at hc
        exact hc.1
      have htake : rest.take k = List.replicate k a := by
        rw [← hkdef, take_length_takeWhile]
        rw [List.eq_replicate_iff]
        refine ⟨rfl, ?_⟩
        intro b hb
        have := of_mem_takeWhile _ _ b hb
        simpa using this
      have hdrop : (a :: rest).drop (1 + k) = rest.drop k := by
        rw [Nat.add_comm]; rfl
      rw [hdrop]
      obtain ⟨ih1, ih2⟩ := bitsLoop_spec f (rest.drop k) (by simp only [List.length_drop]; omega)
      refine ⟨?_, ?_⟩
      · intro r hr
        simp only [List.mem_cons] at hr
        rcases hr with rfl | hr
        · simp [Run.WF]
        · exact ih1 r hr
      · rw [runsValues_cons, ih2]
        have hsplit : a :: rest = List.replicate (1 + k) a ++ rest.drop k := by
          conv => lhs; rw [← List.take_append_drop k rest, htake]
          rw [Nat.add_comm, List.replicate_succ]; rfl
        conv => rhs; rw [hsplit, bytesToBits_append, List.map_append, bytesToBits_replicate _ _ ha]
        simp [Run.values, leNat]
    · -- bit-packed bytes
      generalize hjdef : 1 + scanBits a rest = j
      have hj1 : 1 ≤ j := by omega
      have hjle : j ≤ (a :: rest).length := by
        have := scanBits_le a rest
        simp only [List.length_cons]; omega
      generalize hj'def : (if (decide (j > 1) && decide (j < (a :: rest).length)) = true then j - 1 else j) = j'
      have hj'1 : 1 ≤ j' := by
        rw [← hj'def]; split
        · rename_i h; simp at h; omega
        · exact hj1
      have hj'le : j' ≤ (a :: rest).length := by
        rw [← hj'def]; split <;> omega
      obtain ⟨ih1, ih2⟩ := bitsLoop_spec f ((a :: rest).drop j')
        (by simp only [List.length_drop, List.length_cons] at hj'le ⊢; omega)
      have htl : ((a :: rest).take j').length = j' := by
        rw [List.length_take, Nat.min_eq_left hj'le]
      refine ⟨?_, ?_⟩
      · intro r hr
        simp only [List.mem_cons] at hr
        rcases hr with rfl | hr
        · simp [Run.WF, htl]
        · exact ih1 r hr
      · rw [runsValues_cons, ih2]
        conv => rhs; rw [← List.take_append_drop j' (a :: rest), bytesToBits_append, List.map_append]
        congr 1
        simp only [Run.values]
        have : 8 * j' = (bytesToBits ((a :: rest).take j')).length := by
          rw [bytesToBits_length, htl]
        rw [this, unpackBits_one]

/-! ### from runs to streams -/

theorem uvarint_length_pos (n : Nat) : 1 ≤ (uvarint n).length := by
  rw [uvarint]; split <;> simp

theorem uvarint_small (n : Nat) (h : n < 128) : uvarint n = [n] := by
  rw [uvarint]; simp [h]

theorem serialize_length_ge : ∀ rs : List Run, rs.length ≤ (serialize rs).length
  | [] => by simp
  | r :: rs => by
    have ih := serialize_length_ge rs
    rw [serialize_cons, List.length_append, List.length_cons]
    have : 1 ≤ r.bytes.length := by
      cases r with
      | rle c v => simp only [Run.bytes, List.length_append]; have := uvarint_length_pos (2 * c); omega
      | bp g q => simp only [Run.bytes, List.length_append]; have := uvarint_length_pos (2 * g + 1); omega
    omega

theorem specDecode_serialize (w n : Nat) (rs : List Run) (hwf : ∀ r ∈ rs, r.WF w)
    (hn : n ≤ (runsValues w rs).length) :
    specDecode w n (serialize rs) = .ok ((runsValues w rs).take n) := by
  have := decodeRuns_serialize w rs ((serialize rs).length + 1) n [] hwf
    (by have := serialize_length_ge rs; omega) hn
  simpa [specDecode] using this

theorem map_mod_of_lt (w : Nat) (xs : List Nat) (h : ∀ x ∈ xs, x < 2 ^ w) :
    xs.map (· % 2 ^ w) = xs := by
  induction xs with
  | nil => rfl
  | cons x xs ih =>
    simp only [List.map_cons]
    rw [Nat.mod_eq_of_lt (h x (by simp)), ih (fun y hy => h y (by simp [hy]))]

theorem all_zero_eq_replicate (xs : List Nat) (h : xs.all (· == 0) = true) :
    xs = List.replicate xs.length 0 := by
  rw [List.eq_replicate_iff]
  refine ⟨rfl, ?_⟩
  intro b hb
  have := (List.all_eq_true.mp h) b hb
  simpa using this

theorem encOK_levels (w : Nat) (h1 : 1 ≤ w) (h8 : w ≤ 8) : EncOK w (fun v => [v]) :=
  ⟨fun _ => by simp; omega, fun _ => by simp [leNat]⟩

theorem encOK_int32 (w : Nat) : EncOK w (leBytes ((w + 7) / 8)) :=
  ⟨fun _ => leBytes_length _ _, fun v => by
    rw [leNat_leBytes]; exact mod_pow_of_le v w _ (by omega)⟩

/-- the groups-then-tail structure shared by `encodeBytes` and `encodeInt32` -/
theorem groups_tail_spec (w : Nat) (enc : Nat → List Nat) (scan : List Nat → List (List Nat) → Nat)
    (henc : EncOK w enc) (hscan : ∀ g gs, scan g gs ≤ gs.length) (src : List Nat) :
    let rs := groupLoop enc scan w (src.length / 8) (groups8 (src.length / 8) src) ++
      tailLoop enc (src.length % 8) (src.drop (8 * (src.length / 8)))
    (∀ r ∈ rs, r.WF w) ∧ runsValues w rs = src.map (· % 2 ^ w) := by
  intro rs
  obtain ⟨g1, g2⟩ := groupLoop_spec w enc scan henc hscan (src.length / 8) (groups8 (src.length / 8) src)
    (by rw [groups8_length]; exact Nat.le_refl _)
    (groups8_all_len _ _ (by omega))
  obtain ⟨t1, t2⟩ := tailLoop_spec w enc henc (src.length % 8) (src.drop (8 * (src.length / 8)))
    (by simp only [List.length_drop]; omega)
  refine ⟨?_, ?_⟩
  · intro r hr
    simp only [rs, List.mem_append] at hr
    rcases hr with hr | hr
    · exact g1 r hr
    · exact t1 r hr
  · simp only [rs]
    rw [runsValues_append, g2, t2, groups8_flatten, ← List.map_append, List.take_append_drop]

theorem zeroWidth_stream (xs : List Nat) (h : xs.all (· == 0) = true) :
    ValidRle 0 xs (uvarint (2 * xs.length)) := by
  refine ⟨[.rle xs.length []], ?_, ?_, ?_⟩
  · intro r hr; simp at hr; subst hr; simp [Run.WF]
  · simp only [runsValues, List.map_cons, List.map_nil, List.flatten_cons, List.flatten_nil,
      List.append_nil, Run.values, leNat]
    exact (all_zero_eq_replicate xs h).symm
  · simp [serialize, Run.bytes]

/-! ### dictionary index width -/

theorem lt_pow_bitLen (x : Nat) : x < 2 ^ bitLen x := by
  unfold bitLen
  split
  · subst_vars; simp
  · exact Nat.lt_log2_self

theorem bitLen_le_of_lt (x k : Nat) (h : x < 2 ^ k) : bitLen x ≤ k := by
  unfold bitLen
  split
  · omega
  · rename_i hx
    have := (Nat.log2_lt hx).mpr h
    omega

theorem foldl_max_spec (xs : List Nat) : ∀ init : Nat,
    init ≤ xs.foldl (fun m x => max m (bitLen x)) init ∧
    (∀ x ∈ xs, bitLen x ≤ xs.foldl (fun m x => max m (bitLen x)) init) ∧
    (∀ k, init ≤ k → (∀ x ∈ xs, bitLen x ≤ k) → xs.foldl (fun m x => max m (bitLen x)) init ≤ k) := by
  induction xs with
  | nil => intro init; simp
  | cons a xs ih =>
    intro init
    obtain ⟨h1, h2, h3⟩ := ih (max init (bitLen a))
    simp only [List.foldl_cons]
    refine ⟨by omega, ?_, ?_⟩
    · intro x hx
      simp only [List.mem_cons] at hx
      rcases hx with rfl | hx
      · omega
      · exact h2 x hx
    · intro k hk hall
      exact h3 k (by have := hall a (by simp); omega) (fun x hx => hall x (by simp [hx]))

theorem lt_pow_maxLen (xs : List Nat) : ∀ x ∈ xs, x < 2 ^ maxLen xs := by
  intro x hx
  have h := (foldl_max_spec xs 0).2.1 x hx
  exact Nat.lt_of_lt_of_le (lt_pow_bitLen x) (Nat.pow_le_pow_right (by decide) h)

theorem maxLen_le (xs : List Nat) (k : Nat) (h : ∀ x ∈ xs, x < 2 ^ k) : maxLen xs ≤ k :=
  (foldl_max_spec xs 0).2.2 k (Nat.zero_le _) (fun x hx => bitLen_le_of_lt x k (h x hx))

/-- the 4-byte little-endian length prefix (data page v1 levels, RLE booleans) -/
theorem prefix_strip (w n : Nat) (body : List Nat) (h : body.length < 2 ^ 32) :
    specDecodeLevelsV1 w n (leBytes 4 body.length ++ body) = specDecode w n body := by
  have h4 : (leBytes 4 body.length).length = 4 := leBytes_length _ _
  have hle : leNat (leBytes 4 body.length) = body.length := by
    rw [leNat_leBytes]; exact Nat.mod_eq_of_lt h
  have a : ¬ (leBytes 4 body.length ++ body).length < 4 := by
    rw [List.length_append]; omega
  simp only [specDecodeLevelsV1, a, if_false, List.take_left' h4, List.drop_left' h4, hle,
    Nat.lt_irrefl, List.take_length]

/-! ### the mirror of the repaired Go boolean decoder reads every well-formed run list -/

theorem goUvarint_uvarint : ∀ (k i n : Nat) (rest : List Nat), n < 128 ^ k → i + k ≤ 9 →
    goUvarint i (uvarint n ++ rest) = some (n, rest)
  | 0, i, n, rest, hn, hi => by
    have h0 : n = 0 := by simpa using hn
    subst h0
    have a : ¬ i = 10 := by omega
    have b : ¬ (i = 9 ∧ 0 > 1) := by omega
    rw [uvarint_small 0 (by decide)]
    simp [goUvarint, a]
  | k + 1, i, n, rest, hn, hi => by
    have a : ¬ i = 10 := by omega
    have a9 : ¬ i = 9 := by omega
    rw [uvarint]
    by_cases h : n < 128
    · simp [h, goUvarint, a, a9]
    · have hb : ¬ (n % 128 + 128 < 128) := by omega
      have hdiv : n / 128 < 128 ^ k := by
        rw [Nat.pow_succ] at hn
        exact Nat.div_lt_of_lt_mul (by rw [Nat.mul_comm]; exact hn)
      simp only [h, dite_false, List.cons_append, goUvarint, a, if_false, hb]
      rw [goUvarint_uvarint k (i + 1) (n / 128) rest hdiv (by omega)]
      simp; omega

/-- the bits the Go decoder appends for one run -/
def Run.goBits : Run → List Bool
  | .rle c v => List.replicate c (v.headD 0 % 2 == 1)
  | .bp _ p => bytesToBits p

theorem Run.goBits_values (r : Run) (h : r.WF 1) : r.goBits.map b2n = r.values 1 := by
  cases r with
  | rle c v =>
    simp only [Run.WF] at h
    match v, h with
    | [wd], _ =>
      simp only [Run.goBits, Run.values, List.headD_cons, List.map_replicate, leNat]
      congr 1
      have : wd % 2 = 0 ∨ wd % 2 = 1 := by omega
      rcases this with e | e <;> simp [b2n, e]
  | bp g p =>
    simp only [Run.WF] at h
    simp only [Run.goBits, Run.values]
    have : 8 * g = (bytesToBits p).length := by rw [bytesToBits_length, h]; omega
    rw [this, unpackBits_one]

theorem goLoop_serialize : ∀ (rs : List Run) (fuel : Nat) (bits : List Bool),
    (∀ r ∈ rs, r.WF 1) → (∀ r ∈ rs, r.GoOK) → rs.length ≤ fuel →
    goDecodeBitsLoop fuel bits (serialize rs) = .ok (bits ++ (rs.map Run.goBits).flatten)
  | [], fuel, bits, _, _, _ => by
    cases fuel <;> simp [goDecodeBitsLoop, serialize]
  | r :: rs, 0, _, _, _, hf => by simp at hf
  | r :: rs, f + 1, bits, hwf, hgo, hf => by
    have hwf' : ∀ r ∈ rs, r.WF 1 := fun x hx => hwf x (by simp [hx])
    have hgo' : ∀ r ∈ rs, r.GoOK := fun x hx => hgo x (by simp [hx])
    have hr : r.WF 1 := hwf r (by simp)
    have hg : r.GoOK := hgo r (by simp)
    have hf' : rs.length ≤ f := by simpa using hf
    have hne : (serialize (r :: rs)).isEmpty = false := by
      have := serialize_length_ge (r :: rs)
      cases hs : serialize (r :: rs) with
      | nil => rw [hs] at this; simp at this
      | cons _ _ => rfl
    simp only [goDecodeBitsLoop, hne, Bool.false_eq_true, if_false]
    rw [serialize_cons]
    cases r with
    | rle c v =>
      simp only [Run.WF] at hr
      simp only [Run.GoOK] at hg
      match v, hr with
      | [wd], _ =>
        simp only [Run.bytes, List.append_assoc]
        rw [goUvarint_uvarint 5 0 (2 * c) _ (by omega) (by omega)]
        have h2 : 2 * c / 2 = c := by omega
        have h0 : ¬ c = 0 := by omega
        have hbig : ¬ c > 2 ^ 31 - 1 := by omega
        have h1 : ¬ (2 * c % 2 = 1) := by omega
        simp only [h2, h0, hbig, h1, if_false, List.singleton_append, List.headD_cons, List.drop_succ_cons,
          List.drop_zero]
        rw [goLoop_serialize rs f _ hwf' hgo' hf']
        simp [Run.goBits]
    | bp g p =>
      simp only [Run.WF] at hr
      simp only [Run.GoOK] at hg
      simp only [Run.bytes, List.append_assoc]
      rw [goUvarint_uvarint 5 0 (2 * g + 1) _ (by omega) (by omega)]
      have h2 : (2 * g + 1) / 2 = g := by omega
      have hp : p.length = g := by omega
      by_cases h0 : g = 0
      · subst h0
        have : p = [] := by cases p <;> simp_all
        subst this
        simp only [h2, if_true, List.nil_append]
        rw [goLoop_serialize rs f _ hwf' hgo' hf']
        simp [Run.goBits, bytesToBits]
      · have hbig : ¬ g > 2 ^ 31 - 1 := by omega
        have h1 : (2 * g + 1) % 2 = 1 := by omega
        have h3 : ¬ ((p ++ serialize rs).length < g) := by
          rw [List.length_append]; omega
        simp only [h2, h0, hbig, h1, h3, if_false, if_true]
        rw [List.take_left' hp, List.drop_left' hp]
        rw [goLoop_serialize rs f _ hwf' hgo' hf']
        simp [Run.goBits]

theorem goBits_values (rs : List Run) (hwf : ∀ r ∈ rs, r.WF 1) :
    ((rs.map Run.goBits).flatten).map b2n = runsValues 1 rs := by
  induction rs with
  | nil => rfl
  | cons r rs ih =>
    simp only [List.map_cons, List.flatten_cons, List.map_append, runsValues_cons]
    rw [Run.goBits_values r (hwf r (by simp)), ih (fun x hx => hwf x (by simp [hx]))]

/-- `ValidRle 1` restricted to the streams the Go boolean decoder frames like the format does:
no empty RLE run (Go does not consume its value byte), no run above `math.MaxInt32`. -/
def ValidRleGo (xs bs : List Nat) : Prop :=
  ∃ rs : List Run, (∀ r ∈ rs, r.WF 1) ∧ (∀ r ∈ rs, r.GoOK) ∧ runsValues 1 rs = xs ∧ serialize rs = bs

end PqModel.Rle
