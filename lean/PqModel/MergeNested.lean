import PqModel.MergeRefine
import PqModel.MergeGeneric

/-! # C09 — merged row groups as inputs of a merge (nesting)

Two parts.

* SPEC + proof about the planner MIRROR: the column chunks of a merged row group list the pages of
  its members one member after the other, while `Rows()` interleaves the members' rows. What such a
  page index says about the rows is only `CoveredBy`: every key lies within the bounds of *some*
  non-null page. `scanRange` (merge.go, interleaved branch of `rowGroupRangeOfSortedColumns`) yields
  bounds that are valid under that hypothesis alone (`scanRange_covers`), whereas the first-page /
  last-page rule used for ordinary row groups is not (`firstLast_misses_row`, the defect
  `Merge(Merge(A[0..100], B[50..60]), C[70..80])` found in round 3).
* SPEC: a merge whose inputs are merges of groups of leaves is a merge of the leaves
  (`isMergeBy_nested`), for any order, any grouping and any depth (the statement composes). -/
namespace PqModel.Refine
open PqModel.Compare

/-- what a page index whose pages are not in row order says about a first-column key `v` of the row
    group: some non-null page bounds it -/
def CoveredBy (pages : List PageStat) (v : Int) : Prop :=
  ∃ p ∈ pages, p.nullPage = false ∧ ∃ mn mx, p.min = some mn ∧ p.max = some mx ∧ mn ≤ v ∧ v ≤ mx

/-- one step of `scanRange` -/
def scanStep (desc : Bool) (acc : Int × Option Int) (p : PageStat) : Int × Option Int :=
  if p.nullPage then acc else
  ((match (if desc then p.max else p.min) with
    | some v => if ord desc v < ord desc acc.1 then v else acc.1
    | none => acc.1),
   (match (if desc then p.min else p.max), acc.2 with
    | some v, some a => if ord desc v > ord desc a then some v else some a
    | some v, none => some v
    | none, a => a))

theorem scanRange_eq (desc : Bool) (pages : List PageStat) (first : Int) (last : Option Int) :
    scanRange desc pages first last = pages.foldl (scanStep desc) (first, last) := rfl

/-- `acc ≤ acc'` for the running bounds: the first bound only moves earlier, the last only later -/
def Wider (desc : Bool) (a b : Int × Option Int) : Prop :=
  ord desc b.1 ≤ ord desc a.1 ∧ ∀ l, a.2 = some l → ∃ l', b.2 = some l' ∧ ord desc l ≤ ord desc l'

theorem Wider.refl (desc : Bool) (a : Int × Option Int) : Wider desc a a :=
  ⟨Int.le_refl _, fun l h => ⟨l, h, Int.le_refl _⟩⟩

theorem Wider.trans {desc : Bool} {a b c : Int × Option Int} (h1 : Wider desc a b) (h2 : Wider desc b c) :
    Wider desc a c := by
  refine ⟨Int.le_trans h2.1 h1.1, ?_⟩
  intro l hl
  obtain ⟨l', hl', h⟩ := h1.2 l hl
  obtain ⟨l'', hl'', h'⟩ := h2.2 l' hl'
  exact ⟨l'', hl'', Int.le_trans h h'⟩

theorem scanStep_wider (desc : Bool) (acc : Int × Option Int) (p : PageStat) : Wider desc acc (scanStep desc acc p) := by
  unfold scanStep
  split
  · exact Wider.refl _ _
  · refine ⟨?_, ?_⟩
    · dsimp only
      split
      · split <;> omega
      · omega
    · intro l hl
      dsimp only
      rw [hl]
      split
      · rename_i v a h1 h2
        cases h2
        split
        · exact ⟨_, rfl, by omega⟩
        · exact ⟨_, rfl, by omega⟩
      · rename_i h2; cases h2
      · exact ⟨l, rfl, Int.le_refl _⟩

theorem foldl_wider (desc : Bool) : ∀ (pages : List PageStat) (acc : Int × Option Int),
    Wider desc acc (pages.foldl (scanStep desc) acc)
  | [], acc => Wider.refl _ _
  | p :: ps, acc => by
    simp only [List.foldl_cons]
    exact (scanStep_wider desc acc p).trans (foldl_wider desc ps _)

/-- after its step, a non-null page lies within the running bounds -/
theorem scanStep_covers (desc : Bool) (acc : Int × Option Int) (p : PageStat) (hn : p.nullPage = false) :
    (∀ v, (if desc then p.max else p.min) = some v → ord desc (scanStep desc acc p).1 ≤ ord desc v) ∧
    (∀ v, (if desc then p.min else p.max) = some v →
      ∃ l, (scanStep desc acc p).2 = some l ∧ ord desc v ≤ ord desc l) := by
  unfold scanStep
  simp only [hn, Bool.false_eq_true, ↓reduceIte]
  refine ⟨?_, ?_⟩
  · intro v hv
    rw [hv]
    dsimp only
    split <;> omega
  · intro v hv
    rw [hv]
    cases acc.2 with
    | none => exact ⟨v, rfl, Int.le_refl _⟩
    | some a =>
      dsimp only
      split
      · exact ⟨v, rfl, Int.le_refl _⟩
      · exact ⟨a, rfl, by omega⟩

theorem foldl_covers (desc : Bool) : ∀ (pages : List PageStat) (acc : Int × Option Int) (p : PageStat),
    p ∈ pages → p.nullPage = false →
    (∀ v, (if desc then p.max else p.min) = some v → ord desc (pages.foldl (scanStep desc) acc).1 ≤ ord desc v) ∧
    (∀ v, (if desc then p.min else p.max) = some v →
      ∃ l, (pages.foldl (scanStep desc) acc).2 = some l ∧ ord desc v ≤ ord desc l)
  | [], _, _, h, _ => by cases h
  | q :: qs, acc, p, h, hn => by
    simp only [List.foldl_cons]
    rcases List.mem_cons.mp h with rfl | h
    · have hc := scanStep_covers desc acc p hn
      have hw := foldl_wider desc qs (scanStep desc acc p)
      refine ⟨fun v hv => Int.le_trans hw.1 (hc.1 v hv), ?_⟩
      intro v hv
      obtain ⟨l, hl, hle⟩ := hc.2 v hv
      obtain ⟨l', hl', hle'⟩ := hw.2 l hl
      exact ⟨l', hl', Int.le_trans hle hle'⟩
    · exact foldl_covers desc qs _ p h hn

/-- **bounds of an interleaved row group are valid for any page order**: a key that some non-null
    page bounds lies between the two results of `scanRange`, in sort order, whatever the order of the
    pages and whatever the starting values -/
theorem scanRange_covers (desc : Bool) (pages : List PageStat) (first : Int) (last : Option Int) (v : Int)
    (h : CoveredBy pages v) :
    ord desc (scanRange desc pages first last).1 ≤ ord desc v ∧
    ∃ l, (scanRange desc pages first last).2 = some l ∧ ord desc v ≤ ord desc l := by
  obtain ⟨p, hp, hn, mn, mx, hmn, hmx, h1, h2⟩ := h
  rw [scanRange_eq]
  have hc := foldl_covers desc pages (first, last) p hp hn
  cases desc with
  | false =>
    simp only [Bool.false_eq_true, if_false] at hc
    have a := hc.1 mn hmn
    obtain ⟨l, hl, b⟩ := hc.2 mx hmx
    simp only [ord, Bool.false_eq_true, if_false] at a b ⊢
    exact ⟨by omega, l, hl, by omega⟩
  | true =>
    simp only [if_true] at hc
    have a := hc.1 mx hmx
    obtain ⟨l, hl, b⟩ := hc.2 mn hmn
    simp only [ord, if_true] at a b ⊢
    exact ⟨by omega, l, hl, by omega⟩

/-- the range the mirror computes for the first column of an interleaved row group bounds every
    covered key -/
theorem colRange_interleaved_covers (s : ColSpec) (pages : List PageStat) (lo hi : Option Int)
    (hnn : pages.any (fun p => p.nullPage || p.hasNulls) = false)
    (h : colRange s pages true = some (lo, hi)) (v : Int) (hv : CoveredBy pages v) :
    ∃ a b, lo = some a ∧ hi = some b ∧ ord s.desc a ≤ ord s.desc v ∧ ord s.desc v ≤ ord s.desc b := by
  simp only [colRange] at h
  cases hf : pages.findSome? (fun p => if p.nullPage then none else (if s.desc then p.max else p.min)) with
  | none => rw [hf] at h; cases h
  | some first0 =>
    rw [hf] at h
    simp only [hnn, Bool.false_eq_true, ↓reduceIte, Option.some.injEq, Prod.mk.injEq] at h
    obtain ⟨h1, h2⟩ := h
    obtain ⟨a, l, hl, b⟩ := scanRange_covers s.desc pages first0
      (pages.reverse.findSome? fun p => if p.nullPage then none else if s.desc then p.min else p.max) v hv
    exact ⟨_, l, h1.symm, by rw [← h2, hl], a, b⟩

/-- the pages of `Merge(A[0..100], B[50..60])` as its column index lists them: A's page, then B's -/
def nestedWitnessPages : List PageStat :=
  [{ nullPage := false, hasNulls := false, min := some 0, max := some 100 },
   { nullPage := false, hasNulls := false, min := some 50, max := some 60 }]

/-- **the defect of round 3**: with the first-page / last-page rule the row group gets the range
    `[0, 60]`, which misses its own key 70 (bounded by the first page) — so `C[70..80]` was taken for
    disjoint and appended. The scan gives `[0, 100]`. -/
theorem firstLast_misses_row :
    CoveredBy nestedWitnessPages 70 ∧
    colRange { desc := false, nullsFirst := false } nestedWitnessPages false = some (some 0, some 60) ∧
    colRange { desc := false, nullsFirst := false } nestedWitnessPages true = some (some 0, some 100) := by
  refine ⟨⟨_, List.mem_cons_self, rfl, 0, 100, rfl, rfl, by omega, by omega⟩, by decide, by decide⟩

/-- an interleaved row group has no cut lookups, whatever its page index -/
theorem interleaved_no_cuts (strict : Bool) (t : Target) (h : t.interleaved = true) : hasCuts strict t = false := by
  unfold hasCuts
  split
  · rfl
  · simp [h]

end PqModel.Refine

namespace PqModel.Merge

section nested
variable {α : Type}

/-- the leaves of group `j` at their own positions, the other positions empty: the inputs of the
    inner merge number `j`, seen from the numbering of all leaves -/
def maskGroup (g : Nat → Nat) (j : Nat) (leaves : List (List α)) : List (List α) :=
  (List.range leaves.length).map (fun i => if g i = j then leaves.getD i [] else [])

theorem filter_lt_succ_perm (tag : α → Nat) (k : Nat) : ∀ (out : List α),
    (out.filter (fun r => decide (tag r < k + 1))).Perm
      (out.filter (fun r => decide (tag r < k)) ++ out.filter (fun r => tag r == k))
  | [] => by simp
  | x :: xs => by
    have ih := filter_lt_succ_perm tag k xs
    simp only [List.filter_cons]
    rcases Nat.lt_trichotomy (tag x) k with h | h | h
    · have h1 : decide (tag x < k + 1) = true := by simp; omega
      have h2 : decide (tag x < k) = true := by simp; omega
      have h3 : (tag x == k) = false := by simp; omega
      simp only [h1, h2, h3, if_true, Bool.false_eq_true, if_false, List.cons_append]
      exact List.Perm.cons x ih
    · have h1 : decide (tag x < k + 1) = true := by simp; omega
      have h2 : decide (tag x < k) = false := by simp; omega
      have h3 : (tag x == k) = true := by simp; omega
      simp only [h1, h2, h3, if_true, Bool.false_eq_true, if_false]
      exact (List.Perm.cons x ih).trans List.perm_middle.symm
    · have h1 : decide (tag x < k + 1) = false := by simp; omega
      have h2 : decide (tag x < k) = false := by simp; omega
      have h3 : (tag x == k) = false := by simp; omega
      simp only [h1, h2, h3, Bool.false_eq_true, if_false]
      exact ih

/-- a list is a permutation of its per-tag sublists, put one after the other -/
theorem filters_perm_lt (tag : α → Nat) (out : List α) : ∀ (k : Nat),
    (out.filter (fun r => decide (tag r < k))).Perm
      ((List.range k).map (fun i => out.filter (fun r => tag r == i))).flatten
  | 0 => by simp
  | k + 1 => by
    rw [List.range_succ, List.map_append, List.flatten_append]
    simp only [List.map_cons, List.map_nil, List.flatten_cons, List.flatten_nil, List.append_nil]
    exact (filter_lt_succ_perm tag k out).trans (List.Perm.append_right _ (filters_perm_lt tag out k))

theorem filters_perm (tag : α → Nat) (k : Nat) (out : List α) (h : ∀ x ∈ out, tag x < k) :
    out.Perm ((List.range k).map (fun i => out.filter (fun r => tag r == i))).flatten := by
  have := filters_perm_lt tag out k
  rwa [List.filter_eq_self.mpr (by intro x hx; simpa using h x hx)] at this

theorem maskGroup_get (g : Nat → Nat) (j : Nat) (leaves : List (List α)) (i : Nat) (l : List α)
    (hl : leaves[i]? = some l) (hg : g i = j) : (maskGroup g j leaves)[i]? = some l := by
  have hi : i < leaves.length := by
    rcases Nat.lt_or_ge i leaves.length with h | h
    · exact h
    · rw [List.getElem?_eq_none h] at hl; cases hl
  simp only [maskGroup, List.getElem?_map, List.getElem?_range hi, Option.map_some, hg, if_true]
  simp [List.getD_eq_getElem?_getD, hl]

theorem mem_maskGroup_flatten (g : Nat → Nat) (j : Nat) (leaves : List (List α)) (x : α)
    (h : x ∈ (maskGroup g j leaves).flatten) : ∃ i l, leaves[i]? = some l ∧ g i = j ∧ x ∈ l := by
  obtain ⟨l, hl, hx⟩ := List.mem_flatten.mp h
  obtain ⟨i, hi, rfl⟩ := List.mem_map.mp hl
  have hi' : i < leaves.length := List.mem_range.mp hi
  split at hx
  · rename_i hg
    refine ⟨i, leaves[i], by simp [hi'], hg, ?_⟩
    simpa [List.getD_eq_getElem?_getD, hi'] using hx
  · cases hx

/-- **a merge of merges is a merge of the leaves.** `leaves` are the row groups (or readers) at the
    bottom, tagged by their position; `g` assigns every leaf to one of the inputs `mids` of the outer
    merge; every `mids[j]` is a merge (sorted, complete, per-leaf stable) of the leaves of group `j`,
    and `out` is a merge of `mids` (rows tagged by their group). Then `out` is a sorted, complete
    merge of all the leaves that keeps every *leaf's* rows in their original order. The statement
    composes, so it covers merge trees of any depth and shape. -/
theorem isMergeBy_nested {le : α → α → Prop} {tag : α → Nat} (g : Nat → Nat)
    (leaves mids : List (List α)) (out : List α)
    (hinner : ∀ j (m : List α), mids[j]? = some m → IsMergeBy le tag (maskGroup g j leaves) m)
    (hg : ∀ i, i < leaves.length → g i < mids.length)
    (houter : IsMergeBy le (fun r => g (tag r)) mids out) :
    IsMergeBy le tag leaves out := by
  -- per-leaf stability
  have hstable : ∀ (i : Nat) (l : List α), leaves[i]? = some l → out.filter (fun r => tag r == i) = l := by
    intro i l hl
    have hi : i < leaves.length := by
      rcases Nat.lt_or_ge i leaves.length with h | h
      · exact h
      · rw [List.getElem?_eq_none h] at hl; cases hl
    have hj := hg i hi
    have hm : mids[g i]? = some mids[g i] := by simp [hj]
    have h1 := houter.stable (g i) _ hm
    have h2 := (hinner (g i) _ hm).stable i l (maskGroup_get g (g i) leaves i l hl rfl)
    rw [← h2, ← h1, List.filter_filter]
    apply List.filter_congr
    intro x _
    by_cases hx : tag x = i
    · simp [hx]
    · simp [hx]
  -- every row of the output carries the tag of a leaf
  have htag : ∀ x ∈ out, tag x < leaves.length := by
    intro x hx
    obtain ⟨m, hm, hxm⟩ := List.mem_flatten.mp (houter.perm.subset hx)
    obtain ⟨j, hj, hmj⟩ := List.getElem_of_mem hm
    have hm' : mids[j]? = some m := by simp [hj, hmj]
    obtain ⟨i, l, hl, hgi, hxl⟩ := mem_maskGroup_flatten g j leaves x ((hinner j m hm').perm.subset hxm)
    have h2 := (hinner j m hm').stable i l (maskGroup_get g j leaves i l hl hgi)
    rw [← h2] at hxl
    have := (List.mem_filter.mp hxl).2
    have hti : tag x = i := by simpa using this
    rcases Nat.lt_or_ge i leaves.length with h | h
    · omega
    · rw [List.getElem?_eq_none h] at hl; cases hl
  refine ⟨houter.sorted, ?_, hstable⟩
  refine (filters_perm tag leaves.length out htag).trans ?_
  have : (List.range leaves.length).map (fun i => out.filter (fun r => tag r == i)) = leaves := by
    apply List.ext_getElem
    · simp
    · intro i h1 h2
      simp only [List.getElem_map, List.getElem_range]
      exact hstable i _ (by simp [h2])
  rw [this]

/-- non-vacuity: `Merge(Merge([1,4], [2]), [3])` with leaves tagged 0, 1, 2 and groups 0, 0, 1 -/
example : IsMergeBy (fun a b : Nat × Nat => a.1 ≤ b.1) (fun r => r.2)
    [[(1, 0), (4, 0)], [(2, 1)], [(3, 2)]] [(1, 0), (2, 1), (3, 2), (4, 0)] := by
  apply isMergeBy_nested (fun i => if i = 2 then 1 else 0) _ [[(1, 0), (2, 1), (4, 0)], [(3, 2)]]
  · intro j m hm
    match j, hm with
    | 0, hm =>
      simp only [List.getElem?_cons_zero, Option.some.injEq] at hm; subst hm
      exact ⟨by decide, by decide, by
        intro i l hl
        match i, hl with
        | 0, hl => simp [maskGroup] at hl; subst hl; decide
        | 1, hl => simp [maskGroup] at hl; subst hl; decide
        | 2, hl => simp [maskGroup] at hl; subst hl; decide
        | i + 3, hl => simp [maskGroup] at hl⟩
    | 1, hm =>
      simp at hm; subst hm
      exact ⟨by decide, by decide, by
        intro i l hl
        match i, hl with
        | 0, hl => simp [maskGroup] at hl; subst hl; decide
        | 1, hl => simp [maskGroup] at hl; subst hl; decide
        | 2, hl => simp [maskGroup] at hl; subst hl; decide
        | i + 3, hl => simp [maskGroup] at hl⟩
    | j + 2, hm => simp at hm
  · intro i hi
    simp at hi
    split <;> simp
  · exact ⟨by decide, by decide, by
      intro i l hl
      match i, hl with
      | 0, hl => simp at hl; subst hl; decide
      | 1, hl => simp at hl; subst hl; decide
      | i + 2, hl => simp at hl⟩

end nested

end PqModel.Merge
