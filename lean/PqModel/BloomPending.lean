import PqModel.BloomSegments

/-! # Rows pending in the writer when `WriteRowGroup` is called (C07, round 7)

`(*Writer).WriteRowGroup` (writer.go:549-602, the paths that do not copy verbatim) does, for every
column with a filter, in this order:

1. `w.writer.flush()` (writer.go:1284 → `writeRowGroup`, 1524): the rows left pending by earlier
   `Write`/`WriteRows`/`CopyRows` calls become a row group of their own. Their EARLY data pages were
   already written to the page buffer while `len(c.filter) == 0` (`writeDataPage` inserts a page only
   into an allocated filter); `c.Flush()` writes the LAST, still buffered page(s); then
   `flushFilterPages` (2194-2367) looks at the ACTUAL state of `c.filter`: allocated ⇒ "pages have been
   written to it as they were seen", nothing to do; not allocated ⇒ size it from `NumValues` and
   re-read every page of the page buffer. `ColumnWriter.reset` (2117) truncates the filter.
2. `configureBloomFilters` (906-936): `resizeBloomFilter(n)` for the INCOMING row group.
3. the incoming pages, inserted as they are written; `writeRowGroup` again.

The filter is a fold over events (`FEv`, BloomSegments.lean); `flushFilterOn` is `flushFilterPages` on
the state that fold left (not on an assumed `presized`, as `flushFilter` of BloomWriter.lean).
MIRROR throughout; the `hoisted` flag is the seeded slip C07-7a (step 2 moved before step 1).

Not modelled: the verbatim copy path (filters carried over: C07Writer §3), `writeSegmentsPacked`
(BloomSegments), where the column buffer cuts pages (any `early`/`last` lists are allowed). -/
namespace PqModel.BloomPending
open PqModel.XxHash PqModel.Bloom PqModel.BloomWriter PqModel.BloomSegments

/-- MIRROR `flushFilterPages`, writer.go:2194-2367, on the actual filter state `b` = (`len(c.filter)`,
    hashes inserted so far) instead of `c.presized`: the branches test `len(c.filter) > 0`. -/
def flushFilterOn (c : ChunkWrite) (b : Built) : Built :=
  match c.dictionary with
  | some d =>
    if !c.switched then (filterSize c.bits d.length, pageHashes c.kind d)
    else if b.1 > 0 then (b.1, b.2 ++ pageHashes c.kind d)
    else if c.pages.isEmpty then (0, [])
    else (filterSize c.bits c.numValues, pageHashes c.kind d ++ reread c true)
  | none =>
    if b.1 > 0 then b
    else if c.pages.isEmpty then (0, [])
    else (filterSize c.bits c.numValues, reread c false)

/-- one column of the row group pending in the writer when `WriteRowGroup` is called -/
structure Pending where
  /-- data pages already written by the earlier `Write` calls (filter not allocated at the time) -/
  early : List WPage
  /-- page(s) still in the column buffer, written by `c.Flush()` inside `w.writer.flush()` -/
  last : List WPage
  dictionary : Option (List Value)
  switched : Bool
  /-- `c.columnChunk.MetaData.NumValues` of the pending chunk -/
  numValues : Nat

def Pending.pages (p : Pending) : List WPage := p.early ++ p.last

/-- the pending chunk as `flushFilterPages` should see it: never pre-sized -/
def Pending.chunk (kind : Kind) (bits : Nat) (p : Pending) : ChunkWrite :=
  { kind := kind, bits := bits, pages := p.pages, dictionary := p.dictionary, switched := p.switched,
    presized := 0, numValues := p.numValues }

/-- events on `c.filter` until the pending row group's `flushFilterPages`. `hoisted = some n`: the SLIP
    C07-7a, `configureBloomFilters` (for the incoming group of `n` values) called before
    `w.writer.flush()`, i.e. after the early pages and before the last one. -/
def pendingEvents (p : Pending) (hoisted : Option Nat) : List FEv :=
  p.early.map FEv.page ++ ((match hoisted with | some n => [FEv.resize n] | none => []) ++ p.last.map FEv.page)

/-- the filter of the implicitly flushed row group (size, hashes), starting from the truncated filter of
    a reset column writer -/
def pendingFilter (kind : Kind) (bits : Nat) (p : Pending) (hoisted : Option Nat) : Built :=
  flushFilterOn (p.chunk kind bits) (frun kind bits (0, []) (pendingEvents p hoisted))

/-- the incoming row group of the same `WriteRowGroup` call (generic / re-encode path), `n` = the value
    count `configureBloomFilters` takes from the source chunk (`none` = left unallocated, see `presize`):
    after `reset` the filter is empty again; as the code is, it is sized first and filled page by page;
    with the slip the size given before the flush was truncated by `reset`, so this group falls back to
    re-reading. -/
def incomingEvents (c : ChunkWrite) (n : Option Nat) (hoisted : Bool) : List FEv :=
  (if hoisted then [] else match n with | some k => [FEv.resize k] | none => []) ++ c.pages.map FEv.page

def incomingFilter (c : ChunkWrite) (n : Option Nat) (hoisted : Bool) : Built :=
  flushFilterOn c (frun c.kind c.bits (0, []) (incomingEvents c n hoisted))

end PqModel.BloomPending
