import PqModel.StatsDecimal

/-! # Logical-type conversions (C01): binary DECIMAL (`*big.Float` <-> BYTE_ARRAY / FIXED_LEN_BYTE_ARRAY
    big-endian two's complement) and TIME(unit) <-> `time.Duration`

MIRRORS (of parquet-go, as the code is):
* `bigIntToByteArray` (column_buffer_reflect.go:1030-1061), `padToFixedLen` (column_buffer_reflect.go:1063-1082)
  as used by `writeBigFloat` (column_buffer_reflect.go:999-1028) on the unscaled integer;
* the two's-complement reader inside `decimalType.AssignValue` (type_decimal.go:382-395);
* `writeDuration` under a TIME logical type (column_buffer_reflect.go:296-311: `int32(d.Milliseconds())`,
  `d.Microseconds()`, `d.Nanoseconds()`) and `timeType.AssignValue` (type_time.go:272-279:
  `v * int64(timeUnitDuration(unit))` in `int64`).
SPEC side: `Stats.decimalValue` (LogicalTypes.md, DECIMAL: "two's complement using big-endian byte order");
`big.Int.Bytes` / `SetBytes` of the Go standard library are written from their documentation
("big-endian byte slice of the absolute value", no leading zero byte): `bigBytes` / `Stats.beUnsigned`. -/
namespace PqModel.LogicalDecimal
open PqModel.Stats

/-! ## `big.Int.Bytes` -/

/-- `k` big-endian base-256 digits of `n` (low `k` digits) -/
def beFixed : Nat → Nat → List Nat
  | 0, _ => []
  | k + 1, n => (n / 256 ^ k) % 256 :: beFixed k n

/-- number of base-256 digits of `n` (0 for 0) -/
def byteLen (n : Nat) : Nat := if n = 0 then 0 else n.log2 / 8 + 1

/-- STDLIB SPEC `(*big.Int).Bytes()` of a value of absolute value `n` -/
def bigBytes (n : Nat) : List Nat := beFixed (byteLen n) n

/-! ## write side -/

/-- head byte has its high bit set (`len(b) > 0 && b[0]&0x80 != 0`) -/
def highBit : List Nat → Bool
  | x :: _ => decide (x ≥ 128)
  | [] => false

/-- MIRROR of the `+1` loop of `bigIntToByteArray` (column_buffer_reflect.go:1051-1059): from the last
    byte towards the first while the carry is set; returns the bytes and the carry left at the end -/
def incCarry : List Nat → List Nat × Bool
  | [] => ([], true)
  | x :: xs =>
    let r := incCarry xs
    if r.2 then (if x = 255 then (0 :: r.1, true) else ((x + 1) :: r.1, false)) else (x :: r.1, false)

/-- MIRROR of `bigIntToByteArray` (column_buffer_reflect.go:1030-1061) -/
def bigIntToByteArray (i : Int) : List Nat :=
  if i ≥ 0 then
    let b := bigBytes i.toNat
    if highBit b then 0 :: b else b
  else
    let b := bigBytes i.natAbs
    let b := if b.isEmpty || highBit b then 0 :: b else b
    let b := b.map (255 - ·)
    (incCarry b).1

/-- MIRROR of `padToFixedLen` (column_buffer_reflect.go:1063-1082); `none` = the panic
    "decimal value requires %d bytes but fixed length is %d" -/
def padToFixedLen (b : List Nat) (length : Nat) (negative : Bool) : Option (List Nat) :=
  if b.length = length then some b
  else if b.length > length then none
  else some (List.replicate (length - b.length) (if negative then 255 else 0) ++ b)

/-- MIRROR of the tail of `writeBigFloat` (column_buffer_reflect.go:1023-1027) on the unscaled integer:
    `flba = none` for a BYTE_ARRAY column, `some n` for FIXED_LEN_BYTE_ARRAY(n) -/
def writeDecimal (flba : Option Nat) (i : Int) : Option (List Nat) :=
  match flba with
  | none => some (bigIntToByteArray i)
  | some n => padToFixedLen (bigIntToByteArray i) n (decide (i < 0))

/-! ## read side -/

/-- MIRROR of `decimalType.AssignValue` (type_decimal.go:382-395): the integer rebuilt from the stored
    bytes before it is divided by `10^scale` -/
def readDecimal (data : List Nat) : Int :=
  if highBit data then -((beUnsigned (data.map (255 - ·)) : Int) + 1)
  else (beUnsigned data : Int)

/-! ## lemmas -/

theorem beFixed_length : ∀ k n, (beFixed k n).length = k
  | 0, _ => rfl
  | k + 1, n => by simp [beFixed, beFixed_length k n]

theorem beFixed_isBytes : ∀ k n, IsBytes (beFixed k n)
  | 0, _ => by intro x hx; simp [beFixed] at hx
  | k + 1, n => by
    intro x hx
    simp only [beFixed, List.mem_cons] at hx
    rcases hx with h | h
    · subst h; have := Nat.mod_lt (n / 256 ^ k) (by decide : 256 > 0); omega
    · exact beFixed_isBytes k n x h

theorem beFixed_value : ∀ k n, beUnsigned (beFixed k n) = n % 256 ^ k
  | 0, n => by simp [beFixed, beUnsigned, Nat.mod_one]
  | k + 1, n => by
    simp only [beFixed, beUnsigned, beFixed_length, beFixed_value k n]
    have hp : 256 ^ (k + 1) = 256 ^ k * 256 := Nat.pow_succ ..
    rw [hp, Nat.mod_mul, Nat.mul_comm, Nat.add_comm]

theorem byteLen_bounds (n : Nat) (hn : n ≠ 0) : 256 ^ (byteLen n - 1) ≤ n ∧ n < 256 ^ byteLen n ∧ byteLen n ≥ 1 := by
  simp only [byteLen, hn, if_false]
  have h256 : ∀ k, 256 ^ k = 2 ^ (8 * k) := by
    intro k; rw [show (256 : Nat) = 2 ^ 8 by rfl, ← Nat.pow_mul]
  have hlo : 2 ^ n.log2 ≤ n := Nat.log2_self_le hn
  have hhi : n < 2 ^ (n.log2 + 1) := Nat.lt_log2_self
  refine ⟨?_, ?_, by omega⟩
  · rw [h256]
    have : 8 * (n.log2 / 8 + 1 - 1) ≤ n.log2 := by omega
    exact Nat.le_trans (Nat.pow_le_pow_right (by decide) this) hlo
  · rw [h256]
    have : n.log2 + 1 ≤ 8 * (n.log2 / 8 + 1) := by omega
    exact Nat.lt_of_lt_of_le hhi (Nat.pow_le_pow_right (by decide) this)

theorem bigBytes_zero : bigBytes 0 = [] := by simp [bigBytes, byteLen, beFixed]

theorem bigBytes_isBytes (n : Nat) : IsBytes (bigBytes n) := beFixed_isBytes _ _

theorem bigBytes_length (n : Nat) : (bigBytes n).length = byteLen n := beFixed_length _ _

/-- `SetBytes(Bytes(x)) = |x|` -/
theorem bigBytes_value (n : Nat) : beUnsigned (bigBytes n) = n := by
  by_cases hn : n = 0
  · subst hn; simp [bigBytes_zero, beUnsigned]
  · simp only [bigBytes, beFixed_value]
    exact Nat.mod_eq_of_lt (byteLen_bounds n hn).2.1

theorem highBit_eq_isNeg (l : List Nat) : highBit l = isNeg l := by cases l <;> rfl

theorem map_inv_isBytes (l : List Nat) : IsBytes (l.map (255 - ·)) := by
  intro x hx
  rcases List.mem_map.mp hx with ⟨y, _, rfl⟩
  omega

theorem map_inv_value : ∀ l : List Nat, IsBytes l →
    beUnsigned (l.map (255 - ·)) + beUnsigned l + 1 = 256 ^ l.length
  | [], _ => by simp [beUnsigned]
  | x :: xs, h => by
    have ih := map_inv_value xs h.tail
    have hx := h.head
    simp only [List.map_cons, beUnsigned, List.length_map, List.length_cons, pow256_succ]
    have : (255 - x) * 256 ^ xs.length + x * 256 ^ xs.length = 255 * 256 ^ xs.length := by
      rw [← Nat.add_mul]; congr 1; omega
    omega

theorem incCarry_spec : ∀ l : List Nat, IsBytes l →
    (incCarry l).1.length = l.length ∧ IsBytes (incCarry l).1 ∧
    beUnsigned (incCarry l).1 + (if (incCarry l).2 then 256 ^ l.length else 0) = beUnsigned l + 1
  | [], _ => by simp [incCarry, beUnsigned, IsBytes]
  | x :: xs, h => by
    have ⟨ihl, ihb, ihv⟩ := incCarry_spec xs h.tail
    have hx := h.head
    simp only [incCarry]
    split
    · rename_i hc
      simp only [hc, if_true] at ihv
      split
      · rename_i hx255
        subst hx255
        refine ⟨by simp [ihl], ?_, ?_⟩
        · intro y hy
          rcases List.mem_cons.mp hy with rfl | hy
          · omega
          · exact ihb y hy
        · simp only [beUnsigned, ihl, List.length_cons, pow256_succ, if_true]; omega
      · refine ⟨by simp [ihl], ?_, ?_⟩
        · intro y hy
          rcases List.mem_cons.mp hy with rfl | hy
          · omega
          · exact ihb y hy
        · simp only [beUnsigned, ihl, Nat.add_mul]; simp; omega
    · rename_i hc
      simp only [hc] at ihv
      refine ⟨by simp [ihl], ?_, ?_⟩
      · intro y hy
        rcases List.mem_cons.mp hy with rfl | hy
        · omega
        · exact ihb y hy
      · simp only [beUnsigned, ihl]; simp at ihv ⊢; omega

/-- the reader of `AssignValue` is the SPEC value of the bytes, for every byte string -/
theorem readDecimal_eq_spec (data : List Nat) (h : IsBytes data) : readDecimal data = decimalValue data := by
  rw [decimalValue_eq, readDecimal, highBit_eq_isNeg]
  have := map_inv_value data h
  split
  · omega
  · omega

/-- the unsigned magnitude with room for the sign bit, as both branches of `bigIntToByteArray` build it -/
def signRoom (m : Nat) : List Nat := if highBit (bigBytes m) then 0 :: bigBytes m else bigBytes m

theorem signRoom_spec (m : Nat) :
    IsBytes (signRoom m) ∧ beUnsigned (signRoom m) = m ∧ isNeg (signRoom m) = false := by
  have hb := bigBytes_isBytes m
  have hv := bigBytes_value m
  simp only [signRoom]
  split
  · refine ⟨?_, ?_, by simp [isNeg]⟩
    · intro x hx
      rcases List.mem_cons.mp hx with rfl | hx
      · omega
      · exact hb x hx
    · simp [beUnsigned, hv]
  · rename_i h
    refine ⟨hb, hv, ?_⟩
    rw [← highBit_eq_isNeg]; simpa using h

theorem pow256_lt_imp {a b : Nat} (h : 256 ^ a < 256 ^ b) : a < b := by
  apply Classical.byContradiction
  intro hn
  have : 256 ^ b ≤ 256 ^ a := Nat.pow_le_pow_right (by decide) (by omega)
  omega

/-- the width `bigIntToByteArray` uses: `n` bytes are enough exactly when `2*|i| < 256^n` -/
theorem signRoom_length_le (m n : Nat) (hm : m ≠ 0) : (signRoom m).length ≤ n ↔ 2 * m < 256 ^ n := by
  have ⟨hlo, hhi, hk⟩ := byteLen_bounds m hm
  have hb := bigBytes_isBytes m
  have hv := bigBytes_value m
  have hl := bigBytes_length m
  simp only [signRoom]
  split
  · rename_i h
    rw [highBit_eq_isNeg] at h
    have hge := beUnsigned_neg_ge _ h
    rw [hv, hl] at hge
    simp only [List.length_cons, hl]
    constructor
    · intro hle
      have : 256 ^ (byteLen m + 1) ≤ 256 ^ n := Nat.pow_le_pow_right (by decide) hle
      rw [pow256_succ] at this
      omega
    · intro hlt
      have : byteLen m < n := pow256_lt_imp (by omega)
      omega
  · rename_i h
    have h' : isNeg (bigBytes m) = false := by rw [← highBit_eq_isNeg]; simpa using h
    have hlt := beUnsigned_nonneg_lt _ hb h'
    rw [hv, hl] at hlt
    have hne : bigBytes m ≠ [] := by
      intro he; have := congrArg List.length he; simp [hl] at this; omega
    have hlt : 2 * m < 256 ^ byteLen m := by rcases hlt with h | h; exact h; exact absurd h hne
    rw [hl]
    constructor
    · intro hle
      have : 256 ^ byteLen m ≤ 256 ^ n := Nat.pow_le_pow_right (by decide) hle
      omega
    · intro hlt2
      have : byteLen m - 1 < n := pow256_lt_imp (by omega)
      omega

theorem bigIntToByteArray_nonneg (i : Int) (h : i ≥ 0) : bigIntToByteArray i = signRoom i.toNat := by
  simp [bigIntToByteArray, h, signRoom]

theorem bigIntToByteArray_neg (i : Int) (h : i < 0) :
    bigIntToByteArray i = (incCarry ((signRoom i.natAbs).map (255 - ·))).1 := by
  have hn : ¬ i ≥ 0 := by omega
  have hm : i.natAbs ≠ 0 := by omega
  have hne : (bigBytes i.natAbs).isEmpty = false := by
    have := (byteLen_bounds _ hm).2.2
    have hl := bigBytes_length i.natAbs
    cases hb : bigBytes i.natAbs with
    | nil => rw [hb] at hl; simp at hl; omega
    | cons _ _ => rfl
  simp only [bigIntToByteArray, hn, if_false, hne, Bool.false_or, signRoom]

/-- what `bigIntToByteArray` produces, for EVERY integer: bytes, whose two's-complement value is the
    integer, with the sign bit of the integer -/
theorem bigIntToByteArray_spec (i : Int) :
    IsBytes (bigIntToByteArray i) ∧ decimalValue (bigIntToByteArray i) = i ∧
    isNeg (bigIntToByteArray i) = decide (i < 0) := by
  by_cases h : i ≥ 0
  · rw [bigIntToByteArray_nonneg i h]
    have ⟨hb, hv, hs⟩ := signRoom_spec i.toNat
    refine ⟨hb, ?_, ?_⟩
    · rw [decimalValue_eq, hv, hs]; simp; omega
    · rw [hs]; symm; simp; omega
  · have h' : i < 0 := by omega
    rw [bigIntToByteArray_neg i h']
    have ⟨hb, hv, hs⟩ := signRoom_spec i.natAbs
    have hinvb := map_inv_isBytes (signRoom i.natAbs)
    have hinv := map_inv_value _ hb
    have ⟨hl, hrb, hrv⟩ := incCarry_spec _ hinvb
    rw [List.length_map] at hl hrv
    have hne : signRoom i.natAbs ≠ [] := by
      intro he; rw [he] at hv; simp [beUnsigned] at hv; omega
    have hlt : 2 * i.natAbs < 256 ^ (signRoom i.natAbs).length := by
      rcases beUnsigned_nonneg_lt _ hb hs with h | h
      · rw [hv] at h; exact h
      · exact absurd h hne
    have hc : (incCarry ((signRoom i.natAbs).map (255 - ·))).2 = false := by
      cases hcc : (incCarry ((signRoom i.natAbs).map (255 - ·))).2 with
      | false => rfl
      | true => rw [hcc] at hrv; simp only [if_true] at hrv; omega
    rw [hc] at hrv
    simp only [Bool.false_eq_true, if_false, Nat.add_zero] at hrv
    have hneg : isNeg (incCarry ((signRoom i.natAbs).map (255 - ·))).1 = true := by
      cases hcc : isNeg (incCarry ((signRoom i.natAbs).map (255 - ·))).1 with
      | true => rfl
      | false =>
        rcases beUnsigned_nonneg_lt _ hrb hcc with h | h
        · rw [hl] at h; omega
        · have := congrArg List.length h
          rw [hl] at this
          cases hs' : signRoom i.natAbs with
          | nil => exact absurd hs' hne
          | cons _ _ => rw [hs'] at this; simp at this
    refine ⟨hrb, ?_, ?_⟩
    · rw [decimalValue_eq, hneg, hl]; simp only [if_true]; omega
    · rw [hneg]; symm; simp; omega

theorem bigIntToByteArray_length_le (i : Int) (n : Nat) :
    (bigIntToByteArray i).length ≤ n ↔ 2 * i.natAbs < 256 ^ n := by
  by_cases h0 : i = 0
  · subst h0
    have : bigIntToByteArray 0 = [] := by
      rw [bigIntToByteArray_nonneg 0 (by omega)]; simp [signRoom, bigBytes_zero, highBit]
    rw [this]
    have : 0 < 256 ^ n := Nat.pow_pos (by decide)
    simp; omega
  · by_cases h : i ≥ 0
    · rw [bigIntToByteArray_nonneg i h]
      have : i.toNat = i.natAbs := by omega
      rw [this]
      exact signRoom_length_le _ _ (by omega)
    · rw [bigIntToByteArray_neg i (by omega)]
      have hl := (incCarry_spec _ (map_inv_isBytes (signRoom i.natAbs))).1
      rw [List.length_map] at hl
      rw [hl]
      exact signRoom_length_le _ _ (by omega)

/-- sign extension keeps the value -/
theorem decimalValue_pad (k : Nat) (b : List Nat) :
    decimalValue (List.replicate k (if isNeg b then 255 else 0) ++ b) = decimalValue b := by
  cases k with
  | zero => simp
  | succ k =>
    rw [decimalValue_eq, decimalValue_eq b]
    cases hs : isNeg b with
    | false =>
      have : isNeg (List.replicate (k + 1) 0 ++ b) = false := by simp [List.replicate_succ, isNeg]
      simp only [Bool.false_eq_true, if_false, this, beUnsigned_pad_zero]
    | true =>
      have : isNeg (List.replicate (k + 1) 255 ++ b) = true := by simp [List.replicate_succ, isNeg]
      have hp := beUnsigned_pad_ff (k + 1) b
      simp only [if_true, this, List.length_append, List.length_replicate]
      omega

/-! ## TIME(unit) <-> `time.Duration`

A `time.Duration` is an `int64` count of nanoseconds; integers here are mathematical, `wrap64`/`wrap32`
are the Go conversions to `int64`/`int32`. -/

inductive TUnit where
  | milli | micro | nano
deriving DecidableEq, Repr

/-- nanoseconds per unit (`timeUnitDuration`) -/
def TUnit.nanos : TUnit → Int
  | .milli => 1000000
  | .micro => 1000
  | .nano => 1

def wrap64 (x : Int) : Int := x.bmod (2 ^ 64)
def wrap32 (x : Int) : Int := x.bmod (2 ^ 32)

/-- Go's `/` on integers: truncation toward zero -/
def quoT (a b : Int) : Int := Int.tdiv a b

/-- MIRROR of `writeDuration` under a TIME logical type (column_buffer_reflect.go:299-309):
    `int32(d.Milliseconds())` on the INT32 column, `d.Microseconds()`, `d.Nanoseconds()` on INT64 -/
def durToLeaf (u : TUnit) (d : Int) : Int :=
  match u with
  | .milli => wrap32 (quoT d 1000000)
  | .micro => quoT d 1000
  | .nano => d

/-- MIRROR of `timeType.AssignValue` into a `time.Duration` (type_time.go:274-278):
    `src.int64() * int64(timeUnitDuration(t.Unit))`, the product in `int64` -/
def durOfLeaf (u : TUnit) (v : Int) : Int := wrap64 (v * u.nanos)

/-- a value of Go type `int64` / `int32` -/
abbrev IsInt64 (x : Int) : Prop := -(2 ^ 63) ≤ x ∧ x < 2 ^ 63
abbrev IsInt32 (x : Int) : Prop := -(2 ^ 31) ≤ x ∧ x < 2 ^ 31

/-- SPEC: the duration cut down to whole units, toward zero -/
def truncTo (u : TUnit) (d : Int) : Int := quoT d u.nanos * u.nanos

/-! ### the three write paths of a `time.Duration` struct field

`writeDuration` is reached from `GenericWriter[any]` / `Buffer.Write(any)` (the reflection path); the typed
path of `GenericWriter[T]` / `GenericBuffer[T]` goes through `writeRowsFuncOfDuration` and `Schema.Deconstruct`
(`Writer.Write`) through `makeValue`. Before the round-6 repair (library commit 21a275d) the last two did not
divide by the unit: `durWriteBeforeFix` keeps that code as a regression mirror. -/

inductive DurPath where
  | reflect | typed | deconstruct
deriving DecidableEq, Repr

/-- MIRROR of the stored leaf per write path, as repaired; `none` = panic.
    * `reflect`: `writeDuration` (column_buffer_reflect.go:296-311);
    * `typed`: `writeRowsFuncOfDuration` (column_buffer_write.go:1048-1095): on the INT32 column
      `int32(d / unit)`, on an INT64 column `d / unit`, for `unit == 1` the plain `writeRowsFuncOfInt` copy;
    * `deconstruct`: the `time.Duration` case of `makeValue` (value.go:307-320):
      `int32(d.Milliseconds())`, `d.Microseconds()`, `d.Nanoseconds()`. -/
def durWrite (p : DurPath) (u : TUnit) (d : Int) : Option Int :=
  match p, u with
  | .reflect, _ => some (durToLeaf u d)
  | .typed, .milli => some (wrap32 (quoT d TUnit.milli.nanos))
  | .typed, .micro => some (quoT d TUnit.micro.nanos)
  | .typed, .nano => some d
  | .deconstruct, .milli => some (wrap32 (quoT d 1000000))
  | .deconstruct, .micro => some (quoT d 1000)
  | .deconstruct, .nano => some d

/-- MIRROR of the same paths BEFORE the repair (regression facts only).
    * `typed`: `writeRowsFuncOfInt` (column_buffer_write.go:230-275): an 8-byte Go integer on an INT32
      column is narrowed with `int32(x)`, on an INT64 column copied as it is — the nanosecond count;
    * `deconstruct`: `makeValue` (value.go, kind switch): kind INT32 accepts `reflect.Int8/16/32` only
      ("cannot create parquet value of type INT32 from go value of type time.Duration"), kind INT64
      stores `v.Int()` — the nanosecond count. -/
def durWriteBeforeFix (p : DurPath) (u : TUnit) (d : Int) : Option Int :=
  match p, u with
  | .reflect, _ => some (durToLeaf u d)
  | .typed, .milli => some (wrap32 d)
  | .typed, _ => some d
  | .deconstruct, .milli => none
  | .deconstruct, _ => some d

end PqModel.LogicalDecimal
