import PqModel.Bits

/-! # DELTA_BINARY_PACKED, DELTA_LENGTH_BYTE_ARRAY, DELTA_BYTE_ARRAY (property C04, part delta)

Two sides, kept apart:

* **SPEC** (`spec*`): decoders written from the Parquet `Encodings.md` text only (ULEB128, zigzag,
  header `<block size> <miniblocks per block> <total count> <first value>`, blocks
  `<min delta> <bit widths> <miniblocks>`, LSB-first bit packing, two's complement wrap-around,
  unneeded trailing miniblocks have a width byte but no body). They return the bytes that
  follow the stream, because the byte-array encodings concatenate streams.
* **MIRROR** (`mirror*`, `enc*`, `block*`): transliteration of the portable Go encoders of
  `encoding/delta` (file:line in each doc comment), generic in the integer width `n`
  (`n = 32` is `encodeInt32Default`, `n = 64` is `encodeInt64Default`; the two Go functions are
  textual twins).

Bytes are `Nat`s (< 256 when they come from the driver), as in `PqModel.Bits`. -/
namespace PqModel.Delta
open PqModel.Bits

inductive Err where
  | truncated      -- the stream ends inside a varint / width list / miniblock / value
  | badHeader      -- block size not a positive multiple of 128, or miniblock size not a multiple of 32
  | badWidth       -- bit width larger than the physical type
  | negativeLength -- a decoded (prefix/suffix/value) length is negative
  | badPrefix      -- prefix length larger than the previous value
  | countMismatch  -- number of prefix lengths differs from number of suffixes
  | fuel           -- unreachable (fuel = number of values suffices, see `decBlocks`)
  deriving DecidableEq, Repr

deriving instance DecidableEq for Except

/-! ## SPEC side -/

/-- SPEC. ULEB128: 7 bits per byte, least significant group first, high bit = continuation. -/
def specUleb (bs : List Nat) : Except Err (Nat × List Nat) :=
  match decUvarint bs with
  | some r => .ok r
  | none => .error .truncated

/-- SPEC. zigzag: 0,-1,1,-2,... ↦ 0,1,2,3,... -/
def unzigzag (u : Nat) : Int :=
  if u % 2 = 0 then ((u / 2 : Nat) : Int) else -((u / 2 : Nat) : Int) - 1

/-- SPEC. zigzag ULEB128 int. -/
def specZigzag (bs : List Nat) : Except Err (Int × List Nat) :=
  match specUleb bs with
  | .ok (u, r) => .ok (unzigzag u, r)
  | .error e => .error e

structure Header where
  blockSize : Nat
  minis : Nat
  total : Nat
  first : Int
  deriving Repr

/-- SPEC. `<block size in values> <number of miniblocks in a block> <total value count> <first value>`;
the block size is a multiple of 128, the miniblock count divides it and the quotient is a multiple of 32. -/
def specHeader (bs : List Nat) : Except Err (Header × List Nat) :=
  match specUleb bs with
  | .error e => .error e
  | .ok (b, bs1) =>
  match specUleb bs1 with
  | .error e => .error e
  | .ok (m, bs2) =>
  match specUleb bs2 with
  | .error e => .error e
  | .ok (t, bs3) =>
  match specZigzag bs3 with
  | .error e => .error e
  | .ok (f, bs4) =>
    if b = 0 ∨ b % 128 ≠ 0 ∨ m = 0 ∨ b % m ≠ 0 ∨ (b / m) % 32 ≠ 0 then .error .badHeader
    else .ok ({ blockSize := b, minis := m, total := t, first := f }, bs4)

/-- SPEC. The miniblocks of one block. `vpm` values per miniblock, `maxW` the width of the physical
type, `rem` the number of values still expected. A miniblock that is not needed (`rem = 0`) has a
width byte but no body; a needed one occupies `vpm * w / 8` bytes, bit-packed LSB first, and
contributes its first `min vpm rem` values (the rest is padding). Returns the unsigned (delta - min delta)
values and the bytes after the block. -/
def decMinis (vpm maxW : Nat) : List Nat → Nat → List Nat → Except Err (List Nat × List Nat)
  | [], _, bs => .ok ([], bs)
  | w :: ws, rem, bs =>
    if rem = 0 then .ok ([], bs)
    else if maxW < w then .error .badWidth
    else if bs.length < vpm * w / 8 then .error .truncated
    else
      match decMinis vpm maxW ws (rem - min vpm rem) (bs.drop (vpm * w / 8)) with
      | .error e => .error e
      | .ok (more, r) =>
        .ok (unpackBits w (min vpm rem) (bytesToBits (bs.take (vpm * w / 8))) ++ more, r)

/-- SPEC. value = previous value + min delta + packed value, wrapping in two's complement. -/
def recon {n : Nat} (minD : BitVec n) : BitVec n → List Nat → List (BitVec n)
  | _, [] => []
  | last, d :: ds => (last + minD + BitVec.ofNat n d) :: recon minD (last + minD + BitVec.ofNat n d) ds

/-- SPEC. One block `<min delta> <list of bitwidths of miniblocks> <miniblocks>` (`m` width
bytes, all present even when fewer miniblocks are needed). -/
def decBlock (n vpm m rem : Nat) (last : BitVec n) (bs : List Nat) : Except Err (List (BitVec n) × List Nat) :=
  match specZigzag bs with
  | .error e => .error e
  | .ok (md, bs1) =>
    if bs1.length < m then .error .truncated
    else
      match decMinis vpm n (bs1.take m) rem (bs1.drop m) with
      | .error e => .error e
      | .ok (ds, bs2) => .ok (recon (BitVec.ofInt n md) last ds, bs2)

/-- SPEC. Blocks until `rem` values have been produced; the deltas of a block are relative to the
last value of the previous block (or the first value of the header). `fuel` bounds the number of
blocks (every block yields at least one value, so `fuel = rem` suffices). -/
def decBlocks (n vpm m : Nat) : Nat → Nat → BitVec n → List Nat → Except Err (List (BitVec n) × List Nat)
  | _, 0, _, bs => .ok ([], bs)
  | 0, _ + 1, _, _ => .error .fuel
  | fuel + 1, rem + 1, last, bs =>
    match decBlock n vpm m (rem + 1) last bs with
    | .error e => .error e
    | .ok (vals, bs2) =>
      match decBlocks n vpm m fuel (rem + 1 - vals.length) (vals.getLastD last) bs2 with
      | .error e => .error e
      | .ok (more, bs3) => .ok (vals ++ more, bs3)

/-- SPEC. DELTA_BINARY_PACKED for an `n`-bit physical type: the values and the bytes following the
stream. -/
def specDecode (n : Nat) (bs : List Nat) : Except Err (List (BitVec n) × List Nat) :=
  match specHeader bs with
  | .error e => .error e
  | .ok (h, r) =>
    if h.total = 0 then .ok ([], r)
    else
      match decBlocks n (h.blockSize / h.minis) h.minis h.total (h.total - 1) (BitVec.ofInt n h.first) r with
      | .error e => .error e
      | .ok (vs, r') => .ok (BitVec.ofInt n h.first :: vs, r')

def specDecode32 := specDecode 32
def specDecode64 := specDecode 64

/-- SPEC. cut `bs` into consecutive pieces of the given lengths. -/
def splitLens : List Nat → List Nat → Except Err (List (List Nat) × List Nat)
  | [], bs => .ok ([], bs)
  | l :: ls, bs =>
    if bs.length < l then .error .truncated
    else
      match splitLens ls (bs.drop l) with
      | .error e => .error e
      | .ok (vs, r) => .ok (bs.take l :: vs, r)

/-- SPEC. lengths are INT32 values and must not be negative. -/
def natLens (ls : List (BitVec 32)) : Except Err (List Nat) :=
  if ls.all (fun l => !l.msb) then .ok (ls.map BitVec.toNat) else .error .negativeLength

/-- SPEC. DELTA_LENGTH_BYTE_ARRAY: all lengths as DELTA_BINARY_PACKED (INT32), then the
concatenated bytes. -/
def specDecodeDLBA (bs : List Nat) : Except Err (List (List Nat) × List Nat) :=
  match specDecode 32 bs with
  | .error e => .error e
  | .ok (ls, r) =>
    match natLens ls with
    | .error e => .error e
    | .ok ls => splitLens ls r

/-- SPEC. incremental decoding: value = first `p` bytes of the previous value ++ suffix. -/
def joinPrefix : List Nat → List Nat → List (List Nat) → Except Err (List (List Nat))
  | _, [], [] => .ok []
  | prev, p :: ps, s :: ss =>
    if prev.length < p then .error .badPrefix
    else
      match joinPrefix (prev.take p ++ s) ps ss with
      | .error e => .error e
      | .ok vs => .ok ((prev.take p ++ s) :: vs)
  | _, _, _ => .error .countMismatch

/-- SPEC. DELTA_BYTE_ARRAY: prefix lengths (DELTA_BINARY_PACKED) followed by the suffixes
(DELTA_LENGTH_BYTE_ARRAY). -/
def specDecodeDBA (bs : List Nat) : Except Err (List (List Nat) × List Nat) :=
  match specDecode 32 bs with
  | .error e => .error e
  | .ok (ps, r) =>
    match natLens ps with
    | .error e => .error e
    | .ok ps =>
      match specDecodeDLBA r with
      | .error e => .error e
      | .ok (ss, r') =>
        match joinPrefix [] ps ss with
        | .error e => .error e
        | .ok vs => .ok (vs, r')

/-! ## MIRROR side (encoding/delta, portable Go code) -/

/-- MIRROR of `binary.PutUvarint` (Go stdlib, used by binary_packed.go:169-175): the first
argument is fuel for the `for x >= 0x80` loop. -/
def putUvarint : Nat → Nat → List Nat
  | 0, x => [x]
  | f + 1, x => if x < 128 then [x] else (x % 128 + 128) :: putUvarint f (x / 128)

def uvarintEnc (x : Nat) : List Nat := putUvarint x x

/-- MIRROR of `binary.PutVarint`: `ux := uint64(x) << 1; if x < 0 { ux = ^ux }`. -/
def zigzag64 (x : BitVec 64) : Nat := (if x.msb then ~~~(x <<< 1) else x <<< 1).toNat

def varintEnc (x : BitVec 64) : List Nat := uvarintEnc (zigzag64 x)

/-- MIRROR of `bits.Len32`/`bits.Len64` (first argument: fuel). -/
def bitLenF : Nat → Nat → Nat
  | 0, _ => 0
  | f + 1, x => if x = 0 then 0 else bitLenF f (x / 2) + 1

def bitLen (x : Nat) : Nat := bitLenF x x

/-- MIRROR binary_packed.go:169-175 `encodeBinaryPackedHeader` with the constants of
binary_packed.go:55-58 (`blockSize = 128`, `numMiniBlocks = 4`); `first` is `int64(firstValue)`. -/
def encHeader {n : Nat} (total : Nat) (first : BitVec n) : List Nat :=
  uvarintEnc 128 ++ uvarintEnc 4 ++ uvarintEnc total ++ varintEnc (first.signExtend 64)

/-- MIRROR binary_packed.go:192-197 / 240-245 `blockDeltaInt32/64` (wrapping subtraction). -/
def blockDelta {n : Nat} : List (BitVec n) → BitVec n → List (BitVec n)
  | [], _ => []
  | v :: vs, last => (v - last) :: blockDelta vs v

/-- MIRROR binary_packed.go:199-207 / 247-255 `blockMinInt32/64` (signed comparison). -/
def blockMin {n : Nat} : List (BitVec n) → BitVec n
  | [] => 0
  | v :: vs => vs.foldl (fun m v => if v.slt m then v else m) v

/-- MIRROR binary_packed.go:215-229 / 263-277 `blockBitWidthsInt32/64`, one miniblock. -/
def miniWidth {n : Nat} (mb : List (BitVec n)) : Nat :=
  mb.foldl (fun w v => if bitLen v.toNat > w then bitLen v.toNat else w) 0

/-- MIRROR binary_packed_purego.go:9-28 / 30-49 `encodeMiniBlockInt32/64` and the
`n += (miniBlockSize * int(bitWidth)) / 8` of the caller: the values are OR-ed at consecutive bit
offsets, least significant bit first, into a zero-filled buffer (`resize` zero-fills), i.e.
LSB-first bit packing of `value & bitMask`. (The Go code does not mask the part spilling into
the next word; values are `< 2^w` by `lt_miniWidth`, so the mask is the identity. The word-level
OR is abstracted to bit packing; this is tied by the L2 byte comparison.) -/
def packMini {n : Nat} (w : Nat) (mb : List (BitVec n)) : List Nat :=
  if w = 0 then [] else bitsToBytes (w * mb.length) (packBits w (mb.map BitVec.toNat))

/-- MIRROR binary_packed.go:94-118 / 140-164 (with `blockSub` 209-213, `blockClear` 183-190,
`encodeBlockHeader` 177-181), one iteration of the block loop. `chunk` is
`src[i:]` cut to 128 values; the block is zero padded (`block := [blockSize]int32{}`), deltas and
their minimum are computed over the *padded* block, the padding is cleared after the min-delta
subtraction (`blockClearInt32`), all four width bytes are always written and a miniblock body is
written only when its width is not zero. Returns the bytes and the next `lastValue`
(= `block[127]`). -/
def encBlock {n : Nat} (chunk : List (BitVec n)) (last : BitVec n) : List Nat × BitVec n :=
  let block := chunk ++ List.replicate (128 - chunk.length) 0
  let deltas := blockDelta block last
  let minD := blockMin deltas
  let subbed := deltas.map (· - minD)
  let cleared := subbed.take chunk.length ++ List.replicate (128 - chunk.length) 0
  let minis := [0, 1, 2, 3].map (fun i => (cleared.drop (32 * i)).take 32)
  (varintEnc (minD.signExtend 64) ++ minis.map miniWidth
      ++ minis.flatMap (fun mb => packMini (miniWidth mb) mb),
   block.getLastD last)

/-- MIRROR binary_packed.go:93 / 139 `for i := 1; i < len(src); i += blockSize` (first
argument: fuel, `rest = src[i:]`). -/
def encBlocks {n : Nat} : Nat → List (BitVec n) → BitVec n → List Nat
  | 0, _, _ => []
  | f + 1, rest, last =>
    if rest.isEmpty then []
    else (encBlock (rest.take 128) last).1 ++ encBlocks f (rest.drop 128) (encBlock (rest.take 128) last).2

/-- MIRROR binary_packed.go:77-121 `encodeInt32Default` (n = 32) and 123-167
`encodeInt64Default` (n = 64): header (first value 0 when there is none), nothing else for fewer
than two values. -/
def mirrorEncode {n : Nat} (xs : List (BitVec n)) : List Nat :=
  encHeader xs.length (xs.headD 0) ++
    (if xs.length < 2 then [] else encBlocks xs.length xs.tail (xs.headD 0))

def mirrorEncode32 (xs : List (BitVec 32)) : List Nat := mirrorEncode xs
def mirrorEncode64 (xs : List (BitVec 64)) : List Nat := mirrorEncode xs

/-- MIRROR length_byte_array.go:20-35 `EncodeByteArray` for `len(offsets) ≥ 1` (with no offsets
at all the Go function returns zero bytes): the lengths `int32(offsets[i+1]-offsets[i])`
(length_byte_array_purego.go:5-9) as DELTA_BINARY_PACKED, then the value bytes. -/
def mirrorEncodeDLBA (vs : List (List Nat)) : List Nat :=
  mirrorEncode32 (vs.map fun v => BitVec.ofNat 32 v.length) ++ vs.flatten

/-- MIRROR of `EncodeByteArray` on the raw `(src, offsets)` input **as it was before the repair**
(`fix: DELTA_LENGTH_BYTE_ARRAY encodes the offsets window, not the whole buffer`): nothing at all
without offsets; otherwise the lengths of consecutive offsets, then `append(dst, src...)` — the
whole of `src`. Kept as a regression fact (`dlba_window_violation_before_fix`). -/
def mirrorEncodeDLBARawBeforeFix (src : List Nat) (offsets : List Nat) : List Nat :=
  if offsets.isEmpty then []
  else mirrorEncode32 ((offsets.zip offsets.tail).map fun ab => BitVec.ofNat 32 (ab.2 - ab.1)) ++ src

/-- `offsets[len(offsets)-1]` for the offsets `o :: rest` -/
def lastOff : Nat → List Nat → Nat
  | o, [] => o
  | _, b :: r => lastOff b r

/-- MIRROR length_byte_array.go:20-35 `EncodeByteArray` on the raw `(src, offsets)` input as the
Go API takes it: nothing at all without offsets; otherwise the lengths of consecutive offsets
(length_byte_array_purego.go:5-9), then `append(dst, src[offsets[0]:offsets[len(offsets)-1]]...)`
(line 33) — the window the offsets describe. -/
def mirrorEncodeDLBARaw (src : List Nat) (offsets : List Nat) : List Nat :=
  match offsets with
  | [] => []
  | o :: rest =>
    mirrorEncode32 (((o :: rest).zip rest).map fun ab => BitVec.ofNat 32 (ab.2 - ab.1))
      ++ (src.drop o).take (lastOff o rest - o)

/-- offsets are non-decreasing (what every producer of a `(src, offsets)` pair guarantees) -/
def nondecreasing : List Nat → Bool
  | a :: b :: r => decide (a ≤ b) && nondecreasing (b :: r)
  | _ => true

/-- the values a `(src, offsets)` pair denotes (what PLAIN and DELTA_BYTE_ARRAY encode) -/
def windowValues (src : List Nat) (offsets : List Nat) : List (List Nat) :=
  (offsets.zip offsets.tail).map fun ab => (src.drop ab.1).take (ab.2 - ab.1)

/-- MIRROR byte_array.go:196-201 `linearSearchPrefixLength`: number of leading equal bytes. -/
def commonPrefix : List Nat → List Nat → Nat
  | a :: as, b :: bs => if a = b then commonPrefix as bs + 1 else 0
  | _, _ => 0

/-- MIRROR byte_array.go:212-219, the loop over 8-byte words (first argument: words left): on the
first differing word return its offset plus `TrailingZeros64(x)/8`, the index of its first
differing byte (little endian). After the words, byte_array.go:221-227: the byte loop over the
remaining `n % 8` positions. -/
def wordSearch : Nat → List Nat → List Nat → Nat
  | 0, a, b => commonPrefix a b
  | k + 1, a, b =>
    if a.take 8 = b.take 8 then wordSearch k (a.drop 8) (b.drop 8) + 8
    else commonPrefix (a.take 8) (b.take 8)

/-- MIRROR byte_array.go:206-228 `wordSearchPrefixLength`: `n := min(len(base), len(data))`,
`nw := n / 8`. There is no cap on the prefix length. -/
def wordSearchPrefixLength (base data : List Nat) : Nat :=
  wordSearch (min base.length data.length / 8) base data

/-- MIRROR byte_array_prefix.go:5-7 (both the purego and the assembly build use the word search). -/
def searchPrefixLength (base data : List Nat) : Nat := wordSearchPrefixLength base data

/-- MIRROR byte_array.go:34-52: prefix length against the previous value (`lastValue` starts nil). -/
def dbaPrefixes : List Nat → List (List Nat) → List Nat
  | _, [] => []
  | prev, v :: vs => searchPrefixLength prev v :: dbaPrefixes v vs

def dbaSuffixes : List Nat → List (List Nat) → List (List Nat)
  | _, [] => []
  | prev, v :: vs => v.drop (searchPrefixLength prev v) :: dbaSuffixes v vs

/-- MIRROR byte_array.go:26-74 `EncodeByteArray`: prefix lengths, suffix lengths (both through
`encodeInt32`), suffix bytes. -/
def mirrorEncodeDBA (vs : List (List Nat)) : List Nat :=
  mirrorEncode32 ((dbaPrefixes [] vs).map (BitVec.ofNat 32)) ++
  mirrorEncode32 ((dbaSuffixes [] vs).map fun s => BitVec.ofNat 32 s.length) ++
  (dbaSuffixes [] vs).flatten

/-- the values of a FIXED_LEN_BYTE_ARRAY buffer: `src[i-size:i]` for `i = size, 2*size, ... ≤ len` -/
def chunksOf (size : Nat) : Nat → List Nat → List (List Nat)
  | 0, _ => []
  | f + 1, src => if src.length < size ∨ size = 0 then [] else src.take size :: chunksOf size f (src.drop size)

/-- MIRROR byte_array.go:76-122 `EncodeFixedLenByteArray` (for `size > 0`, `len(src) % size = 0`):
the same stream as `EncodeByteArray` on the values of `size` bytes each. -/
def mirrorEncodeFLBA (size : Nat) (src : List Nat) : List Nat :=
  mirrorEncodeDBA (chunksOf size src.length src)

end PqModel.Delta
