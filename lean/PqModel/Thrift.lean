namespace PqModel.Thrift

/-! Spike: generic thrift-compact reader + Parquet footer walk in Lean (independent decoder feasibility). -/

inductive TVal where
  | bool (b : Bool)
  | int (i : Int)            -- byte, i16, i32, i64 (zigzag decoded)
  | double (bits : UInt64)
  | bin (b : ByteArray)
  | list (xs : Array TVal)
  | struct (fields : Array (Nat × TVal))
deriving Inhabited

structure Rd where
  data : ByteArray
  pos : Nat

abbrev P := StateT Rd (Except String)

def byte : P UInt8 := do
  let s ← get
  if h : s.pos < s.data.size then
    set { s with pos := s.pos + 1 }
    pure s.data[s.pos]
  else throw "eof"

partial def uvarint (shift : Nat := 0) (acc : Nat := 0) : P Nat := do
  let b ← byte
  let acc := acc + ((b.toNat % 128) <<< shift)
  if b.toNat < 128 then pure acc else uvarint (shift + 7) acc

def zigzag (n : Nat) : Int := if n % 2 == 0 then Int.ofNat (n / 2) else -(Int.ofNat ((n + 1) / 2))

def bytesN (n : Nat) : P ByteArray := do
  let s ← get
  if s.pos + n ≤ s.data.size then
    set { s with pos := s.pos + n }
    pure (s.data.extract s.pos (s.pos + n))
  else throw "eof in binary"

mutual
partial def readVal (ty : Nat) : P TVal := do
  match ty with
  | 1 => pure (.bool true)
  | 2 => pure (.bool false)
  | 3 => do let b ← byte; pure (.int (if b.toNat < 128 then b.toNat else (b.toNat : Int) - 256))
  | 4 | 5 | 6 => do let n ← uvarint; pure (.int (zigzag n))
  | 7 => do
    let b ← bytesN 8
    let mut v : UInt64 := 0
    for i in [0:8] do v := v ||| (b[i]!.toUInt64 <<< (8 * i).toUInt64)
    pure (.double v)
  | 8 => do let n ← uvarint; let b ← bytesN n; pure (.bin b)
  | 9 | 10 => readList
  | 12 => readStruct
  | t => throw s!"unsupported thrift type {t}"

partial def readList : P TVal := do
  let h ← byte
  let ety := h.toNat % 16
  let mut n := h.toNat / 16
  if n == 15 then n ← uvarint
  let mut out := #[]
  for _ in [0:n] do
    if ety == 1 || ety == 2 then
      let b ← byte
      out := out.push (.bool (b == 1))
    else
      out := out.push (← readVal ety)
  pure (.list out)

partial def readStruct : P TVal := do
  let mut fields := #[]
  let mut last : Int := 0
  repeat
    let h ← byte
    if h == 0 then break
    let ty := h.toNat % 16
    let delta := h.toNat / 16
    let id ← if delta == 0 then do let n ← uvarint; pure (zigzag n) else pure (last + delta)
    last := id
    let v ← readVal ty
    fields := fields.push (id.toNat, v)
  pure (.struct fields)
end

def TVal.field? (v : TVal) (id : Nat) : Option TVal :=
  match v with
  | .struct fs => (fs.find? (·.1 == id)).map (·.2)
  | _ => none

def TVal.asInt (v : Option TVal) : Int := match v with | some (.int i) => i | _ => 0
def TVal.asList (v : Option TVal) : Array TVal := match v with | some (.list xs) => xs | _ => #[]
def TVal.asStr (v : Option TVal) : String := match v with | some (.bin b) => String.fromUTF8! b | _ => ""

def le32 (b : ByteArray) (off : Nat) : Nat :=
  b[off]!.toNat + (b[off+1]!.toNat <<< 8) + (b[off+2]!.toNat <<< 16) + (b[off+3]!.toNat <<< 24)

def main (args : List String) : IO Unit := do
  let path := args.head!
  let data ← IO.FS.readBinFile path
  let n := data.size
  IO.println s!"size {n} magic {String.fromUTF8! (data.extract (n-4) n)}"
  let flen := le32 data (n - 8)
  let start := n - 8 - flen
  match (readStruct.run { data := data, pos := start }) with
  | .error e => IO.println s!"error {e}"
  | .ok (md, rd) =>
    IO.println s!"footer bytes {flen}, consumed {rd.pos - start}"
    IO.println s!"version {TVal.asInt (md.field? 1)} num_rows {TVal.asInt (md.field? 3)} created_by {TVal.asStr (md.field? 6)}"
    let schema := TVal.asList (md.field? 2)
    IO.println s!"schema elements: {schema.map (fun e => TVal.asStr (e.field? 4))}"
    let rgs := TVal.asList (md.field? 4)
    for rg in rgs do
      let cols := TVal.asList (rg.field? 1)
      IO.println s!"row group rows={TVal.asInt (rg.field? 3)} cols={cols.size}"
      for c in cols do
        match c.field? 3 with
        | some m =>
          IO.println s!"  col path={(TVal.asList (m.field? 3)).map (fun p => TVal.asStr (some p))} type={TVal.asInt (m.field? 1)} codec={TVal.asInt (m.field? 4)} num_values={TVal.asInt (m.field? 5)} data_page_offset={TVal.asInt (m.field? 9)} total_compressed={TVal.asInt (m.field? 7)}"
        | none => pure ()

end PqModel.Thrift
