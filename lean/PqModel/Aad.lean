/-! # Modular encryption: AAD construction, module inventory, ordinal tracking, abstract AEAD

MIRROR parts transliterate parquet-go as it is (`encrypt.go`, the encryption branches of
`writer.go` and `file.go`); SPEC parts are written from the Parquet modular-encryption document
(Encryption.md section 4.4, recalled offline) and are used only to state where the code deviates.
AES-GCM itself is NOT modelled: it enters as an abstract AEAD with the ideal hypotheses `Ideal`.

NOT modelled (tied by the L1 checks of harness/props/c18*.go only): which buffers reach
`encryptModule` (plaintext leak); the content of the sealed column metadata; the
nonce generation; key retrieval; the thrift encoding of the modules.
(The call-site table of `makeAAD` with its argument order lives in `AadSites.lean`.) -/
namespace PqModel.Aad

abbrev Bytes := List UInt8

/-! ## 1. AAD construction -/

inductive ModType where
  | footer | columnMeta | dataPage | dataPageHeader | dictPage | dictPageHeader
  | bloomHeader | bloomBits | columnIndex | offsetIndex
deriving DecidableEq, Repr

/-- MIRROR encrypt.go:14-25 (module type constants as the code defines them). -/
def ModType.code : ModType → Nat
  | .footer => 0 | .columnMeta => 1 | .dataPage => 2 | .dataPageHeader => 3 | .dictPage => 4
  | .dictPageHeader => 5 | .bloomHeader => 6 | .bloomBits => 7 | .columnIndex => 8 | .offsetIndex => 9

/-- SPEC Encryption.md 4.4.2 "AAD suffix" table (Footer 0, ColumnMetaData 1, DataPage 2,
    DictionaryPage 3, DataPageHeader 4, DictionaryPageHeader 5, ColumnIndex 6, OffsetIndex 7,
    BloomFilterHeader 8, BloomFilterBitset 9). Recalled from the format document and the Arrow
    implementation; there is no copy of the document in the sandbox. -/
def ModType.specCode : ModType → Nat
  | .footer => 0 | .columnMeta => 1 | .dataPage => 2 | .dictPage => 3 | .dataPageHeader => 4
  | .dictPageHeader => 5 | .columnIndex => 6 | .offsetIndex => 7 | .bloomHeader => 8 | .bloomBits => 9

/-- MIRROR encrypt.go:244-246: `byte(ord), byte(ord>>8)` of an `int16`. The ordinal is given here as
    the non-negative Go `int` the call sites convert with `int16(i)`: conversion and shifts keep
    exactly the low 16 bits, little-endian. -/
def ordBytes (n : Nat) : Bytes := [UInt8.ofNat (n % 256), UInt8.ofNat (n / 256 % 256)]

/-- MIRROR encrypt.go:238-248 `makeAAD(aadPrefix, fileUnique, moduleType, ordinals...)`:
    prefix ‖ fileUnique ‖ moduleType ‖ (2 bytes LE per ordinal). -/
def makeAAD (pfx fu : Bytes) (t : Nat) (ords : List Nat) : Bytes :=
  pfx ++ fu ++ (UInt8.ofNat t :: ords.flatMap ordBytes)

/-! ## 2. Module inventory of a file -/

/-- every separately sealed module of an encrypted file, named by its position in the file -/
inductive Module where
  | footer
  | columnMeta (rg col : Nat)
  | dataPageHeader (rg col page : Nat)
  | dataPage (rg col page : Nat)
  | dictPageHeader (rg col : Nat)
  | dictPage (rg col : Nat)
  | bloomHeader (rg col : Nat)
  | bloomBits (rg col : Nat)
  | columnIndex (rg col : Nat)
  | offsetIndex (rg col : Nat)
deriving DecidableEq, Repr

def Module.type : Module → ModType
  | .footer => .footer | .columnMeta .. => .columnMeta | .dataPageHeader .. => .dataPageHeader
  | .dataPage .. => .dataPage | .dictPageHeader .. => .dictPageHeader | .dictPage .. => .dictPage
  | .bloomHeader .. => .bloomHeader | .bloomBits .. => .bloomBits
  | .columnIndex .. => .columnIndex | .offsetIndex .. => .offsetIndex

/-- MIRROR: which ordinals each call site passes (writer.go:1343,1369,1423,1728,2382,2387,2496,2505,
    2588,2593; file.go:158,460,501,567,967,1005,1042,1051,1333,1345,1516,1531). Dictionary modules
    are given a third ordinal, the constant 0 (the format document gives them only two). -/
def Module.ords : Module → List Nat
  | .footer => []
  | .columnMeta rg col => [rg, col]
  | .dataPageHeader rg col p => [rg, col, p]
  | .dataPage rg col p => [rg, col, p]
  | .dictPageHeader rg col => [rg, col, 0]
  | .dictPage rg col => [rg, col, 0]
  | .bloomHeader rg col => [rg, col]
  | .bloomBits rg col => [rg, col]
  | .columnIndex rg col => [rg, col]
  | .offsetIndex rg col => [rg, col]

/-- SPEC: ordinals per module (page ordinal only for data pages and data page headers) -/
def Module.specOrds : Module → List Nat
  | .dictPageHeader rg col => [rg, col]
  | .dictPage rg col => [rg, col]
  | m => m.ords

/-- the arguments a call site hands to `makeAAD` -/
structure Used where
  t : ModType
  ords : List Nat
deriving DecidableEq, Repr

def Used.aad (pfx fu : Bytes) (u : Used) : Bytes := makeAAD pfx fu u.t.code u.ords

def Module.used (m : Module) : Used := ⟨m.type, m.ords⟩

/-- the AAD of a module of the file `(pfx, fu)` as the code builds it -/
def Module.aad (pfx fu : Bytes) (m : Module) : Bytes := m.used.aad pfx fu

/-- SPEC-side AAD of the same module -/
def Module.specAad (pfx fu : Bytes) (m : Module) : Bytes := makeAAD pfx fu m.type.specCode m.specOrds

/-- every ordinal fits the unsigned 2-byte encoding (the code converts with `int16(i)` and never
    checks; row groups are capped at `MaxRowGroups = 32767` by writeRowGroup, columns by
    `MaxColumnIndex`, the page ordinal is NOT capped) -/
def Module.InRange (m : Module) : Prop := ∀ o ∈ m.ords, o < 65536

instance (m : Module) : Decidable m.InRange := by unfold Module.InRange; exact inferInstance

/-! ### lemmas for injectivity -/

theorem ofNat_inj_lt {a b : Nat} (ha : a < 256) (hb : b < 256) (h : UInt8.ofNat a = UInt8.ofNat b) : a = b := by
  have := congrArg UInt8.toNat h
  simp at this
  omega

theorem ordBytes_append_inj {a b : Nat} {r r' : Bytes} (ha : a < 65536) (hb : b < 65536)
    (h : ordBytes a ++ r = ordBytes b ++ r') : a = b ∧ r = r' := by
  simp only [ordBytes, List.cons_append, List.nil_append, List.cons.injEq] at h
  obtain ⟨h0, h1, h2⟩ := h
  have e0 := ofNat_inj_lt (Nat.mod_lt _ (by omega)) (Nat.mod_lt _ (by omega)) h0
  have e1 := ofNat_inj_lt (Nat.mod_lt _ (by omega)) (Nat.mod_lt _ (by omega)) h1
  exact ⟨by omega, h2⟩

theorem code_inj {s t : ModType} (h : UInt8.ofNat s.code = UInt8.ofNat t.code) : s = t := by
  have hs : s.code < 256 := by cases s <;> decide
  have ht : t.code < 256 := by cases t <;> decide
  have := ofNat_inj_lt hs ht h
  cases s <;> cases t <;> first | rfl | (exfalso; revert this; decide)

theorem makeAAD_cancel {pfx fu : Bytes} {t t' : Nat} {o o' : List Nat}
    (h : makeAAD pfx fu t o = makeAAD pfx fu t' o') :
    UInt8.ofNat t = UInt8.ofNat t' ∧ o.flatMap ordBytes = o'.flatMap ordBytes := by
  unfold makeAAD at h
  have := List.append_cancel_left h
  simpa using this

theorem ords2_inj {a b c d : Nat} (ha : a < 65536) (hb : b < 65536) (hc : c < 65536) (hd : d < 65536)
    (h : [a, b].flatMap ordBytes = [c, d].flatMap ordBytes) : a = c ∧ b = d := by
  simp only [List.flatMap_cons, List.flatMap_nil] at h
  obtain ⟨e1, h⟩ := ordBytes_append_inj ha hc h
  obtain ⟨e2, _⟩ := ordBytes_append_inj hb hd h
  exact ⟨e1, e2⟩

theorem ords3_inj {a b c d e f : Nat} (ha : a < 65536) (hb : b < 65536) (hc : c < 65536)
    (hd : d < 65536) (he : e < 65536) (hf : f < 65536)
    (h : [a, b, c].flatMap ordBytes = [d, e, f].flatMap ordBytes) : a = d ∧ b = e ∧ c = f := by
  simp only [List.flatMap_cons, List.flatMap_nil] at h
  obtain ⟨e1, h⟩ := ordBytes_append_inj ha hd h
  obtain ⟨e2, h⟩ := ordBytes_append_inj hb he h
  obtain ⟨e3, _⟩ := ordBytes_append_inj hc hf h
  exact ⟨e1, e2, e3⟩

/-- distinct modules of one file (same prefix, same file id) have distinct AADs, within the
    range of the 2-byte ordinal encoding -/
theorem Module.aad_inj {pfx fu : Bytes} {m m' : Module} (hm : m.InRange) (hm' : m'.InRange)
    (h : m.aad pfx fu = m'.aad pfx fu) : m = m' := by
  obtain ⟨ht, ho⟩ := makeAAD_cancel h
  have ht := code_inj ht
  cases m <;> cases m' <;> simp only [Module.used, Module.type] at ht <;>
    first
    | rfl
    | exact absurd ht (by decide)
    | (simp only [Module.used, Module.ords] at ho
       simp only [Module.InRange, Module.ords, List.mem_cons, List.not_mem_nil, or_false,
         forall_eq_or_imp, forall_eq] at hm hm'
       first
       | (obtain ⟨e1, e2⟩ := ords2_inj hm.1 hm.2 hm'.1 hm'.2 ho
          subst e1; subst e2; rfl)
       | (obtain ⟨e1, e2, e3⟩ := ords3_inj hm.1 hm.2.1 hm.2.2 hm'.1 hm'.2.1 hm'.2.2 ho
          subst e1; subst e2; first | rfl | (subst e3; rfl)))

/-- files with different `(prefix, file id)` pairs of the same lengths never share an AAD -/
theorem makeAAD_file_inj {pfx fu pfx' fu' : Bytes} {t t' : Nat} {o o' : List Nat}
    (hp : pfx.length = pfx'.length) (hf : fu.length = fu'.length)
    (h : makeAAD pfx fu t o = makeAAD pfx' fu' t' o') : pfx = pfx' ∧ fu = fu' := by
  unfold makeAAD at h
  rw [List.append_assoc, List.append_assoc] at h
  have h1 := List.append_inj h hp
  have h2 := List.append_inj h1.2 hf
  exact ⟨h1.1, h2.1⟩

/-! ## 3. Writer-side ordinal tracking (MIRROR writer.go)

State of one `writer` with the `ColumnWriter`s of its current row group:
* `nrg`     = `len(w.rowGroups)`                                     (writer.go:1498)
* `colRg`   = `ColumnWriter.rowGroupOrdinal` (all columns hold the same value: they are assigned
              together at writer.go:1186, 1513, 1521)
* `numPages col` = `ColumnWriter.numPages`                           (writer.go:2495, 2659)
* `buf col` = the column's page buffer: the pages already sealed, each with the index it has in
              the buffer (= its page position in the column chunk once the row group is written)
              and the `makeAAD` arguments that were used for header and body
* `rows`    = `rg.columns[0].totalRowCount() > 0`                    (writer.go:1494)
* `log`     = every sealed module that has reached the file: the slot (position) it occupies and
              the `makeAAD` arguments it was sealed with -/

structure Ev where
  slot : Module
  used : Used
deriving DecidableEq, Repr

def Ev.Good (e : Ev) : Prop := e.used = e.slot.used

/-- a sealing (or, in `WSt.reopened`, an opening) the WRITER made: the slot, the `makeAAD` ordinal
    arguments, and WHICH file identifier was passed as `fileUnique`: `some g` = the identifier of
    the g-th encryption state of this writer (`newFileEncryptionState` at `newWriter` is 0, every
    `reset` draws the next one, writer.go:1191, 1230), `none` = the nil `ColumnWriter.fileUnique`
    of a column writer made by `BeginRowGroup` that was never handed one (writer.go:882-888). -/
structure WEv where
  slot : Module
  used : Used
  fu : Option Nat
deriving DecidableEq, Repr

def WEv.ev (e : WEv) : Ev := ⟨e.slot, e.used⟩

/-- the AAD bytes of a writer-side sealing; `fuOf g` = the identifier bytes of the g-th encryption
    state (random, or the configured `FileIdentifier` every time), nil for `none` -/
def WEv.aad (pfx : Bytes) (fuOf : Nat → Bytes) (e : WEv) : Bytes :=
  e.used.aad pfx (match e.fu with | some g => fuOf g | none => [])

/-- sealed with the ordinals of its slot and with the identifier of file generation `g` -/
def WEv.GoodIn (g : Nat) (e : WEv) : Prop := e.used = e.slot.used ∧ e.fu = some g

/-- static configuration of the writer -/
structure WCfg where
  ncols : Nat
  dict : Nat → Bool         -- column has a dictionary (`c.dictionary != nil`)
  bloom : Nat → Bool        -- column has a bloom filter (`len(c.filter) > 0`)
  plainFooter : Bool        -- `!EncryptedFooter`: column metadata is sealed separately
  /-- the column's bloom filter is built at `writeRowGroup` by reading the sealed pages back from
      the page buffer (`flushFilterPages`, writer.go:2186-2374: a filter that was not pre-sized, or a
      dictionary that fell back to PLAIN) -/
  reread : Nat → Bool := fun _ => false

/-- one sealed page in a column's page buffer -/
structure BufPage where
  idx : Nat            -- position in the buffer = page position in the chunk once written
  hdr : Used
  body : Used
  fu : Option Nat      -- the `c.fileUnique` the page was sealed with
deriving DecidableEq, Repr

/-- the column writers of ONE row group writer (the writer's own `currentRowGroup`, or one made by
    `BeginRowGroup`): `colRg` = `ColumnWriter.rowGroupOrdinal`, `colFu` = `ColumnWriter.fileUnique`
    (both assigned together for all columns), `await` = `ColumnWriter.awaitOrdinal`, `numPages`,
    `buf` = page buffers as above, `rows` = `totalRowCount() > 0` -/
structure RgSt where
  colRg : Nat
  colFu : Option Nat
  await : Bool
  numPages : Nat → Nat
  buf : Nat → List BufPage
  rows : Bool

structure WSt where
  gen : Nat            -- which encryption state `w.encryption` is (0 = the one of newWriter)
  nrg : Nat            -- `len(w.rowGroups)`
  main : RgSt          -- `w.currentRowGroup`
  crg : Nat → RgSt     -- the row groups made by `BeginRowGroup`, by identity
  log : List WEv
  /-- every page the writer has read back from its own page buffers (bloom filters): the sealing
      (as recorded in the buffer) paired with the arguments of the re-open -/
  reopened : List (WEv × WEv)

inductive WOp where
  /-- rows are buffered in the writer's own row group without any page being produced -/
  | write
  /-- `ColumnWriter.writeDataPage` of an encrypted column of the writer's own row group
      (writer.go:2508-2650), whoever calls it: a full page buffer during Write,
      `ColumnWriter.Flush`, `ColumnWriter.Close` (Writer.Close calls it for every column BEFORE
      writer.close, writer.go:472-477) -/
  | page (col : Nat)
  /-- `writer.writeRowGroup(w.currentRowGroup)` reached through Flush, Close, the row limit or
      `WriteRowGroup`; `last` lists the columns whose `c.Flush()` produces one more page -/
  | flush (last : List Nat)
  /-- rows written to the row group `id` made by `BeginRowGroup` (`rg.WriteRows`, ColumnWriters) -/
  | cwrite (id : Nat)
  /-- `ColumnWriter.Flush` on a column of row group `id`: a page spilling because the page buffer
      is full, `rg.Flush()`, or a direct call. A no-op while `awaitOrdinal` is set. -/
  | cpage (id col : Nat)
  /-- `ConcurrentRowGroupWriter.Commit` of row group `id` (writer.go:989-994): `writer.flush()` of
      the writer's own row group (`lastCur`: its columns that still emit a page), then
      `writeRowGroup(rg)` (`lastRg`: the columns of `rg` whose `c.Flush()` emits a page). The row
      group can be written to and committed again afterwards. -/
  | commit (id : Nat) (lastCur lastRg : List Nat)
  /-- `writer.reset` (writer.go:1213-1262) through `Writer.Reset` / `GenericWriter.Reset` -/
  | reset
deriving DecidableEq, Repr

def rgEmpty (colRg : Nat) (colFu : Option Nat) (await : Bool) : RgSt :=
  { colRg := colRg, colFu := colFu, await := await, numPages := fun _ => 0, buf := fun _ => [], rows := false }

/-- `newWriter` (ordinal 0 and the identifier of the first encryption state, writer.go:1194-1202)
    and `newConcurrentRowGroupWriter` with encryption (`awaitOrdinal = true`; `rowGroupOrdinal` and
    `fileUnique` keep their zero values, writer.go:882-888) -/
def winit : WSt :=
  { gen := 0, nrg := 0, main := rgEmpty 0 (some 0) false, crg := fun _ => rgEmpty 0 none true, log := [], reopened := [] }

/-- writer.go:2508-2650 + writePageTo: seal header and body with
    `(c.fileUnique; c.rowGroupOrdinal, c.columnOrdinal, int16(c.numPages))`, append to the page
    buffer, `c.numPages++`. `ColumnWriter.Flush` returns at once while `awaitOrdinal` is set. -/
def upage (u : RgSt) (col : Nat) : RgSt :=
  if u.await then { u with rows := true } else
  let e : BufPage :=
    ⟨(u.buf col).length, ⟨.dataPageHeader, [u.colRg, col, u.numPages col]⟩, ⟨.dataPage, [u.colRg, col, u.numPages col]⟩, u.colFu⟩
  { u with
    numPages := fun c => if c = col then u.numPages col + 1 else u.numPages c
    buf := fun c => if c = col then u.buf col ++ [e] else u.buf c
    rows := true }

/-- what one column contributes to the file when the row group with index `rgi` is written by the
    writer whose encryption state is generation `gen`: dictionary page (sealed NOW with
    `c.fileUnique, c.rowGroupOrdinal`, 2689/2694), the buffered pages (copied verbatim), the bloom
    filter (2483/2488), and in plaintext-footer mode the column metadata (1775, sealed with
    `enc.fileUnique` and the loop indices) -/
def emitCol (cfg : WCfg) (u : RgSt) (rgi gen col : Nat) : List WEv :=
  (if cfg.dict col then
    [⟨.dictPageHeader rgi col, ⟨.dictPageHeader, [u.colRg, col, 0]⟩, u.colFu⟩,
     ⟨.dictPage rgi col, ⟨.dictPage, [u.colRg, col, 0]⟩, u.colFu⟩] else []) ++
  (u.buf col).flatMap (fun p => [⟨.dataPageHeader rgi col p.idx, p.hdr, p.fu⟩, ⟨.dataPage rgi col p.idx, p.body, p.fu⟩]) ++
  (if cfg.bloom col then
    [⟨.bloomHeader rgi col, ⟨.bloomHeader, [u.colRg, col]⟩, u.colFu⟩,
     ⟨.bloomBits rgi col, ⟨.bloomBits, [u.colRg, col]⟩, u.colFu⟩] else []) ++
  (if cfg.plainFooter then [⟨.columnMeta rgi col, ⟨.columnMeta, [rgi, col]⟩, some gen⟩] else [])

/-- `flushFilterPages` of one column (writer.go:2273-2296): `for pageOrd := range int16(c.numPages)`
    the next header and body envelope of the page buffer are opened with
    `(c.fileUnique; c.rowGroupOrdinal, c.columnOrdinal, pageOrd)`. First component: the sealing the
    buffer holds at that position; second: the arguments of the open. -/
def rereadCol (cfg : WCfg) (u : RgSt) (rgi col : Nat) : List (WEv × WEv) :=
  if cfg.reread col then
    (((u.buf col).take (u.numPages col)).zipIdx).flatMap (fun pi =>
      [((⟨.dataPageHeader rgi col pi.1.idx, pi.1.hdr, pi.1.fu⟩ : WEv),
        (⟨.dataPageHeader rgi col pi.2, ⟨.dataPageHeader, [u.colRg, col, pi.2]⟩, u.colFu⟩ : WEv)),
       (⟨.dataPage rgi col pi.1.idx, pi.1.body, pi.1.fu⟩, ⟨.dataPage rgi col pi.2, ⟨.dataPage, [u.colRg, col, pi.2]⟩, u.colFu⟩)])
  else []

/-- the row group writer `u` as `writeRowGroup` (writer.go:1519-1577) prepares it for index `rgi`:
    assign ordinal and file identifier, clear `awaitOrdinal`, flush the last pages -/
def rgPrep (u : RgSt) (rgi gen : Nat) (last : List Nat) : RgSt :=
  last.foldl upage { u with colRg := rgi, colFu := some gen, await := false }

/-- the body of `writeRowGroup` (writer.go:1519-1837) for the row group writer `u` that gets index
    `rgi`: prepare, then emit -/
def rgWrite (cfg : WCfg) (u : RgSt) (rgi gen : Nat) (last : List Nat) : List WEv :=
  (List.range cfg.ncols).flatMap (emitCol cfg (rgPrep u rgi gen last) rgi gen)

/-- … and the pages it reads back for the bloom filters on the way (1574) -/
def rgReread (cfg : WCfg) (u : RgSt) (rgi gen : Nat) (last : List Nat) : List (WEv × WEv) :=
  (List.range cfg.ncols).flatMap (rereadCol cfg (rgPrep u rgi gen last) rgi)

/-- `writeRowGroup(w.currentRowGroup)`: an empty row group is skipped (1523-1526); the deferred
    block resets the row group writer and gives it the next ordinal (1536-1553) -/
def wflush (cfg : WCfg) (s : WSt) (last : List Nat) : WSt :=
  if !s.main.rows then s else
  { s with nrg := s.nrg + 1, main := rgEmpty (s.nrg + 1) (some s.gen) false,
           log := s.log ++ rgWrite cfg s.main s.nrg s.gen last,
           reopened := s.reopened ++ rgReread cfg s.main s.nrg s.gen last }

/-- `Commit` of row group `id`. `fixed = true` is the code as it is: the deferred block also
    gives the writer's own (flushed, empty) row group the next ordinal; `false` is the code before
    that repair, kept as a regression fact. -/
def wcommit (fixed : Bool) (cfg : WCfg) (s : WSt) (id : Nat) (lastCur lastRg : List Nat) : WSt :=
  let s := wflush cfg s lastCur
  let u := s.crg id
  if !u.rows then s else
  { s with
    nrg := s.nrg + 1
    crg := fun i => if i = id then rgEmpty (s.nrg + 1) (some s.gen) true else s.crg i
    main := if fixed then { s.main with colRg := s.nrg + 1 } else s.main
    log := s.log ++ rgWrite cfg u s.nrg s.gen lastRg
    reopened := s.reopened ++ rgReread cfg u s.nrg s.gen lastRg }

/-- AS IT WAS before the repair of reset (kept as a regression fact): row groups, indexes and
    buffers were cleared; NOTHING touched `ColumnWriter.rowGroupOrdinal`, and the encryption state
    (with its file identifier) was kept -/
def wresetBefore (s : WSt) : WSt :=
  { s with nrg := 0, main := rgEmpty s.main.colRg s.main.colFu false, log := [], reopened := [] }

/-- writer.go:1213-1262 (repaired): row groups, indexes and buffers are cleared, a new encryption
    state is drawn (1230-1232: a new random identifier unless `FileIdentifier` is configured) and
    every column writer of the writer's own row group gets `rowGroupOrdinal = 0` and the NEW
    identifier (1233-1236). Row groups made by `BeginRowGroup` are not touched: they wait for
    ordinal and identifier anyway. -/
def wreset (s : WSt) : WSt :=
  { s with gen := s.gen + 1, nrg := 0, main := rgEmpty 0 (some (s.gen + 1)) false, log := [], reopened := [] }

/-- NOT the code: `reset` without line 1235 (`c.fileUnique = w.encryption.fileUnique`), which looks
    redundant next to the same assignment in `writeRowGroup` (1559). Kept to show that the theorems
    depend on it (`reset_must_hand_over_identifier`). -/
def wresetNoHandover (s : WSt) : WSt :=
  { s with gen := s.gen + 1, nrg := 0, main := rgEmpty 0 s.main.colFu false, log := [], reopened := [] }

def wstepG (fixedCommit : Bool) (resetF : WSt → WSt) (cfg : WCfg) (s : WSt) : WOp → WSt
  | .write => { s with main := { s.main with rows := true } }
  | .page col => { s with main := upage s.main col }
  | .flush last => wflush cfg s last
  | .cwrite id => { s with crg := fun i => if i = id then { s.crg id with rows := true } else s.crg i }
  | .cpage id col => { s with crg := fun i => if i = id then upage (s.crg id) col else s.crg i }
  | .commit id a b => wcommit fixedCommit cfg s id a b
  | .reset => resetF s

/-- the code as it is -/
def wstep (cfg : WCfg) (s : WSt) (o : WOp) : WSt := wstepG true wreset cfg s o

def wrun (cfg : WCfg) (ops : List WOp) : WSt := ops.foldl (wstep cfg) winit

/-- the code before the repair of `writer.reset` -/
def wrunBefore (cfg : WCfg) (ops : List WOp) : WSt := ops.foldl (wstepG true wresetBefore cfg) winit

/-- the code before the writer's own row group was given the next ordinal after a Commit -/
def wrunBeforeCommitFix (cfg : WCfg) (ops : List WOp) : WSt := ops.foldl (wstepG false wreset cfg) winit

/-- NOT the code: see `wresetNoHandover` -/
def wrunNoHandover (cfg : WCfg) (ops : List WOp) : WSt := ops.foldl (wstepG true wresetNoHandover cfg) winit

/-- writer.close (writer.go:1264-1281) and writeFileFooter: flush, then the page indexes sealed with
    `w.encryption.fileUnique` and the loop indices `(i, j)` (1372, 1398), then the footer (1452 / 1493) -/
def wclose (cfg : WCfg) (s : WSt) : List WEv :=
  let s := wflush cfg s []
  s.log ++
  (List.range s.nrg).flatMap (fun i => (List.range cfg.ncols).map (fun j => (⟨.columnIndex i j, ⟨.columnIndex, [i, j]⟩, some s.gen⟩ : WEv))) ++
  (List.range s.nrg).flatMap (fun i => (List.range cfg.ncols).map (fun j => (⟨.offsetIndex i j, ⟨.offsetIndex, [i, j]⟩, some s.gen⟩ : WEv))) ++
  [⟨.footer, ⟨.footer, []⟩, some s.gen⟩]

/-- the pages a row group writer holds were sealed for row group `rgi`, for their position, and
    with the identifier of file generation `g` -/
structure UInv (u : RgSt) (rgi g : Nat) : Prop where
  np : ∀ c, u.numPages c = (u.buf c).length
  buf : ∀ (c : Nat) (p : BufPage), p ∈ u.buf c →
    p.hdr = ⟨.dataPageHeader, [rgi, c, p.idx]⟩ ∧ p.body = ⟨.dataPage, [rgi, c, p.idx]⟩ ∧ p.fu = some g
  pos : ∀ (c i : Nat) (p : BufPage), (u.buf c)[i]? = some p → p.idx = i

/-- invariant of every history -/
structure WInv (s : WSt) : Prop where
  rg : s.main.colRg = s.nrg
  fu : s.main.colFu = some s.gen
  na : s.main.await = false
  main : UInv s.main s.nrg s.gen
  nr : s.main.rows = false → ∀ c, s.main.buf c = []
  crg : ∀ i, (s.crg i).await = true ∧ (∀ c, (s.crg i).buf c = []) ∧ (∀ c, (s.crg i).numPages c = 0)
  log : ∀ e ∈ s.log, e.GoodIn s.gen
  re : ∀ ab ∈ s.reopened, ab.1 = ab.2

theorem uinv_empty (colRg : Nat) (f : Option Nat) (a : Bool) (rgi g : Nat) : UInv (rgEmpty colRg f a) rgi g :=
  ⟨fun _ => rfl, fun _ _ h => by simp [rgEmpty] at h, fun _ _ _ h => by simp [rgEmpty] at h⟩

theorem winv_init : WInv winit :=
  ⟨rfl, rfl, rfl, uinv_empty _ _ _ _ _, fun _ _ => rfl, fun _ => ⟨rfl, fun _ => rfl, fun _ => rfl⟩,
   fun _ h => by simp [winit] at h, fun _ h => by simp [winit] at h⟩

theorem upage_await {u : RgSt} (h : u.await = true) (col : Nat) :
    (upage u col).await = true ∧ (upage u col).buf = u.buf ∧ (upage u col).numPages = u.numPages := by
  simp [upage, h]

theorem uinv_page {u : RgSt} {rgi g : Nat} (hr : u.colRg = rgi) (hf : u.colFu = some g) (ha : u.await = false)
    (h : UInv u rgi g) (col : Nat) :
    (upage u col).colRg = rgi ∧ (upage u col).colFu = some g ∧ (upage u col).await = false ∧ UInv (upage u col) rgi g := by
  have e : upage u col = { u with
      numPages := fun c => if c = col then u.numPages col + 1 else u.numPages c
      buf := fun c => if c = col then u.buf col ++ [(⟨(u.buf col).length, ⟨.dataPageHeader, [u.colRg, col, u.numPages col]⟩, ⟨.dataPage, [u.colRg, col, u.numPages col]⟩, u.colFu⟩ : BufPage)] else u.buf c
      rows := true } := by simp [upage, ha]
  rw [e]
  refine ⟨hr, hf, ha, ?_, ?_, ?_⟩
  · intro c
    simp only
    split
    · subst_vars; simp [h.np]
    · exact h.np c
  · intro c p hp
    simp only at hp
    split at hp
    · subst_vars
      rcases List.mem_append.1 hp with hp | hp
      · exact h.buf _ _ hp
      · simp only [List.mem_singleton] at hp
        subst hp
        simp [h.np, hf]
    · exact h.buf _ _ hp
  · intro c i p hp
    simp only at hp
    split at hp
    · subst_vars
      by_cases hi : i < (u.buf c).length
      · rw [List.getElem?_append_left hi] at hp
        exact h.pos _ _ _ hp
      · rw [List.getElem?_append_right (by omega)] at hp
        by_cases hi' : i - (u.buf c).length = 0
        · rw [hi'] at hp
          simp only [List.getElem?_cons_zero, Option.some.injEq] at hp
          subst hp
          simp only
          omega
        · obtain ⟨k, hk⟩ : ∃ k, i - (u.buf c).length = k + 1 := ⟨i - (u.buf c).length - 1, by omega⟩
          rw [hk] at hp
          simp at hp
    · exact h.pos _ _ _ hp

theorem uinv_foldl_page {u : RgSt} {rgi g : Nat} (hr : u.colRg = rgi) (hf : u.colFu = some g) (ha : u.await = false)
    (h : UInv u rgi g) (l : List Nat) :
    (l.foldl upage u).colRg = rgi ∧ (l.foldl upage u).colFu = some g ∧ UInv (l.foldl upage u) rgi g := by
  induction l generalizing u with
  | nil => exact ⟨hr, hf, h⟩
  | cons a l ih =>
    obtain ⟨h1, h2, h3, h4⟩ := uinv_page hr hf ha h a
    exact ih h1 h2 h3 h4

theorem rgPrep_inv {u : RgSt} {rgi g : Nat} (h : UInv u rgi g) (last : List Nat) :
    (rgPrep u rgi g last).colRg = rgi ∧ (rgPrep u rgi g last).colFu = some g ∧ UInv (rgPrep u rgi g last) rgi g :=
  uinv_foldl_page (u := { u with colRg := rgi, colFu := some g, await := false }) rfl rfl rfl ⟨h.np, h.buf, h.pos⟩ last

theorem emitCol_good {cfg : WCfg} {u : RgSt} {rgi g : Nat} (hr : u.colRg = rgi) (hf : u.colFu = some g)
    (h : UInv u rgi g) (col : Nat) :
    ∀ e ∈ emitCol cfg u rgi g col, e.GoodIn g := by
  intro e he
  simp only [emitCol, List.mem_append, List.mem_flatMap] at he
  rcases he with ((he | ⟨p, hp, he⟩) | he) | he
  · split at he
    · simp only [List.mem_cons, List.not_mem_nil, or_false] at he
      rcases he with rfl | rfl <;> simp [WEv.GoodIn, Module.used, Module.type, Module.ords, hr, hf]
    · simp at he
  · have := h.buf col p hp
    simp only [List.mem_cons, List.not_mem_nil, or_false] at he
    rcases he with rfl | rfl <;> simp [WEv.GoodIn, Module.used, Module.type, Module.ords, this]
  · split at he
    · simp only [List.mem_cons, List.not_mem_nil, or_false] at he
      rcases he with rfl | rfl <;> simp [WEv.GoodIn, Module.used, Module.type, Module.ords, hr, hf]
    · simp at he
  · split at he
    · simp only [List.mem_cons, List.not_mem_nil, or_false] at he
      subst he; simp [WEv.GoodIn, Module.used, Module.type, Module.ords]
    · simp at he

/-- whatever ordinal and identifier a row group writer held before, if its buffers hold pages
    sealed for `(rgi, g)` (in particular none), everything `writeRowGroup` emits for index `rgi`
    in file generation `g` is sealed for its slot and for that file -/
theorem rgWrite_good {cfg : WCfg} {u : RgSt} {rgi g : Nat} (h : UInv u rgi g) (last : List Nat) :
    ∀ e ∈ rgWrite cfg u rgi g last, e.GoodIn g := by
  intro e he
  simp only [rgWrite, List.mem_flatMap] at he
  obtain ⟨c, _, he⟩ := he
  obtain ⟨h1, h2, h3⟩ := rgPrep_inv h last
  exact emitCol_good h1 h2 h3 c e he

theorem rereadCol_same {cfg : WCfg} {u : RgSt} {rgi g : Nat} (hr : u.colRg = rgi) (hf : u.colFu = some g)
    (h : UInv u rgi g) (col : Nat) : ∀ ab ∈ rereadCol cfg u rgi col, ab.1 = ab.2 := by
  intro ab hab
  unfold rereadCol at hab
  split at hab
  · simp only [List.mem_flatMap] at hab
    obtain ⟨⟨p, i⟩, hpi, hab⟩ := hab
    rw [List.mem_zipIdx_iff_getElem?] at hpi
    simp only at hpi
    have hp : (u.buf col)[i]? = some p := by
      rw [List.getElem?_take] at hpi
      split at hpi
      · exact hpi
      · cases hpi
    have hi := h.pos col i p hp
    have hb := h.buf col p (List.mem_of_getElem? hp)
    simp only [List.mem_cons, List.not_mem_nil, or_false] at hab
    rcases hab with rfl | rfl <;> simp [hb, hi, hr, hf]
  · cases hab

theorem rgReread_same {cfg : WCfg} {u : RgSt} {rgi g : Nat} (h : UInv u rgi g) (last : List Nat) :
    ∀ ab ∈ rgReread cfg u rgi g last, ab.1 = ab.2 := by
  intro ab hab
  simp only [rgReread, List.mem_flatMap] at hab
  obtain ⟨c, _, hab⟩ := hab
  obtain ⟨h1, h2, h3⟩ := rgPrep_inv h last
  exact rereadCol_same h1 h2 h3 c ab hab

theorem winv_flush {cfg : WCfg} {s : WSt} (h : WInv s) (last : List Nat) : WInv (wflush cfg s last) := by
  unfold wflush
  split
  · exact h
  · refine ⟨rfl, rfl, rfl, uinv_empty _ _ _ _ _, fun _ _ => rfl, h.crg, ?_, ?_⟩
    · intro e he
      rcases List.mem_append.1 he with he | he
      · exact h.log e he
      · exact rgWrite_good h.main last e he
    · intro ab hab
      rcases List.mem_append.1 hab with hab | hab
      · exact h.re ab hab
      · exact rgReread_same h.main last ab hab

theorem wflush_main_empty {cfg : WCfg} {s : WSt} (h : WInv s) (last : List Nat) (c : Nat) :
    (wflush cfg s last).main.buf c = [] := by
  unfold wflush
  split
  · rename_i hr
    exact h.nr (by simpa using hr) c
  · rfl

theorem wflush_gen {cfg : WCfg} (s : WSt) (last : List Nat) : (wflush cfg s last).gen = s.gen := by
  unfold wflush
  split <;> rfl

theorem wcommit_gen {cfg : WCfg} (f : Bool) (s : WSt) (id : Nat) (a b : List Nat) : (wcommit f cfg s id a b).gen = s.gen := by
  unfold wcommit
  simp only
  split <;> simp [wflush_gen]

theorem winv_commit {cfg : WCfg} {s : WSt} (h : WInv s) (id : Nat) (a b : List Nat) : WInv (wcommit true cfg s id a b) := by
  unfold wcommit
  have h1 := winv_flush (cfg := cfg) h a
  have hempty := wflush_main_empty (cfg := cfg) h a
  simp only
  split
  · exact h1
  · have hc := h1.crg id
    have hu : UInv ((wflush cfg s a).crg id) (wflush cfg s a).nrg (wflush cfg s a).gen :=
      ⟨fun c => by rw [hc.2.2 c, hc.2.1 c]; rfl, fun c p hp => by (rw [hc.2.1 c] at hp; cases hp),
       fun c i p hp => by (rw [hc.2.1 c] at hp; simp at hp)⟩
    refine ⟨rfl, h1.fu, h1.na, ⟨h1.main.np, ?_, ?_⟩, fun _ c => hempty c, ?_, ?_, ?_⟩
    · intro c p hp
      simp only [if_true] at hp
      rw [hempty c] at hp
      cases hp
    · intro c i p hp
      simp only [if_true] at hp
      rw [hempty c] at hp
      simp at hp
    · intro i
      simp only
      split
      · exact ⟨rfl, fun _ => rfl, fun _ => rfl⟩
      · exact h1.crg i
    · intro e he
      rcases List.mem_append.1 he with he | he
      · exact h1.log e he
      · exact rgWrite_good hu b e he
    · intro ab hab
      rcases List.mem_append.1 hab with hab | hab
      · exact h1.re ab hab
      · exact rgReread_same hu b ab hab

theorem winv_reset {s : WSt} (h : WInv s) : WInv (wreset s) :=
  ⟨rfl, rfl, rfl, uinv_empty _ _ _ _ _, fun _ _ => rfl, h.crg, fun _ he => by simp [wreset] at he, fun _ he => by simp [wreset] at he⟩

theorem winv_step {cfg : WCfg} {s : WSt} (h : WInv s) (o : WOp) : WInv (wstep cfg s o) := by
  cases o with
  | write =>
    simp only [wstep, wstepG]
    exact ⟨h.rg, h.fu, h.na, ⟨h.main.np, h.main.buf, h.main.pos⟩, fun hr => by simp at hr, h.crg, h.log, h.re⟩
  | page col =>
    simp only [wstep, wstepG]
    obtain ⟨h1, h2, h3, h4⟩ := uinv_page h.rg h.fu h.na h.main col
    refine ⟨h1, h2, h3, h4, fun hr => ?_, h.crg, h.log, h.re⟩
    simp [upage, h.na] at hr
  | flush last => exact winv_flush h last
  | cwrite id =>
    simp only [wstep, wstepG]
    refine ⟨h.rg, h.fu, h.na, h.main, h.nr, fun i => ?_, h.log, h.re⟩
    simp only
    split
    · exact h.crg id
    · exact h.crg i
  | cpage id col =>
    simp only [wstep, wstepG]
    refine ⟨h.rg, h.fu, h.na, h.main, h.nr, fun i => ?_, h.log, h.re⟩
    simp only
    split
    · obtain ⟨ha, hb, hn⟩ := h.crg id
      obtain ⟨h1, h2, h3⟩ := upage_await ha col
      exact ⟨h1, fun c => by rw [h2]; exact hb c, fun c => by rw [h3]; exact hn c⟩
    · exact h.crg i
  | commit id a b => exact winv_commit h id a b
  | reset => exact winv_reset h

theorem winv_run {cfg : WCfg} (ops : List WOp) : WInv (wrun cfg ops) := by
  unfold wrun
  suffices ∀ s, WInv s → WInv (ops.foldl (wstep cfg) s) from this _ winv_init
  induction ops with
  | nil => exact fun s h => h
  | cons o ops ih => exact fun s h => ih _ (winv_step h o)

theorem wclose_good {cfg : WCfg} {s : WSt} (h : WInv s) : ∀ e ∈ wclose cfg s, e.GoodIn s.gen := by
  intro e he
  have hg := wflush_gen (cfg := cfg) s []
  simp only [wclose, List.mem_append, List.mem_flatMap, List.mem_map, List.mem_singleton] at he
  rcases he with ((he | ⟨i, _, j, _, rfl⟩) | ⟨i, _, j, _, rfl⟩) | rfl
  · rw [← hg]; exact (winv_flush h []).log e he
  all_goals simp [WEv.GoodIn, Module.used, Module.type, Module.ords, hg]

/-! ## 4. Reader-side ordinal tracking (MIRROR file.go FilePages)

One `FilePages` over the column chunk `(rg, col)` whose stream holds an optional dictionary page
followed by `npages` data pages (the order in which writeRowGroup lays them out, writer.go:1589-1611).
* `pos`   = what the stream (`f.section`/`f.rbuf`) is positioned on
* `ord`   = `dec.dataPageOrd`, `dictPending` = `dec.dictPagePending`      (file.go:1113-1114)
* `index` = `f.index`, `last` = `f.lastPageIndex` (with `f.lastPage != nil`), `serve` = `f.serveLastPage` -/

inductive Pos where
  | dict
  | data (i : Nat)
deriving DecidableEq, Repr

structure Chunk where
  rg : Nat
  col : Nat
  hasDict : Bool     -- `MetaData.DictionaryPageOffset != 0`
  npages : Nat

structure RSt where
  pos : Pos
  ord : Nat
  dictPending : Bool
  index : Nat
  last : Option Nat
  serve : Bool
  log : List Ev      -- slot = the module the stream is positioned on, used = AAD arguments of the open
deriving Repr

inductive ROp where
  /-- one iteration of the loop of `ReadPage` (file.go:1193-1325) on an encrypted column: one call
      of `readEncryptedPage` (1500-1547) and the bookkeeping that follows -/
  | step
  /-- the cached-page preamble of `ReadPage` (file.go:1176-1190) -/
  | serveLast
  /-- lazy `readDictionary` (file.go:1322-1370) through `ReadDictionary` or the first
      dictionary-encoded data page: a private reader positioned at the dictionary offset -/
  | readDict
  /-- `SeekToRow` without an offset index (file.go:1555-1570) -/
  | seekNoIndex
  /-- `SeekToRow` with an offset index; `target` is the page found by the binary search
      (file.go:1571-1633) -/
  | seekIndexed (target : Nat)
deriving DecidableEq, Repr

/-- file.go:1117-1151 `FilePages.init` -/
def rinit (c : Chunk) : RSt :=
  { pos := if c.hasDict then .dict else .data 0, ord := 0, dictPending := c.hasDict,
    index := 0, last := none, serve := false, log := [] }

/-- file.go:1500-1547 `readEncryptedPage` on the module pair `(mh, mb)` the stream is positioned
    on (the stream is on `nxt` afterwards), followed by the bookkeeping of ReadPage 1252-1277 -/
def radvance (c : Chunk) (s : RSt) (mh mb : Module) (nxt : Pos) : RSt :=
  if s.dictPending then
    -- 1504-1509: dictionary module types, page ordinal 0; 1541-1542; `page == nil` → continue
    { s with pos := nxt, dictPending := false,
             log := s.log ++ [Ev.mk mh ⟨.dictPageHeader, [c.rg, c.col, 0]⟩, Ev.mk mb ⟨.dictPage, [c.rg, c.col, 0]⟩] }
  else
    -- 1510-1514: data module types, `d.dataPageOrd`; 1543-1544 `d.dataPageOrd++`; 1270-1277
    { s with pos := nxt, ord := s.ord + 1, last := some s.index, index := s.index + 1,
             log := s.log ++ [Ev.mk mh ⟨.dataPageHeader, [c.rg, c.col, s.ord]⟩, Ev.mk mb ⟨.dataPage, [c.rg, c.col, s.ord]⟩] }

/-- one loop iteration of ReadPage: which modules are under the stream is a fact of the file
    layout (dictionary page first, then the data pages in order), not of the reader's counters -/
def rstepRead (c : Chunk) (s : RSt) : RSt :=
  match s.pos with
  | .dict => radvance c s (.dictPageHeader c.rg c.col) (.dictPage c.rg c.col) (.data 0)
  | .data i =>
    if i < c.npages then radvance c s (.dataPageHeader c.rg c.col i) (.dataPage c.rg c.col i) (.data (i + 1))
    else s   -- end of the chunk: io.EOF from the length read, nothing is opened

def rstep (c : Chunk) (s : RSt) : ROp → RSt
  | .step => rstepRead c s
  | .serveLast =>
    match s.serve, s.last with
    | true, some li => { s with serve := false, index := li + 1 }
    | _, _ => s
  | .readDict =>
    if c.hasDict then
      { s with log := s.log ++ [Ev.mk (.dictPageHeader c.rg c.col) ⟨.dictPageHeader, [c.rg, c.col, 0]⟩,
                                Ev.mk (.dictPage c.rg c.col) ⟨.dictPage, [c.rg, c.col, 0]⟩] }
    else s
  | .seekNoIndex =>
    -- file.go:1633-1650: data pages are numbered from 0 (as the offset index numbers them)
    { s with pos := .data 0, index := 0, ord := 0, dictPending := false, serve := false }
  | .seekIndexed target =>
    -- file.go:1672-1684: a pending request for the cached page is superseded; the cached page is
    -- served only when the stream stands right behind it
    if s.last = some target ∧ s.index = target + 1 then { s with serve := true }
    else if s.index = target then { s with serve := false }    -- 1686-1689: already positioned
    else { s with index := target, ord := target, dictPending := false, pos := .data target, serve := false }  -- 1691-1720

def rrun (c : Chunk) (ops : List ROp) : RSt := ops.foldl (rstep c) (rinit c)

structure RInv (s : RSt) : Prop where
  sync : match s.pos with
    | .dict => s.dictPending = true ∧ s.ord = 0
    | .data i => s.dictPending = false ∧ s.ord = i
  log : ∀ e ∈ s.log, e.Good

theorem rinv_init (c : Chunk) : RInv (rinit c) := by
  refine ⟨?_, fun _ h => by simp [rinit] at h⟩
  unfold rinit
  cases c.hasDict <;> simp

theorem rinv_step (c : Chunk) {s : RSt} (h : RInv s) (o : ROp) : RInv (rstep c s o) := by
  cases o with
  | step =>
    obtain ⟨hs, hl⟩ := h
    simp only [rstep, rstepRead]
    cases hp : s.pos with
    | dict =>
      rw [hp] at hs
      simp only at hs
      simp only [radvance, hs.1, if_true]
      refine ⟨by simp [hs.2], ?_⟩
      intro e he
      simp only [List.mem_append, List.mem_cons, List.not_mem_nil, or_false] at he
      rcases he with he | rfl | rfl
      · exact hl e he
      all_goals simp [Ev.Good, Module.used, Module.type, Module.ords]
    | data i =>
      rw [hp] at hs
      simp only at hs ⊢
      split
      · simp only [radvance, hs.1, Bool.false_eq_true, if_false]
        refine ⟨by simp [hs.2], ?_⟩
        intro e he
        simp only [List.mem_append, List.mem_cons, List.not_mem_nil, or_false] at he
        rcases he with he | rfl | rfl
        · exact hl e he
        all_goals simp [Ev.Good, Module.used, Module.type, Module.ords, hs.2]
      · exact ⟨by rw [hp]; exact hs, hl⟩
  | serveLast =>
    simp only [rstep]
    split
    · exact ⟨h.sync, h.log⟩
    · exact h
  | readDict =>
    simp only [rstep]
    split
    · refine ⟨h.sync, ?_⟩
      intro e he
      simp only [List.mem_append, List.mem_cons, List.not_mem_nil, or_false] at he
      rcases he with he | rfl | rfl
      · exact h.log e he
      all_goals simp [Ev.Good, Module.used, Module.type, Module.ords]
    · exact h
  | seekNoIndex => exact ⟨by simp [rstep], h.log⟩
  | seekIndexed t =>
    simp only [rstep]
    split
    · exact ⟨h.sync, h.log⟩
    · split
      · exact ⟨h.sync, h.log⟩
      · exact ⟨by simp, h.log⟩

theorem rinv_run (c : Chunk) (ops : List ROp) : RInv (rrun c ops) := by
  unfold rrun
  suffices ∀ s, RInv s → RInv (ops.foldl (rstep c) s) from this _ (rinv_init c)
  induction ops with
  | nil => exact fun s h => h
  | cons o ops ih => exact fun s h => ih _ (rinv_step c h o)

/-! ## 5. Abstract AEAD (AES-GCM is assumed, not modelled) -/

structure AEAD (K N C : Type) where
  sealF : K → N → Bytes → Bytes → C           -- key, nonce, aad, plaintext
  openF : K → N → Bytes → C → Option Bytes   -- key, nonce, aad, ciphertext‖tag

/-- the ideal-AEAD hypotheses (symbolic / Dolev-Yao idealisation of AES-GCM) -/
structure Ideal {K N C : Type} (A : AEAD K N C) : Prop where
  /-- correctness -/
  open_seal : ∀ k n aad p, A.openF k n aad (A.sealF k n aad p) = some p
  /-- authenticity: only a ciphertext sealed under exactly this key, nonce and AAD opens -/
  open_only : ∀ k n aad c p, A.openF k n aad c = some p → c = A.sealF k n aad p
  /-- ciphertexts of different (key, nonce, aad, plaintext) are different -/
  seal_inj : ∀ k n aad p k' n' aad' p', A.sealF k n aad p = A.sealF k' n' aad' p' → k = k' ∧ n = n' ∧ aad = aad' ∧ p = p'

/-- module envelope `len ‖ nonce ‖ ciphertext ‖ tag` (encrypt.go:170-198): the nonce travels with
    the ciphertext; the length prefix is framing only -/
structure Env (N C : Type) where
  nonce : N
  ct : C

/-- encrypt.go:174-198 `encryptModule(key, aad, plaintext)` with the nonce made explicit -/
def sealModule {K N C} (A : AEAD K N C) (k : K) (n : N) (aad p : Bytes) : Env N C := ⟨n, A.sealF k n aad p⟩

/-- encrypt.go:204-235 `decryptModule(key, aad, envelope)` -/
def openModule {K N C} (A : AEAD K N C) (k : K) (aad : Bytes) (e : Env N C) : Option Bytes := A.openF k e.nonce aad e.ct

/-- one honest sealing operation -/
structure Sealing (K N : Type) where
  key : K
  nonce : N
  aad : Bytes
  plain : Bytes

def Sealing.env {K N C} (A : AEAD K N C) (s : Sealing K N) : Env N C := sealModule A s.key s.nonce s.aad s.plain

/-- what a storage adversary without the keys can place in a file: an envelope some honest
    writer produced (from this or any other file), or bytes that are not the output of `seal` -/
def Adv {K N C} (A : AEAD K N C) (W : List (Sealing K N)) (e : Env N C) : Prop :=
  (∃ s ∈ W, e = s.env A) ∨ (∀ k n aad p, e ≠ sealModule A k n aad p)

/-- the symbolic AEAD: a ciphertext is the tuple of what was sealed (shows `Ideal` is satisfiable) -/
def symAEAD : AEAD Nat Nat (Nat × Nat × Bytes × Bytes) where
  sealF k n aad p := (k, n, aad, p)
  openF k n aad c := if c.1 = k ∧ c.2.1 = n ∧ c.2.2.1 = aad then some c.2.2.2 else none

theorem symAEAD_ideal : Ideal symAEAD := by
  refine ⟨?_, ?_, ?_⟩
  · intro k n aad p; simp [symAEAD]
  · intro k n aad c p h
    obtain ⟨c1, c2, c3, c4⟩ := c
    simp only [symAEAD] at h ⊢
    split at h
    · rename_i hc
      obtain ⟨rfl, rfl, rfl⟩ := hc
      cases h; rfl
    · cases h
  · intro k n aad p k' n' aad' p' h
    simp only [symAEAD, Prod.mk.injEq] at h
    exact h

end PqModel.Aad
