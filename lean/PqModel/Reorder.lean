namespace PqModel.Reorder

/-! Spike: the cyclic reorder of optionalColumnBuffer.Page (column_buffer_optional.go:83-127).
    State as functions on indices (only indices < n matter). -/

def swapF {α : Type} (f : Nat → α) (i j : Nat) : Nat → α :=
  fun x => if x = i then f j else if x = j then f i else f x

structure S (V : Type) where
  key : Nat → Nat     -- sortIndex: where the value currently at x has to go
  val : Nat → V       -- base column values

def S.swap {V} (s : S V) (i j : Nat) : S V := ⟨swapF s.key i j, swapF s.val i j⟩

/-- `for j := sortIndex[i]; i != j; j = sortIndex[i] { Swap(i, j); swap sortIndex }` -/
def inner {V} : Nat → S V → Nat → S V
  | 0, s, _ => s
  | f + 1, s, i => if s.key i = i then s else inner f (s.swap i (s.key i)) i

/-- `for i := range sortIndex { … }` -/
def outer {V} (n : Nat) : Nat → S V → S V
  | 0, s => s
  | k + 1, s => outer n k (inner n s (n - (k + 1)))

def PermN (n : Nat) (key : Nat → Nat) : Prop :=
  (∀ i, i < n → key i < n) ∧ (∀ i j, i < n → j < n → key i = key j → i = j)

/-- `R` is the arrangement the (key, val) pairs describe: value at x belongs at key x -/
def Arr {V} (n : Nat) (s : S V) (R : Nat → V) : Prop := ∀ x, x < n → R (s.key x) = s.val x

theorem swap_repr {V} {n : Nat} {s : S V} {R : Nat → V} {i j : Nat} (h : Arr n s R) (hi : i < n) (hj : j < n) :
    Arr n (s.swap i j) R := by
  intro x hx
  show R (swapF s.key i j x) = swapF s.val i j x
  unfold swapF
  by_cases h1 : x = i
  · rw [if_pos h1, if_pos h1]; exact h j hj
  · rw [if_neg h1, if_neg h1]
    by_cases h2 : x = j
    · rw [if_pos h2, if_pos h2]; exact h i hi
    · rw [if_neg h2, if_neg h2]; exact h x hx

theorem swap_perm {n : Nat} {key : Nat → Nat} {i j : Nat} (h : PermN n key) (hi : i < n) (hj : j < n) :
    PermN n (swapF key i j) := by
  have hσ : ∀ z, swapF key i j z = key (if z = i then j else if z = j then i else z) := by
    intro z; unfold swapF
    by_cases h1 : z = i
    · subst h1; simp
    · by_cases h2 : z = j
      · subst h2; simp [h1]
      · simp [h1, h2]
  have hb : ∀ z, z < n → (if z = i then j else if z = j then i else z) < n := by
    intro z hz
    by_cases h1 : z = i
    · subst h1; simpa using hj
    · by_cases h2 : z = j
      · subst h2; simpa [h1] using hi
      · simpa [h1, h2] using hz
  refine ⟨?_, ?_⟩
  · intro x hx
    rw [hσ x]; exact h.1 _ (hb x hx)
  · intro x y hx hy he
    rw [hσ x, hσ y] at he
    have := h.2 _ _ (hb x hx) (hb y hy) he
    split at this <;> (try split at this) <;> (try split at this) <;> (try split at this) <;> omega

def nf (n : Nat) (key : Nat → Nat) : Nat := ((List.range n).filter (fun x => key x != x)).length

theorem filter_lt {p q : Nat → Bool} : ∀ (l : List Nat), (∀ x ∈ l, q x = true → p x = true) →
    (∃ j ∈ l, p j = true ∧ q j = false) → (l.filter q).length < (l.filter p).length
  | [], _, h => by obtain ⟨j, hj, _⟩ := h; simp at hj
  | a :: as, hsub, ⟨j, hj, hpj, hqj⟩ => by
    have hle : ∀ (l : List Nat), (∀ x ∈ l, q x = true → p x = true) → (l.filter q).length ≤ (l.filter p).length := by
      intro l
      induction l with
      | nil => intro _; simp
      | cons b bs ih =>
        intro hs
        have := ih (fun x hx => hs x (by simp [hx]))
        simp only [List.filter_cons]
        cases hq : q b <;> cases hp : p b <;> simp <;> try omega
        have := hs b (by simp) hq; simp [hp] at this
    rcases List.mem_cons.mp hj with rfl | hj'
    · have := hle as (fun x hx => hsub x (by simp [hx]))
      simp only [List.filter_cons, hpj, hqj]
      simp; omega
    · have ih := filter_lt as (fun x hx => hsub x (by simp [hx])) ⟨j, hj', hpj, hqj⟩
      simp only [List.filter_cons]
      cases hq : q a <;> cases hp : p a <;> simp <;> try omega
      have := hsub a (by simp) hq; simp [hp] at this

/-- one swap fixes position `key i` and breaks no fixed point -/
theorem swap_decreases {n : Nat} {key : Nat → Nat} {i : Nat} (h : PermN n key) (hi : i < n) (hne : key i ≠ i) :
    nf n (swapF key i (key i)) < nf n key := by
  have hj := h.1 i hi
  apply filter_lt
  · intro x hx hq
    have hxn : x < n := List.mem_range.mp hx
    simp only [bne_iff_ne, ne_eq] at hq ⊢
    by_cases h1 : x = i
    · subst h1; exact hne
    · by_cases h2 : x = key i
      · exfalso
        have hval : swapF key i (key i) x = x := by
          unfold swapF; rw [if_neg h1, if_pos h2]; exact h2.symm
        exact hq hval
      · have hval : swapF key i (key i) x = key x := by
          unfold swapF; rw [if_neg h1, if_neg h2]
        rw [hval] at hq; exact hq
  · refine ⟨key i, List.mem_range.mpr hj, ?_, ?_⟩
    · simp only [bne_iff_ne, ne_eq]
      intro he
      have := h.2 (key i) i hj hi he
      exact hne this
    · simp [swapF]
      intro h1; simp [h1]

theorem inner_spec {V} {n : Nat} {R : Nat → V} : ∀ (f : Nat) (s : S V) (i : Nat), i < n → PermN n s.key → Arr n s R →
    nf n s.key ≤ f →
    let s' := inner f s i
    PermN n s'.key ∧ Arr n s' R ∧ s'.key i = i ∧ (∀ x, x < n → s.key x = x → s'.key x = x) ∧ nf n s'.key ≤ nf n s.key
  | 0, s, i, hi, hp, hr, hf => by
    simp only [inner]
    have hz : nf n s.key = 0 := by omega
    have : s.key i = i := by
      by_cases he : s.key i = i
      · exact he
      · exfalso
        have hmem : i ∈ (List.range n).filter (fun x => s.key x != x) := by
          simp [List.mem_filter, hi, he]
        have : 0 < nf n s.key := List.length_pos_of_mem hmem
        omega
    exact ⟨hp, hr, this, fun _ _ h => h, Nat.le_refl _⟩
  | f + 1, s, i, hi, hp, hr, hf => by
    simp only [inner]
    by_cases he : s.key i = i
    · rw [if_pos he]
      exact ⟨hp, hr, he, fun _ _ h => h, Nat.le_refl _⟩
    · rw [if_neg he]
      have hj := hp.1 i hi
      have hdec := swap_decreases hp hi he
      have hk : (s.swap i (s.key i)).key = swapF s.key i (s.key i) := rfl
      have ih := inner_spec f (s.swap i (s.key i)) i hi (by rw [hk]; exact swap_perm hp hi hj) (swap_repr hr hi hj)
        (by rw [hk]; omega)
      obtain ⟨h1, h2, h3, h4, h5⟩ := ih
      rw [hk] at h5
      refine ⟨h1, h2, h3, ?_, by omega⟩
      intro x hx hfx
      apply h4 x hx
      rw [hk]
      unfold swapF
      by_cases hx1 : x = i
      · subst hx1; exact absurd hfx he
      · by_cases hx2 : x = s.key i
        · exfalso
          have := hp.2 x i hx hi (by rw [hfx, hx2])
          exact hx1 this
        · rw [if_neg hx1, if_neg hx2]; exact hfx

#print axioms inner_spec

theorem nf_le (n : Nat) (key : Nat → Nat) : nf n key ≤ n := by
  unfold nf
  calc ((List.range n).filter _).length ≤ (List.range n).length := List.length_filter_le _ _
    _ = n := List.length_range

theorem outer_spec {V} {n : Nat} {R : Nat → V} : ∀ (k : Nat) (s : S V), k ≤ n → PermN n s.key → Arr n s R →
    (∀ x, x < n - k → s.key x = x) →
    let s' := outer n k s
    PermN n s'.key ∧ Arr n s' R ∧ ∀ x, x < n → s'.key x = x
  | 0, s, _, hp, hr, hfix => by
    simp only [outer]
    exact ⟨hp, hr, fun x hx => hfix x (by omega)⟩
  | k + 1, s, hk, hp, hr, hfix => by
    simp only [outer]
    have hi : n - (k + 1) < n := by omega
    obtain ⟨h1, h2, h3, h4, _⟩ := inner_spec (R := R) n s (n - (k + 1)) hi hp hr (nf_le n s.key)
    refine outer_spec k _ (by omega) h1 h2 ?_
    intro x hx
    by_cases hxe : x = n - (k + 1)
    · rw [hxe]; exact h3
    · exact h4 x (by omega) (hfix x (by omega))

/-- C10 core: after the cyclic reorder the base column lists the values in row order
    (`R` is the arrangement described by the row→value index before the reorder). -/
theorem reorder_correct {V} {n : Nat} {R : Nat → V} (s : S V) (hp : PermN n s.key) (hr : Arr n s R) :
    ∀ x, x < n → (outer n n s).val x = R x := by
  obtain ⟨_, h2, h3⟩ := outer_spec (R := R) n s (Nat.le_refl n) hp hr (by intro x hx; omega)
  intro x hx
  have := h2 x hx
  rw [h3 x hx] at this
  exact this.symm

#print axioms reorder_correct

end PqModel.Reorder
