namespace PqModel.RowsSeek

/-! # `rowGroupRows` (row_group.go): `rowIndex` bookkeeping of SeekToRow / ReadRows / Reset (C08)

The row reader keeps one value reader per column and remembers in `rowIndex` the row they stand
on, so that `SeekToRow(rowIndex)` is free. The model abstracts the columns to the row they all
stand on (`pos`) plus a ghost flag `torn` (a failed `ReadRows` advanced some columns only).

* MIRROR of the code before the repairs: `stepAsis`; of the repaired code (`Reset` resets
  `rowIndex`; a failed read is remembered in `err`, repeated by reads and repaired by the next
  seek): `stepFixed`.
* SPEC: `check` — the reference position is `some p`, or `none` between a failed read and the next
  seek / Reset; a read at `some p` returns rows `p..`, a read at `none` must fail.

`readFail` is a `ReadRows` call during which a column reader reports an error (for instance a
page whose checksum does not match); which calls fail is the environment's choice. -/

structure St where
  rowIndex : Int    -- r.rowIndex, -1 before the first read
  pos : Nat         -- the row the column readers stand on
  torn : Bool       -- ghost: the column readers stand on different rows
  failed : Bool     -- r.err != nil (repaired code only)
deriving Repr, DecidableEq

inductive Op where
  | seek (k : Nat)
  | read (n : Nat)
  | readFail
  | reset
deriving Repr, DecidableEq

inductive Out where
  | ok
  | rows (start len : Nat) (garbage : Bool)  -- ReadRows returned rows start..start+len-1 (or misaligned columns)
  | fail
deriving Repr, DecidableEq

def init : St := { rowIndex := -1, pos := 0, torn := false, failed := false }

/-- the healthy part of `ReadRows` (row_group.go `ReadRows`): first call seeks to 0, then rows are
    assembled from the column readers and `rowIndex` advances by what was returned -/
def readRows (total : Nat) (s : St) (n : Nat) : St × Out :=
  let s := if s.rowIndex < 0 then { s with rowIndex := 0, pos := 0, torn := false } else s
  let len := min n (total - s.pos)
  ({ s with rowIndex := s.rowIndex + len, pos := s.pos + len }, .rows s.pos len s.torn)

/-- MIRROR before the repairs -/
def stepAsis (total : Nat) (s : St) : Op → St × Out
  | .seek k => if (k : Int) ≠ s.rowIndex then ({ s with rowIndex := k, pos := k, torn := false }, .ok) else (s, .ok)
  | .read n => readRows total s n
  | .readFail => ({ s with torn := true }, .fail)
  | .reset => ({ s with pos := 0, torn := false }, .ok)

/-- MIRROR of the repaired code -/
def stepFixed (total : Nat) (s : St) : Op → St × Out
  | .seek k =>
    if (k : Int) ≠ s.rowIndex ∨ s.failed then ({ rowIndex := k, pos := k, torn := false, failed := false }, .ok) else (s, .ok)
  | .read n => if s.failed then (s, .fail) else readRows total s n
  | .readFail => if s.failed then (s, .fail) else ({ s with torn := true, failed := true }, .fail)
  | .reset => ({ rowIndex := 0, pos := 0, torn := false, failed := false }, .ok)

def outs (step : St → Op → St × Out) : St → List Op → List Out
  | _, [] => []
  | s, op :: ops => (step s op).2 :: outs step (step s op).1 ops

/-- SPEC: check a trace against the reference reader -/
def check (total : Nat) : Option Nat → List Op → List Out → Bool
  | _, [], [] => true
  | _, .seek k :: ops, .ok :: os => check total (some k) ops os
  | _, .reset :: ops, .ok :: os => check total (some 0) ops os
  | some p, .read n :: ops, .rows st len g :: os =>
    decide (st = p ∧ len = min n (total - p) ∧ g = false) && check total (some (p + len)) ops os
  | none, .read _ :: ops, .fail :: os => check total none ops os
  | _, .readFail :: ops, .fail :: os => check total none ops os
  | _, _, _ => false

/-- invariant tying the repaired reader to the reference position -/
def Rel (s : St) : Option Nat → Prop
  | none => s.failed = true
  | some p => s.failed = false ∧ s.torn = false ∧
      ((s.rowIndex < 0 ∧ p = 0) ∨ (s.rowIndex = (p : Int) ∧ s.pos = p))

/-- **every history of the repaired row reader is a run of the reference reader** -/
theorem fixed_refines (total : Nat) : ∀ (ops : List Op) (s : St) (r : Option Nat), Rel s r →
    check total r ops (outs (stepFixed total) s ops) = true
  | [], _, _, _ => rfl
  | op :: ops, s, r, h => by
    cases op with
    | seek k =>
      simp only [outs, stepFixed]
      split
      · simp only [check]
        exact fixed_refines total ops _ (some k) ⟨rfl, rfl, Or.inr ⟨rfl, rfl⟩⟩
      · rename_i hc
        simp only [check]
        apply fixed_refines total ops s (some k)
        have h1 : (k : Int) = s.rowIndex := by
          by_cases hk : (k : Int) = s.rowIndex
          · exact hk
          · exact absurd (Or.inl hk) hc
        have h2 : s.failed = false := by
          cases hf : s.failed with
          | false => rfl
          | true => exact absurd (Or.inr hf) hc
        cases r with
        | none => simp [Rel, h2] at h
        | some p =>
          obtain ⟨_, ht, h3⟩ := h
          rcases h3 with ⟨a, _⟩ | ⟨a, b⟩
          · omega
          · refine ⟨h2, ht, Or.inr ⟨h1.symm, ?_⟩⟩
            have : (k : Int) = (p : Int) := by omega
            omega
    | reset =>
      simp only [outs, stepFixed, check]
      exact fixed_refines total ops _ (some 0) ⟨rfl, rfl, Or.inr ⟨rfl, rfl⟩⟩
    | readFail =>
      simp only [outs, stepFixed]
      split
      · rename_i hf
        cases r <;> simp only [check] <;> exact fixed_refines total ops s none hf
      · cases r <;> simp only [check] <;> exact fixed_refines total ops _ none rfl
    | read n =>
      cases r with
      | none =>
        have hf : s.failed = true := h
        simp only [outs, stepFixed, hf, if_true, check]
        exact fixed_refines total ops s none hf
      | some p =>
        obtain ⟨hf, ht, h3⟩ := h
        simp only [outs, stepFixed, hf, Bool.false_eq_true, if_false, readRows]
        rcases h3 with ⟨a, rfl⟩ | ⟨a, b⟩
        · simp only [a, if_true, check, Bool.and_eq_true, decide_eq_true_eq]
          refine ⟨by simp, ?_⟩
          apply fixed_refines total ops _ (some (0 + min n (total - 0)))
          exact ⟨by simp [hf], by simp, Or.inr ⟨by simp, by simp⟩⟩
        · have hneg : ¬ s.rowIndex < 0 := by omega
          simp only [hneg, if_false, check, Bool.and_eq_true, decide_eq_true_eq]
          refine ⟨⟨b, by rw [b], ht⟩, ?_⟩
          rw [b]
          apply fixed_refines total ops _ (some (p + min n (total - p)))
          refine ⟨hf, ht, Or.inr ⟨by simp [a], by simp [b]⟩⟩

theorem init_rel : Rel init (some 0) := ⟨rfl, rfl, Or.inl ⟨by decide, rfl⟩⟩

/-- the reported histories on the mirror of the unchanged code (100 rows):
    read 5, Reset, SeekToRow(5), read → rows 0..4;
    a failed read, SeekToRow(rowIndex), read → misaligned columns returned as rows -/
def histReset : List Op := [.read 5, .reset, .seek 5, .read 5]
def histFail : List Op := [.read 5, .readFail, .seek 5, .read 1]

example : outs (stepAsis 100) init histReset = [.rows 0 5 false, .ok, .ok, .rows 0 5 false] := by decide
example : outs (stepFixed 100) init histReset = [.rows 0 5 false, .ok, .ok, .rows 5 5 false] := by decide
example : outs (stepAsis 100) init histFail = [.rows 0 5 false, .fail, .ok, .rows 5 1 true] := by decide
example : outs (stepFixed 100) init histFail = [.rows 0 5 false, .fail, .ok, .rows 5 1 false] := by decide

end PqModel.RowsSeek
