import PqModel.Async

/-! Invariants of the asyncPages transition system (all interleavings): version discipline,
    channel/close discipline, ownership of produced items. -/
namespace PqModel.Async

/-! ### lemmas on the loop body -/

theorem body_none {U l l'} (h : body U l = (l', none)) :
    l.ferr = none ∧ ∃ k, l.row = some k ∧ U.sk k = .ok ∧ l' = ⟨k, none, none⟩ := by
  unfold body at h
  rcases hf : l.ferr with _ | e
  · rcases hr : l.row with _ | k
    · rw [hf, hr] at h; simp only at h
      split at h <;> simp at h
    · rw [hf, hr] at h; simp only at h
      rcases hs : U.sk k with _ | c | c
      · rw [hs] at h; simp at h; exact ⟨rfl, k, rfl, hs, h.symm⟩
      · rw [hs] at h; simp at h
      · rw [hs] at h; simp at h
  · rw [hf] at h; simp at h

/-- after a `continue` the next iteration produces an output -/
theorem body_none_then_some {U l l'} (h : body U l = (l', none)) : ∃ l2 r, body U l' = (l2, some r) := by
  obtain ⟨_, k, _, _, rfl⟩ := body_none h
  unfold body
  simp only
  split <;> exact ⟨_, _, rfl⟩

/-- the offered result is a fatal error exactly when the sticky error is set -/
theorem body_fatal {U l l' r} (h : body U l = (l', some r)) (e : Nat) : r = .fatal e ↔ l'.ferr = some e := by
  unfold body at h
  split at h
  · rename_i e' hf; simp at h; obtain ⟨rfl, rfl⟩ := h; simp [hf]
  · rename_i hf
    split at h
    · split at h <;> simp at h
      · obtain ⟨rfl, rfl⟩ := h; simp [hf]
      · obtain ⟨rfl, rfl⟩ := h; simp
    · split at h <;> simp at h
      · obtain ⟨rfl, rfl⟩ := h; simp [hf]
      · obtain ⟨rfl, rfl⟩ := h; simp [hf]
      · obtain ⟨rfl, rfl⟩ := h; simp

/-- the sticky error never goes away -/
theorem body_ferr_mono {U l l' o e} (h : body U l = (l', o)) (hf : l.ferr = some e) : l'.ferr = some e := by
  unfold body at h
  rw [hf] at h
  simp at h
  rw [← h.1]; exact hf

theorem lsRead_ferr_mono {U l e} (hf : l.ferr = some e) : (lsRead U l).1.ferr = some e := by
  unfold lsRead
  split
  · rename_i h; exact body_ferr_mono h hf
  · rename_i l1 h
    have h1 := body_ferr_mono h hf
    split
    · rename_i h2; exact body_ferr_mono h2 h1
    · rename_i h2; exact body_ferr_mono h2 h1

/-! ### control invariant -/

/-- version, channel and close discipline -/
structure Ctl (g : G) : Prop where
  ver_le : g.pver ≤ g.cver
  ch : ∀ k v, g.seekCh = some (k, v) → v = g.cver ∧ g.pver < g.cver ∧ g.cpc ≠ .seekMid
  mid : g.cpc = .seekMid → g.seekCh = none ∧ g.pver < g.cver
  cur : g.seekCh = none → g.cpc ≠ .seekMid → g.pver = g.cver
  send_ver : ∀ it, g.ppc = .send it → it.ver = g.pver
  got_ver : ∀ it, g.cpc = .got it → it.ver ≤ g.pver
  done_c : g.doneClosed = true → g.cpc = .closing ∨ g.cpc = .closed
  closing_done : g.cpc = .closing ∨ g.cpc = .closed → g.doneClosed = true ∧ g.initClosed = true
  fin_done : g.ppc = .final ∨ g.ppc = .exited → g.doneClosed = true
  rd_init : (g.cpc = .reading ∨ ∃ it, g.cpc = .got it) → g.initClosed = true
  closed_exit : g.cpc = .closed → g.ppc = .exited
  start_ver : g.ppc = .waitInit ∨ g.ppc = .poll → g.pver = 0 ∧ g.loc = ⟨0, none, none⟩
  send_id : ∀ it, g.ppc = .send it → it.id < g.nprod

theorem ctl_init : Ctl init := by
  constructor <;> simp [init]

theorem ctl_step {U g e g'} (hi : Ctl g) (h : Step U g e g') : Ctl g' := by
  obtain ⟨h1, h2, h3, h4, h5, h6, h7, h8, h9, h10, h11, h12, h13⟩ := hi
  cases h <;> constructor <;> grind

theorem ctl_reachable {U g} (h : Reachable U g) : Ctl g :=
  reachable_induction (P := Ctl) ctl_init (fun _ _ _ hi hs => ctl_step hi hs) g h

end PqModel.Async
