/-! # The value-level inner loop of `rowGroupRows.ReadRows` (C08)

`ReaderSeek.lean` counts rows per page. Here is what happens underneath, for one column
(row_group.go:311-362): values arrive from `columnChunkValueReader.ReadValues` in batches — cut
wherever a page or the value buffer (`bufsize`) ends, possibly in the middle of a row — and the
loop over `rows` rebuilds rows from repetition levels: the first value of a row is taken
unconditionally (`numValuesInRow := 1`), the following ones as long as their repetition level is
not 0, across as many refills as it takes (`numValuesInRow = 0` on the continuation batches).

* MIRROR: `cont`/`scan` (the `for numValuesInRow < len(values) && ...` loop), `refill`
  (`if c.offset == c.length { ReadValues }`), `rowLoop` (the `for { }` of one row), `colRows`
  (the `for rowIndex := range rows` of one column), `rowCount`.
* SPEC: a column is a list of rows, each a value of repetition level 0 followed by values of
  non-zero level (`RowWF`); reading `n` rows must deliver the first `n` of them, whatever the
  batching.

Not modelled: a failing `ReadValues` (covered at row granularity by `ReaderSeek.colRead`), the
concatenation of the columns' values into one `Row` (an append per column, in column order). -/
namespace PqModel.ReadRowsValues

variable {α : Type} (rep : α → Nat)

/-- a column's value reader: `buf` = `b[c.offset:c.length]`, `src` = what the following
    `ReadValues` calls will deliver (then `(0, io.EOF)`) -/
structure ColV (α : Type) where
  buf : List α
  src : List (List α)

/-- the values the column will still deliver -/
def ColV.stream (c : ColV α) : List α := c.buf ++ c.src.flatten

/-- MIRROR of `for n < len(values) && values[n].repetitionLevel != 0 { n++ }` (row_group.go:342-344),
    counted from the front of `values[n:]` -/
def cont : List α → Nat
  | [] => 0
  | v :: vs => if rep v = 0 then 0 else cont vs + 1

def scan (values : List α) (nv : Nat) : Nat := nv + cont rep (values.drop nv)

/-- MIRROR of `if c.offset == c.length { n, err := c.reader.ReadValues(b); ... }`
    (row_group.go:325-339); `none`: `n == 0 && err == io.EOF` -/
def refill (c : ColV α) : Option (ColV α) :=
  match c.buf with
  | [] =>
    match c.src with
    | [] => none
    | b :: rest => some ⟨b, rest⟩
  | _ :: _ => some c

/-- MIRROR of the `for { }` that assembles one row of one column (row_group.go:324-360):
    `(column, values appended to the row, eof)`; `nv` is `numValuesInRow` on entry (1, then 0) -/
def rowLoop : Nat → ColV α → Nat → List α → ColV α × List α × Bool
  | 0, c, _, acc => (c, acc, false)
  | fuel + 1, c, nv, acc =>
    match refill c with
    | none => (c, acc, true)
    | some c1 =>
      if scan rep c1.buf nv = 0 then (c1, acc, false)
      else if scan rep c1.buf nv ≠ c1.buf.length then
        (⟨c1.buf.drop (scan rep c1.buf nv), c1.src⟩, acc ++ c1.buf.take (scan rep c1.buf nv), false)
      else rowLoop fuel ⟨[], c1.src⟩ 0 (acc ++ c1.buf.take (scan rep c1.buf nv))

/-- MIRROR of `for rowIndex := range rows` for one column: what is appended to each of the `n` rows -/
def colRows : Nat → ColV α → ColV α × List (List α)
  | 0, c => (c, [])
  | n + 1, c =>
    ((colRows n (rowLoop rep (c.src.length + 2) c 1 []).1).1,
     (rowLoop rep (c.src.length + 2) c 1 []).2.1 :: (colRows n (rowLoop rep (c.src.length + 2) c 1 []).1).2)

/-- MIRROR of `rowCount = max(rowCount, rowIndex+1)`, executed whenever values are appended to
    `rows[rowIndex]`: one more than the last index that received something -/
def rowCount : List (List α) → Nat
  | [] => 0
  | r :: rs => if rowCount rs = 0 then (if r = [] then 0 else 1) else rowCount rs + 1

/-! ### SPEC side -/

/-- a row of a column: a value with repetition level 0, then values with non-zero levels -/
def RowWF (r : List α) : Prop := ∃ v t, r = v :: t ∧ rep v = 0 ∧ ∀ x ∈ t, rep x ≠ 0

/-- what follows a complete row: nothing, or the first value of the next row -/
def StartsRow (l : List α) : Prop := ∀ v tl, l = v :: tl → rep v = 0

theorem startsRow_flatten (rows : List (List α)) (h : ∀ r ∈ rows, RowWF rep r) : StartsRow rep rows.flatten := by
  intro v tl hl
  cases rows with
  | nil => simp at hl
  | cons r rs =>
    obtain ⟨v', t, rfl, hv, _⟩ := h r (by simp)
    simp at hl
    rw [← hl.1]; exact hv

/-! ### lemmas on the scan -/

theorem cont_all (t rest : List α) (ht : ∀ x ∈ t, rep x ≠ 0) : cont rep (t ++ rest) = t.length + cont rep rest := by
  induction t with
  | nil => simp
  | cons x t ih =>
    have hx : rep x ≠ 0 := ht x (by simp)
    simp only [List.cons_append, cont, hx, if_false, List.length_cons]
    rw [ih (fun y hy => ht y (by simp [hy]))]
    omega

theorem cont_stop (l : List α) (h : StartsRow rep l) : cont rep l = 0 := by
  cases l with
  | nil => rfl
  | cons v tl => simp [cont, h v tl rfl]

/-- one pass of the body on a non-empty buffer `B = h ++ B'` whose stream continues the row with
    `t`: either the row ends inside the buffer, or the whole buffer belongs to it -/
theorem scan_split (B' X t tail : List α) (nv : Nat) (hd : List α) (hnv : hd.length = nv)
    (hs : B' ++ X = t ++ tail) (ht : ∀ x ∈ t, rep x ≠ 0) (htail : StartsRow rep tail) :
    (t.length < B'.length ∧ scan rep (hd ++ B') nv = nv + t.length ∧ B' = t ++ B'.drop t.length ∧
      tail = B'.drop t.length ++ X) ∨
    (∃ t2, t = B' ++ t2 ∧ X = t2 ++ tail ∧ scan rep (hd ++ B') nv = nv + B'.length) := by
  have hdrop : (hd ++ B').drop nv = B' := by rw [← hnv]; simp
  rcases List.append_eq_append_iff.mp hs with ⟨a', h1, h2⟩ | ⟨c', h1, h2⟩
  · -- t = B' ++ a'
    right
    refine ⟨a', h1, h2, ?_⟩
    simp only [scan, hdrop]
    have := cont_all rep B' [] (fun x hx => ht x (by rw [h1]; simp [hx]))
    simp only [List.append_nil, cont, Nat.add_zero] at this
    rw [this]
  · -- B' = t ++ c'
    cases c' with
    | nil =>
      right
      simp only [List.append_nil] at h1
      refine ⟨[], by simp [h1], by simpa using h2.symm, ?_⟩
      simp only [scan, hdrop]
      have := cont_all rep t [] ht
      simp only [List.append_nil, cont, Nat.add_zero] at this
      rw [h1, this]
    | cons c0 cs =>
      left
      have hlen : t.length < B'.length := by rw [h1]; simp
      have hdr : B'.drop t.length = c0 :: cs := by rw [h1]; simp
      refine ⟨hlen, ?_, by rw [hdr]; exact h1, by rw [hdr]; exact h2⟩
      simp only [scan, hdrop]
      rw [h1, cont_all rep t (c0 :: cs) ht]
      have : StartsRow rep (c0 :: cs) := by
        intro v tl hv
        exact htail v (tl ++ X) (by rw [h2, hv]; simp)
      rw [cont_stop rep _ this]
      omega

/-! ### one row -/

/-- nothing left: the loop reports EOF and appends nothing -/
theorem rowLoop_eof (fuel : Nat) (c : ColV α) (nv : Nat) (acc : List α) (h : c.stream = [])
    (hne : ∀ b ∈ c.src, b ≠ []) :
    rowLoop rep (fuel + 1) c nv acc = (c, acc, true) := by
  simp only [ColV.stream, List.append_eq_nil_iff, List.flatten_eq_nil_iff] at h
  obtain ⟨hb, hsrc⟩ := h
  simp only [rowLoop, refill, hb]
  cases hs : c.src with
  | nil => rfl
  | cons b rest => exact absurd (hsrc b (by simp [hs])) (hne b (by simp [hs]))

/-- the loop of one row: the column's stream is `hd ++ t ++ tail` with `hd` the `nv ≤ 1` values
    taken unconditionally, `t` continuation values, and `tail` starting a row (or empty); the loop
    appends exactly `hd ++ t` and leaves the column on `tail`, whatever the batching -/
theorem rowLoop_spec : ∀ (fuel : Nat) (c : ColV α) (hd t tail acc : List α),
    c.stream = hd ++ t ++ tail → hd.length ≤ 1 → (∀ x ∈ t, rep x ≠ 0) → StartsRow rep tail →
    (∀ b ∈ c.src, b ≠ []) → c.src.length + (if c.buf = [] then 1 else 2) ≤ fuel →
    (rowLoop rep fuel c hd.length acc).2.1 = acc ++ hd ++ t ∧
    (rowLoop rep fuel c hd.length acc).1.stream = tail ∧
    (∀ b ∈ (rowLoop rep fuel c hd.length acc).1.src, b ≠ []) ∧
    (rowLoop rep fuel c hd.length acc).1.src.length ≤ c.src.length ∧
    ((rowLoop rep fuel c hd.length acc).2.2 = true → tail = [])
  | 0, c, _, _, _, _, _, _, _, _, _, hf => by split at hf <;> omega
  | fuel + 1, c, hd, t, tail, acc, hs, hh, ht, htail, hne, hf => by
    -- the refilled column: same stream, non-empty buffer (or EOF)
    cases hr : refill c with
    | none =>
      have hb : c.buf = [] ∧ c.src = [] := by
        unfold refill at hr
        cases hb : c.buf with
        | nil =>
          cases hsr : c.src with
          | nil => exact ⟨rfl, rfl⟩
          | cons b rest => simp [hb, hsr] at hr
        | cons _ _ => simp [hb] at hr
      have hst : c.stream = [] := by simp [ColV.stream, hb.1, hb.2]
      rw [hst] at hs
      have h3 : hd = [] ∧ t = [] ∧ tail = [] := by
        have := congrArg List.length hs
        simp at this
        refine ⟨List.eq_nil_of_length_eq_zero (by omega), List.eq_nil_of_length_eq_zero (by omega),
          List.eq_nil_of_length_eq_zero (by omega)⟩
      obtain ⟨rfl, rfl, rfl⟩ := h3
      simp only [rowLoop, hr]
      exact ⟨by simp, hst, hne, Nat.le_refl _, by simp⟩
    | some c1 =>
      have hc1 : c1.stream = c.stream ∧ c1.buf ≠ [] ∧ (∀ b ∈ c1.src, b ≠ []) ∧
          c1.src.length + 2 ≤ fuel + 1 ∧ c1.src.length ≤ c.src.length := by
        unfold refill at hr
        cases hb : c.buf with
        | nil =>
          cases hsr : c.src with
          | nil => simp [hb, hsr] at hr
          | cons b rest =>
            simp only [hb, hsr, Option.some.injEq] at hr
            subst hr
            refine ⟨by simp [ColV.stream, hb, hsr], hne b (by simp [hsr]), fun b' hb' => hne b' (by simp [hsr, hb']), ?_, ?_⟩
            · simp only [hb, hsr, if_true, List.length_cons] at hf ⊢; omega
            · simp [hsr]
        | cons x xs =>
          simp only [hb, Option.some.injEq] at hr
          subst hr
          refine ⟨rfl, by simp [hb], hne, ?_, Nat.le_refl _⟩
          simp only [hb] at hf
          simpa using hf
      obtain ⟨hst, hB, hne1, hf1, hle1⟩ := hc1
      -- the buffer is `hd ++ B'`
      have hsplit : ∃ B', c1.buf = hd ++ B' ∧ B' ++ c1.src.flatten = t ++ tail := by
        rw [← hst, ColV.stream] at hs
        match hd, hh with
        | [], _ => exact ⟨c1.buf, by simp, by simpa using hs⟩
        | [v], _ =>
          cases hb1 : c1.buf with
          | nil => exact absurd hb1 hB
          | cons b0 B'' =>
            rw [hb1] at hs
            simp only [List.cons_append, List.nil_append, List.cons.injEq, List.append_assoc] at hs
            exact ⟨B'', by rw [hs.1]; rfl, hs.2⟩
        | _ :: _ :: _, hh => simp at hh
      obtain ⟨B', hbuf, hrest⟩ := hsplit
      simp only [rowLoop, hr]
      rcases scan_split rep B' c1.src.flatten t tail hd.length hd rfl hrest ht htail with
        ⟨hlt, hsc, hB', htl⟩ | ⟨t2, ht2, hX, hsc⟩
      · -- the row ends inside the buffer
        rw [hbuf, hsc]
        by_cases h0 : hd.length + t.length = 0
        · have hd0 : hd = [] := List.eq_nil_of_length_eq_zero (by omega)
          have t0 : t = [] := List.eq_nil_of_length_eq_zero (by omega)
          subst hd0; subst t0
          simp only [List.length_nil, Nat.add_zero, if_true]
          refine ⟨by simp, ?_, hne1, hle1, fun h => by cases h⟩
          rw [hst, hs]; simp
        · rw [if_neg h0]
          have hne' : hd.length + t.length ≠ (hd ++ B').length := by simp; omega
          rw [if_pos hne']
          simp only []
          refine ⟨?_, ?_, hne1, hle1, fun h => by cases h⟩
          · rw [List.take_append, show hd.length + t.length - hd.length = t.length by omega,
              List.take_of_length_le (by omega)]
            rw [hB']; simp [List.append_assoc]
          · simp only [ColV.stream]
            rw [List.drop_append, show hd.length + t.length - hd.length = t.length by omega,
              List.drop_eq_nil_of_le (by omega)]
            rw [htl]; simp
      · -- the whole buffer belongs to the row: go on with the next batch
        rw [hbuf, hsc]
        have h0 : hd.length + B'.length ≠ 0 := by
          have : (hd ++ B').length ≠ 0 := by
            rw [← hbuf]
            intro h; exact hB (List.eq_nil_of_length_eq_zero h)
          simpa using this
        rw [if_neg h0]
        have heq : ¬ (hd.length + B'.length ≠ (hd ++ B').length) := by simp
        rw [if_neg heq]
        have hrec := rowLoop_spec fuel ⟨[], c1.src⟩ [] t2 tail
          (acc ++ (hd ++ B').take (hd.length + B'.length))
          (by simp [ColV.stream, hX]) (by simp) (fun x hx => ht x (by rw [ht2]; simp [hx])) htail hne1
          (by simp only [if_true]; omega)
        simp only [List.length_nil] at hrec
        obtain ⟨r1, r2, r3, r4, r5⟩ := hrec
        refine ⟨?_, r2, r3, Nat.le_trans r4 hle1, r5⟩
        rw [r1, List.take_of_length_le (by simp), ht2]
        simp [List.append_assoc]

/-- **read_row.** A column standing at the beginning of the rows `r :: rs` (its remaining stream
    is their concatenation, delivered in any batches): the loop appends exactly `r`, and leaves
    the column at the beginning of `rs`. -/
theorem read_row (c : ColV α) (r : List α) (rs : List (List α)) (hr : RowWF rep r) (hrs : ∀ x ∈ rs, RowWF rep x)
    (hs : c.stream = (r :: rs).flatten) (hne : ∀ b ∈ c.src, b ≠ []) :
    (rowLoop rep (c.src.length + 2) c 1 []).2.1 = r ∧
    (rowLoop rep (c.src.length + 2) c 1 []).1.stream = rs.flatten ∧
    (∀ b ∈ (rowLoop rep (c.src.length + 2) c 1 []).1.src, b ≠ []) := by
  obtain ⟨v, t, rfl, _, ht⟩ := hr
  have := rowLoop_spec rep (c.src.length + 2) c [v] t rs.flatten []
    (by rw [hs]; simp) (by simp) ht (startsRow_flatten rep rs hrs) hne (by split <;> omega)
  obtain ⟨a, b, c', _, _⟩ := this
  exact ⟨by simpa using a, b, c'⟩

/-! ### `n` rows -/

theorem rowCount_replicate (k : Nat) : rowCount (List.replicate k ([] : List α)) = 0 := by
  induction k with
  | zero => rfl
  | succ k ih => simp [List.replicate_succ, rowCount, ih]

theorem rowCount_rows (rows : List (List α)) (k : Nat) (h : ∀ r ∈ rows, r ≠ []) :
    rowCount (rows ++ List.replicate k []) = rows.length := by
  induction rows with
  | nil => simpa using rowCount_replicate k
  | cons r rs ih =>
    have ih' := ih (fun x hx => h x (by simp [hx]))
    simp only [List.cons_append, rowCount, ih', List.length_cons]
    split
    · rename_i h0
      simp [h r (by simp), h0]
    · rfl

/-- **read_rows_values.** For every column whose remaining values are the rows `rows` (each a
    value of repetition level 0 followed by values of non-zero levels), cut into non-empty batches
    in any way — page ends, a value buffer of any size, rows spanning several batches —, the loop
    over `n` rows appends to `rows[i]` exactly the `i`-th row for `i < min n |rows|` and nothing
    to the others, counts `min n |rows|` rows, and leaves the column at the beginning of the
    first row it has not delivered. -/
theorem read_rows_values : ∀ (n : Nat) (c : ColV α) (rows : List (List α)), (∀ r ∈ rows, RowWF rep r) →
    c.stream = rows.flatten → (∀ b ∈ c.src, b ≠ []) →
    (colRows rep n c).2 = rows.take n ++ List.replicate (n - rows.length) [] ∧
    rowCount (colRows rep n c).2 = min n rows.length ∧
    (colRows rep n c).1.stream = (rows.drop n).flatten ∧ (∀ b ∈ (colRows rep n c).1.src, b ≠ [])
  | 0, c, rows, _, hs, hne => ⟨by simp [colRows], by simp [colRows, rowCount], by simpa [colRows] using hs, hne⟩
  | n + 1, c, [], _, hs, hne => by
    have hst : c.stream = [] := by simpa using hs
    have h1 : rowLoop rep (c.src.length + 2) c 1 [] = (c, [], true) := rowLoop_eof rep _ c 1 [] hst hne
    obtain ⟨a, _, c', d⟩ := read_rows_values n c [] (by simp) hs hne
    simp only [colRows, h1]
    refine ⟨?_, ?_, by simpa using c', d⟩
    · rw [a]; simp [List.replicate_succ]
    · have : (colRows rep n c).2 = List.replicate n [] := by rw [a]; simp
      simp [rowCount, this, rowCount_replicate]
  | n + 1, c, r :: rs, hwf, hs, hne => by
    obtain ⟨a1, a2, a3⟩ := read_row rep c r rs (hwf r (by simp)) (fun x hx => hwf x (by simp [hx])) hs hne
    obtain ⟨b1, b2, b3, b4⟩ := read_rows_values n (rowLoop rep (c.src.length + 2) c 1 []).1 rs
      (fun x hx => hwf x (by simp [hx])) a2 a3
    simp only [colRows]
    refine ⟨?_, ?_, by simpa using b3, b4⟩
    · rw [a1, b1]; simp
    · rw [a1, b1]
      have hne' : ∀ x ∈ r :: rs.take n, x ≠ [] := by
        intro x hx
        have : x ∈ r :: rs := by
          simp at hx ⊢
          rcases hx with h | h
          · exact Or.inl h
          · exact Or.inr (List.mem_of_mem_take h)
        obtain ⟨v, t, rfl, _, _⟩ := hwf x this
        simp
      have := rowCount_rows (r :: rs.take n) (n - rs.length) hne'
      simp only [List.cons_append] at this
      rw [this]
      simp [List.length_take] <;> omega

/-! ### witnesses -/

/-- rows `[0,1,1] [0] [0,1]` (repetition levels) delivered as `[0,1] [1,0,0] [1]`: rows span batches -/
def demo : ColV Nat := { buf := [], src := [[0, 1], [1, 0, 0], [1]] }

example : (colRows id 2 demo).2 = [[0, 1, 1], [0]] := by decide
example : (colRows id 5 demo).2 = [[0, 1, 1], [0], [0, 1], [], []] := by decide
example : rowCount (colRows id 5 demo).2 = 3 := by decide
example : ∀ r ∈ [[0, 1, 1], [0], [0, 1]], RowWF id r := by
  intro r hr
  simp at hr
  rcases hr with rfl | rfl | rfl
  · exact ⟨0, [1, 1], rfl, rfl, by decide⟩
  · exact ⟨0, [], rfl, rfl, by decide⟩
  · exact ⟨0, [1], rfl, rfl, by decide⟩

end PqModel.ReadRowsValues
