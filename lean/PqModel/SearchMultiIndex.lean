import PqModel.SearchMulti
import PqModel.SearchPages

/-! # `multiColumnIndex` / `multiOffsetIndex` (multi_row_group.go): every accessor, every `int` page number

`SearchMulti.lean` mirrors what `Find` reads of a `multiColumnIndex` (NullPage / MinValue / MaxValue for the page
numbers `0 .. NumPages()-1`, the recomputed order flags). This file adds the rest of the two index views:

* MIRROR `mapIdx` / `mapIdxGo`: `mapPageIndex` as the Go code computes it — the member NUMBER and the local page
  for ANY `int` page number (negative and past-the-end numbers take the fallback branch), shared by
  `multiColumnIndex.mapPageIndex` and `multiOffsetIndex.mapPageIndex` (two copies of the same loop);
* MIRROR `multiAt`: an accessor that forwards to the member (`NullCount`, `NullPage`, `MinValue`, `MaxValue`,
  `Offset`, `CompressedPageSize`); `none` = the member is asked for a page it does not have (the file-backed
  indexes panic with an index out of range);
* MIRROR `rowOffsetsFrom` / `multiFirstRowAt`: `multiOffsetIndex.FirstRowIndex` = the member's local first row plus
  the cumulative row count of the members before it;
* SPEC: `List.flatten` of the member lists; `shiftedRows` (each member's first-row list shifted by the rows before it).

Theorems: the accessors read the concatenation for every in-range page and any number of members, empty ones
included (`multiAt_flatten`, `multiFirstRowAt_shifted`), the fallback answer for every other `int`
(`multiAt_fallback`), the shifted first rows are sorted when every member's are (`shiftedRows_sorted`), and the
`Find` theorems of `SearchMulti.lean` without the "a member that claims ASCENDING has a page" hypothesis
(`multiAscending_sound_any`, `findMulti_no_miss_any`), per member (`findMulti_no_miss_member`) and from the values of
the members' pages (`findMulti_no_miss_values`). -/
namespace PqModel.Search

/-! ### MIRROR: `mapPageIndex` -/

/-- multi_row_group.go:351-356 (`multiColumnIndex.mapPageIndex`) = :507-512 (`multiOffsetIndex.mapPageIndex`):
    `for i := range len(m.offsets)-1 { if pageIndex >= m.offsets[i] && pageIndex < m.offsets[i+1] { return i, pageIndex - m.offsets[i] } }`
    with `offsets[i+1] = offsets[i] + indexes[i].NumPages()` (:220-224, :247-251). `ns` = the page counts of the
    members from number `i` on, `off` = `offsets[i]`. -/
def mapIdx : List Nat → Nat → Nat → Int → Option (Nat × Nat)
  | [], _, _, _ => none
  | n :: ns, i, off, p =>
    if (off : Int) ≤ p ∧ p < ((off + n : Nat) : Int) then some (i, (p - (off : Int)).toNat)
    else mapIdx ns (i + 1) (off + n) p

/-- multi_row_group.go:351-366 / :507-522 with the out-of-bounds branch: "return last valid position" = the last
    page of the LAST member when that member has a page, else `(0, 0)` -/
def mapIdxGo (ns : List Nat) (p : Int) : Nat × Nat :=
  match mapIdx ns 0 0 p with
  | some r => r
  | none => if 0 < ns.length ∧ 0 < ns.getLastD 0 then (ns.length - 1, ns.getLastD 0 - 1) else (0, 0)

/-- multi_row_group.go:368-386, :524-532 `m.indexes[chunkIndex].X(localIndex)`; `ls` = what accessor `X` answers
    for the pages of each member (`NumPages()` of a member = the length of its list); `none` = out of range in the
    member -/
def multiAt {α} (ls : List (List α)) (p : Int) : Option α :=
  let r := mapIdxGo (ls.map List.length) p
  (ls.getD r.1 [])[r.2]?

/-- multi_row_group.go:258-267: `rowOffsets[i+1] = rowOffsets[i] + numRows(i)`; `acc` = `rowOffsets[i]` -/
def rowOffsetsFrom : Int → List Int → List Int
  | acc, [] => [acc]
  | acc, n :: ns => acc :: rowOffsetsFrom (acc + n) ns

/-- multi_row_group.go:534-538 `FirstRowIndex`: `m.rowOffsets[chunkIndex] + m.indexes[chunkIndex].FirstRowIndex(localIndex)`
    (`int64` additions are modelled on `Int`: no wraparound) -/
def multiFirstRowAt (rows : List (List Int)) (numRows : List Int) (p : Int) : Option Int :=
  let r := mapIdxGo (rows.map List.length) p
  ((rows.getD r.1 [])[r.2]?).map (fun x => (rowOffsetsFrom 0 numRows).getD r.1 0 + x)

/-! ### SPEC -/

/-- each member's first-row list shifted by the number of rows of the members before it, one after the other -/
def shiftedRows : List (List Int) → List Int → Int → List Int
  | [], _, _ => []
  | r :: rs, ns, acc => r.map (acc + ·) ++ shiftedRows rs ns.tail (acc + ns.headD 0)

/-! ### the lookup reads the concatenation -/

theorem mapIdx_flatten {α} : ∀ (ls : List (List α)) (i off p : Nat), p < ls.flatten.length →
    ∃ k l, mapIdx (ls.map List.length) i off ((off + p : Nat) : Int) = some (i + k, l) ∧
      k < ls.length ∧ (ls.getD k [])[l]? = ls.flatten[p]?
  | [], _, _, p, hp => by simp at hp
  | a :: ls, i, off, p, hp => by
    by_cases hlt : p < a.length
    · refine ⟨0, p, ?_, by simp, ?_⟩
      · simp only [List.map_cons, mapIdx]
        rw [if_pos ⟨by omega, by omega⟩]
        simp only [Nat.add_zero, Option.some.injEq, Prod.mk.injEq, true_and]
        omega
      · simp only [List.getD_cons_zero, List.flatten_cons]
        rw [List.getElem?_append_left hlt]
    · simp only [List.flatten_cons, List.length_append] at hp
      obtain ⟨k, l, h1, h2, h3⟩ := mapIdx_flatten ls (i + 1) (off + a.length) (p - a.length) (by omega)
      refine ⟨k + 1, l, ?_, by simp only [List.length_cons]; omega, ?_⟩
      · simp only [List.map_cons, mapIdx]
        rw [if_neg (by omega)]
        have e : off + a.length + (p - a.length) = off + p := by omega
        rw [e] at h1
        rw [h1]
        simp only [Option.some.injEq, Prod.mk.injEq, and_true]
        omega
      · simp only [List.getD_cons_succ, List.flatten_cons]
        rw [h3, List.getElem?_append_right (by omega)]

/-- MIRROR = SPEC for every forwarding accessor: for a page number in range the answer is the entry of the
    concatenation of the members' lists — any number of members, members without pages included. -/
theorem multiAt_flatten {α} (ls : List (List α)) (p : Nat) (hp : p < ls.flatten.length) :
    multiAt ls (p : Int) = ls.flatten[p]? := by
  obtain ⟨k, l, h1, _, h3⟩ := mapIdx_flatten ls 0 0 p hp
  simp only [Nat.zero_add] at h1
  simp only [multiAt, mapIdxGo, h1]
  exact h3

theorem mapIdx_none : ∀ (ns : List Nat) (i off : Nat) (p : Int), (p < (off : Int) ∨ ((off + ns.sum : Nat) : Int) ≤ p) →
    mapIdx ns i off p = none
  | [], _, _, _, _ => rfl
  | n :: ns, i, off, p, h => by
    simp only [mapIdx]
    simp only [List.sum_cons] at h
    rw [if_neg (by omega)]
    exact mapIdx_none ns (i + 1) (off + n) p (by omega)

theorem length_flatten_eq_sum {α} (ls : List (List α)) : ls.flatten.length = (ls.map List.length).sum := by
  induction ls with
  | nil => rfl
  | cons a ls ih => simp [ih]

/-- The out-of-bounds branch, for every other `int` (negative, `NumPages()` and beyond): the last page of the last
    member if that member has one; otherwise page 0 of member 0 — NOT the last page of the multi index when only
    the trailing members are empty (`fallback_not_last_page`). -/
theorem multiAt_fallback {α} (ls : List (List α)) (p : Int) (hp : p < 0 ∨ (ls.flatten.length : Int) ≤ p) :
    multiAt ls p = if ls.getLastD [] ≠ [] then (ls.getLastD []).getLast? else (ls.headD [])[0]? := by
  have hnone : mapIdx (ls.map List.length) 0 0 p = none :=
    mapIdx_none _ 0 0 p (by rw [length_flatten_eq_sum] at hp; simpa using hp)
  simp only [multiAt, mapIdxGo, hnone]
  cases hl : ls.getLast? with
  | none =>
    have : ls = [] := by simpa using hl
    subst this
    simp
  | some a =>
    have hne : ls ≠ [] := by intro h; subst h; simp at hl
    have hlast : ls.getLastD [] = a := by simp [List.getLastD_eq_getLast?, hl]
    have hmap : (ls.map List.length).getLastD 0 = a.length := by
      simp [List.getLastD_eq_getLast?, List.getLast?_map, hl]
    have hlen : 0 < ls.length := List.length_pos_iff.mpr hne
    rw [hlast, hmap]
    by_cases ha : a = []
    · subst ha
      simp only [List.length_nil, Nat.lt_irrefl, and_false, if_false, ne_eq, not_true_eq_false]
      cases ls with
      | nil => exact absurd rfl hne
      | cons b t => simp
    · have hpos : 0 < a.length := List.length_pos_iff.mpr ha
      simp only [List.length_map, hlen, hpos, and_self, if_true, ne_eq, ha, not_false_eq_true]
      have hget : ls.getD (ls.length - 1) [] = a := by
        rw [List.getD_eq_getElem?_getD, ← List.getLast?_eq_getElem?, hl]
        rfl
      rw [hget, List.getLast?_eq_getElem?]

/-- (pages a, b) (no page): `NumPages()` = 2, and the accessor asked for page 2 (or -1) answers page 0 (`a`), not
    the last valid page `b`; with (no page) (a) (no page) it asks member 0 for a page it does not have -/
theorem fallback_not_last_page :
    multiAt [[10, 20], ([] : List Nat)] 2 = some 10 ∧ multiAt [[10, 20], ([] : List Nat)] (-1) = some 10 ∧
    multiAt [[10, 20]] 2 = some 20 ∧ multiAt [([] : List Nat), [10], []] 1 = none := by decide

/-! ### `FirstRowIndex` -/

theorem rowOffsetsFrom_getD : ∀ (ns : List Int) (acc : Int) (k : Nat), k ≤ ns.length →
    (rowOffsetsFrom acc ns).getD k 0 = acc + (ns.take k).sum
  | [], _, 0, _ => by simp [rowOffsetsFrom]
  | _ :: _, _, 0, _ => by simp [rowOffsetsFrom]
  | [], _, k + 1, h => by simp at h
  | n :: ns, acc, k + 1, h => by
    simp only [rowOffsetsFrom, List.getD_cons_succ, List.take_succ_cons, List.sum_cons]
    rw [rowOffsetsFrom_getD ns (acc + n) k (by simpa using h)]
    omega

theorem mapIdx_shifted : ∀ (rows : List (List Int)) (ns : List Int) (i off p : Nat) (acc : Int),
    ns.length = rows.length → p < rows.flatten.length →
    ∃ k l x, mapIdx (rows.map List.length) i off ((off + p : Nat) : Int) = some (i + k, l) ∧ k ≤ ns.length ∧
      (rows.getD k [])[l]? = some x ∧ (shiftedRows rows ns acc)[p]? = some (acc + (ns.take k).sum + x)
  | [], _, _, _, p, _, _, hp => by simp at hp
  | a :: rows, ns, i, off, p, acc, hn, hp => by
    obtain ⟨n, ns', rfl⟩ : ∃ n ns', ns = n :: ns' := by
      cases ns with
      | nil => simp at hn
      | cons n ns' => exact ⟨n, ns', rfl⟩
    by_cases hlt : p < a.length
    · refine ⟨0, p, a[p], ?_, by simp, by simp [hlt], ?_⟩
      · simp only [List.map_cons, mapIdx]
        rw [if_pos ⟨by omega, by omega⟩]
        simp only [Nat.add_zero, Option.some.injEq, Prod.mk.injEq, true_and]
        omega
      · simp only [shiftedRows, List.take_zero, List.sum_nil, Int.add_zero]
        rw [List.getElem?_append_left (by simpa using hlt)]
        simp [hlt]
    · simp only [List.flatten_cons, List.length_append] at hp
      obtain ⟨k, l, x, h1, h2, h3, h4⟩ := mapIdx_shifted rows ns' (i + 1) (off + a.length) (p - a.length) (acc + n)
        (by simpa using hn) (by omega)
      refine ⟨k + 1, l, x, ?_, by simp only [List.length_cons]; omega, by simpa using h3, ?_⟩
      · simp only [List.map_cons, mapIdx]
        rw [if_neg (by omega)]
        have e : off + a.length + (p - a.length) = off + p := by omega
        rw [e] at h1
        rw [h1]
        simp only [Option.some.injEq, Prod.mk.injEq, and_true]
        omega
      · simp only [shiftedRows, List.tail_cons, List.headD_cons, List.take_succ_cons, List.sum_cons]
        rw [List.getElem?_append_right (by simp; omega)]
        simp only [List.length_map]
        rw [h4]
        simp only [Option.some.injEq]
        omega

/-- MIRROR = SPEC: `multiOffsetIndex.FirstRowIndex(p)` for a page in range is the member's local first row plus the
    rows of all the members before it — the entry of `shiftedRows` — for any number of members, empty ones included -/
theorem multiFirstRowAt_shifted (rows : List (List Int)) (numRows : List Int) (hn : numRows.length = rows.length)
    (p : Nat) (hp : p < rows.flatten.length) :
    multiFirstRowAt rows numRows (p : Int) = (shiftedRows rows numRows 0)[p]? := by
  obtain ⟨k, l, x, h1, h2, h3, h4⟩ := mapIdx_shifted rows numRows 0 0 p 0 hn hp
  simp only [Nat.zero_add] at h1
  simp only [multiFirstRowAt, mapIdxGo, h1, h3, h4, Option.map_some, rowOffsetsFrom_getD numRows 0 k h2]

/-- a member's own offset index is sane: first rows sorted, the first one not negative, all below its row count -/
def MemberRowsOK (r : List Int) (n : Int) : Prop :=
  isAsc r = true ∧ (∀ x ∈ r, 0 ≤ x ∧ x < n) ∧ 0 ≤ n

theorem isAsc_cons_of_le : ∀ (l : List Int) (a : Int), isAsc l = true → (∀ x ∈ l, a ≤ x) → isAsc (a :: l) = true
  | [], _, _, _ => rfl
  | b :: t, a, h, hle => by
    simp only [isAsc, Bool.and_eq_true, decide_eq_true_eq]
    exact ⟨hle b (by simp), h⟩

theorem isAsc_append_of_le : ∀ (l1 l2 : List Int), isAsc l1 = true → isAsc l2 = true →
    (∀ x ∈ l1, ∀ y ∈ l2, x ≤ y) → isAsc (l1 ++ l2) = true
  | [], _, _, h2, _ => by simpa using h2
  | [a], l2, _, h2, h => by
    exact isAsc_cons_of_le l2 a h2 (fun y hy => h a (by simp) y hy)
  | a :: b :: t, l2, h1, h2, h => by
    simp only [isAsc, Bool.and_eq_true, decide_eq_true_eq] at h1
    have ih := isAsc_append_of_le (b :: t) l2 h1.2 h2 (fun x hx y hy => h x (List.mem_cons_of_mem _ hx) y hy)
    simp only [List.cons_append, isAsc, Bool.and_eq_true, decide_eq_true_eq] at ih ⊢
    exact ⟨h1.1, ih⟩

theorem isAsc_map_add : ∀ (l : List Int) (c : Int), isAsc l = true → isAsc (l.map (c + ·)) = true
  | [], _, _ => rfl
  | [_], _, _ => rfl
  | a :: b :: t, c, h => by
    simp only [isAsc, Bool.and_eq_true, decide_eq_true_eq] at h
    have ih := isAsc_map_add (b :: t) c h.2
    simp only [List.map_cons, isAsc, Bool.and_eq_true, decide_eq_true_eq] at ih ⊢
    exact ⟨by omega, ih⟩

theorem shiftedRows_ge : ∀ (rows : List (List Int)) (ns : List Int) (acc : Int), ns.length = rows.length →
    (∀ i, i < rows.length → MemberRowsOK (rows.getD i []) (ns.getD i 0)) →
    ∀ y ∈ shiftedRows rows ns acc, acc ≤ y
  | [], _, _, _, _, y, hy => by simp [shiftedRows] at hy
  | a :: rows, ns, acc, hn, hok, y, hy => by
    obtain ⟨n, ns', rfl⟩ : ∃ n ns', ns = n :: ns' := by
      cases ns with
      | nil => simp at hn
      | cons n ns' => exact ⟨n, ns', rfl⟩
    have h0 := hok 0 (by simp)
    simp only [List.getD_cons_zero] at h0
    simp only [shiftedRows, List.tail_cons, List.headD_cons, List.mem_append, List.mem_map] at hy
    rcases hy with ⟨x, hx, rfl⟩ | hy
    · have := (h0.2.1 x hx).1; omega
    · have := shiftedRows_ge rows ns' (acc + n) (by simpa using hn)
        (fun i hi => by simpa using hok (i + 1) (by simp only [List.length_cons]; omega)) y hy
      have := h0.2.2; omega

/-- the first rows the multi offset index shows are sorted whenever every member's are (what the
    `sort.Search`-by-`FirstRowIndex` of `SeekToRow` and the row range of a page found by `Find` rely on) -/
theorem shiftedRows_sorted : ∀ (rows : List (List Int)) (ns : List Int) (acc : Int), ns.length = rows.length →
    (∀ i, i < rows.length → MemberRowsOK (rows.getD i []) (ns.getD i 0)) →
    isAsc (shiftedRows rows ns acc) = true
  | [], _, _, _, _ => rfl
  | a :: rows, ns, acc, hn, hok => by
    obtain ⟨n, ns', rfl⟩ : ∃ n ns', ns = n :: ns' := by
      cases ns with
      | nil => simp at hn
      | cons n ns' => exact ⟨n, ns', rfl⟩
    have h0 := hok 0 (by simp)
    simp only [List.getD_cons_zero] at h0
    have hrest : ∀ i, i < rows.length → MemberRowsOK (rows.getD i []) (ns'.getD i 0) :=
      fun i hi => by simpa using hok (i + 1) (by simp only [List.length_cons]; omega)
    simp only [shiftedRows, List.tail_cons, List.headD_cons]
    apply isAsc_append_of_le _ _ (isAsc_map_add a acc h0.1)
      (shiftedRows_sorted rows ns' (acc + n) (by simpa using hn) hrest)
    intro x hx y hy
    simp only [List.mem_map] at hx
    obtain ⟨x0, hx0, rfl⟩ := hx
    have := shiftedRows_ge rows ns' (acc + n) (by simpa using hn) hrest y hy
    have := (h0.2.1 x0 hx0).2
    omega

/-! ### `Find` over members without pages -/

def hasPage (c : Chunk) : Bool := decide (0 < c.n)

theorem wf_empty {c : Chunk} (hwf : c.WF) (h : ¬ 0 < c.n) : c.ix.mins = [] ∧ c.ix.maxs = [] ∧ c.nulls = [] := by
  have h0 : c.ix.mins.length = 0 := by simp only [Chunk.n, Index.n] at h; omega
  have h1 := hwf.1
  have h2 := hwf.2
  exact ⟨List.eq_nil_of_length_eq_zero h0, List.eq_nil_of_length_eq_zero (by omega),
    List.eq_nil_of_length_eq_zero (by omega)⟩

/-- members without pages contribute nothing to the concatenation -/
theorem concat_filter_hasPage : ∀ (cs : List Chunk), (∀ c ∈ cs, c.WF) →
    concat (cs.filter hasPage) = concat cs ∧ concatNulls (cs.filter hasPage) = concatNulls cs
  | [], _ => ⟨rfl, rfl⟩
  | c :: cs, hwf => by
    have ih := concat_filter_hasPage cs (fun c' hc' => hwf c' (by simp [hc']))
    simp only [concat, Index.mk.injEq, concatNulls] at ih
    by_cases h : 0 < c.n
    · simp only [List.filter_cons, hasPage, h, decide_true, if_true, concat, List.flatMap_cons, concatNulls, Index.mk.injEq]
      rw [ih.1.1, ih.1.2, ih.2]
      exact ⟨⟨rfl, rfl⟩, rfl⟩
    · obtain ⟨e1, e2, e3⟩ := wf_empty (hwf c (by simp)) h
      simp only [List.filter_cons, hasPage, h, decide_false, Bool.false_eq_true, if_false, concat, List.flatMap_cons,
        concatNulls, Index.mk.injEq, e1, e2, e3, List.nil_append]
      exact ih

/-- the seam loop skips a member without pages (`nonNullPageRange` answers first 0 > last -1) -/
theorem ascSeams_filter_hasPage (z : Int) : ∀ (cs : List Chunk) (prev : Option Int),
    ascSeams z prev (cs.filter hasPage) = ascSeams z prev cs
  | [], _ => rfl
  | c :: cs, prev => by
    by_cases h : 0 < c.n
    · simp only [List.filter_cons, hasPage, h, decide_true, if_true, ascSeams]
      cases firstNonNull c <;> cases lastNonNull c <;> simp only [ascSeams_filter_hasPage z cs]
    · have hn : c.n = 0 := by omega
      have hf : firstNonNull c = none := by simp [firstNonNull, hn, firstNonNullAux]
      simp only [List.filter_cons, hasPage, h, decide_false, Bool.false_eq_true, if_false, ascSeams, hf]
      exact ascSeams_filter_hasPage z cs prev

theorem ascending_nil : ∃ mn mx, Ascending { mins := [], maxs := [] } mn mx :=
  ⟨fun _ => 0, fun _ => 0,
    { len := rfl
      mins := by intro i hi; simp [Index.n] at hi
      maxs := by intro i hi; simp [Index.n] at hi
      smin := by intro i j _ hj; simp [Index.n] at hj
      smax := by intro i j _ hj; simp [Index.n] at hj
      le := by intro i hi; simp [Index.n] at hi }⟩

/-- `multiAscending_sound` for ANY members: a member may have no page and still claim ASCENDING (an empty row
    group; the loop skips it) — the hypothesis `hne` of `multiAscending_sound` is not needed. -/
theorem multiAscending_sound_any (z : Int) (cs : List Chunk)
    (hwf : ∀ c ∈ cs, c.WF)
    (hnull : (concatNulls cs).any id = false)
    (hbnd : ∀ c ∈ cs, c.nulls.any id = false → hasNull c.ix = false)
    (htruth : ∀ c ∈ cs, c.asc = true →
      isAsc (c.ix.mins.map (stored z)) = true ∧ isAsc (c.ix.maxs.map (stored z)) = true)
    (hle : ∀ c ∈ cs, ∀ i a b, i < c.n → minAt c.ix i = some a → maxAt c.ix i = some b → a ≤ b)
    (hflag : multiIsAscending z cs = true) :
    ∃ mn mx, Ascending (concat cs) mn mx := by
  obtain ⟨e1, e2⟩ := concat_filter_hasPage cs hwf
  have hsub : ∀ c ∈ cs.filter hasPage, c ∈ cs := fun c hc => (List.mem_filter.mp hc).1
  rw [← e1]
  by_cases hemp : cs.filter hasPage = []
  · rw [hemp]; exact ascending_nil
  · simp only [multiIsAscending, Bool.and_eq_true, List.all_eq_true] at hflag
    apply multiAscending_sound z (cs.filter hasPage) (fun c hc => hwf c (hsub c hc)) (by rw [e2]; exact hnull)
      (fun c hc => hbnd c (hsub c hc))
      (fun c hc _ => by simpa [hasPage] using (List.mem_filter.mp hc).2)
      (fun c hc => htruth c (hsub c hc)) (fun c hc => hle c (hsub c hc))
    simp only [multiIsAscending, Bool.and_eq_true, List.all_eq_true, ascSeams_filter_hasPage]
    refine ⟨⟨?_, fun c hc => hflag.1.2 c (hsub c hc)⟩, hflag.2⟩
    cases hf : cs.filter hasPage with
    | nil => exact absurd hf hemp
    | cons _ _ => rfl

/-- `Find` on a multi index never misses, for any members (with or without pages, null pages anywhere): the first
    page of the concatenation whose bounds contain `v`, else the total number of pages. -/
theorem findMulti_no_miss_any (nf : Bool) (z : Int) (cs : List Chunk) (v : Int)
    (hwf : ∀ c ∈ cs, c.WF)
    (hbnd : ∀ c ∈ cs, c.nulls.any id = false → hasNull c.ix = false)
    (htruth : ∀ c ∈ cs, c.asc = true →
      isAsc (c.ix.mins.map (stored z)) = true ∧ isAsc (c.ix.maxs.map (stored z)) = true)
    (hle : ∀ c ∈ cs, ∀ i a b, i < c.n → minAt c.ix i = some a → maxAt c.ix i = some b → a ≤ b) :
    let r := findMultiGo nf z cs v
    r ≤ (concat cs).n ∧ (r < (concat cs).n → contains nf (concat cs) r v = true) ∧
    (∀ p, p < (concat cs).n → contains nf (concat cs) p v = true → r ≤ p) := by
  simp only [findMultiGo_eq nf z cs v hwf, findMulti, findView]
  by_cases hc : (multiIsAscending z cs && !(concatNulls cs).any id) = true
  · rw [if_pos hc]
    simp only [Bool.and_eq_true, Bool.not_eq_true'] at hc
    obtain ⟨mn, mx, ha⟩ := multiAscending_sound_any z cs hwf hc.2 hbnd htruth hle hc.1
    exact binarySearch_first nf ha v
  · rw [if_neg hc]
    exact linearSearch_first nf (concat cs) v

/-! ### per member: a page of member `k` that contains the value is never missed -/

theorem total_append (pre post : List Chunk) : total (pre ++ post) = total pre + total post := by
  simp [total]

/-- page `l` of the member after `pre` is page `total pre + l` of the concatenation -/
theorem contains_concat_member (nf : Bool) (pre post : List Chunk) (c : Chunk) (l : Nat) (v : Int)
    (hwf : ∀ c' ∈ pre ++ c :: post, c'.WF) (hl : l < c.n) :
    contains nf (concat (pre ++ c :: post)) (total pre + l) v = contains nf c.ix l v := by
  have hpre : ∀ c' ∈ pre, c'.WF := fun c' hc' => hwf c' (by simp [hc'])
  have hc := hwf c (by simp)
  have n1 : (pre.flatMap fun c => c.ix.mins).length = total pre := concat_n pre
  have n2 : (pre.flatMap fun c => c.ix.maxs).length = total pre := by
    have := concat_maxs_length pre hpre
    simp only [concat] at this
    omega
  have hm : minAt (concat (pre ++ c :: post)) (total pre + l) = minAt c.ix l := by
    simp only [minAt, concat, List.flatMap_append, List.flatMap_cons]
    rw [getD_append_ge none _ _ _ (by omega), n1, Nat.add_sub_cancel_left, getD_append_lt none _ _ _ hl]
  have hx : maxAt (concat (pre ++ c :: post)) (total pre + l) = maxAt c.ix l := by
    simp only [maxAt, concat, List.flatMap_append, List.flatMap_cons]
    rw [getD_append_ge none _ _ _ (by omega), n2, Nat.add_sub_cancel_left,
      getD_append_lt none _ _ _ (by rw [hc.1]; exact hl)]
  simp only [contains, hm, hx]

/-- C06 over a multi row group, per member: if page `l` of the member that comes after the members `pre` has
    bounds that contain `v`, `Find` on the multi index answers a page at or before that page's number in the multi
    index (`total pre + l`), inside the index, whose bounds contain `v`. -/
theorem findMulti_no_miss_member (nf : Bool) (z : Int) (pre post : List Chunk) (c : Chunk) (l : Nat) (v : Int)
    (hwf : ∀ c' ∈ pre ++ c :: post, c'.WF)
    (hbnd : ∀ c' ∈ pre ++ c :: post, c'.nulls.any id = false → hasNull c'.ix = false)
    (htruth : ∀ c' ∈ pre ++ c :: post, c'.asc = true →
      isAsc (c'.ix.mins.map (stored z)) = true ∧ isAsc (c'.ix.maxs.map (stored z)) = true)
    (hle : ∀ c' ∈ pre ++ c :: post, ∀ i a b, i < c'.n → minAt c'.ix i = some a → maxAt c'.ix i = some b → a ≤ b)
    (hl : l < c.n) (hv : contains nf c.ix l v = true) :
    let cs := pre ++ c :: post
    let r := findMultiGo nf z cs v
    r ≤ total pre + l ∧ r < total cs ∧ contains nf (concat cs) r v = true := by
  intro cs r
  obtain ⟨_, h2, h3⟩ := findMulti_no_miss_any nf z cs v hwf hbnd htruth hle
  have hn : (concat cs).n = total cs := concat_n cs
  have ht : total cs = total pre + (c.n + total post) := by
    simp only [cs, total_append, total_cons]
  have hp : total pre + l < (concat cs).n := by omega
  have hr := h3 (total pre + l) hp (by rw [contains_concat_member nf pre post c l v hwf hl]; exact hv)
  have hr' : r ≤ total pre + l := hr
  exact ⟨hr', by omega, h2 (by omega)⟩

/-! ### from the values of the members' pages -/

/-- MIRROR: what a member chunk written by the writer shows: the index of its page values (`indexOfPages`),
    null page = no bounds, ASCENDING / DESCENDING = the boundary order the indexer computed -/
def chunkOfPages {α} (bnd : List α → Option (α × α)) (key : α → Int) (z : Int) (pages : List (List (Option α))) : Chunk :=
  let ix := indexOfPages bnd key pages
  { nulls := ix.mins.map Option.isNone, ix := ix, asc := writerOrder z ix == 1, desc := writerOrder z ix == 2 }

theorem pageBound_isNone {α} (bnd : List α → Option (α × α)) (key : α → Int) (p : List (Option α)) :
    (pageBound bnd key p).2.isNone = (pageBound bnd key p).1.isNone := by
  unfold pageBound
  split <;> rfl

theorem chunkOfPages_wf {α} (bnd : List α → Option (α × α)) (key : α → Int) (z : Int) (pages : List (List (Option α))) :
    (chunkOfPages bnd key z pages).WF := by
  simp [chunkOfPages, Chunk.WF, indexOfPages]

theorem chunkOfPages_hbnd {α} (bnd : List α → Option (α × α)) (key : α → Int) (z : Int) (pages : List (List (Option α)))
    (h : (chunkOfPages bnd key z pages).nulls.any id = false) : hasNull (chunkOfPages bnd key z pages).ix = false := by
  simp only [chunkOfPages, indexOfPages, List.map_map, List.any_map, hasNull, Bool.or_eq_false_iff] at h ⊢
  refine ⟨?_, ?_⟩
  · simpa [Function.comp_def] using h
  · simp only [Function.comp_def, pageBound_isNone]
    simpa [Function.comp_def] using h

/-- C06 over a multi row group, on the VALUES: members given by the values of their pages (any number of members,
    any number of pages each incl. none, null values and all-null pages anywhere), indexes built by the writer's
    steps with any sound bounds function. A value held by page `l` of member `pre.length` is answered by `Find` on
    the multi index with a page `r` at or before that page, whose recorded bounds contain it. -/
theorem findMulti_no_miss_values {α} (nf : Bool) (z : Int) {bnd : List α → Option (α × α)} {key : α → Int}
    (hb : BoundsFor bnd key) (pre post : List (List (List (Option α)))) (pages : List (List (Option α)))
    (l : Nat) (hl : l < pages.length) (x : α) (hx : some x ∈ pages.getD l []) :
    let cs := (pre ++ pages :: post).map (chunkOfPages bnd key z)
    let r := findMultiGo nf z cs (key x)
    r ≤ total (pre.map (chunkOfPages bnd key z)) + l ∧ r < total cs ∧ contains nf (concat cs) r (key x) = true := by
  intro cs r
  have hcs : cs = pre.map (chunkOfPages bnd key z) ++ chunkOfPages bnd key z pages :: post.map (chunkOfPages bnd key z) := by
    simp [cs]
  have hmem : ∀ c' ∈ cs, ∃ pg, c' = chunkOfPages bnd key z pg := by
    intro c' hc'
    simp only [cs, List.mem_map] at hc'
    obtain ⟨pg, _, rfl⟩ := hc'
    exact ⟨pg, rfl⟩
  have := findMulti_no_miss_member nf z (pre.map (chunkOfPages bnd key z)) (post.map (chunkOfPages bnd key z))
    (chunkOfPages bnd key z pages) l (key x)
    (by rw [← hcs]; intro c' hc'; obtain ⟨pg, rfl⟩ := hmem c' hc'; exact chunkOfPages_wf bnd key z pg)
    (by rw [← hcs]; intro c' hc'; obtain ⟨pg, rfl⟩ := hmem c' hc'; exact chunkOfPages_hbnd bnd key z pg)
    (by
      rw [← hcs]; intro c' hc' ha; obtain ⟨pg, rfl⟩ := hmem c' hc'
      have hw : writerOrder z (indexOfPages bnd key pg) = 1 := by simpa [chunkOfPages] using ha
      exact ⟨(writerOrder_one z _ hw).1, (writerOrder_one z _ hw).2.1⟩)
    (by rw [← hcs]; intro c' hc'; obtain ⟨pg, rfl⟩ := hmem c' hc'; exact indexOfPages_le hb pg)
    (by simp [chunkOfPages, Chunk.n, indexOfPages_n, hl])
    (contains_of_mem nf hb pages l hl x hx)
  rw [← hcs] at this
  exact this

end PqModel.Search

namespace PqModel.Search

/-- the two mirrors of the forwarding accessors agree on the pages `Find` reads: `multiAt` (this file) answers what
    `multiMinAt` / `multiMaxAt` / `multiNullAt` (`SearchMulti.lean`, the view `findMultiGo` searches) answer -/
theorem multiAt_eq_view (cs : List Chunk) (hwf : ∀ c ∈ cs, c.WF) (p : Nat) (hp : p < total cs) :
    multiAt (cs.map (·.ix.mins)) (p : Int) = some (multiMinAt cs p) ∧
    multiAt (cs.map (·.ix.maxs)) (p : Int) = some (multiMaxAt cs p) ∧
    multiAt (cs.map (·.nulls)) (p : Int) = some (multiNullAt cs p) := by
  obtain ⟨c, l, h1, _, _, h4, h5, h6⟩ := mapPage_concat cs 0 p hwf hp
  simp only [Nat.zero_add] at h1
  have hn := concat_n cs
  have hm := concat_maxs_length cs hwf
  have hl := concatNulls_length cs hwf
  simp only [Index.n] at hn
  have e1 : (cs.map (·.ix.mins)).flatten = (concat cs).mins := by simp [concat, List.flatMap_def]
  have e2 : (cs.map (·.ix.maxs)).flatten = (concat cs).maxs := by simp [concat, List.flatMap_def]
  have e3 : (cs.map (·.nulls)).flatten = concatNulls cs := by simp [concatNulls, List.flatMap_def]
  refine ⟨?_, ?_, ?_⟩
  · have hlt : p < (concat cs).mins.length := by rw [hn]; exact hp
    rw [multiAt_flatten _ p (by rw [e1]; exact hlt), e1]
    simp only [multiMinAt, mapPageGo, h1]
    rw [h4]
    simp only [minAt, List.getD_eq_getElem?_getD, List.getElem?_eq_getElem hlt, Option.getD_some]
  · have hlt : p < (concat cs).maxs.length := by rw [hm, hn]; exact hp
    rw [multiAt_flatten _ p (by rw [e2]; exact hlt), e2]
    simp only [multiMaxAt, mapPageGo, h1]
    rw [h5]
    simp only [maxAt, List.getD_eq_getElem?_getD, List.getElem?_eq_getElem hlt, Option.getD_some]
  · have hlt : p < (concatNulls cs).length := by rw [hl]; exact hp
    rw [multiAt_flatten _ p (by rw [e3]; exact hlt), e3]
    simp only [multiNullAt, mapPageGo, h1]
    rw [h6]
    simp only [List.getD_eq_getElem?_getD, List.getElem?_eq_getElem hlt, Option.getD_some]

end PqModel.Search
