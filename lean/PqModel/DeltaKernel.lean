import PqModel.DeltaProofs

/-! # The word-level bit packing kernel of the DELTA_BINARY_PACKED encoder

MIRROR of `encodeMiniBlockInt32/64` (binary_packed_purego.go:9-28 / 30-49): the destination is
read and written as little-endian machine words; every value is OR-ed into the word holding its
first bit (`lo`) and, shifted the other way, into the next word (`hi`). `kernel_eq_packMini`
proves that the bytes this loop leaves in a zero-filled buffer are the LSB-first bit packing
`packMini` used by `PqModel/Delta.lean`, whenever every value fits the width (which
`lt_miniWidth` guarantees for the widths the encoder computes). Generic in the word size `W`
(32 and 64 are instantiated at the end). -/
namespace PqModel.Delta
open PqModel.Bits

/-- `k` little-endian base-256 digits -/
def digits256 : Nat → Nat → List Nat
  | 0, _ => []
  | k + 1, N => N % 256 :: digits256 k (N / 256)

/-- `binary.LittleEndian.PutUint32/64` -/
def wordBytes {W : Nat} (x : BitVec W) : List Nat := digits256 (W / 8) x.toNat

def wordsToBytes {W : Nat} (ws : List (BitVec W)) : List Nat := ws.flatMap wordBytes

/-- MIRROR binary_packed_purego.go:9-28 (W = 32) / 30-49 (W = 64), the loop body for the values
`src` starting at `bitOffset = off`, on the destination seen as words:
`i := bitOffset / W; j := bitOffset % W; lo |= (value & bitMask) << j; hi |= value >> (W - j)`
(`bitMask = 1<<bitWidth - 1`; a Go shift by `W` gives 0, as `BitVec` shifts do). -/
def encodeMiniBlockWords {W : Nat} (w : Nat) : List (BitVec W) → Nat → List (BitVec W) → List (BitVec W)
  | [], _, dst => dst
  | v :: vs, off, dst =>
    encodeMiniBlockWords w vs (off + w)
      ((dst.set (off / W) (dst.getD (off / W) 0 ||| ((v &&& BitVec.ofNat W (2 ^ w - 1)) <<< (off % W)))).set
        (off / W + 1) (dst.getD (off / W + 1) 0 ||| (v >>> (W - off % W))))

/-- MIRROR of the call site binary_packed.go:110-116 / 156-162: the kernel runs on a zero-filled
buffer (`resize` zero-fills; `L` words, more than the miniblock needs) and the caller keeps
`miniBlockSize * bitWidth / 8` bytes. -/
def kernelBytes {W : Nat} (w L : Nat) (src : List (BitVec W)) : List Nat :=
  (wordsToBytes (encodeMiniBlockWords w src 0 (List.replicate L (0 : BitVec W)))).take (src.length * w / 8)

/-! ### the buffer as one little-endian number -/

def val {W : Nat} : List (BitVec W) → Nat
  | [] => 0
  | x :: xs => x.toNat + 2 ^ W * val xs

theorem getD_val {W : Nat} : ∀ (ws : List (BitVec W)) (k : Nat),
    (ws.getD k 0).toNat = val ws / 2 ^ (W * k) % 2 ^ W
  | [], k => by simp [val]
  | x :: xs, 0 => by
    simp only [List.getD_cons_zero, val, Nat.mul_zero, Nat.pow_zero, Nat.div_one, Nat.add_mul_mod_self_left]
    exact (Nat.mod_eq_of_lt x.isLt).symm
  | x :: xs, k + 1 => by
    have hx := x.isLt
    have hp : 0 < 2 ^ W := Nat.two_pow_pos W
    simp only [List.getD_cons_succ, val, getD_val xs k]
    have e : 2 ^ (W * (k + 1)) = 2 ^ W * 2 ^ (W * k) := by rw [Nat.mul_succ, Nat.pow_add, Nat.mul_comm]
    rw [e, ← Nat.div_div_eq_div_mul]
    have : (x.toNat + 2 ^ W * val xs) / 2 ^ W = val xs := by
      rw [Nat.add_comm, Nat.mul_add_div hp, Nat.div_eq_of_lt hx, Nat.add_zero]
    rw [this]

theorem val_set {W : Nat} : ∀ (ws : List (BitVec W)) (k : Nat) (x : BitVec W), k < ws.length →
    val (ws.set k x) + (ws.getD k 0).toNat * 2 ^ (W * k) = val ws + x.toNat * 2 ^ (W * k)
  | [], k, x, h => by simp at h
  | y :: ys, 0, x, _ => by simp [val]; omega
  | y :: ys, k + 1, x, h => by
    have ih := val_set ys k x (by simpa using h)
    have e : 2 ^ (W * (k + 1)) = 2 ^ W * 2 ^ (W * k) := by rw [Nat.mul_succ, Nat.pow_add, Nat.mul_comm]
    simp only [List.set_cons_succ, List.getD_cons_succ, val, e]
    generalize 2 ^ (W * k) = P at *
    generalize 2 ^ W = Q at *
    generalize val (ys.set k x) = A at *
    generalize val ys = B at *
    generalize (ys.getD k 0).toNat = c at *
    have : Q * A + c * (Q * P) = Q * B + x.toNat * (Q * P) := by
      have := congrArg (Q * ·) ih
      grind
    omega

theorem split_shift (v W j : Nat) (hj : j ≤ W) :
    (v % 2 ^ (W - j)) * 2 ^ j + 2 ^ W * (v / 2 ^ (W - j)) = v * 2 ^ j := by
  have e : 2 ^ W = 2 ^ (W - j) * 2 ^ j := by rw [← Nat.pow_add]; congr 1; omega
  have hd := Nat.div_add_mod v (2 ^ (W - j))
  rw [e]
  generalize 2 ^ (W - j) = P at *
  generalize 2 ^ j = Q at *
  generalize v / P = q at *
  generalize v % P = r at *
  subst hd
  grind

/-- one value: OR-ing it into `lo` and `hi` adds `v * 2^off` to the buffer seen as a number -/
theorem val_step {W : Nat} (w : Nat) (dst : List (BitVec W)) (off : Nat) (v : BitVec W) (hW : 0 < W)
    (hw : w ≤ W) (hv : v.toNat < 2 ^ w) (hval : val dst < 2 ^ off) (hroom : off / W + 1 < dst.length) :
    val ((dst.set (off / W) (dst.getD (off / W) 0 ||| ((v &&& BitVec.ofNat W (2 ^ w - 1)) <<< (off % W)))).set
        (off / W + 1) (dst.getD (off / W + 1) 0 ||| (v >>> (W - off % W))))
      = val dst + v.toNat * 2 ^ off := by
  have hj : off % W < W := Nat.mod_lt _ hW
  have hoff : off = W * (off / W) + off % W := (Nat.div_add_mod off W).symm
  generalize hi' : off / W = i at *
  generalize hj' : off % W = j at *
  -- the two words involved
  have hpi : 0 < 2 ^ (W * i) := Nat.two_pow_pos _
  have hlow : val dst / 2 ^ (W * i) < 2 ^ j := by
    rw [Nat.div_lt_iff_lt_mul hpi, ← Nat.pow_add, Nat.add_comm, ← hoff]; exact hval
  have ha : (dst.getD i 0).toNat = val dst / 2 ^ (W * i) := by
    rw [getD_val, Nat.mod_eq_of_lt (Nat.lt_of_lt_of_le hlow (Nat.pow_le_pow_right (by omega) (by omega)))]
  have hb : (dst.getD (i + 1) 0).toNat = 0 := by
    rw [getD_val]
    have : val dst / 2 ^ (W * (i + 1)) = 0 := by
      apply Nat.div_eq_of_lt
      exact Nat.lt_of_lt_of_le hval (Nat.pow_le_pow_right (by omega) (by rw [Nat.mul_succ]; omega))
    rw [this]; simp
  have hb0 : dst.getD (i + 1) 0 = 0 := BitVec.eq_of_toNat_eq (by simpa using hb)
  -- value & mask = value
  have hmask : v &&& BitVec.ofNat W (2 ^ w - 1) = v := by
    apply BitVec.eq_of_toNat_eq
    have h1 : 2 ^ w ≤ 2 ^ W := Nat.pow_le_pow_right (by omega) hw
    have h2 : 0 < 2 ^ w := Nat.two_pow_pos w
    rw [BitVec.toNat_and, BitVec.toNat_ofNat, Nat.mod_eq_of_lt (by omega), Nat.and_two_pow_sub_one_eq_mod,
      Nat.mod_eq_of_lt hv]
  -- lo and hi as numbers
  have hshl : (v <<< j).toNat = (v.toNat % 2 ^ (W - j)) <<< j := by
    rw [BitVec.toNat_shiftLeft, Nat.shiftLeft_eq, Nat.shiftLeft_eq]
    have e : 2 ^ W = 2 ^ (W - j) * 2 ^ j := by rw [← Nat.pow_add]; congr 1; omega
    rw [e, Nat.mul_mod_mul_right]
  have hlo : (dst.getD i 0 ||| (v <<< j)).toNat = (dst.getD i 0).toNat + (v.toNat % 2 ^ (W - j)) * 2 ^ j := by
    rw [BitVec.toNat_or, hshl, Nat.or_comm, ← Nat.shiftLeft_add_eq_or_of_lt (by rw [ha]; exact hlow),
      Nat.shiftLeft_eq, Nat.add_comm]
  have hhi : ((0 : BitVec W) ||| (v >>> (W - j))).toNat = v.toNat / 2 ^ (W - j) := by
    simp [BitVec.toNat_ushiftRight, Nat.shiftRight_eq_div_pow]
  rw [hmask, hb0]
  have hlen1 : i < dst.length := by omega
  have hlen2 : i + 1 < (dst.set i (dst.getD i 0 ||| (v <<< j))).length := by simpa using hroom
  have s2 := val_set (dst.set i (dst.getD i 0 ||| (v <<< j))) (i + 1) ((0 : BitVec W) ||| (v >>> (W - j))) hlen2
  have s1 := val_set dst i (dst.getD i 0 ||| (v <<< j)) hlen1
  have hget : ((dst.set i (dst.getD i 0 ||| (v <<< j))).getD (i + 1) 0).toNat = 0 := by
    rw [List.getD_eq_getElem?_getD, List.getElem?_set_ne (by omega), ← List.getD_eq_getElem?_getD, hb]
  rw [hget, hhi] at s2
  rw [hlo] at s1
  have hsp := split_shift v.toNat W j (by omega)
  have e1 : 2 ^ (W * (i + 1)) = 2 ^ W * 2 ^ (W * i) := by rw [Nat.mul_succ, Nat.pow_add, Nat.mul_comm]
  have e2 : 2 ^ off = 2 ^ (W * i) * 2 ^ j := by rw [hoff, Nat.pow_add]
  rw [e1] at s2
  rw [e2]
  generalize 2 ^ (W * i) = P at *
  generalize 2 ^ W = Q at *
  generalize 2 ^ j = J at *
  generalize v.toNat % 2 ^ (W - j) = r at *
  generalize v.toNat / 2 ^ (W - j) = q at *
  generalize (dst.getD i 0).toNat = a at *
  generalize val (dst.set i (dst.getD i 0 ||| v <<< j)) = V1 at *
  generalize val ((dst.set i (dst.getD i 0 ||| v <<< j)).set (i + 1) (0 ||| v >>> (W - j))) = V2 at *
  generalize val dst = V0 at *
  simp only [Nat.zero_mul, Nat.add_zero] at s2
  have : v.toNat * (P * J) = (r * J + Q * q) * P := by rw [hsp]; grind
  rw [this]
  have h3 : (a + r * J) * P = a * P + r * J * P := Nat.add_mul _ _ _
  have h4 : (r * J + Q * q) * P = r * J * P + q * (Q * P) := by grind
  omega

/-! ### the loop -/

theorem fromBits_lt : ∀ (bs : List Bool), fromBits bs < 2 ^ bs.length
  | [] => by simp [fromBits]
  | b :: bs => by
    have := fromBits_lt bs
    simp only [fromBits, List.length_cons, Nat.pow_succ]
    cases b <;> simp <;> omega

theorem fromBits_append : ∀ (a b : List Bool), fromBits (a ++ b) = fromBits a + 2 ^ a.length * fromBits b
  | [], b => by simp [fromBits]
  | x :: a, b => by
    simp only [List.cons_append, fromBits, fromBits_append a b, List.length_cons, Nat.pow_succ]
    grind

theorem fromBits_packBits_cons (w v : Nat) (vs : List Nat) (hv : v < 2 ^ w) :
    fromBits (packBits w (v :: vs)) = v + 2 ^ w * fromBits (packBits w vs) := by
  simp only [packBits, List.map_cons, List.flatten_cons]
  rw [fromBits_append, toBits_length, fromBits_toBits w v hv]

theorem encodeMiniBlockWords_length {W : Nat} (w : Nat) : ∀ (vs : List (BitVec W)) (off : Nat) (dst : List (BitVec W)),
    (encodeMiniBlockWords w vs off dst).length = dst.length
  | [], _, _ => rfl
  | v :: vs, off, dst => by
    simp only [encodeMiniBlockWords, encodeMiniBlockWords_length w vs, List.length_set]

/-- the whole loop adds the LSB-first packed number of the values at bit `off` -/
theorem val_encodeMiniBlockWords {W : Nat} (w : Nat) (hW : 0 < W) (hw : w ≤ W) (hw0 : 0 < w) :
    ∀ (vs : List (BitVec W)) (off : Nat) (dst : List (BitVec W)),
    (∀ v ∈ vs, v.toNat < 2 ^ w) → val dst < 2 ^ off → off + w * vs.length + W ≤ W * dst.length →
    val (encodeMiniBlockWords w vs off dst) = val dst + 2 ^ off * fromBits (packBits w (vs.map BitVec.toNat))
  | [], off, dst, _, _, _ => by simp [encodeMiniBlockWords, packBits, fromBits]
  | v :: vs, off, dst, hv, hval, hroom => by
    have hv0 : v.toNat < 2 ^ w := hv v (by simp)
    have hr : off / W + 1 < dst.length := by
      simp only [List.length_cons, Nat.mul_succ] at hroom
      have h1 : off + W < W * dst.length := by omega
      have h2 : W * (off / W) ≤ off := Nat.mul_div_le off W
      have h3 : W * (off / W + 1) < W * dst.length := by rw [Nat.mul_succ]; omega
      exact Nat.lt_of_mul_lt_mul_left h3
    have hstep := val_step w dst off v hW hw hv0 hval hr
    simp only [encodeMiniBlockWords]
    rw [val_encodeMiniBlockWords w hW hw hw0 vs (off + w) _ (fun x hx => hv x (by simp [hx]))
      (by rw [hstep, Nat.pow_add]
          have : v.toNat * 2 ^ off < 2 ^ w * 2 ^ off := Nat.mul_lt_mul_of_pos_right hv0 (Nat.two_pow_pos _)
          have : 2 ^ off ≤ 2 ^ off * 2 ^ w - v.toNat * 2 ^ off := by
            rw [Nat.mul_comm (2 ^ off)]
            have : (v.toNat + 1) * 2 ^ off ≤ 2 ^ w * 2 ^ off := Nat.mul_le_mul_right _ hv0
            rw [Nat.add_mul] at this; omega
          omega)
      (by simp only [List.length_set, List.length_cons, Nat.mul_succ] at hroom ⊢; omega)]
    rw [hstep, List.map_cons, fromBits_packBits_cons w _ _ hv0, Nat.pow_add]
    grind

/-! ### numbers and bytes -/

theorem digits256_take : ∀ (k k' N : Nat), k' ≤ k → (digits256 k N).take k' = digits256 k' N
  | _, 0, _, _ => by simp [digits256]
  | 0, k' + 1, _, h => by omega
  | k + 1, k' + 1, N, h => by
    simp only [digits256, List.take_succ_cons, digits256_take k k' (N / 256) (by omega)]

theorem digits256_append : ∀ (a b x V : Nat), x < 256 ^ a →
    digits256 (a + b) (x + 256 ^ a * V) = digits256 a x ++ digits256 b V
  | 0, b, x, V, h => by
    have : x = 0 := by simpa using h
    simp [this, digits256]
  | a + 1, b, x, V, h => by
    have e : a + 1 + b = (a + b) + 1 := by omega
    rw [e]
    simp only [digits256, List.cons_append]
    rw [Nat.pow_succ] at h
    have h1 : (x + 256 ^ (a + 1) * V) % 256 = x % 256 := by
      rw [Nat.pow_succ, Nat.mul_comm (256 ^ a) 256, Nat.mul_assoc, Nat.add_mul_mod_self_left]
    have h2 : (x + 256 ^ (a + 1) * V) / 256 = x / 256 + 256 ^ a * V := by
      rw [Nat.pow_succ, Nat.mul_comm (256 ^ a) 256, Nat.mul_assoc, Nat.add_comm,
        Nat.mul_add_div (by decide), Nat.add_comm]
    rw [h1, h2, digits256_append a b (x / 256) V (by omega)]

theorem wordsToBytes_eq {W : Nat} (c : Nat) (hW : W = 8 * c) : ∀ (ws : List (BitVec W)),
    wordsToBytes ws = digits256 (c * ws.length) (val ws)
  | [] => by simp [wordsToBytes, digits256]
  | x :: xs => by
    have ih := wordsToBytes_eq c hW xs
    have hc : W / 8 = c := by omega
    have hp : 2 ^ W = 256 ^ c := by rw [hW, Nat.pow_mul]
    simp only [wordsToBytes, List.flatMap_cons, wordBytes, hc, List.length_cons, val, Nat.mul_succ] at ih ⊢
    rw [ih, Nat.add_comm (c * xs.length) c, hp, digits256_append c _ _ _ (by rw [← hp]; exact x.isLt)]

theorem bitsToBytes_eq : ∀ (f : Nat) (bits : List Bool), bits.length ≤ f →
    bitsToBytes f bits = digits256 ((bits.length + 7) / 8) (fromBits bits)
  | 0, bits, h => by
    have : bits = [] := by cases bits <;> simp_all
    subst this; simp [bitsToBytes, digits256]
  | f + 1, bits, h => by
    simp only [bitsToBytes]
    cases hb : bits with
    | nil => simp [digits256]
    | cons b t =>
      rw [← hb]
      have hne : bits.isEmpty = false := by rw [hb]; rfl
      have hpos : 0 < bits.length := by rw [hb]; simp
      simp only [hne, Bool.false_eq_true, if_false]
      rw [bitsToBytes_eq f (bits.drop 8) (by simp only [List.length_drop]; omega)]
      have hk : (bits.length + 7) / 8 = ((bits.drop 8).length + 7) / 8 + 1 := by
        simp only [List.length_drop]; omega
      rw [hk]
      simp only [digits256]
      have hsplit : fromBits bits = fromBits (bits.take 8) + 2 ^ (bits.take 8).length * fromBits (bits.drop 8) := by
        rw [← fromBits_append, List.take_append_drop]
      have hlt := fromBits_lt (bits.take 8)
      by_cases h8 : 8 ≤ bits.length
      · have hl : (bits.take 8).length = 8 := by simp only [List.length_take]; omega
        rw [hl] at hsplit hlt
        have h1 : fromBits bits % 256 = fromBits (bits.take 8) := by
          rw [hsplit, Nat.add_mul_mod_self_left]; exact Nat.mod_eq_of_lt hlt
        have h2 : fromBits bits / 256 = fromBits (bits.drop 8) := by
          rw [hsplit, Nat.add_comm, Nat.mul_add_div (by decide), Nat.div_eq_of_lt hlt, Nat.add_zero]
        rw [h1, h2]
      · have hd : bits.drop 8 = [] := List.drop_of_length_le (by omega)
        have ht : bits.take 8 = bits := List.take_of_length_le (by omega)
        have hlt' : fromBits bits < 256 := by
          have := fromBits_lt bits
          exact Nat.lt_of_lt_of_le this (by
            have : 2 ^ bits.length ≤ 2 ^ 8 := Nat.pow_le_pow_right (by omega) (by omega)
            simpa using this)
        rw [hd, ht, Nat.mod_eq_of_lt hlt', Nat.div_eq_of_lt hlt']
        simp [fromBits]

theorem val_zeros {W : Nat} : ∀ (L : Nat), val (List.replicate L (0 : BitVec W)) = 0
  | 0 => rfl
  | L + 1 => by
    have ih := val_zeros (W := W) L
    simp only [List.replicate_succ, val, ih, Nat.mul_zero, Nat.add_zero]
    simp

/-- **The kernel is LSB-first bit packing.** For word size `W = 8c` (32 or 64), any width
`0 < w ≤ W`, any number of values that all fit `w` bits, and a zero-filled buffer of `L` words with
one word to spare: the bytes `kernelBytes` keeps are `packMini w src`. -/
theorem kernel_eq_packMini {W : Nat} (c : Nat) (hW : W = 8 * c) (hc : 0 < c) (w L : Nat) (src : List (BitVec W))
    (hw0 : 0 < w) (hw : w ≤ W) (hv : ∀ v ∈ src, v.toNat < 2 ^ w) (hL : w * src.length + W ≤ W * L)
    (h8 : (w * src.length) % 8 = 0) :
    kernelBytes w L src = packMini w src := by
  have hWpos : 0 < W := by omega
  have hzero : val (List.replicate L (0 : BitVec W)) = 0 := val_zeros L
  have hval := val_encodeMiniBlockWords w hWpos hw hw0 src 0 (List.replicate L 0) hv (by rw [hzero]; simp)
    (by simpa using hL)
  rw [hzero] at hval
  simp only [Nat.zero_add, Nat.pow_zero, Nat.one_mul] at hval
  have hwne : ¬ w = 0 := by omega
  simp only [kernelBytes, packMini, hwne, if_false]
  rw [wordsToBytes_eq c hW, encodeMiniBlockWords_length, List.length_replicate, hval]
  have hlen : (packBits w (src.map BitVec.toNat)).length = w * src.length := by
    rw [packBits_length, List.length_map]
  rw [bitsToBytes_eq _ _ (by rw [hlen]; exact Nat.le_refl _), hlen]
  have hk : src.length * w / 8 = (w * src.length + 7) / 8 := by rw [Nat.mul_comm]; omega
  rw [hk]
  apply digits256_take
  -- the kept bytes fit the buffer
  have : w * src.length + 8 * c ≤ 8 * c * L := by rw [← hW]; exact hL
  have h9 : 8 * ((w * src.length + 7) / 8) ≤ w * src.length + 7 := Nat.mul_div_le _ 8
  have h10 : 8 * (c * L) = 8 * c * L := by rw [Nat.mul_assoc]
  omega

/-- INT32 miniblock (32 values of 32-bit words, `encodeMiniBlockInt32`) -/
theorem kernel32_eq_packMini (w L : Nat) (mb : List (BitVec 32)) (hl : mb.length = 32) (hw0 : 0 < w) (hw : w ≤ 32)
    (hv : ∀ v ∈ mb, v.toNat < 2 ^ w) (hL : w + 1 ≤ L) : kernelBytes w L mb = packMini w mb :=
  kernel_eq_packMini 4 rfl (by decide) w L mb hw0 hw hv (by rw [hl]; omega) (by rw [hl]; omega)

/-- INT64 miniblock (32 values of 64-bit words, `encodeMiniBlockInt64`) -/
theorem kernel64_eq_packMini (w L : Nat) (mb : List (BitVec 64)) (hl : mb.length = 32) (hw0 : 0 < w) (hw : w ≤ 64)
    (hv : ∀ v ∈ mb, v.toNat < 2 ^ w) (hL : w / 2 + 2 ≤ L) : kernelBytes w L mb = packMini w mb :=
  kernel_eq_packMini 8 rfl (by decide) w L mb hw0 hw hv (by rw [hl]; omega) (by rw [hl]; omega)

/-! ### the encoder with the word-level kernel in place of `packMini` -/

/-- MIRROR binary_packed.go:110-116 / 156-162: `if bitWidth != 0 { encodeMiniBlock(dst[n:], miniBlock, bitWidth); n += miniBlockSize*bitWidth/8 }`
on the freshly zero-filled tail of `dst` (66 words cover the largest miniblock plus the spill word). -/
def kernelMini {n : Nat} (mb : List (BitVec n)) : List Nat :=
  if miniWidth mb = 0 then [] else kernelBytes (miniWidth mb) 66 mb

/-- `encBlock` (PqModel/Delta.lean) with the miniblock bodies produced by the word-level kernel. -/
def encBlockK {n : Nat} (chunk : List (BitVec n)) (last : BitVec n) : List Nat × BitVec n :=
  let block := chunk ++ List.replicate (128 - chunk.length) 0
  let deltas := blockDelta block last
  let minD := blockMin deltas
  let subbed := deltas.map (· - minD)
  let cleared := subbed.take chunk.length ++ List.replicate (128 - chunk.length) 0
  let minis := [0, 1, 2, 3].map (fun i => (cleared.drop (32 * i)).take 32)
  (varintEnc (minD.signExtend 64) ++ minis.map miniWidth ++ minis.flatMap kernelMini,
   block.getLastD last)

def encBlocksK {n : Nat} : Nat → List (BitVec n) → BitVec n → List Nat
  | 0, _, _ => []
  | f + 1, rest, last =>
    if rest.isEmpty then []
    else (encBlockK (rest.take 128) last).1 ++ encBlocksK f (rest.drop 128) (encBlockK (rest.take 128) last).2

/-- `mirrorEncode` with the word-level kernel: the transliteration of `encodeInt32Default` /
`encodeInt64Default` down to the word OR-ing. This is what the driver runs for `delta.enc32/64`. -/
def mirrorEncodeK {n : Nat} (xs : List (BitVec n)) : List Nat :=
  encHeader xs.length (xs.headD 0) ++
    (if xs.length < 2 then [] else encBlocksK xs.length xs.tail (xs.headD 0))

theorem flatMap_congr_mem {α β : Type} (f g : α → List β) : ∀ (l : List α), (∀ x ∈ l, f x = g x) →
    l.flatMap f = l.flatMap g
  | [], _ => rfl
  | x :: l, h => by
    simp only [List.flatMap_cons, h x (by simp), flatMap_congr_mem f g l (fun y hy => h y (by simp [hy]))]

theorem kernelMini_eq {n : Nat} (hn : n = 32 ∨ n = 64) (mb : List (BitVec n)) (hl : mb.length = 32) :
    kernelMini mb = packMini (miniWidth mb) mb := by
  unfold kernelMini
  by_cases h0 : miniWidth mb = 0
  · simp [h0, packMini]
  · simp only [h0, if_false]
    have hle := miniWidth_le mb
    rcases hn with h | h
    · subst h
      exact kernel32_eq_packMini _ 66 mb hl (by omega) hle (lt_miniWidth mb) (by omega)
    · subst h
      exact kernel64_eq_packMini _ 66 mb hl (by omega) hle (lt_miniWidth mb) (by omega)

theorem encBlockK_eq {n : Nat} (hn : n = 32 ∨ n = 64) (chunk : List (BitVec n)) (last : BitVec n)
    (hc : chunk.length ≤ 128) : encBlockK chunk last = encBlock chunk last := by
  simp only [encBlockK, encBlock]
  congr 2
  apply flatMap_congr_mem
  intro mb hmb
  apply kernelMini_eq hn
  refine minis_length _ ?_ mb hmb
  simp only [List.length_append, List.length_take, List.length_map, blockDelta_length, List.length_replicate]
  omega

theorem encBlocksK_eq {n : Nat} (hn : n = 32 ∨ n = 64) : ∀ (f : Nat) (rest : List (BitVec n)) (last : BitVec n),
    encBlocksK f rest last = encBlocks f rest last
  | 0, _, _ => rfl
  | f + 1, rest, last => by
    simp only [encBlocksK, encBlocks]
    rw [encBlockK_eq hn (rest.take 128) last (by simp only [List.length_take]; omega), encBlocksK_eq hn f]

/-- the encoder mirror that goes down to the word-level OR produces the same bytes as the one
stated with LSB-first bit packing (to which the round-trip theorems apply) -/
theorem mirrorEncodeK_eq {n : Nat} (hn : n = 32 ∨ n = 64) (xs : List (BitVec n)) :
    mirrorEncodeK xs = mirrorEncode xs := by
  simp only [mirrorEncodeK, mirrorEncode, encBlocksK_eq hn]

end PqModel.Delta
